(* Dir: simfile/dir.py (SimfileDirectory, SimfilePack) and simfile/assets.py (C19, C20).
   Directory listings are inputs (names in the order listdir returned them); path algebra
   (join / split / normpath) stays with the real library and is applied by the harness. *)
From Coq Require Import List ZArith NArith Bool.
From SV Require Import Sx Str Simfile Generated.Tables.
Import ListNotations.
Open Scope N_scope.

(* extensions.match: the first extension (in the given order) the lower-cased name ends with *)
Fixpoint ext_match (lname : str) (exts : list str) : option str :=
  match exts with
  | [] => None
  | e :: r => if ends_with e lname then Some e else ext_match lname r
  end.
Definition match_ext (name : str) (exts : list str) : option str := ext_match (lower name) exts.

Definition eSM : str := [46; 115; 109].
Definition eSSC : str := [46; 115; 115; 99].

Inductive dres (T : Type) := DOk (x : T) | DDuplicate | DNotFound.
Arguments DOk {T} x. Arguments DDuplicate {T}. Arguments DNotFound {T}.

(* SimfileDirectory.__init__: (sm entry, ssc entry) *)
Fixpoint scan (listing : list str) (ignore_dup : bool) (sm ssc : option str) : dres (option str * option str) :=
  match listing with
  | [] => DOk (sm, ssc)
  | item :: r =>
      match match_ext item Tables.ext_simfile with
      | Some e =>
          if str_eqb e eSM then
            match sm with
            | Some _ => if ignore_dup then scan r ignore_dup sm ssc else DDuplicate
            | None => scan r ignore_dup (Some item) ssc
            end
          else if str_eqb e eSSC then
            match ssc with
            | Some _ => if ignore_dup then scan r ignore_dup sm ssc else DDuplicate
            | None => scan r ignore_dup sm (Some item)
            end
          else scan r ignore_dup sm ssc
      | None => scan r ignore_dup sm ssc
      end
  end.

Definition simfile_directory (listing : list str) (ignore_dup : bool) := scan listing ignore_dup None None.

(* which file open() reads: the SSC in preference to the SM *)
Definition dir_open_target (listing : list str) (ignore_dup : bool) : dres str :=
  match simfile_directory listing ignore_dup with
  | DOk (sm, ssc) => match ssc, sm with Some x, _ => DOk x | None, Some x => DOk x | None, None => DNotFound end
  | DDuplicate => DDuplicate
  | DNotFound => DNotFound
  end.

(* SimfilePack: entries of the pack directory, each with its own listing when it is a directory *)
Definition has_simfile (listing : list str) : bool :=
  existsb (fun item => match match_ext item Tables.ext_simfile with Some _ => true | None => false end) listing.
Fixpoint pack_dirs (entries : list (str * option (list str))) : list str :=
  match entries with
  | [] => []
  | (name, Some listing) :: r => if has_simfile listing then name :: pack_dirs r else pack_dirs r
  | (_, None) :: r => pack_dirs r
  end.

(* SimfilePack.banner: an image directly in the pack, by extension priority then listing order;
   else a sibling <pack name><ext> that exists, by the same priority *)
Definition first_with_ext (listing : list str) (e : str) : option str :=
  find (fun item => match match_ext item [e] with Some _ => true | None => false end) listing.
Fixpoint first_by_priority (listing : list str) (exts : list str) : option str :=
  match exts with
  | [] => None
  | e :: r => match first_with_ext listing e with Some x => Some x | None => first_by_priority listing r end
  end.
Inductive banner := BInside (item : str) | BBeside (name : str) | BNone.
Definition pack_banner (listing : list str) (pack_name : str) (siblings : list str) : banner :=
  match first_by_priority listing Tables.ext_image with
  | Some x => BInside x
  | None =>
      match find (fun e => mem_str (pack_name ++ e) siblings) Tables.ext_image with
      | Some e => BBeside (pack_name ++ e)
      | None => BNone
      end
  end.

(* ---- assets ---- *)
(* os.path.splitext on a bare file name: the extension starts at the last dot that is not a leading dot *)
Fixpoint all_dots (s : str) : bool := match s with [] => true | c :: r => (c =? 46) && all_dots r end.
Fixpoint splitext_go (s : str) (pre : str) (best : option str) : option str :=   (* returns the root (reversed accumulators) *)
  match s with
  | [] => best
  | c :: r =>
      let best' := if (c =? 46) && negb (all_dots (rev_append pre [])) then Some (rev_append pre []) else best in
      splitext_go r (c :: pre) best'
  end.
Definition splitext_root (name : str) : str :=
  match splitext_go name [] None with Some root => root | None => name end.

(* re.search(preset, root) for the preset shapes the table uses: text, ^text, text$ *)
Fixpoint contains (p s : str) : bool :=
  match s with
  | [] => match p with [] => true | _ => false end
  | _ :: r => starts_with p s || contains p r
  end.
Definition ends_with_re (p s : str) : bool := ends_with p s || ends_with (p ++ [10]) s.    (* '$' also matches before a final newline *)
Inductive pat := PContains (s : str) | PPrefix (s : str) | PSuffix (s : str) | PExact (s : str) | PUnmodelled.
Definition is_plain (s : str) : bool :=
  forallb (fun c => negb (existsb (N.eqb c) [46; 42; 43; 63; 40; 41; 91; 93; 123; 125; 124; 92; 94; 36])) s.
Definition parse_preset (p : str) : pat :=
  let pre := match p with 94 :: _ => true | _ => false end in
  let body1 := if pre then tl p else p in
  let suf := match rev body1 with 36 :: _ => true | _ => false end in
  let body := if suf then rev (tl (rev body1)) else body1 in
  if negb (is_plain body) then PUnmodelled
  else match pre, suf with
       | false, false => PContains body | true, false => PPrefix body | false, true => PSuffix body | true, true => PExact body
       end.
Definition pat_matches (pt : pat) (s : str) : option bool :=
  match pt with
  | PContains p => Some (contains p s)
  | PPrefix p => Some (starts_with p s)
  | PSuffix p => Some (ends_with_re p s)
  | PExact p => Some (str_eqb s p || str_eqb s (p ++ [10]))
  | PUnmodelled => None
  end.

(* AssetDefinition.matches *)
Definition asset_def := (str * list str * list str * bool)%type.   (* name, presets, extensions, match_by_extension *)
Definition def_matches (d : asset_def) (name : str) : option bool :=
  let '(_, presets, exts, by_ext) := d in
  let root := lower (splitext_root name) in
  let fix any (ps : list str) : option bool :=
    match ps with
    | [] => Some false
    | p :: r => match pat_matches (parse_preset p) root with
                | Some true => Some true
                | Some false => any r
                | None => None
                end
    end in
  match any presets with
  | Some true => Some true
  | Some false => Some (by_ext && match match_ext name exts with Some _ => true | None => false end)
  | None => None
  end.

Fixpoint find_def (kind : str) (defs : list asset_def) : option asset_def :=
  match defs with
  | [] => None
  | d :: r => let '(n, _, _, _) := d in if str_eqb n kind then Some d else find_def kind r
  end.

Inductive ares := AFound (item : str) | ANone | AUnmodelled.

(* the first entry of the listing (in listing order) that matches the kind's definition *)
Fixpoint first_match (d : asset_def) (listing : list str) : ares :=
  match listing with
  | [] => ANone
  | item :: r => match def_matches d item with
                 | Some true => AFound item
                 | Some false => first_match d r
                 | None => AUnmodelled
                 end
  end.

(* _get_case_insensitive_path: the first entry of the containing directory equal to the name, ignoring case *)
Definition find_ci (listing : list str) (filename : str) : option str :=
  find (fun item => str_eqb (lower item) (lower filename)) listing.

Inductive asset_answer := ASpecified (item : str) | APattern (item : str) | ANoAsset | AUnm.

(* [specified]: None when the property is absent or empty; otherwise the file name (last path
   component) and the listing of its containing directory (None when that is not a directory) *)
Definition asset_lookup (kind : str) (listing : list str) (specified : option (str * option (list str))) : asset_answer :=
  let fallback :=
    match find_def kind Tables.asset_definitions with
    | Some d => match first_match d listing with AFound x => APattern x | ANone => ANoAsset | AUnmodelled => AUnm end
    | None => AUnm
    end in
  match specified with
  | Some (filename, Some cl) => match find_ci cl filename with Some item => ASpecified item | None => fallback end
  | _ => fallback
  end.

(* ---- wire ---- *)
Definition sx_dres {T} (f : T -> sx) (r : dres T) : sx :=
  match r with DOk x => L [A 0%Z; f x] | DDuplicate => L [A 1%Z] | DNotFound => L [A 2%Z] end.
Definition sx_banner (b : banner) : sx :=
  match b with BInside x => L [A 0%Z; sx_str x] | BBeside x => L [A 1%Z; sx_str x] | BNone => L [A 2%Z] end.
Definition sx_answer (a : asset_answer) : sx :=
  match a with ASpecified x => L [A 0%Z; sx_str x] | APattern x => L [A 1%Z; sx_str x] | ANoAsset => L [A 2%Z] | AUnm => L [A 3%Z] end.
