(* Omap: Python's OrderedDict[str, V] as an association list in insertion order.
   Invariant (kept by every operation, [NoDupKeys]): keys are pairwise distinct. *)
From Coq Require Import List NArith Bool.
From SV Require Import Sx Str.
Import ListNotations.

Section Omap.
Context {V : Type}.
Definition omap := list (str * V).

Fixpoint get (k : str) (m : omap) : option V :=
  match m with
  | [] => None
  | (k', v) :: r => if str_eqb k k' then Some v else get k r
  end.

Definition has (k : str) (m : omap) : bool :=
  match get k m with Some _ => true | None => false end.

(* d[k] = v : replace in place, or append *)
Fixpoint set (k : str) (v : V) (m : omap) : omap :=
  match m with
  | [] => [(k, v)]
  | (k', v') :: r => if str_eqb k k' then (k', v) :: r else (k', v') :: set k v r
  end.

(* del d[k] : None = KeyError *)
Fixpoint del (k : str) (m : omap) : option omap :=
  match m with
  | [] => None
  | (k', v') :: r =>
      if str_eqb k k' then Some r
      else match del k r with Some r' => Some ((k', v') :: r') | None => None end
  end.

Definition keys (m : omap) : list str := map fst m.

(* OrderedDict.move_to_end(k): an existing key goes last, keeping its value *)
Definition move_to_end (k : str) (m : omap) : omap :=
  match get k m, del k m with
  | Some v, Some m' => m' ++ [(k, v)]
  | _, _ => m
  end.

Definition NoDupKeys (m : omap) : Prop := NoDup (keys m).

Lemma get_set_same k v m : get k (set k v m) = Some v.
Proof.
  induction m as [|[k' v'] r IH]; simpl.
  - rewrite str_eqb_refl. reflexivity.
  - destruct (str_eqb k k') eqn:E; simpl; rewrite E; auto.
Qed.

Lemma get_set_other k k' v m : k' <> k -> get k' (set k v m) = get k' m.
Proof.
  intro H. induction m as [|[k2 v2] r IH]; simpl.
  - apply str_eqb_neq in H. rewrite H. reflexivity.
  - destruct (str_eqb k k2) eqn:E; simpl.
    + apply str_eqb_eq in E; subst. apply str_eqb_neq in H. rewrite H. reflexivity.
    + rewrite IH. reflexivity.
Qed.

Lemma has_get k m : has k m = true <-> exists v, get k m = Some v.
Proof. unfold has. destruct (get k m); split; eauto; try discriminate. intros [v H]; discriminate. Qed.

Lemma has_In k m : has k m = true <-> In k (keys m).
Proof.
  unfold has. induction m as [|[k' v'] r IH]; simpl.
  - split; [discriminate|tauto].
  - destruct (str_eqb k k') eqn:E.
    + apply str_eqb_eq in E; subst. split; auto.
    + apply str_eqb_neq in E. rewrite IH. split; [auto|]. intros [H|H]; [congruence|assumption].
Qed.

(* order: an existing key keeps its position, a new key goes last *)
Lemma keys_set k v m :
  keys (set k v m) = if has k m then keys m else keys m ++ [k].
Proof.
  unfold has. induction m as [|[k' v'] r IH]; simpl.
  - reflexivity.
  - destruct (str_eqb k k') eqn:E; simpl.
    + reflexivity.
    + rewrite IH. destruct (get k r); reflexivity.
Qed.

Lemma NoDup_snoc (l : list str) x : NoDup l -> ~ In x l -> NoDup (l ++ [x]).
Proof.
  induction l as [|y l IH]; simpl; intros H Hn.
  - constructor; [tauto|constructor].
  - inversion H; subst. constructor.
    + rewrite in_app_iff. simpl. intros [H1|[H1|[]]]; [contradiction|subst; tauto].
    + apply IH; tauto.
Qed.

Lemma set_NoDupKeys k v m : NoDupKeys m -> NoDupKeys (set k v m).
Proof.
  unfold NoDupKeys. intro H. rewrite keys_set. destruct (has k m) eqn:E; [assumption|].
  apply NoDup_snoc; [assumption|]. rewrite <- has_In. congruence.
Qed.

Lemma del_none k m : del k m = None <-> has k m = false.
Proof.
  unfold has. induction m as [|[k' v'] r IH]; simpl.
  - tauto.
  - destruct (str_eqb k k'); [split; discriminate|].
    destruct (del k r); destruct (get k r); split; intro; try discriminate; try reflexivity.
    + apply IH in H. discriminate.
    + assert (X : @None omap = None) by reflexivity. apply IH in X. discriminate.
Qed.

Lemma get_del_same k m m' : NoDupKeys m -> del k m = Some m' -> get k m' = None.
Proof.
  unfold NoDupKeys. revert m'. induction m as [|[k' v'] r IH]; simpl; intros m' H D.
  - discriminate.
  - inversion H; subst. destruct (str_eqb k k') eqn:E.
    + apply str_eqb_eq in E; subst. inversion D; subst.
      destruct (get k' m') eqn:G; [|reflexivity].
      exfalso. apply H2. apply has_In. unfold has. rewrite G. reflexivity.
    + destruct (del k r) eqn:D'; [|discriminate]. inversion D; subst. simpl. rewrite E. apply IH; auto.
Qed.

Lemma get_del_other k k' m m' : k' <> k -> del k m = Some m' -> get k' m' = get k' m.
Proof.
  intro Hn. revert m'. induction m as [|[k2 v2] r IH]; simpl; intros m' D.
  - discriminate.
  - destruct (str_eqb k k2) eqn:E.
    + apply str_eqb_eq in E; subst. inversion D; subst.
      apply str_eqb_neq in Hn. rewrite Hn. reflexivity.
    + destruct (del k r) eqn:D'; [|discriminate]. inversion D; subst. simpl.
      destruct (str_eqb k' k2); [reflexivity|]. apply IH. reflexivity.
Qed.

(* deleting removes exactly that key from the key list, order otherwise kept *)
Fixpoint remove_key (k : str) (l : list str) : list str :=
  match l with
  | [] => []
  | x :: r => if str_eqb k x then r else x :: remove_key k r
  end.

Lemma keys_del k m m' : del k m = Some m' -> keys m' = remove_key k (keys m).
Proof.
  revert m'. induction m as [|[k2 v2] r IH]; simpl; intros m' D.
  - discriminate.
  - destruct (str_eqb k k2) eqn:E.
    + inversion D; subst. reflexivity.
    + destruct (del k r) eqn:D'; [|discriminate]. inversion D; subst. simpl. f_equal. apply IH. reflexivity.
Qed.

Lemma remove_key_incl k l x : In x (remove_key k l) -> In x l.
Proof.
  induction l as [|y l IH]; simpl; [tauto|]. destruct (str_eqb k y); simpl; [auto|]. intros [H|H]; auto.
Qed.

Lemma remove_key_NoDup k l : NoDup l -> NoDup (remove_key k l).
Proof.
  induction l as [|y l IH]; simpl; intro H; [constructor|]. inversion H; subst.
  destruct (str_eqb k y); [assumption|]. constructor; [|auto].
  intro X. apply remove_key_incl in X. contradiction.
Qed.

Lemma del_NoDupKeys k m m' : NoDupKeys m -> del k m = Some m' -> NoDupKeys m'.
Proof.
  unfold NoDupKeys. intros H D. rewrite (keys_del _ _ _ D). apply remove_key_NoDup. assumption.
Qed.


(* ---- move_to_end ---- *)
Lemma get_app_omap k (a b : omap) : get k (a ++ b) = match get k a with Some v => Some v | None => get k b end.
Proof. induction a as [|[k' v'] r IH]; simpl; [reflexivity|]. destruct (str_eqb k k'); [reflexivity|exact IH]. Qed.

Lemma get_move_to_end k k' (m : omap) : NoDupKeys m -> get k' (move_to_end k m) = get k' m.
Proof.
  intro Hnd. unfold move_to_end. destruct (get k m) as [v|] eqn:G; [|reflexivity].
  destruct (del k m) as [m'|] eqn:Dl; [|reflexivity].
  rewrite get_app_omap. destruct (str_eqb k' k) eqn:E.
  - apply str_eqb_eq in E. subst k'. rewrite (get_del_same k m m' Hnd Dl). simpl. rewrite str_eqb_refl. symmetry. exact G.
  - apply str_eqb_neq in E. rewrite (get_del_other k k' m m' E Dl). destruct (get k' m); [reflexivity|].
    simpl. apply str_eqb_neq in E. rewrite E. reflexivity.
Qed.

Lemma move_to_end_NoDupKeys k (m : omap) : NoDupKeys m -> NoDupKeys (move_to_end k m).
Proof.
  intro Hnd. unfold move_to_end. destruct (get k m) as [v|] eqn:G; [|exact Hnd].
  destruct (del k m) as [m'|] eqn:Dl; [|exact Hnd].
  unfold NoDupKeys, keys. rewrite map_app. cbn [map fst]. apply NoDup_snoc.
  - apply (del_NoDupKeys k m m' Hnd Dl).
  - intro X. apply has_In in X. apply has_get in X as [w Hw]. rewrite (get_del_same k m m' Hnd Dl) in Hw. discriminate.
Qed.

(* a present key really ends up last, and the others keep their relative order *)
Lemma move_to_end_last k v (m : omap) : get k m = Some v ->
  exists m', del k m = Some m' /\ move_to_end k m = m' ++ [(k, v)].
Proof.
  intro G. unfold move_to_end. rewrite G. destruct (del k m) as [m'|] eqn:Dl; [eauto|].
  apply del_none in Dl. unfold has in Dl. rewrite G in Dl. discriminate.
Qed.

Lemma keys_move_to_end k (m : omap) : has k m = true -> keys (move_to_end k m) = remove_key k (keys m) ++ [k].
Proof.
  unfold has. destruct (get k m) as [v|] eqn:G; [intros _|discriminate].
  destruct (move_to_end_last k v m G) as (m' & Dl & E). rewrite E. unfold keys. rewrite map_app. cbn [map fst].
  f_equal. apply (keys_del k m m' Dl).
Qed.

(* whenever the result holds the key at all, it holds it last (no uniqueness needed) *)
Lemma move_to_end_has_last k (m : omap) : has k (move_to_end k m) = true ->
  exists pre v, move_to_end k m = pre ++ [(k, v)] /\ get k m = Some v.
Proof.
  unfold has. destruct (get k (move_to_end k m)) as [w|] eqn:G; [intros _|discriminate].
  destruct (get k m) as [v|] eqn:Gm.
  - destruct (move_to_end_last k v m Gm) as (m' & _ & E). eauto.
  - unfold move_to_end in G. rewrite Gm in G. congruence.
Qed.

End Omap.
Arguments omap V : clear implicits.
