(* Beat: simfile.timing.Beat / BeatValue(s) (C14).
   A beat is an exact rational; ticks are 1/48.  Rationals are carried as
   numerator/denominator pairs of Z with a positive denominator. *)
From Coq Require Import List ZArith NArith Bool Lia.
From SV Require Import Sx Str.
Import ListNotations.
Open Scope Z_scope.

(* Python's round(Fraction(n, d)) for d > 0: nearest integer, ties to even *)
Definition round_he (n d : Z) : Z :=
  let q := n / d in
  let r := n mod d in
  if 2 * r <? d then q
  else if d <? 2 * r then q + 1
  else if Z.even q then q else q + 1.

Definition SUBDIV : Z := 48.                        (* BEAT_SUBDIVISION, re-checked against Tables *)

(* Beat(n/d).round_to_tick(), as a number of ticks *)
Definition round_tick (n d : Z) : Z := round_he (SUBDIV * n) d.

(* ---- decimal text ---------------------------------------------------- *)

Inductive rd (T : Type) := Got (x : T) | Unmodelled | ErrValue.
Arguments Got {T} x. Arguments Unmodelled {T}. Arguments ErrValue {T}.

(* plain decimal: optional sign, digits, optional '.', digits; at least one digit.
   result = (negative, coefficient, number of decimals) *)
Definition all_digits (s : str) : bool := forallb is_digit s.

Definition parse_plain (s0 : str) : rd (bool * N * nat) :=
  let s := strip s0 in
  let '(neg, body) :=
    match s with
    | 45%N :: r => (true, r)
    | 43%N :: r => (false, r)
    | _ => (false, s)
    end in
  match split_on 46%N body with
  | [ip] =>
      if all_digits ip then
        match N_of_digits ip with Some c => Got (neg, c, O) | None => ErrValue end
      else Unmodelled
  | [ip; fp] =>
      if all_digits ip && all_digits fp then
        match N_of_digits (ip ++ fp) with
        | Some c => Got (neg, c, length fp)
        | None => ErrValue                          (* "." alone *)
        end
      else Unmodelled
  | _ => Unmodelled
  end.

Definition pow10 (k : nat) : Z := Z.pow 10 (Z.of_nat k).

(* Beat.from_str *)
Definition beat_from_str (s : str) : rd Z :=
  match parse_plain s with
  | Got (neg, c, k) => Got (round_tick (if neg then - Z.of_N c else Z.of_N c) (pow10 k))
  | Unmodelled => Unmodelled
  | ErrValue => ErrValue
  end.

(* digits of [c] with a '.' before the last [k] digits (zero padded) *)
Definition fixed_point (c : N) (k : nat) : str :=
  let ds := zpad (S k) (digits_of_N c) in
  match k with
  | O => ds
  | _ => take (length ds - k) ds ++ 46%N :: drop (length ds - k) ds
  end.

(* str(Beat) for a beat of [t] ticks: f"{float(t/48):.3f}" *)
Definition thousandths (t : Z) : Z := round_he (1000 * t) SUBDIV.
Definition show3 (t : Z) : str :=
  let m := thousandths t in
  (if m <? 0 then [45%N] else []) ++ fixed_point (Z.to_N (Z.abs m)) 3.

(* Decimal in plain notation *)
Record dec := { dneg : bool; dcoef : N; dplaces : nat }.
Definition show_dec (d : dec) : str :=
  (if dneg d then [45%N] else []) ++ fixed_point (dcoef d) (dplaces d).
Definition parse_dec (s : str) : rd dec :=
  match parse_plain s with
  | Got (neg, c, k) => Got {| dneg := neg; dcoef := c; dplaces := k |}
  | Unmodelled => Unmodelled
  | ErrValue => ErrValue
  end.

(* BeatValues.from_str / __str__ *)
Definition parse_row (row : str) : rd (Z * dec) :=
  match split_on 61%N (strip row) with
  | [b; v] =>
      match beat_from_str b, parse_dec v with
      | Got t, Got d => Got (t, d)
      | ErrValue, _ | _, ErrValue => ErrValue
      | _, _ => Unmodelled
      end
  | _ => ErrValue
  end.

Fixpoint parse_rows (rows : list str) : rd (list (Z * dec)) :=
  match rows with
  | [] => Got []
  | r :: rest =>
      match parse_row r with
      | Got e => match parse_rows rest with Got es => Got (e :: es) | x => x end
      | Unmodelled => match parse_rows rest with ErrValue => ErrValue | _ => Unmodelled end
      | ErrValue => ErrValue
      end
  end.

Definition parse_events (s : option str) : rd (list (Z * dec)) :=
  match s with
  | None => Got []
  | Some s => match strip s with [] => Got [] | _ => parse_rows (split_on 44%N s) end
  end.

Definition show_event (e : Z * dec) : str := show3 (fst e) ++ 61%N :: show_dec (snd e).
Definition show_events (es : list (Z * dec)) : str := join [44%N; 10%N] (map show_event es).

(* ---- wire ------------------------------------------------------------ *)
Definition sx_rd {T} (f : T -> sx) (r : rd T) : sx :=
  match r with Got x => L [A 0; f x] | Unmodelled => L [A 1] | ErrValue => L [A 2] end.
Definition sx_dec (d : dec) : sx := L [sx_bool (dneg d); sx_N (dcoef d); sx_nat (dplaces d)].
Definition un_dec (x : sx) : option dec :=
  match x with
  | L [a; b; c] =>
      match un_bool a, un_N b, un_nat c with
      | Some n, Some co, Some k => Some {| dneg := n; dcoef := co; dplaces := k |}
      | _, _, _ => None
      end
  | _ => None
  end.
Definition sx_event (e : Z * dec) : sx := L [A (fst e); sx_dec (snd e)].
Definition un_event (x : sx) : option (Z * dec) := un_pair un_Z un_dec x.
