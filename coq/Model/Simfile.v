(* Simfile: loading and serialising SM and SSC simfiles (simfile/base.py, sm.py, ssc.py,
   __init__.py: load/_detect_ssc), on top of the MSD machine.  C01-C04. *)
From Coq Require Import List NArith ZArith Bool.
From SV Require Import Sx Str Omap Msd Generated.Tables Generated.UnicodeTables.
Import ListNotations.
Open Scope N_scope.

(* ---- str.upper / str.lower, per code point (tables from the running Python) ---- *)
Fixpoint assoc (c : N) (t : list (N * list N)) : option (list N) :=
  match t with
  | [] => None
  | (k, v) :: r => if k =? c then Some v else assoc c r
  end.
Definition upper_char (c : N) : str := match assoc c upper_table with Some l => l | None => [c] end.
Definition lower_char (c : N) : str := match assoc c lower_table with Some l => l | None => [c] end.
Definition upper (s : str) : str := flat_map upper_char s.
Definition lower (s : str) : str := flat_map lower_char s.   (* without the final-sigma rule: callers avoid U+03A3 *)

Definition val := option str.
Definition props := omap val.

Definition kNOTES : str := [78; 79; 84; 69; 83].
Definition kNOTES2 : str := [78; 79; 84; 69; 83; 50].
Definition kNOTEDATA : str := [78; 79; 84; 69; 68; 65; 84; 65].
Definition kVERSION : str := [86; 69; 82; 83; 73; 79; 78].
Definition is_multi (k : str) : bool := mem_str k Tables.multi_value_properties.

Record smchart := { c_stepstype : str; c_description : str; c_difficulty : str; c_meter : str;
                    c_radarvalues : str; c_notes : str; c_extra : list str }.
Record smsimfile := { sm_props : props; sm_charts : list smchart }.
Record sscsimfile := { ssc_props : props; ssc_charts : list props }.

Inductive lres (T : Type) := LOk (x : T) | LErrValue | LErrStray | LErrBackslash | LErrKey | LUnmodelled.
Arguments LOk {T} x. Arguments LErrValue {T}. Arguments LErrStray {T}. Arguments LErrBackslash {T}.
Arguments LErrKey {T}. Arguments LUnmodelled {T}.

Definition of_status {T} (st : status) (x : T) : lres T :=
  match st with StOk => LOk x | StStray => LErrStray | StBackslash => LErrBackslash end.

(* the value rule: ATTACKS/DISPLAYBPM keep all their components, others the first, key-only has none *)
Definition value_of (key : str) (vs : list str) : val :=
  match vs with
  | [] => None
  | v :: _ => if is_multi key then Some (join [58] vs) else Some v
  end.

(* SMChart.from_msd *)
Definition chart_from_msd (vs : list str) : option smchart :=
  match vs with
  | a :: b :: c :: d :: e :: f :: extra =>
      Some {| c_stepstype := strip a; c_description := strip b; c_difficulty := strip c; c_meter := strip d;
              c_radarvalues := strip e; c_notes := strip f; c_extra := extra |}
  | _ => None
  end.

(* ---- SM ---- *)
Fixpoint load_sm_go (ps : list param) (pr : props) (charts : list smchart) : option (props * list smchart) :=
  match ps with
  | [] => Some (pr, rev_append charts [])
  | [] :: r => load_sm_go r pr charts                        (* msdparser never yields an empty parameter *)
  | (k :: vs) :: r =>
      let key := upper k in
      if str_eqb key kNOTES then
        match chart_from_msd vs with
        | Some c => load_sm_go r pr (c :: charts)
        | None => None                                        (* ValueError: fewer than six components *)
        end
      else load_sm_go r (set key (value_of key vs) pr) charts
  end.

Definition load_sm_params (ps : list param) (st : status) : lres smsimfile :=
  match load_sm_go ps [] [] with
  | Some (pr, cs) => of_status st {| sm_props := pr; sm_charts := cs |}
  | None => LErrValue
  end.
Definition load_sm (strict : bool) (text : str) : lres smsimfile :=
  let '(ps, st) := parse strict text in load_sm_params ps st.

Definition prop_comps (k : str) (v : val) : param :=
  match v with
  | None => [k]
  | Some s => if is_multi k then k :: split_on 58 s else [k; s]
  end.
Definition NL : str := [10].
Definition ser_props (pr : props) : str :=
  flat_map (fun kv => render_param (prop_comps (fst kv) (snd kv)) ++ NL) pr.

Definition pad5 : str := [10; 32; 32; 32; 32; 32].
Definition chart_comps (c : smchart) : param :=
  kNOTES :: (pad5 ++ c_stepstype c) :: (pad5 ++ c_description c) :: (pad5 ++ c_difficulty c) ::
  (pad5 ++ c_meter c) :: (pad5 ++ c_radarvalues c) :: (NL ++ c_notes c ++ NL) :: c_extra c.
Definition ser_sm_chart (c : smchart) : str := render_param (chart_comps c).
Definition ser_sm (sf : smsimfile) : str :=
  ser_props (sm_props sf) ++ NL ++ flat_map (fun c => ser_sm_chart c ++ NL) (sm_charts sf).

(* ---- SSC ---- *)
Fixpoint load_ssc_go (ps : list param) (pr : props) (charts : list props) (partial : option props)
  : props * list props :=
  match ps with
  | [] => (pr, rev_append (match partial with Some c => c :: charts | None => charts end) [])
  | [] :: r => load_ssc_go r pr charts partial
  | (k :: vs) :: r =>
      let key := upper k in
      let v := value_of key vs in
      if str_eqb key kNOTEDATA then
        load_ssc_go r pr (match partial with Some c => c :: charts | None => charts end) (Some [])
      else
        match partial with
        | Some c => load_ssc_go r pr charts (Some (set key v c))
        | None => load_ssc_go r (set key v pr) charts None
        end
  end.

Definition load_ssc_params (ps : list param) (st : status) : lres sscsimfile :=
  let '(pr, cs) := load_ssc_go ps [] [] None in of_status st {| ssc_props := pr; ssc_charts := cs |}.
Definition load_ssc (strict : bool) (text : str) : lres sscsimfile :=
  let '(ps, st) := parse strict text in load_ssc_params ps st.

(* the key under which a chart's note data lives: NOTES, or NOTES2 when only that alias is present *)
Definition notes_key (c : props) : str :=
  if negb (has kNOTES c) && has kNOTES2 c then kNOTES2 else kNOTES.

Definition notedata_line : str := render_param [kNOTEDATA; []] ++ NL.
Definition ser_ssc_chart (c : props) : option str :=
  let nk := notes_key c in
  match get nk c with
  | None => None                                               (* KeyError: no note data *)
  | Some nv =>
      Some (notedata_line ++
            flat_map (fun kv => if str_eqb (fst kv) nk then [] else render_param (prop_comps (fst kv) (snd kv)) ++ NL) c ++
            render_param (match nv with None => [nk] | Some n => [nk; n] end) ++ NL ++ NL)
  end.

Fixpoint ser_ssc_charts (cs : list props) : option str :=
  match cs with
  | [] => Some []
  | c :: r => match ser_ssc_chart c, ser_ssc_charts r with
              | Some a, Some b => Some (a ++ NL ++ b)
              | _, _ => None
              end
  end.
Definition ser_ssc (sf : sscsimfile) : option str :=
  match ser_ssc_charts (ssc_charts sf) with
  | Some cs => Some (ser_props (ssc_props sf) ++ NL ++ cs)
  | None => None
  end.

(* SSCChart.from_str: first parameter NOTEDATA, parsing stops at the note data *)
Fixpoint chart_from_params (ps : list param) (c : props) : props * bool :=   (* bool: stopped at note data *)
  match ps with
  | [] => (c, false)
  | [] :: r => chart_from_params r c
  | (k :: vs) :: r =>
      let key := upper k in
      let c' := set key (value_of key vs) c in
      if str_eqb key kNOTES || str_eqb key kNOTES2 then (c', true) else chart_from_params r c'
  end.
Definition ssc_chart_from_str (strict : bool) (text : str) : lres props :=
  let '(ps, st) := parse strict text in
  match ps with
  | [] => match st with StOk => LUnmodelled (* StopIteration *) | _ => of_status st [] end
  | [] :: _ => LUnmodelled
  | (k :: _) :: r =>
      if str_eqb (upper k) kNOTEDATA then
        let '(c, stopped) := chart_from_params r [] in
        if stopped then LOk c else of_status st c
      else LErrValue
  end.

(* ---- format detection (simfile._detect_ssc) ---- *)
Inductive fmt := FSM | FSSC.
Fixpoint suffix_go (s : str) (cur : str) : str :=       (* text after the last '.', or the whole name *)
  match s with
  | [] => rev_append cur []
  | c :: r => if c =? 46 then suffix_go r [] else suffix_go r (c :: cur)
  end.
Definition sSM : str := [115; 109].
Definition sSSC : str := [115; 115; 99].
Definition detect_by_name (name : str) : option fmt :=
  let suf := suffix_go (lower name) [] in
  if str_eqb suf sSSC then Some FSSC else if str_eqb suf sSM then Some FSM else None.
Definition detect_by_content (ps : list param) : fmt :=
  match ps with
  | (k :: _) :: _ => if str_eqb (upper k) kVERSION then FSSC else FSM
  | _ => FSM
  end.

Inductive simfile := SM (s : smsimfile) | SSC (s : sscsimfile).
Definition map_lres {T U} (f : T -> U) (r : lres T) : lres U :=
  match r with LOk x => LOk (f x) | LErrValue => LErrValue | LErrStray => LErrStray
             | LErrBackslash => LErrBackslash | LErrKey => LErrKey | LUnmodelled => LUnmodelled end.

Definition load (strict : bool) (name : option str) (text : str) : lres simfile :=
  let '(ps, st) := parse strict text in
  let byname := match name with Some n => detect_by_name n | None => None end in
  match byname with
  | Some FSM => map_lres SM (load_sm_params ps st)
  | Some FSSC => map_lres SSC (load_ssc_params ps st)
  | None =>
      (* peeking at the first parameter raises the parser's error if it comes before any parameter *)
      match ps, st with
      | [], StStray => LErrStray
      | [], StBackslash => LErrBackslash
      | _, _ =>
          match detect_by_content ps with
          | FSM => map_lres SM (load_sm_params ps st)
          | FSSC => map_lres SSC (load_ssc_params ps st)
          end
      end
  end.

(* ---- wire ---- *)
Definition sx_val (v : val) : sx := sx_opt sx_str v.
Definition sx_props (p : props) : sx := sx_list (sx_pair sx_str sx_val) p.
Definition un_props : sx -> option props := un_list (un_pair un_str (un_opt un_str)).
Definition sx_smchart (c : smchart) : sx :=
  L [sx_list sx_str [c_stepstype c; c_description c; c_difficulty c; c_meter c; c_radarvalues c; c_notes c]; sx_list sx_str (c_extra c)].
Definition un_smchart (x : sx) : option smchart :=
  match x with
  | L [L [a; b; c; d; e; f]; ex] =>
      match un_str a, un_str b, un_str c, un_str d, un_str e, un_str f, un_list un_str ex with
      | Some a', Some b', Some c', Some d', Some e', Some f', Some ex' =>
          Some {| c_stepstype := a'; c_description := b'; c_difficulty := c'; c_meter := d'; c_radarvalues := e'; c_notes := f'; c_extra := ex' |}
      | _, _, _, _, _, _, _ => None
      end
  | _ => None
  end.
Definition sx_sm (s : smsimfile) : sx := L [sx_props (sm_props s); sx_list sx_smchart (sm_charts s)].
Definition un_sm (x : sx) : option smsimfile :=
  match x with
  | L [p; cs] => match un_props p, un_list un_smchart cs with
                 | Some p', Some cs' => Some {| sm_props := p'; sm_charts := cs' |} | _, _ => None end
  | _ => None
  end.
Definition sx_ssc (s : sscsimfile) : sx := L [sx_props (ssc_props s); sx_list sx_props (ssc_charts s)].
Definition un_ssc (x : sx) : option sscsimfile :=
  match x with
  | L [p; cs] => match un_props p, un_list un_props cs with
                 | Some p', Some cs' => Some {| ssc_props := p'; ssc_charts := cs' |} | _, _ => None end
  | _ => None
  end.
Definition sx_lres {T} (f : T -> sx) (r : lres T) : sx :=
  match r with
  | LOk x => L [A 0%Z; f x] | LErrValue => L [A 1%Z] | LErrStray => L [A 2%Z] | LErrBackslash => L [A 3%Z]
  | LErrKey => L [A 4%Z] | LUnmodelled => L [A 5%Z]
  end.
Definition sx_simfile (s : simfile) : sx :=
  match s with SM x => L [A 0%Z; sx_sm x] | SSC x => L [A 1%Z; sx_ssc x] end.
