(* Props: attribute view (item_property) and key view of simfiles and charts (C18). *)
From Coq Require Import List ZArith NArith Bool.
From SV Require Import Sx Str Omap.
Import ListNotations.

Definition val := option str.            (* None = key-only property *)
Definition dict := omap val.

Record prop := { pname : str; palias : option str }.

(* item_property._name_or_alias *)
Definition name_or_alias (p : prop) (m : dict) : str :=
  match palias p with
  | Some a => if negb (has (pname p) m) && has a m then a else pname p
  | None => pname p
  end.

Inductive op :=
| AttrGet (p : prop) | AttrSet (p : prop) (v : val) | AttrDel (p : prop)
| KeyGet (k : str) | KeySet (k : str) (v : val) | KeyDel (k : str)
| Contains (k : str) | Iterate.

Inductive res :=
| RVal (v : val)            (* a value; attribute reads of an absent property give RVal None *)
| RUnit | RKeyError | RNotImpl | RBool (b : bool) | RKeys (l : list str).

(* ---- ordinary mappings: SM simfile, SSC simfile, SSC chart -------------- *)
Definition attr_get (p : prop) (m : dict) : val :=
  match get (name_or_alias p m) m with Some v => v | None => None end.
Definition attr_set (p : prop) (v : val) (m : dict) : dict := set (name_or_alias p m) v m.
Definition attr_del (p : prop) (m : dict) : option dict := del (name_or_alias p m) m.

Definition step (m : dict) (o : op) : dict * res :=
  match o with
  | AttrGet p => (m, RVal (attr_get p m))
  | AttrSet p v => (attr_set p v m, RUnit)
  | AttrDel p => match attr_del p m with Some m' => (m', RUnit) | None => (m, RKeyError) end
  | KeyGet k => match get k m with Some v => (m, RVal v) | None => (m, RKeyError) end
  | KeySet k v => (set k v m, RUnit)
  | KeyDel k => match del k m with Some m' => (m', RUnit) | None => (m, RKeyError) end
  | Contains k => (m, RBool (has k m))
  | Iterate => (m, RKeys (keys m))
  end.

(* ---- SM chart: six fixed fields ------------------------------------------ *)
Section SMChart.
Variable fields : list str.               (* SM_CHART_PROPERTIES, from Generated/Tables.v *)

Definition smc_step (m : dict) (o : op) : dict * res :=
  match o with
  | AttrGet p => (m, RVal (attr_get p m))
  | AttrSet p v =>
      (* the setter goes through __setitem__, which refuses foreign keys *)
      if mem_str (name_or_alias p m) fields then (set (name_or_alias p m) v m, RUnit) else (m, RKeyError)
  | AttrDel p => (m, RNotImpl)
  | KeyGet k => if mem_str k fields then (m, RVal (match get k m with Some v => v | None => None end)) else (m, RKeyError)
  | KeySet k v => if mem_str k fields then (set k v m, RUnit) else (m, RKeyError)
  | KeyDel k => (m, RNotImpl)
  | Contains k => (m, RBool (has k m))
  | Iterate => (m, RKeys (keys m))
  end.
End SMChart.

Fixpoint run_ops (stp : dict -> op -> dict * res) (m : dict) (ops : list op) : dict * list res :=
  match ops with
  | [] => (m, [])
  | o :: r => let '(m', x) := stp m o in let '(m'', xs) := run_ops stp m' r in (m'', x :: xs)
  end.

(* ---- wire ------------------------------------------------------------------ *)
Definition sx_val (v : val) : sx := sx_opt sx_str v.
Definition un_val := un_opt un_str.
Definition un_prop (x : sx) : option prop :=
  match un_pair un_str (un_opt un_str) x with
  | Some (n, a) => Some {| pname := n; palias := a |}
  | None => None
  end.
Definition un_op (x : sx) : option op :=
  match x with
  | L [A 0%Z; p] => option_map AttrGet (un_prop p)
  | L [A 1%Z; p; v] => match un_prop p, un_val v with Some p', Some v' => Some (AttrSet p' v') | _, _ => None end
  | L [A 2%Z; p] => option_map AttrDel (un_prop p)
  | L [A 3%Z; k] => option_map KeyGet (un_str k)
  | L [A 4%Z; k; v] => match un_str k, un_val v with Some k', Some v' => Some (KeySet k' v') | _, _ => None end
  | L [A 5%Z; k] => option_map KeyDel (un_str k)
  | L [A 6%Z; k] => option_map Contains (un_str k)
  | L [A 7%Z] => Some Iterate
  | _ => None
  end.
Definition sx_res (r : res) : sx :=
  match r with
  | RVal v => L [A 0%Z; sx_val v]
  | RUnit => L [A 1%Z]
  | RKeyError => L [A 2%Z]
  | RNotImpl => L [A 3%Z]
  | RBool b => L [A 4%Z; sx_bool b]
  | RKeys l => L [A 5%Z; sx_list sx_str l]
  end.
Definition sx_dict (m : dict) : sx := sx_list (sx_pair sx_str sx_val) m.
Definition un_dict : sx -> option dict := un_list (un_pair un_str un_val).
