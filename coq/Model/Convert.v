(* Convert: simfile/convert.py - sm_to_ssc and ssc_to_sm (C16, C17).
   Charts of both kinds are carried as ordered maps; an SM chart is the map of its six fields. *)
From Coq Require Import List ZArith NArith Bool.
From SV Require Import Sx Str Omap Beat Simfile TimingSrc Generated.Tables.
Import ListNotations.
Open Scope Z_scope.

Inductive cres (T : Type) := COk (x : T) | CNotImpl | CInvalid (key : str) | CKeyError | CUnmodelled.
Arguments COk {T} x. Arguments CNotImpl {T}. Arguments CInvalid {T} key. Arguments CKeyError {T}. Arguments CUnmodelled {T}.

(* behaviours: 1 COPY_ANYWAY, 2 IGNORE, 3 ERROR_UNLESS_DEFAULT, 4 ERROR *)
Inductive decision := DCopy | DSkip | DError | DUnmodelled.

Fixpoint zassoc (k : Z) (l : list (Z * Z)) : option Z :=
  match l with [] => None | (a, b) :: r => if Z.eqb a k then Some b else zassoc k r end.
Fixpoint sassoc (k : str) (l : list (str * str)) : option str :=
  match l with [] => None | (a, b) :: r => if str_eqb a k then Some b else sassoc k r end.

Definition default_of (key : str) : str :=
  match sassoc key Tables.default_properties with Some d => d | None => Tables.default_properties_default end.

(* _should_copy_property: the first property type whose list contains the key decides *)
Fixpoint decide (inv : list (Z * list str)) (beh : list (Z * Z)) (key : str) (v : val) : decision :=
  match inv with
  | [] => DCopy
  | (ptype, keys) :: r =>
      if mem_str key keys then
        let b := match zassoc ptype beh with
                 | Some x => x
                 | None => match zassoc ptype Tables.default_behaviors with Some x => x | None => 4 end
                 end in
        if b =? 1 then DCopy
        else if b =? 2 then DSkip
        else if b =? 3 then
          match v with
          | Some s => if str_eqb (strip s) (default_of key) then DSkip else DError
          | None => DUnmodelled                    (* None.strip(): AttributeError, outside C17's value states *)
          end
        else DError
      else decide r beh key v
  end.

(* _copy_properties; [allowed] = Some keys when the output is an SM chart (foreign keys are refused) *)
Fixpoint copy_props (inv : list (Z * list str)) (beh : list (Z * Z)) (allowed : option (list str))
         (src out : props) : cres props :=
  match src with
  | [] => COk out
  | (key, v) :: r =>
      match decide inv beh key v with
      | DCopy =>
          match allowed with
          | Some ks => if mem_str key ks then copy_props inv beh allowed r (set key v out) else CKeyError
          | None => copy_props inv beh allowed r (set key v out)
          end
      | DSkip => copy_props inv beh allowed r out
      | DError => CInvalid key
      | DUnmodelled => CUnmodelled
      end
  end.

Definition nonempty_props (p : option props) : option props :=
  match p with Some (x :: r) => Some (x :: r) | _ => None end.

(* [post]: what is done to a chart once the properties are copied (SSC output: its note data goes last) *)
Fixpoint convert_charts (post : props -> props) (inv : list (Z * list str)) (beh : list (Z * Z)) (allowed : option (list str))
         (tmpl : props) (charts : list props) : cres (list props) :=
  match charts with
  | [] => COk []
  | c :: r =>
      match copy_props inv beh allowed c tmpl with
      | COk c' => match convert_charts post inv beh allowed tmpl r with
                  | COk r' => COk (post c' :: r')
                  | e => e
                  end
      | CNotImpl => CNotImpl | CInvalid k => CInvalid k | CKeyError => CKeyError | CUnmodelled => CUnmodelled
      end
  end.

Definition any_negative (l : list (Z * dec)) : bool := existsb (fun e => dneg (snd e) && negb (N.eqb (dcoef (snd e)) 0)) l.

(* ---- SM -> SSC ---- *)
Definition sm_negative_timing (sf : props) : cres bool :=
  match parse_events (attr sf kBPMS None), parse_events (attr sf kSTOPS (Some kFREEZES)) with
  | Got b, Got s => COk (any_negative b || any_negative s)
  | _, _ => CUnmodelled
  end.

(* deepcopy(template) or blank(): an empty mapping is falsy, so an empty template means "blank" *)
Definition base_of (blank : props) (tmpl_sf : option (props * list props)) : props * list props :=
  match tmpl_sf with Some (x :: r, cs) => (x :: r, cs) | _ => (blank, []) end.
Definition chart_tmpl_of (blank : props) (tmpl_chart : option props) : props :=
  match nonempty_props tmpl_chart with Some t => t | None => blank end.

Definition lift_charts {T} (out : T) (base_charts : list props) (r : cres (list props)) : cres (T * list props) :=
  match r with
  | COk cs => COk (out, base_charts ++ cs)
  | CNotImpl => CNotImpl | CInvalid k => CInvalid k | CKeyError => CKeyError | CUnmodelled => CUnmodelled
  end.

Definition convert_core (post : props -> props) (inv_sf inv_chart : list (Z * list str)) (beh : list (Z * Z)) (allowed : option (list str))
           (sf : props) (charts : list props) (base : props) (base_charts : list props) (ct : props) : cres (props * list props) :=
  match copy_props inv_sf beh None sf base with
  | COk out => lift_charts out base_charts (convert_charts post inv_chart beh allowed ct charts)
  | CNotImpl => CNotImpl | CInvalid k => CInvalid k | CKeyError => CKeyError | CUnmodelled => CUnmodelled
  end.

(* the converted SSC chart keeps its note data last (convert._convert moves NOTES to the end) *)
Definition notes_last (c : props) : props := move_to_end kNOTES c.

(* source: SM props + SM charts (as maps of six); templates: optional SSC simfile (props + charts) and chart *)
Definition sm_to_ssc (sf : props) (charts : list props) (tmpl_sf : option (props * list props)) (tmpl_chart : option props)
  : cres (props * list props) :=
  match sm_negative_timing sf with
  | COk true => CNotImpl
  | COk false =>
      convert_core notes_last Tables.invalid_ssc_simfile Tables.invalid_ssc_chart [] None sf charts
        (fst (base_of Tables.blank_ssc_simfile tmpl_sf)) (snd (base_of Tables.blank_ssc_simfile tmpl_sf))
        (chart_tmpl_of Tables.blank_ssc_chart tmpl_chart)
  | _ => CUnmodelled
  end.

(* ---- SSC -> SM ---- *)
Definition ssc_has_warps (sf : props) : bool := truthy (get kWARPS sf).

Definition ssc_to_sm (sf : props) (charts : list props) (tmpl_sf : option (props * list props)) (tmpl_chart : option props)
           (beh : list (Z * Z)) : cres (props * list props) :=
  if ssc_has_warps sf then CNotImpl else
  convert_core (fun c => c) Tables.invalid_sm_simfile Tables.invalid_sm_chart beh (Some Tables.sm_chart_properties) sf charts
    (fst (base_of Tables.blank_sm_simfile tmpl_sf)) (snd (base_of Tables.blank_sm_simfile tmpl_sf))
    (chart_tmpl_of Tables.blank_sm_chart tmpl_chart).

(* ---- wire ---- *)
Definition sx_cres {T} (f : T -> sx) (r : cres T) : sx :=
  match r with
  | COk x => L [A 0; f x] | CNotImpl => L [A 1] | CInvalid k => L [A 2; sx_str k] | CKeyError => L [A 3] | CUnmodelled => L [A 4]
  end.
Definition sx_conv (r : props * list props) : sx := L [sx_props (fst r); sx_list sx_props (snd r)].
Definition un_tmpl_sf (x : sx) : option (option (props * list props)) :=
  un_opt (un_pair un_props (un_list un_props)) x.
