(* Dispatch: the single entry point [run : sx -> sx] of the executable model. *)
From Coq Require Import List ZArith NArith Bool.
From SV Require Import Sx Str Omap Beat.
Import ListNotations.
Open Scope Z_scope.

Definition run_beat (cmd : Z) (args : list sx) : sx :=
  match cmd, args with
  | 140, [A n; A d] => ok (A (round_tick n d))
  | 141, [s] => do s' <- un_str s; ok (sx_rd A (beat_from_str s'))
  | 142, [A t] => ok (sx_str (show3 t))
  | 143, [s] => do s' <- un_opt un_str s; ok (sx_rd (sx_list sx_event) (parse_events s'))
  | 144, [es] => do es' <- un_list un_event es; ok (sx_str (show_events es'))
  | 145, [s] => do s' <- un_str s; ok (sx_rd sx_dec (parse_dec s'))
  | 146, [d] => do d' <- un_dec d; ok (sx_str (show_dec d'))
  | _, _ => bad_request
  end.

Definition run (req : sx) : sx :=
  match req with
  | L (A cmd :: args) =>
      if (140 <=? cmd) && (cmd <? 150) then run_beat cmd args
      else bad_request
  | _ => bad_request
  end.
