(* Dispatch: the single entry point [run : sx -> sx] of the executable model. *)
From Coq Require Import List ZArith NArith Bool.
From SV Require Import Sx Str Omap Beat Props Notes Group Generated.Tables.
Import ListNotations.
Open Scope Z_scope.

Definition run_beat (cmd : Z) (args : list sx) : sx :=
  match cmd, args with
  | 140, [A n; A d] => ok (A (round_tick n d))
  | 141, [s] => do s' <- un_str s; ok (sx_rd A (beat_from_str s'))
  | 142, [A t] => ok (sx_str (show3 t))
  | 143, [s] => do s' <- un_opt un_str s; ok (sx_rd (sx_list sx_event) (parse_events s'))
  | 144, [es] => do es' <- un_list un_event es; ok (sx_str (show_events es'))
  | 145, [s] => do s' <- un_str s; ok (sx_rd sx_dec (parse_dec s'))
  | 146, [d] => do d' <- un_dec d; ok (sx_str (show_dec d'))
  | _, _ => bad_request
  end.

Definition run_props (cmd : Z) (args : list sx) : sx :=
  match cmd, args with
  | 180, [m; ops] =>                       (* ordinary mapping history *)
      do m' <- un_dict m; do ops' <- un_list un_op ops;
      let '(mf, rs) := run_ops Props.step m' ops' in ok (L [sx_dict mf; sx_list sx_res rs])
  | 181, [m; ops] =>                       (* SM chart history *)
      do m' <- un_dict m; do ops' <- un_list un_op ops;
      let '(mf, rs) := run_ops (smc_step Tables.sm_chart_properties) m' ops' in ok (L [sx_dict mf; sx_list sx_res rs])
  | _, _ => bad_request
  end.

Definition run_notes (cmd : Z) (args : list sx) : sx :=
  match cmd, args with
  | 70, [s] => do s' <- un_str s;
      ok (sx_opt (fun r => L [sx_nat (fst r); sx_list sx_note (snd r)]) (decode s'))
  | 71, [s] => do s' <- un_str s; ok (sx_opt sx_nat (columns s'))
  | 72, [a; b] => do a' <- un_note a; do b' <- un_note b;
      ok (L [sx_bool (note_lt a' b'); sx_bool (note_le a' b'); sx_bool (note_gt a' b'); sx_bool (note_ge a' b')])
  | 80, [c; ns] => do c' <- un_nat c; do ns' <- un_list un_note ns; ok (sx_opt sx_str (encode c' ns'))
  | _, _ => bad_request
  end.

Definition run_group (cmd : Z) (args : list sx) : sx :=
  match cmd, args with
  | 90, [types; m; j; ph; pt; ns] =>
      do types' <- un_list un_N types; do m' <- un_sbn m; do j' <- un_bool j;
      do ph' <- un_policy ph; do pt' <- un_policy pt; do ns' <- un_list un_note ns;
      ok (sx_gres (group_notes types' m' j' ph' pt' ns'))
  | 91, [pol; groups] =>
      do pol' <- un_policy pol; do g' <- un_list (un_list un_item) groups; ok (sx_ures (ungroup_notes pol' g'))
  | 95, [types; m; j; ph; pt; pol; ns] =>
      do types' <- un_list un_N types; do m' <- un_sbn m; do j' <- un_bool j;
      do ph' <- un_policy ph; do pt' <- un_policy pt; do pol' <- un_policy pol; do ns' <- un_list un_note ns;
      match group_notes types' m' j' ph' pt' ns' with
      | GOk g => ok (L [A 0; sx_ures (ungroup_notes pol' g)])
      | GErrOrphan n => ok (L [A 1; sx_note n])
      | GErrInternal => ok (L [A 2])
      end
  | 92, [types; m; mn; ns] =>
      do types' <- un_list un_N types; do m' <- un_sbn m; do mn' <- un_nat mn; do ns' <- un_list un_note ns;
      ok (sx_opt sx_nat (count_steps types' m' mn' ns'))
  | 93, [ns] => do ns' <- un_list un_note ns; ok (sx_nat (count_mines ns'))
  | 94, [A head; ph; pt; ns] =>
      do ph' <- un_policy ph; do pt' <- un_policy pt; do ns' <- un_list un_note ns;
      match count_holds_or_rolls (Z.to_N head) ph' pt' ns' with
      | GOk g => ok (L [A 0; sx_nat (count_grouped 1 g)])
      | GErrOrphan n => ok (L [A 1; sx_note n])
      | GErrInternal => ok (L [A 2])
      end
  | _, _ => bad_request
  end.

Definition dispatch_request (req : sx) : sx :=
  match req with
  | L (A cmd :: args) =>
      if (140 <=? cmd) && (cmd <? 150) then run_beat cmd args
      else if (70 <=? cmd) && (cmd <? 90) then run_notes cmd args
      else if (90 <=? cmd) && (cmd <? 100) then run_group cmd args
      else if (180 <=? cmd) && (cmd <? 190) then run_props cmd args
      else bad_request
  | _ => bad_request
  end.
