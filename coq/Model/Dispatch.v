(* Dispatch: the single entry point [run : sx -> sx] of the executable model. *)
From Coq Require Import List ZArith NArith Bool.
From Coq Require Import QArith.
From SV Require Import Sx Str Omap Beat Props Notes Group Msd Simfile Engine TimingSrc Convert Mutate MutateRun Dir Generated.Tables.
Open Scope Z_scope.
Import ListNotations.
Open Scope Z_scope.

Definition run_beat (cmd : Z) (args : list sx) : sx :=
  match cmd, args with
  | 140, [A n; A d] => ok (A (round_tick n d))
  | 141, [s] => do s' <- un_str s; ok (sx_rd A (beat_from_str s'))
  | 142, [A t] => ok (sx_str (show3 t))
  | 143, [s] => do s' <- un_opt un_str s; ok (sx_rd (sx_list sx_event) (parse_events s'))
  | 144, [es] => do es' <- un_list un_event es; ok (sx_str (show_events es'))
  | 145, [s] => do s' <- un_str s; ok (sx_rd sx_dec (parse_dec s'))
  | 146, [d] => do d' <- un_dec d; ok (sx_str (show_dec d'))
  | _, _ => bad_request
  end.

Definition run_props (cmd : Z) (args : list sx) : sx :=
  match cmd, args with
  | 180, [m; ops] =>                       (* ordinary mapping history *)
      do m' <- un_dict m; do ops' <- un_list un_op ops;
      let '(mf, rs) := run_ops Props.step m' ops' in ok (L [sx_dict mf; sx_list sx_res rs])
  | 181, [m; ops] =>                       (* SM chart history *)
      do m' <- un_dict m; do ops' <- un_list un_op ops;
      let '(mf, rs) := run_ops (smc_step Tables.sm_chart_properties) m' ops' in ok (L [sx_dict mf; sx_list sx_res rs])
  | _, _ => bad_request
  end.

Definition un_param : sx -> option param := un_list un_str.
Definition run_msd (cmd : Z) (args : list sx) : sx :=
  match cmd, args with
  | 10, [st; t] => do st' <- un_bool st; do t' <- un_str t;
      let '(ps, s) := parse st' t' in ok (L [sx_list sx_param ps; sx_status s])
  | 11, [cs] => do cs' <- un_param cs; ok (sx_str (render_param cs'))
  | 12, [st; t] => do st' <- un_bool st; do t' <- un_str t; ok (sx_lres sx_sm (load_sm st' t'))
  | 13, [st; t] => do st' <- un_bool st; do t' <- un_str t; ok (sx_lres sx_ssc (load_ssc st' t'))
  | 14, [st; nm; t] => do st' <- un_bool st; do nm' <- un_opt un_str nm; do t' <- un_str t;
      ok (sx_lres sx_simfile (load st' nm' t'))
  | 15, [sf] => do sf' <- un_sm sf; ok (sx_str (ser_sm sf'))
  | 16, [sf] => do sf' <- un_ssc sf; ok (sx_opt sx_str (ser_ssc sf'))
  | 17, [st; t] => do st' <- un_bool st; do t' <- un_str t; ok (sx_lres sx_props (ssc_chart_from_str st' t'))
  | 18, [ps] => do ps' <- un_list un_param ps; ok (sx_lres sx_sm (load_sm_params ps' StOk))
  | 19, [ps] => do ps' <- un_list un_param ps; ok (sx_lres sx_ssc (load_ssc_params ps' StOk))
  | 20, [vs] => do vs' <- un_list un_str vs; ok (sx_opt sx_smchart (chart_from_msd vs'))
  | 21, [l; t] => do l' <- un_bool l; do t' <- un_str t; ok (sx_bool (safe l' t'))
  | 22, [c] => do c' <- un_props c; ok (sx_opt sx_str (ser_ssc_chart c'))
  | 23, [c] => do c' <- un_smchart c; ok (sx_str (ser_sm_chart c'))
  | 27, [c] => do c' <- un_props c;
      match ser_ssc_chart c' with
      | Some t => ok (L [sx_lres sx_props (ssc_chart_from_str true t)])
      | None => ok (L [])
      end
  | 24, [sf] => do sf' <- un_sm sf;
      let t := ser_sm sf' in
      let r := load_sm true t in
      ok (L [sx_str t; sx_lres sx_sm r; sx_lres sx_simfile (load true None t);
             match r with LOk sf2 => L [sx_str (ser_sm sf2)] | _ => L [] end])
  | 25, [sf] => do sf' <- un_ssc sf;
      match ser_ssc sf' with
      | None => ok (L [])
      | Some t =>
          let r := load_ssc true t in
          ok (L [L [sx_str t; sx_lres sx_ssc r; sx_lres sx_simfile (load true None t);
                    match r with LOk sf2 => sx_opt sx_str (ser_ssc sf2) | _ => L [] end]])
      end
  | 26, [isssc; st; t] => do isssc' <- un_bool isssc; do st' <- un_bool st; do t' <- un_str t;
      if isssc' then
        match load_ssc st' t' with
        | LOk sf1 =>
            match ser_ssc sf1 with
            | Some t1 =>
                match load_ssc true t1 with
                | LOk sf2 => ok (L [A 0; sx_ssc sf1; sx_str t1; sx_ssc sf2; sx_opt sx_str (ser_ssc sf2)])
                | r => ok (L [A 2; sx_ssc sf1; sx_str t1; sx_lres sx_ssc r])
                end
            | None => ok (L [A 1; sx_ssc sf1])
            end
        | r => ok (L [A 3; sx_lres sx_ssc r])
        end
      else
        match load_sm st' t' with
        | LOk sf1 =>
            let t1 := ser_sm sf1 in
            match load_sm true t1 with
            | LOk sf2 => ok (L [A 0; sx_sm sf1; sx_str t1; sx_sm sf2; L [sx_str (ser_sm sf2)]])
            | r => ok (L [A 2; sx_sm sf1; sx_str t1; sx_lres sx_sm r])
            end
        | r => ok (L [A 3; sx_lres sx_sm r])
        end
  | _, _ => bad_request
  end.

Definition run_notes (cmd : Z) (args : list sx) : sx :=
  match cmd, args with
  | 70, [s] => do s' <- un_str s;
      ok (sx_opt (fun r => L [sx_nat (fst r); sx_list sx_note (snd r)]) (decode s'))
  | 71, [s] => do s' <- un_str s; ok (sx_opt sx_nat (columns s'))
  | 72, [a; b] => do a' <- un_note a; do b' <- un_note b;
      ok (L [sx_bool (note_lt a' b'); sx_bool (note_le a' b'); sx_bool (note_gt a' b'); sx_bool (note_ge a' b')])
  | 80, [c; ns] => do c' <- un_nat c; do ns' <- un_list un_note ns; ok (sx_opt sx_str (encode c' ns'))
  | _, _ => bad_request
  end.

Definition run_group (cmd : Z) (args : list sx) : sx :=
  match cmd, args with
  | 90, [types; m; j; ph; pt; ns] =>
      do types' <- un_list un_N types; do m' <- un_sbn m; do j' <- un_bool j;
      do ph' <- un_policy ph; do pt' <- un_policy pt; do ns' <- un_list un_note ns;
      ok (sx_gres (group_notes types' m' j' ph' pt' ns'))
  | 91, [pol; groups] =>
      do pol' <- un_policy pol; do g' <- un_list (un_list un_item) groups; ok (sx_ures (ungroup_notes pol' g'))
  | 95, [types; m; j; ph; pt; pol; ns] =>
      do types' <- un_list un_N types; do m' <- un_sbn m; do j' <- un_bool j;
      do ph' <- un_policy ph; do pt' <- un_policy pt; do pol' <- un_policy pol; do ns' <- un_list un_note ns;
      match group_notes types' m' j' ph' pt' ns' with
      | GOk g => ok (L [A 0; sx_ures (ungroup_notes pol' g)])
      | GErrOrphan n => ok (L [A 1; sx_note n])
      | GErrInternal => ok (L [A 2])
      end
  | 92, [types; m; mn; ns] =>
      do types' <- un_list un_N types; do m' <- un_sbn m; do mn' <- un_nat mn; do ns' <- un_list un_note ns;
      ok (sx_opt sx_nat (count_steps types' m' mn' ns'))
  | 93, [ns] => do ns' <- un_list un_note ns; ok (sx_nat (count_mines ns'))
  | 94, [A head; ph; pt; ns] =>
      do ph' <- un_policy ph; do pt' <- un_policy pt; do ns' <- un_list un_note ns;
      match count_holds_or_rolls (Z.to_N head) ph' pt' ns' with
      | GOk g => ok (L [A 0; sx_nat (count_grouped 1 g)])
      | GErrOrphan n => ok (L [A 1; sx_note n])
      | GErrInternal => ok (L [A 2])
      end
  | _, _ => bad_request
  end.

Definition un_probe : sx -> option (Q * Z) := un_pair un_Q un_Z.
Definition run_engine (cmd : Z) (args : list sx) : sx :=
  match cmd, args with
  | 110, [td; pt; pb; ph; pa] =>
      do td' <- un_tdata td; do pt' <- un_list un_probe pt; do pb' <- un_list un_Q pb;
      do ph' <- un_list un_Q ph; do pa' <- un_list un_probe pa;
      match states td' with
      | EOk sts =>
          let d := hd {| s_beat := 0; s_val := 0; s_tag := 0; s_time := 0; s_bpm := 1; s_warp := false |}%Q sts in
          ok (L [A 0; sx_list sx_state sts;
                 sx_list (fun p => sx_Q (time_at sts d (fst p) (snd p))) pt';
                 sx_list (fun b => sx_Q (bpm_at sts d b)) pb';
                 sx_list (fun b => sx_bool (hittable sts d b)) ph';
                 sx_list (fun p => let r := beat_at_raw sts d (fst p) (snd p) in L [sx_Q (fst r); sx_Q (snd r)]) pa'])
      | EErrValue => ok (L [A 1])
      | EErrIndex => ok (L [A 2])
      end
  | 111, [td; A opt; ns] =>
      do td' <- un_tdata td; do ns' <- un_list un_note ns;
      match states td' with
      | EOk sts =>
          let d := hd {| s_beat := 0; s_val := 0; s_tag := 0; s_time := 0; s_bpm := 1; s_warp := false |}%Q sts in
          ok (L [A 0; sx_list (fun p => L [sx_Q (fst p); sx_note (snd p)]) (time_notes opt sts d ns')])
      | EErrValue => ok (L [A 1])
      | EErrIndex => ok (L [A 2])
      end
  | _, _ => bad_request
  end.

Definition run_tsrc (cmd : Z) (args : list sx) : sx :=
  match cmd, args with
  | 150, [sk; sf; ck; c; ign] =>
      do sk' <- un_skind sk; do sf' <- un_props sf; do ck' <- un_ckind ck; do c' <- un_props c; do ign' <- un_bool ign;
      ok (L [sx_tri sx_source (timing_source sk' sf' ck' c'); sx_tri sx_tdata_s (timing_data sk' sf' ck' c');
             sx_tri sx_dbpm (displaybpm sk' sf' ck' c' ign')])
  | _, _ => bad_request
  end.

Definition run_convert (cmd : Z) (args : list sx) : sx :=
  match cmd, args with
  | 160, [sf; cs; ts; tc] =>
      do sf' <- un_props sf; do cs' <- un_list un_props cs; do ts' <- un_tmpl_sf ts; do tc' <- un_opt un_props tc;
      ok (sx_cres sx_conv (sm_to_ssc sf' cs' ts' tc'))
  | 161, [sf; cs; ts; tc; beh] =>
      do sf' <- un_props sf; do cs' <- un_list un_props cs; do ts' <- un_tmpl_sf ts; do tc' <- un_opt un_props tc;
      do beh' <- un_list (un_pair un_Z un_Z) beh;
      ok (sx_cres sx_conv (ssc_to_sm sf' cs' ts' tc' beh'))
  | _, _ => bad_request
  end.

Definition run_mutate (cmd : Z) (args : list sx) : sx :=
  match cmd, args with
  | 50, [st; inp; outp; bak; nenc; files; dt; body; bad; fault] =>
      do st' <- un_bool st; do inp' <- un_str inp; do outp' <- un_opt un_str outp; do bak' <- un_opt un_str bak;
      do nenc' <- un_nat nenc; do files' <- un_list (un_pair un_str un_content) files;
      do dt' <- un_list (un_pair un_Z (un_list (un_opt un_str))) dt; do body' <- un_body body;
      do bad' <- un_list un_N bad; do fault' <- un_opt (un_pair un_Z un_str) fault;
      let cfg := {| c_input := inp'; c_output := outp'; c_backup := bak'; c_encs := seq 0 nenc' |} in
      let '(f', e) := MutateRun.run st' dt' bad' cfg files' body' fault' in
      (* also report what was detected and loaded (open_with_detected_encoding) *)
      let det := open_detect simfile str content nat str_eqb (decodes dt') (load_ st') (seq 0 nenc') files' inp' in
      ok (L [sx_list (sx_pair sx_str sx_content) f'; sx_exn e;
             match det with
             | Done (s, en) => L [A 0; sx_nat en; sx_simfile s]
             | Raised x => L [A 1; sx_exn (Some x)]
             end])
  | _, _ => bad_request
  end.

Definition run_dir (cmd : Z) (args : list sx) : sx :=
  match cmd, args with
  | 190, [l; ign] => do l' <- un_list un_str l; do ign' <- un_bool ign;
      ok (L [sx_dres (fun p => L [sx_opt sx_str (fst p); sx_opt sx_str (snd p)]) (simfile_directory l' ign');
             sx_dres sx_str (dir_open_target l' ign')])
  | 191, [es] => do es' <- un_list (un_pair un_str (un_opt (un_list un_str))) es; ok (sx_list sx_str (pack_dirs es'))
  | 192, [l; nm; sib] => do l' <- un_list un_str l; do nm' <- un_str nm; do sib' <- un_list un_str sib;
      ok (sx_banner (pack_banner l' nm' sib'))
  | 193, [kind; l; sp] => do kind' <- un_str kind; do l' <- un_list un_str l;
      do sp' <- un_opt (un_pair un_str (un_opt (un_list un_str))) sp;
      ok (sx_answer (asset_lookup kind' l' sp'))
  | _, _ => bad_request
  end.

Definition dispatch_request (req : sx) : sx :=
  match req with
  | L (A cmd :: args) =>
      if (140 <=? cmd) && (cmd <? 150) then run_beat cmd args
      else if (10 <=? cmd) && (cmd <? 40) then run_msd cmd args
      else if (50 <=? cmd) && (cmd <? 60) then run_mutate cmd args
      else if (70 <=? cmd) && (cmd <? 90) then run_notes cmd args
      else if (90 <=? cmd) && (cmd <? 100) then run_group cmd args
      else if (110 <=? cmd) && (cmd <? 120) then run_engine cmd args
      else if (150 <=? cmd) && (cmd <? 160) then run_tsrc cmd args
      else if (160 <=? cmd) && (cmd <? 170) then run_convert cmd args
      else if (180 <=? cmd) && (cmd <? 190) then run_props cmd args
      else if (190 <=? cmd) && (cmd <? 200) then run_dir cmd args
      else bad_request
  | _ => bad_request
  end.
