(* Notes: simfile.notes.NoteData - decoding note data text into notes (C07) and
   building note data text from a note stream (C08).
   A beat is a pair numerator/denominator (denominator > 0), not necessarily reduced;
   the harness and the theorems compare beats as rationals. *)
From Coq Require Import List ZArith NArith Bool Lia.
From SV Require Import Sx Str Generated.Tables.
Import ListNotations.
Open Scope Z_scope.

Record note := { nb_n : Z; nb_d : Z; ncol : Z; ntype : N; nplayer : Z; nks : option Z }.

(* ------------------------------------------------------------------ text -> grid *)
Definition line_breaks : list N := [10; 11; 12; 13; 28; 29; 30; 133; 8232; 8233]%N.
Definition is_lb (c : N) : bool := existsb (N.eqb c) line_breaks.

(* str.splitlines() *)
Fixpoint splitlines_go (s : str) (cur : str) : list str :=
  match s with
  | [] => match cur with [] => [] | _ => [rev_append cur []] end
  | c :: r =>
      if is_lb c then
        rev_append cur [] ::
        (if N.eqb c 13 then
           match r with
           | d :: r2 => if N.eqb d 10 then splitlines_go r2 [] else splitlines_go r []
           | [] => splitlines_go r []
           end
         else splitlines_go r [])
      else splitlines_go r (c :: cur)
  end.
Definition splitlines (s : str) : list str := splitlines_go s [].

Definition note_chars : list N := map (fun e => match snd e with c :: _ => c | [] => 0%N end) Tables.note_types.
Definition is_note_char (c : N) : bool := existsb (N.eqb c) note_chars.

(* a cell: None = '0', Some (type, keysound) *)
Definition cell := option (N * option Z).

(* read "ddd]" after an opening bracket: digits (at least one) up to the closing bracket *)
Fixpoint read_bracket (s : str) (acc : str) : option (Z * str) :=
  match s with
  | [] => None
  | c :: r =>
      if N.eqb c 93 then
        match N_of_digits (rev_append acc []) with Some v => Some (Z.of_N v, r) | None => None end
      else if is_digit c then read_bracket r (c :: acc) else None
  end.

(* one stripped row -> cells, left to right; None = not well-formed *)
Fixpoint parse_row (fuel : nat) (s : str) (acc : list cell) : option (list cell) :=
  match fuel with
  | O => None
  | S fuel' =>
      match s with
      | [] => Some (rev_append acc [])
      | c :: r =>
          if N.eqb c 48 then parse_row fuel' r (None :: acc)
          else if N.eqb c 91 then                       (* '[' : keysound of the previous cell *)
            match acc with
            | Some (t, None) :: acc' =>
                match read_bracket r [] with
                | Some (v, r') => parse_row fuel' r' (Some (t, Some v) :: acc')
                | None => None
                end
            | _ => None
            end
          else if is_note_char c then parse_row fuel' r (Some (c, None) :: acc)
          else None
      end
  end.
Definition parse_row_top (s : str) : option (list cell) := parse_row (S (length s)) s [].

Definition measure := list (list cell).          (* rows *)
Definition parse_measure (s : str) : option measure :=
  sequence (map (fun line => parse_row_top (strip line)) (splitlines (strip s))).

Definition parse_player (s : str) : option (list measure) :=
  sequence (map parse_measure (split_on 44%N s)).

Definition grid := list (list measure).           (* players -> measures -> rows -> cells *)
Definition parse_grid (s : str) : option grid :=
  sequence (map parse_player (split_on 38%N s)).

(* ------------------------------------------------------------------ grid -> notes *)
Fixpoint cells_notes (p m rows l : Z) (c : Z) (cs : list cell) : list note :=
  match cs with
  | [] => []
  | None :: r => cells_notes p m rows l (c + 1) r
  | Some (t, ks) :: r =>
      {| nb_n := m * 4 * rows + l * 4; nb_d := rows; ncol := c; ntype := t; nplayer := p; nks := ks |}
      :: cells_notes p m rows l (c + 1) r
  end.

Fixpoint rows_notes (p m rows : Z) (l : Z) (rs : list (list cell)) : list note :=
  match rs with
  | [] => []
  | r :: rest => cells_notes p m rows l 0 r ++ rows_notes p m rows (l + 1) rest
  end.

Fixpoint measures_notes (p : Z) (m : Z) (ms : list measure) : list note :=
  match ms with
  | [] => []
  | x :: rest => rows_notes p m (Z.of_nat (length x)) 0 x ++ measures_notes p (m + 1) rest
  end.

Fixpoint players_notes (p : Z) (g : grid) : list note :=
  match g with
  | [] => []
  | x :: rest => measures_notes p 0 x ++ players_notes (p + 1) rest
  end.

Definition notes_of_grid (g : grid) : list note := players_notes 0 g.

(* a keysound index must address a column below the column count (the code indexes a list of that size) *)
Definition row_ks_ok (cols : nat) (r : list cell) : bool :=
  forallb (fun ic => match snd ic with Some (_, Some _) => Nat.ltb (fst ic) cols | _ => true end)
          (combine (seq 0 (length r)) r).
Definition grid_ks_ok (cols : nat) (g : grid) : bool :=
  forallb (fun pl => forallb (fun ms => forallb (row_ks_ok cols) ms) pl) g.

(* NoteData._get_columns: width of the first row of the first measure *)
Fixpoint find_index (c : N) (s : str) (i : nat) : option nat :=
  match s with [] => None | x :: r => if N.eqb x c then Some i else find_index c r (S i) end.
Definition columns (s : str) : option nat :=
  let first_measure :=
    match find_index 44%N s 0 with
    | Some (S k) => take (S k) s
    | _ => s
    end in
  match splitlines (strip first_measure) with
  | [] => None                                              (* IndexError in the code *)
  | l :: _ => match parse_row_top (strip l) with Some cs => Some (length cs) | None => None end
  end.

Definition decode (s : str) : option (nat * list note) :=
  match columns s, parse_grid s with
  | Some cols, Some g => if grid_ks_ok cols g then Some (cols, notes_of_grid g) else None
  | _, _ => None
  end.

(* ------------------------------------------------------------------ ordering (Note.__lt__ etc.) *)
(* compare beats a/b and c/d with positive denominators *)
Definition beat_cmp (a b c d : Z) : comparison := Z.compare (a * d) (c * b).
Definition pos_cmp (x y : note) : comparison :=
  match Z.compare (nplayer x) (nplayer y) with
  | Eq => match beat_cmp (nb_n x) (nb_d x) (nb_n y) (nb_d y) with
          | Eq => Z.compare (ncol x) (ncol y)
          | o => o
          end
  | o => o
  end.
Definition note_lt x y := match pos_cmp x y with Lt => true | _ => false end.
Definition note_le x y := match pos_cmp x y with Gt => false | _ => true end.
Definition note_gt x y := match pos_cmp x y with Gt => true | _ => false end.
Definition note_ge x y := match pos_cmp x y with Lt => false | _ => true end.

(* ------------------------------------------------------------------ notes -> text (from_notes) *)
Fixpoint group_by {T} (key : T -> Z) (l : list T) : list (Z * list T) :=
  match l with
  | [] => []
  | x :: r =>
      match group_by key r with
      | (k, g) :: rest => if Z.eqb (key x) k then (k, x :: g) :: rest else (key x, [x]) :: (k, g) :: rest
      | [] => [(key x, [x])]
      end
  end.

Definition zeros (cols : nat) : list str := repeat [48%N] cols.

Fixpoint set_nth {T} (i : nat) (v : T) (l : list T) : option (list T) :=
  match l, i with
  | [], _ => None
  | _ :: r, O => Some (v :: r)
  | x :: r, S i' => match set_nth i' v r with Some r' => Some (x :: r') | None => None end
  end.

Definition note_str (n : note) : option str :=
  match nks n with
  | None => Some [ntype n]
  | Some k => if k <? 0 then None else Some (ntype n :: 91%N :: digits_of_N (Z.to_N k) ++ [93%N])
  end.

Fixpoint place (cells : list str) (row : list note) : option (list str) :=
  match row with
  | [] => Some cells
  | n :: r =>
      if ncol n <? 0 then None else
      match note_str n with
      | None => None
      | Some s => match set_nth (Z.to_nat (ncol n)) s cells with Some c' => place c' r | None => None end
      end
  end.

Definition render_row (cols : nat) (row : list note) : option str :=
  match place (zeros cols) row with Some cells => Some (concat cells ++ [10%N]) | None => None end.

Definition blank_rows (cols : nat) (k : Z) : str := concat (repeat (concat (zeros cols) ++ [10%N]) (Z.to_nat k)).

Definition lcm_den (ms : list note) : Z := fold_left (fun a n => Z.lcm a (nb_d n)) ms 1.
(* int(note.beat % 4 * q) *)
Definition row_index (q : Z) (n : note) : Z := ((nb_n n) mod (4 * nb_d n)) * q / nb_d n.

Fixpoint render_rows (cols : nat) (q : Z) (last_row : Z) (groups : list (Z * list note)) : option str :=
  match groups with
  | [] => Some (blank_rows cols (q * 4 - (last_row + 1)))
  | (r, row) :: rest =>
      match render_row cols row, render_rows cols q r rest with
      | Some s, Some t => Some (blank_rows cols (r - (last_row + 1)) ++ s ++ t)
      | _, _ => None
      end
  end.

Definition render_measure (cols : nat) (ms : list note) : option str :=
  let q := lcm_den ms in
  render_rows cols q (-1) (group_by (row_index q) ms).

Definition blank_measure (cols : nat) : str := blank_rows cols 4.
Definition comma_nl : str := [44%N; 10%N].
Definition amp_nl : str := [38%N; 10%N].

(* n.beat // 4 *)
Definition measure_index (n : note) : Z := nb_n n / (4 * nb_d n).

Fixpoint render_measures (cols : nat) (last_measure : Z) (groups : list (Z * list note)) : option str :=
  match groups with
  | [] => Some []
  | (m, ms) :: rest =>
      match render_measure cols ms, render_measures cols m rest with
      | Some s, Some t =>
          Some ((if -1 <? last_measure then comma_nl else []) ++
                concat (repeat (blank_measure cols ++ comma_nl) (Z.to_nat (m - (last_measure + 1)))) ++ s ++ t)
      | _, _ => None
      end
  end.

(* players must come in strictly increasing order (sorted input); otherwise outside the model *)
Fixpoint render_players (cols : nat) (last_player : Z) (groups : list (Z * list note)) : option str :=
  match groups with
  | [] => Some []
  | (p, ns) :: rest =>
      if p <=? last_player then None else
      match render_measures cols (-1) (group_by measure_index ns), render_players cols p rest with
      | Some s, Some t =>
          Some ((if -1 <? last_player then amp_nl else []) ++
                concat (repeat (blank_measure cols ++ amp_nl) (Z.to_nat (p - (last_player + 1)))) ++ s ++ t)
      | _, _ => None
      end
  end.

Definition beats_ok (ns : list note) : bool := forallb (fun n => (0 <? nb_d n) && (0 <=? nb_n n)) ns.

Definition encode (cols : nat) (ns : list note) : option str :=
  if negb (beats_ok ns) then None else
  match ns with
  | [] => Some (blank_measure cols)
  | _ => render_players cols (-1) (group_by nplayer ns)
  end.

(* ------------------------------------------------------------------ wire *)
Definition sx_note (n : note) : sx :=
  L [A (nb_n n); A (nb_d n); A (ncol n); sx_N (ntype n); A (nplayer n); sx_opt A (nks n)].
Definition un_note (x : sx) : option note :=
  match x with
  | L [A a; A b; A c; t; A p; k] =>
      match un_N t, un_opt un_Z k with
      | Some t', Some k' => Some {| nb_n := a; nb_d := b; ncol := c; ntype := t'; nplayer := p; nks := k' |}
      | _, _ => None
      end
  | _ => None
  end.
