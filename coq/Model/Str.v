(* Str: Python str operations the library relies on, over [list N] code points.
   [is_space] is Python's str.isspace set (used by str.strip() with no argument);
   the harness compares it with the running interpreter on all 0x110000 code points. *)
From Coq Require Import List ZArith NArith Bool Lia DecimalN DecimalFacts.
From SV Require Import Sx.
Import ListNotations.
Open Scope N_scope.

Definition space_points : list N :=
  [9; 10; 11; 12; 13; 28; 29; 30; 31; 32; 133; 160; 5760; 8192; 8193; 8194; 8195;
   8196; 8197; 8198; 8199; 8200; 8201; 8202; 8232; 8233; 8239; 8287; 12288].

Definition is_space (c : N) : bool := existsb (N.eqb c) space_points.

Fixpoint lstrip (s : str) : str :=
  match s with
  | [] => []
  | c :: r => if is_space c then lstrip r else s
  end.

(* rstrip without [rev] on the whole string: keep a pending run of blanks *)
Fixpoint rstrip_go (s : str) (pending : str) : str :=
  match s with
  | [] => []
  | c :: r =>
      if is_space c then rstrip_go r (c :: pending)
      else rev_append pending (c :: rstrip_go r [])
  end.
Definition rstrip (s : str) : str := rstrip_go s [].
Definition strip (s : str) : str := rstrip (lstrip s).

(* str.split(sep) for a one-character separator: always at least one piece *)
Fixpoint split_go (sep : N) (s : str) (cur : str) : list str :=
  match s with
  | [] => [rev_append cur []]
  | c :: r => if N.eqb c sep then rev_append cur [] :: split_go sep r [] else split_go sep r (c :: cur)
  end.
Definition split_on (sep : N) (s : str) : list str := split_go sep s [].

Fixpoint join (sep : str) (l : list str) : str :=
  match l with
  | [] => []
  | [x] => x
  | x :: r => x ++ sep ++ join sep r
  end.

Definition is_digit (c : N) : bool := (48 <=? c) && (c <=? 57).

(* decimal digits <-> Decimal.uint, so that the stdlib round-trip lemmas apply *)
Fixpoint str_of_uint (u : Decimal.uint) : str :=
  match u with
  | Decimal.Nil => []
  | Decimal.D0 r => 48 :: str_of_uint r
  | Decimal.D1 r => 49 :: str_of_uint r
  | Decimal.D2 r => 50 :: str_of_uint r
  | Decimal.D3 r => 51 :: str_of_uint r
  | Decimal.D4 r => 52 :: str_of_uint r
  | Decimal.D5 r => 53 :: str_of_uint r
  | Decimal.D6 r => 54 :: str_of_uint r
  | Decimal.D7 r => 55 :: str_of_uint r
  | Decimal.D8 r => 56 :: str_of_uint r
  | Decimal.D9 r => 57 :: str_of_uint r
  end.

Fixpoint uint_of_str (s : str) : option Decimal.uint :=
  match s with
  | [] => Some Decimal.Nil
  | c :: r =>
      match uint_of_str r with
      | None => None
      | Some u =>
          match c with
          | 48 => Some (Decimal.D0 u) | 49 => Some (Decimal.D1 u) | 50 => Some (Decimal.D2 u)
          | 51 => Some (Decimal.D3 u) | 52 => Some (Decimal.D4 u) | 53 => Some (Decimal.D5 u)
          | 54 => Some (Decimal.D6 u) | 55 => Some (Decimal.D7 u) | 56 => Some (Decimal.D8 u)
          | 57 => Some (Decimal.D9 u)
          | _ => None
          end
      end
  end.

Definition digits_of_N (n : N) : str := str_of_uint (N.to_uint n).
(* [None] on the empty string and on any non ASCII-digit *)
Definition N_of_digits (s : str) : option N :=
  match s with
  | [] => None
  | _ => match uint_of_str s with Some u => Some (N.of_uint u) | None => None end
  end.

Lemma uint_of_str_of_uint u : uint_of_str (str_of_uint u) = Some u.
Proof. induction u; simpl; try rewrite IHu; reflexivity. Qed.

Lemma str_of_uint_nonnil n : str_of_uint (N.to_uint n) <> [].
Proof.
  destruct n as [|p]; [discriminate|].
  unfold N.to_uint. intro H.
  assert (E : Pos.to_uint p = Decimal.Nil) by (destruct (Pos.to_uint p); try discriminate; reflexivity).
  apply (f_equal Pos.of_uint) in E. rewrite DecimalPos.Unsigned.of_to in E. discriminate.
Qed.

Lemma N_of_digits_of_N n : N_of_digits (digits_of_N n) = Some n.
Proof.
  unfold N_of_digits, digits_of_N.
  destruct (str_of_uint (N.to_uint n)) eqn:E.
  - exfalso. eapply str_of_uint_nonnil; eauto.
  - rewrite <- E, uint_of_str_of_uint. f_equal. apply DecimalN.Unsigned.of_to.
Qed.

(* left-pad with '0' to at least [w] characters *)
Fixpoint repeat_c (c : N) (k : nat) : str := match k with O => [] | S k' => c :: repeat_c c k' end.
Definition zpad (w : nat) (s : str) : str := repeat_c 48 (w - length s) ++ s.

Fixpoint take (k : nat) (s : str) : str :=
  match k, s with O, _ => [] | _, [] => [] | S k', c :: r => c :: take k' r end.
Fixpoint drop (k : nat) (s : str) : str :=
  match k, s with O, _ => s | _, [] => [] | S k', _ :: r => drop k' r end.

Fixpoint starts_with (p s : str) : bool :=
  match p, s with
  | [], _ => true
  | _, [] => false
  | a :: p', b :: s' => N.eqb a b && starts_with p' s'
  end.

Definition ends_with (p s : str) : bool :=
  (length p <=? length s)%nat && str_eqb (drop (length s - length p) s) p.

Definition mem_str (x : str) (l : list str) : bool := existsb (str_eqb x) l.

Lemma mem_str_In x l : mem_str x l = true <-> In x l.
Proof.
  unfold mem_str. rewrite existsb_exists. split.
  - intros [y [Hy E]]. apply str_eqb_eq in E. subst; assumption.
  - intro H. exists x. split; [assumption|apply str_eqb_refl].
Qed.
