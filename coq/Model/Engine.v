(* Engine: simfile.timing.engine.TimingEngine over exact rationals (C11, C12, C13).
   The implementation computes times in binary64; the model is exact, and the gap is measured
   by the correspondence (1e-9 s), not proved.  Discrete answers (hittable, bpm_at, beat_at on
   unambiguous probes) are compared exactly. *)
From Coq Require Import List ZArith QArith Qround Bool.
From SV Require Import Sx Beat.
Import ListNotations.
Open Scope Q_scope.

(* event tags, in the documented order *)
Definition tWARP : Z := 0.  Definition tWARP_END : Z := 1.  Definition tBPM : Z := 2.
Definition tDELAY : Z := 3. Definition tDELAY_END : Z := 4. Definition tSTOP : Z := 5. Definition tSTOP_END : Z := 6.

Record ev := { e_beat : Q; e_val : Q; e_tag : Z }.
Record state := { s_beat : Q; s_val : Q; s_tag : Z; s_time : Q; s_bpm : Q; s_warp : bool }.
Record tdata := { td_bpms : list (Q * Q); td_stops : list (Q * Q); td_delays : list (Q * Q);
                  td_warps : list (Q * Q); td_offset : Q }.

Definition qle (a b : Q) : bool := match a ?= b with Gt => false | _ => true end.
Definition qlt (a b : Q) : bool := match a ?= b with Lt => true | _ => false end.
Definition qeq (a b : Q) : bool := match a ?= b with Eq => true | _ => false end.

(* Beat(Decimal): nearest tick *)
Definition tick_round (v : Q) : Q := Qred (round_tick (Qnum v) (Zpos (Qden v)) # 48).

(* _coalesce_warps: starts and ends of the merged segments *)
Fixpoint coalesce (ws : list (Q * Q)) (starts ends : list Q) : list Q * list Q :=
  match ws with
  | [] => (rev_append starts [], rev_append ends [])
  | (b, v) :: r =>
      let we := Qred (b + tick_round v) in
      match ends with
      | [] => coalesce r (b :: starts) (we :: ends)
      | le :: ends' =>
          if qle b le then (if qlt le we then coalesce r starts (we :: ends') else coalesce r starts ends)
          else coalesce r (b :: starts) (we :: ends)
      end
  end.

(* (beat, tag) order: TaggedEvent.__lt__ *)
Definition ev_lt (a b : ev) : bool := qlt (e_beat a) (e_beat b) || (qeq (e_beat a) (e_beat b) && (e_tag a <? e_tag b)%Z).

(* stable merge of two sorted runs (heapq.merge on sorted inputs): on ties the left run goes first *)
Fixpoint merge2 (fuel : nat) (a b : list ev) : list ev :=
  match fuel with
  | O => a ++ b
  | S f =>
      match a, b with
      | [], _ => b
      | _, [] => a
      | x :: a', y :: b' => if ev_lt y x then y :: merge2 f a b' else x :: merge2 f a' b
      end
  end.
Definition merge (a b : list ev) : list ev := merge2 (length a + length b) a b.

Definition tagged (tag : Z) (l : list (Q * Q)) : list ev := map (fun bv => {| e_beat := fst bv; e_val := snd bv; e_tag := tag |}) l.

Definition events (td : tdata) : list ev :=
  let '(ws, wes) := coalesce (td_warps td) [] [] in
  let zero (l : list Q) := map (fun b => (b, 0)) l in
  fold_right merge []
    [ tagged tWARP (zero ws); tagged tWARP_END (zero wes); tagged tBPM (tl (td_bpms td));
      tagged tDELAY (td_delays td); tagged tDELAY_END (td_delays td);
      tagged tSTOP (td_stops td); tagged tSTOP_END (td_stops td) ].

Definition is_pause_tag (t : Z) : bool := Z.eqb t tSTOP || Z.eqb t tDELAY.
Definition is_end_tag (t : Z) : bool := Z.eqb t tSTOP_END || Z.eqb t tDELAY_END.

(* TimingState.time_until *)
Definition time_until (s : state) (beat : Q) (tag : Z) : Q :=
  let base := if s_warp s then 0 else (beat - s_beat s) * 60 / s_bpm s in
  Qred (if is_pause_tag (s_tag s) && is_end_tag tag then base + s_val s else base).

Definition advance (s : state) (e : ev) : state :=
  {| s_beat := e_beat e; s_val := e_val e; s_tag := e_tag e;
     s_time := Qred (s_time s + time_until s (e_beat e) (e_tag e));
     s_bpm := if Z.eqb (e_tag e) tBPM then e_val e else s_bpm s;
     s_warp := if Z.eqb (e_tag e) tWARP then true else if Z.eqb (e_tag e) tWARP_END then false else s_warp s |}.

Fixpoint run_states (s : state) (es : list ev) : list state :=
  match es with
  | [] => [s]
  | e :: r => s :: run_states (advance s e) r
  end.

Inductive eres (T : Type) := EOk (x : T) | EErrValue | EErrIndex.
Arguments EOk {T} x. Arguments EErrValue {T}. Arguments EErrIndex {T}.

Definition states (td : tdata) : eres (list state) :=
  match td_bpms td with
  | [] => EErrIndex
  | (b0, v0) :: _ =>
      if negb (qeq b0 0) then EErrValue
      else EOk (run_states {| s_beat := 0; s_val := v0; s_tag := tBPM; s_time := Qred (- td_offset td); s_bpm := v0; s_warp := false |}
                           (events td))
  end.

(* bisect.bisect_right on a list of keys, with the comparison "x < a[mid]" supplied *)
Fixpoint bisect_go {T} (fuel : nat) (lt_x : T -> bool) (l : list T) (d : T) (lo hi : nat) : nat :=
  match fuel with
  | O => lo
  | S f =>
      if Nat.ltb lo hi then
        let mid := Nat.div (lo + hi) 2 in
        if lt_x (nth mid l d) then bisect_go f lt_x l d lo mid else bisect_go f lt_x l d (S mid) hi
      else lo
  end.
Definition bisect_right {T} (lt_x : T -> bool) (l : list T) (d : T) : nat :=
  bisect_go (S (length l)) lt_x l d 0 (length l).

Definition key_lt (beat : Q) (tag : Z) (s : state) : bool :=   (* (beat, tag) < (s.beat, s.tag) *)
  qlt beat (s_beat s) || (qeq beat (s_beat s) && (tag <? s_tag s)%Z).

Definition prior (sts : list state) (d : state) (beat : Q) (tag : Z) : state :=
  nth (Nat.pred (bisect_right (key_lt beat tag) sts d)) sts d.

Definition time_at (sts : list state) (d : state) (beat : Q) (tag : Z) : Q :=
  let p := prior sts d beat tag in Qred (s_time p + time_until p beat tag).

Definition bpm_at (sts : list state) (d : state) (beat : Q) : Q :=
  if qlt beat 0 then s_bpm d (* first BPM *) else s_bpm (prior sts d beat tBPM).

Definition hittable (sts : list state) (d : state) (beat : Q) : bool :=
  let p := prior sts d beat tSTOP_END in
  if negb (s_warp p) then true
  else is_end_tag (s_tag p) && qeq beat (s_beat p).

(* beat_at: search by time, then by tag among the states at exactly this time *)
Fixpoint pick_in_run (sts : list state) (idx : nat) (time : Q) (tag : Z) (best : option nat) : option nat :=
  match sts with
  | [] => best
  | s :: r =>
      if qlt (s_time s) time then pick_in_run r (S idx) time tag (Some idx)          (* before the run: candidate first-1 *)
      else if qeq (s_time s) time then pick_in_run r (S idx) time tag (if (s_tag s <=? tag)%Z then Some idx else best)
      else best
  end.

Definition round_q_tick (x : Q) : Q := tick_round x.

Definition beat_at_raw (sts : list state) (d : state) (time : Q) (tag : Z) : Q * Q :=   (* (answer, pre-rounding ticks) *)
  let idx := match pick_in_run sts 0 time tag None with Some i => i | None => O end in
  let p := nth idx sts d in
  if is_pause_tag (s_tag p) then (s_beat p, 0)
  else
    let elapsed := (time - s_time p) / 60 * s_bpm p in
    (Qred (s_beat p + tick_round elapsed), Qred (elapsed * 48)).

(* ---- wire ---- *)
Definition sx_Q (q : Q) : sx := let r := Qred q in L [A (Qnum r); A (Zpos (Qden r))].
Definition un_Q (x : sx) : option Q :=
  match x with
  | L [A n; A (Zpos d)] => Some (n # d)
  | _ => None
  end.
Definition un_bv : sx -> option (Q * Q) := un_pair un_Q un_Q.
Definition un_tdata (x : sx) : option tdata :=
  match x with
  | L [b; s; d; w; o] =>
      match un_list un_bv b, un_list un_bv s, un_list un_bv d, un_list un_bv w, un_Q o with
      | Some b', Some s', Some d', Some w', Some o' =>
          Some {| td_bpms := b'; td_stops := s'; td_delays := d'; td_warps := w'; td_offset := o' |}
      | _, _, _, _, _ => None
      end
  | _ => None
  end.
Definition sx_state (s : state) : sx :=
  L [sx_Q (s_beat s); sx_Q (s_val s); A (s_tag s); sx_Q (s_time s); sx_Q (s_bpm s); sx_bool (s_warp s)].

(* ---- simfile.notes.timed.time_notes (C13) ---- *)
From SV Require Import Notes.
Definition note_beat (n : note) : Q := nb_n n # Z.to_pos (nb_d n).
(* opt: 1 TAP_TO_FAKE, 2 DROP_NOTE, 3 KEEP_NOTE *)
Definition as_fake (n : note) : note :=
  {| nb_n := nb_n n; nb_d := nb_d n; ncol := ncol n; ntype := 70%N; nplayer := nplayer n; nks := nks n |}.
Definition time_note (opt : Z) (sts : list state) (d : state) (n : note) : option (Q * note) :=
  let b := note_beat n in
  if hittable sts d b || Z.eqb opt 3 then Some (time_at sts d b tSTOP, n)
  else if Z.eqb opt 1 && N.eqb (ntype n) 49 then Some (time_at sts d b tSTOP, as_fake n)
  else None.
Fixpoint time_notes (opt : Z) (sts : list state) (d : state) (ns : list note) : list (Q * note) :=
  match ns with
  | [] => []
  | n :: r => match time_note opt sts d n with
              | Some x => x :: time_notes opt sts d r
              | None => time_notes opt sts d r
              end
  end.
