(* Mutate: simfile.open_with_detected_encoding and the mutate context manager (C05, C06).
   The file system is a finite map from paths to contents; codecs, the loader, the serialiser
   and the body of the with-block are parameters (section variables), instantiated by the
   Simfile model and by tables the harness computes with Python's codecs. *)
From Coq Require Import List ZArith NArith Bool.
From SV Require Import Sx Str.
Import ListNotations.

Inductive exn := XDecode | XLoad | XNotFound | XValue | XSerialize | XEncode | XFault | XBody (class : Z) | XNoEncodings.
Inductive outcome (T : Type) := Done (x : T) | Raised (e : exn).
Arguments Done {T} x. Arguments Raised {T} e.
Inductive step := OpenW (p : str) | WriteS (p : str) | CloseS (p : str).
Inductive body_outcome (S : Type) := BNormal (s : S) | BCancel | BRaise (class : Z).
Arguments BNormal {S} s. Arguments BCancel {S}. Arguments BRaise {S} class.

Section Mutate.
Variables (S text content enc : Type).
Variable path_eqb : str -> str -> bool.
Hypothesis path_eqb_eq : forall a b, path_eqb a b = true <-> a = b.

Definition fs := list (str * content).
Fixpoint fs_read (f : fs) (p : str) : option content :=
  match f with [] => None | (q, c) :: r => if path_eqb p q then Some c else fs_read r p end.
Fixpoint fs_write (f : fs) (p : str) (c : content) : fs :=
  match f with
  | [] => [(p, c)]
  | (q, c') :: r => if path_eqb p q then (q, c) :: r else (q, c') :: fs_write r p c
  end.

Variable decodes : enc -> content -> option text.           (* None = UnicodeDecodeError *)
Variable load : str -> text -> option S.                     (* None = the loader raises (parser error, ValueError) *)
Variable ser : S -> option text.                             (* None = the simfile cannot be serialised *)
Variable encode : enc -> text -> option content.             (* None = UnicodeEncodeError *)
Variable empty : content.                                    (* a file just opened for writing *)


(* open_with_detected_encoding: the first encoding of the list under which the whole file decodes *)
Fixpoint detect (encs : list enc) (p : str) (c : content) : outcome (S * enc) :=
  match encs with
  | [] => Raised XDecode
  | e :: r =>
      match decodes e c with
      | Some t => match load p t with Some s => Done (s, e) | None => Raised XLoad end
      | None => detect r p c
      end
  end.
Definition open_detect (encs : list enc) (f : fs) (p : str) : outcome (S * enc) :=
  match encs with
  | [] => Raised XNoEncodings
  | _ => match fs_read f p with Some c => detect encs p c | None => Raised XNotFound end
  end.

(* the save sequence as semantic steps; a fault schedule says which step fails *)
Definition write_file (p : str) (c : content) : list (step * content) := [(OpenW p, empty); (WriteS p, c); (CloseS p, c)].

Fixpoint exec (fault : step -> bool) (steps : list (step * content)) (f : fs) : fs * option step :=
  match steps with
  | [] => (f, None)
  | (s, c) :: r =>
      if fault s then (f, Some s)
      else match s with
           | OpenW p => exec fault r (fs_write f p empty)      (* opening for writing truncates *)
           | WriteS p => exec fault r (fs_write f p c)
           | CloseS p => exec fault r f
           end
  end.


Record config := { c_input : str; c_output : option str; c_backup : option str; c_encs : list enc }.

Definition out_path (c : config) : str := match c_output c with Some o => o | None => c_input c end.

Definition backup_clash (c : config) : bool :=
  match c_backup c with
  | Some b => path_eqb b (c_input c) || match c_output c with Some o => path_eqb b o | None => false end
  | None => false
  end.

(* result: the file system afterwards and what the with-statement does (None = completes normally) *)
Definition mutate (c : config) (f : fs) (body : S -> body_outcome S) (fault : step -> bool) : fs * option exn :=
  if backup_clash c then (f, Some XValue) else
  match open_detect (c_encs c) f (c_input c) with
  | Raised e => (f, Some e)
  | Done (s, e) =>
      let bak_text := match c_backup c with Some _ => ser s | None => None end in
      match c_backup c, bak_text with
      | Some _, None => (f, Some XSerialize)                      (* str(simfile) for the backup, before the body runs *)
      | _, _ =>
          match body s with
          | BCancel => (f, None)
          | BRaise cl => (f, Some (XBody cl))
          | BNormal s' =>
              match ser s' with
              | None => (f, Some XSerialize)
              | Some out_text =>
                  match encode e out_text with
                  | None => (f, Some XEncode)
                  | Some out_bytes =>
                      match c_backup c, bak_text with
                      | Some b, Some bt =>
                          match encode e bt with
                          | None => (f, Some XEncode)
                          | Some bak_bytes =>
                              let '(f', failed) := exec fault (write_file b bak_bytes ++ write_file (out_path c) out_bytes) f in
                              (f', match failed with Some _ => Some XFault | None => None end)
                          end
                      | _, _ =>
                          let '(f', failed) := exec fault (write_file (out_path c) out_bytes) f in
                          (f', match failed with Some _ => Some XFault | None => None end)
                      end
                  end
              end
          end
      end
  end.

End Mutate.
