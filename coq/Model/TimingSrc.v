(* TimingSrc: which object timing data and the displayed BPM are read from (C15):
   simfile/timing/_private/timingsource.py, TimingData.__init__, displaybpm(). *)
From Coq Require Import List ZArith NArith Bool.
From SV Require Import Sx Str Omap Beat Simfile Generated.Tables.
Import ListNotations.
Open Scope Z_scope.

Inductive skind := KSM | KSSC.
Inductive ckind := CNone | CSM | CSSC.
Inductive source := SrcSimfile | SrcChart.

Definition k (s : list N) : str := s.
Definition kBPMS : str := [66;80;77;83]%N.
Definition kSTOPS : str := [83;84;79;80;83]%N.
Definition kFREEZES : str := [70;82;69;69;90;69;83]%N.
Definition kDELAYS : str := [68;69;76;65;89;83]%N.
Definition kWARPS : str := [87;65;82;80;83]%N.
Definition kOFFSET : str := [79;70;70;83;69;84]%N.
Definition kDISPLAYBPM : str := [68;73;83;80;76;65;89;66;80;77]%N.

Definition truthy (v : option val) : bool :=
  match v with Some (Some (_ :: _)) => true | _ => false end.

Inductive tri (T : Type) := TOk (x : T) | TUnmodelled | TErrValue | TErrKey.
Arguments TOk {T} x. Arguments TUnmodelled {T}. Arguments TErrValue {T}. Arguments TErrKey {T}.

(* float(simfile.version or "0") >= 0.7, for plain decimals *)
Definition version_ok (v : option val) : tri bool :=
  let s := match v with Some (Some (c :: r)) => c :: r | _ => [48%N] end in
  match parse_plain s with
  | Got (neg, c, kk) =>
      TOk (if neg then false else (7 * pow10 kk <=? 10 * Z.of_N c))
  | Unmodelled => TUnmodelled
  | ErrValue => TErrValue
  end.

Definition chart_has_timing (c : props) : bool :=
  existsb (fun key => truthy (get key c)) Tables.chart_timing_properties.

Definition timing_source (sk : skind) (sf : props) (ck : ckind) (c : props) : tri source :=
  match sk, ck with
  | KSSC, CSSC =>
      match version_ok (get kVERSION sf) with
      | TOk true => TOk (if chart_has_timing c then SrcChart else SrcSimfile)
      | TOk false => TOk SrcSimfile
      | TUnmodelled => TUnmodelled
      | TErrValue => TErrValue
      | TErrKey => TErrKey
      end
  | _, _ => TOk SrcSimfile
  end.

(* the mapping timing is read from, and whether STOPS may be spelled FREEZES there *)
Definition src_props (sk : skind) (sf c : props) (s : source) : props * bool :=
  match s with
  | SrcChart => (c, false)
  | SrcSimfile => (sf, match sk with KSM => true | KSSC => false end)
  end.

Definition attr (p : props) (name : str) (alias : option str) : val :=
  let key := match alias with
             | Some a => if negb (has name p) && has a p then a else name
             | None => name end in
  match get key p with Some v => v | None => None end.

Record tdata_s := { ts_bpms : list (Z * dec); ts_stops : list (Z * dec); ts_delays : list (Z * dec);
                    ts_warps : list (Z * dec); ts_offset : dec }.

Definition lift_rd {T} (r : rd T) : tri T := match r with Got x => TOk x | Unmodelled => TUnmodelled | ErrValue => TErrValue end.

Definition timing_data_of (p : props) (freezes : bool) : tri tdata_s :=
  match lift_rd (parse_events (attr p kBPMS None)),
        lift_rd (parse_events (attr p kSTOPS (if freezes then Some kFREEZES else None))),
        lift_rd (parse_events (attr p kDELAYS None)),
        lift_rd (parse_events (match get kWARPS p with Some v => v | None => None end)),
        lift_rd (match attr p kOFFSET None with
                 | Some (c :: r) => parse_dec (c :: r)
                 | _ => Got {| dneg := false; dcoef := 0; dplaces := 0 |} end) with
  | TOk b, TOk s, TOk d, TOk w, TOk o => TOk {| ts_bpms := b; ts_stops := s; ts_delays := d; ts_warps := w; ts_offset := o |}
  | TErrValue, _, _, _, _ | _, TErrValue, _, _, _ | _, _, TErrValue, _, _ | _, _, _, TErrValue, _ | _, _, _, _, TErrValue => TErrValue
  | _, _, _, _, _ => TUnmodelled
  end.

Definition timing_data (sk : skind) (sf : props) (ck : ckind) (c : props) : tri tdata_s :=
  match timing_source sk sf ck c with
  | TOk s => let '(p, fz) := src_props sk sf c s in timing_data_of p fz
  | TUnmodelled => TUnmodelled | TErrValue => TErrValue | TErrKey => TErrKey
  end.

Inductive dbpm := DStatic (v : dec) | DRange (lo hi : dec) | DRandom.

(* exact comparison of plain decimals *)
Definition dec_num (d : dec) : Z := if dneg d then - Z.of_N (dcoef d) else Z.of_N (dcoef d).
Definition dec_le (a b : dec) : bool := dec_num a * pow10 (dplaces b) <=? dec_num b * pow10 (dplaces a).
Fixpoint dec_min (l : list dec) (m : dec) : dec := match l with [] => m | x :: r => dec_min r (if dec_le m x then m else x) end.
Fixpoint dec_max (l : list dec) (m : dec) : dec := match l with [] => m | x :: r => dec_max r (if dec_le x m then m else x) end.

Fixpoint partition_colon (s : str) (acc : str) : option (str * str) :=
  match s with
  | [] => None
  | c :: r => if N.eqb c 58 then Some (rev_append acc [], r) else partition_colon r (c :: acc)
  end.

Definition from_bpms (p : props) : tri dbpm :=
  match get kBPMS p with
  | None => TErrKey
  | Some v =>
      match lift_rd (parse_events v) with
      | TOk [] => TErrValue                               (* min() of an empty list *)
      | TOk [e] => TOk (DStatic (snd e))
      | TOk (e :: r) => TOk (DRange (dec_min (map snd r) (snd e)) (dec_max (map snd r) (snd e)))
      | TUnmodelled => TUnmodelled | TErrValue => TErrValue | TErrKey => TErrKey
      end
  end.

Definition displaybpm_of (p : props) (ignore_specified : bool) : tri dbpm :=
  match get kDISPLAYBPM p with
  | Some (Some v) =>
      if ignore_specified then from_bpms p
      else if str_eqb v [42%N] then TOk DRandom
      else
        match partition_colon v [] with
        | Some (a, b) =>
            match parse_dec a, parse_dec b with
            | Got x, Got y => TOk (DRange x y)
            | ErrValue, Unmodelled | Unmodelled, _ | Got _, Unmodelled => TUnmodelled
            | _, _ => from_bpms p                          (* InvalidOperation: fall back to BPMS *)
            end
        | None =>
            match parse_dec v with
            | Got x => TOk (DStatic x)
            | ErrValue => from_bpms p
            | Unmodelled => TUnmodelled
            end
        end
  | _ => from_bpms p
  end.

Definition displaybpm (sk : skind) (sf : props) (ck : ckind) (c : props) (ign : bool) : tri dbpm :=
  match timing_source sk sf ck c with
  | TOk s => displaybpm_of (fst (src_props sk sf c s)) ign
  | TUnmodelled => TUnmodelled | TErrValue => TErrValue | TErrKey => TErrKey
  end.

(* ---- wire ---- *)
Definition sx_tri {T} (f : T -> sx) (r : tri T) : sx :=
  match r with TOk x => L [A 0; f x] | TUnmodelled => L [A 1] | TErrValue => L [A 2] | TErrKey => L [A 3] end.
Definition sx_source (s : source) : sx := A (match s with SrcSimfile => 0 | SrcChart => 1 end).
Definition sx_tdata_s (t : tdata_s) : sx :=
  L [sx_list sx_event (ts_bpms t); sx_list sx_event (ts_stops t); sx_list sx_event (ts_delays t);
     sx_list sx_event (ts_warps t); sx_dec (ts_offset t)].
Definition sx_dbpm (d : dbpm) : sx :=
  match d with DStatic v => L [A 0; sx_dec v] | DRange a b => L [A 1; sx_dec a; sx_dec b] | DRandom => L [A 2] end.
Definition un_skind (x : sx) : option skind := match x with A 0 => Some KSM | A 1 => Some KSSC | _ => None end.
Definition un_ckind (x : sx) : option ckind := match x with A 0 => Some CNone | A 1 => Some CSM | A 2 => Some CSSC | _ => None end.
