(* Group: simfile.notes.group.group_notes / ungroup_notes and simfile.notes.count (C09, C10).
   The head/tail joining machine mirrors join_heads_to_tails_: [held] is the insertion-ordered
   dict held_columns, [buf] the deque, [out] what has been yielded (reversed). *)
From Coq Require Import List Arith ZArith NArith Bool Lia.
From SV Require Import Sx Str Notes.
Import ListNotations.
Local Open Scope nat_scope.

Inductive kind := KHead | KTail | KOther.
Definition ty (n : note) : kind :=
  if (N.eqb (ntype n) 50 || N.eqb (ntype n) 52)%bool then KHead      (* '2' HOLD_HEAD, '4' ROLL_HEAD *)
  else if N.eqb (ntype n) 51 then KTail                              (* '3' TAIL *)
  else KOther.
Definition is_head t := match t with KHead => true | _ => false end.
Definition is_tail t := match t with KTail => true | _ => false end.
(* columns are non-negative in every note the library produces; the harness never sends others *)
Definition col (n : note) : nat := Z.to_nat (ncol n).
Definition beat (n : note) : Z * Z := (nb_n n, nb_d n).            (* reduced fraction, as Fraction keeps it *)

Definition optZ_eqb (a b : option Z) : bool :=
  match a, b with None, None => true | Some x, Some y => Z.eqb x y | _, _ => false end.
(* Python == on Note tuples: every field *)
Definition note_eqb (a b : note) : bool :=
  Z.eqb (nb_n a) (nb_n b) && Z.eqb (nb_d a) (nb_d b) && Z.eqb (ncol a) (ncol b) && N.eqb (ntype a) (ntype b)
  && Z.eqb (nplayer a) (nplayer b) && optZ_eqb (nks a) (nks b).
Inductive item := Plain (n : note) | Joined (h : note) (tail_beat : Z * Z).
Definition item_is (h : note) (i : item) := match i with Plain n => note_eqb n h | _ => false end.

Inductive policy := Raise | Keep | Drop.
Inductive res := Ok (l : list item) | ErrOrphan (n : note) | ErrInternal.

(* ---------- implementation model (mirrors join_heads_to_tails_) ---------- *)
Record st := { held : list (nat * note); buf : list item; out : list item (* reversed *) }.

Fixpoint lookup (c : nat) (h : list (nat * note)) : option note :=
  match h with [] => None | (c', n) :: r => if c' =? c then Some n else lookup c r end.
Fixpoint remove_col (c : nat) (h : list (nat * note)) :=
  match h with [] => [] | (c', n) :: r => if c' =? c then r else (c', n) :: remove_col c r end.
Definition is_held (h : list (nat * note)) (i : item) := existsb (fun p => item_is (snd p) i) h.

Fixpoint replace_first (h : note) (new : item) (b : list item) : option (list item) :=
  match b with
  | [] => None
  | i :: r => if item_is h i then Some (new :: r)
              else match replace_first h new r with Some r' => Some (i :: r') | None => None end
  end.
Fixpoint remove_first (h : note) (b : list item) : option (list item) :=
  match b with
  | [] => None
  | i :: r => if item_is h i then Some r
              else match remove_first h r with Some r' => Some (i :: r') | None => None end
  end.

(* pop from the front while the front is not a held note; None = IndexError *)
Fixpoint flush_until (h : list (nat * note)) (b : list item) (o : list item) : option (list item * list item) :=
  match b with
  | [] => None
  | i :: r => if is_held h i then Some (b, o) else flush_until h r (i :: o)
  end.

Inductive step_res := SOk (s : st) | SErr (n : note) | SInternal.

Definition orphan_head (ph : policy) (h : note) (s : st) : step_res :=
  match ph with
  | Raise => SErr h
  | Keep => SOk s
  | Drop => match remove_first h (buf s) with
            | Some b => SOk {| held := held s; buf := b; out := out s |} | None => SInternal end
  end.

Definition join (ph pt : policy) (mh : option note) (x : option note) (s : st) : step_res :=
  match mh with
  | None => match x with
            | None => SOk s
            | Some t => match pt with
                        | Raise => SErr t
                        | Keep => SOk {| held := held s; buf := buf s ++ [Plain t]; out := out s |}
                        | Drop => SOk s end
            end
  | Some h =>
      match x with
      | Some t => if is_tail (ty t)
                  then match replace_first h (Joined h (beat t)) (buf s) with
                       | Some b => SOk {| held := held s; buf := b; out := out s |} | None => SInternal end
                  else orphan_head ph h s
      | None => orphan_head ph h s
      end
  end.

Definition flush_step (s : st) : step_res :=
  match held s with
  | [] => SOk {| held := []; buf := []; out := rev_append (buf s) (out s) |}
  | _ => match flush_until (held s) (buf s) (out s) with
         | Some (b, o) => SOk {| held := held s; buf := b; out := o |} | None => SInternal end
  end.

Definition maybe_buffer (x : note) (s : st) : st :=
  match held s with
  | [] => {| held := []; buf := []; out := Plain x :: rev_append (buf s) (out s) |}
  | _ => {| held := held s; buf := buf s ++ [Plain x]; out := out s |}
  end.

Definition step (ph pt : policy) (s : st) (x : note) : step_res :=
  let r1 :=
    if (match lookup (col x) (held s) with Some _ => true | None => false end) || is_tail (ty x)
    then let mh := lookup (col x) (held s) in
         let s0 := {| held := remove_col (col x) (held s); buf := buf s; out := out s |} in
         match join ph pt mh (Some x) s0 with
         | SOk s1 => flush_step s1
         | e => e end
    else SOk s in
  match r1 with
  | SOk s1 =>
      let s2 := if is_head (ty x) then {| held := held s1 ++ [(col x, x)]; buf := buf s1; out := out s1 |} else s1 in
      SOk (if is_tail (ty x) then s2 else maybe_buffer x s2)
  | e => e
  end.

Fixpoint run (ph pt : policy) (s : st) (ns : list note) : step_res :=
  match ns with
  | [] => SOk s
  | x :: r => match step ph pt s x with SOk s' => run ph pt s' r | e => e end
  end.

Fixpoint cleanup (ph pt : policy) (hs : list (nat * note)) (s : st) : step_res :=
  match hs with
  | [] => SOk s
  | (_, h) :: r => match join ph pt (Some h) None s with SOk s' => cleanup ph pt r s' | e => e end
  end.

Definition impl (ph pt : policy) (ns : list note) : res :=
  match run ph pt {| held := []; buf := []; out := [] |} ns with
  | SOk s => match cleanup ph pt (held s) s with
             | SOk s' => Ok (rev_append (out s') (buf s'))
             | SErr n => ErrOrphan n | SInternal => ErrInternal end
  | SErr n => ErrOrphan n
  | SInternal => ErrInternal
  end.

(* ---------- declarative specification ---------- *)
Fixpoint next_in_col (c : nat) (ns : list note) : option note :=
  match ns with [] => None | n :: r => if col n =? c then Some n else next_in_col c r end.


Inductive ev := Emit (i : item) | Skip.

Definition orphan_item (p : policy) (n : note) : list item := match p with Drop => [] | _ => [Plain n] end.

(* what a head finally becomes, given the notes that follow it *)
Definition fate (ph : policy) (r : list note) (h : note) : list item :=
  match next_in_col (col h) r with
  | Some t => if is_tail (ty t) then [Joined h (beat t)] else orphan_item ph h
  | None => orphan_item ph h
  end.

Definition opens (open_ : list (nat * note)) (x : note) :=
  let open' := remove_col (col x) open_ in
  if is_head (ty x) then open' ++ [(col x, x)] else open'.

Fixpoint spec_items (ph pt : policy) (open_ : list (nat * note)) (ns : list note) : list item :=
  match ns with
  | [] => []
  | x :: r =>
    (if is_tail (ty x) then
       match lookup (col x) open_ with Some _ => [] | None => orphan_item pt x end
     else if is_head (ty x) then fate ph r x
     else [Plain x]) ++ spec_items ph pt (opens open_ x) r
  end.

Fixpoint spec_err (ph pt : policy) (open_ : list (nat * note)) (ns : list note) : option note :=
  match ns with
  | [] => match ph with Raise => match open_ with (_, h) :: _ => Some h | [] => None end | _ => None end
  | x :: r =>
    match lookup (col x) open_, is_tail (ty x) with
    | None, true => match pt with Raise => Some x | _ => spec_err ph pt (opens open_ x) r end
    | Some h, false => match ph with Raise => Some h | _ => spec_err ph pt (opens open_ x) r end
    | _, _ => spec_err ph pt (opens open_ x) r
    end
  end.

Definition spec (ph pt : policy) (ns : list note) : res :=
  match spec_err ph pt [] ns with
  | Some n => ErrOrphan n
  | None => Ok (spec_items ph pt [] ns)
  end.

(* ================================================================== the rest of group_notes *)
Local Open Scope Z_scope.

Definition beat_eqb (a b : Z * Z) : bool := Z.eqb (fst a) (fst b) && Z.eqb (snd a) (snd b).
Definition item_head (i : item) : note := match i with Plain n => n | Joined h _ => h end.
Definition item_beat (i : item) : Z * Z := beat (item_head i).
Definition item_type (i : item) : N := ntype (item_head i).

(* itertools.groupby(items, key=beat): maximal runs of consecutive equal beats *)
Fixpoint rows_of (l : list item) : list (list item) :=
  match l with
  | [] => []
  | x :: r =>
      match rows_of r with
      | (y :: g) :: rest => if beat_eqb (item_beat x) (item_beat y) then (x :: y :: g) :: rest else [x] :: (y :: g) :: rest
      | _ => [[x]]
      end
  end.

Inductive sbn := KeepSeparate | JoinByNoteType | JoinAll.

(* JOIN_BY_NOTE_TYPE: one group per note type, in order of first occurrence *)
Fixpoint by_type (fuel : nat) (row : list item) : list (list item) :=
  match fuel with
  | O => []
  | S f =>
      match row with
      | [] => []
      | x :: _ =>
          filter (fun i => N.eqb (item_type i) (item_type x)) row ::
          by_type f (filter (fun i => negb (N.eqb (item_type i) (item_type x))) row)
      end
  end.

Definition add_row (m : sbn) (row : list item) : list (list item) :=
  match m with
  | KeepSeparate => map (fun i => [i]) row
  | JoinAll => [row]
  | JoinByNoteType => by_type (length row) row
  end.

Definition included (types : list N) (n : note) : bool := existsb (N.eqb (ntype n)) types.

Inductive gres := GOk (groups : list (list item)) | GErrOrphan (n : note) | GErrInternal.

Definition group_notes (types : list N) (m : sbn) (join_ht : bool) (ph pt : policy) (ns : list note) : gres :=
  let ns' := filter (included types) ns in
  let items := if join_ht then impl ph pt ns' else Ok (map Plain ns') in
  match items with
  | Ok l => GOk (flat_map (add_row m) (rows_of l))
  | ErrOrphan n => GErrOrphan n
  | ErrInternal => GErrInternal
  end.

(* count_grouped_notes *)
Definition count_grouped (minimum : nat) (groups : list (list item)) : nat :=
  length (filter (fun g => Nat.leb minimum (length g)) groups).

Definition count_steps (types : list N) (m : sbn) (minimum : nat) (ns : list note) : option nat :=
  match group_notes types m false Raise Raise ns with GOk g => Some (count_grouped minimum g) | _ => None end.
Definition count_mines (ns : list note) : nat := length (filter (fun n => N.eqb (ntype n) 77) ns).
Definition count_holds_or_rolls (head : N) (ph pt : policy) (ns : list note) : gres :=
  group_notes [head; 51%N] KeepSeparate true ph pt ns.

(* ================================================================== ungroup_notes *)
Definition tail_note (h : note) (tb : Z * Z) : note :=
  {| nb_n := fst tb; nb_d := snd tb; ncol := ncol h; ntype := 51%N; nplayer := nplayer h; nks := None |}.

(* the pending-tail heap as a list kept sorted by position (heappop = minimum) *)
Fixpoint push_sorted (t : note) (p : list note) : list note :=
  match p with
  | [] => [t]
  | x :: r => if note_lt t x then t :: p else x :: push_sorted t r
  end.

(* pop every pending tail that lies strictly before [n] *)
Fixpoint pop_before (n : note) (p : list note) (acc : list note) : list note * list note :=
  match p with
  | [] => (acc, [])
  | x :: r => if note_lt x n then pop_before n r (x :: acc) else (acc, p)
  end.

Inductive ures := UOk (l : list note) | UErrOrphan (n : note).

Definition col_pending (n : note) (p : list note) : bool := existsb (fun t => Z.eqb (ncol t) (ncol n)) p.

Fixpoint ungroup_go (pol : policy) (items : list item) (pend : list note) (acc : list note) : ures :=
  match items with
  | [] => UOk (rev_append acc pend)
  | i :: rest =>
      let n := item_head i in
      let '(acc1, pend1) := pop_before n pend acc in
      let pend2 := match i with Plain _ => pend1 | Joined h tb => push_sorted (tail_note h tb) pend1 end in
      if col_pending n pend1 then
        match pol with
        | Raise => UErrOrphan n
        | Keep => ungroup_go pol rest pend2 (n :: acc1)
        | Drop => ungroup_go pol rest pend2 acc1
        end
      else ungroup_go pol rest pend2 (n :: acc1)
  end.

Definition ungroup_notes (pol : policy) (groups : list (list item)) : ures :=
  ungroup_go pol (concat groups) [] [].

(* ================================================================== wire *)
Definition un_policy (x : sx) : option policy :=
  match x with A 1 => Some Raise | A 2 => Some Keep | A 3 => Some Drop | _ => None end.
Definition un_sbn (x : sx) : option sbn :=
  match x with A 1 => Some KeepSeparate | A 2 => Some JoinByNoteType | A 3 => Some JoinAll | _ => None end.
Definition sx_item (i : item) : sx :=
  match i with
  | Plain n => L [A 0; sx_note n]
  | Joined h tb => L [A 1; sx_note h; A (fst tb); A (snd tb)]
  end.
Definition un_item (x : sx) : option item :=
  match x with
  | L [A 0; n] => option_map Plain (un_note n)
  | L [A 1; h; A a; A b] => option_map (fun h' => Joined h' (a, b)) (un_note h)
  | _ => None
  end.
Definition sx_gres (r : gres) : sx :=
  match r with
  | GOk g => L [A 0; sx_list (sx_list sx_item) g]
  | GErrOrphan n => L [A 1; sx_note n]
  | GErrInternal => L [A 2]
  end.
Definition sx_ures (r : ures) : sx :=
  match r with UOk l => L [A 0; sx_list sx_note l] | UErrOrphan n => L [A 1; sx_note n] end.
