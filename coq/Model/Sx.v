(* Sx: the wire format between the harness and the executable model.
   Everything the model is asked and everything it answers is an [sx]:
   an integer atom or a list.  The same [run : sx -> sx] entry point is
   evaluated by the extracted OCaml runner and, on a sample, by vm_compute. *)
From Coq Require Import List ZArith NArith Bool.
Import ListNotations.
Open Scope Z_scope.

Inductive sx : Type := A (z : Z) | L (l : list sx).

Definition str := list N.           (* a Python str: Unicode code points *)

Fixpoint sx_eqb (a b : sx) {struct a} : bool :=
  match a, b with
  | A x, A y => Z.eqb x y
  | L xs, L ys =>
      (fix go (xs ys : list sx) {struct xs} : bool :=
         match xs, ys with
         | [], [] => true
         | x :: xs', y :: ys' => sx_eqb x y && go xs' ys'
         | _, _ => false
         end) xs ys
  | _, _ => false
  end.

(* encoders *)
Definition sx_N (n : N) : sx := A (Z.of_N n).
Definition sx_nat (n : nat) : sx := A (Z.of_nat n).
Definition sx_bool (b : bool) : sx := A (if b then 1 else 0).
Definition sx_str (s : str) : sx := L (map sx_N s).
Definition sx_list {T} (f : T -> sx) (l : list T) : sx := L (map f l).
Definition sx_opt {T} (f : T -> sx) (o : option T) : sx :=
  match o with None => L [] | Some x => L [f x] end.
Definition sx_pair {T U} (f : T -> sx) (g : U -> sx) (p : T * U) : sx :=
  L [f (fst p); g (snd p)].

(* decoders; [None] = malformed request (a harness bug, reported as such) *)
Definition un_Z (x : sx) : option Z := match x with A z => Some z | _ => None end.
Definition un_N (x : sx) : option N :=
  match x with A z => if z <? 0 then None else Some (Z.to_N z) | _ => None end.
Definition un_nat (x : sx) : option nat :=
  match x with A z => if z <? 0 then None else Some (Z.to_nat z) | _ => None end.
Definition un_bool (x : sx) : option bool :=
  match x with A 0 => Some false | A 1 => Some true | _ => None end.

Fixpoint sequence {T} (l : list (option T)) : option (list T) :=
  match l with
  | [] => Some []
  | None :: _ => None
  | Some x :: r => match sequence r with Some r' => Some (x :: r') | None => None end
  end.

Definition un_list {T} (f : sx -> option T) (x : sx) : option (list T) :=
  match x with L l => sequence (map f l) | _ => None end.
Definition un_str (x : sx) : option str := un_list un_N x.
Definition un_opt {T} (f : sx -> option T) (x : sx) : option (option T) :=
  match x with
  | L [] => Some None
  | L [y] => match f y with Some v => Some (Some v) | None => None end
  | _ => None
  end.
Definition un_pair {T U} (f : sx -> option T) (g : sx -> option U) (x : sx) : option (T * U) :=
  match x with
  | L [a; b] => match f a, g b with Some u, Some v => Some (u, v) | _, _ => None end
  | _ => None
  end.

Definition bad_request : sx := L [A (-1)].
Definition ok (x : sx) : sx := L [A 0; x].

Notation "'do' x <- e ; k" := (match e with Some x => k | None => bad_request end)
  (at level 200, x pattern, e at level 100, k at level 200).

(* string helpers shared by the models *)
Definition str_eqb (a b : str) : bool :=
  (fix go (a b : str) : bool :=
     match a, b with
     | [], [] => true
     | x :: a', y :: b' => N.eqb x y && go a' b'
     | _, _ => false
     end) a b.

Lemma str_eqb_eq a b : str_eqb a b = true <-> a = b.
Proof.
  revert b; induction a as [|x a IH]; destruct b as [|y b]; simpl; split; intro H;
    try reflexivity; try discriminate.
  - apply andb_true_iff in H as [H1 H2]. apply N.eqb_eq in H1. apply IH in H2. congruence.
  - inversion H; subst. rewrite N.eqb_refl. simpl. apply IH. reflexivity.
Qed.

Lemma str_eqb_refl a : str_eqb a a = true.
Proof. apply str_eqb_eq; reflexivity. Qed.

Lemma str_eqb_neq a b : str_eqb a b = false <-> a <> b.
Proof.
  split.
  - intros H E. apply str_eqb_eq in E. congruence.
  - intro H. destruct (str_eqb a b) eqn:E; [|reflexivity]. apply str_eqb_eq in E. contradiction.
Qed.
