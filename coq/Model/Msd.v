(* Msd: msdparser 2.0.0 (lex_msd + parse_msd with escapes, strict or not) as one
   single-pass character machine, and MSDParameter serialisation.
   The lexer's 4096-character chunking is modelled as transparent (see DESIGN.md). *)
From Coq Require Import List NArith ZArith Bool.
From SV Require Import Sx Str.
Import ListNotations.
Open Scope N_scope.

Inductive cls := KHash | KColon | KSemi | KBsl | KSlash | KOther (nl : bool).
Definition classify (c : N) : cls :=
  if c =? 35 then KHash else if c =? 58 then KColon else if c =? 59 then KSemi
  else if c =? 92 then KBsl else if c =? 47 then KSlash
  else KOther ((c =? 10) || (c =? 13)).
Definition is_slash c := match classify c with KSlash => true | _ => false end.
Definition head_is_slash (s : str) := match s with d :: _ => is_slash d | [] => false end.

Definition param := list str.                    (* components; key first *)

(* state inside a parameter; [lastnl] = "the last TEXT token ended in CR/LF" (drives the
   lexer's missing-semicolon recovery and survives across parameters) *)
Record pst := { lastnl : bool; done_ : list str; cur : str }.
Definition finish (p : pst) : param := rev_append (rev_append (cur p) [] :: done_ p) [].
Definition push (c : N) (l : bool) (p : pst) := {| lastnl := l; done_ := done_ p; cur := c :: cur p |}.

(* what the current run of ordinary characters outside a parameter looks like (strict mode):
   nothing yet, only whitespace, exactly one BOM *)
Inductive run := RNone | RWs | RBom.
Definition BOM : N := 65279.
(* [None] = this TEXT token is stray *)
Definition run_step (r : run) (c : N) : option run :=
  match r with
  | RNone => if c =? BOM then Some RBom else if is_space c then Some RWs else None
  | RWs => if is_space c then Some RWs else None
  | RBom => None
  end.

Inductive mode := Out (l : bool) (r : run) | In (p : pst) | ComOut (l : bool) | ComIn (p : pst).
Inductive status := StOk | StStray | StBackslash.

(* parameters yielded before the end / before the error, and how the parse ended *)
Fixpoint go (strict : bool) (s : str) (m : mode) (acc : list param) : list param * status :=
  match s with
  | [] => match m with
          | In p | ComIn p => (rev_append acc [finish p], StOk)
          | _ => (rev_append acc [], StOk)
          end
  | c :: rest =>
    match m with
    | ComOut l => match classify c with
                  | KOther true => go strict rest (Out true RWs) acc
                  | _ => go strict rest (ComOut l) acc end
    | ComIn p => match classify c with
                 | KOther true => go strict rest (In (push c true p)) acc
                 | _ => go strict rest (ComIn p) acc end
    | Out l r =>
       match classify c with
       | KHash => go strict rest (In {| lastnl := l; done_ := []; cur := [] |}) acc
       | KBsl => match rest with
                 | [] => (rev_append acc [], StBackslash)
                 | d :: rest' =>
                     if strict then (rev_append acc [], StStray)
                     else go strict rest' (Out (match classify d with KOther b => b | _ => false end) RNone) acc
                 end
       | KSlash => if head_is_slash rest then go strict rest (ComOut l) acc
                   else if strict then (rev_append acc [], StStray) else go strict rest (Out false RNone) acc
       | KColon | KSemi => if strict then (rev_append acc [], StStray) else go strict rest (Out false RNone) acc
       | KOther b =>
           if strict then
             match run_step r c with
             | Some r' => go strict rest (Out b r') acc
             | None => (rev_append acc [], StStray)
             end
           else go strict rest (Out b RNone) acc
       end
    | In p =>
       match classify c with
       | KHash => if lastnl p then go strict rest (In {| lastnl := lastnl p; done_ := []; cur := [] |}) (finish p :: acc)
                  else go strict rest (In (push c false p)) acc
       | KColon => go strict rest (In {| lastnl := lastnl p; done_ := rev_append (cur p) [] :: done_ p; cur := [] |}) acc
       | KSemi => go strict rest (Out (lastnl p) RNone) (finish p :: acc)
       | KBsl => match rest with
                 | [] => (rev_append acc [], StBackslash)
                 | d :: rest' => go strict rest' (In (push d (lastnl p) p)) acc
                 end
       | KSlash => if head_is_slash rest then go strict rest (ComIn p) acc else go strict rest (In (push c false p)) acc
       | KOther b => go strict rest (In (push c b p)) acc
       end
    end
  end.

Definition parse (strict : bool) (s : str) : list param * status := go strict s (Out false RNone) [].

(* ---- serialisation: MSDParameter.serialize_component / __str__ ---- *)
Definition cBSL : N := 92.
Fixpoint esc (s : str) : str :=
  match s with
  | [] => []
  | c :: rest =>
    match classify c with
    | KBsl | KColon | KSemi => cBSL :: c :: esc rest
    | KSlash => match rest with
                | d :: rest' => if is_slash d then cBSL :: c :: d :: esc rest' else c :: esc rest
                | [] => c :: esc rest
                end
    | _ => c :: esc rest
    end
  end.

Fixpoint render_comps (cs : list str) : str :=
  match cs with
  | [] => []
  | [c] => esc c
  | c :: r => esc c ++ 58 :: render_comps r
  end.
Definition render_param (p : param) : str := 35 :: render_comps p ++ [59].

(* the values msdparser's escaping cannot protect (known finding K1): a '#' where the last TEXT
   token ended in a line break, and three or more consecutive '/' *)
Fixpoint safe (l : bool) (s : str) : bool :=
  match s with
  | [] => true
  | c :: rest =>
    match classify c with
    | KHash => negb l && safe false rest
    | KBsl | KColon | KSemi => safe l rest
    | KSlash => match rest with
                | d :: rest' => if is_slash d then negb (head_is_slash rest') && safe false rest' else safe false rest
                | [] => true
                end
    | KOther b => safe b rest
    end
  end.
Fixpoint nl_after (l : bool) (s : str) : bool :=
  match s with
  | [] => l
  | c :: rest =>
    match classify c with
    | KHash => nl_after false rest
    | KBsl | KColon | KSemi => nl_after l rest
    | KSlash => match rest with
                | d :: rest' => if is_slash d then nl_after false rest' else nl_after false rest
                | [] => false
                end
    | KOther b => nl_after b rest
    end
  end.

(* wire *)
Definition sx_status (s : status) : sx := match s with StOk => A 0%Z | StStray => A 1%Z | StBackslash => A 2%Z end.
Definition sx_param (p : param) : sx := sx_list sx_str p.
