(* MutateRun: the executable instance of Mutate for the correspondence check.
   File contents are symbolic: an input file is [Raw id] (its decodings under each tried encoding
   are supplied by the harness from Python's codecs), a written file is [Enc e text]. *)
From Coq Require Import List ZArith NArith Bool.
From SV Require Import Sx Str Msd Simfile Mutate.
Import ListNotations.
Open Scope Z_scope.

Inductive content := Raw (id : Z) | Enc (e : nat) (t : str) | EmptyC.

Section Run.
Variable strict : bool.
Variable dtable : list (Z * list (option str)).      (* file id -> decoding under the i-th tried encoding *)
Variable bad_chars : list N.                          (* characters the detected encoding cannot encode *)

Fixpoint zlookup {T} (k : Z) (l : list (Z * T)) : option T :=
  match l with [] => None | (a, b) :: r => if Z.eqb a k then Some b else zlookup k r end.

Definition decodes (e : nat) (c : content) : option str :=
  match c with
  | Raw id => match zlookup id dtable with Some row => nth e row None | None => None end
  | Enc e' t => if Nat.eqb e e' then Some t else None
  | EmptyC => Some []
  end.
Definition load_ (p : str) (t : str) : option simfile :=
  match load strict (Some p) t with LOk s => Some s | _ => None end.
Definition ser_ (s : simfile) : option str :=
  match s with SM x => Some (ser_sm x) | SSC x => ser_ssc x end.
Definition encode_ (e : nat) (t : str) : option content :=
  if existsb (fun c => existsb (N.eqb c) bad_chars) t then None else Some (Enc e t).

Definition run (c : config nat) (f : list (str * content)) (body : body_outcome simfile) (fault : option (Z * str))
  : list (str * content) * option exn :=
  mutate simfile str content nat str_eqb decodes load_ ser_ encode_ EmptyC c f (fun _ => body)
    (fun s => match fault, s with
              | Some (0, p), OpenW q => str_eqb p q
              | Some (1, p), WriteS q => str_eqb p q
              | Some (2, p), CloseS q => str_eqb p q
              | _, _ => false
              end).
End Run.

(* wire *)
Definition sx_content (c : content) : sx :=
  match c with Raw id => L [A 0; A id] | Enc e t => L [A 1; sx_nat e; sx_str t] | EmptyC => L [A 2] end.
Definition un_content (x : sx) : option content :=
  match x with
  | L [A 0; A id] => Some (Raw id)
  | L [A 2] => Some EmptyC
  | _ => None
  end.
Definition sx_exn (e : option exn) : sx :=
  match e with
  | None => L []
  | Some XDecode => L [A 1] | Some XLoad => L [A 2] | Some XNotFound => L [A 3] | Some XValue => L [A 4]
  | Some XSerialize => L [A 5] | Some XEncode => L [A 6] | Some XFault => L [A 7] | Some (XBody c) => L [A 8; A c]
  | Some XNoEncodings => L [A 9]
  end.
Definition un_simfile (x : sx) : option simfile :=
  match x with
  | L [A 0; s] => option_map SM (un_sm s)
  | L [A 1; s] => option_map SSC (un_ssc s)
  | _ => None
  end.
Definition un_body (x : sx) : option (body_outcome simfile) :=
  match x with
  | L [A 0; s] => option_map BNormal (un_simfile s)
  | L [A 1] => Some BCancel
  | L [A 2; A c] => Some (BRaise c)
  | _ => None
  end.
