(* Facts about open_with_detected_encoding and mutate (C05, C06), for every codec, loader,
   serialiser, body and fault schedule (all section variables of Model/Mutate.v). *)
From Coq Require Import List ZArith NArith Bool.
From SV Require Import Sx Str Mutate.
Import ListNotations.

Section Facts.
Variables (S text content enc : Type).
Variable decodes : enc -> content -> option text.
Variable load : str -> text -> option S.
Variable ser : S -> option text.
Variable encode : enc -> text -> option content.
Variable empty : content.

Notation fs := (list (str * content)).
Notation fs_read := (fs_read content str_eqb).
Notation fs_write := (fs_write content str_eqb).
Notation detect := (detect S text content enc decodes load).
Notation open_detect := (open_detect S text content enc str_eqb decodes load).
Notation exec := (exec content str_eqb empty).
Notation write_file := (write_file content empty).
Notation mutate := (mutate S text content enc str_eqb decodes load ser encode empty).

(* ---- the file system ---- *)
Lemma read_write_same f p c : fs_read (fs_write f p c) p = Some c.
Proof.
  induction f as [|[q c'] r IH]; simpl; [rewrite str_eqb_refl; reflexivity|].
  destruct (str_eqb p q) eqn:E; simpl; rewrite E; auto.
Qed.
Lemma read_write_other f p q c : q <> p -> fs_read (fs_write f p c) q = fs_read f q.
Proof.
  intro H. induction f as [|[r0 c'] r IH]; simpl.
  - apply str_eqb_neq in H. rewrite H. reflexivity.
  - destruct (str_eqb p r0) eqn:E; simpl.
    + apply str_eqb_eq in E. subst r0. apply str_eqb_neq in H. rewrite H. reflexivity.
    + destruct (str_eqb q r0); [reflexivity|exact IH].
Qed.
(* writing never creates a path other than the one written *)
Lemma write_paths f p c q : List.In q (map fst (fs_write f p c)) -> q = p \/ List.In q (map fst f).
Proof.
  induction f as [|[r0 c'] r IH]; simpl; [intros [H|[]]; auto|].
  destruct (str_eqb p r0) eqn:E; simpl; intros [H|H]; auto. apply IH in H. tauto.
Qed.

(* ---- detection: the first encoding of the list that decodes the whole file ---- *)
Lemma detect_done : forall encs p c s e, detect encs p c = Done (s, e) ->
  exists pre post t, encs = pre ++ e :: post /\ (forall e', List.In e' pre -> decodes e' c = None) /\
                     decodes e c = Some t /\ load p t = Some s.
Proof.
  induction encs as [|e0 r IH]; intros p c s e H; [discriminate|]. simpl in H.
  destruct (decodes e0 c) as [t|] eqn:D.
  - destruct (load p t) eqn:Ld; [|discriminate]. inversion H; subst.
    exists [], r, t. repeat split; auto. intros ? [].
  - destruct (IH _ _ _ _ H) as (pre & post & t & E & Hp & Hd & Hl). exists (e0 :: pre), post, t.
    subst r. repeat split; auto. intros e' [<-|X]; auto.
Qed.

Lemma detect_decode_error : forall encs p c, detect encs p c = Raised XDecode <-> forall e, List.In e encs -> decodes e c = None.
Proof.
  induction encs as [|e0 r IH]; intros p c; simpl.
  - split; [intros _ ? []|reflexivity].
  - destruct (decodes e0 c) as [t|] eqn:D.
    + split; [destruct (load p t); discriminate|]. intro H. specialize (H e0 (or_introl eq_refl)). congruence.
    + rewrite IH. split; [intros H e [<-|X]; auto|intros H e X; apply H; right; exact X].
Qed.

Lemma explicit_encoding : forall e p c, detect [e] p c =
  match decodes e c with Some t => match load p t with Some s => Done (s, e) | None => Raised XLoad end | None => Raised XDecode end.
Proof. reflexivity. Qed.

(* ---- the save sequence under every fault schedule ---- *)
Definition saved (f : fs) (p : str) (c : content) : fs := fs_write (fs_write f p empty) p c.

Lemma exec_one fault p c f :
  exec fault (write_file p c) f =
  if fault (OpenW p) then (f, Some (OpenW p))
  else if fault (WriteS p) then (fs_write f p empty, Some (WriteS p))
  else if fault (CloseS p) then (saved f p c, Some (CloseS p))
  else (saved f p c, None).
Proof.
  unfold write_file, saved. simpl. destruct (fault (OpenW p)); [reflexivity|].
  destruct (fault (WriteS p)); [reflexivity|]. destruct (fault (CloseS p)); reflexivity.
Qed.

Lemma exec_app fault a b f :
  exec fault (a ++ b) f = match exec fault a f with (f', None) => exec fault b f' | r => r end.
Proof.
  revert f. induction a as [|[s c] r IH]; intro f; simpl; [reflexivity|].
  destruct (fault s); [reflexivity|]. destruct s; apply IH.
Qed.

(* backup then output: the outcome for every schedule *)
Lemma exec_two fault b bc o oc f :
  exec fault (write_file b bc ++ write_file o oc) f =
  if fault (OpenW b) then (f, Some (OpenW b))
  else if fault (WriteS b) then (fs_write f b empty, Some (WriteS b))
  else if fault (CloseS b) then (saved f b bc, Some (CloseS b))
  else if fault (OpenW o) then (saved f b bc, Some (OpenW o))
  else if fault (WriteS o) then (fs_write (saved f b bc) o empty, Some (WriteS o))
  else if fault (CloseS o) then (saved (saved f b bc) o oc, Some (CloseS o))
  else (saved (saved f b bc) o oc, None).
Proof.
  rewrite exec_app, exec_one. destruct (fault (OpenW b)); [reflexivity|].
  destruct (fault (WriteS b)); [reflexivity|]. destruct (fault (CloseS b)); [reflexivity|]. apply exec_one.
Qed.

Lemma saved_read_same f p c : fs_read (saved f p c) p = Some c.
Proof. unfold saved. apply read_write_same. Qed.
Lemma saved_read_other f p c q : q <> p -> fs_read (saved f p c) q = fs_read f q.
Proof. intro H. unfold saved. rewrite !read_write_other by assumption. reflexivity. Qed.

(* ---- mutate ---- *)
Variable c : config enc.
Variable f : fs.
Variable body : S -> body_outcome S.

Lemma mutate_clash fault : backup_clash enc str_eqb c = true -> mutate c f body fault = (f, Some XValue).
Proof. intro H. unfold Mutate.mutate. rewrite H. reflexivity. Qed.

(* whatever goes wrong before a file is opened for writing leaves the file system exactly as it was *)
Theorem mutate_no_write_no_change fault f' e :
  mutate c f body fault = (f', Some e) -> e <> XFault -> f' = f.
Proof.
  unfold Mutate.mutate. destruct (backup_clash enc str_eqb c); [intros H _; inversion H; reflexivity|].
  destruct (open_detect (c_encs enc c) f (c_input enc c)) as [[s en]|x]; [|intros H _; inversion H; reflexivity].
  destruct (c_backup enc c) as [b|] eqn:B.
  - destruct (ser s) as [bt|]; [|intros H _; inversion H; reflexivity].
    destruct (body s) as [s'| |cl]; try (intros H _; inversion H; reflexivity).
    destruct (ser s') as [ot|]; [|intros H _; inversion H; reflexivity].
    destruct (encode en ot) as [ob|]; [|intros H _; inversion H; reflexivity].
    destruct (encode en bt) as [bb|]; [|intros H _; inversion H; reflexivity].
    destruct (exec fault _ f) as [f2 [st|]]; intros H Hne; inversion H; subst; congruence.
  - destruct (body s) as [s'| |cl]; try (intros H _; inversion H; reflexivity).
    destruct (ser s') as [ot|]; [|intros H _; inversion H; reflexivity].
    destruct (encode en ot) as [ob|]; [|intros H _; inversion H; reflexivity].
    destruct (exec fault _ f) as [f2 [st|]]; intros H Hne; inversion H; subst; congruence.
Qed.

Theorem mutate_body_raises fault s en cl :
  backup_clash enc str_eqb c = false -> open_detect (c_encs enc c) f (c_input enc c) = Done (s, en) ->
  (c_backup enc c <> None -> ser s <> None) -> body s = BRaise cl ->
  mutate c f body fault = (f, Some (XBody cl)).
Proof.
  intros Hc Ho Hs Hb. unfold Mutate.mutate. rewrite Hc, Ho.
  destruct (c_backup enc c) as [b|]; [destruct (ser s) eqn:E; [|exfalso; apply Hs; congruence]|]; rewrite Hb; reflexivity.
Qed.

Theorem mutate_cancelled fault s en :
  backup_clash enc str_eqb c = false -> open_detect (c_encs enc c) f (c_input enc c) = Done (s, en) ->
  (c_backup enc c <> None -> ser s <> None) -> body s = BCancel ->
  mutate c f body fault = (f, None).
Proof.
  intros Hc Ho Hs Hb. unfold Mutate.mutate. rewrite Hc, Ho.
  destruct (c_backup enc c) as [b|]; [destruct (ser s) eqn:E; [|exfalso; apply Hs; congruence]|]; rewrite Hb; reflexivity.
Qed.

(* normal exit, no fault: output and backup hold exactly the encoded serialisations; every other
   path - the input too, when an output name was given - reads as before; no other path appears *)
Theorem mutate_saves s en s' ot ob :
  backup_clash enc str_eqb c = false -> open_detect (c_encs enc c) f (c_input enc c) = Done (s, en) ->
  body s = BNormal s' -> ser s' = Some ot -> encode en ot = Some ob ->
  match c_backup enc c with
  | None =>
      exists f', mutate c f body (fun _ => false) = (f', None) /\
        fs_read f' (out_path enc c) = Some ob /\
        (forall q, q <> out_path enc c -> fs_read f' q = fs_read f q) /\
        (forall q, List.In q (map fst f') -> q = out_path enc c \/ List.In q (map fst f))
  | Some b =>
      forall bt bb, ser s = Some bt -> encode en bt = Some bb ->
      exists f', mutate c f body (fun _ => false) = (f', None) /\
        fs_read f' (out_path enc c) = Some ob /\
        (b <> out_path enc c -> fs_read f' b = Some bb) /\
        (forall q, q <> out_path enc c -> q <> b -> fs_read f' q = fs_read f q) /\
        (forall q, List.In q (map fst f') -> q = out_path enc c \/ q = b \/ List.In q (map fst f))
  end.
Proof.
  intros Hc Ho Hb Hs He. destruct (c_backup enc c) as [b|] eqn:B.
  - intros bt bb Hbt Hbb. unfold Mutate.mutate. rewrite Hc, Ho, B, Hbt, Hb, Hs, He, Hbb, exec_two. cbn iota.
    eexists. split; [reflexivity|]. split; [apply saved_read_same|split; [|split]].
    + intro Hne. rewrite saved_read_other by assumption. apply saved_read_same.
    + intros q H1 H2. rewrite !saved_read_other by assumption. reflexivity.
    + intros q H. unfold saved in H. apply write_paths in H as [H|H]; auto. apply write_paths in H as [H|H]; auto.
      apply write_paths in H as [H|H]; auto. apply write_paths in H as [H|H]; auto.
  - unfold Mutate.mutate. rewrite Hc, Ho, B, Hb, Hs, He, exec_one. cbn iota.
    eexists. split; [reflexivity|]. split; [apply saved_read_same|split].
    + intros q H1. rewrite saved_read_other by assumption. reflexivity.
    + intros q H. unfold saved in H. apply write_paths in H as [H|H]; auto. apply write_paths in H as [H|H]; auto.
Qed.

(* a file that cannot be opened for writing: the input still holds its original bytes, and a
   backup that was written is complete; more generally, for EVERY fault schedule, once the backup
   has been closed it is complete whatever fails afterwards *)
Theorem mutate_fault_schedule fault s en s' ot ob b bt bb :
  backup_clash enc str_eqb c = false -> open_detect (c_encs enc c) f (c_input enc c) = Done (s, en) ->
  c_backup enc c = Some b -> ser s = Some bt -> body s = BNormal s' -> ser s' = Some ot ->
  encode en ot = Some ob -> encode en bt = Some bb ->
  let o := out_path enc c in
  let r := mutate c f body fault in
  (* failure opening the backup: nothing changed *)
  (fault (OpenW b) = true -> r = (f, Some XFault)) /\
  (* the backup is complete at every later failure point *)
  (fault (OpenW b) = false -> fault (WriteS b) = false -> b <> o -> fs_read (fst r) b = Some bb) /\
  (* failure opening the output: everything except the (complete) backup reads as before, the input included *)
  (fault (OpenW b) = false -> fault (WriteS b) = false -> fault (CloseS b) = false -> fault (OpenW o) = true ->
     snd r = Some XFault /\ forall q, q <> b -> fs_read (fst r) q = fs_read f q).
Proof.
  intros Hc Ho B Hbt Hb Hs He Hbb o r. subst r. unfold Mutate.mutate. rewrite Hc, Ho, B, Hbt, Hb, Hs, He, Hbb, exec_two. fold o.
  split; [intro F1; rewrite F1; reflexivity|split].
  - intros F1 F2 Hne. rewrite F1, F2.
    destruct (fault (CloseS b)); [apply saved_read_same|]. destruct (fault (OpenW o)); [apply saved_read_same|].
    destruct (fault (WriteS o)); cbn [fst]; [rewrite read_write_other by assumption; apply saved_read_same|].
    destruct (fault (CloseS o)); cbn [fst]; rewrite saved_read_other by assumption; apply saved_read_same.
  - intros F1 F2 F3 F4. rewrite F1, F2, F3, F4. cbn [fst snd]. split; [reflexivity|].
    intros q Hq. apply saved_read_other. exact Hq.
Qed.

(* without a backup: failure opening the output changes nothing at all *)
Theorem mutate_open_fault_no_backup fault s en s' ot ob :
  backup_clash enc str_eqb c = false -> open_detect (c_encs enc c) f (c_input enc c) = Done (s, en) ->
  c_backup enc c = None -> body s = BNormal s' -> ser s' = Some ot -> encode en ot = Some ob ->
  fault (OpenW (out_path enc c)) = true -> mutate c f body fault = (f, Some XFault).
Proof.
  intros Hc Ho B Hb Hs He F. unfold Mutate.mutate. rewrite Hc, Ho, B, Hb, Hs, He, exec_one, F. reflexivity.
Qed.
End Facts.

Lemma backup_clash_iff (enc : Type) : forall (c : config enc),
  backup_clash enc str_eqb c = true <->
  exists b, c_backup enc c = Some b /\ (b = c_input enc c \/ c_output enc c = Some b).
Proof.
  intro c. unfold backup_clash. destruct (c_backup enc c) as [b|].
  - rewrite orb_true_iff. split.
    + intros [H|H].
      * exists b. split; [reflexivity|]. left. apply str_eqb_eq. exact H.
      * exists b. split; [reflexivity|]. right. destruct (c_output enc c) as [o|]; [|discriminate].
        apply str_eqb_eq in H. congruence.
    + intros [b' [E Hx]]. assert (Eb : b' = b) by congruence. subst b'. destruct Hx as [Hx|Hx].
      * left. apply str_eqb_eq. exact Hx.
      * right. rewrite Hx. apply str_eqb_refl.
  - split; [discriminate|]. intros [b [H _]]. discriminate.
Qed.

(* ---- histories: attempts that do not save leave no trace, so a retry behaves as a first try ---- *)
Section History.
Variables (S text content enc : Type).
Variable decodes : enc -> content -> option text.
Variable load : str -> text -> option S.
Variable ser : S -> option text.
Variable encode : enc -> text -> option content.
Variable empty : content.
Notation fs := (list (str * content)).
Notation open_detect := (open_detect S text content enc str_eqb decodes load).
Notation mutate := (mutate S text content enc str_eqb decodes load ser encode empty).

Record attempt := { a_cfg : config enc; a_body : S -> body_outcome S; a_fault : step -> bool }.
Definition attempt_result (f : fs) (a : attempt) : fs * option exn := mutate (a_cfg a) f (a_body a) (a_fault a).
Definition run_attempts (f : fs) (l : list attempt) : fs := fold_left (fun f a => fst (attempt_result f a)) l f.

(* an attempt that does not save: it ends with an exception that is not a file-system fault (cannot be decoded, loaded,
   serialised or encoded; a name clash; an exception from the body), or its body cancelled the mutation *)
Definition not_saving (f : fs) (a : attempt) : Prop :=
  (exists e, snd (attempt_result f a) = Some e /\ e <> XFault) \/
  (exists s en, backup_clash enc str_eqb (a_cfg a) = false /\ open_detect (c_encs enc (a_cfg a)) f (c_input enc (a_cfg a)) = Done (s, en) /\
                (c_backup enc (a_cfg a) <> None -> ser s <> None) /\ a_body a s = BCancel).

Lemma not_saving_unchanged f a : not_saving f a -> fst (attempt_result f a) = f.
Proof.
  intros [(e & He & Hne)|(s & en & Hc & Ho & Hs & Hb)]; unfold attempt_result in *.
  - destruct (mutate (a_cfg a) f (a_body a) (a_fault a)) as [f' r] eqn:E. simpl in He. subst r. simpl.
    exact (mutate_no_write_no_change S text content enc decodes load ser encode empty _ _ _ _ _ _ E Hne).
  - rewrite (mutate_cancelled S text content enc decodes load ser encode empty _ _ _ (a_fault a) s en Hc Ho Hs Hb). reflexivity.
Qed.

Theorem failed_attempts_leave_no_trace f l : Forall (not_saving f) l -> run_attempts f l = f.
Proof.
  unfold run_attempts. induction l as [|a l IH]; intro H; [reflexivity|]. cbn [fold_left].
  inversion H as [|a' l' Ha Hl]; subst. rewrite (not_saving_unchanged f a Ha). apply IH. exact Hl.
Qed.

Corollary retry_as_first_try f l a : Forall (not_saving f) l -> attempt_result (run_attempts f l) a = attempt_result f a.
Proof. intro H. rewrite (failed_attempts_leave_no_trace f l H). reflexivity. Qed.
End History.
