(* C08: from_notes builds the canonical text of a grid of cells (part A), whose notes are the
   stream it was given (part B); with Proofs/NotesText.v this gives decode (encode ns) = ns. *)
From Coq Require Import List ZArith NArith Bool Lia Sorting.Sorted.
From SV Require Import Sx Str Notes Proofs.StrFacts Proofs.C07 Proofs.C08 Proofs.NotesText.
Import ListNotations.
Open Scope Z_scope.

(* ================================================================== A. the grid the text is the rendering of *)
Definition note_cell (n : note) : cell := Some (ntype n, nks n).
Definition blank_row (cols : nat) : list cell := repeat None cols.

Fixpoint place_c (cells : list cell) (row : list note) : option (list cell) :=
  match row with
  | [] => Some cells
  | n :: r =>
      if ncol n <? 0 then None else
      match note_str n with
      | None => None
      | Some _ => match set_nth (Z.to_nat (ncol n)) (note_cell n) cells with Some c' => place_c c' r | None => None end
      end
  end.

Fixpoint rows_c (cols : nat) (q last : Z) (groups : list (Z * list note)) : option (list (list cell)) :=
  match groups with
  | [] => Some (repeat (blank_row cols) (Z.to_nat (q * 4 - (last + 1))))
  | (r, row) :: rest =>
      match place_c (blank_row cols) row, rows_c cols q r rest with
      | Some cs, Some t => Some (repeat (blank_row cols) (Z.to_nat (r - (last + 1))) ++ cs :: t)
      | _, _ => None
      end
  end.

Definition measure_c (cols : nat) (ms : list note) : option measure :=
  rows_c cols (lcm_den ms) (-1) (group_by (row_index (lcm_den ms)) ms).

Definition blank_m (cols : nat) : measure := repeat (blank_row cols) 4.

Fixpoint measures_c (cols : nat) (last : Z) (groups : list (Z * list note)) : option (list measure) :=
  match groups with
  | [] => Some []
  | (m, ms) :: rest =>
      match measure_c cols ms, measures_c cols m rest with
      | Some x, Some t => Some (repeat (blank_m cols) (Z.to_nat (m - (last + 1))) ++ x :: t)
      | _, _ => None
      end
  end.

Fixpoint players_c (cols : nat) (last : Z) (groups : list (Z * list note)) : option grid :=
  match groups with
  | [] => Some []
  | (p, ns) :: rest =>
      if p <=? last then None else
      match measures_c cols (-1) (group_by measure_index ns), players_c cols p rest with
      | Some x, Some t => Some (repeat [blank_m cols] (Z.to_nat (p - (last + 1))) ++ x :: t)
      | _, _ => None
      end
  end.

(* ---- text of the pieces ---- *)
Lemma note_str_cell n s : note_str n = Some s -> s = cell_text (note_cell n).
Proof.
  unfold note_str, note_cell, cell_text. destruct (nks n) as [k|]; [|intro H; inversion H; reflexivity].
  destruct (k <? 0); [discriminate|]. intro H; inversion H; reflexivity.
Qed.

Lemma set_nth_map {A B} (f : A -> B) : forall i v l,
  set_nth i (f v) (map f l) = match set_nth i v l with Some l' => Some (map f l') | None => None end.
Proof.
  induction i as [|i IH]; intros v [|x l]; simpl; try reflexivity.
  rewrite IH. destruct (set_nth i v l); reflexivity.
Qed.

Lemma place_text : forall row cells,
  place (map cell_text cells) row = match place_c cells row with Some cs => Some (map cell_text cs) | None => None end.
Proof.
  induction row as [|n r IH]; intro cells; simpl; [reflexivity|].
  destruct (ncol n <? 0); [reflexivity|]. destruct (note_str n) as [s|] eqn:E; [|reflexivity].
  rewrite (note_str_cell n s E), set_nth_map. destruct (set_nth (Z.to_nat (ncol n)) (note_cell n) cells); [apply IH|reflexivity].
Qed.

Lemma zeros_blank cols : zeros cols = map cell_text (blank_row cols).
Proof. unfold zeros, blank_row. induction cols as [|c IH]; [reflexivity|]. simpl. f_equal. exact IH. Qed.

Lemma render_row_text cols row :
  render_row cols row = match place_c (blank_row cols) row with Some cs => Some (row_text cs ++ [10%N]) | None => None end.
Proof. unfold render_row. rewrite zeros_blank, place_text. destruct (place_c (blank_row cols) row); reflexivity. Qed.

Lemma measure_text_app a b : measure_text (a ++ b) = measure_text a ++ measure_text b.
Proof. unfold measure_text. rewrite map_app, concat_app. reflexivity. Qed.

Lemma blank_rows_text cols k : blank_rows cols k = measure_text (repeat (blank_row cols) (Z.to_nat k)).
Proof.
  unfold blank_rows, measure_text. rewrite zeros_blank. fold (row_text (blank_row cols)).
  induction (Z.to_nat k) as [|j IH]; simpl; [reflexivity|]. rewrite IH. reflexivity.
Qed.

Lemma render_rows_text cols q : forall groups last,
  render_rows cols q last groups = match rows_c cols q last groups with Some rs => Some (measure_text rs) | None => None end.
Proof.
  induction groups as [|[r row] rest IH]; intro last; simpl.
  - rewrite blank_rows_text. reflexivity.
  - rewrite render_row_text, IH. destruct (place_c (blank_row cols) row) as [cs|]; [|reflexivity].
    destruct (rows_c cols q r rest) as [t|]; [|reflexivity].
    rewrite blank_rows_text, measure_text_app. f_equal.
Qed.

Lemma render_measure_text cols ms :
  render_measure cols ms = match measure_c cols ms with Some m => Some (measure_text m) | None => None end.
Proof. unfold render_measure, measure_c. apply render_rows_text. Qed.

Lemma blank_measure_text cols : blank_measure cols = measure_text (blank_m cols).
Proof. unfold blank_measure, blank_m. rewrite blank_rows_text. reflexivity. Qed.

(* joined text with a leading separator when something came before *)
Definition led (sep : str) (last : Z) (body : str) (empty : bool) : str :=
  if empty then [] else (if -1 <? last then sep else []) ++ body.

Lemma join_repeat_prefix (sep b : str) : forall k l, l <> [] ->
  join sep (repeat b k ++ l) = concat (repeat (b ++ sep) k) ++ join sep l.
Proof.
  induction k as [|k IH]; intros l Hl; simpl; [reflexivity|].
  destruct (repeat b k ++ l) as [|y r] eqn:E.
  - exfalso. destruct k; simpl in E; [congruence|discriminate].
  - rewrite <- E, IH by exact Hl. rewrite <- !app_assoc. reflexivity.
Qed.

Lemma map_repeat' {A B} (f : A -> B) x k : map f (repeat x k) = repeat (f x) k.
Proof. induction k as [|k IH]; simpl; [reflexivity|]. rewrite IH. reflexivity. Qed.

Definition is_nil {T} (l : list T) : bool := match l with [] => true | _ => false end.

Lemma render_measures_text cols : forall groups last, (forall g, In g groups -> 0 <= fst g) ->
  render_measures cols last groups =
  match measures_c cols last groups with
  | Some l => Some (led comma_nl last (player_text l) (is_nil l))
  | None => None
  end.
Proof.
  induction groups as [|[m ms] rest IH]; intros last Hpos; simpl; [reflexivity|].
  rewrite render_measure_text, IH by (intros g Hg; apply Hpos; right; exact Hg).
  destruct (measure_c cols ms) as [x|]; [|reflexivity].
  destruct (measures_c cols m rest) as [t|]; [|reflexivity]. f_equal.
  assert (Hm : -1 <? m = true) by (apply Z.ltb_lt; specialize (Hpos (m, ms) (or_introl eq_refl)); simpl in Hpos; lia).
  unfold led. rewrite Hm.
  assert (E : is_nil (repeat (blank_m cols) (Z.to_nat (m - (last + 1))) ++ x :: t) = false) by (destruct (repeat _ _); reflexivity).
  rewrite E. f_equal. unfold player_text. rewrite map_app, map_repeat'. cbn [map].
  rewrite join_repeat_prefix by discriminate. rewrite blank_measure_text. f_equal.
  destruct t as [|y t']; [simpl; rewrite app_nil_r; reflexivity|]. cbn [is_nil map]. rewrite join_cons2. reflexivity.
Qed.


(* ---- group_by ---- *)
Lemma gb_concat {T} (key : T -> Z) : forall l, concat (map snd (group_by key l)) = l.
Proof.
  induction l as [|x l IH]; [reflexivity|]. simpl.
  destruct (group_by key l) as [|[k g] rest] eqn:E; simpl in *; [rewrite <- IH; reflexivity|].
  destruct (key x =? k); simpl; rewrite <- IH; reflexivity.
Qed.

Lemma gb_keys {T} (key : T -> Z) : forall l k g, In (k, g) (group_by key l) -> g <> [] /\ forall x, In x g -> key x = k.
Proof.
  induction l as [|x l IH]; intros k g H; [destruct H|]. simpl in H.
  destruct (group_by key l) as [|[k' g'] rest] eqn:E.
  - destruct H as [H|[]]. inversion H; subst. split; [discriminate|]. intros y [<-|[]]. reflexivity.
  - destruct (key x =? k') eqn:K.
    + apply Z.eqb_eq in K. destruct H as [H|H].
      * inversion H; subst. split; [discriminate|]. intros y [<-|Hy]; [reflexivity|]. apply (proj2 (IH _ _ (or_introl eq_refl))). exact Hy.
      * apply IH. right. exact H.
    + destruct H as [H|H].
      * inversion H; subst. split; [discriminate|]. intros y [<-|[]]. reflexivity.
      * apply IH. exact H.
Qed.

Lemma gb_in {T} (key : T -> Z) l k g x : In (k, g) (group_by key l) -> In x g -> In x l.
Proof.
  intros Hg Hx. rewrite <- (gb_concat key l). apply in_concat. exists g. split; [|exact Hx].
  apply in_map_iff. exists (k, g). auto.
Qed.

Lemma gb_sorted {T} (key : T -> Z) : forall l, StronglySorted (fun a b => key a <= key b) l ->
  StronglySorted (fun g h => fst g < fst h) (group_by key l).
Proof.
  induction 1 as [|x l Hs IH Hx]; [constructor|]. simpl. rewrite Forall_forall in Hx.
  destruct (group_by key l) as [|[k g] rest] eqn:E; [repeat constructor|].
  assert (Hk : key x <= k).
  { destruct (gb_keys key l k g) as [Hne Hall]; [rewrite E; left; reflexivity|].
    destruct g as [|y g']; [congruence|]. rewrite <- (Hall y (or_introl eq_refl)). apply Hx.
    apply (gb_in key l k (y :: g')); [rewrite E; left; reflexivity|left; reflexivity]. }
  destruct (key x =? k) eqn:K.
  - inversion IH as [|? ? IH' Hh]; subst. constructor; assumption.
  - apply Z.eqb_neq in K. constructor; [exact IH|]. inversion IH as [|? ? IH' Hh]; subst. rewrite Forall_forall in Hh.
    constructor; [simpl; lia|]. apply Forall_forall. intros h Hh'. specialize (Hh h Hh'). simpl in *. lia.
Qed.

Lemma SS_app_inv' {T} (R : T -> T -> Prop) l1 l2 : StronglySorted R (l1 ++ l2) ->
  StronglySorted R l1 /\ StronglySorted R l2 /\ (forall x y, In x l1 -> In y l2 -> R x y).
Proof.
  induction l1 as [|a l1 IH]; simpl; intro H.
  - repeat split; [constructor|exact H|intros ? ? []].
  - inversion H as [|? ? H' Ha]; subst. destruct (IH H') as (A & B & C). rewrite Forall_forall in Ha. repeat split.
    + constructor; [exact A|]. apply Forall_forall. intros z Hz. apply Ha. apply in_or_app. left. exact Hz.
    + exact B.
    + intros x y [<-|Hx] Hy; [apply Ha; apply in_or_app; right; exact Hy|apply C; assumption].
Qed.

Lemma SS_concat_in {T} (R : T -> T -> Prop) : forall ls g, StronglySorted R (concat ls) -> In g ls -> StronglySorted R g.
Proof.
  induction ls as [|a ls IH]; intros g H Hg; [destruct Hg|]. simpl in H. apply SS_app_inv' in H as (A & B & _).
  destruct Hg as [<-|Hg]; [exact A|apply IH; assumption].
Qed.

Lemma measure_index_nonneg n : 0 <= nb_n n -> 0 < nb_d n -> 0 <= measure_index n.
Proof. intros. unfold measure_index. apply Z.div_pos; lia. Qed.

Lemma beats_ok_in ns n : beats_ok ns = true -> In n ns -> 0 < nb_d n /\ 0 <= nb_n n.
Proof.
  unfold beats_ok. rewrite forallb_forall. intros H Hn. specialize (H n Hn). apply andb_prop in H as [A B].
  apply Z.ltb_lt in A. apply Z.leb_le in B. auto.
Qed.

Lemma render_players_text cols : forall groups last, -1 <= last ->
  (forall p pns n, In (p, pns) groups -> In n pns -> 0 < nb_d n /\ 0 <= nb_n n) ->
  render_players cols last groups =
  match players_c cols last groups with
  | Some l => Some (led amp_nl last (grid_text l) (is_nil l))
  | None => None
  end.
Proof.
  induction groups as [|[p ns] rest IH]; intros last Hlast Hb; simpl; [reflexivity|].
  destruct (p <=? last) eqn:Ep; [reflexivity|]. apply Z.leb_gt in Ep.
  rewrite render_measures_text.
  2:{ intros [m ms] Hg. simpl. destruct (gb_keys measure_index ns m ms Hg) as [Hne Hall].
      destruct ms as [|y ms']; [congruence|]. rewrite <- (Hall y (or_introl eq_refl)).
      destruct (Hb p ns y (or_introl eq_refl)) as [A B]; [apply (gb_in measure_index ns m (y :: ms')); [exact Hg|left; reflexivity]|].
      apply measure_index_nonneg; assumption. }
  rewrite IH; [|lia|intros p' pns n Hin Hn; apply (Hb p' pns n); [right; exact Hin|exact Hn]].
  destruct (measures_c cols (-1) (group_by measure_index ns)) as [x|] eqn:Ex; [|reflexivity].
  destruct (players_c cols p rest) as [t|]; [|reflexivity]. f_equal.
  assert (Hp : -1 <? p = true) by (apply Z.ltb_lt; lia).
  assert (E : is_nil (repeat [blank_m cols] (Z.to_nat (p - (last + 1))) ++ x :: t) = false) by (destruct (repeat _ _); reflexivity).
  (* the first measure list is rendered without a leading comma *)
  assert (Hx : led comma_nl (-1) (player_text x) (is_nil x) = player_text x).
  { unfold led. destruct x; reflexivity. }
  rewrite Hx. unfold led. rewrite Hp, E. f_equal. unfold grid_text. rewrite map_app, map_repeat'. cbn [map].
  rewrite join_repeat_prefix by discriminate.
  assert (Eb : blank_measure cols = player_text [blank_m cols]) by (unfold player_text; simpl; apply blank_measure_text).
  rewrite Eb. f_equal.
  destruct t as [|y t']; [simpl; rewrite app_nil_r; reflexivity|]. cbn [is_nil map]. rewrite join_cons2. reflexivity.
Qed.

Theorem encode_text cols ns :
  encode cols ns =
  if negb (beats_ok ns) then None else
  match ns with
  | [] => Some (grid_text [[blank_m cols]])
  | _ => match players_c cols (-1) (group_by nplayer ns) with Some g => Some (grid_text g) | None => None end
  end.
Proof.
  unfold encode. destruct (beats_ok ns) eqn:B; cbn [negb]; [|reflexivity].
  destruct ns as [|n0 ns']; [f_equal; unfold grid_text, player_text; simpl; apply blank_measure_text|].
  rewrite render_players_text; [|lia|].
  - destruct (players_c cols (-1) (group_by nplayer (n0 :: ns'))) as [g|] eqn:E; [|reflexivity]. f_equal.
    unfold led. destruct g as [|x g']; [|reflexivity].
    (* a non-empty stream gives at least one player *)
    exfalso. destruct (group_by nplayer (n0 :: ns')) as [|[p pns] rest] eqn:G.
    + pose proof (gb_concat nplayer (n0 :: ns')) as C. rewrite G in C. discriminate C.
    + simpl in E. destruct (p <=? -1); [discriminate|].
      destruct (measures_c cols (-1) (group_by measure_index pns)); [|discriminate].
      destruct (players_c cols p rest); [|discriminate]. inversion E as [E']. destruct (repeat _ _) in E'; discriminate E'.
  - intros p pns n Hin Hn. apply (beats_ok_in (n0 :: ns') n B). apply (gb_in nplayer (n0 :: ns') p pns n Hin Hn).
Qed.
