(* C08: from_notes builds the canonical text of a grid of cells (part A), whose notes are the
   stream it was given (part B); with Proofs/NotesText.v this gives decode (encode ns) = ns. *)
From Coq Require Import List ZArith NArith Bool Lia Sorting.Sorted.
From SV Require Import Sx Str Notes Proofs.StrFacts Proofs.C07 Proofs.C08 Proofs.NotesText.
Import ListNotations.
Open Scope Z_scope.

(* ================================================================== A. the grid the text is the rendering of *)
Definition note_cell (n : note) : cell := Some (ntype n, nks n).
Definition blank_row (cols : nat) : list cell := repeat None cols.

Fixpoint place_c (cells : list cell) (row : list note) : option (list cell) :=
  match row with
  | [] => Some cells
  | n :: r =>
      if ncol n <? 0 then None else
      match note_str n with
      | None => None
      | Some _ => match set_nth (Z.to_nat (ncol n)) (note_cell n) cells with Some c' => place_c c' r | None => None end
      end
  end.

Fixpoint rows_c (cols : nat) (q last : Z) (groups : list (Z * list note)) : option (list (list cell)) :=
  match groups with
  | [] => Some (repeat (blank_row cols) (Z.to_nat (q * 4 - (last + 1))))
  | (r, row) :: rest =>
      match place_c (blank_row cols) row, rows_c cols q r rest with
      | Some cs, Some t => Some (repeat (blank_row cols) (Z.to_nat (r - (last + 1))) ++ cs :: t)
      | _, _ => None
      end
  end.

Definition measure_c (cols : nat) (ms : list note) : option measure :=
  rows_c cols (lcm_den ms) (-1) (group_by (row_index (lcm_den ms)) ms).

Definition blank_m (cols : nat) : measure := repeat (blank_row cols) 4.

Fixpoint measures_c (cols : nat) (last : Z) (groups : list (Z * list note)) : option (list measure) :=
  match groups with
  | [] => Some []
  | (m, ms) :: rest =>
      match measure_c cols ms, measures_c cols m rest with
      | Some x, Some t => Some (repeat (blank_m cols) (Z.to_nat (m - (last + 1))) ++ x :: t)
      | _, _ => None
      end
  end.

Fixpoint players_c (cols : nat) (last : Z) (groups : list (Z * list note)) : option grid :=
  match groups with
  | [] => Some []
  | (p, ns) :: rest =>
      if p <=? last then None else
      match measures_c cols (-1) (group_by measure_index ns), players_c cols p rest with
      | Some x, Some t => Some (repeat [blank_m cols] (Z.to_nat (p - (last + 1))) ++ x :: t)
      | _, _ => None
      end
  end.

(* ---- text of the pieces ---- *)
Lemma note_str_cell n s : note_str n = Some s -> s = cell_text (note_cell n).
Proof.
  unfold note_str, note_cell, cell_text. destruct (nks n) as [k|]; [|intro H; inversion H; reflexivity].
  destruct (k <? 0); [discriminate|]. intro H; inversion H; reflexivity.
Qed.

Lemma set_nth_map {A B} (f : A -> B) : forall i v l,
  set_nth i (f v) (map f l) = match set_nth i v l with Some l' => Some (map f l') | None => None end.
Proof.
  induction i as [|i IH]; intros v [|x l]; simpl; try reflexivity.
  rewrite IH. destruct (set_nth i v l); reflexivity.
Qed.

Lemma place_text : forall row cells,
  place (map cell_text cells) row = match place_c cells row with Some cs => Some (map cell_text cs) | None => None end.
Proof.
  induction row as [|n r IH]; intro cells; simpl; [reflexivity|].
  destruct (ncol n <? 0); [reflexivity|]. destruct (note_str n) as [s|] eqn:E; [|reflexivity].
  rewrite (note_str_cell n s E), set_nth_map. destruct (set_nth (Z.to_nat (ncol n)) (note_cell n) cells); [apply IH|reflexivity].
Qed.

Lemma zeros_blank cols : zeros cols = map cell_text (blank_row cols).
Proof. unfold zeros, blank_row. induction cols as [|c IH]; [reflexivity|]. simpl. f_equal. exact IH. Qed.

Lemma render_row_text cols row :
  render_row cols row = match place_c (blank_row cols) row with Some cs => Some (row_text cs ++ [10%N]) | None => None end.
Proof. unfold render_row. rewrite zeros_blank, place_text. destruct (place_c (blank_row cols) row); reflexivity. Qed.

Lemma measure_text_app a b : measure_text (a ++ b) = measure_text a ++ measure_text b.
Proof. unfold measure_text. rewrite map_app, concat_app. reflexivity. Qed.

Lemma blank_rows_text cols k : blank_rows cols k = measure_text (repeat (blank_row cols) (Z.to_nat k)).
Proof.
  unfold blank_rows, measure_text. rewrite zeros_blank. fold (row_text (blank_row cols)).
  induction (Z.to_nat k) as [|j IH]; simpl; [reflexivity|]. rewrite IH. reflexivity.
Qed.

Lemma render_rows_text cols q : forall groups last,
  render_rows cols q last groups = match rows_c cols q last groups with Some rs => Some (measure_text rs) | None => None end.
Proof.
  induction groups as [|[r row] rest IH]; intro last; simpl.
  - rewrite blank_rows_text. reflexivity.
  - rewrite render_row_text, IH. destruct (place_c (blank_row cols) row) as [cs|]; [|reflexivity].
    destruct (rows_c cols q r rest) as [t|]; [|reflexivity].
    rewrite blank_rows_text, measure_text_app. f_equal.
Qed.

Lemma render_measure_text cols ms :
  render_measure cols ms = match measure_c cols ms with Some m => Some (measure_text m) | None => None end.
Proof. unfold render_measure, measure_c. apply render_rows_text. Qed.

Lemma blank_measure_text cols : blank_measure cols = measure_text (blank_m cols).
Proof. unfold blank_measure, blank_m. rewrite blank_rows_text. reflexivity. Qed.

(* joined text with a leading separator when something came before *)
Definition led (sep : str) (last : Z) (body : str) (empty : bool) : str :=
  if empty then [] else (if -1 <? last then sep else []) ++ body.

Lemma join_repeat_prefix (sep b : str) : forall k l, l <> [] ->
  join sep (repeat b k ++ l) = concat (repeat (b ++ sep) k) ++ join sep l.
Proof.
  induction k as [|k IH]; intros l Hl; simpl; [reflexivity|].
  destruct (repeat b k ++ l) as [|y r] eqn:E.
  - exfalso. destruct k; simpl in E; [congruence|discriminate].
  - rewrite <- E, IH by exact Hl. rewrite <- !app_assoc. reflexivity.
Qed.

Lemma map_repeat' {A B} (f : A -> B) x k : map f (repeat x k) = repeat (f x) k.
Proof. induction k as [|k IH]; simpl; [reflexivity|]. rewrite IH. reflexivity. Qed.

Definition is_nil {T} (l : list T) : bool := match l with [] => true | _ => false end.

Lemma render_measures_text cols : forall groups last, (forall g, In g groups -> 0 <= fst g) ->
  render_measures cols last groups =
  match measures_c cols last groups with
  | Some l => Some (led comma_nl last (player_text l) (is_nil l))
  | None => None
  end.
Proof.
  induction groups as [|[m ms] rest IH]; intros last Hpos; simpl; [reflexivity|].
  rewrite render_measure_text, IH by (intros g Hg; apply Hpos; right; exact Hg).
  destruct (measure_c cols ms) as [x|]; [|reflexivity].
  destruct (measures_c cols m rest) as [t|]; [|reflexivity]. f_equal.
  assert (Hm : -1 <? m = true) by (apply Z.ltb_lt; specialize (Hpos (m, ms) (or_introl eq_refl)); simpl in Hpos; lia).
  unfold led. rewrite Hm.
  assert (E : is_nil (repeat (blank_m cols) (Z.to_nat (m - (last + 1))) ++ x :: t) = false) by (destruct (repeat _ _); reflexivity).
  rewrite E. f_equal. unfold player_text. rewrite map_app, map_repeat'. cbn [map].
  rewrite join_repeat_prefix by discriminate. rewrite blank_measure_text. f_equal.
  destruct t as [|y t']; [simpl; rewrite app_nil_r; reflexivity|]. cbn [is_nil map]. rewrite join_cons2. reflexivity.
Qed.


(* ---- group_by ---- *)
Lemma gb_concat {T} (key : T -> Z) : forall l, concat (map snd (group_by key l)) = l.
Proof.
  induction l as [|x l IH]; [reflexivity|]. simpl.
  destruct (group_by key l) as [|[k g] rest] eqn:E; simpl in *; [rewrite <- IH; reflexivity|].
  destruct (key x =? k); simpl; rewrite <- IH; reflexivity.
Qed.

Lemma gb_keys {T} (key : T -> Z) : forall l k g, In (k, g) (group_by key l) -> g <> [] /\ forall x, In x g -> key x = k.
Proof.
  induction l as [|x l IH]; intros k g H; [destruct H|]. simpl in H.
  destruct (group_by key l) as [|[k' g'] rest] eqn:E.
  - destruct H as [H|[]]. inversion H; subst. split; [discriminate|]. intros y [<-|[]]. reflexivity.
  - destruct (key x =? k') eqn:K.
    + apply Z.eqb_eq in K. destruct H as [H|H].
      * inversion H; subst. split; [discriminate|]. intros y [<-|Hy]; [reflexivity|]. apply (proj2 (IH _ _ (or_introl eq_refl))). exact Hy.
      * apply IH. right. exact H.
    + destruct H as [H|H].
      * inversion H; subst. split; [discriminate|]. intros y [<-|[]]. reflexivity.
      * apply IH. exact H.
Qed.

Lemma gb_in {T} (key : T -> Z) l k g x : In (k, g) (group_by key l) -> In x g -> In x l.
Proof.
  intros Hg Hx. rewrite <- (gb_concat key l). apply in_concat. exists g. split; [|exact Hx].
  apply in_map_iff. exists (k, g). auto.
Qed.

Lemma gb_sorted {T} (key : T -> Z) : forall l, StronglySorted (fun a b => key a <= key b) l ->
  StronglySorted (fun g h => fst g < fst h) (group_by key l).
Proof.
  induction 1 as [|x l Hs IH Hx]; [constructor|]. simpl. rewrite Forall_forall in Hx.
  destruct (group_by key l) as [|[k g] rest] eqn:E; [repeat constructor|].
  assert (Hk : key x <= k).
  { destruct (gb_keys key l k g) as [Hne Hall]; [rewrite E; left; reflexivity|].
    destruct g as [|y g']; [congruence|]. rewrite <- (Hall y (or_introl eq_refl)). apply Hx.
    apply (gb_in key l k (y :: g')); [rewrite E; left; reflexivity|left; reflexivity]. }
  destruct (key x =? k) eqn:K.
  - inversion IH as [|? ? IH' Hh]; subst. constructor; assumption.
  - apply Z.eqb_neq in K. constructor; [exact IH|]. inversion IH as [|? ? IH' Hh]; subst. rewrite Forall_forall in Hh.
    constructor; [simpl; lia|]. apply Forall_forall. intros h Hh'. specialize (Hh h Hh'). simpl in *. lia.
Qed.

Lemma SS_app_inv' {T} (R : T -> T -> Prop) l1 l2 : StronglySorted R (l1 ++ l2) ->
  StronglySorted R l1 /\ StronglySorted R l2 /\ (forall x y, In x l1 -> In y l2 -> R x y).
Proof.
  induction l1 as [|a l1 IH]; simpl; intro H.
  - repeat split; [constructor|exact H|intros ? ? []].
  - inversion H as [|? ? H' Ha]; subst. destruct (IH H') as (A & B & C). rewrite Forall_forall in Ha. repeat split.
    + constructor; [exact A|]. apply Forall_forall. intros z Hz. apply Ha. apply in_or_app. left. exact Hz.
    + exact B.
    + intros x y [<-|Hx] Hy; [apply Ha; apply in_or_app; right; exact Hy|apply C; assumption].
Qed.

Lemma SS_concat_in {T} (R : T -> T -> Prop) : forall ls g, StronglySorted R (concat ls) -> In g ls -> StronglySorted R g.
Proof.
  induction ls as [|a ls IH]; intros g H Hg; [destruct Hg|]. simpl in H. apply SS_app_inv' in H as (A & B & _).
  destruct Hg as [<-|Hg]; [exact A|apply IH; assumption].
Qed.

Lemma measure_index_nonneg n : 0 <= nb_n n -> 0 < nb_d n -> 0 <= measure_index n.
Proof. intros. unfold measure_index. apply Z.div_pos; lia. Qed.

Lemma beats_ok_in ns n : beats_ok ns = true -> In n ns -> 0 < nb_d n /\ 0 <= nb_n n.
Proof.
  unfold beats_ok. rewrite forallb_forall. intros H Hn. specialize (H n Hn). apply andb_prop in H as [A B].
  apply Z.ltb_lt in A. apply Z.leb_le in B. auto.
Qed.

Lemma render_players_text cols : forall groups last, -1 <= last ->
  (forall p pns n, In (p, pns) groups -> In n pns -> 0 < nb_d n /\ 0 <= nb_n n) ->
  render_players cols last groups =
  match players_c cols last groups with
  | Some l => Some (led amp_nl last (grid_text l) (is_nil l))
  | None => None
  end.
Proof.
  induction groups as [|[p ns] rest IH]; intros last Hlast Hb; simpl; [reflexivity|].
  destruct (p <=? last) eqn:Ep; [reflexivity|]. apply Z.leb_gt in Ep.
  rewrite render_measures_text.
  2:{ intros [m ms] Hg. simpl. destruct (gb_keys measure_index ns m ms Hg) as [Hne Hall].
      destruct ms as [|y ms']; [congruence|]. rewrite <- (Hall y (or_introl eq_refl)).
      destruct (Hb p ns y (or_introl eq_refl)) as [A B]; [apply (gb_in measure_index ns m (y :: ms')); [exact Hg|left; reflexivity]|].
      apply measure_index_nonneg; assumption. }
  rewrite IH; [|lia|intros p' pns n Hin Hn; apply (Hb p' pns n); [right; exact Hin|exact Hn]].
  destruct (measures_c cols (-1) (group_by measure_index ns)) as [x|] eqn:Ex; [|reflexivity].
  destruct (players_c cols p rest) as [t|]; [|reflexivity]. f_equal.
  assert (Hp : -1 <? p = true) by (apply Z.ltb_lt; lia).
  assert (E : is_nil (repeat [blank_m cols] (Z.to_nat (p - (last + 1))) ++ x :: t) = false) by (destruct (repeat _ _); reflexivity).
  (* the first measure list is rendered without a leading comma *)
  assert (Hx : led comma_nl (-1) (player_text x) (is_nil x) = player_text x).
  { unfold led. destruct x; reflexivity. }
  rewrite Hx. unfold led. rewrite Hp, E. f_equal. unfold grid_text. rewrite map_app, map_repeat'. cbn [map].
  rewrite join_repeat_prefix by discriminate.
  assert (Eb : blank_measure cols = player_text [blank_m cols]) by (unfold player_text; simpl; apply blank_measure_text).
  rewrite Eb. f_equal.
  destruct t as [|y t']; [simpl; rewrite app_nil_r; reflexivity|]. cbn [is_nil map]. rewrite join_cons2. reflexivity.
Qed.

Theorem encode_text cols ns :
  encode cols ns =
  if negb (beats_ok ns) then None else
  match ns with
  | [] => Some (grid_text [[blank_m cols]])
  | _ => match players_c cols (-1) (group_by nplayer ns) with Some g => Some (grid_text g) | None => None end
  end.
Proof.
  unfold encode. destruct (beats_ok ns) eqn:B; cbn [negb]; [|reflexivity].
  destruct ns as [|n0 ns']; [f_equal; unfold grid_text, player_text; simpl; apply blank_measure_text|].
  rewrite render_players_text; [|lia|].
  - destruct (players_c cols (-1) (group_by nplayer (n0 :: ns'))) as [g|] eqn:E; [|reflexivity]. f_equal.
    unfold led. destruct g as [|x g']; [|reflexivity].
    (* a non-empty stream gives at least one player *)
    exfalso. destruct (group_by nplayer (n0 :: ns')) as [|[p pns] rest] eqn:G.
    + pose proof (gb_concat nplayer (n0 :: ns')) as C. rewrite G in C. discriminate C.
    + simpl in E. destruct (p <=? -1); [discriminate|].
      destruct (measures_c cols (-1) (group_by measure_index pns)); [|discriminate].
      destruct (players_c cols p rest); [|discriminate]. inversion E as [E']. destruct (repeat _ _) in E'; discriminate E'.
  - intros p pns n Hin Hn. apply (beats_ok_in (n0 :: ns') n B). apply (gb_in nplayer (n0 :: ns') p pns n Hin Hn).
Qed.

(* ================================================================== B. the notes of that grid are the stream *)
Definition renote (p m rows l : Z) (n : note) : note := mk p m rows l (ncol n) (ntype n) (nks n).

Lemma cells_notes_app p m rows l : forall a c b,
  cells_notes p m rows l c (a ++ b) = cells_notes p m rows l c a ++ cells_notes p m rows l (c + Z.of_nat (length a)) b.
Proof.
  induction a as [|x a IH]; intros c b; [cbn [app cells_notes length]; f_equal; lia|].
  assert (E : c + Z.of_nat (length (x :: a)) = c + 1 + Z.of_nat (length a)) by (cbn [length]; lia).
  rewrite E. destruct x as [[t ks]|]; cbn [app cells_notes]; rewrite IH; reflexivity.
Qed.
Lemma cells_notes_blank p m rows l : forall k c, cells_notes p m rows l c (repeat None k) = [].
Proof. induction k as [|k IH]; intro c; simpl; [reflexivity|apply IH]. Qed.

Lemma set_nth_app_ge {T} : forall (a b : list T) i v, (length a <= i)%nat ->
  set_nth i v (a ++ b) = match set_nth (i - length a) v b with Some b' => Some (a ++ b') | None => None end.
Proof.
  induction a as [|x a IH]; intros b i v H; simpl.
  - rewrite Nat.sub_0_r. destruct (set_nth i v b); reflexivity.
  - destruct i as [|i]; [simpl in H; lia|]. simpl. rewrite IH by (simpl in H; lia). destruct (set_nth (i - length a) v b); reflexivity.
Qed.
Lemma set_nth_repeat {T} (x v : T) : forall k j, set_nth j v (repeat x k) =
  if Nat.ltb j k then Some (repeat x j ++ v :: repeat x (k - j - 1)) else None.
Proof.
  induction k as [|k IH]; intro j; simpl.
  - destruct j; reflexivity.
  - destruct j as [|j]; simpl; [rewrite Nat.sub_0_r; reflexivity|].
    rewrite IH. change (Nat.ltb (S j) (S k)) with (Nat.ltb j k). destruct (Nat.ltb j k); reflexivity.
Qed.

Definition cols_inc (row : list note) : Prop := StronglySorted (fun a b => ncol a < ncol b) row.

Lemma place_c_sem : forall row done k cs,
  place_c (done ++ repeat None k) row = Some cs -> cols_inc row ->
  (forall n, In n row -> Z.of_nat (length done) <= ncol n) ->
  exists tailc, cs = done ++ tailc /\ length tailc = k /\
    (forall p m rows l, cells_notes p m rows l (Z.of_nat (length done)) tailc = map (renote p m rows l) row) /\
    (Forall cell_ok done -> (forall n, In n row -> is_note_char (ntype n) = true) -> Forall cell_ok cs).
Proof.
  induction row as [|n r IH]; intros done k cs H Hinc Hge.
  - simpl in H. inversion H; subst. exists (repeat None k). repeat split.
    + apply repeat_length.
    + intros. apply cells_notes_blank.
    + intros Hd _. apply Forall_app. split; [exact Hd|]. apply Forall_forall. intros c Hc. apply repeat_spec in Hc. subst c. exact I.
  - cbn [place_c] in H. destruct (ncol n <? 0) eqn:Eneg; [discriminate|]. apply Z.ltb_ge in Eneg.
    destruct (note_str n) as [s|] eqn:Es; [|discriminate].
    pose proof (Hge n (or_introl eq_refl)) as Hn.
    assert (Hdn : (length done <= Z.to_nat (ncol n))%nat) by (apply Nat2Z.inj_le; rewrite Z2Nat.id by exact Eneg; exact Hn).
    rewrite set_nth_app_ge in H by exact Hdn. rewrite set_nth_repeat in H.
    match type of H with context [Nat.ltb ?a k] => set (j := a) in * end.
    destruct (Nat.ltb j k) eqn:Ejk; cbv iota in H; [|discriminate H]. apply Nat.ltb_lt in Ejk.
    inversion Hinc as [|? ? Hinc' Hlt]; subst. rewrite Forall_forall in Hlt.
    match type of H with place_c ?X r = _ =>
      assert (Eapp : X = (done ++ repeat None j ++ [note_cell n]) ++ repeat None (k - j - 1)) by (rewrite <- !app_assoc; reflexivity);
      rewrite Eapp in H end.
    assert (Hlen : length (done ++ repeat None j ++ [note_cell n]) = S (Z.to_nat (ncol n))).
    { rewrite !app_length, repeat_length. simpl. unfold j. unfold cell in *. lia. }
    destruct (IH _ _ _ H Hinc') as (tailc & Ecs & Htl & Hnotes & Hok).
    { intros n' Hn'. rewrite Hlen. specialize (Hlt n' Hn'). lia. }
    exists (repeat None j ++ [note_cell n] ++ tailc). repeat split.
    + rewrite Ecs, <- !app_assoc. reflexivity.
    + unfold cell in *. rewrite !app_length, repeat_length. cbn [length]. rewrite Htl. lia.
    + intros p m rows l. rewrite cells_notes_app, cells_notes_blank, repeat_length. cbn [app].
      unfold note_cell at 1. cbn [cells_notes map]. f_equal.
      * unfold renote, mk. f_equal. unfold j. unfold cell in *. lia.
      * rewrite <- (Hnotes p m rows l). f_equal. rewrite Hlen. unfold j. unfold cell in *. lia.
    + intros Hd Ht. apply Hok.
      * apply Forall_app. split; [exact Hd|]. apply Forall_app. split.
        -- apply Forall_forall. intros c Hc. apply repeat_spec in Hc. subst c. exact I.
        -- constructor; [|constructor]. unfold note_cell, cell_ok. split; [apply Ht; left; reflexivity|].
           unfold note_str in Es. destruct (nks n) as [kk|]; [|exact I]. destruct (kk <? 0) eqn:X; [discriminate|]. apply Z.ltb_ge in X. exact X.
      * intros n' Hn'. apply Ht. right. exact Hn'.
Qed.

Lemma place_c_blank cols row cs : place_c (blank_row cols) row = Some cs -> cols_inc row ->
  length cs = cols /\ (forall p m rows l, cells_notes p m rows l 0 cs = map (renote p m rows l) row) /\
  ((forall n, In n row -> is_note_char (ntype n) = true) -> Forall cell_ok cs) /\
  (forall n, In n row -> 0 <= ncol n).
Proof.
  intros H Hinc.
  assert (Hnn : forall n, In n row -> 0 <= ncol n).
  { clear -H. revert H. generalize (blank_row cols). induction row as [|x r IH]; intros cells H n Hn; [destruct Hn|].
    cbn [place_c] in H. destruct (ncol x <? 0) eqn:E; [discriminate|]. apply Z.ltb_ge in E.
    destruct (note_str x); [|discriminate]. destruct (set_nth (Z.to_nat (ncol x)) (note_cell x) cells) as [c'|]; [|discriminate].
    destruct Hn as [<-|Hn]; [exact E|apply (IH c' H n Hn)]. }
  destruct (place_c_sem row [] cols cs H Hinc) as (tailc & E & Hl & Hn & Hok).
  { intros n Hn. simpl. apply Hnn. exact Hn. }
  simpl in E. subst tailc. repeat split; [exact Hl|exact Hn| |exact Hnn].
  intro Ht. apply Hok; [constructor|exact Ht].
Qed.

(* ---- rows of one measure ---- *)
Lemma rows_notes_app p m R : forall a l b,
  rows_notes p m R l (a ++ b) = rows_notes p m R l a ++ rows_notes p m R (l + Z.of_nat (length a)) b.
Proof.
  induction a as [|x a IH]; intros l b; [cbn [app rows_notes length]; f_equal; lia|].
  assert (E : l + Z.of_nat (length (x :: a)) = l + 1 + Z.of_nat (length a)) by (cbn [length]; lia).
  rewrite E. cbn [app rows_notes]. rewrite IH, app_assoc. reflexivity.
Qed.
Lemma rows_notes_blank p m R cols : forall k l, rows_notes p m R l (repeat (blank_row cols) k) = [].
Proof.
  induction k as [|k IH]; intro l; [reflexivity|]. cbn [repeat rows_notes]. unfold blank_row at 1. rewrite cells_notes_blank. apply IH.
Qed.

Definition row_wf (cols : nat) (r : list cell) : Prop := length r = cols /\ Forall cell_ok r.
Lemma blank_row_wf cols : row_wf cols (blank_row cols).
Proof. split; [apply repeat_length|]. apply Forall_forall. intros c Hc. apply repeat_spec in Hc. subst c. exact I. Qed.

Definition keys_inc (last : Z) (groups : list (Z * list note)) : Prop :=
  StronglySorted (fun g h => fst g < fst h) groups /\ forall g, In g groups -> last < fst g.

Lemma rows_c_sem cols q : forall groups last out,
  rows_c cols q last groups = Some out -> keys_inc last groups -> -1 <= last < 4 * q ->
  (forall g, In g groups -> fst g < 4 * q /\ cols_inc (snd g)) ->
  Z.of_nat (length out) = 4 * q - (last + 1) /\
  (forall p m R, rows_notes p m R (last + 1) out = flat_map (fun g => map (renote p m R (fst g)) (snd g)) groups) /\
  ((forall g n, In g groups -> In n (snd g) -> is_note_char (ntype n) = true) -> Forall (row_wf cols) out).
Proof.
  induction groups as [|[r row] rest IH]; intros last out H [Hs Hgt] Hlast Hg.
  - cbn [rows_c] in H. inversion H; subst. repeat split.
    + rewrite repeat_length. lia.
    + intros. apply rows_notes_blank.
    + intros _. apply Forall_forall. intros x Hx. apply repeat_spec in Hx. subst x. apply blank_row_wf.
  - cbn [rows_c] in H. destruct (place_c (blank_row cols) row) as [cs|] eqn:Ep; [|discriminate].
    destruct (rows_c cols q r rest) as [t|] eqn:Er; [|discriminate]. inversion H; subst out. clear H.
    destruct (Hg (r, row) (or_introl eq_refl)) as [Hr4 Hinc]. cbn [fst snd] in *.
    pose proof (Hgt (r, row) (or_introl eq_refl)) as Hrl. cbn [fst] in Hrl.
    inversion Hs as [|? ? Hs' Hall]; subst. rewrite Forall_forall in Hall.
    destruct (IH r t Er) as (Ilen & Inotes & Iwf).
    { split; [exact Hs'|]. intros g Hin. apply (Hall g Hin). }
    { lia. }
    { intros g Hin. apply Hg. right. exact Hin. }
    destruct (place_c_blank cols row cs Ep Hinc) as (Clen & Cnotes & Cok & _).
    repeat split.
    + rewrite app_length, repeat_length. cbn [length]. lia.
    + intros p m R. rewrite rows_notes_app, rows_notes_blank, repeat_length. cbn [app rows_notes flat_map].
      replace (last + 1 + Z.of_nat (Z.to_nat (r - (last + 1)))) with r by lia.
      rewrite Cnotes. f_equal. apply Inotes.
    + intro Ht. apply Forall_app. split.
      * apply Forall_forall. intros x Hx. apply repeat_spec in Hx. subst x. apply blank_row_wf.
      * constructor.
        -- split; [exact Clen|]. apply Cok. intros n Hn. apply (Ht (r, row) n); [left; reflexivity|exact Hn].
        -- apply Iwf. intros g n Hin Hn. apply (Ht g n); [right; exact Hin|exact Hn].
Qed.

(* ---- one measure of one player ---- *)
Lemma SS_impl_in {T} (R R' : T -> T -> Prop) l : StronglySorted R l ->
  (forall a b, In a l -> In b l -> R a b -> R' a b) -> StronglySorted R' l.
Proof.
  induction 1 as [|x l Hs IH Hx]; intro H; [constructor|]. rewrite Forall_forall in Hx. constructor.
  - apply IH. intros a b Ha Hb. apply H; right; assumption.
  - apply Forall_forall. intros y Hy. apply H; [left; reflexivity|right; exact Hy|apply Hx; exact Hy].
Qed.

Lemma row_index_mono q a b : 0 < nb_d a -> 0 < nb_d b -> 0 < q -> (nb_d a | q) -> (nb_d b | q) ->
  measure_index a = measure_index b -> nb_n a * nb_d b <= nb_n b * nb_d a -> row_index q a <= row_index q b.
Proof.
  intros Ha Hb Hq Da Db Hm Hle.
  pose proof (placed_beat_is_own_beat q a Ha Hq Da) as Pa.
  pose proof (placed_beat_is_own_beat q b Hb Hq Db) as Pb.
  rewrite Hm in Pa. set (m := measure_index b) in *. clearbody m.
  set (ra := row_index q a) in *. set (rb := row_index q b) in *. clearbody ra rb.
  assert (E : (m * 4 * (4 * q) + ra * 4) * (nb_d a * nb_d b) <= (m * 4 * (4 * q) + rb * 4) * (nb_d a * nb_d b)) by nia.
  apply Z.mul_le_mono_pos_r in E; [lia|nia].
Qed.

Record meas_ok (p m : Z) (ms : list note) : Prop := {
  mo_sorted : StronglySorted plt ms;
  mo_player : forall n, In n ms -> nplayer n = p;
  mo_measure : forall n, In n ms -> measure_index n = m;
  mo_beats : forall n, In n ms -> 0 < nb_d n /\ 0 <= nb_n n
}.

Lemma plt_same_player a b : plt a b -> nplayer a = nplayer b -> 0 < nb_d a -> 0 < nb_d b ->
  nb_n a * nb_d b < nb_n b * nb_d a \/ (nb_n a * nb_d b = nb_n b * nb_d a /\ ncol a < ncol b).
Proof.
  intros H Hp Ha Hb. apply pos_cmp_lt in H; [|assumption..]. destruct H as [H|[_ H]]; [lia|exact H].
Qed.

Definition expected_measure (p m : Z) (ms : list note) : list note :=
  flat_map (fun g => map (renote p m (4 * lcm_den ms) (fst g)) (snd g)) (group_by (row_index (lcm_den ms)) ms).

Definition measure_wf (cols : nat) (x : measure) : Prop := x <> [] /\ Forall (row_wf cols) x.

Lemma measure_c_sem cols p m ms x : measure_c cols ms = Some x -> meas_ok p m ms ->
  Z.of_nat (length x) = 4 * lcm_den ms /\
  (forall p' m', rows_notes p' m' (4 * lcm_den ms) 0 x =
                 flat_map (fun g => map (renote p' m' (4 * lcm_den ms) (fst g)) (snd g)) (group_by (row_index (lcm_den ms)) ms)) /\
  ((forall n, In n ms -> is_note_char (ntype n) = true) -> measure_wf cols x).
Proof.
  intros H [Hs Hp Hm Hb]. unfold measure_c in H. set (q := lcm_den ms) in *.
  assert (Hq : 0 < q) by (apply lcm_den_pos; intros n Hn; apply (Hb n Hn)).
  assert (Hdiv : forall n, In n ms -> (nb_d n | q)) by (intros n Hn; apply den_divides_lcm; exact Hn).
  assert (Hrows : StronglySorted (fun a b => row_index q a <= row_index q b) ms).
  { apply (SS_impl_in plt); [exact Hs|]. intros a b Ha Hb' Hab.
    destruct (Hb a Ha) as [Da _]. destruct (Hb b Hb') as [Db _].
    apply row_index_mono; auto; [rewrite (Hm a Ha), (Hm b Hb'); reflexivity|].
    destruct (plt_same_player a b Hab) as [L|[E _]]; [rewrite (Hp a Ha), (Hp b Hb'); reflexivity|assumption|assumption|lia|lia]. }
  destruct (rows_c_sem cols q (group_by (row_index q) ms) (-1) x H) as (Hlen & Hnotes & Hwf).
  - split; [apply gb_sorted; exact Hrows|]. intros [k g] Hg. cbn [fst].
    destruct (gb_keys (row_index q) ms k g Hg) as [Hne Hall]. destruct g as [|y g']; [congruence|].
    rewrite <- (Hall y (or_introl eq_refl)).
    assert (Hy : In y ms) by (apply (gb_in (row_index q) ms k (y :: g')); [exact Hg|left; reflexivity]).
    destruct (row_index_exact q y) as [_ Hr]; [apply (Hb y Hy)|exact Hq|apply Hdiv; exact Hy|]. lia.
  - lia.
  - intros [k g] Hg. cbn [fst snd]. destruct (gb_keys (row_index q) ms k g Hg) as [Hne Hall]. split.
    + destruct g as [|y g']; [congruence|]. rewrite <- (Hall y (or_introl eq_refl)).
      assert (Hy : In y ms) by (apply (gb_in (row_index q) ms k (y :: g')); [exact Hg|left; reflexivity]).
      destruct (row_index_exact q y) as [_ Hr]; [apply (Hb y Hy)|exact Hq|apply Hdiv; exact Hy|]. lia.
    + (* one row: same beat, so the columns increase *)
      assert (Hsub : StronglySorted plt g).
      { apply (SS_concat_in plt (map snd (group_by (row_index q) ms)) g); [rewrite gb_concat; exact Hs|].
        apply in_map_iff. exists (k, g). auto. }
      apply (SS_impl_in plt); [exact Hsub|]. intros a b Ha Hb' Hab.
      assert (Ha' : In a ms) by (apply (gb_in (row_index q) ms k g); assumption).
      assert (Hb'' : In b ms) by (apply (gb_in (row_index q) ms k g); assumption).
      destruct (Hb a Ha') as [Da _]. destruct (Hb b Hb'') as [Db _].
      destruct (plt_same_player a b Hab) as [L|[_ C]]; [rewrite (Hp a Ha'), (Hp b Hb''); reflexivity|assumption|assumption| |exact C].
      exfalso. assert (E : row_index q a = row_index q b) by (rewrite (Hall a Ha), (Hall b Hb'); reflexivity).
      apply same_row_iff_same_beat in E; auto; [lia|rewrite (Hm a Ha'), (Hm b Hb''); reflexivity].
  - repeat split.
    + rewrite Hlen. lia.
    + intros p' m'. specialize (Hnotes p' m' (4 * q)). replace (-1 + 1) with 0 in Hnotes by lia. exact Hnotes.
    + destruct x; [cbn [length] in Hlen; lia|discriminate].
    + apply Hwf. intros g n Hg Hn. apply H0. destruct g as [k g]. apply (gb_in (row_index q) ms k g); assumption.
Qed.

(* ---- the measures of one player ---- *)
Lemma measures_notes_app p : forall a m b,
  measures_notes p m (a ++ b) = measures_notes p m a ++ measures_notes p (m + Z.of_nat (length a)) b.
Proof.
  induction a as [|x a IH]; intros m b; [cbn [app measures_notes length]; f_equal; lia|].
  assert (E : m + Z.of_nat (length (x :: a)) = m + 1 + Z.of_nat (length a)) by (cbn [length]; lia).
  rewrite E. cbn [app measures_notes]. rewrite IH, app_assoc. reflexivity.
Qed.
Lemma measures_notes_blank p cols : forall k m, measures_notes p m (repeat (blank_m cols) k) = [].
Proof.
  induction k as [|k IH]; intro m; [reflexivity|]. cbn [repeat measures_notes]. unfold blank_m at 2. rewrite rows_notes_blank. apply IH.
Qed.
Lemma blank_m_wf cols : measure_wf cols (blank_m cols).
Proof. split; [discriminate|]. apply Forall_forall. intros x Hx. apply repeat_spec in Hx. subst x. apply blank_row_wf. Qed.

Lemma measures_c_sem cols p : forall groups last out,
  measures_c cols last groups = Some out -> keys_inc last groups -> -1 <= last ->
  (forall g, In g groups -> meas_ok p (fst g) (snd g)) ->
  (forall p', measures_notes p' (last + 1) out = flat_map (fun g => expected_measure p' (fst g) (snd g)) groups) /\
  ((forall g n, In g groups -> In n (snd g) -> is_note_char (ntype n) = true) -> Forall (measure_wf cols) out) /\
  (groups <> [] -> out <> []).
Proof.
  induction groups as [|[m ms] rest IH]; intros last out H [Hs Hgt] Hlast Hg.
  - cbn [measures_c] in H. inversion H; subst. repeat split; [constructor|congruence].
  - cbn [measures_c] in H. destruct (measure_c cols ms) as [x|] eqn:Em; [|discriminate].
    destruct (measures_c cols m rest) as [t|] eqn:Er; [|discriminate]. inversion H; subst out. clear H.
    pose proof (Hgt (m, ms) (or_introl eq_refl)) as Hml. cbn [fst] in Hml.
    inversion Hs as [|? ? Hs' Hall]; subst. rewrite Forall_forall in Hall.
    destruct (IH m t Er) as (Inotes & Iwf & _).
    { split; [exact Hs'|]. intros g Hin. apply (Hall g Hin). }
    { lia. }
    { intros g Hin. apply Hg. right. exact Hin. }
    destruct (measure_c_sem cols p m ms x Em (Hg (m, ms) (or_introl eq_refl))) as (Mlen & Mnotes & Mwf).
    repeat split.
    + intro p'. rewrite measures_notes_app, measures_notes_blank, repeat_length. cbn [app measures_notes flat_map fst snd].
      replace (last + 1 + Z.of_nat (Z.to_nat (m - (last + 1)))) with m by lia.
      rewrite Mlen, Mnotes. unfold expected_measure at 1. f_equal. apply Inotes.
    + intro Ht. apply Forall_app. split.
      * apply Forall_forall. intros y Hy. apply repeat_spec in Hy. subst y. apply blank_m_wf.
      * constructor; [apply Mwf; intros n Hn; apply (Ht (m, ms) n); [left; reflexivity|exact Hn]|].
        apply Iwf. intros g n Hin Hn. apply (Ht g n); [right; exact Hin|exact Hn].
    + intros _. destruct (repeat (blank_m cols) (Z.to_nat (m - (last + 1)))); discriminate.
Qed.

(* ---- the players ---- *)
Lemma players_notes_app : forall a p b,
  players_notes p (a ++ b) = players_notes p a ++ players_notes (p + Z.of_nat (length a)) b.
Proof.
  induction a as [|x a IH]; intros p b; [cbn [app players_notes length]; f_equal; lia|].
  assert (E : p + Z.of_nat (length (x :: a)) = p + 1 + Z.of_nat (length a)) by (cbn [length]; lia).
  rewrite E. cbn [app players_notes]. rewrite IH, app_assoc. reflexivity.
Qed.
Lemma players_notes_blank cols : forall k p, players_notes p (repeat [blank_m cols] k) = [].
Proof.
  induction k as [|k IH]; intro p; [reflexivity|]. cbn [repeat players_notes measures_notes]. unfold blank_m at 2. rewrite rows_notes_blank. apply IH.
Qed.

Record player_ok' (p : Z) (pns : list note) : Prop := {
  po_sorted : StronglySorted plt pns;
  po_player : forall n, In n pns -> nplayer n = p;
  po_beats : forall n, In n pns -> 0 < nb_d n /\ 0 <= nb_n n
}.

Definition expected_player (p : Z) (pns : list note) : list note :=
  flat_map (fun g => expected_measure p (fst g) (snd g)) (group_by measure_index pns).

Definition player_wf (cols : nat) (x : list measure) : Prop := x <> [] /\ Forall (measure_wf cols) x.

Lemma measure_index_mono a b : 0 < nb_d a -> 0 < nb_d b -> nb_n a * nb_d b <= nb_n b * nb_d a -> measure_index a <= measure_index b.
Proof.
  intros Ha Hb Hle. unfold measure_index.
  apply Z.div_le_lower_bound; [lia|].
  pose proof (Z.mul_div_le (nb_n a) (4 * nb_d a) ltac:(lia)) as Hm.
  set (m := nb_n a / (4 * nb_d a)) in *. clearbody m.
  assert (E : (4 * nb_d b * m) * nb_d a <= nb_n b * nb_d a) by nia.
  apply Z.mul_le_mono_pos_r in E; lia.
Qed.

Lemma player_measures cols p pns x : measures_c cols (-1) (group_by measure_index pns) = Some x -> player_ok' p pns -> pns <> [] ->
  (forall p', measures_notes p' 0 x = expected_player p' pns) /\
  ((forall n, In n pns -> is_note_char (ntype n) = true) -> player_wf cols x).
Proof.
  intros H [Hs Hp Hb] Hne.
  assert (Hmono : StronglySorted (fun a b => measure_index a <= measure_index b) pns).
  { apply (SS_impl_in plt); [exact Hs|]. intros a b Ha Hb' Hab.
    destruct (Hb a Ha) as [Da _]. destruct (Hb b Hb') as [Db _]. apply measure_index_mono; auto.
    destruct (plt_same_player a b Hab) as [L|[E _]]; [rewrite (Hp a Ha), (Hp b Hb'); reflexivity|assumption|assumption|lia|lia]. }
  destruct (measures_c_sem cols p (group_by measure_index pns) (-1) x H) as (Hnotes & Hwf & Hnonempty).
  - split; [apply gb_sorted; exact Hmono|]. intros [k g] Hg. cbn [fst].
    destruct (gb_keys measure_index pns k g Hg) as [Hgne Hall]. destruct g as [|y g']; [congruence|].
    rewrite <- (Hall y (or_introl eq_refl)).
    assert (Hy : In y pns) by (apply (gb_in measure_index pns k (y :: g')); [exact Hg|left; reflexivity]).
    destruct (Hb y Hy) as [A B]. pose proof (measure_index_nonneg y B A). lia.
  - lia.
  - intros [k g] Hg. cbn [fst snd]. destruct (gb_keys measure_index pns k g Hg) as [Hgne Hall].
    assert (Hin : forall n, In n g -> In n pns) by (intros n Hn; apply (gb_in measure_index pns k g); assumption).
    constructor.
    + apply (SS_concat_in plt (map snd (group_by measure_index pns)) g); [rewrite gb_concat; exact Hs|].
      apply in_map_iff. exists (k, g). auto.
    + intros n Hn. apply Hp, Hin, Hn.
    + exact Hall.
    + intros n Hn. apply Hb, Hin, Hn.
  - split.
    + intro p'. specialize (Hnotes p'). replace (-1 + 1) with 0 in Hnotes by lia. exact Hnotes.
    + intro Ht. split.
      * apply Hnonempty. intro E. pose proof (gb_concat measure_index pns) as C. rewrite E in C. simpl in C. congruence.
      * apply Hwf. intros [k g] n Hg Hn. apply Ht. apply (gb_in measure_index pns k g); assumption.
Qed.

Lemma players_c_sem cols : forall groups last out,
  players_c cols last groups = Some out -> -1 <= last ->
  (forall g, In g groups -> player_ok' (fst g) (snd g) /\ snd g <> []) ->
  players_notes (last + 1) out = flat_map (fun g => expected_player (fst g) (snd g)) groups /\
  ((forall g n, In g groups -> In n (snd g) -> is_note_char (ntype n) = true) -> Forall (player_wf cols) out).
Proof.
  induction groups as [|[p pns] rest IH]; intros last out H Hlast Hg.
  - cbn [players_c] in H. inversion H; subst. split; [reflexivity|constructor].
  - cbn [players_c] in H. destruct (p <=? last) eqn:Ep; [discriminate|]. apply Z.leb_gt in Ep.
    destruct (measures_c cols (-1) (group_by measure_index pns)) as [x|] eqn:Em; [|discriminate].
    destruct (players_c cols p rest) as [t|] eqn:Er; [|discriminate]. inversion H; subst out. clear H.
    destruct (IH p t Er) as (Inotes & Iwf); [lia|intros g Hin; apply Hg; right; exact Hin|].
    destruct (Hg (p, pns) (or_introl eq_refl)) as [Hok Hne]. cbn [fst snd] in *.
    destruct (player_measures cols p pns x Em Hok Hne) as (Pnotes & Pwf).
    split.
    + rewrite players_notes_app, players_notes_blank, repeat_length. cbn [app players_notes flat_map fst snd].
      replace (last + 1 + Z.of_nat (Z.to_nat (p - (last + 1)))) with p by lia.
      rewrite Pnotes. f_equal. exact Inotes.
    + intro Ht. apply Forall_app. split.
      * apply Forall_forall. intros y Hy. apply repeat_spec in Hy. subst y. split; [discriminate|]. constructor; [apply blank_m_wf|constructor].
      * constructor; [apply Pwf; intros n Hn; apply (Ht (p, pns) n); [left; reflexivity|exact Hn]|].
        apply Iwf. intros g n Hin Hn. apply (Ht g n); [right; exact Hin|exact Hn].
Qed.

(* ================================================================== C. the round trip *)
Definition note_eqv (a b : note) : Prop :=
  nb_n a * nb_d b = nb_n b * nb_d a /\ 0 < nb_d a /\ ncol a = ncol b /\ ntype a = ntype b /\ nplayer a = nplayer b /\ nks a = nks b.

Lemma renote_eqv q n : 0 < nb_d n -> 0 < q -> (nb_d n | q) ->
  note_eqv (renote (nplayer n) (measure_index n) (4 * q) (row_index q n) n) n.
Proof.
  intros Hd Hq Hdiv. unfold note_eqv, renote, mk. cbn [nb_n nb_d ncol ntype nplayer nks].
  repeat split; [|lia]. apply placed_beat_is_own_beat; assumption.
Qed.

Lemma Forall2_map_self {A} (R : A -> A -> Prop) (f : A -> A) l : (forall x, In x l -> R (f x) x) -> Forall2 R (map f l) l.
Proof. induction l as [|x l IH]; intro H; simpl; constructor; [apply H; left; reflexivity|apply IH; intros; apply H; right; assumption]. Qed.

Lemma Forall2_flat_groups {K A B} (R : B -> A -> Prop) (F : K * list A -> list B) : forall groups,
  (forall g, In g groups -> Forall2 R (F g) (snd g)) -> Forall2 R (flat_map F groups) (concat (map snd groups)).
Proof.
  induction groups as [|g rest IH]; intro H; simpl; [constructor|].
  apply Forall2_app; [apply H; left; reflexivity|apply IH; intros; apply H; right; assumption].
Qed.

Lemma expected_measure_eqv p m ms : meas_ok p m ms -> Forall2 note_eqv (expected_measure p m ms) ms.
Proof.
  intros [Hs Hp Hm Hb]. unfold expected_measure. set (q := lcm_den ms).
  assert (Hq : 0 < q) by (apply lcm_den_pos; intros n Hn; apply (Hb n Hn)).
  rewrite <- (gb_concat (row_index q) ms) at 2. apply Forall2_flat_groups.
  intros [k g] Hg. cbn [fst snd]. apply Forall2_map_self. intros n Hn.
  assert (Hin : In n ms) by (apply (gb_in (row_index q) ms k g); assumption).
  destruct (gb_keys (row_index q) ms k g Hg) as [_ Hall].
  rewrite <- (Hall n Hn), <- (Hp n Hin), <- (Hm n Hin).
  apply renote_eqv; [apply (Hb n Hin)|exact Hq|apply den_divides_lcm; exact Hin].
Qed.

Lemma player_groups_ok p pns : player_ok' p pns -> forall k g, In (k, g) (group_by measure_index pns) -> meas_ok p k g.
Proof.
  intros [Hs Hp Hb] k g Hg. destruct (gb_keys measure_index pns k g Hg) as [Hgne Hall].
  assert (Hin : forall n, In n g -> In n pns) by (intros n Hn; apply (gb_in measure_index pns k g); assumption).
  constructor.
  - apply (SS_concat_in plt (map snd (group_by measure_index pns)) g); [rewrite gb_concat; exact Hs|].
    apply in_map_iff. exists (k, g). auto.
  - intros n Hn. apply Hp, Hin, Hn.
  - exact Hall.
  - intros n Hn. apply Hb, Hin, Hn.
Qed.

Lemma expected_player_eqv p pns : player_ok' p pns -> Forall2 note_eqv (expected_player p pns) pns.
Proof.
  intro H. unfold expected_player. rewrite <- (gb_concat measure_index pns) at 2. apply Forall2_flat_groups.
  intros [k g] Hg. cbn [fst snd]. apply expected_measure_eqv. apply (player_groups_ok p pns H k g Hg).
Qed.

Lemma stream_groups_ok ns : StronglySorted plt ns -> beats_ok ns = true ->
  forall g, In g (group_by nplayer ns) -> player_ok' (fst g) (snd g) /\ snd g <> [].
Proof.
  intros Hs Hb [p pns] Hg. cbn [fst snd]. destruct (gb_keys nplayer ns p pns Hg) as [Hne Hall].
  assert (Hin : forall n, In n pns -> In n ns) by (intros n Hn; apply (gb_in nplayer ns p pns); assumption).
  split; [|exact Hne]. constructor.
  - apply (SS_concat_in plt (map snd (group_by nplayer ns)) pns); [rewrite gb_concat; exact Hs|].
    apply in_map_iff. exists (p, pns). auto.
  - exact Hall.
  - intros n Hn. apply (beats_ok_in ns n Hb), Hin, Hn.
Qed.

(* well-formedness in the sense of the text layer, and the keysound / width conditions of decode *)
Lemma row_wf_ok cols r : (0 < cols)%nat -> row_wf cols r -> row_ok r.
Proof. intros Hc [Hl Hok]. split; [destruct r; [simpl in Hl; lia|discriminate]|exact Hok]. Qed.
Lemma measure_wf_ok cols x : (0 < cols)%nat -> measure_wf cols x -> measure_ok x.
Proof.
  intros Hc [Hne Hall]. split; [exact Hne|]. apply Forall_forall. intros r Hr. rewrite Forall_forall in Hall. apply (row_wf_ok cols); auto.
Qed.
Lemma player_wf_ok cols x : (0 < cols)%nat -> player_wf cols x -> player_ok x.
Proof.
  intros Hc [Hne Hall]. split; [exact Hne|]. apply Forall_forall. intros r Hr. rewrite Forall_forall in Hall. apply (measure_wf_ok cols); auto.
Qed.

Lemma row_ks_ok_width cols r : length r = cols -> row_ks_ok cols r = true.
Proof.
  intro H. unfold row_ks_ok. apply forallb_forall. intros [i c] Hic. cbn [fst snd].
  destruct c as [[t [k|]]|]; try reflexivity. apply in_combine_l in Hic. apply in_seq in Hic. apply Nat.ltb_lt. lia.
Qed.

Lemma grid_ks_ok_width cols g : Forall (player_wf cols) g -> grid_ks_ok cols g = true.
Proof.
  intro H. unfold grid_ks_ok. apply forallb_forall. intros pl Hpl. rewrite Forall_forall in H. destruct (H pl Hpl) as [_ Hm].
  apply forallb_forall. intros ms Hms. rewrite Forall_forall in Hm. destruct (Hm ms Hms) as [_ Hr].
  apply forallb_forall. intros r Hrr. rewrite Forall_forall in Hr. destruct (Hr r Hrr) as [Hl _]. apply row_ks_ok_width. exact Hl.
Qed.

Theorem decode_of_wf_grid cols g : (0 < cols)%nat -> g <> [] -> Forall (player_wf cols) g ->
  decode (grid_text g) = Some (cols, notes_of_grid g).
Proof.
  intros Hc Hne Hwf.
  assert (Hok : grid_ok g).
  { split; [exact Hne|]. apply Forall_forall. intros p Hp. rewrite Forall_forall in Hwf. apply (player_wf_ok cols); auto. }
  destruct (decode_grid_text g Hok) as (r0 & m0 & p0 & g' & Eg & Hd).
  assert (Hl : length r0 = cols).
  { pose proof Hwf as Hwf2. rewrite Eg in Hwf2. inversion Hwf2 as [|? ? [_ Hp] _]; subst. inversion Hp as [|? ? [_ Hm] _]; subst.
    inversion Hm as [|? ? [Hl _] _]; subst. reflexivity. }
  rewrite Hd, Hl, (grid_ks_ok_width cols g Hwf). reflexivity.
Qed.

(* Building note data from a position-sorted stream and reading it back gives the same notes and the
   requested column count. *)
Theorem encode_decode cols ns text : (0 < cols)%nat -> StronglySorted plt ns ->
  (forall n, In n ns -> is_note_char (ntype n) = true) ->
  encode cols ns = Some text ->
  exists ns', decode text = Some (cols, ns') /\ Forall2 note_eqv ns' ns.
Proof.
  intros Hc Hs Ht H. rewrite encode_text in H. destruct (beats_ok ns) eqn:B; cbn [negb] in H; [|discriminate].
  destruct ns as [|n0 ns'] eqn:Ens.
  - inversion H; subst text. exists []. split; [|constructor].
    rewrite (decode_of_wf_grid cols [[blank_m cols]] Hc); [|discriminate|].
    { f_equal. f_equal. unfold notes_of_grid. cbn [players_notes measures_notes]. unfold blank_m at 2. rewrite rows_notes_blank. reflexivity. }
    constructor; [|constructor]. split; [discriminate|]. constructor; [apply blank_m_wf|constructor].
  - rewrite <- Ens in *. destruct (players_c cols (-1) (group_by nplayer ns)) as [g|] eqn:E; [|discriminate].
    inversion H; subst text. clear H.
    destruct (players_c_sem cols (group_by nplayer ns) (-1) g E) as (Hnotes & Hwf); [lia|apply stream_groups_ok; assumption|].
    assert (Hg : g <> []).
    { intro X. subst g. destruct (group_by nplayer ns) as [|[p pns] rest] eqn:G.
      - pose proof (gb_concat nplayer ns) as C. rewrite G in C. simpl in C. rewrite <- C in Ens. discriminate Ens.
      - cbn [players_c] in E. destruct (p <=? -1); [discriminate|].
        destruct (measures_c cols (-1) (group_by measure_index pns)); [|discriminate].
        destruct (players_c cols p rest); [|discriminate]. inversion E as [E']. destruct (repeat _ _) in E'; discriminate E'. }
    assert (Hwf' : Forall (player_wf cols) g).
    { apply Hwf. intros [p pns] n Hin Hn. apply Ht. apply (gb_in nplayer ns p pns); assumption. }
    exists (notes_of_grid g). split; [apply decode_of_wf_grid; assumption|].
    unfold notes_of_grid. replace 0 with (-1 + 1) by lia. rewrite Hnotes.
    rewrite <- (gb_concat nplayer ns) at 2. apply Forall2_flat_groups.
    intros [p pns] Hin. cbn [fst snd]. apply expected_player_eqv. apply (stream_groups_ok ns Hs B (p, pns) Hin).
Qed.

(* ================================================================== D. the canonical fixpoint, for reduced beats *)
(* Fraction keeps beats in lowest terms; the decoder's beats (4 m R + 4 l) / R are not, so they are reduced before re-encoding *)
Definition reduce_note (n : note) : note :=
  let g := Z.gcd (nb_n n) (nb_d n) in
  {| nb_n := nb_n n / g; nb_d := nb_d n / g; ncol := ncol n; ntype := ntype n; nplayer := nplayer n; nks := nks n |}.

Lemma reduce_eqv a b : note_eqv a b -> 0 < nb_d b -> Z.gcd (nb_n b) (nb_d b) = 1 -> reduce_note a = b.
Proof.
  intros (Hb & Ha & Hc & Ht & Hp & Hk) Hbd Hg. unfold reduce_note.
  set (g := Z.gcd (nb_n a) (nb_d a)).
  assert (Hgpos : 0 < g) by (unfold g; pose proof (Z.gcd_nonneg (nb_n a) (nb_d a)); destruct (Z.eq_dec (Z.gcd (nb_n a) (nb_d a)) 0) as [E|E]; [apply Z.gcd_eq_0_r in E; lia|lia]).
  destruct (Z.gcd_divide_l (nb_n a) (nb_d a)) as [an' Han]. destruct (Z.gcd_divide_r (nb_n a) (nb_d a)) as [ad' Had]. fold g in Han, Had.
  assert (Hcop : Z.gcd an' ad' = 1).
  { pose proof (Z.gcd_mul_mono_r_nonneg an' ad' g ltac:(lia)) as M. rewrite <- Han, <- Had in M. fold g in M. nia. }
  assert (Hn : nb_n a / g = an') by (rewrite Han; apply Z.div_mul; lia).
  assert (Hd : nb_d a / g = ad') by (rewrite Had; apply Z.div_mul; lia).
  rewrite Hn, Hd.
  assert (Had'pos : 0 < ad') by nia.
  assert (Hx : an' * nb_d b = nb_n b * ad') by (rewrite Han, Had in Hb; nia).
  assert (D1 : (ad' | nb_d b)).
  { apply (Z.gauss ad' an' (nb_d b)); [exists (nb_n b); lia|rewrite Z.gcd_comm; exact Hcop]. }
  assert (D2 : (nb_d b | ad')).
  { apply (Z.gauss (nb_d b) (nb_n b) ad'); [exists an'; lia|rewrite Z.gcd_comm; exact Hg]. }
  assert (Ed : ad' = nb_d b) by (apply Z.divide_antisym_nonneg; lia || assumption).
  assert (En : an' = nb_n b) by (subst ad'; nia).
  destruct b; simpl in *. subst. reflexivity.
Qed.

Lemma map_reduce_eqv : forall ns' ns, Forall2 note_eqv ns' ns ->
  (forall n, In n ns -> 0 < nb_d n /\ Z.gcd (nb_n n) (nb_d n) = 1) -> map reduce_note ns' = ns.
Proof.
  induction 1 as [|a b l l' Hab H IH]; intro Hr; [reflexivity|]. cbn [map].
  destruct (Hr b (or_introl eq_refl)) as [Hd Hg]. rewrite (reduce_eqv a b Hab Hd Hg), IH; [reflexivity|]. intros n Hn. apply Hr. right. exact Hn.
Qed.

(* rebuilding note data from its own notes reproduces the same text *)
Theorem canonical_fixpoint cols ns text : (0 < cols)%nat -> StronglySorted plt ns ->
  (forall n, In n ns -> is_note_char (ntype n) = true) ->
  (forall n, In n ns -> Z.gcd (nb_n n) (nb_d n) = 1) ->
  encode cols ns = Some text ->
  exists ns', decode text = Some (cols, ns') /\ encode cols (map reduce_note ns') = Some text.
Proof.
  intros Hc Hs Ht Hred H. destruct (encode_decode cols ns text Hc Hs Ht H) as (ns' & Hd & Hf).
  exists ns'. split; [exact Hd|]. rewrite (map_reduce_eqv ns' ns Hf); [exact H|].
  intros n Hn. split; [|apply Hred; exact Hn].
  rewrite encode_text in H. destruct (beats_ok ns) eqn:B; cbn [negb] in H; [|discriminate]. apply (beats_ok_in ns n B Hn).
Qed.
