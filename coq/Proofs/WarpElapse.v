(* C12: at the time at which a whole warp segment elapses, the WARP tag gives the beat where the segment starts and
   the default gives the beat where it ends (segments without a stop or delay on their beats). *)
From Coq Require Import List ZArith QArith Bool Lia Lqa Setoid Sorting.Sorted Arith.
From SV Require Import Sx Beat Engine Proofs.EngineFacts Proofs.Hittable Proofs.TimeLaw Proofs.BeatAt.
Import ListNotations.
Open Scope Q_scope.

Lemma run_states_nonempty L st : run_states st L <> [].
Proof. destruct L; discriminate. Qed.

Lemma run_states_last : forall L st, run_states st L = removelast (run_states st L) ++ [fold_left advance L st].
Proof.
  induction L as [|y L IH]; intro st; [reflexivity|]. cbn [run_states fold_left].
  pose proof (run_states_nonempty L (advance st y)) as Hne.
  destruct (run_states (advance st y) L) as [|a r] eqn:X; [congruence|].
  change (removelast (st :: a :: r)) with (st :: removelast (a :: r)). cbn [app]. f_equal. rewrite <- X. apply IH.
Qed.

Lemma In_run_states : forall L st y, In y (run_states st L) -> exists N N', L = N ++ N' /\ y = fold_left advance N st.
Proof.
  induction L as [|z L IH]; intros st y H.
  - destruct H as [<-|[]]. exists [], []. auto.
  - cbn [run_states] in H. destruct H as [<-|H]; [exists [], (z :: L); auto|].
    destruct (IH _ _ H) as (N & N' & -> & ->). exists (z :: N), N'. auto.
Qed.

Lemma In_tl_run_states : forall L st y, In y (tl (run_states st L)) ->
  exists N N', L = N ++ N' /\ N <> [] /\ y = fold_left advance N st.
Proof.
  intros L st y H. destruct L as [|z L]; [destruct H|]. cbn [run_states tl] in H.
  destruct (In_run_states L (advance st z) y H) as (N & N' & -> & ->). exists (z :: N), N'. repeat split. discriminate.
Qed.

Lemma In_removelast {T} (l : list T) x : In x (removelast l) -> In x l.
Proof.
  induction l as [|a l IH]; [intros []|]. destruct l as [|b l']; [intros []|]. cbn [removelast]. intros [<-|H]; [left; reflexivity|right; apply IH; exact H].
Qed.

Section Elapse.
Variables (td : tdata) (b0 v0 : Q) (rest : list (Q * Q)).
Hypothesis D : dom td.
Hypothesis Hbpm : td_bpms td = (b0, v0) :: rest.
Hypothesis Hb0 : b0 == 0.

Let es := events td.
Let s0 := init_state td v0.
Notation St' := (St td v0).

(* the coalesced segments, as packaged by TimeLaw.warp_segments *)
Variable segs : list (Q * Q).
Hypothesis Hsp : segs_props segs.
Hypothesis HW : forall y, In y es -> e_tag y = tWARP -> exists s e, In (s, e) segs /\ y = mkW s.
Hypothesis HWE : forall y, In y es -> e_tag y = tWARP_END -> exists s e, In (s, e) segs /\ y = mkWE e.
Hypothesis HinW : forall s e, In (s, e) segs -> In (mkW s) es.
Hypothesis HinWE : forall s e, In (s, e) segs -> In (mkWE e) es.
Hypothesis Hraw : forall x, in_raw (td_warps td) x <-> exists s e, In (s, e) segs /\ s <= x /\ x < e.

Variables s e : Q.
Hypothesis Hseg : In (s, e) segs.
(* no stop or delay on a beat of the segment, its end included *)
Hypothesis Hnopause : forall r, In r (td_stops td) \/ In r (td_delays td) -> ~ (s <= fst r /\ fst r <= e).

Lemma Hs_nonneg : 0 <= s.
Proof. exact (events_nonneg td D (mkW s) (HinW s e Hseg)). Qed.

Lemma Hse : s <= e.
Proof. apply (sp_le _ Hsp s e Hseg). Qed.

Lemma Hstrict' : StronglySorted ev_slt es.
Proof. apply events_strict. exact D. Qed.

(* other segments lie entirely before s or entirely after e *)
Lemma other_segment s' e' : In (s', e') segs -> (s', e') = (s, e) \/ e' < s \/ e < s'.
Proof. intro H. destruct (sp_sep _ Hsp s' e' s e H Hseg) as [X|[X|X]]; auto. Qed.

Lemma pause_row_of y : In y es -> (e_tag y = tDELAY \/ e_tag y = tDELAY_END \/ e_tag y = tSTOP \/ e_tag y = tSTOP_END) ->
  exists r, (In r (td_stops td) \/ In r (td_delays td)) /\ e_beat y = fst r.
Proof.
  intros Hy [T|[T|[T|T]]].
  - assert (H : In y (tagged tDELAY (td_delays td))) by (apply (in_tagged_of_tag td b0 v0 rest Hbpm y tDELAY _ Hy T); tauto).
    apply tagged_In' in H as (r & Hr & ->). exists r. split; [right; exact Hr|reflexivity].
  - assert (H : In y (tagged tDELAY_END (td_delays td))) by (apply (in_tagged_of_tag td b0 v0 rest Hbpm y tDELAY_END _ Hy T); tauto).
    apply tagged_In' in H as (r & Hr & ->). exists r. split; [right; exact Hr|reflexivity].
  - assert (H : In y (tagged tSTOP (td_stops td))) by (apply (in_tagged_of_tag td b0 v0 rest Hbpm y tSTOP _ Hy T); tauto).
    apply tagged_In' in H as (r & Hr & ->). exists r. split; [left; exact Hr|reflexivity].
  - assert (H : In y (tagged tSTOP_END (td_stops td))) by (apply (in_tagged_of_tag td b0 v0 rest Hbpm y tSTOP_END _ Hy T); tauto).
    apply tagged_In' in H as (r & Hr & ->). exists r. split; [left; exact Hr|reflexivity].
Qed.

(* an event strictly after the warp start and at or before (e, BPM) is the segment's own end or a BPM change *)
Lemma mid_tag y : In y es -> ev_lt (mkW s) y = true -> kle_ev y e tBPM ->
  y = mkWE e \/ e_tag y = tBPM.
Proof.
  intros Hy Hlt Hle. apply ev_lt_spec in Hlt. cbn [mkW e_beat e_tag] in Hlt. unfold kle_ev in Hle.
  assert (Hb : s <= e_beat y /\ e_beat y <= e) by (destruct Hlt as [X|[X _]]; destruct Hle as [Y|[Y _]]; lra).
  destruct (tag_cases td b0 v0 rest Hbpm y Hy) as [T|[T|[T|T]]].
  - exfalso. destruct (HW y Hy T) as (s' & e' & Hin & ->). cbn [mkW e_beat e_tag] in *.
    pose proof (sp_le _ Hsp s' e' Hin). destruct (other_segment s' e' Hin) as [X|[X|X]]; [inversion X; subst; destruct Hlt as [L|[_ L]]; [lra|unfold tWARP in L; lia]|lra|lra].
  - left. destruct (HWE y Hy T) as (s' & e' & Hin & ->). cbn [mkWE e_beat e_tag] in *.
    pose proof (sp_le _ Hsp s' e' Hin). destruct (other_segment s' e' Hin) as [X|[X|X]]; [inversion X; reflexivity|lra|lra].
  - right. exact T.
  - exfalso. destruct (pause_row_of y Hy T) as (r & Hr & Er). apply (Hnopause r Hr). rewrite <- Er. exact Hb.
Qed.

(* ---- the decomposition of the events around the segment ---- *)
Lemma decomposition : exists P Mid Re,
  es = P ++ mkW s :: Mid ++ Re /\
  (forall y, In y Mid -> y = mkWE e \/ e_tag y = tBPM) /\
  (forall y, In y Mid -> kle_ev y e tBPM) /\
  In (mkWE e) Mid /\
  (forall r, In r Re -> e < e_beat r) /\
  prior (sts td v0) s0 e tBPM = St' (P ++ mkW s :: Mid).
Proof.
  pose proof Hse as Hse'. pose proof Hs_nonneg as Hs0'.
  destruct (prior_cut td v0 D e tBPM) as (Pe & Re & E & HPe & HRe & Hprior); [lra|unfold tBPM; lia|]. fold es in E.
  assert (HWin : In (mkW s) Pe).
  { pose proof (HinW s e Hseg) as H. rewrite E in H. apply in_app_or in H as [H|H]; [exact H|]. exfalso.
    apply (kle_not_klt (mkW s) e tBPM); [|apply HRe; exact H]. unfold kle_ev. cbn [mkW e_beat e_tag]. destruct (Qeq_dec s e) as [Q|Q]; [right; split; [exact Q|unfold tWARP, tBPM; lia]|left; lra]. }
  apply in_split in HWin as (P & Mid & EPe). exists P, Mid, Re.
  assert (E2 : es = P ++ mkW s :: Mid ++ Re) by (rewrite E, EPe, <- app_assoc; reflexivity).
  destruct (split_strict td D P (mkW s) (Mid ++ Re) E2) as (_ & SR & _).
  assert (Hmidle : forall y, In y Mid -> kle_ev y e tBPM) by (intros y Hy; apply HPe; rewrite EPe; apply in_or_app; right; right; exact Hy).
  repeat split.
  - exact E2.
  - intros y Hy. apply mid_tag; [rewrite E2; apply in_or_app; right; right; apply in_or_app; left; exact Hy|apply SR; apply in_or_app; left; exact Hy|apply Hmidle; exact Hy].
  - exact Hmidle.
  - pose proof (HinWE s e Hseg) as H. rewrite E2 in H. apply in_app_or in H as [H|[H|H]].
    + exfalso. destruct (split_strict td D P (mkW s) (Mid ++ Re) E2) as (SP & _ & _). specialize (SP _ H).
      apply ev_lt_spec in SP. cbn [mkW mkWE e_beat e_tag] in SP. destruct SP as [X|[_ X]]; [lra|unfold tWARP, tWARP_END in X; lia].
    + discriminate H.
    + apply in_app_or in H as [H|H]; [exact H|]. exfalso. apply (kle_not_klt (mkWE e) e tBPM); [|apply HRe; exact H].
      right. cbn [mkWE e_beat e_tag]. split; [reflexivity|unfold tWARP_END, tBPM; lia].
  - intros r Hr. destruct (HRe r Hr) as [X|[X X']]; [exact X|]. exfalso.
    (* an event on beat e with a tag above BPM would be a stop or delay there *)
    assert (Hres : In r es) by (rewrite E; apply in_or_app; right; exact Hr).
    destruct (tag_cases td b0 v0 rest Hbpm r Hres) as [T|[T|[T|T]]]; try (rewrite T in X'; unfold tBPM, tWARP, tWARP_END in X'; lia).
    destruct (pause_row_of r Hres T) as (row & Hrow & Er). apply (Hnopause row Hrow). rewrite <- Er. lra.
  - unfold s0. rewrite Hprior, EPe. reflexivity.
Qed.

Section Around.
Variables (P Mid Re : list ev).
Hypothesis E : es = P ++ mkW s :: Mid ++ Re.
Hypothesis HMid : forall y, In y Mid -> y = mkWE e \/ e_tag y = tBPM.
Hypothesis HMidle : forall y, In y Mid -> kle_ev y e tBPM.
Hypothesis HWEin : In (mkWE e) Mid.
Hypothesis HRe : forall r, In r Re -> e < e_beat r.

Definition sW : state := St' (P ++ [mkW s]).
Definition Tw : Q := s_time sW.

Lemma mid_not_end y : In y Mid -> is_end_tag (e_tag y) = false.
Proof. intro H. destruct (HMid y H) as [->|T]; [reflexivity|rewrite T; reflexivity]. Qed.

Lemma run_inv : forall N N', Mid = N ++ N' ->
  let st := St' (P ++ mkW s :: N) in
  s_time st == Tw /\ (s_warp st = true \/ s_beat st == e) /\ s_beat st <= e /\ (forall y', In y' N' -> s_beat st <= e_beat y').
Proof.
  pose proof Hse as Hse'.
  induction N as [|y N0 IH] using rev_ind; intros N' EM.
  - cbn [app] in EM. subst N'. cbv zeta. fold sW. unfold Tw. split; [reflexivity|split; [|split]].
    + left. unfold sW. rewrite St_last. reflexivity.
    + unfold sW. rewrite St_last. cbn [advance s_beat mkW e_beat]. exact Hse'.
    + intros y' Hy'. unfold sW. rewrite St_last. cbn [advance s_beat mkW e_beat].
      destruct (split_strict td D P (mkW s) (Mid ++ Re) E) as (_ & SR & _). specialize (SR y' (in_or_app _ _ _ (or_introl Hy'))).
      apply ev_slt_ge, ev_ge_beat in SR. exact SR.
  - rewrite <- app_assoc in EM. cbn [app] in EM. destruct (IH (y :: N') EM) as (I1 & I2 & I3 & I4). cbv zeta in *.
    assert (Hy : In y Mid) by (rewrite EM; apply in_or_app; right; left; reflexivity).
    set (X := P ++ mkW s :: N0) in *.
    assert (EX : es = X ++ y :: (N' ++ Re)) by (unfold X; rewrite E, EM; repeat rewrite <- app_assoc; cbn [app]; repeat rewrite <- app_assoc; reflexivity).
    assert (Eapp : P ++ mkW s :: N0 ++ [y] = X ++ [y]) by (unfold X; rewrite <- app_assoc; reflexivity).
    rewrite Eapp.
    assert (Hyb : s_beat (St' X) <= e_beat y) by (apply I4; left; reflexivity).
    assert (Hye : e_beat y <= e) by (apply (kle_beat _ _ _ (HMidle y Hy))).
    assert (Hzero : (e_beat y - s_beat (St' X)) * state_rate (St' X) == 0).
    { destruct I2 as [W|B]; [unfold state_rate; rewrite W; ring|]. assert (Z : e_beat y - s_beat (St' X) == 0) by lra. rewrite Z. ring. }
    split; [|split; [|split]].
    + rewrite (step_time td b0 v0 rest D Hbpm X y (N' ++ Re) EX), (mid_not_end y Hy), Hzero, I1. ring.
    + rewrite St_last. cbn [advance s_warp s_beat]. destruct (HMid y Hy) as [->|Tg].
      * right. reflexivity.
      * rewrite Tg. change (tBPM =? tWARP)%Z with false. change (tBPM =? tWARP_END)%Z with false. cbv iota.
        destruct I2 as [W|B]; [left; exact W|right; lra].
    + rewrite St_last. cbn [advance s_beat]. exact Hye.
    + intros y' Hy'. rewrite St_last. cbn [advance s_beat].
      destruct (split_strict td D X y (N' ++ Re) EX) as (_ & SR & _). specialize (SR y' (in_or_app _ _ _ (or_introl Hy'))).
      apply ev_slt_ge, ev_ge_beat in SR. exact SR.
Qed.

Definition Pe : list ev := P ++ mkW s :: Mid.

Lemma Pe_state : s_time (St' Pe) == Tw /\ s_warp (St' Pe) = false /\ s_beat (St' Pe) == e.
Proof.
  pose proof Hse as Hse'.
  destruct (run_inv Mid [] (eq_sym (app_nil_r Mid))) as (I1 & I2 & I3 & _). cbv zeta in *. fold Pe in *.
  assert (Hw : s_warp (St' Pe) = false).
  { destruct (s_warp (St' Pe)) eqn:W; [|reflexivity]. exfalso.
    assert (EPe : es = Pe ++ Re) by (unfold Pe; rewrite E, <- app_assoc; reflexivity).
    apply (warp_flag_at td v0 D Pe Re e EPe) in W.
    - apply Hraw in W as (s' & e' & Hin & A & B). pose proof (sp_le _ Hsp s' e' Hin).
      destruct (other_segment s' e' Hin) as [X|[X|X]]; [inversion X; subst; lra|lra|lra].
    - intros y Hy. unfold Pe in Hy. apply in_app_or in Hy as [Hy|[<-|Hy]].
      + destruct (split_strict td D P (mkW s) (Mid ++ Re) E) as (SP & _ & _). specialize (SP y Hy). apply ev_slt_ge, ev_ge_beat in SP. cbn [mkW e_beat] in SP. lra.
      + cbn [mkW e_beat]. exact Hse'.
      + apply (kle_beat _ _ _ (HMidle y Hy)).
    - exact HRe. }
  split; [exact I1|split; [exact Hw|]]. destruct I2 as [W|B]; [congruence|exact B].
Qed.

Lemma before_warp : (P = [] -> 0 < s) -> s_time (St' P) < Tw.
Proof.
  intro Hs0. pose proof Hse as Hse'.
  unfold Tw, sW. rewrite (step_time td b0 v0 rest D Hbpm P (mkW s) (Mid ++ Re) E). cbn [mkW e_tag e_beat]. change (is_end_tag tWARP) with false. cbv iota.
  assert (Hw : s_warp (St' P) = false).
  { destruct (s_warp (St' P)) eqn:W; [|reflexivity]. exfalso. unfold St in W. rewrite warp_fold in W. cbn [init_state s_warp] in W.
    apply (flag_invariant segs es Hsp (events_sorted td D) HW HWE HinW HinWE P (mkW s :: Mid ++ Re) E) in W.
    destruct W as (s' & e' & Hin & A & B). apply B.
    destruct (split_strict td D P (mkW s) (Mid ++ Re) E) as (SP & SR & _).
    pose proof (SP _ A) as L. apply ev_lt_spec in L. cbn [mkW e_beat e_tag] in L.
    assert (Hs' : s' < s) by (destruct L as [X|[_ X]]; [exact X|lia]).
    pose proof (sp_le _ Hsp s' e' Hin).
    assert (He' : e' < s) by (destruct (other_segment s' e' Hin) as [X|[X|X]]; [inversion X; subst; lra|exact X|lra]).
    pose proof (HinWE s' e' Hin) as Hin'. rewrite E in Hin'. apply in_app_or in Hin' as [X|[X|X]]; [exact X|discriminate X|].
    exfalso. specialize (SR _ X). apply ev_lt_spec in SR. cbn [mkW mkWE e_beat e_tag] in SR. destruct SR as [Y|[Y _]]; lra. }
  assert (Hb : s_beat (St' P) < s).
  { destruct P as [|p0 P0] eqn:EP; [unfold St, init_state; simpl; apply Hs0; reflexivity|].
    destruct (last_of_nonempty (p0 :: P0)) as (P' & q & EPq); [discriminate|]. rewrite EPq in *. rewrite St_last. cbn [advance s_beat].
    destruct (split_strict td D (P' ++ [q]) (mkW s) (Mid ++ Re) E) as (SP & _ & _).
    assert (Hqin : In q (P' ++ [q])) by (apply in_or_app; right; left; reflexivity).
    specialize (SP q Hqin). apply ev_lt_spec in SP. cbn [mkW e_beat e_tag] in SP.
    destruct SP as [X|[_ X]]; [exact X|]. exfalso.
    assert (Hq : In q es) by (rewrite E; apply in_or_app; left; apply in_or_app; right; left; reflexivity).
    destruct (tag_cases td b0 v0 rest Hbpm q Hq) as [T|[T|[T|[T|[T|[T|T]]]]]]; rewrite T in X; unfold tWARP, tWARP_END, tBPM, tDELAY, tDELAY_END, tSTOP, tSTOP_END in X; lia. }
  destruct (St_ok td b0 v0 rest D Hbpm P (mkW s :: Mid ++ Re) E) as [Hbpm0 _].
  unfold state_rate. rewrite Hw.
  assert (0 < 60 / s_bpm (St' P)) by (apply Qlt_shift_div_l; [exact Hbpm0|lra]). nra.
Qed.

Lemma after_segment : forall x, In x (tl (run_states (St' Pe) Re)) -> Tw < s_time x.
Proof.
  assert (G : forall R0, Re = R0 -> forall x, In x (tl (run_states (St' Pe) R0)) -> Tw < s_time x); [|apply (G Re eq_refl)].
  intros R0 ER x Hx. destruct R0 as [|r Re']; [destruct Hx|]. cbn [run_states tl] in Hx.
  destruct Pe_state as (PT & PW & PB).
  assert (EPe : es = Pe ++ r :: Re') by (unfold Pe; rewrite E, ER, <- app_assoc; reflexivity).
  assert (Hhd : Tw < s_time (advance (St' Pe) r)).
  { pose proof (step_time td b0 v0 rest D Hbpm Pe r Re' EPe) as S1. rewrite St_last in S1. rewrite S1, PT.
    pose proof (end_val_nonneg td b0 v0 rest D Hbpm Pe r Re' EPe) as Pv.
    destruct (St_ok td b0 v0 rest D Hbpm Pe (r :: Re') EPe) as [Hb _].
    assert (Hr : e < e_beat r) by (apply HRe; rewrite ER; left; reflexivity).
    unfold state_rate. rewrite PW.
    assert (0 < 60 / s_bpm (St' Pe)) by (apply Qlt_shift_div_l; [exact Hb|lra]). nra. }
  (* the states after the first one are no earlier *)
  assert (Hsorted : times_sorted (run_states (advance (St' Pe) r) Re')).
  { pose proof (states_monotone td (sts td v0) D (states_is_sts td b0 v0 rest Hbpm Hb0)) as S.
    unfold sts in S. fold es in S. rewrite EPe, run_states_app in S. apply SS_app_inv in S as (_ & B & _).
    cbn [run_states] in B. inversion B; subst. assumption. }
  destruct Re' as [|r2 Re2]; cbn [run_states] in Hx, Hsorted.
  - destruct Hx as [<-|[]]. exact Hhd.
  - destruct Hx as [<-|Hx]; [exact Hhd|]. inversion Hsorted as [|? ? _ Hall]; subst. rewrite Forall_forall in Hall.
    specialize (Hall x Hx). cbv beta in Hall. lra.
Qed.

Lemma before_segment : (P = [] -> 0 < s) -> forall x, In x (run_states s0 P) -> s_time x < Tw.
Proof.
  intros Hs0 x Hx. pose proof (before_warp Hs0) as HP.
  pose proof (states_monotone td (sts td v0) D (states_is_sts td b0 v0 rest Hbpm Hb0)) as S.
  unfold sts in S. fold es in S. rewrite E, run_states_app in S. fold s0 in S.
  rewrite (run_states_last P s0) in Hx. apply in_app_or in Hx as [Hx|[<-|[]]]; [|exact HP].
  apply SS_app_inv in S as (_ & _ & C). specialize (C x (St' P) Hx). cbn [run_states] in C.
  assert (s_time x <= s_time (St' P)) by (apply C; left; reflexivity). lra.
Qed.

Lemma sts_split : sts td v0 = run_states s0 P ++ run_states sW Mid ++ tl (run_states (St' Pe) Re).
Proof.
  unfold sts. fold es. fold s0. rewrite E, run_states_app. cbn [run_states].
  change (fold_left advance P s0) with (St' P).
  rewrite (run_states_last P s0) at 2. rewrite <- app_assoc. cbn [app]. f_equal. f_equal.
  replace (advance (St' P) (mkW s)) with sW by (unfold sW; rewrite St_last; reflexivity).
  rewrite run_states_app.
  assert (Ef : fold_left advance Mid sW = St' Pe) by (unfold sW, Pe, St; rewrite <- fold_left_app, <- app_assoc; reflexivity).
  rewrite Ef. rewrite (run_states_last Mid sW) at 2. rewrite Ef, <- app_assoc. cbn [app].
  assert (Hhd : run_states (St' Pe) Re = St' Pe :: tl (run_states (St' Pe) Re)) by (generalize Re; intros [|? ?]; reflexivity).
  rewrite Hhd at 1. reflexivity.
Qed.

Lemma run_times : forall y, In y (run_states sW Mid) -> s_time y == Tw.
Proof.
  intros y Hy. destruct (In_run_states Mid sW y Hy) as (N & N' & EM & ->).
  destruct (run_inv N N' EM) as (I1 & _). cbv zeta in I1.
  assert (Ef : fold_left advance N sW = St' (P ++ mkW s :: N)) by (unfold sW, St; rewrite <- fold_left_app, <- app_assoc; reflexivity).
  rewrite Ef. exact I1.
Qed.

Lemma run_tags : forall y, In y (tl (run_states sW Mid)) -> (s_tag y = tWARP_END \/ s_tag y = tBPM).
Proof.
  intros y Hy. destruct (In_tl_run_states Mid sW y Hy) as (N & N' & EM & Hne & ->).
  destruct (last_of_nonempty N Hne) as (N0 & z & ->). rewrite fold_left_app. cbn [fold_left advance s_tag].
  assert (Hz : In z Mid) by (rewrite EM; apply in_or_app; left; apply in_or_app; right; left; reflexivity).
  destruct (HMid z Hz) as [->|T]; [left; reflexivity|right; exact T].
Qed.

(* a segment that starts on beat 0: no event precedes its WARP event, and the initial state shares its time *)
Lemma start_cases : (P = [] -> 0 < s) \/ (P = [] /\ s == 0).
Proof.
  pose proof Hs_nonneg as H0. destruct (Nat.eq_dec (length P) 0) as [L|L].
  - apply length_zero_iff_nil in L. destruct (Qlt_le_dec 0 s) as [X|X]; [left; intros _; exact X|right; split; [exact L|lra]].
  - left. intro X. rewrite X in L. simpl in L. congruence.
Qed.

Lemma at_zero : P = [] -> s == 0 -> s_time s0 == Tw /\ run_states s0 P = [s0].
Proof.
  intros EP Es. split; [|rewrite EP; reflexivity].
  unfold Tw, sW. rewrite (step_time td b0 v0 rest D Hbpm P (mkW s) (Mid ++ Re) E). cbn [mkW e_tag e_beat]. change (is_end_tag tWARP) with false. cbv iota.
  rewrite EP. unfold St. cbn [fold_left]. fold s0. cbn [s0 init_state s_beat]. rewrite Es. ring_simplify. reflexivity.
Qed.

(* the WARP tag stops where the segment starts ... *)
Theorem elapse_warp_tag d : fst (beat_at_raw (sts td v0) d Tw tWARP) == s.
Proof.
  rewrite sts_split.
  assert (Er : run_states sW Mid = [] ++ sW :: tl (run_states sW Mid)) by (generalize Mid; intros [|? ?]; reflexivity).
  destruct start_cases as [Hs0|[EP Es]].
  - rewrite Er. rewrite (beat_at_on_state_time (run_states s0 P) [] sW (tl (run_states sW Mid)) (tl (run_states (St' Pe) Re)) d Tw tWARP).
    + unfold sW. rewrite St_last. reflexivity.
    + apply before_segment. exact Hs0.
    + intros y Hy. apply run_times. rewrite Er. exact Hy.
    + apply after_segment.
    + unfold sW. rewrite St_last. cbn [advance s_tag mkW e_tag]. lia.
    + intros y Hy. destruct (run_tags y Hy) as [T|T]; rewrite T; unfold tWARP, tWARP_END, tBPM; lia.
  - destruct (at_zero EP Es) as [T0 R0]. rewrite R0.
    assert (Er2 : [s0] ++ run_states sW Mid ++ tl (run_states (St' Pe) Re) =
                  [] ++ ([s0] ++ sW :: tl (run_states sW Mid)) ++ tl (run_states (St' Pe) Re)).
    { rewrite Er at 1. cbn [app]. reflexivity. }
    rewrite Er2. rewrite (beat_at_on_state_time [] [s0] sW (tl (run_states sW Mid)) (tl (run_states (St' Pe) Re)) d Tw tWARP).
    + unfold sW. rewrite St_last. reflexivity.
    + intros y [].
    + intros y Hy. cbn [app] in Hy. destruct Hy as [<-|Hy]; [exact T0|]. apply run_times. rewrite Er. exact Hy.
    + apply after_segment.
    + unfold sW. rewrite St_last. cbn [advance s_tag mkW e_tag]. lia.
    + intros y Hy. destruct (run_tags y Hy) as [T|T]; rewrite T; unfold tWARP, tWARP_END, tBPM; lia.
Qed.

(* ... and the default goes on to where it ends *)
Theorem elapse_default d : fst (beat_at_raw (sts td v0) d Tw tSTOP) == e.
Proof.
  rewrite sts_split. destruct Pe_state as (PT & PW & PB).
  assert (Ef : fold_left advance Mid sW = St' Pe) by (unfold sW, Pe, St; rewrite <- fold_left_app, <- app_assoc; reflexivity).
  assert (Er : run_states sW Mid = removelast (run_states sW Mid) ++ St' Pe :: []) by (rewrite (run_states_last Mid sW) at 1; rewrite Ef; reflexivity).
  (* the last state of the run is the segment's end or a BPM change on its end beat *)
  assert (Hl : In (St' Pe) (tl (run_states sW Mid))).
  { rewrite <- Ef. clear -HWEin. revert HWEin. generalize Mid. intros [|m0 M'] H; [destruct H|]. cbn [run_states tl fold_left].
    rewrite (run_states_last M' (advance sW m0)). apply in_or_app. right. left. reflexivity. }
  assert (Htag : (s_tag (St' Pe) <= tSTOP)%Z) by (destruct (run_tags _ Hl) as [T|T]; rewrite T; unfold tSTOP, tWARP_END, tBPM; lia).
  destruct start_cases as [Hs0|[EP Es]].
  - rewrite Er. rewrite (beat_at_on_state_time (run_states s0 P) (removelast (run_states sW Mid)) (St' Pe) [] (tl (run_states (St' Pe) Re)) d Tw tSTOP).
    + exact PB.
    + apply before_segment. exact Hs0.
    + intros y Hy. apply run_times. rewrite Er. exact Hy.
    + apply after_segment.
    + exact Htag.
    + intros y [].
  - destruct (at_zero EP Es) as [T0 R0]. rewrite R0.
    assert (Er2 : [s0] ++ run_states sW Mid ++ tl (run_states (St' Pe) Re) =
                  [] ++ ((s0 :: removelast (run_states sW Mid)) ++ St' Pe :: []) ++ tl (run_states (St' Pe) Re)).
    { rewrite Er at 1. cbn [app]. reflexivity. }
    rewrite Er2. rewrite (beat_at_on_state_time [] (s0 :: removelast (run_states sW Mid)) (St' Pe) [] (tl (run_states (St' Pe) Re)) d Tw tSTOP).
    + exact PB.
    + intros y [].
    + intros y Hy. cbn [app] in Hy. destruct Hy as [<-|Hy]; [exact T0|]. apply run_times. rewrite Er. exact Hy.
    + apply after_segment.
    + exact Htag.
    + intros y [].
Qed.

(* the time in question is the time the engine assigns to the segment's end beat *)
Lemma Tw_is_time_of_end : prior (sts td v0) s0 e tBPM = St' Pe -> time_at (sts td v0) s0 e tBPM == Tw.
Proof.
  intro Hp. destruct Pe_state as (PT & PW & PB). unfold time_at. rewrite Hp, Qred_correct, tu_eq.
  change (is_end_tag tBPM) with false. rewrite andb_false_r, PT, PB. ring.
Qed.
End Around.

Theorem warp_elapse d :
  let T := time_at (sts td v0) s0 e tBPM in
  fst (beat_at_raw (sts td v0) d T tWARP) == s /\ fst (beat_at_raw (sts td v0) d T tSTOP) == e.
Proof.
  destruct decomposition as (P & Mid & Re & E & HMid & HMidle & HWEin & HRe & Hprior). cbv zeta.
  assert (ET : time_at (sts td v0) s0 e tBPM == Tw P) by (eapply Tw_is_time_of_end; eassumption).
  split.
  - rewrite (beat_at_raw_compat _ _ _ _ tWARP ET). eapply elapse_warp_tag; eassumption.
  - rewrite (beat_at_raw_compat _ _ _ _ tSTOP ET). eapply elapse_default; eassumption.
Qed.
End Elapse.

(* every coalesced segment of a timing data of the domain, with no stop or delay on its beats *)
Theorem warp_elapse_td td b0 v0 rest : dom td -> td_bpms td = (b0, v0) :: rest -> b0 == 0 ->
  exists segs : list (Q * Q),
    (forall x, in_raw (td_warps td) x <-> exists s e, In (s, e) segs /\ s <= x /\ x < e) /\
    forall s e d, In (s, e) segs ->
      (forall r, In r (td_stops td) \/ In r (td_delays td) -> ~ (s <= fst r /\ fst r <= e)) ->
      let T := time_at (sts td v0) (init_state td v0) e tBPM in
      fst (beat_at_raw (sts td v0) d T tWARP) == s /\ fst (beat_at_raw (sts td v0) d T tSTOP) == e.
Proof.
  intros D Hbpm Hb0. destruct (warp_segments td D) as (segs & Hsp & HW & HWE & HinW & HinWE & Hraw).
  exists segs. split; [exact Hraw|]. intros s e d Hseg Hnp.
  apply (warp_elapse td b0 v0 rest D Hbpm Hb0 segs Hsp HW HWE HinW HinWE Hraw s e Hseg Hnp d).
Qed.
