(* C17, last clause: SM -> SSC -> SM gives back every original property and chart field. *)
From Coq Require Import List ZArith NArith Bool Lia.
From SV Require Import Sx Str Omap Beat Simfile TimingSrc Convert Generated.Tables Proofs.ConvertFacts.
Import ListNotations.
Open Scope Z_scope.

Definition ssc_only (inv : list (Z * list str)) (key : str) : bool := existsb (fun e => mem_str key (snd e)) inv.

Lemma decide_not_listed inv beh k v : ssc_only inv k = false -> decide inv beh k v = DCopy.
Proof.
  induction inv as [|[pt keys] r IH]; intro H; [reflexivity|]. simpl in H. apply orb_false_iff in H as [A B].
  simpl. rewrite A. apply IH. exact B.
Qed.

Lemma In_get {V} k (v : V) (m : omap V) : NoDupKeys m -> List.In (k, v) m -> get k m = Some v.
Proof.
  induction m as [|[k' v'] r IH]; intros Hnd H; [destruct H|]. unfold NoDupKeys in Hnd. simpl in Hnd. inversion Hnd as [|? ? Hni Hnd']; subst.
  destruct H as [H|H].
  - inversion H; subst. simpl. rewrite str_eqb_refl. reflexivity.
  - simpl. destruct (str_eqb k k') eqn:E.
    + apply str_eqb_eq in E. subst k'. exfalso. apply Hni. unfold keys. apply in_map_iff. exists (k, v). auto.
    + apply IH; assumption.
Qed.
Lemma get_In {V} k (v : V) (m : omap V) : get k m = Some v -> List.In (k, v) m.
Proof.
  induction m as [|[k' v'] r IH]; simpl; [discriminate|]. destruct (str_eqb k k') eqn:E.
  - apply str_eqb_eq in E. subst. intro H. inversion H; subst. left. reflexivity.
  - intro H. right. apply IH. exact H.
Qed.

Fixpoint nodupb (l : list str) : bool := match l with [] => true | x :: r => negb (mem_str x r) && nodupb r end.
Lemma nodupb_NoDup l : nodupb l = true -> NoDup l.
Proof.
  induction l as [|x r IH]; intro H; [constructor|]. simpl in H. apply andb_prop in H as [A B]. constructor; [|apply IH; exact B].
  intro X. apply mem_str_In in X. rewrite X in A. discriminate A.
Qed.

Section Copy.
Variables (inv : list (Z * list str)) (beh : list (Z * Z)).

Lemma copy_props_total allowed : forall src out,
  (forall k v, List.In (k, v) src -> decide inv beh k v = DSkip \/ (decide inv beh k v = DCopy /\ permitted allowed k = true)) ->
  exists out', copy_props inv beh allowed src out = COk out'.
Proof.
  induction src as [|[k v] r IH]; intros out H; [exists out; reflexivity|]. cbn [copy_props].
  assert (Hr : forall k' v', List.In (k', v') r -> decide inv beh k' v' = DSkip \/ (decide inv beh k' v' = DCopy /\ permitted allowed k' = true))
    by (intros; apply H; right; assumption).
  destruct (H k v (or_introl eq_refl)) as [D|[D P]]; rewrite D; [apply IH; exact Hr|].
  destruct allowed as [ks|]; [unfold permitted in P; rewrite P|]; apply IH; exact Hr.
Qed.

Lemma copy_props_nodup allowed : forall src out out', NoDupKeys out -> copy_props inv beh allowed src out = COk out' -> NoDupKeys out'.
Proof.
  induction src as [|[k v] r IH]; intros out out' Hnd H; [simpl in H; inversion H; subst; exact Hnd|].
  cbn [copy_props] in H. destruct (decide inv beh k v); try discriminate.
  - destruct allowed as [ks|]; [destruct (mem_str k ks); [|discriminate]|]; apply (IH _ _ (set_NoDupKeys k v out Hnd) H).
  - apply (IH _ _ Hnd H).
Qed.

Lemma convert_charts_total post allowed tmpl : forall charts,
  (forall c, List.In c charts -> exists c', copy_props inv beh allowed c tmpl = COk c') ->
  exists cs, convert_charts post inv beh allowed tmpl charts = COk cs.
Proof.
  induction charts as [|c r IH]; intro H; [exists []; reflexivity|]. cbn [convert_charts].
  destruct (H c (or_introl eq_refl)) as [c' E]. rewrite E.
  destruct IH as [cs Ecs]; [intros; apply H; right; assumption|]. rewrite Ecs. eauto.
Qed.
End Copy.

(* finite facts about the regenerated tables *)
Lemma blank_ssc_simfile_back :
  forallb (fun kv => negb (ssc_only Tables.invalid_sm_simfile (fst kv)) ||
                     match decide Tables.invalid_sm_simfile [] (fst kv) (snd kv) with DSkip => true | _ => false end)
          Tables.blank_ssc_simfile = true.
Proof. vm_compute. reflexivity. Qed.
Lemma blank_ssc_chart_back :
  forallb (fun kv => (mem_str (fst kv) Tables.sm_chart_properties && negb (ssc_only Tables.invalid_sm_chart (fst kv))) ||
                     match decide Tables.invalid_sm_chart [] (fst kv) (snd kv) with DSkip => true | _ => false end)
          Tables.blank_ssc_chart = true.
Proof. vm_compute. reflexivity. Qed.
Lemma six_not_ssc_only : forallb (fun k => negb (ssc_only Tables.invalid_sm_chart k)) Tables.sm_chart_properties = true.
Proof. vm_compute. reflexivity. Qed.
Lemma blank_nodup : nodupb (keys Tables.blank_ssc_simfile) = true /\ nodupb (keys Tables.blank_ssc_chart) = true.
Proof. vm_compute. split; reflexivity. Qed.
Lemma warps_facts : ssc_only Tables.invalid_sm_simfile kWARPS = true /\ truthy (get kWARPS Tables.blank_ssc_simfile) = false.
Proof. vm_compute. split; reflexivity. Qed.

Theorem sm_ssc_sm sf charts out cs :
  NoDupKeys sf -> (forall c, List.In c charts -> NoDupKeys c) ->
  (forall k, has k sf = true -> ssc_only Tables.invalid_sm_simfile k = false) ->
  (forall c k, List.In c charts -> has k c = true -> mem_str k Tables.sm_chart_properties = true) ->
  sm_to_ssc sf charts None None = COk (out, cs) ->
  exists sm' cs', ssc_to_sm out cs None None [] = COk (sm', cs') /\
    (forall k v, get k sf = Some v -> get k sm' = Some v) /\
    length cs' = length charts /\
    (forall i c, nth_error charts i = Some c -> exists c'', nth_error cs' i = Some c'' /\ forall k v, get k c = Some v -> get k c'' = Some v).
Proof.
  intros Hnd Hc Hsf Hsix H.
  destruct ssc_tables_empty as [E1 E2]. destruct blank_nodup as [Nsf Nch]. apply nodupb_NoDup in Nsf, Nch.
  (* unfold the forward conversion *)
  unfold sm_to_ssc, convert_core in H. destruct (sm_negative_timing sf) as [[|]| | | |]; try discriminate.
  cbn [base_of fst snd chart_tmpl_of nonempty_props] in H.
  destruct (copy_props Tables.invalid_ssc_simfile [] None sf Tables.blank_ssc_simfile) as [out0| | | |] eqn:Eo; try discriminate.
  destruct (convert_charts notes_last Tables.invalid_ssc_chart [] None Tables.blank_ssc_chart charts) as [cs0| | | |] eqn:Ec; try discriminate.
  cbn [lift_charts app] in H. inversion H; subst out0 cs0. clear H.
  pose proof (copy_props_nodup _ _ None sf _ out Nsf Eo) as Nout.
  pose proof (copy_props_get _ _ None sf _ out Hnd Eo) as Gout.
  assert (Gout' : forall k, get k out = match get k sf with Some v => Some v | None => get k Tables.blank_ssc_simfile end).
  { intro k. rewrite Gout. destruct (get k sf); [rewrite E1, decide_nil|]; reflexivity. }
  destruct (convert_charts_outcomes _ _ _ _ _ _ _ Ec) as [Lcs Ncs].
  (* no warps in the result *)
  destruct warps_facts as [Ww Wb].
  assert (Hw : ssc_has_warps out = false).
  { unfold ssc_has_warps. rewrite Gout'. destruct (get kWARPS sf) eqn:G; [|exact Wb].
    exfalso. assert (has kWARPS sf = true) by (apply has_get; eauto). specialize (Hsf _ H). congruence. }
  unfold ssc_to_sm, convert_core. rewrite Hw. cbn [base_of fst snd chart_tmpl_of nonempty_props].
  (* simfile level *)
  destruct (copy_props_total Tables.invalid_sm_simfile [] None out Tables.blank_sm_simfile) as [sm' Esm].
  { intros k v Hin. pose proof (In_get k v out Nout Hin) as G. rewrite Gout' in G.
    destruct (get k sf) as [v'|] eqn:Gs.
    - right. split; [|reflexivity]. apply decide_not_listed. apply Hsf. apply has_get. eauto.
    - apply get_In in G. pose proof blank_ssc_simfile_back as T. rewrite forallb_forall in T. specialize (T _ G). cbn [fst snd] in T.
      apply orb_prop in T as [T|T].
      + right. split; [|reflexivity]. apply decide_not_listed. apply negb_true_iff. exact T.
      + left. destruct (decide Tables.invalid_sm_simfile [] k v); try discriminate T. reflexivity. }
  rewrite Esm.
  (* chart level *)
  destruct (convert_charts_total Tables.invalid_sm_chart [] (fun c => c) (Some Tables.sm_chart_properties) Tables.blank_sm_chart cs) as [cs' Ecs'].
  { intros c' Hc'. destruct (In_nth_error _ _ Hc') as [i Hi].
    assert (Hil : (i < length cs)%nat) by (apply nth_error_Some; congruence).
    destruct (nth_error charts i) as [c|] eqn:Eci; [|exfalso; apply nth_error_None in Eci; rewrite Lcs in Hil; apply (Nat.lt_irrefl i); eapply Nat.lt_le_trans; eauto].
    destruct (Ncs i c Eci) as (c0 & Hi0 & Ecp). rewrite Hi in Hi0. inversion Hi0; subst c'. clear Hi0.
    assert (Hcin : List.In c charts) by (eapply nth_error_In; eauto).
    pose proof (copy_props_nodup _ _ None c _ c0 Nch Ecp) as Nc0.
    pose proof (move_to_end_NoDupKeys kNOTES c0 Nc0) as Nc'.
    pose proof (copy_props_get _ _ None c _ c0 (Hc c Hcin) Ecp) as Gc.
    apply copy_props_total. intros k v Hin. pose proof (In_get k v _ Nc' Hin) as G. unfold notes_last in G. rewrite (get_move_to_end kNOTES k c0 Nc0), Gc in G.
    pose proof six_not_ssc_only as S6. rewrite forallb_forall in S6.
    destruct (get k c) as [v'|] eqn:Gk.
    - assert (M : mem_str k Tables.sm_chart_properties = true) by (apply (Hsix c k Hcin); apply has_get; eauto).
      right. split; [|exact M]. apply decide_not_listed. apply negb_true_iff. apply S6. apply mem_str_In. exact M.
    - apply get_In in G. pose proof blank_ssc_chart_back as T. rewrite forallb_forall in T. specialize (T _ G). cbn [fst snd] in T.
      apply orb_prop in T as [T|T].
      + apply andb_prop in T as [M N]. right. split; [|exact M]. apply decide_not_listed. apply negb_true_iff. exact N.
      + left. destruct (decide Tables.invalid_sm_chart [] k v); try discriminate T. reflexivity. }
  rewrite Ecs'. cbn [lift_charts app]. exists sm', cs'. split; [reflexivity|].
  destruct (convert_charts_outcomes _ _ _ _ _ _ _ Ecs') as [Lcs' Ncs'].
  split; [|split; [rewrite Lcs'; exact Lcs|]].
  - intros k v G. rewrite (copy_props_get _ _ None out _ sm' Nout Esm k), Gout', G.
    rewrite decide_not_listed; [reflexivity|]. apply Hsf. apply has_get. eauto.
  - intros i c Hi. destruct (Ncs i c Hi) as (c' & Hi' & Ecp). destruct (Ncs' i _ Hi') as (c'' & Hi'' & Ecp').
    exists c''. split; [exact Hi''|]. intros k v G.
    assert (Hcin : List.In c charts) by (eapply nth_error_In; eauto).
    pose proof (copy_props_nodup _ _ None c _ c' Nch Ecp) as Nc0.
    pose proof (move_to_end_NoDupKeys kNOTES c' Nc0) as Nc'.
    rewrite (copy_props_get _ _ _ (notes_last c') _ c'' Nc' Ecp' k). unfold notes_last. rewrite (get_move_to_end kNOTES k c' Nc0), (copy_props_get _ _ None c _ c' (Hc c Hcin) Ecp k), G, E2, decide_nil.
    pose proof six_not_ssc_only as S6. rewrite forallb_forall in S6.
    assert (M : mem_str k Tables.sm_chart_properties = true) by (apply (Hsix c k Hcin); apply has_get; eauto).
    rewrite decide_not_listed; [reflexivity|]. apply negb_true_iff. apply S6. apply mem_str_In. exact M.
Qed.
