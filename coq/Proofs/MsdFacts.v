(* Msd: what the MSD machine does on text produced by the serialiser. *)
From Coq Require Import List NArith ZArith Bool Lia.
From SV Require Import Sx Str Msd.
Import ListNotations.
Open Scope N_scope.

Lemma cls_bsl : classify cBSL = KBsl. Proof. reflexivity. Qed.

Lemma head_esc_slash : forall s k, head_is_slash k = false -> head_is_slash s = false -> head_is_slash (esc s ++ k) = false.
Proof.
  intros [|d r] k Hk Hs; [exact Hk|]. cbn [esc]. unfold head_is_slash, is_slash in Hs.
  destruct (classify d) eqn:E; try discriminate; cbn [app head_is_slash]; unfold is_slash; try rewrite E; try rewrite cls_bsl; reflexivity.
Qed.

(* an escaped component, read inside a parameter, is appended verbatim to the current component *)
Lemma go_esc strict : forall (n : nat) comp, (length comp <= n)%nat -> forall p k acc,
  safe (lastnl p) comp = true -> head_is_slash k = false ->
  go strict (esc comp ++ k) (In p) acc =
  go strict k (In {| lastnl := nl_after (lastnl p) comp; done_ := done_ p; cur := rev comp ++ cur p |}) acc.
Proof.
  induction n as [|n IH]; intros comp Hlen p k acc Hs Hk.
  - destruct comp; [|simpl in Hlen; lia]. destruct p; reflexivity.
  - destruct comp as [|c rest]. { destruct p; reflexivity. }
    simpl in Hlen. assert (Hr : (length rest <= n)%nat) by lia.
    destruct p as [l dn0 cu]. cbn [lastnl done_ cur] in *.
    cbn [esc safe nl_after] in *.
    destruct (classify c) eqn:E.
    + apply andb_prop in Hs as [Hl Hs]. apply negb_true_iff in Hl. subst l.
      cbn [app go]. rewrite E. cbn [lastnl]. rewrite IH; auto.
      cbn [push lastnl done_ cur rev]. rewrite <- app_assoc. reflexivity.
    + cbn [app go]. rewrite cls_bsl. rewrite IH; auto. cbn [push lastnl done_ cur rev]. rewrite <- app_assoc. reflexivity.
    + cbn [app go]. rewrite cls_bsl. rewrite IH; auto. cbn [push lastnl done_ cur rev]. rewrite <- app_assoc. reflexivity.
    + cbn [app go]. rewrite cls_bsl. rewrite IH; auto. cbn [push lastnl done_ cur rev]. rewrite <- app_assoc. reflexivity.
    + destruct rest as [|d rest'].
      * cbn [esc app go]. rewrite E, Hk. destruct k; reflexivity.
      * destruct (is_slash d) eqn:E6.
        -- apply andb_prop in Hs as [Hh Hs]. apply negb_true_iff in Hh.
           cbn [app go]. rewrite cls_bsl.
           assert (Hd : classify d = KSlash) by (unfold is_slash in E6; destruct (classify d); congruence).
           rewrite Hd. rewrite head_esc_slash; auto.
           simpl in Hr. rewrite IH; auto; [|lia]. cbn [push lastnl done_ cur rev].
           rewrite <- !app_assoc. reflexivity.
        -- cbn [app go]. rewrite E.
           replace (head_is_slash (esc (d :: rest') ++ k)) with false.
           2:{ symmetry. apply head_esc_slash; auto. }
           rewrite IH; auto. cbn [push lastnl done_ cur rev]. rewrite <- !app_assoc. reflexivity.
    + cbn [app go]. rewrite E. rewrite IH; auto. cbn [push lastnl done_ cur rev]. rewrite <- app_assoc. reflexivity.
Qed.

Lemma go_esc' strict comp p k acc :
  safe (lastnl p) comp = true -> head_is_slash k = false ->
  go strict (esc comp ++ k) (In p) acc =
  go strict k (In {| lastnl := nl_after (lastnl p) comp; done_ := done_ p; cur := rev comp ++ cur p |}) acc.
Proof. intros. eapply go_esc; eauto. Qed.

(* ---- a whole parameter ---- *)
Fixpoint safe_comps (l : bool) (cs : list str) : bool :=
  match cs with [] => true | c :: r => safe l c && safe_comps (nl_after l c) r end.
Fixpoint nl_comps (l : bool) (cs : list str) : bool :=
  match cs with [] => l | c :: r => nl_comps (nl_after l c) r end.

Lemma go_colon strict k p acc :
  go strict (58 :: k) (In p) acc =
  go strict k (In {| lastnl := lastnl p; done_ := rev_append (cur p) [] :: done_ p; cur := [] |}) acc.
Proof. reflexivity. Qed.
Lemma go_semi strict k p acc :
  go strict (59 :: k) (In p) acc = go strict k (Out (lastnl p) RNone) (finish p :: acc).
Proof. reflexivity. Qed.
Lemma render_comps_cons c c2 r : render_comps (c :: c2 :: r) = esc c ++ 58 :: render_comps (c2 :: r).
Proof. reflexivity. Qed.

Lemma go_comps strict : forall cs l dn k acc, cs <> [] ->
  safe_comps l cs = true ->
  go strict (render_comps cs ++ 59 :: k) (In {| lastnl := l; done_ := dn; cur := [] |}) acc =
  go strict k (Out (nl_comps l cs) RNone) (rev_append dn cs :: acc).
Proof.
  induction cs as [|c r IH]; intros l dn k acc Hne Hs; [congruence|].
  cbn [safe_comps] in Hs. apply andb_prop in Hs as [Hc Hr].
  destruct r as [|c2 r'].
  - change (render_comps [c]) with (esc c). rewrite go_esc'; [|exact Hc|reflexivity].
    rewrite go_semi. unfold finish. cbn [lastnl done_ cur nl_comps].
    rewrite !rev_append_rev, !app_nil_r, rev_involutive. cbn [rev]. reflexivity.
  - rewrite render_comps_cons, <- app_assoc. rewrite go_esc'; [|exact Hc|reflexivity].
    rewrite <- app_comm_cons, go_colon. cbn [lastnl done_ cur].
    rewrite rev_append_rev, !app_nil_r, rev_involutive.
    etransitivity; [apply IH; [discriminate|exact Hr]|]. reflexivity.
Qed.

Lemma go_param strict p l r k acc : p <> [] -> safe_comps l p = true ->
  go strict (render_param p ++ k) (Out l r) acc = go strict k (Out (nl_comps l p) RNone) (p :: acc).
Proof.
  intros Hne Hs. unfold render_param. cbn [app go]. change (classify 35) with KHash. cbn iota.
  rewrite <- app_assoc. cbn [app]. rewrite go_comps; auto.
Qed.

(* ---- a newline between parameters (strict or not): whitespace, never stray ---- *)
Definition ws_ok (r : run) : bool := match r with RBom => false | _ => true end.
Lemma go_newline strict l r k acc : ws_ok r = true ->
  exists r', ws_ok r' = true /\ go strict (10 :: k) (Out l r) acc = go strict k (Out true r') acc.
Proof.
  intro H. cbn [go]. change (classify 10) with (KOther true). cbn iota.
  destruct strict.
  - destruct r; try discriminate; cbn [run_step]; change (10 =? BOM) with false; change (is_space 10) with true; cbn iota;
      eexists; split; try reflexivity; reflexivity.
  - exists RNone. split; reflexivity.
Qed.

(* ---- texts made of parameters and newlines ---- *)
Inductive chunk := CP (p : param) | CN.
Definition render_chunk (c : chunk) : str := match c with CP p => render_param p | CN => [10] end.
Definition render_chunks (cs : list chunk) : str := flat_map render_chunk cs.
Fixpoint params_of (cs : list chunk) : list param :=
  match cs with [] => [] | CP p :: r => p :: params_of r | CN :: r => params_of r end.
Fixpoint safe_chunks (l : bool) (cs : list chunk) : bool :=
  match cs with
  | [] => true
  | CP p :: r => match p with [] => false | _ => safe_comps l p && safe_chunks (nl_comps l p) r end
  | CN :: r => safe_chunks true r
  end.

Lemma go_chunks strict : forall cs l r k acc, ws_ok r = true -> safe_chunks l cs = true ->
  exists l' r', ws_ok r' = true /\
  go strict (render_chunks cs ++ k) (Out l r) acc = go strict k (Out l' r') (rev_append (params_of cs) acc).
Proof.
  induction cs as [|c cs IH]; intros l r k acc Hr Hs.
  - exists l, r. split; [assumption|reflexivity].
  - destruct c as [p|].
    + cbn [safe_chunks] in Hs. destruct p as [|c0 p']; [discriminate|].
      apply andb_prop in Hs as [Hp Hrest].
      cbn [render_chunks flat_map render_chunk]. rewrite <- app_assoc.
      rewrite go_param; [|discriminate|exact Hp].
      destruct (IH (nl_comps l (c0 :: p')) RNone k ((c0 :: p') :: acc) eq_refl Hrest) as (l' & r' & Hw & E).
      exists l', r'. split; [assumption|]. unfold render_chunks in E. rewrite E. reflexivity.
    + cbn [safe_chunks] in Hs. cbn [render_chunks flat_map render_chunk]. rewrite <- app_assoc. cbn [app].
      destruct (go_newline strict l r (flat_map render_chunk cs ++ k) acc Hr) as (r1 & Hw1 & E1). rewrite E1.
      destruct (IH true r1 k acc Hw1 Hs) as (l' & r' & Hw & E).
      exists l', r'. split; [assumption|]. unfold render_chunks in E. rewrite E. reflexivity.
Qed.

(* the whole text parses, strictly or not, to exactly its parameters in order *)
Theorem parse_chunks strict cs : safe_chunks false cs = true ->
  parse strict (render_chunks cs) = (params_of cs, StOk).
Proof.
  intro Hs. unfold parse.
  destruct (go_chunks strict cs false RNone [] [] eq_refl Hs) as (l' & r' & _ & E).
  rewrite app_nil_r in E. rewrite E. cbn [go]. rewrite !rev_append_rev, app_nil_r, app_nil_r, rev_involutive. reflexivity.
Qed.
