(* Lemmas for C14 (Beat). *)
From Coq Require Import List ZArith NArith Bool Lia ZifyBool.
From SV Require Import Sx Str Beat Generated.Tables.
Import ListNotations.
Open Scope Z_scope.
Ltac Zify.zify_post_hook ::= Z.to_euclidean_division_equations.

Lemma subdiv_is_table : SUBDIV = Tables.beat_subdivision.
Proof. reflexivity. Qed.

Lemma round_he_nearest n d : 0 < d -> 2 * Z.abs (n - round_he n d * d) <= d.
Proof.
  intro Hd. unfold round_he.
  destruct (2 * (n mod d) <? d) eqn:E1; [lia|].
  destruct (d <? 2 * (n mod d)) eqn:E2; [lia|].
  destruct (Z.even (n / d)); lia.
Qed.

(* among two equally near integers the even one is chosen *)
Lemma round_he_tie_even n d : 0 < d -> 2 * (n mod d) = d -> Z.even (round_he n d) = true.
Proof.
  intros Hd Ht. unfold round_he.
  destruct (2 * (n mod d) <? d) eqn:E1; [lia|].
  destruct (d <? 2 * (n mod d)) eqn:E2; [lia|].
  destruct (Z.even (n / d)) eqn:E3; [assumption|].
  rewrite Z.even_add, E3. reflexivity.
Qed.

(* any other integer is at least as far away: the result is a nearest integer *)
Lemma round_he_optimal n d k : 0 < d -> Z.abs (n - round_he n d * d) <= Z.abs (n - k * d).
Proof.
  intro Hd. pose proof (round_he_nearest n d Hd) as H.
  destruct (Z.eq_dec k (round_he n d)) as [->|Hne]; [lia|].
  assert (Hk : Z.abs (k - round_he n d) >= 1) by lia.
  assert (Hx : Z.abs ((k - round_he n d) * d) >= d) by nia.
  lia.
Qed.

Lemma round_he_exact k d : 0 < d -> round_he (k * d) d = k.
Proof.
  intro Hd. unfold round_he. rewrite Z.mod_mul, Z.div_mul by lia.
  destruct (2 * 0 <? d) eqn:E; [reflexivity|lia].
Qed.

Lemma round_tick_of_tick t : round_tick t SUBDIV = t.
Proof. unfold round_tick. rewrite Z.mul_comm. apply round_he_exact. reflexivity. Qed.

(* the result of rounding, re-rounded, is itself (round_to_tick is idempotent) *)
Lemma round_tick_idem n d : 0 < d -> round_tick (round_tick n d) SUBDIV = round_tick n d.
Proof. intros _. apply round_tick_of_tick. Qed.

(* three decimals are enough to tell ticks apart: for EVERY tick t *)
Lemma thousandths_roundtrip t : round_tick (thousandths t) 1000 = t.
Proof.
  unfold round_tick, thousandths, SUBDIV.
  pose proof (round_he_nearest (1000 * t) 48 ltac:(lia)) as H.
  set (m := round_he (1000 * t) 48) in *. clearbody m.
  unfold round_he.
  destruct (2 * ((48 * m) mod 1000) <? 1000) eqn:E1.
  - lia.
  - destruct (1000 <? 2 * ((48 * m) mod 1000)) eqn:E2; [lia|].
    exfalso. lia.
Qed.

(* formatting margin: 1000 t / 48 is either an exact half-way case -- and then t/48 is an
   odd multiple of 1/16, a dyadic value that binary64 holds exactly, so Python's
   correctly-rounded half-even formatting applies to the exact value -- or it is at
   least 1/6 of 0.001 away from every rounding boundary, far beyond float error *)
Lemma thousandths_margin t :
  let r := (1000 * t) mod 48 in
  (r = 24 /\ t mod 6 = 3) \/ r = 0 \/ 16 <= Z.abs (2 * r - 48).
Proof. cbv zeta. lia. Qed.

(* an exact tie is resolved to the even neighbour, stated on the distance *)
Lemma round_he_tie_even' n d : 0 < d -> 2 * Z.abs (n - round_he n d * d) = d -> Z.even (round_he n d) = true.
Proof.
  intros Hd Ht. unfold round_he in *.
  destruct (2 * (n mod d) <? d) eqn:E1; [exfalso; lia|].
  destruct (d <? 2 * (n mod d)) eqn:E2; [exfalso; lia|].
  destruct (Z.even (n / d)) eqn:E3; [assumption|]. rewrite Z.even_add, E3. reflexivity.
Qed.

(* the result depends only on the rational n/d, not on how it is written *)
Lemma round_he_compat n d n' d' : 0 < d -> 0 < d' -> n * d' = n' * d -> round_he n d = round_he n' d'.
Proof.
  intros Hd Hd' E.
  pose proof (round_he_nearest n d Hd) as H1. pose proof (round_he_nearest n' d' Hd') as H2.
  pose proof (round_he_tie_even' n d Hd) as T1. pose proof (round_he_tie_even' n' d' Hd') as T2.
  set (q := round_he n d) in *. set (q' := round_he n' d') in *. clearbody q q'.
  assert (A1 : 2 * Z.abs (n * d' - q * d * d') <= d * d') by nia.
  assert (A2 : 2 * Z.abs (n * d' - q' * d * d') <= d * d') by (rewrite E; nia).
  assert (Hdd : 0 < d * d') by nia.
  assert (Hclose : Z.abs (q - q') <= 1) by nia.
  destruct (Z.eq_dec q q') as [|Hne]; [assumption|]. exfalso.
  assert (Hone : Z.abs (q - q') = 1) by lia.
  (* both are exact ties, hence both even, yet they differ by one *)
  assert (E1 : 2 * Z.abs (n - q * d) = d) by nia.
  assert (E2 : 2 * Z.abs (n' - q' * d') = d') by nia.
  specialize (T1 E1). specialize (T2 E2).
  apply Z.even_spec in T1 as [a Ha]. apply Z.even_spec in T2 as [b Hb]. lia.
Qed.
