(* C07: the reported column count of every well-formed text is the width of its first row
   (NoteData._get_columns: text up to the first comma, stripped, first line, stripped, keysound brackets removed). *)
From Coq Require Import List ZArith NArith Bool Lia.
From SV Require Import Sx Str Notes Generated.Tables Proofs.StrFacts Proofs.NotesText Proofs.NotesTextGen.
Import ListNotations.
Open Scope N_scope.

Lemma lb_is_space_tbl : forallb is_space line_breaks = true.
Proof. vm_compute. reflexivity. Qed.
Lemma lb_is_space c : is_lb c = true -> is_space c = true.
Proof.
  unfold is_lb. intro H. apply existsb_exists in H as [x [Hx E]]. apply N.eqb_eq in E. subst x.
  pose proof lb_is_space_tbl as T. rewrite forallb_forall in T. apply T. exact Hx.
Qed.
Lemma break_wsp br : is_break br -> wsp br.
Proof.
  intros [c Hc _|]; unfold wsp; cbn [forallb]; [rewrite (lb_is_space c Hc); reflexivity|].
  rewrite (lb_is_space 13), (lb_is_space 10) by (vm_compute; reflexivity). reflexivity.
Qed.

(* strip keeps a core that starts and ends with a non-blank, and whatever follows it up to trailing blanks *)
Lemma strip_core_tail A core Y : wsp A -> first_last_ok core -> strip (A ++ core ++ Y) = core ++ rstrip Y.
Proof.
  intros HA Hc. rewrite strip_ws_prefix by exact HA. unfold strip.
  destruct Hc as [(c & -> & Hc)|(c & m & d & -> & Hc & Hd)].
  - cbn [app lstrip]. rewrite Hc. unfold rstrip.
    pose proof (rstrip_go_after_nonspace c Y Hc [] []) as R. cbn [app rev] in R. exact R.
  - cbn [app lstrip]. rewrite Hc. unfold rstrip.
    pose proof (rstrip_go_after_nonspace d Y Hd (c :: m) []) as R. cbn [app rev] in R.
    replace (c :: (m ++ [d]) ++ rstrip_go Y []) with (c :: m ++ d :: rstrip_go Y []) by (rewrite <- app_assoc; reflexivity).
    exact R.
Qed.

Lemma rstrip_go_ws_prefix : forall u W p, wsp u -> rstrip_go (u ++ W) p = rstrip_go W (rev u ++ p).
Proof.
  induction u as [|c u IH]; intros W p H; [reflexivity|]. unfold wsp in H. cbn [forallb] in H. apply andb_prop in H as [A B].
  cbn [app rstrip_go]. rewrite A. rewrite IH by exact B. cbn [rev]. rewrite <- app_assoc. reflexivity.
Qed.

Lemma rstrip_ws_prefix u W : wsp u -> rstrip (u ++ W) = [] \/ exists t, rstrip (u ++ W) = u ++ t.
Proof.
  intro H. unfold rstrip. rewrite rstrip_go_ws_prefix by exact H.
  destruct (rstrip_go_pending W (rev u ++ [])) as [E|[t E]]; [left; exact E|right].
  exists t. rewrite E, app_nil_r, rev_involutive. reflexivity.
Qed.

Definition width_of_first_line (s : str) : option nat :=
  match splitlines (strip s) with
  | [] => None
  | l :: _ => match parse_row_top (strip l) with Some cs => Some (length cs) | None => None end
  end.

Lemma single_line r0 : row_ok r0 ->
  match splitlines (row_text r0) with
  | [] => None
  | l :: _ => match parse_row_top (strip l) with Some cs => Some (length cs) | None => None end
  end = Some (length r0).
Proof.
  intros [Hne Hok]. pose proof (row_text_plain r0 Hok) as Hp. pose proof (row_text_nonempty r0 Hne) as Hn.
  pose proof (splitlines_join [row_text r0]) as S. cbn [join] in S. rewrite S; [|discriminate|].
  - rewrite strip_plain by assumption. rewrite parse_row_text by exact Hok. reflexivity.
  - constructor; [|constructor]. split; [exact Hn|apply plain_nolb; exact Hp].
Qed.

(* the first row is followed by blanks and a line break: whatever comes after does not matter *)
Lemma first_line_general A r0 b br W : wsp A -> row_ok r0 -> hblank b -> is_break br ->
  width_of_first_line (A ++ row_text r0 ++ b ++ br ++ W) = Some (length r0).
Proof.
  intros HA Hr Hb Hbr. unfold width_of_first_line.
  rewrite strip_core_tail by (try exact HA; apply row_first_last; exact Hr).
  replace (b ++ br ++ W) with ((b ++ br) ++ W) by (rewrite <- app_assoc; reflexivity).
  destruct (rstrip_ws_prefix (b ++ br) W) as [E|[t E]]; [apply wsp_app; [apply hblank_wsp; exact Hb|apply break_wsp; exact Hbr]| |]; rewrite E.
  - rewrite app_nil_r. apply single_line. exact Hr.
  - unfold splitlines. rewrite <- !app_assoc.
    replace (row_text r0 ++ b ++ br ++ t) with ((row_text r0 ++ b) ++ br ++ t) by (rewrite <- !app_assoc; reflexivity).
    rewrite splitlines_go_line; [|apply nolb_app; [apply row_nolb; exact Hr|apply hblank_nolb; exact Hb]|exact Hbr].
    rewrite strip_ws_suffix by (apply hblank_wsp; exact Hb).
    destruct Hr as [Hne Hok]. rewrite strip_plain by (try (apply row_text_nonempty; exact Hne); apply row_text_plain; exact Hok).
    rewrite parse_row_text by exact Hok. reflexivity.
Qed.

(* the first row is the whole first measure *)
Lemma first_line_alone A r0 B : wsp A -> wsp B -> row_ok r0 -> width_of_first_line (A ++ row_text r0 ++ B) = Some (length r0).
Proof.
  intros HA HB Hr. unfold width_of_first_line. rewrite strip_ws_core by (try assumption; apply row_first_last; exact Hr).
  apply single_line. exact Hr.
Qed.

Definition first_measure (s : str) : str := match find_index 44 s 0 with Some (S k) => take (S k) s | _ => s end.
Lemma columns_unfold s : columns s = width_of_first_line (first_measure s).
Proof. reflexivity. Qed.

Lemma okchars_nocomma s : forallb okchar s = true -> nosep 44 s.
Proof. apply okchars_nosep. left. reflexivity. Qed.

(* a prefix without comma that is not empty: the text up to the first comma starts with that prefix *)
Lemma first_measure_prefix P W : nosep 44 P -> P <> [] ->
  exists W', first_measure (P ++ W) = P ++ W'.
Proof.
  intros Hn Hne. unfold first_measure. rewrite find_index_skip by exact Hn. cbn [Nat.add].
  destruct (find_index 44 W (length P)) as [k|] eqn:F; [|exists W; reflexivity].
  apply find_index_ge in F. destruct k as [|k]; [destruct P; [congruence|simpl in F; lia]|].
  rewrite take_app_ge by lia. eexists. reflexivity.
Qed.

Lemma first_measure_exact P X : nosep 44 P -> P <> [] ->
  first_measure (P ++ 44 :: X) = P.
Proof.
  intros Hn Hne. unfold first_measure. rewrite find_index_skip by exact Hn. cbn [Nat.add find_index]. change (44 =? 44) with true. cbv iota.
  destruct P as [|c P]; [congruence|]. cbn [length]. change (S (length P)) with (length (c :: P)).
  rewrite take_app_ge by lia. rewrite Nat.sub_diag. cbn [take]. rewrite app_nil_r. reflexivity.
Qed.

Lemma first_measure_nocomma P : nosep 44 P ->
  first_measure P = P.
Proof.
  intros Hn. unfold first_measure. pose proof (find_index_skip 44 P [] 0 Hn) as E. rewrite app_nil_r in E. rewrite E. reflexivity.
Qed.

(* ---- the text of a general grid starts with its first measure ---- *)
Lemma gg_text_head m0 p0 g' : exists T, gg_text ((m0 :: p0) :: g') = gm_text m0 ++ T /\
  (p0 <> [] -> exists X, T = 44 :: X) /\ (p0 = [] -> g' = [] -> T = []).
Proof.
  unfold gg_text, gp_text. cbn [map].
  destruct p0 as [|m1 p1]; destruct g' as [|q g2]; cbn [map join].
  - exists []. rewrite app_nil_r. split; [reflexivity|]. split; [congruence|reflexivity].
  - eexists. split; [reflexivity|]. split; [congruence|discriminate].
  - eexists. split; [reflexivity|]. split; [intros _; eexists; reflexivity|discriminate].
  - eexists. split; [rewrite <- app_assoc; reflexivity|]. split; [intros _; eexists; reflexivity|discriminate].
Qed.

Lemma row_text_ne_app A r0 W : row_ok r0 -> A ++ row_text r0 ++ W <> [].
Proof.
  intros [Hne _] E. apply app_eq_nil in E as [_ E]. apply app_eq_nil in E as [E _].
  apply (row_text_nonempty r0 Hne E).
Qed.

(* the reported column count is the width of the first row: whenever the first measure has at least two rows, or is
   followed by a comma, or is the whole text.  (A one-row first measure of a routine chart directly followed by '&' is
   outside: the code then counts the '&' and the next player's first row as columns.) *)
Theorem columns_general m0 p0 g' : Forall gp_ok ((m0 :: p0) :: g') ->
  (m_rest m0 <> [] \/ p0 <> [] \/ g' = []) ->
  columns (gg_text ((m0 :: p0) :: g')) = Some (length (l_r (m_l0 m0))).
Proof.
  intros Hall Hcase. inversion Hall as [|? ? [_ Hp] _]; subst. inversion Hp as [|? ? Hm0 _]; subst.
  destruct Hm0 as (HA & HB & (Hla & Hlb & Hr) & Hrest).
  destruct (gg_text_head m0 p0 g') as (T & E & HT1 & HT2). rewrite E, columns_unfold. unfold gm_text.
  destruct (m_rest m0) as [|[br l1] rest'] eqn:R.
  - (* one row *)
    cbn [lines_text]. unfold line_text.
    set (A := m_wsA m0 ++ l_a (m_l0 m0)). set (B := l_b (m_l0 m0) ++ m_wsB m0). set (r0 := l_r (m_l0 m0)) in *.
    assert (HwA : wsp A) by (apply wsp_app; [exact HA|apply hblank_wsp; exact Hla]).
    assert (HwB : wsp B) by (apply wsp_app; [apply hblank_wsp; exact Hlb|exact HB]).
    replace ((m_wsA m0 ++ (l_a (m_l0 m0) ++ row_text r0 ++ l_b (m_l0 m0)) ++ m_wsB m0) ++ T) with ((A ++ row_text r0 ++ B) ++ T)
      by (unfold A, B; rewrite <- !app_assoc; reflexivity).
    assert (Hn : nosep 44 (A ++ row_text r0 ++ B)).
    { apply okchars_nocomma. apply okchars_app; [apply wsp_ok; exact HwA|]. apply okchars_app; [|apply wsp_ok; exact HwB].
      apply plain_ok, row_text_plain, Hr. }
    assert (Hne : A ++ row_text r0 ++ B <> []) by (apply row_text_ne_app; exact Hr).
    destruct p0 as [|m1 p1].
    + destruct Hcase as [C|[C|C]]; try congruence. rewrite (HT2 eq_refl C), app_nil_r, first_measure_nocomma by exact Hn.
      apply first_line_alone; assumption.
    + destruct (HT1 ltac:(discriminate)) as [X ->]. rewrite first_measure_exact by assumption. apply first_line_alone; assumption.
  - (* at least two rows *)
    inversion Hrest as [|? ? [Hbr _] _]; subst. cbn [fst] in Hbr.
    cbn [lines_text]. unfold line_text.
    set (A := m_wsA m0 ++ l_a (m_l0 m0)). set (r0 := l_r (m_l0 m0)) in *. set (b := l_b (m_l0 m0)) in *.
    assert (HwA : wsp A) by (apply wsp_app; [exact HA|apply hblank_wsp; exact Hla]).
    set (P := A ++ row_text r0 ++ b ++ br).
    replace ((m_wsA m0 ++ ((l_a (m_l0 m0) ++ row_text r0 ++ b) ++ br ++ lines_text l1 rest') ++ m_wsB m0) ++ T)
      with (P ++ (lines_text l1 rest' ++ m_wsB m0 ++ T)) by (unfold P, A; rewrite <- !app_assoc; reflexivity).
    assert (Hn : nosep 44 P).
    { apply okchars_nocomma. unfold P. apply okchars_app; [apply wsp_ok; exact HwA|]. apply okchars_app; [apply plain_ok, row_text_plain, Hr|].
      apply okchars_app; [apply wsp_ok, hblank_wsp; exact Hlb|apply break_ok; exact Hbr]. }
    assert (Hne : P <> []) by (apply row_text_ne_app; exact Hr).
    destruct (first_measure_prefix P (lines_text l1 rest' ++ m_wsB m0 ++ T) Hn Hne) as [W' ->].
    unfold P. rewrite <- !app_assoc. apply first_line_general; assumption.
Qed.

(* ... hence the whole decoder on every such text: column count and notes *)
Theorem decode_general m0 p0 g' : Forall gp_ok ((m0 :: p0) :: g') ->
  (m_rest m0 <> [] \/ p0 <> [] \/ g' = []) ->
  grid_ks_ok (length (l_r (m_l0 m0))) (map (map gm_rows) ((m0 :: p0) :: g')) = true ->
  decode (gg_text ((m0 :: p0) :: g')) =
  Some (length (l_r (m_l0 m0)), notes_of_grid (map (map gm_rows) ((m0 :: p0) :: g'))).
Proof.
  intros Hall Hcase Hks. unfold decode.
  assert (Hne : (m0 :: p0) :: g' <> []) by discriminate.
  rewrite (columns_general m0 p0 g' Hall Hcase), (parse_grid_general _ Hne Hall), Hks. reflexivity.
Qed.
