(* C10: ungrouping what group_notes emitted gives back the stream (minus dropped orphans). *)
From Coq Require Import List Arith ZArith NArith Bool Lia Sorting.Sorted.
From SV Require Import Sx Str Notes Group Proofs.GroupRefine Proofs.C07 Proofs.C09.
Import ListNotations.
Local Open Scope nat_scope.

Definition lt (a b : note) : Prop := note_lt a b = true.

Section RoundTrip.
Variable p0 : Z.     (* the single player of the stream *)

Definition wf (n : note) : Prop :=
  (0 < nb_d n)%Z /\ (0 <= ncol n)%Z /\ nplayer n = p0 /\ (is_tail (ty n) = true -> nks n = None).

Definition matched (rp : list note) (x : note) : bool :=
  is_tail (ty x) && match next_in_col (col x) rp with Some p => is_head (ty p) | None => false end.

Definition emitted (ph pt : policy) (rp : list note) (x : note) (r : list note) : bool :=
  match doc_item ph pt rp x r with [] => false | _ => true end.

(* the notes that survive grouping: everything except dropped orphans *)
Fixpoint kept (ph pt : policy) (rp ns : list note) : list note :=
  match ns with
  | [] => []
  | x :: r => (if matched rp x || emitted ph pt rp x r then [x] else []) ++ kept ph pt (x :: rp) r
  end.

(* ---- order facts ---- *)
Lemma lt_asym a b : lt a b -> ~ lt b a.
Proof.
  unfold lt, note_lt. rewrite (pos_cmp_antisym a b). destruct (pos_cmp a b); simpl; congruence.
Qed.
Lemma lt_irrefl a : ~ lt a a.
Proof. unfold lt. rewrite note_lt_irrefl. discriminate. Qed.
Lemma lt_trans a b c : wf a -> wf b -> wf c -> lt a b -> lt b c -> lt a c.
Proof. intros (Ha & _) (Hb & _) (Hc & _). unfold lt. apply note_lt_trans; assumption. Qed.

Lemma sorted_total ns a b : StronglySorted lt ns -> In a ns -> In b ns -> a = b \/ lt a b \/ lt b a.
Proof.
  induction 1 as [|x r Hs IH Hx]; intros Ha Hb; [destruct Ha|].
  rewrite Forall_forall in Hx.
  destruct Ha as [<-|Ha]; destruct Hb as [<-|Hb]; auto.
Qed.

Lemma sorted_head_min x r : StronglySorted lt (x :: r) -> forall n, In n r -> lt x n.
Proof. intros H n Hn. inversion H; subst. rewrite Forall_forall in *. auto. Qed.

Lemma sorted_head_notin x r : StronglySorted lt (x :: r) -> ~ In x r.
Proof. intros H Hin. apply (lt_irrefl x). eapply sorted_head_min; eauto. Qed.

(* ---- next_in_col ---- *)
Lemma next_in_col_In c ns t : next_in_col c ns = Some t -> In t ns /\ col t = c.
Proof.
  induction ns as [|n r IH]; simpl; [discriminate|].
  destruct (col n =? c) eqn:E.
  - intro H; inversion H; subst. apply Nat.eqb_eq in E. auto.
  - intro H. apply IH in H. tauto.
Qed.
Lemma next_in_col_cons_same x r : next_in_col (col x) (x :: r) = Some x.
Proof. simpl. rewrite Nat.eqb_refl. reflexivity. Qed.
Lemma next_in_col_cons_other c x r : col x <> c -> next_in_col c (x :: r) = next_in_col c r.
Proof. intro H. simpl. apply Nat.eqb_neq in H. rewrite H. reflexivity. Qed.

(* ---- the regenerated tail is the original tail ---- *)
Lemma is_tail_ntype t : is_tail (ty t) = true -> ntype t = 51%N.
Proof.
  unfold ty. destruct (N.eqb (ntype t) 50 || N.eqb (ntype t) 52)%bool; [discriminate|].
  destruct (N.eqb (ntype t) 51) eqn:E; [|discriminate]. intros _. apply N.eqb_eq. assumption.
Qed.
Lemma tail_note_id h t : wf h -> wf t -> is_tail (ty t) = true -> col t = col h -> tail_note h (beat t) = t.
Proof.
  intros (_ & Hch & Hph & _) (_ & Hct & Hpt & Hk) Ht Hc.
  pose proof (is_tail_ntype _ Ht) as Hty. pose proof (Hk Ht) as Hks.
  unfold col in Hc. assert (Hcz : ncol h = ncol t) by lia.
  unfold tail_note, beat. destruct t as [tn td tc tt tp tk]; simpl in *. subst. reflexivity.
Qed.

(* ---- the pending list ---- *)
Lemma pop_before_spec x : forall S P' acc,
  (forall s, In s S -> lt s x) -> (forall t, In t P' -> ~ lt t x) ->
  pop_before x (S ++ P') acc = (rev S ++ acc, P').
Proof.
  induction S as [|s S IH]; intros P' acc HS HP; simpl.
  - destruct P' as [|t P'']; [reflexivity|]. simpl.
    destruct (note_lt t x) eqn:E; [exfalso; apply (HP t); [left; reflexivity|exact E]|reflexivity].
  - assert (E : note_lt s x = true) by (apply HS; left; reflexivity). rewrite E.
    rewrite IH; [|intros; apply HS; right; assumption|assumption].
    rewrite <- app_assoc. reflexivity.
Qed.

Lemma push_sorted_In t p y : In y (push_sorted t p) <-> y = t \/ In y p.
Proof.
  induction p as [|x r IH]; simpl; [intuition|].
  destruct (note_lt t x); simpl; [intuition|]. rewrite IH. intuition.
Qed.

Lemma push_sorted_sorted ns t p :
  StronglySorted lt ns -> Forall wf ns -> In t ns -> (forall y, In y p -> In y ns /\ y <> t) ->
  StronglySorted lt p -> StronglySorted lt (push_sorted t p).
Proof.
  intros Hns Hwf Ht. rewrite Forall_forall in Hwf.
  induction p as [|x r IH]; intros Hp Hs; simpl; [repeat constructor|].
  inversion Hs as [|? ? Hs' Hx]; subst. rewrite Forall_forall in Hx.
  destruct (note_lt t x) eqn:E.
  - constructor; [assumption|]. apply Forall_forall. intros y [<-|Hy]; [exact E|].
    destruct (Hp y (or_intror Hy)) as [Hyn _]. destruct (Hp x (or_introl eq_refl)) as [Hxn _].
    eapply lt_trans; [apply Hwf; exact Ht|apply Hwf; exact Hxn|apply Hwf; exact Hyn|exact E|apply Hx; assumption].
  - constructor; [apply IH; [intros; apply Hp; right; assumption|assumption]|].
    apply Forall_forall. intros y Hy. apply push_sorted_In in Hy as [->|Hy]; [|apply Hx; assumption].
    destruct (Hp x (or_introl eq_refl)) as [Hxn Hne].
    destruct (sorted_total ns x t Hns Hxn Ht) as [H|[H|H]]; [congruence|assumption|unfold lt in H; congruence].
Qed.

(* ---- the invariant ---- *)
Record J (S P' rp ns : list note) : Prop := {
  j_sorted : StronglySorted lt P';
  j_sub : forall t, In t P' -> In t ns /\ matched rp t = true /\ next_in_col (col t) ns = Some t;
  j_complete : forall c h t, next_in_col c rp = Some h -> is_head (ty h) = true ->
               next_in_col c ns = Some t -> is_tail (ty t) = true -> In t P';
  j_stale : forall s n, In s S -> In n ns -> lt s n
}.

Lemma matched_other rp x t : col x <> col t -> matched (x :: rp) t = matched rp t.
Proof. intro H. unfold matched. rewrite next_in_col_cons_other by assumption. reflexivity. Qed.

Lemma ncol_eqb_col t x : (0 <= ncol t)%Z -> (0 <= ncol x)%Z -> Z.eqb (ncol t) (ncol x) = true -> col t = col x.
Proof. intros _ _ H. apply Z.eqb_eq in H. unfold col. congruence. Qed.

(* moving past x keeps the facts about pending tails of other columns *)
Lemma J_advance S P' rp x r :
  StronglySorted lt (x :: r) ->
  J S P' rp (x :: r) -> ~ In x P' ->
  (is_head (ty x) = true -> forall t, next_in_col (col x) r = Some t -> is_tail (ty t) = true -> In t P') ->
  (forall s, In s S -> True) ->
  J S P' (x :: rp) r.
Proof.
  intros Hs [Js Jsub Jc Jst] Hx Hhead _.
  assert (Hcol : forall t, In t P' -> col x <> col t).
  { intros t Ht E. destruct (Jsub t Ht) as (_ & _ & Hn). rewrite <- E, next_in_col_cons_same in Hn.
    inversion Hn; subst. contradiction. }
  constructor.
  - assumption.
  - intros t Ht. destruct (Jsub t Ht) as (Hin & Hm & Hn). pose proof (Hcol t Ht) as Hc.
    split; [destruct Hin as [<-|Hin]; [contradiction|assumption]|split].
    + rewrite matched_other; assumption.
    + rewrite next_in_col_cons_other in Hn; assumption.
  - intros c h t Hh Hhd Hn Ht. destruct (Nat.eq_dec (col x) c) as [<-|Hne].
    + rewrite next_in_col_cons_same in Hh. inversion Hh; subst. apply Hhead; assumption.
    + rewrite next_in_col_cons_other in Hh by assumption. eapply Jc; eauto.
      rewrite next_in_col_cons_other; assumption.
  - intros s n Hsn Hn. apply Jst; [assumption|right; assumption].
Qed.

Lemma doc_item_cases ph pt rp x r :
  doc_item ph pt rp x r = [] \/ doc_item ph pt rp x r = [Plain x] \/
  (exists t, doc_item ph pt rp x r = [Joined x (beat t)] /\ is_head (ty x) = true /\
             next_in_col (col x) r = Some t /\ is_tail (ty t) = true).
Proof.
  unfold doc_item. destruct (is_tail (ty x)).
  - destruct (next_in_col (col x) rp) as [p|]; [destruct (is_head (ty p)); [auto|]|]; destruct pt; simpl; auto.
  - destruct (is_head (ty x)) eqn:Hh; [|auto].
    destruct (next_in_col (col x) r) as [t|] eqn:Hn; [destruct (is_tail (ty t)) eqn:Ht|].
    + right. right. exists t. auto.
    + destruct ph; simpl; auto.
    + destruct ph; simpl; auto.
Qed.

Lemma doc_item_matched ph pt rp x r : matched rp x = true -> doc_item ph pt rp x r = [].
Proof.
  unfold matched, doc_item. intro H. apply andb_true_iff in H as [H1 H2]. rewrite H1.
  destruct (next_in_col (col x) rp) as [p|]; [|discriminate]. rewrite H2. reflexivity.
Qed.

(* a head whose next note in its column is a tail is never emitted as [] *)
Lemma doc_item_head_tail ph pt rp x r t :
  is_head (ty x) = true -> next_in_col (col x) r = Some t -> is_tail (ty t) = true ->
  doc_item ph pt rp x r = [Joined x (beat t)].
Proof.
  intros Hh Hn Ht. unfold doc_item. rewrite (head_not_tail _ Hh), Hh, Hn, Ht. reflexivity.
Qed.

Theorem ungroup_doc_items pol ph pt : forall ns rp S P' acc,
  StronglySorted lt ns -> Forall wf ns -> Forall wf rp ->
  J S P' rp ns ->
  ungroup_go pol (doc_items ph pt rp ns) (S ++ P') acc = UOk (rev acc ++ S ++ kept ph pt rp ns).
Proof.
  induction ns as [|x r IH]; intros rp S P' acc Hs Hwf Hwfr HJ.
  - destruct HJ as [_ Jsub _ _]. destruct P' as [|t P'']; [|destruct (Jsub t (or_introl eq_refl)) as [[] _]].
    simpl. rewrite rev_append_rev, !app_nil_r. reflexivity.
  - pose proof HJ as [Js Jsub Jc Jst].
    assert (Hwfx : wf x) by (inversion Hwf; assumption).
    assert (Hwf' : Forall wf r) by (inversion Hwf; assumption).
    assert (Hs' : StronglySorted lt r) by (inversion Hs; assumption).
    assert (Hwfr' : Forall wf (x :: rp)) by (constructor; assumption).
    cbn [doc_items kept].
    destruct (matched rp x) eqn:M.
    + (* x closes an open hold: it is the least pending tail; nothing is emitted for it now *)
      rewrite (doc_item_matched ph pt rp x r M). cbn [app orb].
      pose proof M as M'. unfold matched in M'. apply andb_true_iff in M' as [Mt Mh].
      destruct (next_in_col (col x) rp) as [h|] eqn:Hh; [|discriminate].
      assert (HxP : In x P') by (eapply Jc; eauto using next_in_col_cons_same).
      destruct P' as [|y P'']; [destruct HxP|].
      assert (Hy : y = x).
      { destruct HxP as [->|HxP]; [reflexivity|].
        inversion Js as [|? ? _ Hyl]; subst. rewrite Forall_forall in Hyl. pose proof (Hyl x HxP) as Hyx.
        destruct (Jsub y (or_introl eq_refl)) as (Hyin & _).
        destruct Hyin as [->|Hyin]; [reflexivity|]. exfalso. eapply lt_asym; [exact Hyx|].
        eapply sorted_head_min; eauto. }
      subst y.
      replace (S ++ x :: P'') with ((S ++ [x]) ++ P'') by (rewrite <- app_assoc; reflexivity).
      rewrite IH; try assumption.
      * rewrite <- !app_assoc. reflexivity.
      * inversion Js as [|? ? Js'' Hxl]; subst. rewrite Forall_forall in Hxl.
        assert (Hcol : forall t, In t P'' -> col x <> col t).
        { intros t Ht E. destruct (Jsub t (or_intror Ht)) as (_ & _ & Hn). rewrite <- E, next_in_col_cons_same in Hn.
          inversion Hn; subst. eapply lt_irrefl. apply Hxl. exact Ht. }
        constructor.
        -- assumption.
        -- intros t Ht. destruct (Jsub t (or_intror Ht)) as (Hin & Hm & Hn). pose proof (Hcol t Ht) as Hc.
           split; [destruct Hin as [<-|Hin]; [exfalso; eapply lt_irrefl; apply Hxl; exact Ht|assumption]|split].
           ++ rewrite matched_other; assumption.
           ++ rewrite next_in_col_cons_other in Hn; assumption.
        -- intros c h' t Hh' Hhd Hn Ht. destruct (Nat.eq_dec (col x) c) as [<-|Hne].
           ++ rewrite next_in_col_cons_same in Hh'. inversion Hh'; subst. rewrite (head_not_tail _ Hhd) in Mt. discriminate.
           ++ rewrite next_in_col_cons_other in Hh' by assumption.
              assert (Hin : In t (x :: P'')) by (eapply Jc; eauto; rewrite next_in_col_cons_other; assumption).
              destruct Hin as [<-|Hin]; [|assumption]. apply next_in_col_In in Hn as [_ Hn]. congruence.
        -- intros s n Hsn Hn. apply in_app_or in Hsn as [Hsn|[<-|[]]].
           ++ apply Jst; [assumption|right; assumption].
           ++ apply (sorted_head_min x r Hs n Hn).
    + (* x is not a matched tail, hence not pending *)
      assert (HxP : ~ In x P') by (intro H; destruct (Jsub x H) as (_ & Hm & _); congruence).
      cbn [orb]. unfold emitted.
      assert (Hadv : forall P1, P1 = P' -> (is_head (ty x) = true -> forall t, next_in_col (col x) r = Some t -> is_tail (ty t) = true -> In t P1) -> J S P1 (x :: rp) r).
      { intros P1 -> Hh. eapply J_advance; eauto. }
      destruct (doc_item_cases ph pt rp x r) as [E|[E|(t & E & Hhx & Hnt & Htt)]]; rewrite E.
      * (* dropped orphan: not emitted, nothing pending changes *)
        cbn [app]. apply IH; try assumption. apply Hadv; [reflexivity|].
        intros Hh t Hn Ht. rewrite (doc_item_head_tail ph pt rp x r t Hh Hn Ht) in E. discriminate.
      * (* emitted as a plain note *)
        cbn [app ungroup_go item_head].
        rewrite (pop_before_spec x S P' acc).
        2:{ intros s Hsn. apply Jst; [assumption|left; reflexivity]. }
        2:{ intros t Ht Hlt. destruct (Jsub t Ht) as (Hin & _). destruct Hin as [<-|Hin]; [contradiction|].
            eapply lt_asym; [exact Hlt|]. eapply sorted_head_min; eauto. }
        assert (Hcp : col_pending x P' = false).
        { unfold col_pending. apply not_true_is_false. intro H. apply existsb_exists in H as [t [Ht Heq]].
          destruct (Jsub t Ht) as (Hin & _ & Hn).
          assert (Hc : col t = col x) by (apply Z.eqb_eq in Heq; unfold col; congruence).
          rewrite Hc, next_in_col_cons_same in Hn. inversion Hn; subst. contradiction. }
        rewrite Hcp.
        assert (G : ungroup_go pol (doc_items ph pt (x :: rp) r) P' (x :: rev S ++ acc) =
                    UOk (rev (x :: rev S ++ acc) ++ [] ++ kept ph pt (x :: rp) r)).
        { apply (IH (x :: rp) [] P' (x :: rev S ++ acc)); try assumption.
          assert (HJ' : J S P' (x :: rp) r).
          { apply Hadv; [reflexivity|]. intros Hh t Hn Ht.
            rewrite (doc_item_head_tail ph pt rp x r t Hh Hn Ht) in E. discriminate. }
          destruct HJ' as [a b c d]. constructor; auto. intros s n []. }
        rewrite G. f_equal. cbn [rev app]. rewrite rev_app_distr, rev_involutive, <- !app_assoc. reflexivity.
      * (* emitted as a joined head: its tail becomes pending *)
        cbn [app ungroup_go item_head].
        rewrite (pop_before_spec x S P' acc).
        2:{ intros s Hsn. apply Jst; [assumption|left; reflexivity]. }
        2:{ intros t' Ht Hlt. destruct (Jsub t' Ht) as (Hin & _). destruct Hin as [<-|Hin]; [contradiction|].
            eapply lt_asym; [exact Hlt|]. eapply sorted_head_min; eauto. }
        assert (Hcp : col_pending x P' = false).
        { unfold col_pending. apply not_true_is_false. intro H. apply existsb_exists in H as [t' [Ht Heq]].
          destruct (Jsub t' Ht) as (Hin & _ & Hn).
          assert (Hc : col t' = col x) by (apply Z.eqb_eq in Heq; unfold col; congruence).
          rewrite Hc, next_in_col_cons_same in Hn. inversion Hn; subst. contradiction. }
        rewrite Hcp.
        destruct (next_in_col_In _ _ _ Hnt) as [Htr Htc].
        assert (Hwft : wf t) by (rewrite Forall_forall in Hwf'; apply Hwf'; assumption).
        rewrite (tail_note_id x t Hwfx Hwft Htt Htc).
        assert (G : ungroup_go pol (doc_items ph pt (x :: rp) r) (push_sorted t P') (x :: rev S ++ acc) =
                    UOk (rev (x :: rev S ++ acc) ++ [] ++ kept ph pt (x :: rp) r)).
        { apply (IH (x :: rp) [] (push_sorted t P') (x :: rev S ++ acc)); try assumption.
          assert (HtP : forall y, In y P' -> In y r /\ y <> t).
          { intros y Hy. destruct (Jsub y Hy) as (Hin & _ & Hn). split.
            - destruct Hin as [<-|Hin]; [contradiction|assumption].
            - intros ->. rewrite Htc, next_in_col_cons_same in Hn. inversion Hn; subst. contradiction. }
          constructor.
          - eapply (push_sorted_sorted r); eauto.
          - intros y Hy. apply push_sorted_In in Hy as [->|Hy].
            + split; [assumption|split].
              * unfold matched. rewrite Htt, Htc, next_in_col_cons_same, Hhx. reflexivity.
              * rewrite Htc. assumption.
            + destruct (Jsub y Hy) as (Hin & Hm & Hn).
              assert (Hc : col x <> col y).
              { intro Ec. rewrite <- Ec, next_in_col_cons_same in Hn. inversion Hn; subst. contradiction. }
              split; [apply HtP; assumption|split].
              * rewrite matched_other; assumption.
              * rewrite next_in_col_cons_other in Hn; assumption.
          - intros c h t' Hh' Hhd Hn Ht'. apply push_sorted_In. destruct (Nat.eq_dec (col x) c) as [<-|Hne].
            + left. congruence.
            + right. rewrite next_in_col_cons_other in Hh' by assumption. eapply Jc; eauto.
              rewrite next_in_col_cons_other; assumption.
          - intros s n []. }
        rewrite G. f_equal. cbn [rev app]. rewrite rev_app_distr, rev_involutive, <- !app_assoc. reflexivity.
Qed.

Lemma J_init ns : J [] [] [] ns.
Proof.
  constructor; [constructor|intros t []|intros c h t H; discriminate|intros s n []].
Qed.

End RoundTrip.

(* ---------------------------------------------------------------- corollaries *)
Lemma kept_keep : forall ns rp, kept Keep Keep rp ns = ns.
Proof.
  induction ns as [|x r IH]; intro rp; [reflexivity|]. cbn [kept]. rewrite IH.
  destruct (matched rp x) eqn:M; [reflexivity|]. cbn [orb]. unfold emitted.
  destruct (doc_item_cases Keep Keep rp x r) as [E|[E|(t & E & _)]]; rewrite E; try reflexivity.
  (* [] is impossible with Keep unless matched *)
  exfalso. unfold doc_item, matched in *. destruct (is_tail (ty x)).
  - destruct (next_in_col (col x) rp) as [p|]; [destruct (is_head (ty p)); [discriminate M|]|]; discriminate E.
  - destruct (is_head (ty x)); [|discriminate E].
    destruct (next_in_col (col x) r) as [t|]; [destruct (is_tail (ty t))|]; discriminate E.
Qed.

Lemma ungroup_plain pol : forall ns acc, ungroup_go pol (map Plain ns) [] acc = UOk (rev acc ++ ns).
Proof.
  induction ns as [|x r IH]; intro acc; simpl.
  - rewrite rev_append_rev, app_nil_r. reflexivity.
  - rewrite IH. simpl. rewrite <- app_assoc. reflexivity.
Qed.

Lemma concat_keep_separate (rows : list (list item)) :
  concat (flat_map (add_row KeepSeparate) rows) = concat rows.
Proof.
  induction rows as [|row r IH]; simpl; [reflexivity|]. rewrite concat_app, IH. f_equal.
  apply (proj1 (add_row_keep_separate row)).
Qed.

Lemma concat_join_all (rows : list (list item)) : concat (flat_map (add_row JoinAll) rows) = concat rows.
Proof. induction rows as [|row r IH]; simpl; [reflexivity|]. rewrite IH. reflexivity. Qed.

Lemma SS_filter {A} (R : A -> A -> Prop) f l : StronglySorted R l -> StronglySorted R (filter f l).
Proof.
  induction 1 as [|x r Hs IH Hx]; simpl; [constructor|]. destruct (f x); [|assumption].
  constructor; [assumption|]. rewrite Forall_forall in *. intros y Hy. apply filter_In in Hy as [Hy _]. auto.
Qed.

Lemma Forall_filter {A} (P : A -> Prop) f l : Forall P l -> Forall P (filter f l).
Proof. rewrite !Forall_forall. intros H y Hy. apply filter_In in Hy as [Hy _]. auto. Qed.

Lemma sorted_NoDup ns : StronglySorted lt ns -> NoDup ns.
Proof.
  induction 1 as [|x r Hs IH Hx]; constructor; [|assumption].
  intro Hin. rewrite Forall_forall in Hx. apply (lt_irrefl x). auto.
Qed.

(* group with joining, then ungroup *)
Theorem roundtrip_join p0 types m ph pt pol ns g :
  (m = KeepSeparate \/ m = JoinAll) ->
  StronglySorted lt ns -> Forall (wf p0) ns ->
  group_notes types m true ph pt ns = GOk g ->
  ungroup_notes pol g = UOk (kept ph pt [] (filter (included types) ns)).
Proof.
  intros Hm Hs Hwf Hg.
  rewrite group_notes_spec in Hg by (eapply sorted_NoDup; eauto).
  destruct (spec_err ph pt [] (filter (included types) ns)); [discriminate|]. inversion Hg; subst g. clear Hg.
  unfold ungroup_notes.
  assert (E : concat (flat_map (add_row m) (rows_of (doc_items ph pt [] (filter (included types) ns)))) =
              doc_items ph pt [] (filter (included types) ns)).
  { destruct Hm as [-> | ->]; [rewrite concat_keep_separate|rewrite concat_join_all]; apply rows_of_concat. }
  rewrite E.
  change (@nil note) with (@nil note ++ @nil note) at 2.
  rewrite (ungroup_doc_items p0 pol ph pt (filter (included types) ns) [] [] [] []).
  - reflexivity.
  - apply SS_filter; assumption.
  - apply Forall_filter; assumption.
  - constructor.
  - apply J_init.
Qed.

(* group without joining, then ungroup: exactly the included notes *)
Theorem roundtrip_nojoin types m ph pt pol ns g :
  (m = KeepSeparate \/ m = JoinAll) ->
  group_notes types m false ph pt ns = GOk g -> ungroup_notes pol g = UOk (filter (included types) ns).
Proof.
  intros Hm Hg. unfold group_notes in Hg. inversion Hg; subst g. unfold ungroup_notes.
  assert (E : concat (flat_map (add_row m) (rows_of (map Plain (filter (included types) ns)))) = map Plain (filter (included types) ns)).
  { destruct Hm as [-> | ->]; [rewrite concat_keep_separate|rewrite concat_join_all]; apply rows_of_concat. }
  rewrite E, ungroup_plain. reflexivity.
Qed.

(* pending tails are always strictly ordered: no ties for the heap to break *)
Lemma push_sorted_no_ties p0 ns t p :
  StronglySorted lt ns -> Forall (wf p0) ns -> In t ns -> (forall y, In y p -> In y ns /\ y <> t) ->
  StronglySorted lt p -> StronglySorted lt (push_sorted t p).
Proof. apply push_sorted_sorted. Qed.
