(* C11: queries on beat 0 under the tags WARP and WARP_END.  The key (0, WARP) precedes the key (0, BPM) of the initial
   state, so the list bisect searches is not sorted for it; what bisect returns on ANY list is a boundary of the
   predicate, and every boundary of this predicate selects a state on beat 0 at time -offset. *)
From Coq Require Import List ZArith QArith Bool Lia Lqa Setoid Sorting.Sorted Arith.
From SV Require Import Sx Beat Engine Proofs.EngineFacts Proofs.Hittable Proofs.TimeLaw.
Import ListNotations.
Open Scope Q_scope.

Lemma div2_mid lo hi : (lo < hi)%nat -> (lo <= Nat.div (lo + hi) 2 < hi)%nat.
Proof.
  intro H. split.
  - apply Nat.div_le_lower_bound; lia.
  - apply Nat.div_lt_upper_bound; lia.
Qed.

Section Boundary.
Context {T : Type}.
Variables (lt_x : T -> bool) (l : list T) (d : T).

(* no monotonicity assumed *)
Lemma bisect_go_boundary : forall fuel lo hi, (lo <= hi <= length l)%nat -> (hi - lo < fuel)%nat ->
  let r := bisect_go fuel lt_x l d lo hi in
  (lo <= r <= hi)%nat /\ (r = lo \/ lt_x (nth (r - 1) l d) = false) /\ (r = hi \/ lt_x (nth r l d) = true).
Proof.
  induction fuel as [|f IH]; intros lo hi Hb Hf; [lia|].
  cbn [bisect_go]. destruct (Nat.ltb lo hi) eqn:E.
  - apply Nat.ltb_lt in E. pose proof (div2_mid lo hi E) as Hm. set (mid := Nat.div (lo + hi) 2) in *.
    destruct (lt_x (nth mid l d)) eqn:M.
    + destruct (IH lo mid) as (A & B & C); [lia|lia|]. cbv zeta in *.
      split; [lia|]. split; [exact B|]. destruct C as [C|C]; [right; rewrite C; exact M|right; exact C].
    + destruct (IH (S mid) hi) as (A & B & C); [lia|lia|]. cbv zeta in *.
      split; [lia|]. split; [|exact C]. destruct B as [B|B]; [|right; exact B].
      right. rewrite B. replace (S mid - 1)%nat with mid by lia. exact M.
  - apply Nat.ltb_ge in E. cbv zeta. split; [lia|]. split; left; lia.
Qed.

Lemma bisect_right_boundary :
  let r := bisect_right lt_x l d in
  (r <= length l)%nat /\ (r = 0%nat \/ lt_x (nth (r - 1) l d) = false).
Proof.
  unfold bisect_right. destruct (bisect_go_boundary (S (length l)) 0 (length l)) as (A & B & _); try lia.
  cbv zeta in *. split; [lia|exact B].
Qed.
End Boundary.

Section Zero.
Variables (td : tdata) (b0 v0 : Q) (rest : list (Q * Q)).
Hypothesis D : dom td.
Hypothesis Hbpm : td_bpms td = (b0, v0) :: rest.
Hypothesis Hb0 : b0 == 0.

Let s0 := init_state td v0.
Let es := events td.
Notation St' := (St td v0).

Lemma low_tag_not_end tag : (tag < 2)%Z -> is_end_tag tag = false.
Proof.
  intro H. unfold is_end_tag, tSTOP_END, tDELAY_END.
  destruct (Z.eqb_spec tag 6); [lia|]. destruct (Z.eqb_spec tag 4); [lia|]. reflexivity.
Qed.

(* the state bisect selects for (0, tag), tag below BPM, sits on beat 0 at time -offset *)
Lemma prior_zero_low tag : (tag < 2)%Z ->
  s_time (prior (sts td v0) s0 0 tag) == - td_offset td /\ s_beat (prior (sts td v0) s0 0 tag) == 0.
Proof.
  intro Htag. unfold prior.
  destruct (bisect_right_boundary (key_lt 0 tag) (sts td v0) s0) as (Hr & Hb).
  set (r := bisect_right (key_lt 0 tag) (sts td v0) s0) in *.
  assert (Hlen : length (sts td v0) = S (length es)) by (unfold sts; apply run_states_length).
  assert (E0 : nth 0 (sts td v0) s0 = s0) by (unfold sts; destruct (events td); reflexivity).
  assert (Z0 : s_time s0 == - td_offset td /\ s_beat s0 == 0).
  { unfold s0, init_state. cbn [s_time s_beat]. split; [apply Qred_correct|reflexivity]. }
  destruct r as [|[|i]].
  - cbn [Nat.pred]. rewrite E0. exact Z0.
  - cbn [Nat.pred]. rewrite E0. exact Z0.
  - cbn [Nat.pred]. destruct Hb as [Hb|Hb]; [discriminate|].
    replace (S (S i) - 1)%nat with (S i) in Hb by lia.
    destruct (nth_error es i) as [e|] eqn:Ei; [|apply nth_error_None in Ei; lia].
    destruct (state_of_event es (init_state td v0) s0 i e Ei) as [A0 B0].
    assert (A : s_beat (nth (S i) (sts td v0) s0) = e_beat e) by exact A0.
    assert (B : s_tag (nth (S i) (sts td v0) s0) = e_tag e) by exact B0.
    assert (Hk : ~ klt_ev 0 tag e).
    { intro X. assert (Y : key_lt 0 tag (nth (S i) (sts td v0) s0) = true) by (apply key_lt_spec; rewrite A, B; exact X). congruence. }
    apply not_klt_kle in Hk.
    assert (Hin : In e es) by (eapply nth_error_In; exact Ei).
    pose proof (events_nonneg td D e Hin) as Hnn.
    unfold sts. fold es. rewrite run_states_nth by lia. change (fold_left advance (firstn (S i) es) (init_state td v0)) with (St' (firstn (S i) es)).
    apply (zero_prefix td b0 v0 rest D Hbpm (firstn (S i) es) (skipn (S i) es)); [symmetry; apply firstn_skipn|].
    intros x Hx. apply In_firstn_nth in Hx as [j [Hj Hn]].
    assert (Hxe : kle_ev x (e_beat e) (e_tag e)).
    { destruct (Nat.eq_dec j i) as [->|Hne].
      - assert (x = e) by congruence. subst x. right. split; [reflexivity|lia].
      - apply ev_lt_kle. apply (SS_nth_error ev_slt es (events_strict td D) j i); [lia|exact Hn|exact Ei]. }
    unfold kle_ev in *. unfold tBPM.
    destruct Hk as [K|[K K']]; [lra|]. destruct Hxe as [X|[X X']]; [left; lra|right; split; [lra|lia]].
Qed.

Theorem time_at_zero_low tag : (tag < 2)%Z -> time_at (sts td v0) s0 0 tag == - td_offset td.
Proof.
  intro Htag. destruct (prior_zero_low tag Htag) as [A B]. unfold time_at.
  rewrite Qred_correct, tu_eq, (low_tag_not_end tag Htag), andb_false_r, A, B. ring.
Qed.
End Zero.

Lemma bisect_go_ext {T} (f g : T -> bool) l d : (forall s, f s = g s) ->
  forall fuel lo hi, bisect_go fuel f l d lo hi = bisect_go fuel g l d lo hi.
Proof. intros K. induction fuel as [|n IH]; intros lo hi; [reflexivity|]. cbn [bisect_go]. rewrite K, !IH. reflexivity. Qed.

(* the answer depends on the beat as a rational, not on its representation *)
Lemma time_at_beat_compat sts d b b' t : b == b' -> time_at sts d b t == time_at sts d b' t.
Proof.
  intro Eb. unfold time_at, prior.
  assert (K : forall s, key_lt b t s = key_lt b' t s).
  { intro s. unfold key_lt. rewrite (qlt_compat b b' (s_beat s) (s_beat s) Eb (Qeq_refl _)), (qeq_compat b b' (s_beat s) (s_beat s) Eb (Qeq_refl _)). reflexivity. }
  assert (Kb : bisect_right (key_lt b t) sts d = bisect_right (key_lt b' t) sts d).
  { unfold bisect_right. apply bisect_go_ext. exact K. }
  rewrite Kb, !Qred_correct, !tu_eq, Eb. reflexivity.
Qed.

(* time never decreases as (beat, tag) increases: every pair of keys, every tag, negative beats included *)
Theorem time_at_monotone_full td b0 v0 rest : dom td -> td_bpms td = (b0, v0) :: rest -> b0 == 0 ->
  forall b1 t1 b2 t2, b1 <= b2 -> (b1 == b2 -> (t1 <= t2)%Z) ->
  time_at (sts td v0) (init_state td v0) b1 t1 <= time_at (sts td v0) (init_state td v0) b2 t2.
Proof.
  intros D H E b1 t1 b2 t2 H12 Htag.
  assert (Hv : 0 < v0) by (pose proof (dom_bpm_pos td D) as P; rewrite H in P; inversion P; subst; assumption).
  (* from beat 0 on no time is before -offset *)
  assert (Hge : forall b t, 0 <= b -> - td_offset td <= time_at (sts td v0) (init_state td v0) b t).
  { intros b t Hb. destruct (Qlt_le_dec 0 b) as [Pb|Zb].
    - rewrite <- (time_at_zero td b0 v0 rest D H).
      apply (time_at_monotone_gen td b0 v0 rest D H 0 tBPM b t); [lra|lra|right; unfold tBPM; lia|left; exact Pb|intro Eq; exfalso; lra].
    - assert (Eb : b == 0) by lra. rewrite (time_at_beat_compat _ _ b 0 t Eb).
      destruct (Z_lt_le_dec t 2) as [Lt|Ge].
      + rewrite (time_at_zero_low td b0 v0 rest D H t Lt). lra.
      + rewrite <- (time_at_zero td b0 v0 rest D H).
        apply (time_at_monotone_gen td b0 v0 rest D H 0 tBPM 0 t); [lra|lra|right; unfold tBPM; lia|right; exact Ge|intros _; unfold tBPM; exact Ge]. }
  destruct (Qlt_le_dec b1 0) as [N1|N1].
  - rewrite (time_before_zero td v0 D b1 t1 N1).
    destruct (Qlt_le_dec b2 0) as [N2|N2].
    + rewrite (time_before_zero td v0 D b2 t2 N2).
      assert (b1 * 60 / v0 <= b2 * 60 / v0); [|lra].
      unfold Qdiv. apply Qmult_le_compat_r; [lra|]. apply Qlt_le_weak, Qinv_lt_0_compat. exact Hv.
    + apply Qle_trans with (- td_offset td); [|apply Hge; exact N2].
      assert (b1 * 60 / v0 <= 0); [|lra].
      unfold Qdiv. setoid_replace 0 with (0 * / v0) by ring. apply Qmult_le_compat_r; [lra|]. apply Qlt_le_weak, Qinv_lt_0_compat. exact Hv.
  - destruct (Qlt_le_dec 0 b1) as [P1|Z1].
    + apply (time_at_monotone_gen td b0 v0 rest D H b1 t1 b2 t2); [lra|lra|left; exact P1|left; lra|exact Htag].
    + destruct (Z_lt_le_dec t1 2) as [Lt|Ge].
      * assert (Eb : b1 == 0) by lra. rewrite (time_at_beat_compat _ _ b1 0 t1 Eb), (time_at_zero_low td b0 v0 rest D H t1 Lt).
        apply Hge. lra.
      * apply (time_at_monotone_gen td b0 v0 rest D H b1 t1 b2 t2); [lra|lra|right; exact Ge| |exact Htag].
        destruct (Qlt_le_dec 0 b2) as [P2|Z2]; [left; exact P2|right]. assert (Eb : b1 == b2) by lra. specialize (Htag Eb). lia.
Qed.

(* ---- negative beats: the search clamps to the initial state ---- *)
Lemma prior_negative td v0 b tag : dom td -> b < 0 -> prior (sts td v0) (init_state td v0) b tag = init_state td v0.
Proof.
  intros D Hb. set (s0 := init_state td v0).
  assert (Hall : forall i, (i < length (sts td v0))%nat -> key_lt b tag (nth i (sts td v0) s0) = true).
  { intros i Hi. apply key_lt_spec. left. destruct i as [|i].
    - assert (E0 : nth 0 (sts td v0) s0 = s0) by (unfold sts; destruct (events td); reflexivity). rewrite E0. unfold s0, init_state. simpl. exact Hb.
    - unfold sts in Hi. rewrite run_states_length in Hi.
      destruct (nth_error (events td) i) as [e|] eqn:E; [|apply nth_error_None in E; lia].
      destruct (state_of_event (events td) (init_state td v0) s0 i e E) as [A _].
      assert (A' : s_beat (nth (S i) (sts td v0) s0) = e_beat e) by exact A. rewrite A'.
      pose proof (events_nonneg td D e (nth_error_In _ _ E)). lra. }
  destruct (bisect_right_boundary (key_lt b tag) (sts td v0) s0) as (Hr & Hbd).
  unfold prior. fold s0. destruct (bisect_right (key_lt b tag) (sts td v0) s0) as [|r] eqn:Er.
  - cbn [Nat.pred]. unfold sts. destruct (events td); reflexivity.
  - exfalso. destruct Hbd as [X|X]; [discriminate|]. rewrite Hall in X; [discriminate|lia].
Qed.

Theorem hittable_negative td v0 b : dom td -> b < 0 -> hittable (sts td v0) (init_state td v0) b = true.
Proof. intros D Hb. unfold hittable. rewrite (prior_negative td v0 b tSTOP_END D Hb). reflexivity. Qed.

(* hittability on every beat, negative ones included *)
Theorem hittable_iff_all td v0 b : dom td -> (exists rest, td_bpms td = (0, v0) :: rest) ->
  (hittable (sts td v0) (init_state td v0) b = false <-> (in_raw (td_warps td) b /\ ~ pause_on td b)).
Proof.
  intros D Hbpm. destruct (Qlt_le_dec b 0) as [N|P].
  - rewrite (hittable_negative td v0 b D N). split; [discriminate|]. intros [(s & l & Hin & Hs & _) _]. exfalso.
    pose proof (dom_nonneg td D) as Hnn. rewrite Forall_forall in Hnn.
    assert (0 <= fst (s, l)) by (apply Hnn; apply in_or_app; right; apply in_or_app; right; apply in_or_app; right; exact Hin).
    simpl in H. lra.
  - exact (hittable_iff td v0 b D Hbpm P).
Qed.
