(* String facts used by the simfile round-trip proofs. *)
From Coq Require Import List NArith ZArith Bool Lia.
From SV Require Import Sx Str.
Import ListNotations.
Open Scope N_scope.

Lemma split_go_nonempty sep s cur : split_go sep s cur <> [].
Proof. revert cur. induction s as [|c r IH]; intro cur; simpl; [discriminate|]. destruct (c =? sep); [discriminate|apply IH]. Qed.

Lemma join_cons2 sep x y r : join sep (x :: y :: r) = x ++ sep ++ join sep (y :: r).
Proof. reflexivity. Qed.

Lemma join_split_go sep s : forall cur, join [sep] (split_go sep s cur) = rev cur ++ s.
Proof.
  induction s as [|c r IH]; intro cur; simpl.
  - rewrite rev_append_rev, !app_nil_r. reflexivity.
  - destruct (c =? sep) eqn:E.
    + apply N.eqb_eq in E. subst c.
      destruct (split_go sep r []) as [|y ys] eqn:S; [exfalso; eapply split_go_nonempty; eauto|].
      rewrite join_cons2, <- S, IH, rev_append_rev, app_nil_r. reflexivity.
    + rewrite IH. simpl. rewrite <- app_assoc. reflexivity.
Qed.

(* ":".join(v.split(":")) == v *)
Lemma join_split sep s : join [sep] (split_on sep s) = s.
Proof. unfold split_on. rewrite join_split_go. reflexivity. Qed.

Lemma split_on_nonempty sep s : exists x r, split_on sep s = x :: r.
Proof. unfold split_on. destruct (split_go sep s []) eqn:E; [exfalso; eapply split_go_nonempty; eauto|eauto]. Qed.

(* ---- strip ---- *)
Lemma lstrip_space c s : is_space c = true -> lstrip (c :: s) = lstrip s.
Proof. intro H. simpl. rewrite H. reflexivity. Qed.

Lemma rstrip_go_snoc c : is_space c = true -> forall s p, rstrip_go (s ++ [c]) p = rstrip_go s p.
Proof.
  intros Hc. induction s as [|x s IH]; intro p; simpl.
  - rewrite Hc. reflexivity.
  - destruct (is_space x); [apply IH|]. rewrite IH. reflexivity.
Qed.

Lemma rstrip_snoc c s : is_space c = true -> rstrip (s ++ [c]) = rstrip s.
Proof. intro H. unfold rstrip. apply rstrip_go_snoc. assumption. Qed.

Lemma strip_snoc c s : is_space c = true -> strip (s ++ [c]) = strip s.
Proof.
  intro H. unfold strip. induction s as [|x s IH]; simpl.
  - rewrite H. reflexivity.
  - destruct (is_space x); [exact IH|]. change (x :: s ++ [c]) with ((x :: s) ++ [c]). apply rstrip_snoc. assumption.
Qed.

Lemma strip_cons_space c s : is_space c = true -> strip (c :: s) = strip s.
Proof. intro H. unfold strip. rewrite lstrip_space by assumption. reflexivity. Qed.

(* "\n" + notes + "\n" strips back to the notes *)
Lemma strip_nl_wrap n : strip ([10] ++ n ++ [10]) = strip n.
Proof. simpl. rewrite strip_cons_space by reflexivity. apply strip_snoc. reflexivity. Qed.

(* "\n     " + field strips back to the field *)
Lemma strip_pad5 f : strip ([10; 32; 32; 32; 32; 32] ++ f) = strip f.
Proof. simpl. rewrite !strip_cons_space by reflexivity. reflexivity. Qed.
