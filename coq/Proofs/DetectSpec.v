(* C03: which part of a file name decides the format.  [suffix_go] walks the lowered name once; these lemmas
   characterise it against the plain statement "the text after the last dot, or the whole name when it has none". *)
From Coq Require Import List NArith Bool.
From SV Require Import Sx Str Omap Msd Simfile.
Import ListNotations.
Open Scope N_scope.

Lemma suffix_go_nodot : forall s cur, ~ List.In 46 s -> suffix_go s cur = rev cur ++ s.
Proof.
  induction s as [|c r IH]; intros cur H; cbn [suffix_go].
  - apply rev_append_rev.
  - destruct (c =? 46) eqn:E.
    + apply N.eqb_eq in E. subst c. exfalso. apply H. left. reflexivity.
    + rewrite IH by (intro X; apply H; right; exact X). cbn [rev]. rewrite <- app_assoc. reflexivity.
Qed.

Lemma suffix_go_last_dot : forall pre suf cur, ~ List.In 46 suf -> suffix_go (pre ++ 46 :: suf) cur = suf.
Proof.
  induction pre as [|c r IH]; intros suf cur H.
  - cbn [app suffix_go]. rewrite N.eqb_refl. rewrite suffix_go_nodot by exact H. reflexivity.
  - cbn [app suffix_go]. destruct (c =? 46); apply IH; exact H.
Qed.

Definition fmt_of_suffix (suf : str) : option fmt :=
  if str_eqb suf sSSC then Some FSSC else if str_eqb suf sSM then Some FSM else None.

Lemma detect_by_last_dot : forall name pre suf, lower name = pre ++ 46 :: suf -> ~ List.In 46 suf ->
  detect_by_name name = fmt_of_suffix suf.
Proof. intros name pre suf E H. unfold detect_by_name. rewrite E, suffix_go_last_dot by exact H. reflexivity. Qed.

Lemma detect_dotless : forall name, ~ List.In 46 (lower name) -> detect_by_name name = fmt_of_suffix (lower name).
Proof. intros name H. unfold detect_by_name. rewrite suffix_go_nodot by exact H. reflexivity. Qed.
