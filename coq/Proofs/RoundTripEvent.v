(* C12: beat -> time -> beat (default tag) for a beat on which events sit, outside the warp union. *)
From Coq Require Import List ZArith QArith Bool Lia Lqa Setoid Sorting.Sorted Arith.
From SV Require Import Sx Beat Engine Proofs.EngineFacts Proofs.Hittable Proofs.TimeLaw Proofs.BeatAt Proofs.WarpElapse.
Import ListNotations.
Open Scope Q_scope.

(* a time-sorted list splits into the states strictly before the time of its last state and those at that time *)
Lemma sorted_last_split : forall (L : list state) (x : state), times_sorted (L ++ [x]) ->
  exists pre run, L ++ [x] = pre ++ run ++ [x] /\ (forall y, In y pre -> s_time y < s_time x) /\ (forall y, In y run -> s_time y == s_time x).
Proof.
  induction L as [|a L IH]; intros x H.
  - exists [], []. repeat split; intros ? [].
  - cbn [app] in H. inversion H as [|? ? H' Ha]; subst. rewrite Forall_forall in Ha.
    destruct (IH x H') as (pre & run & E & Hpre & Hrun).
    assert (Hax : s_time a <= s_time x) by (apply Ha; apply in_or_app; right; left; reflexivity).
    destruct (Qlt_le_dec (s_time a) (s_time x)) as [L1|L1].
    + destruct pre as [|p pre'].
      * (* everything after a is at the time of x; a is strictly before *)
        exists [a], run. cbn [app] in *. rewrite E. repeat split; [|exact Hrun]. intros y [<-|[]]. exact L1.
      * exists (a :: p :: pre'), run. cbn [app] in *. rewrite E. repeat split; [|exact Hrun]. intros y [<-|Hy]; [exact L1|apply Hpre; exact Hy].
    + (* a is at the time of x: then so is everything after it *)
      assert (Eax : s_time a == s_time x) by lra.
      exists [], (a :: L). cbn [app]. repeat split; [intros ? []|]. intros y [<-|Hy]; [exact Eax|].
      assert (s_time a <= s_time y) by (apply Ha; apply in_or_app; left; exact Hy).
      assert (s_time y <= s_time x).
      { apply SS_app_inv in H' as (_ & _ & C). apply C; [exact Hy|left; reflexivity]. }
      lra.
Qed.

Section OnEvent.
Variables (td : tdata) (b0 v0 : Q) (rest : list (Q * Q)).
Hypothesis D : dom td.
Hypothesis Hbpm : td_bpms td = (b0, v0) :: rest.
Hypothesis Hb0 : b0 == 0.
(* stops have a positive length *)
Hypothesis Hstops : forall r, In r (td_stops td) -> 0 < snd r.

Let es := events td.
Let s0 := init_state td v0.
Notation St' := (St td v0).

Theorem roundtrip_on_event_beat (b : Q) :
  0 <= b -> ~ in_raw (td_warps td) b ->
  ((exists e, In e es /\ e_beat e == b /\ (e_tag e <= 5)%Z) \/ b == 0) ->
  fst (beat_at_raw (sts td v0) s0 (time_at (sts td v0) s0 b tSTOP) tSTOP) == b.
Proof.
  intros Hb Hnw Hev.
  destruct (time_at_cut td b0 v0 rest D Hbpm b tSTOP Hb) as (P & R & E & HP & HR & T); [unfold tSTOP; lia|]. fold es in E.
  set (s := St' P) in *.
  (* the selected state sits on beat b, with a tag up to STOP *)
  assert (Hs : s_beat s == b /\ (s_tag s <= 5)%Z).
  { destruct P as [|p0 P0] eqn:EP.
    - unfold s, St, init_state. cbn [fold_left s_beat s_tag]. split; [|unfold tBPM; lia].
      destruct Hev as [(e & He & Heb & Het)|Hz]; [|symmetry; exact Hz]. exfalso.
      simpl in E. rewrite E in He. apply (kle_not_klt e b tSTOP); [right; split; [exact Heb|exact Het]|apply HR; exact He].
    - destruct (last_of_nonempty (p0 :: P0)) as (P' & q & EPq); [discriminate|]. rewrite EPq in *.
      unfold s. rewrite ?EPq. rewrite St_last. cbn [advance s_beat s_tag].
      assert (Hq : kle_ev q b tSTOP) by (apply HP; apply in_or_app; right; left; reflexivity).
      assert (Hqb : e_beat q == b).
      { destruct Hev as [(e & He & Heb & Het)|Hz].
        - assert (HeP : In e (P' ++ [q])).
          { rewrite E in He. apply in_app_or in He as [X|X]; [exact X|]. exfalso.
            apply (kle_not_klt e b tSTOP); [right; split; [exact Heb|exact Het]|apply HR; exact X]. }
          pose proof (kle_beat _ _ _ Hq) as Lq.
          apply in_app_or in HeP as [X|[X|[]]]; [|subst e; exact Heb].
          assert (E2 : es = P' ++ q :: R) by (rewrite E, <- app_assoc; reflexivity).
          destruct (split_strict td D P' q R E2) as (A & _ & _). specialize (A e X). apply ev_slt_ge, ev_ge_beat in A. lra.
        - pose proof (kle_beat _ _ _ Hq) as Lq.
          assert (In q (events td)) by (fold es; rewrite E; apply in_or_app; left; apply in_or_app; right; left; reflexivity).
          pose proof (events_nonneg td D q H). lra. }
      split; [exact Hqb|]. destruct Hq as [X|[_ X]]; [lra|exact X]. }
  destruct Hs as [Hsb Hst].
  assert (ET : time_at (sts td v0) s0 b tSTOP == s_time s) by (transitivity (Ecut s b); [exact T|unfold Ecut; rewrite Hsb; ring]).
  rewrite (beat_at_raw_compat _ _ _ _ tSTOP ET).
  (* the state list around s *)
  set (L := removelast (run_states s0 P)).
  assert (HL : run_states s0 P = L ++ [s]) by (unfold L; apply run_states_last).
  assert (Hsts : sts td v0 = (L ++ [s]) ++ tl (run_states s R)).
  { unfold sts. fold es. fold s0. rewrite E, run_states_app. fold L. change (fold_left advance P s0) with s.
    rewrite <- app_assoc. cbn [app]. f_equal. destruct R; reflexivity. }
  assert (Hsorted : times_sorted (sts td v0)) by (apply (states_monotone td); [exact D|apply (states_is_sts td b0 v0 rest Hbpm Hb0)]).
  assert (HLs : times_sorted (L ++ [s])) by (rewrite Hsts in Hsorted; apply SS_app_inv in Hsorted as (A & _); exact A).
  destruct (sorted_last_split L s HLs) as (pre & run & Esplit & Hpre & Hrun).
  assert (Hpost : forall y, In y (tl (run_states s R)) -> s_time s < s_time y).
  { destruct R as [|r R'] eqn:ER; [intros y []|]. cbn [run_states tl]. intros y Hy.
    assert (Ee : es = P ++ r :: R') by exact E.
    assert (Hhd : s_time s < s_time (advance s r)).
    { pose proof (step_time td b0 v0 rest D Hbpm P r R' Ee) as S1. rewrite St_last in S1. fold s in S1. rewrite S1.
      pose proof (end_val_nonneg td b0 v0 rest D Hbpm P r R' Ee) as Pv.
      destruct (St_ok td b0 v0 rest D Hbpm P (r :: R') Ee) as [Hbp _]. fold s in Hbp.
      destruct (HR r (or_introl eq_refl)) as [Lr|[Er Lt]].
      - (* the next event is on a later beat: time moves on at a positive rate *)
        assert (Hw : s_warp s = false).
        { destruct (s_warp s) eqn:W; [|reflexivity]. exfalso. apply Hnw.
          apply (warp_flag_at td v0 D P (r :: R') b Ee); [intros y0 Hy0; apply (kle_beat _ _ _ (HP y0 Hy0))| |exact W].
          intros y0 [<-|Hy0]; [exact Lr|]. destruct (split_strict td D P r R' Ee) as (_ & SR & _). specialize (SR y0 Hy0).
          apply ev_slt_ge, ev_ge_beat in SR. lra. }
        unfold state_rate. rewrite Hw. assert (0 < 60 / s_bpm s) by (apply Qlt_shift_div_l; [exact Hbp|lra]). nra.
      - (* the next event is the STOP_END on this beat: the stop's length passes *)
        assert (Hr6 : e_tag r = tSTOP_END).
        { assert (Hrin : In r es) by (rewrite Ee; apply in_or_app; right; left; reflexivity).
          destruct (tag_cases td b0 v0 rest Hbpm r Hrin) as [X|[X|[X|[X|[X|[X|X]]]]]]; rewrite X in Lt; unfold tSTOP, tWARP, tWARP_END, tBPM, tDELAY, tDELAY_END in Lt; try lia; exact X. }
        assert (Hval : 0 < e_val r).
        { assert (Hrin : In r es) by (rewrite Ee; apply in_or_app; right; left; reflexivity).
          assert (Ht : In r (tagged tSTOP_END (td_stops td))) by (apply (in_tagged_of_tag td b0 v0 rest Hbpm r tSTOP_END _ Hrin Hr6); tauto).
          apply tagged_In' in Ht as (row & Hrow & ->). cbn [mkev e_val]. apply Hstops. exact Hrow. }
        rewrite Hr6. change (is_end_tag tSTOP_END) with true. cbv iota.
        assert (Z : (e_beat r - s_beat s) * state_rate s == 0) by (assert (e_beat r - s_beat s == 0) by lra; rewrite H; ring).
        rewrite Z. lra. }
    rewrite Hsts in Hsorted. apply SS_app_inv in Hsorted as (_ & B & _). cbn [run_states tl] in B.
    destruct R' as [|r2 R2]; cbn [run_states] in Hy, B.
    - destruct Hy as [<-|[]]. exact Hhd.
    - destruct Hy as [<-|Hy]; [exact Hhd|]. inversion B as [|? ? _ Hall]; subst. rewrite Forall_forall in Hall.
      specialize (Hall y Hy). cbv beta in Hall. lra. }
  rewrite Hsts, Esplit.
  replace (pre ++ run ++ [s]) with (pre ++ (run ++ s :: []) ++ []) by (rewrite app_nil_r; reflexivity).
  rewrite <- app_assoc. rewrite <- (app_assoc (run ++ [s]) [] _). cbn [app].
  rewrite (beat_at_on_state_time pre run s [] (tl (run_states s R)) s0 (s_time s) tSTOP); [exact Hsb|exact Hpre| |exact Hpost|exact Hst|intros y []].
  intros y Hy. apply in_app_or in Hy as [Hy|[<-|[]]]; [apply Hrun; exact Hy|reflexivity].
Qed.
End OnEvent.
