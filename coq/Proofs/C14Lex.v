(* C14, lexical layer: the three-decimal text of a tick reads back as that tick (string level). *)
From Coq Require Import List ZArith NArith Bool Lia DecimalN DecimalFacts DecimalPos.
From SV Require Import Sx Str Beat Proofs.C14 Proofs.StrFacts Proofs.LoadFacts.
Import ListNotations.
Open Scope Z_scope.

(* ---- digits ---- *)
Lemma str_of_uint_digits u : forallb is_digit (str_of_uint u) = true.
Proof. induction u; simpl; try rewrite IHu; reflexivity. Qed.
Lemma digits_of_N_digits n : forallb is_digit (digits_of_N n) = true.
Proof. apply str_of_uint_digits. Qed.

Lemma digit_not_space c : is_digit c = true -> is_space c = false.
Proof.
  unfold is_digit. intro H. apply andb_prop in H as [H1 H2]. apply N.leb_le in H1. apply N.leb_le in H2.
  unfold is_space, space_points. simpl.
  repeat match goal with |- context [N.eqb c ?k] => let E := fresh in destruct (N.eqb c k) eqn:E; [apply N.eqb_eq in E; lia|] end.
  reflexivity.
Qed.
Lemma digit_not_dot c : is_digit c = true -> N.eqb c 46 = false.
Proof. unfold is_digit. intro H. apply andb_prop in H as [H1 H2]. apply N.leb_le in H1. apply N.eqb_neq. lia. Qed.

Lemma repeat_c_digits k : forallb is_digit (repeat_c 48 k) = true.
Proof. induction k; simpl; [reflexivity|exact IHk]. Qed.
Lemma zpad_digits w s : forallb is_digit s = true -> forallb is_digit (zpad w s) = true.
Proof. intro H. unfold zpad. rewrite forallb_app, repeat_c_digits, H. reflexivity. Qed.

Lemma take_drop k (s : str) : take k s ++ drop k s = s.
Proof. revert s. induction k as [|k IH]; intros [|c r]; simpl; try reflexivity. rewrite IH. reflexivity. Qed.
Lemma forallb_take (f : N -> bool) k s : forallb f s = true -> forallb f (take k s) = true.
Proof. revert s. induction k as [|k IH]; intros [|c r] H; simpl in *; try reflexivity. apply andb_prop in H as [A B]. rewrite A, (IH r B). reflexivity. Qed.
Lemma forallb_drop (f : N -> bool) k s : forallb f s = true -> forallb f (drop k s) = true.
Proof. revert s. induction k as [|k IH]; intros [|c r] H; simpl in *; try reflexivity; try exact H. apply andb_prop in H as [A B]. apply IH. exact B. Qed.
Lemma length_drop k (s : str) : length (drop k s) = (length s - k)%nat.
Proof. revert s. induction k as [|k IH]; intros [|c r]; simpl; try lia. apply IH. Qed.
Lemma length_take k (s : str) : (k <= length s)%nat -> length (take k s) = k.
Proof. revert s. induction k as [|k IH]; intros [|c r] H; simpl in *; try lia. rewrite IH; lia. Qed.

Lemma repeat_c_length c k : length (repeat_c c k) = k.
Proof. induction k; simpl; congruence. Qed.
Lemma zpad_length w s : (w <= length (zpad w s))%nat.
Proof. unfold zpad. rewrite List.app_length, repeat_c_length. lia. Qed.

(* leading zeros do not change the number *)
Lemma uint_of_str_zeros k s u : uint_of_str s = Some u ->
  exists u', uint_of_str (repeat_c 48 k ++ s) = Some u' /\ N.of_uint u' = N.of_uint u.
Proof.
  intro H. induction k as [|k IH]; simpl; [eauto|]. destruct IH as (u' & E & Hn). rewrite E. exists (Decimal.D0 u'). split; [reflexivity|].
  rewrite <- Hn. reflexivity.
Qed.

Lemma N_of_digits_zpad w n : N_of_digits (zpad w (digits_of_N n)) = Some n.
Proof.
  unfold zpad, N_of_digits.
  destruct (uint_of_str_zeros (w - length (digits_of_N n)) (digits_of_N n) (N.to_uint n) (uint_of_str_of_uint _)) as (u' & E & Hn).
  destruct (repeat_c 48 (w - length (digits_of_N n)) ++ digits_of_N n) as [|c r] eqn:X.
  - exfalso. apply List.app_eq_nil in X as [_ X]. revert X. apply str_of_uint_nonnil.
  - rewrite E. f_equal. rewrite Hn. apply DecimalN.Unsigned.of_to.
Qed.

(* ---- split on the dot ---- *)
Lemma split_go_nodot s : forall cur, forallb is_digit s = true -> split_go 46 s cur = [rev_append cur [] ++ s].
Proof.
  induction s as [|c r IH]; intros cur H; simpl.
  - rewrite List.app_nil_r. reflexivity.
  - simpl in H. apply andb_prop in H as [A B]. rewrite (digit_not_dot c A). rewrite IH by exact B.
    rewrite !rev_append_rev. cbn [rev]. rewrite !List.app_nil_r, <- List.app_assoc. reflexivity.
Qed.

Lemma split_dot ip fp : forallb is_digit ip = true -> forallb is_digit fp = true ->
  split_on 46 (ip ++ 46%N :: fp) = [ip; fp].
Proof.
  intros Hi Hf. unfold split_on.
  assert (G : forall cur, split_go 46 (ip ++ 46%N :: fp) cur = (rev_append cur [] ++ ip) :: split_go 46 fp []).
  { induction ip as [|c r IH]; intro cur; simpl.
    - rewrite List.app_nil_r. reflexivity.
    - simpl in Hi. apply andb_prop in Hi as [A B]. rewrite (digit_not_dot c A), (IH B). rewrite !rev_append_rev. cbn [rev]. rewrite !List.app_nil_r, <- List.app_assoc. reflexivity. }
  rewrite G, split_go_nodot by exact Hf. reflexivity.
Qed.

(* ---- strip leaves text without blanks at its ends alone ---- *)
Lemma rstrip_nonspace_end s c : is_space c = false -> rstrip (s ++ [c]) = s ++ [c].
Proof.
  intro H. rewrite rstrip_spec, List.rev_app_distr. simpl. rewrite H. simpl. rewrite List.rev_involutive. reflexivity.
Qed.

Lemma strip_id c s d : is_space c = false -> is_space d = false -> strip (c :: s ++ [d]) = c :: s ++ [d].
Proof.
  intros Hc Hd. unfold strip. simpl. rewrite Hc. change (c :: s ++ [d]) with ((c :: s) ++ [d]). apply rstrip_nonspace_end. exact Hd.
Qed.

(* ---- the fixed-point text ---- *)
Lemma fixed_point_shape c : exists ip fp,
  fixed_point c 3 = ip ++ 46%N :: fp /\ forallb is_digit ip = true /\ forallb is_digit fp = true /\
  length fp = 3%nat /\ ip <> [] /\ N_of_digits (ip ++ fp) = Some c.
Proof.
  unfold fixed_point. set (ds := zpad 4 (digits_of_N c)).
  assert (Hd : forallb is_digit ds = true) by (apply zpad_digits, digits_of_N_digits).
  assert (Hl : (4 <= length ds)%nat) by apply zpad_length.
  exists (take (length ds - 3) ds), (drop (length ds - 3) ds). repeat split.
  - apply forallb_take. exact Hd.
  - apply forallb_drop. exact Hd.
  - rewrite length_drop. lia.
  - intro E. apply (f_equal (@length N)) in E. rewrite length_take in E by lia. simpl in E. lia.
  - rewrite take_drop. apply N_of_digits_zpad.
Qed.

Definition parse_body (nb : bool * str) : rd (bool * N * nat) :=
  let '(neg, body) := nb in
  match split_on 46%N body with
  | [ip] =>
      if all_digits ip then
        match N_of_digits ip with Some c => Got (neg, c, O) | None => ErrValue end
      else Unmodelled
  | [ip; fp] =>
      if all_digits ip && all_digits fp then
        match N_of_digits (ip ++ fp) with
        | Some c => Got (neg, c, length fp)
        | None => ErrValue
        end
      else Unmodelled
  | _ => Unmodelled
  end.
Lemma parse_plain_unfold s0 : parse_plain s0 =
  parse_body (match strip s0 with 45%N :: r => (true, r) | 43%N :: r => (false, r) | _ => (false, strip s0) end).
Proof. reflexivity. Qed.
Lemma parse_body_fixed neg ip fp c : forallb is_digit ip = true -> forallb is_digit fp = true ->
  N_of_digits (ip ++ fp) = Some c -> length fp = 3%nat -> parse_body (neg, ip ++ 46%N :: fp) = Got (neg, c, 3%nat).
Proof.
  intros Hi Hf Hn Hl. unfold parse_body. rewrite split_dot by assumption. unfold all_digits. rewrite Hi, Hf. cbn [andb]. rewrite Hn, Hl. reflexivity.
Qed.

Lemma sign_digit i0 (r : str) : is_digit i0 = true ->
  match i0 :: r with 45%N :: r' => (true, r') | 43%N :: r' => (false, r') | _ => (false, i0 :: r) end = (false, i0 :: r).
Proof.
  intro H. destruct i0 as [|p]; [discriminate|].
  repeat (destruct p as [p|p|]; try reflexivity; try discriminate).
Qed.

Lemma parse_plain_fixed (c : N) (neg : bool) :
  parse_plain ((if neg then [45%N] else @nil N) ++ fixed_point c 3) = Got (neg, c, 3%nat).
Proof.
  destruct (fixed_point_shape c) as (ip & fp & E & Hi & Hf & Hl & Hne & Hn). rewrite E.
  (* last character: a digit *)
  destruct (exists_last (l := fp)) as (fp' & d & Efp); [destruct fp; [discriminate|discriminate]|].
  assert (Hdd : is_digit d = true) by (rewrite Efp, forallb_app in Hf; apply andb_prop in Hf as [_ X]; simpl in X; apply andb_prop in X as [X _]; exact X).
  destruct ip as [|i0 ip']; [congruence|].
  assert (Hi0 : is_digit i0 = true) by (simpl in Hi; apply andb_prop in Hi as [X _]; exact X).
  rewrite parse_plain_unfold.
  assert (Hstrip : strip ((if neg then [45%N] else @nil N) ++ (i0 :: ip') ++ 46%N :: fp) = (if neg then [45%N] else @nil N) ++ (i0 :: ip') ++ 46%N :: fp).
  { rewrite Efp. assert (Ea : (i0 :: ip') ++ 46%N :: fp' ++ [d] = (i0 :: ip' ++ 46%N :: fp') ++ [d]).
    { simpl. f_equal. rewrite <- List.app_assoc. reflexivity. }
    rewrite Ea. destruct neg; cbn [app].
    - apply (strip_id 45%N (i0 :: ip' ++ 46%N :: fp') d); [reflexivity|apply digit_not_space; exact Hdd].
    - apply (strip_id i0 (ip' ++ 46%N :: fp') d); apply digit_not_space; assumption. }
  rewrite Hstrip. destruct neg.
  - change ([45%N] ++ (i0 :: ip') ++ 46%N :: fp) with (45%N :: (i0 :: ip') ++ 46%N :: fp). cbv beta iota.
    apply parse_body_fixed; assumption.
  - refine (eq_trans (f_equal parse_body (sign_digit i0 (ip' ++ 46%N :: fp) Hi0)) _).
    apply (parse_body_fixed false (i0 :: ip') fp c); assumption.
Qed.

(* writing a tick with three decimals and reading it back, at the level of strings *)
Theorem show3_reads_back t : beat_from_str (show3 t) = Got t.
Proof.
  unfold beat_from_str, show3. set (m := thousandths t).
  rewrite (parse_plain_fixed (Z.to_N (Z.abs m)) (m <? 0)).
  f_equal. change (pow10 3) with 1000.
  assert (E : (if m <? 0 then - Z.of_N (Z.to_N (Z.abs m)) else Z.of_N (Z.to_N (Z.abs m))) = m).
  { destruct (m <? 0) eqn:X; rewrite Z2N.id by lia; [apply Z.ltb_lt in X|apply Z.ltb_ge in X]; lia. }
  rewrite E. apply thousandths_roundtrip.
Qed.
