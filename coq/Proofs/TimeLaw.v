(* C11: the closed form of beat -> time, as an anchor plus an interval law.
   Part 1: the merged event list is strictly sorted by (beat, tag). *)
From Coq Require Import List ZArith QArith Bool Lia Lqa Setoid Sorting.Sorted Arith.
From SV Require Import Sx Beat Engine Proofs.EngineFacts Proofs.Hittable.
Import ListNotations.
Open Scope Q_scope.

Definition ev_slt (a b : ev) : Prop := ev_lt a b = true.

Lemma ev_lt_spec a b : ev_lt a b = true <-> e_beat a < e_beat b \/ (e_beat a == e_beat b /\ (e_tag a < e_tag b)%Z).
Proof.
  unfold ev_lt. rewrite orb_true_iff, andb_true_iff, qlt_spec, qeq_spec, Z.ltb_lt. tauto.
Qed.

Lemma ev_lt_trans a b c : ev_lt a b = true -> ev_lt b c = true -> ev_lt a c = true.
Proof.
  rewrite !ev_lt_spec. intros [H1|[H1 H1']] [H2|[H2 H2']].
  - left. lra.
  - left. lra.
  - left. lra.
  - right. split; [lra|lia].
Qed.

Lemma ev_lt_total a b : ev_lt a b = false -> ev_lt b a = true \/ (e_beat a == e_beat b /\ e_tag a = e_tag b).
Proof.
  intro H. destruct (ev_lt b a) eqn:E; [left; reflexivity|right].
  apply ev_lt_false_key in H. apply ev_lt_false_key in E.
  destruct H as [H|[H H']]; destruct E as [E|[E E']]; try lra. split; [lra|lia].
Qed.

Lemma ev_slt_ge a b : ev_slt a b -> ev_ge a b.
Proof. apply ev_lt_asym. Qed.

Lemma merge2_strict : forall fuel a b, (length a + length b <= fuel)%nat ->
  StronglySorted ev_slt a -> StronglySorted ev_slt b ->
  (forall x y, In x a -> In y b -> e_tag x <> e_tag y) ->
  StronglySorted ev_slt (merge2 fuel a b).
Proof.
  induction fuel as [|f IH]; intros a b Hlen Ha Hb Hd.
  - destruct a, b; simpl in *; try lia. constructor.
  - destruct a as [|x a']; [simpl; exact Hb|]. destruct b as [|y b']; [simpl; exact Ha|].
    cbn [merge2]. inversion Ha as [|? ? Ha' Hxa]; subst. inversion Hb as [|? ? Hb' Hyb]; subst.
    rewrite Forall_forall in Hxa, Hyb.
    destruct (ev_lt y x) eqn:E.
    + constructor.
      * apply IH; [simpl in *; lia|exact Ha|exact Hb'|]. intros u v Hu Hv. apply Hd; [exact Hu|right; exact Hv].
      * apply Forall_forall. intros z Hz. apply merge2_In in Hz as [Hz|Hz].
        -- destruct Hz as [<-|Hz]; [exact E|]. eapply ev_lt_trans; [exact E|apply Hxa; exact Hz].
        -- apply Hyb. exact Hz.
    + assert (Hxy : ev_lt x y = true).
      { apply ev_lt_total in E as [E|[_ E]]; [exact E|]. exfalso. apply (Hd x y); [left; reflexivity|left; reflexivity|]. symmetry. exact E. }
      constructor.
      * apply IH; [simpl in *; lia|exact Ha'|exact Hb|]. intros u v Hu Hv. apply Hd; [right; exact Hu|exact Hv].
      * apply Forall_forall. intros z Hz. apply merge2_In in Hz as [Hz|Hz].
        -- apply Hxa. exact Hz.
        -- destruct Hz as [<-|Hz]; [exact Hxy|]. eapply ev_lt_trans; [exact Hxy|apply Hyb; exact Hz].
Qed.

Lemma merge_strict a b : StronglySorted ev_slt a -> StronglySorted ev_slt b ->
  (forall x y, In x a -> In y b -> e_tag x <> e_tag y) -> StronglySorted ev_slt (merge a b).
Proof. intros. unfold merge. apply merge2_strict; auto. Qed.

Lemma tagged_strict tag l : rows_ok l -> StronglySorted ev_slt (tagged tag l).
Proof.
  induction 1 as [|x r Hs IH Hx]; simpl; constructor; [exact IH|].
  rewrite Forall_forall in *. intros z Hz. unfold tagged in Hz. apply in_map_iff in Hz as [y [<- Hy]].
  apply ev_lt_by_beat. simpl. apply Hx. exact Hy.
Qed.

Lemma tagged_tag tag l x : In x (tagged tag l) -> e_tag x = tag.
Proof. intro H. apply tagged_In in H as [r [_ ->]]. reflexivity. Qed.

Lemma rev_desc_strict (l : list Q) : StronglySorted (fun a b => b < a) l -> StronglySorted (fun a b => a < b) (rev l).
Proof.
  induction 1 as [|x r Hs IH Hx]; simpl; [constructor|].
  rewrite Forall_forall in Hx.
  assert (G : forall l1 (y : Q), StronglySorted (fun a b => a < b) l1 -> (forall z, In z l1 -> z < y) -> StronglySorted (fun a b => a < b) (l1 ++ [y])).
  { induction l1 as [|a l1 IH1]; intros y S1 Hy; simpl; [repeat constructor|].
    inversion S1; subst. constructor; [apply IH1; [assumption|intros; apply Hy; right; assumption]|].
    apply Forall_app. split; [assumption|constructor; [apply Hy; left; reflexivity|constructor]]. }
  apply G; [exact IH|]. intros z Hz. apply in_rev in Hz. apply Hx. exact Hz.
Qed.

Lemma zero_rows_ok (l : list Q) : StronglySorted (fun a b => a < b) l -> rows_ok (map (fun b => (b, 0)) l).
Proof.
  induction 1 as [|x r Hs IH Hx]; simpl; constructor; [exact IH|].
  rewrite Forall_forall in *. intros z Hz. apply in_map_iff in Hz as [y [<- Hy]]. simpl. apply Hx. exact Hy.
Qed.

Theorem events_strict td : dom td -> StronglySorted ev_slt (events td).
Proof.
  intros D. unfold events.
  destruct (coalesce_ok (td_warps td) [] [] (dom_warps td D) segs_nil) as (ss & es & E & Hseg); [intros ? []|].
  rewrite E. destruct (segs_ok_sorted ss es Hseg) as (Ss & Se & _).
  cbn [fold_right].
  repeat (apply merge_strict; [| |
    intros x y Hx Hy; apply tagged_tag in Hx;
    repeat (apply In_merge in Hy as [Hy|Hy]; [apply tagged_tag in Hy; rewrite Hx, Hy; unfold tWARP, tWARP_END, tBPM, tDELAY, tDELAY_END, tSTOP, tSTOP_END; lia|]);
    destruct Hy]); try constructor.
  - apply tagged_strict, zero_rows_ok, rev_desc_strict, Ss.
  - apply tagged_strict, zero_rows_ok, rev_desc_strict, Se.
  - apply tagged_strict. apply tl_sorted. exact (dom_bpms td D).
  - apply tagged_strict, (dom_delays td D).
  - apply tagged_strict, (dom_delays td D).
  - apply tagged_strict, (dom_stops td D).
  - apply tagged_strict, (dom_stops td D).
Qed.

(* ================================================================== Part 2: cuts of the event list *)
Lemma SS_app_inv {T} (R : T -> T -> Prop) l1 l2 : StronglySorted R (l1 ++ l2) ->
  StronglySorted R l1 /\ StronglySorted R l2 /\ (forall x y, In x l1 -> In y l2 -> R x y).
Proof.
  induction l1 as [|a l1 IH]; simpl; intro H.
  - repeat split; [constructor|exact H|intros ? ? []].
  - inversion H as [|? ? H' Ha]; subst. destruct (IH H') as (A & B & C). rewrite Forall_forall in Ha. repeat split.
    + constructor; [exact A|]. apply Forall_forall. intros z Hz. apply Ha. apply in_or_app. left. exact Hz.
    + exact B.
    + intros x y [<-|Hx] Hy; [apply Ha; apply in_or_app; right; exact Hy|apply C; assumption].
Qed.

Lemma rows_ok_unique l r r' : rows_ok l -> In r l -> In r' l -> fst r == fst r' -> r = r'.
Proof.
  induction 1 as [|x rest Hs IH Hx]; intros H1 H2 E; [destruct H1|].
  rewrite Forall_forall in Hx. destruct H1 as [<-|H1]; destruct H2 as [<-|H2]; try reflexivity.
  - specialize (Hx r' H2). lra.
  - specialize (Hx r H1). lra.
  - apply IH; assumption.
Qed.

Definition mkev (tag : Z) (r : Q * Q) : ev := {| e_beat := fst r; e_val := snd r; e_tag := tag |}.
Lemma tagged_In' tag l x : In x (tagged tag l) <-> exists r, In r l /\ x = mkev tag r.
Proof. apply tagged_In. Qed.

Definition state_rate (s : state) : Q := if s_warp s then 0 else 60 / s_bpm s.

Lemma tu_eq s b tag : time_until s b tag ==
  (b - s_beat s) * state_rate s + (if is_pause_tag (s_tag s) && is_end_tag tag then s_val s else 0).
Proof.
  unfold time_until, state_rate. rewrite Qred_correct.
  destruct (s_warp s); destruct (is_pause_tag (s_tag s) && is_end_tag tag); unfold Qdiv; ring.
Qed.

Definition kle_ev (e : ev) (b : Q) (tag : Z) : Prop := e_beat e < b \/ (e_beat e == b /\ (e_tag e <= tag)%Z).
Definition klt_ev (b : Q) (tag : Z) (e : ev) : Prop := b < e_beat e \/ (b == e_beat e /\ (tag < e_tag e)%Z).

Lemma ev_lt_kle a e : ev_lt a e = true -> kle_ev a (e_beat e) (e_tag e).
Proof. rewrite ev_lt_spec. unfold kle_ev. intros [H|[H H']]; [left; exact H|right; split; [exact H|lia]]. Qed.
Lemma ev_lt_klt e a : ev_lt e a = true -> klt_ev (e_beat e) (e_tag e) a.
Proof. rewrite ev_lt_spec. unfold klt_ev. tauto. Qed.
Lemma kle_refl e : kle_ev e (e_beat e) (e_tag e).
Proof. right. split; [reflexivity|lia]. Qed.

Definition psum (l : list ev) : Q := fold_right (fun e acc => (if is_end_tag (e_tag e) then e_val e else 0) + acc) 0 l.

Definition bpm_in_force (td : tdata) (x v : Q) : Prop :=
  exists b, In (b, v) (td_bpms td) /\ b <= x /\ forall b' v', In (b', v') (td_bpms td) -> b' <= x -> b' <= b.
(* seconds per beat at beat x: nothing inside the union of the warps, sixty over the BPM in force outside *)
Definition is_rate (td : tdata) (x c : Q) : Prop :=
  (in_raw (td_warps td) x /\ c == 0) \/ (~ in_raw (td_warps td) x /\ exists v, bpm_in_force td x v /\ c == 60 / v).

Section Law.
Variables (td : tdata) (b0 v0 : Q) (rest : list (Q * Q)).
Hypothesis D : dom td.
Hypothesis Hbpm : td_bpms td = (b0, v0) :: rest.
Hypothesis Hb0 : b0 == 0.

Let s0 := init_state td v0.
Let es := events td.
Definition St (P : list ev) : state := fold_left advance P (init_state td v0).

Lemma Hstrict : StronglySorted ev_slt es.
Proof. apply events_strict. exact D. Qed.

Lemma St_last P q : St (P ++ [q]) = advance (St P) q.
Proof. unfold St. apply fold_advance_last. Qed.

Lemma split_strict P e R : es = P ++ e :: R ->
  (forall p, In p P -> ev_lt p e = true) /\ (forall r, In r R -> ev_lt e r = true) /\
  (forall p r, In p P -> In r R -> ev_lt p r = true).
Proof.
  intro E. pose proof Hstrict as H. rewrite E in H. apply SS_app_inv in H as (_ & B & C).
  inversion B as [|? ? _ Hall]; subst. rewrite Forall_forall in Hall. repeat split.
  - intros p Hp. apply C; [exact Hp|left; reflexivity].
  - exact Hall.
  - intros p r Hp Hr. apply C; [exact Hp|right; exact Hr].
Qed.

Lemma rows_in_events : forall x, In x es <->
  (exists ws wes, coalesce (td_warps td) [] [] = (ws, wes) /\ (In x (tagged tWARP (zero ws)) \/ In x (tagged tWARP_END (zero wes)))) \/
  In x (tagged tBPM rest) \/ In x (tagged tDELAY (td_delays td)) \/ In x (tagged tDELAY_END (td_delays td)) \/
  In x (tagged tSTOP (td_stops td)) \/ In x (tagged tSTOP_END (td_stops td)).
Proof.
  intro x. destruct (coalesce (td_warps td) [] []) as [ws wes] eqn:E. unfold es.
  rewrite (events_unfold td ws wes E x). rewrite Hbpm. cbn [tl]. split.
  - intros [H|[H|H]]; [left; exists ws, wes; auto|left; exists ws, wes; auto|right; exact H].
  - intros [(ws' & wes' & E' & H)|H]; [inversion E'; subst; tauto|tauto].
Qed.

(* an END event comes immediately after its own pause event *)
Lemma end_pred (tagP : Z) (rows : list (Q * Q)) P e R :
  rows_ok rows -> (tagP = tSTOP \/ tagP = tDELAY) ->
  (forall x, In x es -> e_tag x = tagP -> In x (tagged tagP rows)) ->
  (forall x, In x es -> e_tag x = (tagP + 1)%Z -> In x (tagged (tagP + 1) rows)) ->
  (forall r, In r rows -> In (mkev tagP r) es) ->
  es = P ++ e :: R -> e_tag e = (tagP + 1)%Z ->
  exists P' q, P = P' ++ [q] /\ e_tag q = tagP /\ e_beat q = e_beat e /\ e_val q = e_val e.
Proof.
  intros Hrows HtagP HP HE Hin Esplit Ht.
  assert (He : In e es) by (rewrite Esplit; apply in_or_app; right; left; reflexivity).
  apply HE in He; [|exact Ht]. apply tagged_In' in He as [r [Hr Ee]].
  destruct (split_strict P e R Esplit) as (SP & SR & _).
  set (p := mkev tagP r).
  assert (Hpe : ev_lt p e = true) by (apply ev_lt_spec; right; rewrite Ee; simpl; split; [reflexivity|lia]).
  assert (HpP : In p P).
  { specialize (Hin r Hr). fold p in Hin. rewrite Esplit in Hin. apply in_app_or in Hin as [Hin|[Hin|Hin]]; [exact Hin| |].
    - exfalso. rewrite <- Hin in Hpe. unfold ev_lt in Hpe. rewrite Ee in Hpe. simpl in Hpe.
      apply orb_true_iff in Hpe as [X|X]; [apply qlt_spec in X; lra|apply andb_true_iff in X as [_ X]; apply Z.ltb_lt in X; lia].
    - exfalso. specialize (SR p Hin). apply ev_lt_asym in SR. congruence. }
  destruct (last_of_nonempty P) as (P' & q & EP); [intro X; rewrite X in HpP; destruct HpP|].
  exists P', q. split; [exact EP|].
  assert (Hqe : ev_lt q e = true) by (apply SP; rewrite EP; apply in_or_app; right; left; reflexivity).
  assert (Hpq : p = q \/ ev_lt p q = true).
  { rewrite EP in HpP. apply in_app_or in HpP as [HpP|[HpP|[]]]; [right|left; symmetry; exact HpP].
    assert (E2 : es = P' ++ q :: (e :: R)) by (rewrite Esplit, EP, <- app_assoc; reflexivity).
    destruct (split_strict P' q (e :: R) E2) as (A & _). apply A. exact HpP. }
  assert (Hkey : e_beat q == fst r /\ e_tag q = tagP).
  { apply ev_lt_spec in Hqe. rewrite Ee in Hqe. simpl in Hqe. destruct Hpq as [<-|Hpq]; [split; reflexivity|].
    apply ev_lt_spec in Hpq. unfold p in Hpq. simpl in Hpq.
    destruct Hqe as [A|[A A']]; destruct Hpq as [B|[B B']]; try lra. split; [exact A|lia]. }
  destruct Hkey as [Hqb Hqt].
  assert (Hq : In q es) by (rewrite Esplit, EP; apply in_or_app; left; apply in_or_app; right; left; reflexivity).
  apply HP in Hq; [|exact Hqt]. apply tagged_In' in Hq as [r' [Hr' Eq']].
  assert (r' = r) by (apply (rows_ok_unique rows); [exact Hrows|exact Hr'|exact Hr|rewrite Eq' in Hqb; exact Hqb]).
  subst r'. rewrite Eq', Ee. simpl. auto.
Qed.

Lemma tag_cases x : In x es -> (e_tag x = tWARP \/ e_tag x = tWARP_END \/ e_tag x = tBPM \/ e_tag x = tDELAY \/ e_tag x = tDELAY_END \/ e_tag x = tSTOP \/ e_tag x = tSTOP_END).
Proof.
  intro H. apply rows_in_events in H.
  destruct H as [(ws & wes & _ & [H|H])|[H|[H|[H|[H|H]]]]]; apply tagged_tag in H; tauto.
Qed.

Lemma in_tagged_of_tag x tag rows : In x es -> e_tag x = tag ->
  (tag = tSTOP /\ rows = td_stops td) \/ (tag = tSTOP_END /\ rows = td_stops td) \/
  (tag = tDELAY /\ rows = td_delays td) \/ (tag = tDELAY_END /\ rows = td_delays td) \/ (tag = tBPM /\ rows = rest) ->
  In x (tagged tag rows).
Proof.
  intros H Ht Hc. apply rows_in_events in H.
  destruct H as [(ws & wes & _ & [H|H])|[H|[H|[H|[H|H]]]]]; pose proof (tagged_tag _ _ _ H) as T; rewrite Ht in T;
    destruct Hc as [[A B]|[[A B]|[[A B]|[[A B]|[A B]]]]]; rewrite B, A; rewrite A in T;
    first [exact H | exfalso; unfold tWARP, tWARP_END, tBPM, tDELAY, tDELAY_END, tSTOP, tSTOP_END in T; discriminate T].
Qed.

Lemma end_before P e R : es = P ++ e :: R -> is_end_tag (e_tag e) = true ->
  exists P' q, P = P' ++ [q] /\ is_pause_tag (e_tag q) = true /\ e_beat q = e_beat e /\ e_val q = e_val e.
Proof.
  intros E Ht. unfold is_end_tag in Ht. apply orb_true_iff in Ht as [Ht|Ht]; apply Z.eqb_eq in Ht.
  - destruct (end_pred tSTOP (td_stops td) P e R) as (P' & q & A & B & C & C'); try assumption.
    + exact (dom_stops td D).
    + left; reflexivity.
    + intros x Hx Hxt. apply in_tagged_of_tag; [exact Hx|exact Hxt|tauto].
    + intros x Hx Hxt. apply in_tagged_of_tag; [exact Hx|exact Hxt|]. right. left. split; reflexivity.
    + intros r Hr. apply rows_in_events. do 4 right. left. apply tagged_In'. exists r. auto.
    + exists P', q. rewrite B. auto.
  - destruct (end_pred tDELAY (td_delays td) P e R) as (P' & q & A & B & C & C'); try assumption.
    + exact (dom_delays td D).
    + right; reflexivity.
    + intros x Hx Hxt. apply in_tagged_of_tag; [exact Hx|exact Hxt|tauto].
    + intros x Hx Hxt. apply in_tagged_of_tag; [exact Hx|exact Hxt|]. do 3 right. left. split; reflexivity.
    + intros r Hr. apply rows_in_events. right. right. left. apply tagged_In'. exists r. auto.
    + exists P', q. rewrite B. auto.
Qed.

(* the coalesced warp segments and their events, packaged *)
Lemma warp_segments : exists segs : list (Q * Q),
  segs_props segs /\
  (forall y, In y es -> e_tag y = tWARP -> exists s e, In (s, e) segs /\ y = mkW s) /\
  (forall y, In y es -> e_tag y = tWARP_END -> exists s e, In (s, e) segs /\ y = mkWE e) /\
  (forall s e, In (s, e) segs -> In (mkW s) es) /\
  (forall s e, In (s, e) segs -> In (mkWE e) es) /\
  (forall x, in_raw (td_warps td) x <-> exists s e, In (s, e) segs /\ s <= x /\ x < e).
Proof.
  destruct (coalesce_union (td_warps td) [] [] (dom_warps td D) segs_nil) as (ss & ees & Ec & Hseg & Hcov); [intros ? []|].
  destruct (segs_ok_props ss ees Hseg) as (Hprops & _ & Hlen).
  set (segs := combine (rev ss) (rev ees)). exists segs.
  assert (Hsp : segs_props segs) by (unfold segs; rewrite (combine_rev ss ees Hlen); apply segs_props_rev; exact Hprops).
  assert (Hev : forall y, In y (events td) -> _) by (intros y Hy; exact (event_tag_in td (rev ss) (rev ees) y Ec Hy)).
  assert (Hlen' : length (rev ss) = length (rev ees)) by (rewrite !rev_length; exact Hlen).
  split; [exact Hsp|]. split; [|split; [|split; [|split]]].
  - intros y Hy Ht. destruct (Hev y Hy) as (A & _). destruct (A Ht) as (s & Hs & ->).
    destruct (In_nth_error _ _ Hs) as [i Hi].
    destruct (nth_error (rev ees) i) as [e|] eqn:Ee; [|apply nth_error_None in Ee; assert (i < length (rev ss))%nat by (apply nth_error_Some; congruence); lia].
    exists s, e. split; [|reflexivity]. unfold segs. clear -Hi Ee. revert i Hi Ee. generalize (rev ees). induction (rev ss) as [|a l IH]; intros [|c l'] i Hi Ee; destruct i; simpl in *; try discriminate.
    + inversion Hi; inversion Ee; subst. left. reflexivity.
    + right. eapply IH; eauto.
  - intros y Hy Ht. destruct (Hev y Hy) as (_ & A & _). destruct (A Ht) as (e & He & ->).
    destruct (In_nth_error _ _ He) as [i Hi].
    destruct (nth_error (rev ss) i) as [s|] eqn:Es; [|apply nth_error_None in Es; assert (i < length (rev ees))%nat by (apply nth_error_Some; congruence); lia].
    exists s, e. split; [|reflexivity]. unfold segs. clear -Hi Es. revert i Hi Es. generalize (rev ees). induction (rev ss) as [|a l IH]; intros [|c l'] i Hi Es; destruct i; simpl in *; try discriminate.
    + inversion Hi; inversion Es; subst. left. reflexivity.
    + right. eapply IH; eauto.
  - intros s e H. apply (events_unfold td _ _ Ec). left. apply tagged_In. exists (s, 0). split; [|reflexivity].
    unfold zero. apply in_map_iff. exists s. split; [reflexivity|]. eapply in_combine_l. exact H.
  - intros s e H. apply (events_unfold td _ _ Ec). right. left. apply tagged_In. exists (e, 0). split; [|reflexivity].
    unfold zero. apply in_map_iff. exists e. split; [reflexivity|]. eapply in_combine_r. exact H.
  - intro x.
    assert (Hraw : in_raw (td_warps td) x <-> in_acc (rev ss) (rev ees) x).
    { rewrite (in_acc_rev ss ees x Hlen), Hcov. unfold in_acc at 1. simpl. split; [auto|intros [(s & e & [] & _)|H]; exact H]. }
    rewrite Hraw. unfold in_acc. fold segs. reflexivity.
Qed.

(* ---- the state reached after everything at or before beat x: its warp flag and its BPM ---- *)
Lemma warp_flag_at P R x : es = P ++ R -> (forall e, In e P -> e_beat e <= x) -> (forall e, In e R -> x < e_beat e) ->
  (s_warp (St P) = true <-> in_raw (td_warps td) x).
Proof.
  intros Esplit HP HR.
  destruct (coalesce_union (td_warps td) [] [] (dom_warps td D) segs_nil) as (ss & ees & Ec & Hseg & Hcov); [intros ? []|].
  destruct (segs_ok_props ss ees Hseg) as (Hprops & _ & Hlen).
  set (segs := combine (rev ss) (rev ees)).
  assert (Hsp : segs_props segs) by (unfold segs; rewrite (combine_rev ss ees Hlen); apply segs_props_rev; exact Hprops).
  pose proof (events_sorted td D) as Hsorted.
  assert (Hev : forall y, In y (events td) -> _) by (intros y Hy; exact (event_tag_in td (rev ss) (rev ees) y Ec Hy)).
  assert (Hlen' : length (rev ss) = length (rev ees)) by (rewrite !rev_length; exact Hlen).
  assert (HW : forall y, In y (events td) -> e_tag y = tWARP -> exists s e, In (s, e) segs /\ y = mkW s).
  { intros y Hy Ht. destruct (Hev y Hy) as (A & _). destruct (A Ht) as (s & Hs & ->).
    destruct (In_nth_error _ _ Hs) as [i Hi].
    destruct (nth_error (rev ees) i) as [e|] eqn:Ee; [|apply nth_error_None in Ee; assert (i < length (rev ss))%nat by (apply nth_error_Some; congruence); lia].
    exists s, e. split; [|reflexivity]. unfold segs. clear -Hi Ee. revert i Hi Ee. generalize (rev ees). induction (rev ss) as [|a l IH]; intros [|c l'] i Hi Ee; destruct i; simpl in *; try discriminate.
    - inversion Hi; inversion Ee; subst. left. reflexivity.
    - right. eapply IH; eauto. }
  assert (HWE : forall y, In y (events td) -> e_tag y = tWARP_END -> exists s e, In (s, e) segs /\ y = mkWE e).
  { intros y Hy Ht. destruct (Hev y Hy) as (_ & A & _). destruct (A Ht) as (e & He & ->).
    destruct (In_nth_error _ _ He) as [i Hi].
    destruct (nth_error (rev ss) i) as [s|] eqn:Es; [|apply nth_error_None in Es; assert (i < length (rev ees))%nat by (apply nth_error_Some; congruence); lia].
    exists s, e. split; [|reflexivity]. unfold segs. clear -Hi Es. revert i Hi Es. generalize (rev ees). induction (rev ss) as [|a l IH]; intros [|c l'] i Hi Es; destruct i; simpl in *; try discriminate.
    - inversion Hi; inversion Es; subst. left. reflexivity.
    - right. eapply IH; eauto. }
  assert (HinW : forall s e, In (s, e) segs -> In (mkW s) (events td)).
  { intros s e H. apply (events_unfold td _ _ Ec). left. apply tagged_In. exists (s, 0). split; [|reflexivity].
    unfold zero. apply in_map_iff. exists s. split; [reflexivity|]. eapply in_combine_l. exact H. }
  assert (HinWE : forall s e, In (s, e) segs -> In (mkWE e) (events td)).
  { intros s e H. apply (events_unfold td _ _ Ec). right. left. apply tagged_In. exists (e, 0). split; [|reflexivity].
    unfold zero. apply in_map_iff. exists e. split; [reflexivity|]. eapply in_combine_r. exact H. }
  assert (Hpart : forall y, In y (events td) -> (In y P <-> e_beat y <= x)).
  { intros y Hy. split; [apply HP|]. intro Hle. fold es in Hy. rewrite Esplit in Hy. apply in_app_or in Hy as [Hy|Hy]; [exact Hy|].
    specialize (HR y Hy). lra. }
  unfold St. rewrite warp_fold. cbn [s_warp init_state].
  rewrite (flag_invariant segs (events td) Hsp Hsorted HW HWE HinW HinWE P R Esplit).
  assert (Hraw : in_raw (td_warps td) x <-> in_acc (rev ss) (rev ees) x).
  { rewrite (in_acc_rev ss ees x Hlen), Hcov. unfold in_acc at 1. simpl. split; [auto|intros [(s & e & [] & _)|H]; exact H]. }
  rewrite Hraw. unfold open_seg, in_acc. fold segs. split.
  - intros (s & e & Hin & A & B). exists s, e. split; [exact Hin|]. split.
    + apply (HP (mkW s) A).
    + destruct (Qlt_le_dec x e) as [L|L]; [exact L|]. exfalso. apply B. apply (Hpart (mkWE e) (HinWE s e Hin)). exact L.
  - intros (s & e & Hin & A & B). exists s, e. split; [exact Hin|]. split.
    + apply (Hpart (mkW s) (HinW s e Hin)). exact A.
    + intro X. pose proof (HP (mkWE e) X) as C. simpl in C. lra.
Qed.

Definition bpm_last (P : list ev) (v : Q) : Prop :=
  (v = v0 /\ forall q, In q P -> e_tag q <> tBPM) \/
  (exists q, In q P /\ e_tag q = tBPM /\ e_val q = v /\ forall q', In q' P -> e_tag q' = tBPM -> e_beat q' <= e_beat q).

Lemma bpm_last_St : forall P R, es = P ++ R -> bpm_last P (s_bpm (St P)).
Proof.
  induction P as [|x P' IH] using rev_ind; intros R E.
  - left. split; [reflexivity|intros ? []].
  - rewrite <- app_assoc in E. cbn [app] in E. specialize (IH (x :: R) E). rewrite St_last. unfold advance. cbn [s_bpm].
    destruct (Z.eqb (e_tag x) tBPM) eqn:T.
    + apply Z.eqb_eq in T. right. exists x. split; [apply in_or_app; right; left; reflexivity|]. split; [exact T|]. split; [reflexivity|].
      intros q' Hq' _. apply in_app_or in Hq' as [Hq'|[<-|[]]]; [|lra].
      destruct (split_strict P' x R E) as (A & _). specialize (A q' Hq'). apply ev_slt_ge, ev_ge_beat in A. exact A.
    + apply Z.eqb_neq in T. destruct IH as [[Ev Hno]|(q & Hq & Hqt & Hqv & Hmax)].
      * left. split; [exact Ev|]. intros q Hq. apply in_app_or in Hq as [Hq|[<-|[]]]; [apply Hno; exact Hq|exact T].
      * right. exists q. split; [apply in_or_app; left; exact Hq|]. split; [exact Hqt|]. split; [exact Hqv|].
        intros q' Hq' Ht'. apply in_app_or in Hq' as [Hq'|[<-|[]]]; [apply Hmax; assumption|contradiction].
Qed.

Lemma bpm_at_cut P R x : es = P ++ R -> 0 <= x ->
  (forall e, In e P -> e_tag e = tBPM -> e_beat e <= x) -> (forall e, In e R -> e_tag e = tBPM -> x < e_beat e) ->
  bpm_in_force td x (s_bpm (St P)).
Proof.
  intros E Hx HP HR. pose proof (dom_bpms td D) as Hrows. rewrite Hbpm in Hrows.
  assert (Hev : forall r, In r rest -> In (mkev tBPM r) P \/ In (mkev tBPM r) R).
  { intros r Hr. apply in_app_or. rewrite <- E. apply rows_in_events. right. left. apply tagged_In'. exists r. auto. }
  assert (Hrest : forall q, In q P -> e_tag q = tBPM -> exists r, In r rest /\ q = mkev tBPM r).
  { intros q Hq Ht. assert (Hin : In q es) by (rewrite E; apply in_or_app; left; exact Hq).
    assert (Hin' : In q (tagged tBPM rest)) by (apply (in_tagged_of_tag q tBPM rest Hin Ht); tauto). apply tagged_In' in Hin'. exact Hin'. }
  destruct (bpm_last_St P R E) as [[Ev Hno]|(q & Hq & Hqt & Hqv & Hmax)].
  - rewrite Ev. exists b0. split; [rewrite Hbpm; left; reflexivity|]. split; [lra|].
    intros b' v' Hin Hle. rewrite Hbpm in Hin. destruct Hin as [Hin|Hin]; [inversion Hin; subst; lra|].
    exfalso. destruct (Hev (b', v') Hin) as [H|H].
    + apply (Hno _ H). reflexivity.
    + specialize (HR _ H eq_refl). simpl in HR. lra.
  - destruct (Hrest q Hq Hqt) as ([b v] & Hr & ->). simpl in Hqv. subst v. exists b. split; [rewrite Hbpm; right; exact Hr|].
    split; [apply (HP _ Hq Hqt)|].
    intros b' v' Hin Hle. rewrite Hbpm in Hin. destruct Hin as [Hin|Hin].
    + inversion Hin; subst. inversion Hrows as [|? ? _ Hall]; subst. rewrite Forall_forall in Hall. specialize (Hall _ Hr). simpl in Hall. lra.
    + destruct (Hev (b', v') Hin) as [H|H].
      * apply (Hmax _ H eq_refl).
      * specialize (HR _ H eq_refl). simpl in HR. lra.
Qed.

Lemma bpm_in_force_unique x v v' : bpm_in_force td x v -> bpm_in_force td x v' -> v = v'.
Proof.
  intros (b & Hin & Hle & Hmax) (b' & Hin' & Hle' & Hmax').
  assert (E : (b, v) = (b', v')).
  { apply (rows_ok_unique (td_bpms td)); [exact (dom_bpms td D)|exact Hin|exact Hin'|]. simpl.
    specialize (Hmax _ _ Hin' Hle'). specialize (Hmax' _ _ Hin Hle). lra. }
  congruence.
Qed.

Lemma rate_at_cut P R x c : es = P ++ R -> 0 <= x ->
  (forall e, In e P -> e_beat e <= x) -> (forall e, In e R -> x < e_beat e) ->
  is_rate td x c -> state_rate (St P) == c.
Proof.
  intros E Hx HP HR Hrate. unfold state_rate.
  pose proof (warp_flag_at P R x E HP HR) as Hw.
  destruct (s_warp (St P)) eqn:W.
  - destruct Hrate as [[_ Hc]|[Hn _]]; [symmetry; exact Hc|]. exfalso. apply Hn. apply Hw. reflexivity.
  - destruct Hrate as [[Hin _]|[_ (v & Hv & Hc)]]; [apply Hw in Hin; discriminate Hin|].
    assert (Hb : bpm_in_force td x (s_bpm (St P))) by (apply (bpm_at_cut P R x E Hx); intros; auto).
    rewrite (bpm_in_force_unique x _ _ Hb Hv). symmetry. exact Hc.
Qed.

(* ================================================================== Part 3: the interval law on cuts *)
Definition Ecut (s : state) (b : Q) : Q := s_time s + (b - s_beat s) * state_rate s.

Lemma step_time P e R : es = P ++ e :: R ->
  s_time (St (P ++ [e])) == s_time (St P) + (e_beat e - s_beat (St P)) * state_rate (St P)
                            + (if is_end_tag (e_tag e) then e_val e else 0).
Proof.
  intro E. rewrite St_last. unfold advance. cbn [s_time]. rewrite Qred_correct, tu_eq.
  destruct (is_end_tag (e_tag e)) eqn:T.
  - destruct (end_before P e R E T) as (P' & q & EP & Hp & _ & Hv).
    assert (Ht : s_tag (St P) = e_tag q) by (rewrite EP, St_last; reflexivity).
    assert (Hsv : s_val (St P) = e_val q) by (rewrite EP, St_last; reflexivity).
    rewrite Ht, Hsv, Hp, Hv. cbn [andb]. ring.
  - rewrite andb_false_r. ring.
Qed.

Lemma kle_beat e b tag : kle_ev e b tag -> e_beat e <= b.
Proof. intros [H|[H _]]; lra. Qed.
Lemma klt_beat b tag e : klt_ev b tag e -> b <= e_beat e.
Proof. intros [H|[H _]]; lra. Qed.

Lemma interval_aux : forall Q P R b1 t1 b2 t2 c,
  es = P ++ Q ++ R ->
  (forall p, In p P -> kle_ev p b1 t1) ->
  (forall q, In q Q -> klt_ev b1 t1 q /\ kle_ev q b2 t2) ->
  (forall r, In r R -> klt_ev b2 t2 r) ->
  0 <= b1 -> b1 <= b2 ->
  (forall x, b1 <= x -> x < b2 -> is_rate td x c) ->
  Ecut (St (P ++ Q)) b2 == Ecut (St P) b1 + c * (b2 - b1) + psum Q.
Proof.
  induction Q as [|e Q' IH]; intros P R b1 t1 b2 t2 c E HP HQ HR H0 H12 Hrate.
  - rewrite app_nil_r. cbn [psum fold_right]. unfold Ecut.
    assert (Hr : state_rate (St P) * (b2 - b1) == c * (b2 - b1)).
    { destruct (Qlt_le_dec b1 b2) as [L|L].
      - rewrite (rate_at_cut P R b1 c); [reflexivity|exact E|exact H0| | |apply Hrate; lra].
        + intros p Hp. apply (kle_beat _ _ _ (HP p Hp)).
        + intros r Hr. pose proof (klt_beat _ _ _ (HR r Hr)). lra.
      - assert (Z : b2 - b1 == 0) by lra. rewrite Z. ring. }
    setoid_replace ((b2 - s_beat (St P)) * state_rate (St P)) with ((b1 - s_beat (St P)) * state_rate (St P) + state_rate (St P) * (b2 - b1)) by ring.
    rewrite Hr. ring.
  - cbn [app] in E.
    destruct (split_strict P e (Q' ++ R) E) as (SP & SR & _).
    destruct (HQ e (or_introl eq_refl)) as [Hk1 Hk2].
    pose proof (klt_beat _ _ _ Hk1) as Hb1e. pose proof (kle_beat _ _ _ Hk2) as Hbe2.
    assert (E' : es = (P ++ [e]) ++ Q' ++ R) by (rewrite <- app_assoc; exact E).
    specialize (IH (P ++ [e]) R (e_beat e) (e_tag e) b2 t2 c E').
    assert (IH' : Ecut (St ((P ++ [e]) ++ Q')) b2 == Ecut (St (P ++ [e])) (e_beat e) + c * (b2 - e_beat e) + psum Q').
    { apply IH.
      - intros p Hp. apply in_app_or in Hp as [Hp|[<-|[]]]; [apply ev_lt_kle, SP, Hp|apply kle_refl].
      - intros q Hq. split; [apply ev_lt_klt, SR, in_or_app; left; exact Hq|apply HQ; right; exact Hq].
      - exact HR.
      - lra.
      - exact Hbe2.
      - intros x Hx1 Hx2. apply Hrate; lra. }
    replace (P ++ e :: Q') with ((P ++ [e]) ++ Q') by (rewrite <- app_assoc; reflexivity).
    rewrite IH'. cbn [psum fold_right]. fold (psum Q').
    assert (Es' : Ecut (St (P ++ [e])) (e_beat e) == s_time (St (P ++ [e]))).
    { unfold Ecut. rewrite St_last. unfold advance at 2. cbn [s_beat]. ring. }
    rewrite Es', (step_time P e (Q' ++ R) E). unfold Ecut.
    assert (Hr : state_rate (St P) * (e_beat e - b1) == c * (e_beat e - b1)).
    { destruct (Qlt_le_dec b1 (e_beat e)) as [L|L].
      - rewrite (rate_at_cut P (e :: Q' ++ R) b1 c); [reflexivity|exact E|exact H0| | |apply Hrate; lra].
        + intros p Hp. apply (kle_beat _ _ _ (HP p Hp)).
        + intros r [<-|Hr]; [exact L|]. specialize (SR r Hr). apply ev_slt_ge, ev_ge_beat in SR. lra.
      - assert (Z : e_beat e - b1 == 0) by lra. rewrite Z. ring. }
    setoid_replace ((e_beat e - s_beat (St P)) * state_rate (St P)) with ((b1 - s_beat (St P)) * state_rate (St P) + state_rate (St P) * (e_beat e - b1)) by ring.
    rewrite Hr. ring.
Qed.

(* at a cut, no pause is added on top of the elapsed beats *)
Lemma pause_cut (tagP : Z) (rows : list (Q * Q)) P' q R b tag :
  (tagP = tSTOP \/ tagP = tDELAY) ->
  (forall x, In x es -> e_tag x = tagP -> In x (tagged tagP rows)) ->
  (forall r, In r rows -> In (mkev (tagP + 1) r) es) ->
  es = (P' ++ [q]) ++ R -> e_tag q = tagP ->
  kle_ev q b tag -> (forall r, In r R -> klt_ev b tag r) -> e_beat q == b /\ tag = tagP.
Proof.
  intros HtagP HP Hin E Ht Hq HR.
  assert (Hqes : In q es) by (rewrite E; apply in_or_app; left; apply in_or_app; right; left; reflexivity).
  apply HP in Hqes; [|exact Ht]. apply tagged_In' in Hqes as [r [Hr Eq]].
  set (e' := mkev (tagP + 1) r).
  assert (Hqe : ev_lt q e' = true) by (apply ev_lt_spec; right; rewrite Eq; simpl; split; [reflexivity|lia]).
  assert (E2 : es = P' ++ q :: R) by (rewrite E, <- app_assoc; reflexivity).
  destruct (split_strict P' q R E2) as (A & _ & _).
  specialize (Hin r Hr). fold e' in Hin. rewrite E2 in Hin. apply in_app_or in Hin as [Hin|[Hin|Hin]].
  - specialize (A e' Hin). apply ev_lt_asym in A. congruence.
  - exfalso. rewrite <- Hin in Hqe. apply ev_lt_asym in Hqe as X. congruence.
  - specialize (HR e' Hin). unfold klt_ev, e' in HR. unfold kle_ev in Hq. rewrite Eq in Hq. simpl in HR, Hq.
    destruct HR as [X|[X X']]; destruct Hq as [Y|[Y Y']]; try lra. split; [rewrite Eq; simpl; exact Y|lia].
Qed.

Lemma tu_at_cut P R b tag : es = P ++ R -> (forall p, In p P -> kle_ev p b tag) -> (forall r, In r R -> klt_ev b tag r) ->
  s_time (St P) + time_until (St P) b tag == Ecut (St P) b.
Proof.
  intros E HP HR. unfold Ecut. rewrite tu_eq.
  destruct (is_pause_tag (s_tag (St P)) && is_end_tag tag) eqn:C; [|ring].
  exfalso. apply andb_true_iff in C as [C1 C2].
  destruct P as [|p0 P0] eqn:EP; [unfold St in C1; simpl in C1; discriminate C1|].
  destruct (last_of_nonempty (p0 :: P0)) as (P' & q & EPq); [discriminate|]. rewrite EPq in *.
  rewrite St_last in C1. unfold advance in C1. cbn [s_tag] in C1.
  assert (Hq : kle_ev q b tag) by (apply HP; apply in_or_app; right; left; reflexivity).
  unfold is_pause_tag in C1. apply orb_true_iff in C1 as [C1|C1]; apply Z.eqb_eq in C1.
  - assert (tag = tSTOP); [|subst tag; discriminate C2].
    apply (proj2 (A:=e_beat q == b)). apply (pause_cut tSTOP (td_stops td) P' q R b tag); try assumption.
    + left; reflexivity.
    + intros x Hx Hxt. apply in_tagged_of_tag; [exact Hx|exact Hxt|tauto].
    + intros r Hr. apply rows_in_events. do 5 right. apply tagged_In'. exists r. auto.
  - assert (tag = tDELAY); [|subst tag; discriminate C2].
    apply (proj2 (A:=e_beat q == b)). apply (pause_cut tDELAY (td_delays td) P' q R b tag); try assumption.
    + right; reflexivity.
    + intros x Hx Hxt. apply in_tagged_of_tag; [exact Hx|exact Hxt|tauto].
    + intros r Hr. apply rows_in_events. do 3 right. left. apply tagged_In'. exists r. auto.
Qed.

(* ================================================================== Part 4: the state that time_at / bpm_at select *)
Definition sts : list state := run_states (init_state td v0) es.

Lemma key_lt_spec b tag s : key_lt b tag s = true <-> (b < s_beat s \/ (b == s_beat s /\ (tag < s_tag s)%Z)).
Proof. unfold key_lt. rewrite orb_true_iff, andb_true_iff, qlt_spec, qeq_spec, Z.ltb_lt. tauto. Qed.

Lemma not_klt_kle b tag e : ~ klt_ev b tag e -> kle_ev e b tag.
Proof.
  unfold klt_ev, kle_ev. intro H.
  destruct (Qlt_le_dec (e_beat e) b) as [L|L]; [left; exact L|]. right.
  destruct (Qeq_dec b (e_beat e)) as [E|E].
  - split; [symmetry; exact E|]. destruct (Z_lt_le_dec tag (e_tag e)) as [X|X]; [exfalso; apply H; right; auto|exact X].
  - exfalso. apply H. left. lra.
Qed.

Lemma klt_trans b tag x y : klt_ev b tag x -> ev_lt x y = true -> klt_ev b tag y.
Proof.
  unfold klt_ev. rewrite ev_lt_spec. intros [A|[A A']] [B|[B B']].
  - left; lra.
  - left; lra.
  - left; lra.
  - right. split; [lra|lia].
Qed.

Lemma SS_nth_error {T} (R : T -> T -> Prop) l : StronglySorted R l ->
  forall i j a b, (i < j)%nat -> nth_error l i = Some a -> nth_error l j = Some b -> R a b.
Proof.
  induction 1 as [|x r Hs IH Hx]; intros i j a b Hij Ha Hb; [destruct i; discriminate|].
  rewrite Forall_forall in Hx. destruct j as [|j]; [lia|]. destruct i as [|i]; simpl in *.
  - inversion Ha; subst. apply Hx. eapply nth_error_In; eauto.
  - eapply IH; [|exact Ha|exact Hb]. lia.
Qed.

Theorem prior_cut_gen b tag : 0 <= b -> (0 < b \/ (2 <= tag)%Z) ->
  exists P R, es = P ++ R /\ (forall p, In p P -> kle_ev p b tag) /\ (forall r, In r R -> klt_ev b tag r) /\
              prior sts s0 b tag = St P.
Proof.
  intros Hb Htag.
  assert (Hlen : length sts = S (length es)) by (unfold sts; apply run_states_length).
  assert (Hst : forall i e, nth_error es i = Some e ->
            (key_lt b tag (nth (S i) sts s0) = true <-> klt_ev b tag e)).
  { intros i e Hi. destruct (state_of_event es (init_state td v0) s0 i e Hi) as [A B]. fold sts in A, B.
    rewrite key_lt_spec, A, B. unfold klt_ev. tauto. }
  assert (H0f : key_lt b tag (nth 0 sts s0) = false).
  { apply not_true_is_false. intro X. apply key_lt_spec in X.
    assert (E0 : nth 0 sts s0 = s0) by (unfold sts; destruct es; reflexivity). rewrite E0 in X.
    unfold s0, init_state, tBPM in X. simpl in X. destruct X as [X|[X1 X]]; [lra|destruct Htag as [Hp|Hp]; [lra|lia]]. }
  assert (Hmono : forall i j, (i <= j < length sts)%nat ->
            key_lt b tag (nth i sts s0) = true -> key_lt b tag (nth j sts s0) = true).
  { intros i j Hij H. destruct i as [|i]; [congruence|]. destruct j as [|j]; [lia|].
    destruct (nth_error es i) as [ei|] eqn:Ei; [|apply nth_error_None in Ei; lia].
    destruct (nth_error es j) as [ej|] eqn:Ej; [|apply nth_error_None in Ej; lia].
    apply (Hst i ei Ei) in H. apply (Hst j ej Ej).
    destruct (Nat.eq_dec i j) as [->|Hne]; [congruence|].
    apply (klt_trans b tag ei ej H). apply (SS_nth_error ev_slt es Hstrict i j); [lia|exact Ei|exact Ej]. }
  destruct (bisect_right_spec (key_lt b tag) sts s0 Hmono) as (Hr & Hlo & Hhi).
  set (r := bisect_right (key_lt b tag) sts s0) in *.
  assert (Hr1 : (1 <= r)%nat).
  { destruct r as [|r']; [|lia]. exfalso. assert (H0 : key_lt b tag (nth 0 sts s0) = true) by (apply Hhi; lia). congruence. }
  exists (firstn (r - 1) es), (skipn (r - 1) es). split; [symmetry; apply firstn_skipn|split; [|split]].
  - intros e He. apply In_firstn_nth in He as [i [Hi Hn]]. apply not_klt_kle. intro X.
    apply (Hst i e Hn) in X. rewrite Hlo in X by lia. discriminate X.
  - intros e He. apply In_skipn_nth in He as [i [Hi Hn]].
    assert (Hi2 : (i < length es)%nat) by (apply nth_error_Some; congruence).
    apply (Hst i e Hn). apply Hhi. lia.
  - unfold prior. fold r. unfold sts. rewrite run_states_nth by lia. unfold St. f_equal. f_equal. lia.
Qed.

Theorem prior_cut b tag : 0 <= b -> (2 <= tag)%Z ->
  exists P R, es = P ++ R /\ (forall p, In p P -> kle_ev p b tag) /\ (forall r, In r R -> klt_ev b tag r) /\
              prior sts s0 b tag = St P.
Proof. intros Hb Ht. apply prior_cut_gen; [exact Hb|right; exact Ht]. Qed.

Theorem time_at_cut_gen b tag : 0 <= b -> (0 < b \/ (2 <= tag)%Z) ->
  exists P R, es = P ++ R /\ (forall p, In p P -> kle_ev p b tag) /\ (forall r, In r R -> klt_ev b tag r) /\
              time_at sts s0 b tag == Ecut (St P) b.
Proof.
  intros Hb Ht. destruct (prior_cut_gen b tag Hb Ht) as (P & R & E & HP & HR & Hp).
  exists P, R. repeat split; try assumption.
  unfold time_at. rewrite Hp, Qred_correct. apply (tu_at_cut P R b tag E HP HR).
Qed.

Theorem time_at_cut b tag : 0 <= b -> (2 <= tag)%Z ->
  exists P R, es = P ++ R /\ (forall p, In p P -> kle_ev p b tag) /\ (forall r, In r R -> klt_ev b tag r) /\
              time_at sts s0 b tag == Ecut (St P) b.
Proof. intros Hb Ht. apply time_at_cut_gen; [exact Hb|right; exact Ht]. Qed.

(* ---- the pauses between two keys, as a sum over the rows ---- *)
Definition kltb (b : Q) (tag : Z) (b' : Q) (tag' : Z) : bool := qlt b b' || (qeq b b' && (tag <? tag')%Z).
Definition inrange (b1 : Q) (t1 : Z) (b2 : Q) (t2 : Z) (b : Q) (tag : Z) : bool := kltb b1 t1 b tag && negb (kltb b2 t2 b tag).
Definition rsum (b1 : Q) (t1 : Z) (b2 : Q) (t2 : Z) (tagE : Z) (rows : list (Q * Q)) : Q :=
  fold_right (fun r acc => (if inrange b1 t1 b2 t2 (fst r) tagE then snd r else 0) + acc) 0 rows.
(* the stops whose STOP_END key, and the delays whose DELAY_END key, lie in ((b1,t1), (b2,t2)] *)
Definition pauses_between (b1 : Q) (t1 : Z) (b2 : Q) (t2 : Z) : Q :=
  rsum b1 t1 b2 t2 tSTOP_END (td_stops td) + rsum b1 t1 b2 t2 tDELAY_END (td_delays td).

Lemma kltb_spec b tag e : kltb b tag (e_beat e) (e_tag e) = true <-> klt_ev b tag e.
Proof. unfold kltb, klt_ev. rewrite orb_true_iff, andb_true_iff, qlt_spec, qeq_spec, Z.ltb_lt. tauto. Qed.
Lemma kle_not_klt e b tag : kle_ev e b tag -> ~ klt_ev b tag e.
Proof. unfold kle_ev, klt_ev. intros [A|[A A']] [B|[B B']]; try lra. lia. Qed.

Definition gsum (b1 : Q) (t1 : Z) (b2 : Q) (t2 : Z) (l : list ev) : Q :=
  fold_right (fun e acc => (if inrange b1 t1 b2 t2 (e_beat e) (e_tag e) && is_end_tag (e_tag e) then e_val e else 0) + acc) 0 l.

Lemma gsum_app b1 t1 b2 t2 l l' : gsum b1 t1 b2 t2 (l ++ l') == gsum b1 t1 b2 t2 l + gsum b1 t1 b2 t2 l'.
Proof. induction l as [|x l IH]; simpl; [ring|]. rewrite IH. ring. Qed.

Lemma gsum_cons b1 t1 b2 t2 x l : gsum b1 t1 b2 t2 (x :: l) =
  (if inrange b1 t1 b2 t2 (e_beat x) (e_tag x) && is_end_tag (e_tag x) then e_val x else 0) + gsum b1 t1 b2 t2 l.
Proof. reflexivity. Qed.

Lemma gsum_merge2 b1 t1 b2 t2 : forall fuel a b, gsum b1 t1 b2 t2 (merge2 fuel a b) == gsum b1 t1 b2 t2 a + gsum b1 t1 b2 t2 b.
Proof.
  induction fuel as [|f IH]; intros a b; cbn [merge2]; [apply gsum_app|].
  destruct a as [|x a']; [cbn [gsum fold_right]; ring|]. destruct b as [|y b']; [cbn [gsum fold_right]; ring|].
  destruct (ev_lt y x); rewrite !gsum_cons, IH, !gsum_cons; ring.
Qed.

Lemma gsum_tagged_other b1 t1 b2 t2 tag l : is_end_tag tag = false -> gsum b1 t1 b2 t2 (tagged tag l) == 0.
Proof. intro H. induction l as [|r l IH]; simpl; [reflexivity|]. rewrite H, andb_false_r, IH. ring. Qed.

Lemma gsum_tagged_end b1 t1 b2 t2 tag l : is_end_tag tag = true -> gsum b1 t1 b2 t2 (tagged tag l) == rsum b1 t1 b2 t2 tag l.
Proof. intro H. induction l as [|r l IH]; simpl; [reflexivity|]. rewrite H, andb_true_r, IH. reflexivity. Qed.

Lemma gsum_events b1 t1 b2 t2 : gsum b1 t1 b2 t2 es == pauses_between b1 t1 b2 t2.
Proof.
  unfold es, events. destruct (coalesce (td_warps td) [] []) as [ws wes]. cbn [fold_right]. unfold merge.
  rewrite !gsum_merge2.
  rewrite (gsum_tagged_other b1 t1 b2 t2 tWARP), (gsum_tagged_other b1 t1 b2 t2 tWARP_END), (gsum_tagged_other b1 t1 b2 t2 tBPM),
          (gsum_tagged_other b1 t1 b2 t2 tDELAY), (gsum_tagged_other b1 t1 b2 t2 tSTOP) by reflexivity.
  rewrite (gsum_tagged_end b1 t1 b2 t2 tDELAY_END), (gsum_tagged_end b1 t1 b2 t2 tSTOP_END) by reflexivity.
  unfold pauses_between. cbn [gsum fold_right]. ring.
Qed.

Lemma gsum_outside b1 t1 b2 t2 l : (forall e, In e l -> kle_ev e b1 t1 \/ klt_ev b2 t2 e) -> gsum b1 t1 b2 t2 l == 0.
Proof.
  intro H. induction l as [|x l IH]; simpl; [reflexivity|]. rewrite IH by (intros; apply H; right; assumption).
  assert (X : inrange b1 t1 b2 t2 (e_beat x) (e_tag x) = false).
  { unfold inrange. destruct (H x (or_introl eq_refl)) as [A|A].
    - apply kle_not_klt in A. destruct (kltb b1 t1 (e_beat x) (e_tag x)) eqn:K; [apply kltb_spec in K; contradiction|reflexivity].
    - apply kltb_spec in A. rewrite A. apply andb_false_r. }
  rewrite X. simpl. ring.
Qed.

Lemma gsum_inside b1 t1 b2 t2 l : (forall e, In e l -> klt_ev b1 t1 e /\ kle_ev e b2 t2) -> gsum b1 t1 b2 t2 l == psum l.
Proof.
  intro H. induction l as [|x l IH]; simpl; [reflexivity|]. rewrite IH by (intros; apply H; right; assumption).
  assert (X : inrange b1 t1 b2 t2 (e_beat x) (e_tag x) = true).
  { unfold inrange. destruct (H x (or_introl eq_refl)) as [A B]. apply kltb_spec in A. rewrite A.
    apply kle_not_klt in B. destruct (kltb b2 t2 (e_beat x) (e_tag x)) eqn:K; [apply kltb_spec in K; contradiction|reflexivity]. }
  rewrite X. simpl. reflexivity.
Qed.

(* ================================================================== the interval law *)
Theorem time_interval_law_gen b1 t1 b2 t2 c :
  0 <= b1 -> b1 <= b2 -> (0 < b1 \/ (2 <= t1)%Z) -> (0 < b2 \/ (2 <= t2)%Z) -> (b1 == b2 -> (t1 <= t2)%Z) ->
  (forall x, b1 <= x -> x < b2 -> is_rate td x c) ->
  time_at sts s0 b2 t2 == time_at sts s0 b1 t1 + c * (b2 - b1) + pauses_between b1 t1 b2 t2.
Proof.
  intros H0 H12 Ht1 Ht2 Htag Hrate.
  destruct (time_at_cut_gen b1 t1 H0 Ht1) as (P1 & R1 & E1 & HP1 & HR1 & T1).
  destruct (time_at_cut_gen b2 t2) as (P2 & R2 & E2 & HP2 & HR2 & T2); [lra|exact Ht2|].
  assert (Hk : forall e, kle_ev e b1 t1 -> klt_ev b2 t2 e -> False).
  { unfold kle_ev, klt_ev. intros e [A|[A A']] [B|[B B']]; try lra. assert (b1 == b2) by lra. specialize (Htag H). lia. }
  assert (HQ : exists Q, P2 = P1 ++ Q /\ R1 = Q ++ R2).
  { assert (E12 : P1 ++ R1 = P2 ++ R2) by congruence.
    apply app_eq_app in E12 as [l [[A B]|[A B]]].
    - destruct l as [|x l].
      + exists []. rewrite app_nil_r in A. simpl in B. split; [rewrite app_nil_r; symmetry; exact A|symmetry; exact B].
      + exfalso. apply (Hk x).
        * apply HP1. rewrite A. apply in_or_app. right. left. reflexivity.
        * apply HR2. rewrite B. left. reflexivity.
    - exists l. split; assumption. }
  destruct HQ as (Q & EP & ER). subst P2 R1.
  rewrite T1, T2.
  rewrite (interval_aux Q P1 R2 b1 t1 b2 t2 c E1); try assumption.
  - assert (G : gsum b1 t1 b2 t2 es == psum Q).
    { rewrite E1, !gsum_app.
      rewrite (gsum_outside b1 t1 b2 t2 P1) by (intros e He; left; apply HP1; exact He).
      rewrite (gsum_outside b1 t1 b2 t2 R2) by (intros e He; right; apply HR2; exact He).
      rewrite (gsum_inside b1 t1 b2 t2 Q); [ring|].
      intros e He. split; [apply HR1; apply in_or_app; left; exact He|apply HP2; apply in_or_app; right; exact He]. }
    rewrite <- G, gsum_events. reflexivity.
  - intros q Hq. split; [apply HR1; apply in_or_app; left; exact Hq|apply HP2; apply in_or_app; right; exact Hq].
Qed.

Theorem time_interval_law b1 t1 b2 t2 c :
  0 <= b1 -> b1 <= b2 -> (2 <= t1)%Z -> (2 <= t2)%Z -> (b1 == b2 -> (t1 <= t2)%Z) ->
  (forall x, b1 <= x -> x < b2 -> is_rate td x c) ->
  time_at sts s0 b2 t2 == time_at sts s0 b1 t1 + c * (b2 - b1) + pauses_between b1 t1 b2 t2.
Proof. intros H0 H12 Ht1 Ht2. apply time_interval_law_gen; auto. Qed.

(* ================================================================== before beat zero, and the anchor at beat zero *)
Lemma s0_ok : st_ok s0.
Proof.
  unfold st_ok, s0, init_state. cbn [s_bpm s_tag s_val]. split; [|discriminate].
  pose proof (dom_bpm_pos td D) as P. rewrite Hbpm in P. inversion P; subst. assumption.
Qed.

Theorem time_before_zero b tag : b < 0 -> time_at sts s0 b tag == - td_offset td + b * 60 / v0.
Proof.
  intro Hb.
  assert (Hall : forall i, (i < length sts)%nat -> key_lt b tag (nth i sts s0) = true).
  { intros i Hi. apply key_lt_spec. left. destruct i as [|i].
    - assert (E0 : nth 0 sts s0 = s0) by (unfold sts; destruct es; reflexivity). rewrite E0. unfold s0, init_state. simpl. exact Hb.
    - unfold sts in Hi. rewrite run_states_length in Hi.
      destruct (nth_error es i) as [e|] eqn:E; [|apply nth_error_None in E; lia].
      destruct (state_of_event es (init_state td v0) s0 i e E) as [A _]. fold sts in A. rewrite A.
      pose proof (events_nonneg td D e (nth_error_In _ _ E)). lra. }
  destruct (bisect_right_spec (key_lt b tag) sts s0) as (Hr & Hlo & _).
  { intros i j Hij _. apply Hall. lia. }
  assert (Hr0 : bisect_right (key_lt b tag) sts s0 = O).
  { destruct (bisect_right (key_lt b tag) sts s0) as [|r] eqn:Er; [reflexivity|]. exfalso.
    assert (X : key_lt b tag (nth 0 sts s0) = false) by (apply Hlo; lia).
    rewrite Hall in X; [discriminate X|]. unfold sts. rewrite run_states_length. lia. }
  unfold time_at, prior. rewrite Hr0. cbn [Nat.pred].
  assert (E0 : nth 0 sts s0 = s0) by (unfold sts; destruct es; reflexivity). rewrite E0.
  rewrite Qred_correct, tu_eq. unfold s0, init_state, state_rate. cbn [s_time s_beat s_tag s_warp s_bpm s_val].
  rewrite Qred_correct. unfold is_pause_tag, tBPM, tSTOP, tDELAY. simpl. unfold Qdiv. ring.
Qed.

Lemma zero_prefix : forall P R, es = P ++ R -> (forall p, In p P -> kle_ev p 0 tBPM) ->
  s_time (St P) == - td_offset td /\ s_beat (St P) == 0.
Proof.
  induction P as [|x P' IH] using rev_ind; intros R E HP.
  - unfold St, init_state. cbn [fold_left s_time s_beat]. split; [apply Qred_correct|reflexivity].
  - rewrite <- app_assoc in E. cbn [app] in E.
    destruct (IH (x :: R) E) as [A B]; [intros p Hp; apply HP; apply in_or_app; left; exact Hp|].
    assert (Hx : kle_ev x 0 tBPM) by (apply HP; apply in_or_app; right; left; reflexivity).
    assert (Hxb : e_beat x == 0).
    { pose proof (kle_beat _ _ _ Hx). assert (In x es) by (rewrite E; apply in_or_app; right; left; reflexivity).
      pose proof (events_nonneg td D x H0). lra. }
    split; [|rewrite St_last; unfold advance; cbn [s_beat]; exact Hxb].
    rewrite (step_time P' x R E), A, B, Hxb.
    assert (T : is_end_tag (e_tag x) = false).
    { destruct Hx as [X|[_ X]]; [lra|]. unfold is_end_tag, tBPM, tSTOP_END, tDELAY_END in *.
      destruct (Z.eqb_spec (e_tag x) 6); [lia|]. destruct (Z.eqb_spec (e_tag x) 4); [lia|]. reflexivity. }
    rewrite T. ring.
Qed.

Theorem time_at_zero : time_at sts s0 0 tBPM == - td_offset td.
Proof.
  destruct (time_at_cut 0 tBPM) as (P & R & E & HP & HR & T); [lra|unfold tBPM; lia|].
  rewrite T. destruct (zero_prefix P R E HP) as [A B]. unfold Ecut. rewrite A, B. ring.
Qed.

(* ================================================================== time never decreases as (beat, tag) increases *)
Lemma St_ok : forall P R, es = P ++ R -> st_ok (St P).
Proof.
  induction P as [|x P' IH] using rev_ind; intros R E; [exact s0_ok|].
  rewrite <- app_assoc in E. cbn [app] in E. rewrite St_last. apply advance_ok; [apply (IH (x :: R) E)|].
  pose proof (events_ok td D) as Hok. rewrite Forall_forall in Hok. apply Hok. fold es. rewrite E. apply in_or_app. right. left. reflexivity.
Qed.

Lemma state_rate_nonneg s : st_ok s -> 0 <= state_rate s.
Proof.
  intros [Hb _]. unfold state_rate. destruct (s_warp s); [lra|]. apply Qle_shift_div_l; [exact Hb|lra].
Qed.

Lemma St_beat_le : forall P R b tag, es = P ++ R -> 0 <= b -> (forall p, In p P -> kle_ev p b tag) -> s_beat (St P) <= b.
Proof.
  intros P R b tag E Hb HP. destruct P as [|p0 P0] eqn:EP; [unfold St, init_state; simpl; exact Hb|].
  destruct (last_of_nonempty (p0 :: P0)) as (P' & q & EPq); [discriminate|]. rewrite EPq in *.
  rewrite St_last. unfold advance. cbn [s_beat]. apply (kle_beat q b tag). apply HP. apply in_or_app. right. left. reflexivity.
Qed.

Lemma end_val_nonneg P e R : es = P ++ e :: R -> 0 <= (if is_end_tag (e_tag e) then e_val e else 0).
Proof.
  intro E. destruct (is_end_tag (e_tag e)) eqn:T; [|lra].
  destruct (end_before P e R E T) as (P' & q & EP & Hp & _ & Hv). rewrite <- Hv.
  pose proof (events_ok td D) as Hok. rewrite Forall_forall in Hok.
  assert (Hq : In q (events td)) by (fold es; rewrite E, EP; apply in_or_app; left; apply in_or_app; right; left; reflexivity).
  destruct (Hok q Hq) as [_ X]. apply X. exact Hp.
Qed.

Lemma mono_aux : forall Q P R b1 t1 b2 t2,
  es = P ++ Q ++ R ->
  (forall p, In p P -> kle_ev p b1 t1) ->
  (forall q, In q Q -> klt_ev b1 t1 q /\ kle_ev q b2 t2) ->
  0 <= b1 -> b1 <= b2 ->
  Ecut (St P) b1 <= Ecut (St (P ++ Q)) b2.
Proof.
  induction Q as [|e Q' IH]; intros P R b1 t1 b2 t2 E HP HQ H0 H12.
  - rewrite app_nil_r. unfold Ecut. pose proof (state_rate_nonneg (St P) (St_ok P R E)). nra.
  - cbn [app] in E.
    destruct (split_strict P e (Q' ++ R) E) as (SP & SR & _).
    destruct (HQ e (or_introl eq_refl)) as [Hk1 Hk2].
    pose proof (klt_beat _ _ _ Hk1) as Hb1e. pose proof (kle_beat _ _ _ Hk2) as Hbe2.
    assert (E' : es = (P ++ [e]) ++ Q' ++ R) by (rewrite <- app_assoc; exact E).
    assert (IH' : Ecut (St (P ++ [e])) (e_beat e) <= Ecut (St ((P ++ [e]) ++ Q')) b2).
    { apply (IH (P ++ [e]) R (e_beat e) (e_tag e) b2 t2 E').
      - intros p Hp. apply in_app_or in Hp as [Hp|[<-|[]]]; [apply ev_lt_kle, SP, Hp|apply kle_refl].
      - intros q Hq. split; [apply ev_lt_klt, SR, in_or_app; left; exact Hq|apply HQ; right; exact Hq].
      - lra.
      - exact Hbe2. }
    replace (P ++ e :: Q') with ((P ++ [e]) ++ Q') by (rewrite <- app_assoc; reflexivity).
    eapply Qle_trans; [|exact IH'].
    assert (Es' : Ecut (St (P ++ [e])) (e_beat e) == s_time (St (P ++ [e]))).
    { unfold Ecut. rewrite St_last. unfold advance at 2. cbn [s_beat]. ring. }
    rewrite Es', (step_time P e (Q' ++ R) E). unfold Ecut.
    pose proof (state_rate_nonneg (St P) (St_ok P (e :: Q' ++ R) E)).
    pose proof (end_val_nonneg P e (Q' ++ R) E). nra.
Qed.

Theorem time_at_monotone_gen b1 t1 b2 t2 :
  0 <= b1 -> b1 <= b2 -> (0 < b1 \/ (2 <= t1)%Z) -> (0 < b2 \/ (2 <= t2)%Z) -> (b1 == b2 -> (t1 <= t2)%Z) ->
  time_at sts s0 b1 t1 <= time_at sts s0 b2 t2.
Proof.
  intros H0 H12 Ht1 Ht2 Htag.
  destruct (time_at_cut_gen b1 t1 H0 Ht1) as (P1 & R1 & E1 & HP1 & HR1 & T1).
  destruct (time_at_cut_gen b2 t2) as (P2 & R2 & E2 & HP2 & HR2 & T2); [lra|exact Ht2|].
  assert (Hk : forall e, kle_ev e b1 t1 -> klt_ev b2 t2 e -> False).
  { unfold kle_ev, klt_ev. intros e [A|[A A']] [B|[B B']]; try lra. assert (b1 == b2) by lra. specialize (Htag H). lia. }
  assert (HQ : exists Q, P2 = P1 ++ Q /\ R1 = Q ++ R2).
  { assert (E12 : P1 ++ R1 = P2 ++ R2) by congruence.
    apply app_eq_app in E12 as [l [[A B]|[A B]]].
    - destruct l as [|x l].
      + exists []. rewrite app_nil_r in A. simpl in B. split; [rewrite app_nil_r; symmetry; exact A|symmetry; exact B].
      + exfalso. apply (Hk x).
        * apply HP1. rewrite A. apply in_or_app. right. left. reflexivity.
        * apply HR2. rewrite B. left. reflexivity.
    - exists l. split; assumption. }
  destruct HQ as (Q & EP & ER). subst P2 R1. rewrite T1, T2.
  apply (mono_aux Q P1 R2 b1 t1 b2 t2 E1); try assumption.
  intros q Hq. split; [apply HR1; apply in_or_app; left; exact Hq|apply HP2; apply in_or_app; right; exact Hq].
Qed.

Theorem time_at_monotone b1 t1 b2 t2 :
  0 <= b1 -> b1 <= b2 -> (2 <= t1)%Z -> (2 <= t2)%Z -> (b1 == b2 -> (t1 <= t2)%Z) ->
  time_at sts s0 b1 t1 <= time_at sts s0 b2 t2.
Proof. intros H0 H12 Ht1 Ht2. apply time_at_monotone_gen; auto. Qed.

(* ================================================================== the BPM reported for a beat *)
Theorem bpm_at_in_force b : 0 <= b -> bpm_in_force td b (bpm_at sts s0 b).
Proof.
  intro Hb. unfold bpm_at. destruct (qlt b 0) eqn:L; [apply qlt_spec in L; lra|].
  destruct (prior_cut b tBPM Hb) as (P & R & E & HP & HR & Hp); [unfold tBPM; lia|]. rewrite Hp.
  apply (bpm_at_cut P R b E Hb).
  - intros e He _. apply (kle_beat _ _ _ (HP e He)).
  - intros e He Ht. destruct (HR e He) as [X|[_ X]]; [exact X|]. rewrite Ht in X. lia.
Qed.

Theorem bpm_before_zero b : b < 0 -> bpm_at sts s0 b = v0.
Proof. intro Hb. unfold bpm_at. apply (proj2 (qlt_spec _ _)) in Hb. rewrite Hb. reflexivity. Qed.
End Law.

(* the state list the theorems speak about is the one [states] builds *)
Lemma states_is_sts td b0 v0 rest : td_bpms td = (b0, v0) :: rest -> b0 == 0 -> states td = EOk (sts td v0).
Proof.
  intros H E. unfold states. rewrite H. apply (proj2 (qeq_spec _ _)) in E. rewrite E. reflexivity.
Qed.

(* monotone over the whole line: negative beats included *)
Theorem time_at_monotone_all td b0 v0 rest : dom td -> td_bpms td = (b0, v0) :: rest -> b0 == 0 ->
  forall b1 t1 b2 t2, b1 <= b2 -> (2 <= t1)%Z -> (2 <= t2)%Z -> (b1 == b2 -> (t1 <= t2)%Z) ->
  time_at (sts td v0) (init_state td v0) b1 t1 <= time_at (sts td v0) (init_state td v0) b2 t2.
Proof.
  intros D H E b1 t1 b2 t2 H12 Ht1 Ht2 Htag.
  assert (Hv : 0 < v0) by (pose proof (dom_bpm_pos td D) as P; rewrite H in P; inversion P; subst; assumption).
  destruct (Qlt_le_dec b1 0) as [N1|N1].
  - rewrite (time_before_zero td v0 D b1 t1 N1).
    destruct (Qlt_le_dec b2 0) as [N2|N2].
    + rewrite (time_before_zero td v0 D b2 t2 N2).
      assert (b1 * 60 / v0 <= b2 * 60 / v0); [|lra].
      unfold Qdiv. apply Qmult_le_compat_r; [lra|]. apply Qlt_le_weak, Qinv_lt_0_compat. exact Hv.
    + apply Qle_trans with (- td_offset td).
      * assert (b1 * 60 / v0 <= 0); [|lra]. unfold Qdiv.
        assert (0 < / v0) by (apply Qinv_lt_0_compat; exact Hv). nra.
      * rewrite <- (time_at_zero td b0 v0 rest D H).
        apply (time_at_monotone td b0 v0 rest D H); [lra|exact N2|unfold tBPM; lia|exact Ht2|intros _; unfold tBPM; lia].
  - apply (time_at_monotone td b0 v0 rest D H); try assumption.
Qed.
