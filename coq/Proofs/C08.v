(* Lemmas for C08: the arithmetic that places a note in the canonical grid. *)
From Coq Require Import List ZArith NArith Bool Lia.
From SV Require Import Sx Str Notes.
Import ListNotations.
Open Scope Z_scope.

Lemma fold_lcm_divide_acc (ms : list note) a : (a | fold_left (fun a n => Z.lcm a (nb_d n)) ms a).
Proof.
  revert a. induction ms as [|n r IH]; intro a; simpl; [apply Z.divide_refl|].
  eapply Z.divide_trans; [apply Z.divide_lcm_l|apply IH].
Qed.

(* every denominator of the measure divides the row quantisation q *)
Lemma den_divides_lcm ms n : In n ms -> (nb_d n | lcm_den ms).
Proof.
  unfold lcm_den. generalize 1. induction ms as [|x r IH]; intros a H; simpl in *; [tauto|].
  destruct H as [->|H]; [|apply IH; assumption].
  eapply Z.divide_trans; [apply Z.divide_lcm_r|apply fold_lcm_divide_acc].
Qed.

(* and q is the least such number: it divides every common multiple *)
Lemma lcm_den_least ms q' : (forall n, In n ms -> (nb_d n | q')) -> (lcm_den ms | q').
Proof.
  unfold lcm_den. assert (H1 : (1 | q')) by apply Z.divide_1_l. revert H1. generalize 1.
  induction ms as [|x r IH]; intros a Ha H; simpl; [assumption|].
  apply IH; [|intros; apply H; right; assumption].
  apply Z.lcm_least; [assumption|apply H; left; reflexivity].
Qed.

Lemma lcm_den_pos ms : (forall n, In n ms -> 0 < nb_d n) -> 0 < lcm_den ms.
Proof.
  unfold lcm_den. assert (H1 : 0 < 1) by lia. revert H1. generalize 1.
  induction ms as [|x r IH]; intros a Ha H; simpl; [assumption|].
  apply IH; [|intros; apply H; right; assumption].
  assert (0 < nb_d x) by (apply H; left; reflexivity).
  pose proof (Z.lcm_nonneg a (nb_d x)).
  destruct (Z.eq_dec (Z.lcm a (nb_d x)) 0) as [E|E]; [|lia].
  apply Z.lcm_eq_0 in E. lia.
Qed.

(* empty or whole-beat measures have four rows *)
Lemma lcm_den_whole ms : (forall n, In n ms -> nb_d n = 1) -> lcm_den ms = 1.
Proof.
  unfold lcm_den. assert (G : forall a, a = 1 -> (forall n, In n ms -> nb_d n = 1) ->
    fold_left (fun a n => Z.lcm a (nb_d n)) ms a = 1); [|apply G; reflexivity].
  induction ms as [|x r IH]; intros a Ha H; simpl; [assumption|].
  apply IH; [|intros; apply H; right; assumption].
  rewrite (H x (or_introl eq_refl)), Ha. reflexivity.
Qed.

(* the row index is an exact integer below 4 q *)
Lemma row_index_exact q n : 0 < nb_d n -> 0 < q -> (nb_d n | q) ->
  row_index q n * nb_d n = (nb_n n mod (4 * nb_d n)) * q /\ 0 <= row_index q n < 4 * q.
Proof.
  intros Hd Hq [k Hk]. unfold row_index. subst q.
  assert (Hk0 : 0 < k) by nia.
  replace (nb_n n mod (4 * nb_d n) * (k * nb_d n)) with ((nb_n n mod (4 * nb_d n) * k) * nb_d n) by ring.
  rewrite Z.div_mul by lia.
  pose proof (Z.mod_pos_bound (nb_n n) (4 * nb_d n) ltac:(lia)).
  split; [ring|]. nia.
Qed.

(* the heart of the round trip: the cell (measure_index, row_index) of a measure written with
   4 q rows is decoded to the note's own beat:  (m * 4 * (4q) + r * 4) / (4q) = n / d *)
Lemma placed_beat_is_own_beat q n : 0 < nb_d n -> 0 < q -> (nb_d n | q) ->
  (measure_index n * 4 * (4 * q) + row_index q n * 4) * nb_d n = nb_n n * (4 * q).
Proof.
  intros Hd Hq Hdiv. destruct (row_index_exact q n Hd Hq Hdiv) as [Hr _].
  unfold measure_index.
  pose proof (Z.div_mod (nb_n n) (4 * nb_d n) ltac:(lia)) as Hdm.
  set (m := nb_n n / (4 * nb_d n)) in *. set (r := row_index q n) in *.
  set (rem := nb_n n mod (4 * nb_d n)) in *.
  clearbody m r rem. nia.
Qed.

(* two notes of one measure land on the same row iff they are on the same beat *)
Lemma same_row_iff_same_beat q x y :
  0 < nb_d x -> 0 < nb_d y -> 0 < q -> (nb_d x | q) -> (nb_d y | q) ->
  measure_index x = measure_index y ->
  (row_index q x = row_index q y <-> nb_n x * nb_d y = nb_n y * nb_d x).
Proof.
  intros Hx Hy Hq Dx Dy Hm.
  pose proof (placed_beat_is_own_beat q x Hx Hq Dx) as Px.
  pose proof (placed_beat_is_own_beat q y Hy Hq Dy) as Py.
  rewrite Hm in Px. set (m := measure_index y) in *. clearbody m.
  set (rx := row_index q x) in *. set (ry := row_index q y) in *. clearbody rx ry.
  split; intro H.
  - subst ry. nia.
  - assert (E : (m * 4 * (4 * q) + rx * 4) * (nb_d x * nb_d y) = (m * 4 * (4 * q) + ry * 4) * (nb_d x * nb_d y)) by nia.
    apply Z.mul_cancel_r in E; [lia|nia].
Qed.
