(* C14: a list of beat=value timing events written out and parsed back is unchanged (string level). *)
From Coq Require Import List ZArith NArith Bool Lia.
From SV Require Import Sx Str Beat Notes Proofs.C14 Proofs.StrFacts Proofs.C14Lex Proofs.NotesText.
Import ListNotations.
Open Scope Z_scope.

(* ---- plain decimals with any number of places ---- *)
Lemma fixed_point_shape_S c k : exists ip fp,
  fixed_point c (S k) = ip ++ 46%N :: fp /\ forallb is_digit ip = true /\ forallb is_digit fp = true /\
  length fp = S k /\ ip <> [] /\ N_of_digits (ip ++ fp) = Some c.
Proof.
  unfold fixed_point. set (ds := zpad (S (S k)) (digits_of_N c)).
  assert (Hd : forallb is_digit ds = true) by (apply zpad_digits, C14Lex.digits_of_N_digits).
  assert (Hl : (S (S k) <= length ds)%nat) by apply zpad_length.
  exists (take (length ds - S k) ds), (drop (length ds - S k) ds). repeat split.
  - apply forallb_take. exact Hd.
  - apply forallb_drop. exact Hd.
  - rewrite length_drop. lia.
  - intro E. apply (f_equal (@length N)) in E. rewrite length_take in E by lia. simpl in E. lia.
  - rewrite take_drop. apply N_of_digits_zpad.
Qed.

Lemma parse_body_dot (neg : bool) (ip fp : str) (c : N) : forallb is_digit ip = true -> forallb is_digit fp = true ->
  N_of_digits (ip ++ fp) = Some c -> parse_body (neg, ip ++ 46%N :: fp) = Got (neg, c, length fp).
Proof.
  intros Hi Hf Hn. unfold parse_body. rewrite split_dot by assumption. unfold all_digits. rewrite Hi, Hf. cbn [andb]. rewrite Hn. reflexivity.
Qed.
Lemma parse_body_nodot (neg : bool) (ip : str) (c : N) : forallb is_digit ip = true -> N_of_digits ip = Some c -> parse_body (neg, ip) = Got (neg, c, O).
Proof.
  intros Hi Hn. unfold parse_body, split_on. rewrite split_go_nodot by exact Hi. cbn [rev_append app]. unfold all_digits. rewrite Hi, Hn. reflexivity.
Qed.

(* the sign prefix and strip, for a body that starts and ends with a digit *)
Lemma parse_plain_signed (neg : bool) (body : str) (i0 : N) (r : str) (d : N) : body = i0 :: r -> (exists m, body = m ++ [d]) ->
  is_digit i0 = true -> is_digit d = true ->
  parse_plain ((if neg then [45%N] else @nil N) ++ body) = parse_body (neg, body).
Proof.
  intros Eb [m Em] Hi0 Hd. rewrite parse_plain_unfold.
  assert (Hstrip : strip ((if neg then [45%N] else @nil N) ++ body) = (if neg then [45%N] else @nil N) ++ body).
  { destruct neg; cbn [app].
    - rewrite Em. apply (strip_id 45%N m d); [reflexivity|apply digit_not_space; exact Hd].
    - destruct m as [|m0 m']; [rewrite Em; cbn [app]; apply strip_one; apply digit_not_space; exact Hd|].
      rewrite Em. cbn [app]. rewrite Eb in Em. inversion Em; subst m0.
      apply (strip_id i0 m' d); apply digit_not_space; assumption. }
  rewrite Hstrip. destruct neg; cbn [app]; [reflexivity|]. rewrite Eb.
  exact (f_equal parse_body (sign_digit i0 r Hi0)).
Qed.

Lemma last_digit (s : str) : s <> [] -> forallb is_digit s = true -> exists m d, s = m ++ [d] /\ is_digit d = true.
Proof.
  intros Hne H. destruct (exists_last Hne) as (m & d & E). exists m, d. split; [exact E|].
  rewrite E, forallb_app in H. apply andb_prop in H as [_ X]. simpl in X. apply andb_prop in X as [X _]. exact X.
Qed.

Lemma parse_plain_fixed_any (c : N) (neg : bool) (k : nat) :
  parse_plain ((if neg then [45%N] else @nil N) ++ fixed_point c k) = Got (neg, c, k).
Proof.
  destruct k as [|k].
  - unfold fixed_point. set (ds := zpad 1 (digits_of_N c)).
    assert (Hd : forallb is_digit ds = true) by (apply zpad_digits, C14Lex.digits_of_N_digits).
    assert (Hl : (1 <= length ds)%nat) by apply zpad_length.
    destruct ds as [|i0 r] eqn:E; [simpl in Hl; lia|].
    destruct (last_digit (i0 :: r)) as (m & d & Em & Hdd); [discriminate|exact Hd|].
    rewrite (parse_plain_signed neg (i0 :: r) i0 r d eq_refl); [|eauto|simpl in Hd; apply andb_prop in Hd as [X _]; exact X|exact Hdd].
    apply parse_body_nodot; [exact Hd|]. rewrite <- E. apply N_of_digits_zpad.
  - destruct (fixed_point_shape_S c k) as (ip & fp & E & Hi & Hf & Hl & Hne & Hn). rewrite E.
    destruct ip as [|i0 ip']; [congruence|].
    destruct (last_digit fp) as (m & d & Em & Hdd); [destruct fp; [discriminate|discriminate]|exact Hf|].
    rewrite (parse_plain_signed neg ((i0 :: ip') ++ 46%N :: fp) i0 (ip' ++ 46%N :: fp) d eq_refl).
    + rewrite <- Hl. exact (parse_body_dot neg (i0 :: ip') fp c Hi Hf Hn).
    + exists ((i0 :: ip') ++ 46%N :: m). rewrite Em, <- app_assoc. reflexivity.
    + simpl in Hi. apply andb_prop in Hi as [X _]. exact X.
    + exact Hdd.
Qed.

Theorem parse_dec_show d : parse_dec (show_dec d) = Got d.
Proof. destruct d as [neg c k]. unfold parse_dec, show_dec. cbn [dneg dcoef dplaces]. rewrite parse_plain_fixed_any. reflexivity. Qed.

(* ---- characters of the printed numbers ---- *)
Definition numch (c : N) : bool := is_digit c || N.eqb c 45 || N.eqb c 46.
Lemma digits_numch s : forallb is_digit s = true -> forallb numch s = true.
Proof. induction s as [|c s IH]; simpl; intro H; [reflexivity|]. apply andb_prop in H as [A B]. unfold numch at 1. rewrite A, (IH B). reflexivity. Qed.

Lemma fixed_point_numch c k : forallb numch (fixed_point c k) = true /\ fixed_point c k <> [] /\
  (exists i0 r, fixed_point c k = i0 :: r /\ is_digit i0 = true) /\ (exists m d, fixed_point c k = m ++ [d] /\ is_digit d = true).
Proof.
  destruct k as [|k].
  - unfold fixed_point. set (ds := zpad 1 (digits_of_N c)).
    assert (Hd : forallb is_digit ds = true) by (apply zpad_digits, C14Lex.digits_of_N_digits).
    assert (Hl : (1 <= length ds)%nat) by apply zpad_length.
    destruct ds as [|i0 r] eqn:E; [simpl in Hl; lia|]. repeat split; [apply digits_numch; exact Hd|discriminate| |].
    + exists i0, r. split; [reflexivity|]. simpl in Hd. apply andb_prop in Hd as [X _]. exact X.
    + apply last_digit; [discriminate|exact Hd].
  - destruct (fixed_point_shape_S c k) as (ip & fp & E & Hi & Hf & Hl & Hne & Hn). rewrite E. repeat split.
    + rewrite forallb_app. rewrite (digits_numch ip Hi). simpl. rewrite (digits_numch fp Hf). reflexivity.
    + destruct ip; discriminate.
    + destruct ip as [|i0 ip']; [congruence|]. exists i0, (ip' ++ 46%N :: fp). split; [reflexivity|]. simpl in Hi. apply andb_prop in Hi as [X _]. exact X.
    + destruct (last_digit fp) as (m & d & Em & Hdd); [destruct fp; [discriminate|discriminate]|exact Hf|].
      exists (ip ++ 46%N :: m), d. split; [rewrite Em, <- app_assoc; reflexivity|exact Hdd].
Qed.

Definition signed (neg : bool) (body : str) : str := (if neg then [45%N] else []) ++ body.
Lemma signed_facts neg c k : let s := signed neg (fixed_point c k) in
  forallb numch s = true /\ (exists c0 r, s = c0 :: r /\ is_space c0 = false) /\ (exists m d, s = m ++ [d] /\ is_digit d = true).
Proof.
  destruct (fixed_point_numch c k) as (Hn & Hne & (i0 & r & E & Hi0) & (m & d & Em & Hd)). unfold signed. repeat split.
  - destruct neg; simpl; [rewrite Hn; reflexivity|exact Hn].
  - destruct neg; [exists 45%N, (fixed_point c k); split; reflexivity|]. exists i0, r. split; [exact E|apply digit_not_space; exact Hi0].
  - exists ((if neg then [45%N] else []) ++ m), d. split; [rewrite Em, <- app_assoc; reflexivity|exact Hd].
Qed.

Lemma numch_nosep sep s : sep <> 45%N -> sep <> 46%N -> is_digit sep = false -> forallb numch s = true -> nosep sep s.
Proof.
  intros H1 H2 H3. unfold nosep. induction s as [|c s IH]; simpl; intro H; [reflexivity|]. apply andb_prop in H as [A B].
  rewrite (IH B), andb_true_r. apply negb_true_iff. apply N.eqb_neq. intro X. subst c.
  unfold numch in A. rewrite H3 in A. simpl in A. apply orb_prop in A as [A|A]; apply N.eqb_eq in A; congruence.
Qed.

(* ---- one row, a list of rows ---- *)
Lemma show3_signed t : show3 t = signed (thousandths t <? 0) (fixed_point (Z.to_N (Z.abs (thousandths t))) 3).
Proof. reflexivity. Qed.
Lemma show_dec_signed d : show_dec d = signed (dneg d) (fixed_point (dcoef d) (dplaces d)).
Proof. reflexivity. Qed.

Lemma parse_row_show (pre : str) e : (pre = [] \/ pre = [10%N]) -> Beat.parse_row (pre ++ show_event e) = Got e.
Proof.
  intro Hpre. destruct e as [t d]. unfold Beat.parse_row, show_event. cbn [fst snd].
  destruct (signed_facts (thousandths t <? 0) (Z.to_N (Z.abs (thousandths t))) 3) as (N1 & (c0 & r0 & E0 & S0) & _). cbv zeta in *.
  destruct (signed_facts (dneg d) (dcoef d) (dplaces d)) as (N2 & _ & (m & dd & Em & Hdd)). cbv zeta in *.
  rewrite <- show3_signed in *. rewrite <- show_dec_signed in *.
  assert (Hs : strip (pre ++ show3 t ++ 61%N :: show_dec d) = show3 t ++ 61%N :: show_dec d).
  { assert (F : first_last_ok (show3 t ++ 61%N :: show_dec d)).
    { right. exists c0, (r0 ++ 61%N :: m), dd. split; [rewrite E0, Em; simpl; rewrite <- app_assoc; reflexivity|].
      split; [exact S0|apply digit_not_space; exact Hdd]. }
    destruct Hpre as [-> | ->]; cbn [app]; [|rewrite strip_cons_space by reflexivity]; apply strip_first_last; exact F. }
  rewrite Hs. unfold split_on. rewrite split_go_sep by (apply numch_nosep; [discriminate|discriminate|reflexivity|exact N1]).
  rewrite split_go_nosep by (apply numch_nosep; [discriminate|discriminate|reflexivity|exact N2]). cbn [rev app].
  rewrite show3_reads_back, parse_dec_show. reflexivity.
Qed.

Lemma show_event_nosep e : nosep 44 (show_event e).
Proof.
  destruct e as [t d]. unfold show_event. cbn [fst snd].
  destruct (signed_facts (thousandths t <? 0) (Z.to_N (Z.abs (thousandths t))) 3) as (N1 & _). cbv zeta in *.
  destruct (signed_facts (dneg d) (dcoef d) (dplaces d)) as (N2 & _). cbv zeta in *.
  rewrite <- show3_signed in *. rewrite <- show_dec_signed in *.
  unfold nosep. rewrite forallb_app. simpl.
  pose proof (numch_nosep 44 (show3 t) ltac:(discriminate) ltac:(discriminate) eq_refl N1) as A.
  pose proof (numch_nosep 44 (show_dec d) ltac:(discriminate) ltac:(discriminate) eq_refl N2) as B.
  unfold nosep in A, B. rewrite A, B. reflexivity.
Qed.

Lemma parse_rows_show : forall es, parse_rows (map (fun e => [10%N] ++ show_event e) es) = Got es.
Proof.
  induction es as [|e es IH]; [reflexivity|]. cbn [map parse_rows]. rewrite (parse_row_show [10%N] e (or_intror eq_refl)), IH. reflexivity.
Qed.

(* a list of timing events written out and parsed back is unchanged *)
Theorem parse_events_show es : parse_events (Some (show_events es)) = Got es.
Proof.
  destruct es as [|e es]; [reflexivity|]. unfold parse_events, show_events.
  set (s := join [44%N; 10%N] (map show_event (e :: es))).
  assert (Hne : strip s <> []).
  { destruct e as [t d].
    destruct (signed_facts (thousandths t <? 0) (Z.to_N (Z.abs (thousandths t))) 3) as (_ & (c0 & r0 & E0 & S0) & _). cbv zeta in *.
    rewrite <- show3_signed in E0.
    assert (Es : exists r, s = c0 :: r).
    { unfold s. cbn [map]. unfold show_event at 1. cbn [fst snd]. rewrite E0. destruct es; cbn [map join app]; eauto. }
    destruct Es as [r Er]. rewrite Er. unfold strip. cbn [lstrip]. rewrite S0. unfold rstrip. cbn [rstrip_go]. rewrite S0.
    rewrite rev_append_rev. simpl. discriminate. }
  destruct (strip s) eqn:Es; [congruence|]. unfold s.
  pose proof (split_join 44%N ltac:(discriminate) (map show_event (e :: es)) []) as SJ. cbn [app] in SJ. rewrite SJ.
  - cbn [map parse_rows]. pose proof (parse_row_show [] e (or_introl eq_refl)) as P0. cbn [app] in P0. rewrite P0.
    rewrite map_map, parse_rows_show. reflexivity.
  - discriminate.
  - reflexivity.
  - apply Forall_forall. intros x Hx. apply in_map_iff in Hx as [e' [<- _]]. apply show_event_nosep.
Qed.
