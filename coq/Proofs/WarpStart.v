(* C12: the WARP-tag clause for EVERY coalesced warp segment, whatever stops, delays or BPM changes sit on or inside it:
   at the time its start is reached, beat_at under the WARP tag answers the segment's start. *)
From Coq Require Import List ZArith QArith Bool Lia Lqa Setoid Sorting.Sorted Arith.
From SV Require Import Sx Beat Engine Proofs.EngineFacts Proofs.Hittable Proofs.TimeLaw Proofs.BeatAt Proofs.WarpElapse Proofs.ZeroTags Proofs.InPause.
Import ListNotations.
Open Scope Q_scope.

(* a sorted list whose elements are all at or after t: the ones at t, then the ones after *)
Lemma split_run : forall (l : list state) t, times_sorted l -> (forall x, In x l -> t <= s_time x) ->
  exists run post, l = run ++ post /\ (forall x, In x run -> s_time x == t) /\ (forall x, In x post -> t < s_time x).
Proof.
  induction l as [|a l IH]; intros t Hs Hge.
  - exists [], []. repeat split; intros x [].
  - inversion Hs as [|? ? Hs' Hall]; subst. rewrite Forall_forall in Hall.
    destruct (Qlt_le_dec t (s_time a)) as [L|L].
    + exists [], (a :: l). repeat split; [intros x []|]. intros x [<-|Hx]; [exact L|]. specialize (Hall x Hx). cbv beta in Hall. lra.
    + assert (Ea : s_time a == t) by (specialize (Hge a (or_introl eq_refl)); lra).
      destruct (IH t Hs') as (run & post & -> & Hr & Hp); [intros x Hx; apply Hge; right; exact Hx|].
      exists (a :: run), post. repeat split; [|exact Hp]. intros x [<-|Hx]; [exact Ea|apply Hr; exact Hx].
Qed.

Section Start.
Variables (td : tdata) (b0 v0 : Q) (rest : list (Q * Q)).
Hypothesis D : dom td.
Hypothesis Hbpm : td_bpms td = (b0, v0) :: rest.
Hypothesis Hb0 : b0 == 0.

Let es := events td.
Let s0 := init_state td v0.
Notation St' := (St td v0).

Variable segs : list (Q * Q).
Hypothesis Hsp : segs_props segs.
Hypothesis HW : forall y, In y es -> e_tag y = tWARP -> exists s e, In (s, e) segs /\ y = mkW s.
Hypothesis HWE : forall y, In y es -> e_tag y = tWARP_END -> exists s e, In (s, e) segs /\ y = mkWE e.
Hypothesis HinW : forall s e, In (s, e) segs -> In (mkW s) es.
Hypothesis HinWE : forall s e, In (s, e) segs -> In (mkWE e) es.

(* the state in front of a WARP event is outside every warp, on an earlier beat (or the initial state on beat 0) *)
Lemma before_any_warp s e P R : In (s, e) segs -> es = P ++ mkW s :: R ->
  s_warp (St' P) = false /\ (P <> [] -> s_beat (St' P) < s).
Proof.
  intros Hseg E.
  destruct (split_strict td D P (mkW s) R E) as (SP & SR & _).
  split.
  - destruct (s_warp (St' P)) eqn:W; [|reflexivity]. exfalso. unfold St in W. rewrite warp_fold in W. cbn [init_state s_warp] in W.
    apply (flag_invariant segs es Hsp (events_sorted td D) HW HWE HinW HinWE P (mkW s :: R) E) in W.
    destruct W as (s' & e' & Hin & A & B). apply B.
    pose proof (SP _ A) as L. apply ev_lt_spec in L. cbn [mkW e_beat e_tag] in L.
    assert (Hs' : s' < s) by (destruct L as [X|[_ X]]; [exact X|lia]).
    pose proof (sp_le _ Hsp s' e' Hin).
    assert (He' : e' < s) by (destruct (sp_sep _ Hsp s' e' s e Hin Hseg) as [X|[X|X]]; [inversion X; subst; lra|exact X|pose proof (sp_le _ Hsp s e Hseg); lra]).
    pose proof (HinWE s' e' Hin) as Hin'. rewrite E in Hin'. apply in_app_or in Hin' as [X|[X|X]]; [exact X|discriminate X|].
    exfalso. specialize (SR _ X). apply ev_lt_spec in SR. cbn [mkW mkWE e_beat e_tag] in SR. destruct SR as [Y|[Y _]]; lra.
  - intro Hne. destruct (last_of_nonempty P Hne) as (P' & q & EPq). rewrite EPq in *. rewrite St_last. cbn [advance s_beat].
    assert (Hqin : In q (P' ++ [q])) by (apply in_or_app; right; left; reflexivity).
    specialize (SP q Hqin). apply ev_lt_spec in SP. cbn [mkW e_beat e_tag] in SP.
    destruct SP as [X|[_ X]]; [exact X|]. exfalso.
    assert (Hq : In q es) by (rewrite E; apply in_or_app; left; apply in_or_app; right; left; reflexivity).
    destruct (tag_cases td b0 v0 rest Hbpm q Hq) as [T|[T|[T|[T|[T|[T|T]]]]]]; rewrite T in X; unfold tWARP, tWARP_END, tBPM, tDELAY, tDELAY_END, tSTOP, tSTOP_END in X; lia.
Qed.

(* the WARP state is strictly later than the state in front of it, unless the segment starts on beat 0 with nothing before *)
Lemma warp_state_time s e P R : In (s, e) segs -> es = P ++ mkW s :: R ->
  s_time (St' (P ++ [mkW s])) == s_time (St' P) + (s - s_beat (St' P)) * (60 / s_bpm (St' P)) /\ 0 < 60 / s_bpm (St' P).
Proof.
  intros Hseg E. destruct (before_any_warp s e P R Hseg E) as [Hw _].
  rewrite (step_time td b0 v0 rest D Hbpm P (mkW s) R E). cbn [mkW e_tag e_beat]. change (is_end_tag tWARP) with false. cbv iota.
  unfold state_rate. rewrite Hw.
  destruct (St_ok td b0 v0 rest D Hbpm P (mkW s :: R) E) as [Hb _].
  split; [ring|]. apply Qlt_shift_div_l; [exact Hb|lra].
Qed.

Section One.
Variables (s e : Q) (P R : list ev).
Hypothesis Hseg : In (s, e) segs.
Hypothesis E : es = P ++ mkW s :: R.

Definition sWs : state := St' (P ++ [mkW s]).
Definition Tws : Q := s_time sWs.

Lemma sorted_all : times_sorted (sts td v0).
Proof. apply (states_monotone td); [exact D|]. apply (states_is_sts td b0 v0 rest Hbpm Hb0). Qed.

Lemma sts_split3 : sts td v0 = run_states s0 P ++ sWs :: tl (run_states sWs R).
Proof.
  unfold sts. fold es. fold s0. rewrite E, run_states_app. cbn [run_states].
  change (fold_left advance P s0) with (St' P).
  rewrite (run_states_last P s0) at 2. rewrite <- app_assoc. cbn [app]. f_equal. f_equal.
  replace (advance (St' P) (mkW s)) with sWs by (unfold sWs; rewrite St_last; reflexivity).
  destruct R; reflexivity.
Qed.

(* every state before the WARP state is strictly earlier, unless nothing precedes a segment starting on beat 0 *)
Lemma pre_cases : (forall x, In x (run_states s0 P) -> s_time x < Tws) \/ (P = [] /\ s_time s0 == Tws).
Proof.
  destruct (warp_state_time s e P R Hseg E) as [Et Hr]. destruct (before_any_warp s e P R Hseg E) as [_ Hb].
  assert (Hs_nonneg : 0 <= s) by exact (events_nonneg td D (mkW s) (HinW s e Hseg)).
  destruct (Nat.eq_dec (length P) 0) as [L|L].
  - apply length_zero_iff_nil in L. destruct (Qlt_le_dec 0 s) as [X|X].
    + left. intros x Hx. rewrite L in Hx. cbn [run_states] in Hx. destruct Hx as [<-|[]].
      unfold Tws, sWs. rewrite Et, L. unfold St. cbn [fold_left]. fold s0. cbn [s0 init_state s_beat s_bpm] in *. rewrite L in Hr. unfold St in Hr. cbn [fold_left init_state s_bpm] in Hr. nra.
    + right. split; [exact L|]. unfold Tws, sWs. rewrite Et, L. unfold St. cbn [fold_left]. fold s0. cbn [s0 init_state s_beat]. assert (Es : s == 0) by lra. rewrite Es. ring.
  - left. assert (Hne : P <> []) by (intro X; rewrite X in L; simpl in L; congruence). specialize (Hb Hne).
    assert (HP : s_time (St' P) < Tws) by (unfold Tws, sWs; rewrite Et; nra).
    intros x Hx. pose proof sorted_all as S. rewrite sts_split3 in S.
    rewrite (run_states_last P s0) in Hx. apply in_app_or in Hx as [Hx|[<-|[]]]; [|exact HP].
    rewrite (run_states_last P s0) in S. rewrite <- app_assoc in S. apply SS_app_inv in S as (_ & _ & C).
    specialize (C x (St' P) Hx (or_introl eq_refl)). cbv beta in C. change (fold_left advance P s0) with (St' P) in C. lra.
Qed.

(* a later WARP-tagged state is strictly later in time *)
Lemma later_warp_states : forall x, In x (tl (run_states sWs R)) -> s_tag x = tWARP -> Tws < s_time x.
Proof.
  intros x Hx Ht. destruct (In_tl_run_states R sWs x Hx) as (N & N' & ER & Hne & ->).
  destruct (last_of_nonempty N Hne) as (N0 & y & ->).
  rewrite fold_left_app in Ht |- *. cbn [fold_left advance s_tag] in Ht.
  assert (Hy : In y es) by (rewrite E, ER; apply in_or_app; right; right; apply in_or_app; left; apply in_or_app; right; left; reflexivity).
  destruct (HW y Hy Ht) as (s' & e' & Hin & ->).
  set (P2 := P ++ mkW s :: N0).
  assert (E2 : es = P2 ++ mkW s' :: N') by (unfold P2; rewrite E, ER; repeat rewrite <- app_assoc; reflexivity).
  destruct (warp_state_time s' e' P2 N' Hin E2) as [Et Hr]. destruct (before_any_warp s' e' P2 N' Hin E2) as [_ Hb].
  assert (Hne2 : P2 <> []) by (unfold P2; destruct P; discriminate). specialize (Hb Hne2).
  assert (Ef : fold_left advance N0 sWs = St' P2) by (unfold sWs, P2, St; rewrite <- fold_left_app, <- app_assoc; reflexivity).
  cbn [fold_left]. rewrite Ef. replace (advance (St' P2) (mkW s')) with (St' (P2 ++ [mkW s'])) by (rewrite St_last; reflexivity).
  rewrite Et.
  (* the state in front of that later WARP event is sWs or comes after it *)
  assert (Hge : Tws <= s_time (St' P2)).
  { pose proof sorted_all as S. rewrite sts_split3 in S. apply SS_app_inv in S as (_ & B & _).
    apply StronglySorted_inv in B as [_ Hall]. rewrite Forall_forall in Hall.
    destruct N0 as [|z N1]; [unfold P2; cbn [app]; unfold Tws, sWs; lra|].
    apply Hall. rewrite <- Ef. rewrite ER.
    assert (G : forall L st N N'', L = N ++ N'' -> N <> [] -> In (fold_left advance N st) (tl (run_states st L))).
    { intros L st N1' N'' -> Hn. destruct N1' as [|a N2]; [congruence|]. cbn [app run_states tl fold_left].
      clear. revert st a. induction N2 as [|b N3 IH]; intros st a; cbn [fold_left app run_states].
      - destruct N''; left; reflexivity.
      - right. apply IH. }
    apply (G _ sWs (z :: N1) (mkW s' :: N')); [rewrite <- app_assoc; reflexivity|discriminate]. }
  nra.
Qed.

(* at the time the segment's start is reached, the WARP tag answers the start *)
Theorem warp_tag_start d : fst (beat_at_raw (sts td v0) d Tws tWARP) == s.
Proof.
  pose proof sorted_all as S. rewrite sts_split3 in S.
  assert (Stail : times_sorted (sWs :: tl (run_states sWs R))) by (apply SS_app_inv in S as (_ & B & _); exact B).
  apply StronglySorted_inv in Stail as [Stl Hall]. rewrite Forall_forall in Hall.
  destruct (split_run (tl (run_states sWs R)) Tws Stl) as (run & post & Etl & Hrun & Hpost); [intros x Hx; apply Hall; exact Hx|].
  assert (Htags : forall y, In y run -> (tWARP < s_tag y)%Z).
  { intros y Hy. assert (Hin : In y (tl (run_states sWs R))) by (rewrite Etl; apply in_or_app; left; exact Hy).
    destruct (Z.eq_dec (s_tag y) tWARP) as [T|T].
    - exfalso. pose proof (later_warp_states y Hin T). specialize (Hrun y Hy). lra.
    - (* tags are never below WARP *)
      destruct (In_tl_run_states R sWs y Hin) as (N & N' & ER & Hne & ->).
      destruct (last_of_nonempty N Hne) as (N0 & z & ->). rewrite fold_left_app in T |- *. cbn [fold_left advance s_tag] in T |- *.
      assert (Hz : In z es) by (rewrite E, ER; apply in_or_app; right; right; apply in_or_app; left; apply in_or_app; right; left; reflexivity).
      destruct (tag_cases td b0 v0 rest Hbpm z Hz) as [X|[X|[X|[X|[X|[X|X]]]]]]; rewrite X in *; unfold tWARP, tWARP_END, tBPM, tDELAY, tDELAY_END, tSTOP, tSTOP_END in *; lia. }
  rewrite sts_split3, Etl.
  destruct pre_cases as [Hpre|[EP T0]].
  - replace (run_states s0 P ++ sWs :: run ++ post) with (run_states s0 P ++ ([] ++ sWs :: run) ++ post) by (cbn [app]; reflexivity).
    rewrite (beat_at_on_state_time (run_states s0 P) [] sWs run post d Tws tWARP).
    + unfold sWs. rewrite St_last. reflexivity.
    + exact Hpre.
    + intros y Hy. cbn [app] in Hy. destruct Hy as [<-|Hy]; [reflexivity|apply Hrun; exact Hy].
    + exact Hpost.
    + unfold sWs. rewrite St_last. cbn [advance s_tag mkW e_tag]. lia.
    + exact Htags.
  - rewrite EP. cbn [run_states].
    replace ([s0] ++ sWs :: run ++ post) with ([] ++ ([s0] ++ sWs :: run) ++ post) by (cbn [app]; reflexivity).
    rewrite (beat_at_on_state_time [] [s0] sWs run post d Tws tWARP).
    + unfold sWs. rewrite St_last. reflexivity.
    + intros y [].
    + intros y Hy. cbn [app] in Hy. destruct Hy as [<-|[<-|Hy]]; [exact T0|reflexivity|apply Hrun; exact Hy].
    + exact Hpost.
    + unfold sWs. rewrite St_last. cbn [advance s_tag mkW e_tag]. lia.
    + exact Htags.
Qed.

(* ---- the default tag: the furthest beat reached at that time (stops and delays of positive length) ---- *)
Section Furthest.
Hypothesis Hpos : forall r, In r (td_stops td) \/ In r (td_delays td) -> 0 < snd r.

Lemma state_ge : forall N0 N', R = N0 ++ N' -> Tws <= s_time (St' (P ++ mkW s :: N0)).
Proof.
  intros N0 N' ER. pose proof sorted_all as S. rewrite sts_split3 in S. apply SS_app_inv in S as (_ & B & _).
  apply StronglySorted_inv in B as [_ Hall]. rewrite Forall_forall in Hall.
  destruct N0 as [|z N1]; [cbn [app]; unfold Tws, sWs; lra|].
  assert (Ef : fold_left advance (z :: N1) sWs = St' (P ++ mkW s :: z :: N1)) by (unfold sWs, St; rewrite <- fold_left_app, <- app_assoc; reflexivity).
  rewrite <- Ef. apply Hall. rewrite ER.
  assert (G : forall L st N N'', L = N ++ N'' -> N <> [] -> In (fold_left advance N st) (tl (run_states st L))).
  { intros L st N1' N'' -> Hn. destruct N1' as [|a N2]; [congruence|]. cbn [app run_states tl fold_left].
    clear. revert st a. induction N2 as [|b N3 IH]; intros st a; cbn [fold_left app run_states].
    - destruct N''; left; reflexivity.
    - right. apply IH. }
  apply (G _ sWs (z :: N1) N'); [reflexivity|discriminate].
Qed.

Lemma end_val_pos z : In z es -> is_end_tag (e_tag z) = true -> 0 < e_val z.
Proof.
  intros Hz Ht. unfold is_end_tag in Ht. apply orb_true_iff in Ht as [Ht|Ht]; apply Z.eqb_eq in Ht.
  - assert (H : In z (tagged tSTOP_END (td_stops td))) by (apply (in_tagged_of_tag td b0 v0 rest Hbpm z tSTOP_END _ Hz Ht); tauto).
    apply tagged_In' in H as (r & Hr & ->). cbn [mkev e_val]. apply Hpos. left. exact Hr.
  - assert (H : In z (tagged tDELAY_END (td_delays td))) by (apply (in_tagged_of_tag td b0 v0 rest Hbpm z tDELAY_END _ Hz Ht); tauto).
    apply tagged_In' in H as (r & Hr & ->). cbn [mkev e_val]. apply Hpos. right. exact Hr.
Qed.

(* a state reached through an END event is strictly later: its pause lasted *)
Lemma end_states_later : forall y, In y (tl (run_states sWs R)) -> is_end_tag (s_tag y) = true -> Tws < s_time y.
Proof.
  intros y Hy Ht. destruct (In_tl_run_states R sWs y Hy) as (N & N' & ER & Hne & ->).
  destruct (last_of_nonempty N Hne) as (N0 & z & ->).
  rewrite fold_left_app in Ht |- *. cbn [fold_left advance s_tag] in Ht.
  set (P2 := P ++ mkW s :: N0).
  assert (E2 : es = P2 ++ z :: N') by (unfold P2; rewrite E, ER; repeat rewrite <- app_assoc; reflexivity).
  assert (Ef : fold_left advance N0 sWs = St' P2) by (unfold sWs, P2, St; rewrite <- fold_left_app, <- app_assoc; reflexivity).
  cbn [fold_left]. rewrite Ef. replace (advance (St' P2) z) with (St' (P2 ++ [z])) by (rewrite St_last; reflexivity).
  rewrite (step_time td b0 v0 rest D Hbpm P2 z N' E2), Ht.
  destruct (end_pairs td b0 v0 rest D Hbpm P2 z N' E2 Ht) as (P' & q & EP & Hq & Hbq & Hv & Hqt).
  assert (Hsb : s_beat (St' P2) = e_beat z) by (rewrite EP, St_last; cbn [advance s_beat]; exact Hbq).
  assert (Hz : In z es) by (rewrite E2; apply in_or_app; right; left; reflexivity).
  pose proof (end_val_pos z Hz Ht) as Hv0.
  assert (Hge : Tws <= s_time (St' P2)) by (apply (state_ge N0 ([z] ++ N')); rewrite ER, <- app_assoc; reflexivity).
  rewrite Hsb. setoid_replace ((e_beat z - e_beat z) * state_rate (St' P2)) with 0 by ring. lra.
Qed.

Lemma sts_beats_sorted : StronglySorted (fun a b => s_beat a <= s_beat b) (sts td v0).
Proof.
  unfold sts. assert (G : forall L st, StronglySorted ev_ge L -> (forall x, In x L -> s_beat st <= e_beat x) ->
                        StronglySorted (fun a b => s_beat a <= s_beat b) (run_states st L)).
  { induction L as [|x r IH]; intros st Hsort Hbeat; cbn [run_states]; [repeat constructor|].
    apply StronglySorted_inv in Hsort as [Hsort' Hhd]. rewrite Forall_forall in Hhd.
    assert (IHr : StronglySorted (fun a b => s_beat a <= s_beat b) (run_states (advance st x) r)).
    { apply IH; [exact Hsort'|]. intros e' He'. unfold advance; cbn [s_beat]. apply ev_ge_beat. apply Hhd. exact He'. }
    constructor; [exact IHr|]. apply Forall_forall. intros y Hy.
    destruct (In_run_states r (advance st x) y Hy) as (N & N' & -> & ->).
    destruct (Nat.eq_dec (length N) 0) as [L0|L0].
    - apply length_zero_iff_nil in L0. subst N. cbn [fold_left advance s_beat]. apply Hbeat. left. reflexivity.
    - assert (Hne : N <> []) by (intro X; rewrite X in L0; simpl in L0; congruence).
      destruct (last_of_nonempty N Hne) as (N1 & z & ->). rewrite fold_left_app. cbn [fold_left advance s_beat].
      apply Hbeat. right. apply in_or_app. left. apply in_or_app. right. left. reflexivity. }
  apply G; [apply events_sorted; exact D|]. intros x Hx. cbn [init_state s_beat]. apply (events_nonneg td D x Hx).
Qed.

(* at the time the segment's start is reached, the default tag answers the beat of the last state reached at that time,
   and no state at that time lies on a later beat *)
Theorem warp_default_furthest d :
  exists x, In x (sts td v0) /\ s_time x == Tws /\ fst (beat_at_raw (sts td v0) d Tws tSTOP) == s_beat x /\
            (forall y, In y (sts td v0) -> s_time y == Tws -> s_beat y <= s_beat x).
Proof.
  pose proof sorted_all as S. rewrite sts_split3 in S.
  assert (Stail : times_sorted (sWs :: tl (run_states sWs R))) by (apply SS_app_inv in S as (_ & B & _); exact B).
  apply StronglySorted_inv in Stail as [Stl Hall]. rewrite Forall_forall in Hall.
  destruct (split_run (tl (run_states sWs R)) Tws Stl) as (run & post & Etl & Hrun & Hpost); [intros x Hx; apply Hall; exact Hx|].
  destruct (exists_last (l := sWs :: run) ltac:(discriminate)) as (L' & x & EL).
  assert (HLt : forall y, In y (sWs :: run) -> s_time y == Tws) by (intros y [<-|Hy]; [reflexivity|apply Hrun; exact Hy]).
  assert (Hxin : In x (sWs :: run)) by (rewrite EL; apply in_or_app; right; left; reflexivity).
  assert (Hxtag : (s_tag x <= tSTOP)%Z).
  { destruct Hxin as [<-|Hx]; [unfold sWs; rewrite St_last; cbn [advance s_tag mkW e_tag]; unfold tWARP, tSTOP; lia|].
    assert (Hin : In x (tl (run_states sWs R))) by (rewrite Etl; apply in_or_app; left; exact Hx).
    destruct (is_end_tag (s_tag x)) eqn:Te.
    - exfalso. pose proof (end_states_later x Hin Te). specialize (Hrun x Hx). lra.
    - destruct (In_tl_run_states R sWs x Hin) as (N & N' & ER & Hne & Ex). subst x.
      destruct (last_of_nonempty N Hne) as (N0 & z & ->). rewrite fold_left_app in Te |- *. cbn [fold_left advance s_tag] in Te |- *.
      assert (Hz : In z es) by (rewrite E, ER; apply in_or_app; right; right; apply in_or_app; left; apply in_or_app; right; left; reflexivity).
      destruct (tag_cases td b0 v0 rest Hbpm z Hz) as [X|[X|[X|[X|[X|[X|X]]]]]]; rewrite X in *; unfold tWARP, tWARP_END, tBPM, tDELAY, tDELAY_END, tSTOP, tSTOP_END in *; try lia; discriminate Te. }
  pose proof sts_beats_sorted as SB.
  exists x.
  assert (Esplit : sts td v0 = run_states s0 P ++ (L' ++ x :: []) ++ post) by (rewrite sts_split3, Etl, <- EL; cbn [app]; reflexivity).
  split; [rewrite Esplit; apply in_or_app; right; apply in_or_app; left; apply in_or_app; right; left; reflexivity|].
  split; [apply HLt; exact Hxin|].
  split.
  - rewrite Esplit. destruct pre_cases as [Hpre|[EP T0]].
    + apply (beat_at_on_state_time (run_states s0 P) L' x [] post d Tws tSTOP).
      * exact Hpre.
      * intros y Hy. apply HLt. rewrite EL. exact Hy.
      * exact Hpost.
      * exact Hxtag.
      * intros y [].
    + rewrite EP. cbn [run_states].
      replace ([s0] ++ (L' ++ [x]) ++ post) with ([] ++ (([s0] ++ L') ++ x :: []) ++ post) by (cbn [app]; rewrite <- app_assoc; reflexivity).
      apply (beat_at_on_state_time [] ([s0] ++ L') x [] post d Tws tSTOP).
      * intros y [].
      * intros y Hy. rewrite <- app_assoc in Hy. cbn [app] in Hy. destruct Hy as [<-|Hy]; [exact T0|]. apply HLt. rewrite EL. exact Hy.
      * exact Hpost.
      * exact Hxtag.
      * intros y [].
  - intros y Hy Hty. rewrite Esplit in Hy, SB.
    apply in_app_or in Hy as [Hy|Hy].
    + (* before the block: earlier in the list, beats never decrease *)
      apply SS_app_inv in SB as (_ & _ & C). apply (C y x Hy). apply in_or_app. left. apply in_or_app. right. left. reflexivity.
    + apply in_app_or in Hy as [Hy|Hy].
      * apply in_app_or in Hy as [Hy|[<-|[]]]; [|lra].
        apply SS_app_inv in SB as (_ & B & _). apply SS_app_inv in B as (B1 & _ & _). apply SS_app_inv in B1 as (_ & _ & C).
        apply (C y x Hy). left. reflexivity.
      * specialize (Hpost y Hy). lra.
Qed.
End Furthest.

(* ---- the default tag, pauses of any length (zero included): the last state at that time that is not a STOP_END state
        answers, and a STOP_END state shares the beat of the STOP state directly in front of it ---- *)
Section FurthestAll.

Lemma last_ok_split {T} (ok : T -> bool) : forall l a, ok a = true ->
  exists run1 x run2, a :: l = run1 ++ x :: run2 /\ ok x = true /\ forall y, In y run2 -> ok y = false.
Proof.
  induction l as [|z l' IH] using rev_ind; intros a Ha.
  - exists [], a, []. repeat split; [exact Ha|intros y []].
  - destruct (IH a Ha) as (run1 & x & run2 & Eq & Hx & H2). destruct (ok z) eqn:Z.
    + exists (a :: l'), z, []. repeat split; [exact Z|intros y []].
    + exists run1, x, (run2 ++ [z]). split; [|split; [exact Hx|]].
      * change (a :: l' ++ [z]) with ((a :: l') ++ [z]). rewrite Eq, <- app_assoc. reflexivity.
      * intros y Hy. apply in_app_or in Hy as [Hy|[<-|[]]]; [apply H2; exact Hy|exact Z].
Qed.

Lemma In_fold_run_states : forall L st N N'', L = N ++ N'' -> In (fold_left advance N st) (run_states st L).
Proof.
  intros L st N. revert L st. induction N as [|a N IH]; intros L st N'' ->; cbn [app fold_left].
  - destruct N''; left; reflexivity.
  - cbn [run_states]. right. apply (IH _ _ N''). reflexivity.
Qed.

Lemma state_tag_le y : In y (tl (run_states sWs R)) -> (s_tag y <= tSTOP_END)%Z.
Proof.
  intro Hin. destruct (In_tl_run_states R sWs y Hin) as (N & N' & ER & Hne & ->).
  destruct (last_of_nonempty N Hne) as (N0 & z & ->). rewrite fold_left_app. cbn [fold_left advance s_tag].
  assert (Hz : In z es) by (rewrite E, ER; apply in_or_app; right; right; apply in_or_app; left; apply in_or_app; right; left; reflexivity).
  destruct (tag_cases td b0 v0 rest Hbpm z Hz) as [X|[X|[X|[X|[X|[X|X]]]]]]; rewrite X; unfold tWARP, tWARP_END, tBPM, tDELAY, tDELAY_END, tSTOP, tSTOP_END; lia.
Qed.

(* a STOP_END state among those reached at the time of the WARP state: the state in front of it is its STOP state, on the same beat,
   also reached at that time *)
Lemma stop_end_pred y : In y (tl (run_states sWs R)) -> s_tag y = tSTOP_END -> s_time y == Tws ->
  exists y', In y' (sWs :: tl (run_states sWs R)) /\ s_tag y' = tSTOP /\ s_beat y' == s_beat y /\ s_time y' == Tws.
Proof.
  intros Hy Ht Hty. destruct (In_tl_run_states R sWs y Hy) as (N & N' & ER & Hne & ->).
  destruct (last_of_nonempty N Hne) as (N0 & z & ->).
  rewrite fold_left_app in Ht, Hty |- *. cbn [fold_left advance s_tag] in Ht.
  set (P2 := P ++ mkW s :: N0).
  assert (E2 : es = P2 ++ z :: N') by (unfold P2; rewrite E, ER; repeat rewrite <- app_assoc; reflexivity).
  assert (Ef : fold_left advance N0 sWs = St' P2) by (unfold sWs, P2, St; rewrite <- fold_left_app, <- app_assoc; reflexivity).
  assert (Hend : is_end_tag (e_tag z) = true) by (unfold is_end_tag; rewrite Ht; reflexivity).
  destruct (end_pairs td b0 v0 rest D Hbpm P2 z N' E2 Hend) as (P' & q & EP & Hq & Hbq & Hv & Hqt).
  exists (St' P2). split; [|split; [|split]].
  - rewrite <- Ef. change (sWs :: tl (run_states sWs R)) with (sWs :: tl (run_states sWs R)).
    assert (Hr : run_states sWs R = sWs :: tl (run_states sWs R)) by (destruct R; reflexivity). rewrite <- Hr.
    apply (In_fold_run_states R sWs N0 ([z] ++ N')). rewrite ER, <- app_assoc. reflexivity.
  - rewrite EP, St_last. cbn [advance s_tag]. rewrite Hq, Ht. reflexivity.
  - cbn [fold_left]. rewrite Ef. cbn [advance s_beat]. rewrite EP, St_last. cbn [advance s_beat]. rewrite Hbq. reflexivity.
  - assert (Hsb : s_beat (St' P2) = e_beat z) by (rewrite EP, St_last; cbn [advance s_beat]; exact Hbq).
    assert (Hge : Tws <= s_time (St' P2)) by (apply (state_ge N0 ([z] ++ N')); rewrite ER, <- app_assoc; reflexivity).
    cbn [fold_left] in Hty. rewrite Ef in Hty. replace (advance (St' P2) z) with (St' (P2 ++ [z])) in Hty by (rewrite St_last; reflexivity).
    rewrite (step_time td b0 v0 rest D Hbpm P2 z N' E2), Hend, Hsb in Hty.
    assert (Hz : In z es) by (rewrite E2; apply in_or_app; right; left; reflexivity).
    assert (Hv0 : 0 <= e_val z).
    { assert (H : In z (tagged tSTOP_END (td_stops td))) by (apply (in_tagged_of_tag td b0 v0 rest Hbpm z tSTOP_END _ Hz Ht); tauto).
      apply tagged_In' in H as (r & Hr & ->). cbn [mkev e_val]. pose proof (dom_stop_pos td D) as F. rewrite Forall_forall in F. apply F. exact Hr. }
    setoid_replace ((e_beat z - e_beat z) * state_rate (St' P2)) with 0 in Hty by ring. lra.
Qed.

Theorem warp_default_furthest_all d :
  exists x, In x (sts td v0) /\ s_time x == Tws /\ fst (beat_at_raw (sts td v0) d Tws tSTOP) == s_beat x /\
            (forall y, In y (sts td v0) -> s_time y == Tws -> s_beat y <= s_beat x).
Proof.
  pose proof sorted_all as S. rewrite sts_split3 in S.
  assert (Stail : times_sorted (sWs :: tl (run_states sWs R))) by (apply SS_app_inv in S as (_ & B & _); exact B).
  apply StronglySorted_inv in Stail as [Stl Hall]. rewrite Forall_forall in Hall.
  destruct (split_run (tl (run_states sWs R)) Tws Stl) as (run & post & Etl & Hrun & Hpost); [intros x Hx; apply Hall; exact Hx|].
  set (ok := fun y : state => (s_tag y <=? tSTOP)%Z).
  assert (Hok0 : ok sWs = true) by (unfold ok, sWs; rewrite St_last; cbn [advance s_tag mkW e_tag]; reflexivity).
  destruct (last_ok_split ok run sWs Hok0) as (run1 & x & run2 & EL & Hxok & H2).
  assert (HLt : forall y, In y (sWs :: run) -> s_time y == Tws) by (intros y [<-|Hy]; [reflexivity|apply Hrun; exact Hy]).
  assert (Hxin : In x (sWs :: run)) by (rewrite EL; apply in_or_app; right; left; reflexivity).
  assert (Hxtag : (s_tag x <= tSTOP)%Z) by (unfold ok in Hxok; apply Z.leb_le in Hxok; exact Hxok).
  assert (H2tag : forall y, In y run2 -> (tSTOP < s_tag y)%Z) by (intros y Hy; specialize (H2 y Hy); unfold ok in H2; apply Z.leb_gt in H2; exact H2).
  pose proof sts_beats_sorted as SB.
  assert (Esplit : sts td v0 = run_states s0 P ++ (run1 ++ x :: run2) ++ post) by (rewrite sts_split3, Etl, <- EL; cbn [app]; reflexivity).
  exists x.
  split; [rewrite Esplit; apply in_or_app; right; apply in_or_app; left; apply in_or_app; right; left; reflexivity|].
  split; [apply HLt; exact Hxin|].
  (* beats of the states in front of x, and x itself *)
  assert (Hfront : forall y, In y (run1 ++ [x]) -> s_beat y <= s_beat x).
  { intros y Hy. apply in_app_or in Hy as [Hy|[<-|[]]]; [|lra].
    rewrite Esplit in SB. apply SS_app_inv in SB as (_ & B & _). apply SS_app_inv in B as (B1 & _ & _). apply SS_app_inv in B1 as (_ & _ & C).
    apply (C y x Hy). left. reflexivity. }
  split.
  - rewrite Esplit. destruct pre_cases as [Hpre|[EP T0]].
    + apply (beat_at_on_state_time (run_states s0 P) run1 x run2 post d Tws tSTOP).
      * exact Hpre.
      * intros y Hy. apply HLt. rewrite EL. exact Hy.
      * exact Hpost.
      * exact Hxtag.
      * exact H2tag.
    + rewrite EP. cbn [run_states].
      replace ([s0] ++ (run1 ++ x :: run2) ++ post) with ([] ++ (([s0] ++ run1) ++ x :: run2) ++ post) by (cbn [app]; rewrite <- app_assoc; reflexivity).
      apply (beat_at_on_state_time [] ([s0] ++ run1) x run2 post d Tws tSTOP).
      * intros y [].
      * intros y Hy. rewrite <- app_assoc in Hy. cbn [app] in Hy. destruct Hy as [<-|Hy]; [exact T0|]. apply HLt. rewrite EL. exact Hy.
      * exact Hpost.
      * exact Hxtag.
      * exact H2tag.
  - intros y Hy Hty. rewrite Esplit in Hy.
    apply in_app_or in Hy as [Hy|Hy].
    + rewrite Esplit in SB. apply SS_app_inv in SB as (_ & _ & C). apply (C y x Hy). apply in_or_app. left. apply in_or_app. right. left. reflexivity.
    + apply in_app_or in Hy as [Hy|Hy]; [|specialize (Hpost y Hy); lra].
      apply in_app_or in Hy as [Hy|[<-|Hy]]; [apply Hfront; apply in_or_app; left; exact Hy|lra|].
      (* a state behind x at that time: a STOP_END state; the STOP state in front of it is in front of x or x itself *)
      assert (Hyin : In y (tl (run_states sWs R))).
      { assert (Hyf : In y (sWs :: run)) by (rewrite EL; apply in_or_app; right; right; exact Hy).
        destruct Hyf as [<-|Hyr]; [|rewrite Etl; apply in_or_app; left; exact Hyr].
        exfalso. specialize (H2 _ Hy). congruence. }
      assert (Hyt : s_tag y = tSTOP_END) by (pose proof (state_tag_le y Hyin); specialize (H2tag y Hy); unfold tSTOP, tSTOP_END in *; lia).
      destruct (stop_end_pred y Hyin Hyt Hty) as (y' & Hy' & Ty' & By' & Tt').
      rewrite <- By'. apply Hfront.
      assert (Hy'f : In y' (sWs :: run)).
      { destruct Hy' as [<-|Hy']; [left; reflexivity|]. rewrite Etl in Hy'. apply in_app_or in Hy' as [X|X]; [right; exact X|].
        specialize (Hpost y' X). lra. }
      rewrite EL in Hy'f. apply in_app_or in Hy'f as [X|[X|X]]; [apply in_or_app; left; exact X|apply in_or_app; right; left; exact X|].
      exfalso. specialize (H2tag y' X). rewrite Ty' in H2tag. lia.
Qed.
End FurthestAll.
End One.
End Start.


(* the time at which a segment's start is reached is what time_at says for (s, WARP) *)
Lemma time_at_warp_start td b0 v0 rest : dom td -> td_bpms td = (b0, v0) :: rest -> b0 == 0 ->
  forall segs, segs_props segs ->
  (forall y, In y (events td) -> e_tag y = tWARP -> exists s e, In (s, e) segs /\ y = mkW s) ->
  (forall y, In y (events td) -> e_tag y = tWARP_END -> exists s e, In (s, e) segs /\ y = mkWE e) ->
  (forall s e, In (s, e) segs -> In (mkW s) (events td)) ->
  (forall s e, In (s, e) segs -> In (mkWE e) (events td)) ->
  forall s e P R, In (s, e) segs -> events td = P ++ mkW s :: R ->
  time_at (sts td v0) (init_state td v0) s tWARP == Tws td v0 s P.
Proof.
  intros D Hbpm Hb0 segs Hsp HW HWE HinW HinWE s e P R Hseg E.
  destruct (split_strict td D P (mkW s) R E) as (SP & SR & _).
  assert (Hs0 : 0 <= s) by exact (events_nonneg td D (mkW s) (HinW s e Hseg)).
  destruct (Qlt_le_dec 0 s) as [Ps|Zs].
  - destruct (time_at_cut_gen td b0 v0 rest D Hbpm s tWARP Hs0 (or_introl Ps)) as (Pc & Rc & Ec & HPc & HRc & T).
    assert (EPc : Pc = P ++ [mkW s]).
    { apply (cut_unique (P ++ [mkW s]) R Pc Rc s tWARP).
      - rewrite <- Ec, <- app_assoc. symmetry. exact E.
      - intros p Hp. apply in_app_or in Hp as [Hp|[<-|[]]]; [|right; split; [reflexivity|cbn [mkW e_tag]; lia]].
        specialize (SP p Hp). apply ev_lt_spec in SP. cbn [mkW e_beat e_tag] in SP. destruct SP as [X|[X X']]; [left; exact X|right; split; [exact X|lia]].
      - intros r Hr. specialize (SR r Hr). apply ev_lt_spec in SR. cbn [mkW e_beat e_tag] in SR. destruct SR as [X|[X X']]; [left; exact X|right; split; [exact X|exact X']].
      - exact HPc.
      - exact HRc. }
    rewrite EPc in T. rewrite T. unfold Ecut, Tws, sWs. rewrite St_last. cbn [advance s_beat mkW e_beat]. ring.
  - assert (Es : s == 0) by lra.
    assert (EP : P = []).
    { destruct P as [|p P']; [reflexivity|exfalso]. specialize (SP p (or_introl eq_refl)). apply ev_lt_spec in SP. cbn [mkW e_beat e_tag] in SP.
      assert (Hp : In p (events td)) by (rewrite E; left; reflexivity).
      pose proof (events_nonneg td D p Hp) as Hn.
      destruct SP as [X|[_ X]]; [lra|].
      destruct (tag_cases td b0 v0 rest Hbpm p Hp) as [T|[T|[T|[T|[T|[T|T]]]]]]; rewrite T in X; unfold tWARP, tWARP_END, tBPM, tDELAY, tDELAY_END, tSTOP, tSTOP_END in X; lia. }
    rewrite (time_at_beat_compat _ _ s 0 tWARP Es), (time_at_zero_low td b0 v0 rest D Hbpm tWARP) by (unfold tWARP; lia).
    destruct (warp_state_time td b0 v0 rest D Hbpm segs Hsp HW HWE HinW HinWE s e P R Hseg E) as [Et _].
    unfold Tws, sWs. rewrite Et, EP. unfold St. cbn [fold_left init_state s_time s_beat]. rewrite Qred_correct, Es. ring.
Qed.

(* ... stated with time_at: for every coalesced segment start s, beat_at(time_at(s, WARP), WARP) = s *)
Theorem warp_tag_start_td td b0 v0 rest : dom td -> td_bpms td = (b0, v0) :: rest -> b0 == 0 ->
  exists segs : list (Q * Q),
    (forall x, in_raw (td_warps td) x <-> exists s e, In (s, e) segs /\ s <= x /\ x < e) /\
    forall s e d, In (s, e) segs ->
      fst (beat_at_raw (sts td v0) d (time_at (sts td v0) (init_state td v0) s tWARP) tWARP) == s.
Proof.
  intros D Hbpm Hb0. destruct (warp_segments td D) as (segs & Hsp & HW & HWE & HinW & HinWE & Hraw).
  exists segs. split; [exact Hraw|]. intros s e d Hseg.
  pose proof (HinW s e Hseg) as Hin. apply in_split in Hin as (P & R & E).
  pose proof (time_at_warp_start td b0 v0 rest D Hbpm Hb0 segs Hsp HW HWE HinW HinWE s e P R Hseg E) as ET.
  rewrite (beat_at_raw_compat _ _ _ _ tWARP ET).
  apply (warp_tag_start td b0 v0 rest D Hbpm Hb0 segs Hsp HW HWE HinW HinWE s e P R Hseg E d).
Qed.

(* ... and the default tag: the furthest beat reached at that time (pauses of any length, zero included) *)
Theorem warp_default_furthest_td td b0 v0 rest : dom td -> td_bpms td = (b0, v0) :: rest -> b0 == 0 ->
  exists segs : list (Q * Q),
    (forall x, in_raw (td_warps td) x <-> exists s e, In (s, e) segs /\ s <= x /\ x < e) /\
    forall s e d, In (s, e) segs ->
      let T := time_at (sts td v0) (init_state td v0) s tWARP in
      exists x, In x (sts td v0) /\ s_time x == T /\ fst (beat_at_raw (sts td v0) d T tSTOP) == s_beat x /\
                (forall y, In y (sts td v0) -> s_time y == T -> s_beat y <= s_beat x).
Proof.
  intros D Hbpm Hb0. destruct (warp_segments td D) as (segs & Hsp & HW & HWE & HinW & HinWE & Hraw).
  exists segs. split; [exact Hraw|]. intros s e d Hseg. cbv zeta.
  pose proof (HinW s e Hseg) as Hin. apply in_split in Hin as (P & R & E).
  pose proof (time_at_warp_start td b0 v0 rest D Hbpm Hb0 segs Hsp HW HWE HinW HinWE s e P R Hseg E) as ET.
  destruct (warp_default_furthest_all td b0 v0 rest D Hbpm Hb0 segs Hsp HW HWE HinW HinWE s e P R Hseg E d) as (x & Hx & Tx & Ax & Fx).
  exists x. split; [exact Hx|]. split; [rewrite ET; exact Tx|]. split.
  - rewrite (beat_at_raw_compat _ _ _ _ tSTOP ET). exact Ax.
  - intros y Hy Hty. apply (Fx y Hy). rewrite <- ET. exact Hty.
Qed.
