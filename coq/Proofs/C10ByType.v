(* C10, per-type grouping: ungrouping a list of items whose rows were permuted (same beat) gives the same notes,
   beats non-decreasing, whatever the orphaned_notes policy - no note lies inside a joined hold of its column. *)
From Coq Require Import List Arith ZArith NArith Bool Lia Sorting.Sorted Sorting.Permutation.
From SV Require Import Sx Str Notes Group Proofs.GroupRefine Proofs.C07 Proofs.C09 Proofs.C10.
Import ListNotations.
Local Open Scope nat_scope.

Definition item_notes (i : item) : list note :=
  match i with Plain n => [n] | Joined h tb => [h; tail_note h tb] end.

(* beat of a is not after the beat of b *)
Definition ble (a b : note) : Prop := (nb_n a * nb_d b <= nb_n b * nb_d a)%Z.

Lemma push_sorted_perm t : forall p, Permutation (push_sorted t p) (t :: p).
Proof.
  induction p as [|x r IH]; simpl; [reflexivity|]. destruct (note_lt t x); [reflexivity|].
  rewrite IH. apply perm_swap.
Qed.

Lemma SS_app_inv' {T} (R : T -> T -> Prop) l1 l2 : StronglySorted R (l1 ++ l2) ->
  StronglySorted R l1 /\ StronglySorted R l2 /\ (forall x y, In x l1 -> In y l2 -> R x y).
Proof.
  induction l1 as [|a l1 IH]; simpl; intro H.
  - repeat split; [constructor|exact H|intros ? ? []].
  - inversion H as [|? ? H' Ha]; subst. destruct (IH H') as (A & B & C). rewrite Forall_forall in Ha. repeat split.
    + constructor; [exact A|]. apply Forall_forall. intros z Hz. apply Ha. apply in_or_app. left. exact Hz.
    + exact B.
    + intros x y [<-|Hx] Hy; [apply Ha; apply in_or_app; right; exact Hy|apply C; assumption].
Qed.

Section Run.
Variables (p0 : Z) (ns : list note).
Hypothesis Hs : StronglySorted lt ns.
Hypothesis Hwf : Forall (wf p0) ns.

Lemma wf_in n : In n ns -> wf p0 n.
Proof. rewrite Forall_forall in Hwf. apply Hwf. Qed.

Lemma lt_ble a b : In a ns -> In b ns -> lt a b -> ble a b.
Proof.
  intros Ha Hb H. destruct (wf_in a Ha) as (Da & _ & Pa & _). destruct (wf_in b Hb) as (Db & _ & Pb & _).
  unfold lt, note_lt in H. destruct (pos_cmp a b) eqn:E; try discriminate.
  apply pos_cmp_lt in E; [|assumption..]. unfold ble. destruct E as [E|[_ [E|[E _]]]]; lia.
Qed.
Lemma ble_refl a : ble a a.
Proof. unfold ble. lia. Qed.
Lemma ble_trans a b c : In a ns -> In b ns -> In c ns -> ble a b -> ble b c -> ble a c.
Proof.
  intros Ha Hb Hc. destruct (wf_in a Ha) as (Da & _). destruct (wf_in b Hb) as (Db & _). destruct (wf_in c Hc) as (Dc & _).
  unfold ble. intros H1 H2.
  assert (E : (nb_n a * nb_d c * nb_d b <= nb_n c * nb_d a * nb_d b)%Z) by nia.
  apply Z.mul_le_mono_pos_r in E; [exact E|exact Db].
Qed.
Lemma nlt_ble a b : In a ns -> In b ns -> ~ lt a b -> ble b a.
Proof.
  intros Ha Hb H. destruct (sorted_total ns a b Hs Ha Hb) as [->|[L|L]]; [apply ble_refl|contradiction|apply lt_ble; assumption].
Qed.
Lemma lt_not_ble a b : In a ns -> In b ns -> lt a b -> ncol a = ncol b -> ~ ble b a.
Proof.
  intros Ha Hb H Hc. destruct (wf_in a Ha) as (Da & _ & Pa & _). destruct (wf_in b Hb) as (Db & _ & Pb & _).
  unfold lt, note_lt in H. destruct (pos_cmp a b) eqn:E; try discriminate.
  apply pos_cmp_lt in E; [|assumption..]. unfold ble. destruct E as [E|[_ [E|[_ E]]]]; lia.
Qed.

(* a list sorted by position splits into those before n and those not before n *)
Lemma sorted_split n : In n ns -> forall pend, StronglySorted lt pend -> (forall t, In t pend -> In t ns) ->
  exists S P', pend = S ++ P' /\ (forall s, In s S -> lt s n) /\ (forall t, In t P' -> ~ lt t n).
Proof.
  intros Hn. induction pend as [|x r IH]; intros Hp Hin; [exists [], []; repeat split; intros ? []|].
  inversion Hp as [|? ? Hp' Hx]; subst. rewrite Forall_forall in Hx.
  destruct (note_lt x n) eqn:E.
  - destruct (IH Hp') as (S & P' & -> & HS & HP); [intros; apply Hin; right; assumption|].
    exists (x :: S), P'. repeat split; [|exact HP]. intros s [<-|Hs']; [exact E|apply HS; exact Hs'].
  - exists [], (x :: r). repeat split; [intros ? []|]. intros t [<-|Ht] L; [unfold lt in L; congruence|].
    assert (lt x n); [|unfold lt in *; congruence].
    apply (lt_trans p0 x t n); [apply wf_in, Hin; left; reflexivity|apply wf_in, Hin; right; exact Ht|apply wf_in; exact Hn|apply Hx; exact Ht|exact L].
Qed.

(* what the items must satisfy; every clause is about membership, so it survives any reordering *)
Record good (L : list item) : Prop := {
  g_head : forall i, In i L -> In (item_head i) ns;
  g_tail : forall h tb, In (Joined h tb) L -> In (tail_note h tb) ns /\ lt h (tail_note h tb);
  g_inside : forall h tb i, In (Joined h tb) L -> In i L -> item_head i <> h -> ncol (item_head i) = ncol h ->
             lt (item_head i) h \/ lt (tail_note h tb) (item_head i)
}.

Lemma good_perm L L' : Permutation L L' -> good L -> good L'.
Proof.
  intros P [A B C]. constructor.
  - intros i Hi. apply A. eapply Permutation_in; [apply Permutation_sym; exact P|exact Hi].
  - intros h tb Hi. apply B. eapply Permutation_in; [apply Permutation_sym; exact P|exact Hi].
  - intros h tb i H1 H2. apply C; eapply Permutation_in; try (apply Permutation_sym; exact P); assumption.
Qed.

Lemma good_tails_distinct L h tb h' tb' : good L -> In (Joined h tb) L -> In (Joined h' tb') L -> h <> h' ->
  tail_note h tb <> tail_note h' tb'.
Proof.
  intros [A B C] H1 H2 Hne E.
  assert (Hc : ncol h' = ncol h) by (apply (f_equal ncol) in E; simpl in E; congruence).
  destruct (B h tb H1) as [T1 L1]. destruct (B h' tb' H2) as [T2 L2].
  destruct (C h tb (Joined h' tb') H1 H2) as [X|X]; [simpl; congruence|simpl; exact Hc| |].
  - simpl in X. destruct (C h' tb' (Joined h tb) H2 H1) as [Y|Y]; [simpl; congruence|simpl; congruence| |]; simpl in Y.
    + exact (lt_asym _ _ X Y).
    + rewrite <- E in Y. exact (lt_asym _ _ L1 Y).
  - simpl in X. rewrite E in X. exact (lt_asym _ _ L2 X).
Qed.

Definition hble (i j : item) : Prop := ble (item_head i) (item_head j).

Record inv (L1 L2 : list item) (pend acc : list note) : Prop := {
  iv_pend_sorted : StronglySorted lt pend;
  iv_pend_ns : forall t, In t pend -> In t ns;
  iv_pend_src : forall t, In t pend -> exists h tb, In (Joined h tb) L1 /\ t = tail_note h tb;
  iv_acc_ns : forall a, In a acc -> In a ns;
  iv_acc_sorted : StronglySorted ble (rev acc);
  iv_acc_pend : forall a t, In a acc -> In t pend -> ble a t;
  iv_acc_rest : forall a j, In a acc -> In j L2 -> ble a (item_head j)
}.

Lemma SS_lt_ble l : (forall x, In x l -> In x ns) -> StronglySorted lt l -> StronglySorted ble l.
Proof.
  intros Hin H. induction H as [|x r Hr IH Hx]; [constructor|]. rewrite Forall_forall in Hx. constructor.
  - apply IH. intros; apply Hin; right; assumption.
  - apply Forall_forall. intros y Hy. apply lt_ble; [apply Hin; left; reflexivity|apply Hin; right; exact Hy|apply Hx; exact Hy].
Qed.

Theorem run pol : forall L2 L1 pend acc,
  good (L1 ++ L2) -> StronglySorted hble (L1 ++ L2) -> NoDup (map item_head (L1 ++ L2)) ->
  inv L1 L2 pend acc ->
  exists out, ungroup_go pol L2 pend acc = UOk out /\
              Permutation out (rev acc ++ pend ++ flat_map item_notes L2) /\ StronglySorted ble out.
Proof.
  induction L2 as [|i rest IH]; intros L1 pend acc Hg Hh Hnd [I1 I2 I3 I4 I5 I6 I7].
  - cbn [ungroup_go flat_map]. exists (rev_append acc pend). split; [reflexivity|]. rewrite rev_append_rev, app_nil_r. split; [reflexivity|].
    apply SS_app; [exact I5|apply SS_lt_ble; assumption|]. intros x y Hx Hy. apply I6; [apply in_rev; exact Hx|exact Hy].
  - set (n := item_head i).
    assert (Hi : In i (L1 ++ i :: rest)) by (apply in_or_app; right; left; reflexivity).
    assert (Hn : In n ns) by (apply (g_head _ Hg i Hi)).
    destruct (sorted_split n Hn pend I1 I2) as (S & P' & Ep & HS & HP). subst pend.
    assert (Hpop : pop_before n (S ++ P') acc = (rev S ++ acc, P')) by (apply pop_before_spec; assumption).
    (* no pending tail sits on n's column *)
    assert (Hcp : col_pending n P' = false).
    { apply not_true_is_false. intro X. unfold col_pending in X. apply existsb_exists in X as [t [Ht Hc]]. apply Z.eqb_eq in Hc.
      destruct (I3 t (in_or_app _ _ _ (or_intror Ht))) as (h & tb & Hj & ->).
      assert (Hj' : In (Joined h tb) (L1 ++ i :: rest)) by (apply in_or_app; left; exact Hj).
      assert (Hne : item_head i <> h).
      { intro E. apply in_split in Hj as (l1 & l2 & ->). rewrite <- app_assoc in Hnd. cbn [app] in Hnd.
        rewrite map_app in Hnd. cbn [map] in Hnd. apply NoDup_remove_2 in Hnd. apply Hnd.
        apply in_or_app. right. rewrite map_app. apply in_or_app. right. left. simpl. exact E. }
      destruct (g_inside _ Hg h tb i Hj' Hi Hne) as [X|X]; [simpl in Hc; fold n; congruence| |].
      - (* n before h, yet h was emitted earlier: beats would decrease *)
        assert (Hhn : hble (Joined h tb) i).
        { apply in_split in Hj as (l1 & l2 & ->). rewrite <- app_assoc in Hh. apply SS_app_inv' in Hh as (_ & B & _).
          cbn [app] in B. inversion B as [|? ? _ Hall]; subst. rewrite Forall_forall in Hall. apply Hall. apply in_or_app. right. left. reflexivity. }
        unfold hble in Hhn. cbn [item_head] in Hhn. fold n in X, Hhn.
        apply (lt_not_ble n h Hn (g_head _ Hg _ Hj') X); [simpl in Hc; congruence|exact Hhn].
      - apply (HP _ Ht). exact X. }
    cbn [ungroup_go]. fold n. rewrite Hpop, Hcp.
    set (pend2 := match i with Plain _ => P' | Joined h tb => push_sorted (tail_note h tb) P' end).
    assert (Hgoal : exists out, ungroup_go pol rest pend2 (n :: rev S ++ acc) = UOk out /\
              Permutation out (rev (n :: rev S ++ acc) ++ pend2 ++ flat_map item_notes rest) /\ StronglySorted ble out).
    { apply (IH (L1 ++ [i])); try (rewrite <- app_assoc; assumption).
      assert (HSns : forall s, In s S -> In s ns) by (intros; apply I2; apply in_or_app; left; assumption).
      assert (HPns : forall t, In t P' -> In t ns) by (intros; apply I2; apply in_or_app; right; assumption).
      apply SS_app_inv' in I1 as (IS & IP & ISP).
      assert (Hnj : forall j, In j rest -> ble n (item_head j)).
      { intros j Hj. apply SS_app_inv' in Hh as (_ & B & _). inversion B as [|? ? _ Hall]; subst. rewrite Forall_forall in Hall. apply Hall. exact Hj. }
      assert (Htail : forall h tb, i = Joined h tb -> In (tail_note h tb) ns /\ lt n (tail_note h tb)).
      { intros h tb E. subst i. apply (g_tail _ Hg h tb Hi). }
      constructor.
      - destruct i as [x|h tb]; [exact IP|]. destruct (Htail h tb eq_refl) as [Tn Tl].
        apply (push_sorted_sorted p0 ns); try assumption. intros y Hy. split; [apply HPns; exact Hy|].
        destruct (I3 y (in_or_app _ _ _ (or_intror Hy))) as (h' & tb' & Hj & ->).
        apply (good_tails_distinct _ h' tb' h tb Hg); [apply in_or_app; left; exact Hj|exact Hi|].
        intro E. subst h'. apply in_split in Hj as (l1 & l2 & ->). rewrite <- app_assoc in Hnd. cbn [app] in Hnd.
        rewrite map_app in Hnd. cbn [map] in Hnd. apply NoDup_remove_2 in Hnd. apply Hnd.
        apply in_or_app. right. rewrite map_app. apply in_or_app. right. left. reflexivity.
      - intros t Ht. destruct i as [x|h tb]; [apply HPns; exact Ht|]. apply push_sorted_In in Ht as [->|Ht]; [apply (Htail h tb eq_refl)|apply HPns; exact Ht].
      - intros t Ht. destruct i as [x|h tb].
        + destruct (I3 t (in_or_app _ _ _ (or_intror Ht))) as (h' & tb' & Hj & E). exists h', tb'. split; [apply in_or_app; left; exact Hj|exact E].
        + apply push_sorted_In in Ht as [->|Ht]; [exists h, tb; split; [apply in_or_app; right; left; reflexivity|reflexivity]|].
          destruct (I3 t (in_or_app _ _ _ (or_intror Ht))) as (h' & tb' & Hj & E). exists h', tb'. split; [apply in_or_app; left; exact Hj|exact E].
      - intros a [<-|Ha]; [exact Hn|]. apply in_app_or in Ha as [Ha|Ha]; [apply HSns; apply in_rev; exact Ha|apply I4; exact Ha].
      - cbn [rev]. rewrite rev_app_distr, rev_involutive.
        apply SS_app; [apply SS_app; [exact I5|apply SS_lt_ble; assumption|]|repeat constructor|].
        + intros x y Hx Hy. apply I6; [apply in_rev; exact Hx|apply in_or_app; left; exact Hy].
        + intros x y Hx [<-|[]]. apply in_app_or in Hx as [Hx|Hx].
          * apply (I7 x i); [apply in_rev; exact Hx|left; reflexivity].
          * apply lt_ble; [apply HSns; exact Hx|exact Hn|apply HS; exact Hx].
      - (* acc' x pend2 *)
        assert (HnP : forall t, In t P' -> ble n t) by (intros t Ht; apply nlt_ble; [apply HPns; exact Ht|exact Hn|apply HP; exact Ht]).
        assert (HaP : forall a t, In a (n :: rev S ++ acc) -> In t P' -> ble a t).
        { intros a t [<-|Ha] Ht; [apply HnP; exact Ht|]. apply in_app_or in Ha as [Ha|Ha].
          - apply in_rev in Ha. apply lt_ble; [apply HSns; exact Ha|apply HPns; exact Ht|apply ISP; assumption].
          - apply I6; [exact Ha|apply in_or_app; right; exact Ht]. }
        assert (Han : forall a, In a (n :: rev S ++ acc) -> ble a n).
        { intros a [<-|Ha]; [apply ble_refl|]. apply in_app_or in Ha as [Ha|Ha].
          - apply in_rev in Ha. apply lt_ble; [apply HSns; exact Ha|exact Hn|apply HS; exact Ha].
          - apply (I7 a i Ha). left. reflexivity. }
        assert (Hans : forall a, In a (n :: rev S ++ acc) -> In a ns).
        { intros a [<-|Ha]; [exact Hn|]. apply in_app_or in Ha as [Ha|Ha]; [apply HSns; apply in_rev; exact Ha|apply I4; exact Ha]. }
        intros a t Ha Ht. destruct i as [x|h tb]; [apply HaP; assumption|].
        apply push_sorted_In in Ht as [->|Ht]; [|apply HaP; assumption].
        destruct (Htail h tb eq_refl) as [Tn Tl].
        apply (ble_trans a n _ (Hans a Ha) Hn Tn (Han a Ha)). apply lt_ble; assumption.
      - intros a j Ha Hj.
        assert (Han : ble a n).
        { destruct Ha as [<-|Ha]; [apply ble_refl|]. apply in_app_or in Ha as [Ha|Ha].
          - apply in_rev in Ha. apply lt_ble; [apply HSns; exact Ha|exact Hn|apply HS; exact Ha].
          - apply (I7 a i Ha). left. reflexivity. }
        assert (Hans : In a ns).
        { destruct Ha as [<-|Ha]; [exact Hn|]. apply in_app_or in Ha as [Ha|Ha]; [apply HSns; apply in_rev; exact Ha|apply I4; exact Ha]. }
        apply (ble_trans a n _ Hans Hn); [|exact Han|apply Hnj; exact Hj].
        apply (g_head _ Hg j). apply in_or_app. right. right. exact Hj. }
    destruct Hgoal as (out & Eo & Po & So). exists out. split; [|split; [|exact So]].
    + destruct pol; exact Eo.
    + rewrite Po. cbn [rev flat_map]. rewrite rev_app_distr, rev_involutive. unfold pend2.
      destruct i as [x|h tb]; cbn [item_notes item_head] in *.
      * rewrite <- !app_assoc. cbn [app]. apply Permutation_app_head. apply Permutation_app_head.
        apply Permutation_cons_app. reflexivity.
      * rewrite <- !app_assoc. cbn [app]. apply Permutation_app_head. apply Permutation_app_head.
        rewrite (push_sorted_perm (tail_note h tb) P'). fold n.
        change (n :: (tail_note h tb :: P') ++ flat_map item_notes rest) with ([n] ++ (tail_note h tb :: P') ++ flat_map item_notes rest).
        apply Permutation_cons_app. cbn [app].
        apply Permutation_middle.
Qed.
End Run.

(* ================================================================== the documented items are good *)
Lemma next_in_col_app c a b : next_in_col c (a ++ b) = match next_in_col c a with Some x => Some x | None => next_in_col c b end.
Proof. induction a as [|x a IH]; simpl; [reflexivity|]. destruct (col x =? c); [reflexivity|exact IH]. Qed.
Lemma next_in_col_none c a : (forall x, In x a -> col x <> c) -> next_in_col c a = None.
Proof.
  induction a as [|x a IH]; intro H; simpl; [reflexivity|]. destruct (col x =? c) eqn:E.
  - apply Nat.eqb_eq in E. exfalso. apply (H x); [left; reflexivity|exact E].
  - apply IH. intros y Hy. apply H. right. exact Hy.
Qed.
Lemma next_in_col_first c : forall r t, next_in_col c r = Some t ->
  exists r1 r2, r = r1 ++ t :: r2 /\ (forall y, In y r1 -> col y <> c) /\ col t = c.
Proof.
  induction r as [|x r IH]; intros t H; simpl in H; [discriminate|]. destruct (col x =? c) eqn:E.
  - inversion H; subst. apply Nat.eqb_eq in E. exists [], r. repeat split; [intros ? []|exact E].
  - apply Nat.eqb_neq in E. destruct (IH t H) as (r1 & r2 & -> & Hn & Hc). exists (x :: r1), r2. repeat split; [|exact Hc].
    intros y [<-|Hy]; [exact E|apply Hn; exact Hy].
Qed.

Lemma NoDup_split_unique {T} (l a b a' b' : list T) x : NoDup l -> l = a ++ x :: b -> l = a' ++ x :: b' -> a = a' /\ b = b'.
Proof.
  intros Hnd E E'. subst l. revert a' E' Hnd. induction a as [|y a IH]; intros a' E' Hnd.
  - destruct a' as [|y' a'']; [simpl in E'; injection E' as E'; auto|]. simpl in E'. injection E' as Ey Eb. subst y'.
    exfalso. simpl in Hnd. apply NoDup_cons_iff in Hnd as [Hni _]. apply Hni. rewrite Eb. apply in_or_app. right. left. reflexivity.
  - destruct a' as [|y' a'']; simpl in E'.
    + injection E' as Ey Eb. subst y. exfalso. simpl in Hnd. apply NoDup_cons_iff in Hnd as [Hni _]. apply Hni. apply in_or_app. right. left. reflexivity.
    + injection E' as Ey Eb. subst y'. simpl in Hnd. apply NoDup_cons_iff in Hnd as [_ Hnd'].
      destruct (IH a'' Eb Hnd') as [-> ->]. auto.
Qed.

Section Doc.
Variables (p0 : Z) (ph pt : policy).

Lemma doc_item_head rp x r i : In i (doc_item ph pt rp x r) -> item_head i = x.
Proof.
  intro H. destruct (doc_item_cases ph pt rp x r) as [E|[E|(t & E & _)]]; rewrite E in H; [destruct H| |]; destruct H as [<-|[]]; reflexivity.
Qed.

Lemma items_origin : forall ns rp i, In i (doc_items ph pt rp ns) ->
  exists pre x r, ns = pre ++ x :: r /\ In i (doc_item ph pt (rev pre ++ rp) x r) /\ item_head i = x.
Proof.
  induction ns as [|x r IH]; intros rp i H; [destruct H|]. cbn [doc_items] in H. apply in_app_or in H as [H|H].
  - exists [], x, r. repeat split; [exact H|eapply doc_item_head; eauto].
  - destruct (IH (x :: rp) i H) as (pre & x' & r' & -> & Hi & Hh). exists (x :: pre), x', r'. repeat split; [|exact Hh].
    cbn [rev]. rewrite <- app_assoc. exact Hi.
Qed.

Lemma heads_strict : forall ns rp, StronglySorted lt ns ->
  StronglySorted (fun i j => lt (item_head i) (item_head j)) (doc_items ph pt rp ns).
Proof.
  induction ns as [|x r IH]; intros rp Hs; [constructor|]. cbn [doc_items]. inversion Hs as [|? ? Hs' Hx]; subst. rewrite Forall_forall in Hx.
  assert (Hrest : forall j, In j (doc_items ph pt (x :: rp) r) -> lt x (item_head j)).
  { intros j Hj. destruct (items_origin r (x :: rp) j Hj) as (pre & y & r' & E & _ & Hh). rewrite Hh. apply Hx. rewrite E. apply in_or_app. right. left. reflexivity. }
  destruct (doc_item_cases ph pt rp x r) as [E|[E|(t & E & _)]]; rewrite E; cbn [app]; try (apply IH; exact Hs');
    (constructor; [apply IH; exact Hs'|apply Forall_forall; intros j Hj; cbn [item_head]; apply Hrest; exact Hj]).
Qed.

Variable ns : list note.
Hypothesis Hs : StronglySorted lt ns.
Hypothesis Hwf : Forall (wf p0) ns.

Lemma doc_good : good ns (doc_items ph pt [] ns).
Proof.
  pose proof (sorted_NoDup ns Hs) as Hnd.
  assert (Hwfi : forall n, In n ns -> wf p0 n) by (rewrite Forall_forall in Hwf; exact Hwf).
  (* what a joined item says about the stream *)
  assert (HJ : forall h tb, In (Joined h tb) (doc_items ph pt [] ns) ->
            exists pre r r1 t r2, ns = pre ++ h :: r /\ r = r1 ++ t :: r2 /\ (forall y, In y r1 -> col y <> col h) /\ col t = col h /\
                                  is_tail (ty t) = true /\ is_head (ty h) = true /\ tail_note h tb = t).
  { intros h tb H. destruct (items_origin ns [] _ H) as (pre & x & r & E & Hi & Hh). cbn [item_head] in Hh. subst x.
    destruct (doc_item_cases ph pt (rev pre ++ []) h r) as [E1|[E1|(t & E1 & Hhd & Hn & Ht)]]; rewrite E1 in Hi; [destruct Hi|destruct Hi as [X|[]]; discriminate X|].
    destruct Hi as [X|[]]. inversion X; subst tb.
    destruct (next_in_col_first _ _ _ Hn) as (r1 & r2 & Er & Hr1 & Hc).
    exists pre, r, r1, t, r2. repeat split; try assumption.
    apply (tail_note_id p0); [apply Hwfi; rewrite E; apply in_or_app; right; left; reflexivity| |exact Ht|exact Hc].
    apply Hwfi. rewrite E, Er. apply in_or_app. right. right. apply in_or_app. right. left. reflexivity. }
  constructor.
  - intros i Hi. destruct (items_origin ns [] i Hi) as (pre & x & r & E & _ & Hh). rewrite Hh, E. apply in_or_app. right. left. reflexivity.
  - intros h tb H. destruct (HJ h tb H) as (pre & r & r1 & t & r2 & E & Er & _ & _ & _ & _ & Et). rewrite Et. split.
    + rewrite E, Er. apply in_or_app. right. right. apply in_or_app. right. left. reflexivity.
    + pose proof Hs as Hs2. rewrite E in Hs2. apply SS_app_inv' in Hs2 as (_ & B & _). apply (sorted_head_min h r B). rewrite Er. apply in_or_app. right. left. reflexivity.
  - intros h tb i H Hi Hne Hc. destruct (HJ h tb H) as (pre & r & r1 & t & r2 & E & Er & Hr1 & Hct & Htl & Hhd & Et). rewrite Et.
    destruct (items_origin ns [] i Hi) as (pre_i & n & r_i & Ei & Hdi & Hh). rewrite Hh in *. clear Hh.
    assert (Hn : In n ns) by (rewrite Ei; apply in_or_app; right; left; reflexivity).
    assert (Hcol : col n = col h) by (unfold col; congruence).
    pose proof Hs as Hs2. rewrite E in Hs2. apply SS_app_inv' in Hs2 as (_ & B & Cross).
    rewrite E in Hn. apply in_app_or in Hn as [Hn|[Hn|Hn]].
    + left. apply Cross; [exact Hn|left; reflexivity].
    + congruence.
    + right. rewrite Er in Hn. apply in_app_or in Hn as [Hn|[Hn|Hn]].
      * exfalso. apply (Hr1 n Hn). exact Hcol.
      * (* n would be the matched tail itself: nothing is emitted for it *)
        exfalso. subst n.
        assert (Ei2 : ns = (pre ++ h :: r1) ++ t :: r2) by (rewrite E, Er, <- app_assoc; reflexivity).
        destruct (NoDup_split_unique ns pre_i r_i (pre ++ h :: r1) r2 t Hnd Ei Ei2) as [-> ->].
        assert (M : matched (rev (pre ++ h :: r1) ++ []) t = true).
        { unfold matched. rewrite Htl. cbn [andb]. rewrite app_nil_r, rev_app_distr. cbn [rev]. rewrite <- app_assoc.
          rewrite next_in_col_app, next_in_col_none.
          - cbn [app]. rewrite Hct, next_in_col_cons_same. exact Hhd.
          - intros y Hy. apply in_rev in Hy. rewrite Hct. apply Hr1. exact Hy. }
        rewrite (doc_item_matched ph pt _ t r2 M) in Hdi. destruct Hdi.
      * inversion B as [|? ? B' _]. rewrite Er in B'. apply SS_app_inv' in B' as (_ & B2 & _). apply (sorted_head_min t r2 B2). exact Hn.
Qed.

Lemma doc_heads_hble : StronglySorted hble (doc_items ph pt [] ns).
Proof.
  pose proof (heads_strict ns [] Hs) as H. pose proof doc_good as G.
  assert (Hin : forall i, In i (doc_items ph pt [] ns) -> In (item_head i) ns) by apply (g_head _ _ G).
  revert H Hin. generalize (doc_items ph pt [] ns). induction 1 as [|x r Hr IH Hx]; intro Hin; [constructor|]. rewrite Forall_forall in Hx. constructor.
  - apply IH. intros; apply Hin; right; assumption.
  - apply Forall_forall. intros y Hy. apply (lt_ble p0 ns Hwf); [apply Hin; left; reflexivity|apply Hin; right; exact Hy|apply Hx; exact Hy].
Qed.

Lemma doc_heads_nodup : NoDup (map item_head (doc_items ph pt [] ns)).
Proof.
  pose proof (heads_strict ns [] Hs) as H. revert H. generalize (doc_items ph pt [] ns). induction 1 as [|x r Hr IH Hx]; [constructor|].
  rewrite Forall_forall in Hx. cbn [map]. constructor; [|exact IH]. intro Hin. apply in_map_iff in Hin as [y [E Hy]].
  specialize (Hx y Hy). rewrite E in Hx. exact (lt_irrefl _ Hx).
Qed.
End Doc.

(* ================================================================== permuting inside the rows *)
Lemma bytype_perm_rows : forall rows, Permutation (concat (flat_map (add_row JoinByNoteType) rows)) (concat rows).
Proof.
  induction rows as [|row rest IH]; [reflexivity|]. cbn [flat_map concat]. rewrite concat_app. apply Permutation_app; [|exact IH].
  unfold add_row. apply Permutation_sym. apply by_type_perm. apply le_n.
Qed.

Lemma SS_all_related {T} (R : T -> T -> Prop) l : (forall x y, In x l -> In y l -> R x y) -> StronglySorted R l.
Proof.
  induction l as [|a l IH]; intro H; constructor.
  - apply IH. intros x y Hx Hy. apply H; right; assumption.
  - apply Forall_forall. intros y Hy. apply H; [left; reflexivity|right; exact Hy].
Qed.

Lemma SS_app' {T} (R : T -> T -> Prop) l1 l2 :
  StronglySorted R l1 -> StronglySorted R l2 -> (forall x y, In x l1 -> In y l2 -> R x y) -> StronglySorted R (l1 ++ l2).
Proof.
  induction l1 as [|a l1 IH]; simpl; intros H1 H2 H; [assumption|].
  inversion H1; subst. constructor.
  - apply IH; auto.
  - apply Forall_app. split; [assumption|]. apply Forall_forall. intros y Hy. apply H; auto.
Qed.

Lemma SS_bytype_rows {R : item -> item -> Prop} : forall rows,
  StronglySorted R (concat rows) -> (forall row, In row rows -> forall i j, In i row -> In j row -> R i j) ->
  StronglySorted R (concat (flat_map (add_row JoinByNoteType) rows)).
Proof.
  induction rows as [|row rest IH]; intros Hs Hrow; [constructor|]. cbn [flat_map concat] in *. rewrite concat_app.
  apply SS_app_inv' in Hs as (_ & B & C).
  assert (Pr : Permutation row (concat (add_row JoinByNoteType row))) by (unfold add_row; apply by_type_perm; apply le_n).
  apply SS_app'.
  - apply SS_all_related. intros x y Hx Hy. apply (Hrow row (or_introl eq_refl)); eapply Permutation_in; try (apply Permutation_sym; exact Pr); assumption.
  - apply IH; [exact B|]. intros r Hr. apply Hrow. right. exact Hr.
  - intros x y Hx Hy. apply C.
    + eapply Permutation_in; [apply Permutation_sym; exact Pr|exact Hx].
    + eapply Permutation_in; [apply bytype_perm_rows|exact Hy].
Qed.

Lemma flat_map_item_notes_plain l : flat_map item_notes (map Plain l) = l.
Proof. induction l as [|x l IH]; simpl; [reflexivity|]. rewrite IH. reflexivity. Qed.

Section Final.
Variable p0 : Z.

Lemma inv_init ns L : inv ns [] L [] [].
Proof.
  constructor.
  - constructor.
  - intros ? [].
  - intros ? [].
  - intros ? [].
  - constructor.
  - intros ? ? [].
  - intros ? ? [].
Qed.

Lemma same_beat_hble i j : item_beat i = item_beat j -> hble i j.
Proof. unfold item_beat, beat, hble, ble. intro E. inversion E as [[E1 E2]]. rewrite E1, E2. lia. Qed.

(* the general statement: items that are good, in stream order with strictly increasing heads; rows regrouped per type *)
Lemma ungroup_bytype pol ns L0 :
  StronglySorted lt ns -> Forall (wf p0) ns ->
  good ns L0 -> StronglySorted hble L0 -> NoDup (map item_head L0) ->
  exists out, ungroup_notes pol (flat_map (add_row JoinByNoteType) (rows_of L0)) = UOk out /\
              Permutation out (flat_map item_notes L0) /\ StronglySorted ble out.
Proof.
  intros Hs Hwf Hg Hh Hnd. unfold ungroup_notes.
  set (L := concat (flat_map (add_row JoinByNoteType) (rows_of L0))).
  assert (P : Permutation L L0) by (unfold L; rewrite (bytype_perm_rows (rows_of L0)), rows_of_concat; reflexivity).
  destruct (run p0 ns Hs Hwf pol L [] [] []) as (out & E & Po & So).
  - cbn [app]. apply (good_perm ns L0 L); [apply Permutation_sym; exact P|exact Hg].
  - cbn [app]. unfold L. apply SS_bytype_rows; [rewrite rows_of_concat; exact Hh|].
    intros row Hrow i j Hi Hj. apply same_beat_hble.
    pose proof (rows_of_same_beat L0) as SB. rewrite Forall_forall in SB. apply (SB row Hrow); assumption.
  - cbn [app]. eapply Permutation_NoDup; [apply Permutation_map; apply Permutation_sym; exact P|exact Hnd].
  - apply inv_init.
  - exists out. split; [exact E|split; [|exact So]]. rewrite Po. cbn [rev app].
    apply Permutation_flat_map. exact P.
Qed.

(* per-type grouping with head/tail joining, then ungrouping under any policy: the same notes as the other modes give,
   in an order whose beats never decrease *)
Theorem roundtrip_join_bytype types ph pt pol ns g :
  StronglySorted lt ns -> Forall (wf p0) ns ->
  group_notes types JoinByNoteType true ph pt ns = GOk g ->
  exists out, ungroup_notes pol g = UOk out /\
              Permutation out (kept ph pt [] (filter (included types) ns)) /\ StronglySorted ble out.
Proof.
  intros Hs Hwf Hg.
  rewrite group_notes_spec in Hg by (eapply sorted_NoDup; eauto).
  destruct (spec_err ph pt [] (filter (included types) ns)); [discriminate|]. inversion Hg; subst g. clear Hg.
  set (ns' := filter (included types) ns).
  assert (Hs' : StronglySorted lt ns') by (apply SS_filter; exact Hs).
  assert (Hwf' : Forall (wf p0) ns') by (apply Forall_filter; exact Hwf).
  pose proof (doc_good p0 ph pt ns' Hs' Hwf') as G.
  pose proof (doc_heads_hble p0 ph pt ns' Hs' Hwf') as H1.
  pose proof (doc_heads_nodup ph pt ns' Hs') as H2.
  destruct (ungroup_bytype pol ns' _ Hs' Hwf' G H1 H2) as (out & E & Po & So).
  exists out. split; [exact E|split; [|exact So]]. rewrite Po.
  (* the same items, in stream order, ungroup to exactly [kept ...] *)
  destruct (run p0 ns' Hs' Hwf' pol (doc_items ph pt [] ns') [] [] []) as (out0 & E0 & P0 & _); try assumption; [apply inv_init|].
  pose proof (ungroup_doc_items p0 pol ph pt ns' [] [] [] [] Hs' Hwf' (Forall_nil _) (J_init ns')) as U. cbn [app rev] in U.
  rewrite U in E0. inversion E0; subst out0. cbn [rev app] in P0. symmetry. exact P0.
Qed.

(* without joining *)
Theorem roundtrip_nojoin_bytype types ph pt pol ns g :
  StronglySorted lt ns -> Forall (wf p0) ns ->
  group_notes types JoinByNoteType false ph pt ns = GOk g ->
  exists out, ungroup_notes pol g = UOk out /\
              Permutation out (filter (included types) ns) /\ StronglySorted ble out.
Proof.
  intros Hs Hwf Hg. unfold group_notes in Hg. inversion Hg; subst g. clear Hg.
  set (ns' := filter (included types) ns).
  assert (Hs' : StronglySorted lt ns') by (apply SS_filter; exact Hs).
  assert (Hwf' : Forall (wf p0) ns') by (apply Forall_filter; exact Hwf).
  assert (G : good ns' (map Plain ns')).
  { constructor.
    - intros i Hi. apply in_map_iff in Hi as [n [<- Hn]]. exact Hn.
    - intros h tb Hi. apply in_map_iff in Hi as [n [X _]]. discriminate X.
    - intros h tb i Hi. apply in_map_iff in Hi as [n [X _]]. discriminate X. }
  assert (H1 : StronglySorted hble (map Plain ns')).
  { pose proof Hs' as S. assert (Hin : forall n, In n ns' -> In n ns') by auto. revert S Hin. generalize ns' at 1 2 4.
    induction 1 as [|x r Hr IH Hx]; intro Hin; [constructor|]. rewrite Forall_forall in Hx. cbn [map]. constructor.
    - apply IH. intros; apply Hin; right; assumption.
    - apply Forall_forall. intros j Hj. apply in_map_iff in Hj as [y [<- Hy]]. unfold hble. cbn [item_head].
      apply (lt_ble p0 ns' Hwf'); [apply Hin; left; reflexivity|apply Hin; right; exact Hy|apply Hx; exact Hy]. }
  assert (H2 : NoDup (map item_head (map Plain ns'))).
  { rewrite map_map. cbn [item_head]. rewrite map_id. apply sorted_NoDup. exact Hs'. }
  destruct (ungroup_bytype pol ns' _ Hs' Hwf' G H1 H2) as (out & E & Po & So).
  exists out. split; [exact E|split; [|exact So]]. rewrite Po, flat_map_item_notes_plain. reflexivity.
Qed.
End Final.
