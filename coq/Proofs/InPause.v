(* C12: "for every time strictly inside a stop or delay the answer is the paused beat" on real timing data:
   the pause spans the times time_at assigns to its beat under the pause's own tag and under its END tag. *)
From Coq Require Import List ZArith QArith Qabs Bool Lia Lqa Setoid Sorting.Sorted Arith.
From SV Require Import Sx Beat Engine Proofs.C14 Proofs.EngineFacts Proofs.Hittable Proofs.TimeLaw Proofs.BeatAt.
Import ListNotations.
Open Scope Q_scope.

(* the cut of the events at a key is unique *)
Lemma cut_unique (P R P' R' : list ev) b tag : P ++ R = P' ++ R' ->
  (forall p, In p P -> kle_ev p b tag) -> (forall r, In r R -> klt_ev b tag r) ->
  (forall p, In p P' -> kle_ev p b tag) -> (forall r, In r R' -> klt_ev b tag r) -> P' = P.
Proof.
  intros E HP HR HP' HR'.
  assert (Hk : forall x, kle_ev x b tag -> klt_ev b tag x -> False).
  { unfold kle_ev, klt_ev. intros x [A|[A A']] [B|[B B']]; try lra. lia. }
  apply app_eq_app in E as [l [[A B]|[A B]]].
  - destruct l as [|x l]; [rewrite app_nil_r in A; symmetry; exact A|exfalso].
    apply (Hk x); [apply HP; rewrite A; apply in_or_app; right; left; reflexivity|apply HR'; rewrite B; left; reflexivity].
  - destruct l as [|x l]; [rewrite app_nil_r in A; exact A|exfalso].
    apply (Hk x); [apply HP'; rewrite A; apply in_or_app; right; left; reflexivity|apply HR; rewrite B; left; reflexivity].
Qed.

Section InPause.
Variables (td : tdata) (b0 v0 : Q) (rest : list (Q * Q)).
Hypothesis D : dom td.
Hypothesis Hbpm : td_bpms td = (b0, v0) :: rest.
Hypothesis Hb0 : b0 == 0.

Let s0 := init_state td v0.
Let es := events td.

(* an END event is directly preceded by the pause event of the same row: tag one below, same beat, same length *)
Lemma end_pairs P e R : es = P ++ e :: R -> is_end_tag (e_tag e) = true ->
  exists P' q, P = P' ++ [q] /\ e_tag q = (e_tag e - 1)%Z /\ e_beat q = e_beat e /\ e_val q = e_val e /\
               (e_tag q = tSTOP \/ e_tag q = tDELAY).
Proof.
  intros E Ht. unfold is_end_tag in Ht. apply orb_true_iff in Ht as [Ht|Ht]; apply Z.eqb_eq in Ht.
  - destruct (end_pred td D tSTOP (td_stops td) P e R) as (P' & q & A & B & C & C'); try assumption.
    + exact (dom_stops td D).
    + left; reflexivity.
    + intros x Hx Hxt. apply (in_tagged_of_tag td b0 v0 rest Hbpm); [exact Hx|exact Hxt|tauto].
    + intros x Hx Hxt. apply (in_tagged_of_tag td b0 v0 rest Hbpm); [exact Hx|exact Hxt|]. right. left. split; reflexivity.
    + intros r Hr. apply (rows_in_events td b0 v0 rest Hbpm). do 4 right. left. apply tagged_In'. exists r. auto.
    + exists P', q. rewrite B, Ht. unfold tSTOP, tSTOP_END. repeat split; auto.
  - destruct (end_pred td D tDELAY (td_delays td) P e R) as (P' & q & A & B & C & C'); try assumption.
    + exact (dom_delays td D).
    + right; reflexivity.
    + intros x Hx Hxt. apply (in_tagged_of_tag td b0 v0 rest Hbpm); [exact Hx|exact Hxt|tauto].
    + intros x Hx Hxt. apply (in_tagged_of_tag td b0 v0 rest Hbpm); [exact Hx|exact Hxt|]. do 3 right. left. split; reflexivity.
    + intros r Hr. apply (rows_in_events td b0 v0 rest Hbpm). right. right. left. apply tagged_In'. exists r. auto.
    + exists P', q. rewrite B, Ht. unfold tDELAY, tDELAY_END. repeat split; auto.
Qed.

Section OnePause.
Variables (P R : list ev) (e : ev).
Hypothesis E : es = P ++ e :: R.
Hypothesis Hend : is_end_tag (e_tag e) = true.

Lemma b_nonneg : 0 <= e_beat e.
Proof. apply (events_nonneg td D e). fold es. rewrite E. apply in_or_app. right. left. reflexivity. Qed.

(* the time at which the pause is reached, and the time at which it ends *)
Lemma pause_reached : time_at (sts td v0) s0 (e_beat e) (e_tag e - 1) == s_time (St td v0 P).
Proof.
  destruct (end_pairs P e R E Hend) as (P' & q & EP & Hq & Hbq & Hv & Hqt).
  pose proof b_nonneg as Hb.
  assert (Htag : (2 <= e_tag e - 1)%Z) by (rewrite <- Hq; destruct Hqt as [X|X]; rewrite X; unfold tSTOP, tDELAY; lia).
  destruct (time_at_cut_gen td b0 v0 rest D Hbpm (e_beat e) (e_tag e - 1) Hb (or_intror Htag)) as (Pc & Rc & Ec & HPc & HRc & T).
  destruct (split_strict td D P e R E) as (SP & SR & _).
  assert (EPc : Pc = P).
  { apply (cut_unique P (e :: R) Pc Rc (e_beat e) (e_tag e - 1)).
    - rewrite <- Ec. symmetry. exact E.
    - intros p Hp. specialize (SP p Hp). apply ev_lt_spec in SP. destruct SP as [X|[X X']]; [left; exact X|right; split; [exact X|lia]].
    - intros r [<-|Hr]; [right; split; [reflexivity|lia]|].
      specialize (SR r Hr). apply ev_lt_spec in SR. destruct SR as [X|[X X']]; [left; exact X|right; split; [exact X|lia]].
    - exact HPc.
    - exact HRc. }
  rewrite EPc in T.
  assert (T' : time_at (sts td v0) s0 (e_beat e) (e_tag e - 1) == Ecut (St td v0 P) (e_beat e)) by exact T.
  rewrite T'. unfold Ecut. rewrite EP, St_last. cbn [advance s_beat]. rewrite Hbq. ring.
Qed.

Lemma pause_ends : time_at (sts td v0) s0 (e_beat e) (e_tag e) == s_time (St td v0 P) + e_val e.
Proof.
  destruct (end_pairs P e R E Hend) as (P' & q & EP & Hq & Hbq & Hv & Hqt).
  pose proof b_nonneg as Hb.
  assert (Htag : (2 <= e_tag e)%Z) by (assert (X : (e_tag e = e_tag q + 1)%Z) by lia; rewrite X; destruct Hqt as [Y|Y]; rewrite Y; unfold tSTOP, tDELAY; lia).
  destruct (time_at_cut_gen td b0 v0 rest D Hbpm (e_beat e) (e_tag e) Hb (or_intror Htag)) as (Pc & Rc & Ec & HPc & HRc & T).
  destruct (split_strict td D P e R E) as (SP & SR & _).
  assert (EPc : Pc = P ++ [e]).
  { apply (cut_unique (P ++ [e]) R Pc Rc (e_beat e) (e_tag e)).
    - rewrite <- Ec, <- app_assoc. symmetry. exact E.
    - intros p Hp. apply in_app_or in Hp as [Hp|[<-|[]]]; [|right; split; [reflexivity|lia]].
      specialize (SP p Hp). apply ev_lt_spec in SP. destruct SP as [X|[X X']]; [left; exact X|right; split; [exact X|lia]].
    - intros r Hr. specialize (SR r Hr). apply ev_lt_spec in SR. destruct SR as [X|[X X']]; [left; exact X|right; split; [exact X|lia]].
    - exact HPc.
    - exact HRc. }
  rewrite EPc in T.
  assert (T' : time_at (sts td v0) s0 (e_beat e) (e_tag e) == Ecut (St td v0 (P ++ [e])) (e_beat e)) by exact T.
  rewrite T'. unfold Ecut. rewrite (step_time td b0 v0 rest D Hbpm P e R E), Hend.
  rewrite St_last. cbn [advance s_beat].
  assert (Hsb : s_beat (St td v0 P) = e_beat e) by (rewrite EP, St_last; cbn [advance s_beat]; exact Hbq).
  rewrite Hsb. ring.
Qed.

(* strictly inside the pause the answer is the paused beat, for every tag *)
Theorem in_pause_td t q :
  time_at (sts td v0) s0 (e_beat e) (e_tag e - 1) < t -> t < time_at (sts td v0) s0 (e_beat e) (e_tag e) ->
  fst (beat_at_raw (sts td v0) s0 t q) = e_beat e.
Proof.
  rewrite pause_reached, pause_ends. intros H1 H2.
  destruct (end_pairs P e R E Hend) as (P' & q0 & EP & Hq & Hbq & Hv & Hqt).
  set (s := St td v0 P) in *.
  assert (Hp : is_pause_tag (s_tag s) = true).
  { unfold s. rewrite EP, St_last. cbn [advance s_tag]. unfold is_pause_tag. destruct Hqt as [X|X]; rewrite X; reflexivity. }
  assert (Hsb : s_beat s = e_beat e) by (unfold s; rewrite EP, St_last; cbn [advance s_beat]; exact Hbq).
  assert (Hsts : sts td v0 = removelast (run_states s0 P) ++ s :: tl (run_states s (e :: R))).
  { unfold sts. fold es. rewrite E, run_states_app. f_equal. }
  assert (Hsorted : times_sorted (sts td v0)).
  { apply (states_monotone td); [exact D|]. apply (states_is_sts td b0 v0 rest Hbpm Hb0). }
  rewrite Hsts in *.
  rewrite (beat_at_in_pause (removelast (run_states s0 P)) s (tl (run_states s (e :: R))) s0 t q Hsorted Hp H1); [exact Hsb|].
  (* every later state is at or after the end of the pause *)
  cbn [run_states tl]. intros x Hx.
  assert (Hhd : s_time (advance s e) == s_time s + e_val e).
  { pose proof (step_time td b0 v0 rest D Hbpm P e R E) as S1. rewrite St_last in S1. fold s in S1. rewrite S1, Hend, Hsb. ring. }
  apply SS_app_inv in Hsorted as (_ & B & _). inversion B as [|? ? B' _]; subst. cbn [run_states tl] in B'.
  destruct R as [|e2 R2]; cbn [run_states] in Hx, B'.
  - destruct Hx as [<-|[]]. lra.
  - destruct Hx as [<-|Hx]; [lra|]. inversion B' as [|? ? _ Hall]; subst. rewrite Forall_forall in Hall.
    specialize (Hall x Hx). cbv beta in Hall. lra.
Qed.
End OnePause.
End InPause.

Theorem pause_span td b0 v0 rest : dom td -> td_bpms td = (b0, v0) :: rest ->
  forall P e R, events td = P ++ e :: R -> is_end_tag (e_tag e) = true ->
  time_at (sts td v0) (init_state td v0) (e_beat e) (e_tag e) ==
  time_at (sts td v0) (init_state td v0) (e_beat e) (e_tag e - 1) + e_val e.
Proof.
  intros D H P e R E Hend.
  rewrite (pause_reached td b0 v0 rest D H P R e E Hend), (pause_ends td b0 v0 rest D H P R e E Hend). reflexivity.
Qed.
