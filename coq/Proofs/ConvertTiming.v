(* C16: the timing data read from the conversion result is the timing data read from the SM source. *)
From Coq Require Import List ZArith NArith Bool Lia.
From SV Require Import Sx Str Omap Beat Simfile TimingSrc Convert Generated.Tables Proofs.ConvertFacts.
Import ListNotations.
Open Scope Z_scope.

Lemma has_true_get {V} k (m : omap V) : has k m = true -> exists v, get k m = Some v.
Proof. apply has_get. Qed.
Lemma has_false_get {V} k (m : omap V) : has k m = false -> get k m = None.
Proof. intro H. destruct (get k m) eqn:E; [|reflexivity]. assert (has k m = true) by (apply has_get; eauto). congruence. Qed.

(* the blank SSC simfile: version tag in the split-timing range, optional timing keys empty *)
Lemma blank_ssc_facts :
  version_ok (get kVERSION Tables.blank_ssc_simfile) = TOk true /\
  parse_events (attr Tables.blank_ssc_simfile kDELAYS None) = Got [] /\
  parse_events (match get kWARPS Tables.blank_ssc_simfile with Some v => v | None => None end) = Got [].
Proof. vm_compute. repeat split; reflexivity. Qed.

Lemma attr_plain_eq (p p' : props) name : get name p' = get name p -> attr p' name None = attr p name None.
Proof. intro H. unfold attr. rewrite H. reflexivity. Qed.

Theorem sm_to_ssc_timing sf charts tmpl_chart out cs :
  NoDupKeys sf -> (forall c, List.In c charts -> NoDupKeys c) ->
  sm_to_ssc sf charts None tmpl_chart = COk (out, cs) ->
  has kBPMS sf = true -> has kSTOPS sf = true -> has kOFFSET sf = true -> has kVERSION sf = false ->
  chart_has_timing (chart_tmpl_of Tables.blank_ssc_chart tmpl_chart) = false ->
  NoDupKeys (chart_tmpl_of Tables.blank_ssc_chart tmpl_chart) ->
  (forall c key, List.In c charts -> List.In key Tables.chart_timing_properties -> get key c = None) ->
  forall i c c', nth_error charts i = Some c -> nth_error cs i = Some c' ->
    timing_data KSSC out CSSC c' = timing_data KSM sf CSM c.
Proof.
  intros Hnd Hc H Hb Hs Ho Hv Hct Hctn Hkeys i c c' Hi Hi'.
  assert (Hneg : sm_negative_timing sf = COk false).
  { unfold sm_to_ssc in H. destruct (sm_negative_timing sf) as [[|]| | | |]; try discriminate. reflexivity. }
  destruct (sm_to_ssc_spec sf charts None tmpl_chart Hnd Hc Hneg Hctn) as (out' & cs' & E & Hsame & Hrest & Hlen & Hcharts).
  rewrite H in E. cbn [base_of snd app] in E. inversion E; subst out' cs'. clear E. cbn [base_of fst] in Hrest.
  destruct (Hcharts i c Hi) as (c'' & Hi'' & Csame & Crest). rewrite Hi' in Hi''. inversion Hi''; subst c''. clear Hi''.
  destruct blank_ssc_facts as (Bv & Bd & Bw).
  (* the chart never becomes the timing source *)
  assert (Hnt : chart_has_timing c' = false).
  { unfold chart_has_timing in *. apply not_true_is_false. intro X. apply existsb_exists in X as [key [Hk Ht]].
    rewrite (Crest key (Hkeys c key (nth_error_In _ _ Hi) Hk)) in Ht.
    assert (Y : existsb (fun key => truthy (get key (chart_tmpl_of Tables.blank_ssc_chart tmpl_chart))) Tables.chart_timing_properties = true)
      by (apply existsb_exists; exists key; auto). congruence. }
  unfold timing_data, timing_source. rewrite (Hrest kVERSION (has_false_get _ _ Hv)).
  match goal with |- context [version_ok ?X] => replace (version_ok X) with (@TOk bool true) by (symmetry; exact Bv) end.
  rewrite Hnt. cbn [src_props].
  (* the five attributes read the same strings *)
  destruct (has_true_get _ _ Hb) as [vb Gb]. destruct (has_true_get _ _ Hs) as [vs Gs]. destruct (has_true_get _ _ Ho) as [vo Go].
  unfold timing_data_of.
  assert (E1 : attr out kBPMS None = attr sf kBPMS None) by (apply attr_plain_eq; rewrite Gb; apply Hsame; exact Gb).
  assert (E2 : attr out kSTOPS None = attr sf kSTOPS (Some kFREEZES)).
  { unfold attr. rewrite Hs. cbn [negb andb]. rewrite (Hsame _ _ Gs), Gs. reflexivity. }
  assert (E5 : attr out kOFFSET None = attr sf kOFFSET None) by (apply attr_plain_eq; rewrite Go; apply Hsame; exact Go).
  assert (E3 : parse_events (attr out kDELAYS None) = parse_events (attr sf kDELAYS None)).
  { destruct (get kDELAYS sf) as [v|] eqn:G.
    - rewrite (attr_plain_eq sf out kDELAYS); [reflexivity|]. rewrite G. apply Hsame. exact G.
    - unfold attr at 2. rewrite G. cbn [parse_events]. rewrite <- Bd. f_equal. apply attr_plain_eq. apply Hrest. exact G. }
  assert (E4 : parse_events (match get kWARPS out with Some v => v | None => None end) =
               parse_events (match get kWARPS sf with Some v => v | None => None end)).
  { destruct (get kWARPS sf) as [v|] eqn:G.
    - rewrite (Hsame _ _ G). reflexivity.
    - rewrite (Hrest _ G). cbn [parse_events]. exact Bw. }
  rewrite E1, E2, E3, E4, E5. reflexivity.
Qed.

(* the same with ANY simfile template the caller supplies, under the property's own assumption on templates: it supplies no
   delay or warp of its own, and its version tag is well-formed (whether it lies in the split-timing range does not matter:
   no chart of the result carries timing) *)
Theorem sm_to_ssc_timing_any_template sf charts tmpl_sf tmpl_chart out cs :
  NoDupKeys sf -> (forall c, List.In c charts -> NoDupKeys c) ->
  sm_to_ssc sf charts tmpl_sf tmpl_chart = COk (out, cs) ->
  has kBPMS sf = true -> has kSTOPS sf = true -> has kOFFSET sf = true -> has kVERSION sf = false ->
  let base := fst (base_of Tables.blank_ssc_simfile tmpl_sf) in
  let nbase := length (snd (base_of Tables.blank_ssc_simfile tmpl_sf)) in
  (exists b, version_ok (get kVERSION base) = TOk b) ->
  parse_events (attr base kDELAYS None) = Got [] ->
  parse_events (match get kWARPS base with Some v => v | None => None end) = Got [] ->
  chart_has_timing (chart_tmpl_of Tables.blank_ssc_chart tmpl_chart) = false ->
  NoDupKeys (chart_tmpl_of Tables.blank_ssc_chart tmpl_chart) ->
  (forall c key, List.In c charts -> List.In key Tables.chart_timing_properties -> get key c = None) ->
  forall i c c', nth_error charts i = Some c -> nth_error cs (nbase + i) = Some c' ->
    timing_data KSSC out CSSC c' = timing_data KSM sf CSM c.
Proof.
  intros Hnd Hc H Hb Hs Ho Hv base nbase [bv Bv] Bd Bw Hct Hctn Hkeys i c c' Hi Hi'.
  assert (Hneg : sm_negative_timing sf = COk false).
  { unfold sm_to_ssc in H. destruct (sm_negative_timing sf) as [[|]| | | |]; try discriminate. reflexivity. }
  destruct (sm_to_ssc_spec sf charts tmpl_sf tmpl_chart Hnd Hc Hneg Hctn) as (out' & cs' & E & Hsame & Hrest & Hlen & Hcharts).
  rewrite H in E. inversion E; subst out' cs. clear E. fold base in Hrest.
  destruct (Hcharts i c Hi) as (c'' & Hi'' & Csame & Crest).
  unfold nbase in Hi'. rewrite nth_error_app2 in Hi' by lia. replace (length _ + i - length _)%nat with i in Hi' by lia.
  rewrite Hi' in Hi''. inversion Hi''; subst c''. clear Hi''.
  assert (Hnt : chart_has_timing c' = false).
  { unfold chart_has_timing in *. apply not_true_is_false. intro X. apply existsb_exists in X as [key [Hk Ht]].
    rewrite (Crest key (Hkeys c key (nth_error_In _ _ Hi) Hk)) in Ht.
    assert (Y : existsb (fun key => truthy (get key (chart_tmpl_of Tables.blank_ssc_chart tmpl_chart))) Tables.chart_timing_properties = true)
      by (apply existsb_exists; exists key; auto). congruence. }
  unfold timing_data, timing_source. rewrite (Hrest kVERSION (has_false_get _ _ Hv)), Bv, Hnt.
  assert (Esrc : (if bv then TOk (if false then SrcChart else SrcSimfile) else TOk SrcSimfile) = TOk SrcSimfile) by (destruct bv; reflexivity).
  match goal with |- context [match ?X with TOk _ => _ | _ => _ end] => replace X with (@TOk source SrcSimfile) by (destruct bv; reflexivity) end.
  cbn [src_props].
  destruct (has_true_get _ _ Hb) as [vb Gb]. destruct (has_true_get _ _ Hs) as [vs Gs]. destruct (has_true_get _ _ Ho) as [vo Go].
  unfold timing_data_of.
  assert (E1 : attr out kBPMS None = attr sf kBPMS None) by (apply attr_plain_eq; rewrite Gb; apply Hsame; exact Gb).
  assert (E2 : attr out kSTOPS None = attr sf kSTOPS (Some kFREEZES)).
  { unfold attr. rewrite Hs. cbn [negb andb]. rewrite (Hsame _ _ Gs), Gs. reflexivity. }
  assert (E5 : attr out kOFFSET None = attr sf kOFFSET None) by (apply attr_plain_eq; rewrite Go; apply Hsame; exact Go).
  assert (E3 : parse_events (attr out kDELAYS None) = parse_events (attr sf kDELAYS None)).
  { destruct (get kDELAYS sf) as [v|] eqn:G.
    - rewrite (attr_plain_eq sf out kDELAYS); [reflexivity|]. rewrite G. apply Hsame. exact G.
    - unfold attr at 2. rewrite G. cbn [parse_events]. rewrite <- Bd. f_equal. apply attr_plain_eq. apply Hrest. exact G. }
  assert (E4 : parse_events (match get kWARPS out with Some v => v | None => None end) =
               parse_events (match get kWARPS sf with Some v => v | None => None end)).
  { destruct (get kWARPS sf) as [v|] eqn:G.
    - rewrite (Hsame _ _ G). reflexivity.
    - rewrite (Hrest _ G). cbn [parse_events]. exact Bw. }
  rewrite E1, E2, E3, E4, E5. reflexivity.
Qed.
