(* Facts about directory / pack discovery and asset lookup (C19, C20). *)
From Coq Require Import List ZArith NArith Bool Lia.
From SV Require Import Sx Str Simfile Dir Generated.Tables.
Import ListNotations.
Open Scope N_scope.

Lemma simfile_exts : Tables.ext_simfile = [eSSC; eSM].
Proof. reflexivity. Qed.

(* what kind of simfile a listed name is: decided by its lower-cased ending *)
Definition is_ssc (item : str) : bool := ends_with eSSC (lower item).
Definition is_sm (item : str) : bool := negb (is_ssc item) && ends_with eSM (lower item).

Lemma match_ext_cases item :
  match_ext item Tables.ext_simfile =
  if is_ssc item then Some eSSC else if is_sm item then Some eSM else None.
Proof.
  unfold match_ext, is_sm, is_ssc. rewrite simfile_exts. simpl.
  destruct (ends_with eSSC (lower item)); [reflexivity|]. simpl. destruct (ends_with eSM (lower item)); reflexivity.
Qed.

Definition or_first (acc : option str) (f : str -> bool) (l : list str) : option str :=
  match acc with Some x => Some x | None => find f l end.
Definition cnt (f : str -> bool) (l : list str) : nat := length (filter f l).
Definition occupied (acc : option str) : nat := match acc with Some _ => 1 | None => 0 end.

Lemma eSM_neq_eSSC : str_eqb eSSC eSM = false. Proof. reflexivity. Qed.

Lemma is_sm_not_ssc item : is_sm item = true -> is_ssc item = false.
Proof. unfold is_sm. destruct (is_ssc item); [discriminate|reflexivity]. Qed.

Lemma scan_step_ssc item r ign sm ssc : is_ssc item = true ->
  scan (item :: r) ign sm ssc =
  match ssc with Some _ => if ign then scan r ign sm ssc else DDuplicate | None => scan r ign sm (Some item) end.
Proof. intro H. cbn [scan]. rewrite match_ext_cases, H, eSM_neq_eSSC, str_eqb_refl. reflexivity. Qed.

Lemma scan_step_sm item r ign sm ssc : is_sm item = true ->
  scan (item :: r) ign sm ssc =
  match sm with Some _ => if ign then scan r ign sm ssc else DDuplicate | None => scan r ign (Some item) ssc end.
Proof. intro H. cbn [scan]. rewrite match_ext_cases, (is_sm_not_ssc _ H), H, str_eqb_refl. reflexivity. Qed.

Lemma scan_step_other item r ign sm ssc : is_ssc item = false -> is_sm item = false ->
  scan (item :: r) ign sm ssc = scan r ign sm ssc.
Proof. intros H1 H2. cbn [scan]. rewrite match_ext_cases, H1, H2. reflexivity. Qed.

Lemma cnt_cons f x r : cnt f (x :: r) = ((if f x then 1 else 0) + cnt f r)%nat.
Proof. unfold cnt. simpl. destruct (f x); reflexivity. Qed.

(* with duplicates ignored the first listed file of each kind wins *)
Lemma scan_ignore : forall l sm ssc, scan l true sm ssc = DOk (or_first sm is_sm l, or_first ssc is_ssc l).
Proof.
  induction l as [|item r IH]; intros sm ssc.
  - simpl. destruct sm, ssc; reflexivity.
  - destruct (is_ssc item) eqn:S1.
    + assert (S2 : is_sm item = false) by (unfold is_sm; rewrite S1; reflexivity).
      rewrite (scan_step_ssc _ _ _ _ _ S1). destruct ssc as [x|]; rewrite IH; unfold or_first; cbn [find]; rewrite ?S1, ?S2; destruct sm; reflexivity.
    + destruct (is_sm item) eqn:S2.
      * rewrite (scan_step_sm _ _ _ _ _ S2). destruct sm as [x|]; rewrite IH; unfold or_first; cbn [find]; rewrite ?S1, ?S2; destruct ssc; reflexivity.
      * rewrite (scan_step_other _ _ _ _ _ S1 S2), IH. unfold or_first; cbn [find]; rewrite S1, S2. reflexivity.
Qed.

(* without: DuplicateSimfileError exactly when two files of one kind are present *)
Lemma scan_strict : forall l sm ssc,
  scan l false sm ssc =
  if Nat.leb (occupied sm + cnt is_sm l) 1 && Nat.leb (occupied ssc + cnt is_ssc l) 1
  then DOk (or_first sm is_sm l, or_first ssc is_ssc l) else DDuplicate.
Proof.
  induction l as [|item r IH]; intros sm ssc.
  - simpl. destruct sm, ssc; reflexivity.
  - rewrite !cnt_cons. destruct (is_ssc item) eqn:S1.
    + assert (S2 : is_sm item = false) by (unfold is_sm; rewrite S1; reflexivity).
      rewrite (scan_step_ssc _ _ _ _ _ S1), S2. destruct ssc as [x|].
      * cbn [occupied]. replace (Nat.leb (1 + (1 + cnt is_ssc r)) 1) with false by reflexivity. rewrite andb_false_r. reflexivity.
      * rewrite IH. unfold or_first; cbn [find occupied]. rewrite S1, S2.
        replace (0 + (1 + cnt is_ssc r))%nat with (1 + cnt is_ssc r)%nat by reflexivity.
        replace (0 + cnt is_sm r)%nat with (cnt is_sm r) by reflexivity. destruct sm; reflexivity.
    + destruct (is_sm item) eqn:S2.
      * rewrite (scan_step_sm _ _ _ _ _ S2). destruct sm as [x|].
        -- cbn [occupied]. replace (Nat.leb (1 + (1 + cnt is_sm r)) 1) with false by reflexivity. reflexivity.
        -- rewrite IH. unfold or_first; cbn [find occupied]. rewrite S1, S2.
           replace (0 + (1 + cnt is_sm r))%nat with (1 + cnt is_sm r)%nat by reflexivity.
           replace (0 + cnt is_ssc r)%nat with (cnt is_ssc r) by reflexivity. destruct ssc; reflexivity.
      * rewrite (scan_step_other _ _ _ _ _ S1 S2), IH. unfold or_first; cbn [find]. rewrite S1, S2. reflexivity.
Qed.

Theorem dir_paths l ignore_dup :
  simfile_directory l ignore_dup =
  if ignore_dup || (Nat.leb (cnt is_sm l) 1 && Nat.leb (cnt is_ssc l) 1)
  then DOk (find is_sm l, find is_ssc l) else DDuplicate.
Proof.
  unfold simfile_directory. destruct ignore_dup; [apply scan_ignore|]. rewrite scan_strict. reflexivity.
Qed.

Theorem open_prefers_ssc l ignore_dup sm ssc :
  simfile_directory l ignore_dup = DOk (sm, ssc) ->
  dir_open_target l ignore_dup = match ssc, sm with Some x, _ => DOk x | None, Some x => DOk x | None, None => DNotFound end.
Proof. intro H. unfold dir_open_target. rewrite H. reflexivity. Qed.

(* ---- packs ---- *)
Definition is_member (e : str * option (list str)) : bool :=
  match snd e with Some listing => has_simfile listing | None => false end.

Theorem pack_exact es : pack_dirs es = map fst (filter is_member es).
Proof.
  induction es as [|[name [listing|]] r IH]; simpl; [reflexivity| |exact IH].
  unfold is_member at 1. simpl. destruct (has_simfile listing); simpl; rewrite IH; reflexivity.
Qed.

Lemma has_simfile_iff listing : has_simfile listing = true <-> exists item, In item listing /\ (is_ssc item = true \/ is_sm item = true).
Proof.
  unfold has_simfile. rewrite existsb_exists. split.
  - intros [item [Hin H]]. exists item. split; [exact Hin|]. rewrite match_ext_cases in H.
    destruct (is_ssc item); [auto|]. destruct (is_sm item); [auto|discriminate].
  - intros [item [Hin H]]. exists item. split; [exact Hin|]. rewrite match_ext_cases.
    destruct (is_ssc item); [reflexivity|]. destruct H as [H|H]; [discriminate|]. rewrite H. reflexivity.
Qed.

(* ---- assets ---- *)
Lemma first_match_found d : forall listing item, first_match d listing = AFound item ->
  exists pre post, listing = pre ++ item :: post /\ def_matches d item = Some true /\
                   forall x, In x pre -> def_matches d x = Some false.
Proof.
  induction listing as [|x r IH]; intros item H; [discriminate|]. simpl in H.
  destruct (def_matches d x) as [[|]|] eqn:M; try discriminate.
  - inversion H; subst. exists [], r. repeat split; auto. intros ? [].
  - destruct (IH _ H) as (pre & post & E & Hm & Hp). exists (x :: pre), post. subst r. repeat split; auto.
    intros y [<-|Hy]; auto.
Qed.

Lemma first_match_none d : forall listing, first_match d listing = ANone -> forall x, In x listing -> def_matches d x = Some false.
Proof.
  induction listing as [|y r IH]; intros H x Hin; [destruct Hin|]. simpl in H.
  destruct (def_matches d y) as [[|]|] eqn:M; try discriminate. destruct Hin as [<-|Hin]; auto.
Qed.

Lemma find_ci_spec listing filename item : find_ci listing filename = Some item ->
  In item listing /\ lower item = lower filename.
Proof. unfold find_ci. intro H. apply find_some in H as [H1 H2]. apply str_eqb_eq in H2. auto. Qed.

Theorem asset_lookup_spec kind listing specified :
  match asset_lookup kind listing specified with
  | ASpecified item => exists filename cl, specified = Some (filename, Some cl) /\ In item cl /\ lower item = lower filename
  | APattern item => exists d, find_def kind Tables.asset_definitions = Some d /\ In item listing /\ def_matches d item = Some true
  | ANoAsset => exists d, find_def kind Tables.asset_definitions = Some d /\ forall x, In x listing -> def_matches d x = Some false
  | AUnm => True
  end.
Proof.
  unfold asset_lookup.
  assert (F : match (match find_def kind Tables.asset_definitions with
                     | Some d => match first_match d listing with AFound x => APattern x | ANone => ANoAsset | AUnmodelled => AUnm end
                     | None => AUnm end) with
              | ASpecified _ => False
              | APattern item => exists d, find_def kind Tables.asset_definitions = Some d /\ In item listing /\ def_matches d item = Some true
              | ANoAsset => exists d, find_def kind Tables.asset_definitions = Some d /\ forall x, In x listing -> def_matches d x = Some false
              | AUnm => True end).
  { destruct (find_def kind Tables.asset_definitions) as [d|]; [|exact I].
    destruct (first_match d listing) as [x| |] eqn:E; [| |exact I].
    - destruct (first_match_found d listing x E) as (pre & post & El & Hm & _). exists d. repeat split; auto. subst. apply in_or_app. right. left. reflexivity.
    - exists d. split; [reflexivity|]. apply first_match_none. exact E. }
  destruct specified as [[filename [cl|]]|].
  - destruct (find_ci cl filename) as [item|] eqn:E.
    + apply find_ci_spec in E as [H1 H2]. exists filename, cl. auto.
    + destruct (match find_def kind Tables.asset_definitions with Some d => _ | None => AUnm end); try exact F; contradiction.
  - destruct (match find_def kind Tables.asset_definitions with Some d => _ | None => AUnm end); try exact F; contradiction.
  - destruct (match find_def kind Tables.asset_definitions with Some d => _ | None => AUnm end); try exact F; contradiction.
Qed.

(* the named file wins whenever it exists, whatever else the directory contains *)
Theorem specified_wins kind listing filename cl item : find_ci cl filename = Some item ->
  asset_lookup kind listing (Some (filename, Some cl)) = ASpecified item.
Proof. intro H. unfold asset_lookup. rewrite H. reflexivity. Qed.

(* pack banner: extension priority, then listing order; then the sibling; then nothing *)
Lemma first_by_priority_spec listing : forall exts x, first_by_priority listing exts = Some x ->
  exists pre e post, exts = pre ++ e :: post /\ first_with_ext listing e = Some x /\
                     forall e', In e' pre -> first_with_ext listing e' = None.
Proof.
  induction exts as [|e r IH]; intros x H; [discriminate|]. simpl in H.
  destruct (first_with_ext listing e) as [y|] eqn:E.
  - inversion H; subst. exists [], e, r. repeat split; auto. intros ? [].
  - destruct (IH _ H) as (pre & e2 & post & Er & Hf & Hp). exists (e :: pre), e2, post. subst r. repeat split; auto.
    intros e' [<-|X]; auto.
Qed.

Theorem pack_banner_spec listing name siblings :
  match pack_banner listing name siblings with
  | BInside x => exists pre e post, Tables.ext_image = pre ++ e :: post /\ first_with_ext listing e = Some x /\
                                    (forall e', In e' pre -> first_with_ext listing e' = None)
  | BBeside y => first_by_priority listing Tables.ext_image = None /\ exists e, In e Tables.ext_image /\ y = name ++ e /\ mem_str y siblings = true
  | BNone => first_by_priority listing Tables.ext_image = None /\ forall e, In e Tables.ext_image -> mem_str (name ++ e) siblings = false
  end.
Proof.
  unfold pack_banner. destruct (first_by_priority listing Tables.ext_image) as [x|] eqn:E.
  - apply first_by_priority_spec. exact E.
  - destruct (find (fun e => mem_str (name ++ e) siblings) Tables.ext_image) as [e|] eqn:F.
    + apply find_some in F as [F1 F2]. split; [reflexivity|]. exists e. auto.
    + split; [reflexivity|]. intros e He. apply (find_none _ _ F e He).
Qed.

Lemma image_priority : Tables.ext_image = [[46;112;110;103]; [46;106;112;103]; [46;106;112;101;103]; [46;103;105;102]; [46;98;109;112]].
Proof. reflexivity. Qed.
