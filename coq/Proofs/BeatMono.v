(* C12: the answer of beat_at never decreases as time increases - across states, for every tag.
   Generic part: a list of states whose times never decrease and whose consecutive states satisfy step_ok;
   then: the states of timing data of the domain whose event beats lie on the tick grid form such a list. *)
From Coq Require Import List ZArith QArith Qabs Bool Lia Lqa Setoid Sorting.Sorted Arith.
From SV Require Import Sx Beat Engine Proofs.C14 Proofs.EngineFacts Proofs.Hittable Proofs.TimeLaw Proofs.BeatAt.
Import ListNotations.
Open Scope Q_scope.

(* ================================================================== 1. what the search returns *)
Lemma pick_shape d : forall sts idx t q best,
  pick_in_run sts idx t q best = best \/
  exists k, pick_in_run sts idx t q best = Some (idx + k)%nat /\ (k < length sts)%nat /\ s_time (nth k sts d) <= t.
Proof.
  induction sts as [|s r IH]; intros idx t q best; [left; reflexivity|].
  cbn [pick_in_run].
  destruct (qlt (s_time s) t) eqn:L.
  - apply qlt_spec in L. destruct (IH (S idx) t q (Some idx)) as [E|[k [E [Hk Ht]]]].
    + right. exists 0%nat. rewrite E. split; [f_equal; lia|]. split; [simpl; lia|]. simpl. lra.
    + right. exists (S k). rewrite E. split; [f_equal; lia|]. split; [simpl; lia|exact Ht].
  - destruct (qeq (s_time s) t) eqn:Q; [|left; reflexivity].
    apply qeq_spec in Q.
    destruct (IH (S idx) t q (if (s_tag s <=? q)%Z then Some idx else best)) as [E|[k [E [Hk Ht]]]].
    + rewrite E. destruct (s_tag s <=? q)%Z; [|left; reflexivity].
      right. exists 0%nat. split; [f_equal; lia|]. split; [simpl; lia|]. simpl. lra.
    + right. exists (S k). rewrite E. split; [f_equal; lia|]. split; [simpl; lia|exact Ht].
Qed.

(* every state after the selected one is not earlier than the asked time *)
Lemma pick_after d : forall sts idx t q best, times_sorted sts ->
  forall k, (k < length sts)%nat -> (forall i, pick_in_run sts idx t q best = Some i -> (i < idx + k)%nat) ->
  t <= s_time (nth k sts d).
Proof.
  induction sts as [|s r IH]; intros idx t q best Hs k Hk Hres; [simpl in Hk; lia|].
  inversion Hs as [|? ? Hs' Hall]; subst. rewrite Forall_forall in Hall.
  cbn [pick_in_run] in Hres.
  destruct (qlt (s_time s) t) eqn:L.
  - destruct k as [|k].
    + exfalso. destruct (pick_shape d r (S idx) t q (Some idx)) as [E|[k' [E _]]]; specialize (Hres _ E); lia.
    + cbn [nth]. apply (IH (S idx) t q (Some idx) Hs'); [simpl in Hk; lia|].
      intros i Hi. specialize (Hres i Hi). lia.
  - assert (Hge : t <= s_time s).
    { apply Qnot_lt_le. intro X. apply qlt_spec in X. congruence. }
    destruct k as [|k]; [exact Hge|]. cbn [nth].
    destruct (qeq (s_time s) t) eqn:Q.
    + apply (IH (S idx) t q (if (s_tag s <=? q)%Z then Some idx else best) Hs'); [simpl in Hk; lia|].
      intros i Hi. specialize (Hres i Hi). lia.
    + assert (In (nth k r d) r) by (apply nth_In; simpl in Hk; lia).
      specialize (Hall _ H). lra.
Qed.

Definition idx_of (sts : list state) (t : Q) (q : Z) : nat :=
  match pick_in_run sts 0 t q None with Some i => i | None => 0%nat end.

Definition answer (p : state) (t : Q) : Q :=
  if is_pause_tag (s_tag p) then s_beat p else s_beat p + tick_round ((t - s_time p) / 60 * s_bpm p).

Lemma beat_at_raw_answer sts d t q : fst (beat_at_raw sts d t q) == answer (nth (idx_of sts t q) sts d) t.
Proof.
  unfold beat_at_raw, answer, idx_of. destruct (is_pause_tag (s_tag _)); cbn [fst]; [reflexivity|].
  rewrite Qred_correct. reflexivity.
Qed.

Lemma idx_of_cases d sts t q :
  (pick_in_run sts 0 t q None = None /\ idx_of sts t q = 0%nat) \/
  (pick_in_run sts 0 t q None = Some (idx_of sts t q) /\ (idx_of sts t q < length sts)%nat /\
   s_time (nth (idx_of sts t q) sts d) <= t).
Proof.
  unfold idx_of. destruct (pick_shape d sts 0 t q None) as [E|[k [E [Hk Ht]]]]; rewrite E.
  - left. split; reflexivity.
  - right. cbn [Nat.add]. split; [reflexivity|]. split; assumption.
Qed.

Lemma idx_of_lt (d : state) sts t q : sts <> [] -> (idx_of sts t q < length sts)%nat.
Proof.
  intro Hne. destruct (idx_of_cases d sts t q) as [[_ E]|[_ [H _]]]; [|exact H].
  rewrite E. destruct sts; [congruence|simpl; lia].
Qed.

Lemma idx_of_after d sts t q k : times_sorted sts -> (idx_of sts t q < k)%nat -> (k < length sts)%nat ->
  t <= s_time (nth k sts d).
Proof.
  intros Hs Hlt Hk. apply (pick_after d sts 0 t q None Hs k Hk).
  intros i Hi. unfold idx_of in Hlt. rewrite Hi in Hlt. lia.
Qed.

Lemma idx_of_mono (d : state) sts t1 t2 q : times_sorted sts -> t1 <= t2 -> (idx_of sts t1 q <= idx_of sts t2 q)%nat.
Proof.
  intros Hs H12. destruct (le_lt_dec (idx_of sts t1 q) (idx_of sts t2 q)) as [L|L]; [exact L|exfalso].
  destruct (idx_of_cases d sts t1 q) as [[_ E]|[E1 [Hl1 Ht1]]]; [lia|].
  pose proof (idx_of_after d sts t2 q _ Hs L Hl1) as Ht2.
  assert (E : t1 == t2) by lra.
  unfold idx_of in L. rewrite (pick_compat sts 0 t1 t2 q None E) in L. lia.
Qed.

(* ================================================================== 2. chains of states *)
Definition step_ok (s s' : state) : Prop :=
  s_beat s <= s_beat s' /\
  (is_pause_tag (s_tag s) = false -> forall t, t <= s_time s' ->
     s_beat s + tick_round ((t - s_time s) / 60 * s_bpm s) <= s_beat s').

Inductive chain : list state -> Prop :=
| chain_one s : 0 < s_bpm s -> chain [s]
| chain_cons s s' r : 0 < s_bpm s -> step_ok s s' -> chain (s' :: r) -> chain (s :: s' :: r).

Lemma chain_bpm d : forall sts, chain sts -> forall j, (j < length sts)%nat -> 0 < s_bpm (nth j sts d).
Proof.
  induction 1 as [s Hb|s s' r Hb Hst Hc IH]; intros j Hj.
  - destruct j as [|j]; [exact Hb|simpl in Hj; lia].
  - destruct j as [|j]; [exact Hb|]. cbn [nth]. apply IH. simpl in Hj |- *. lia.
Qed.

Lemma chain_step d : forall sts, chain sts -> forall j, (S j < length sts)%nat -> step_ok (nth j sts d) (nth (S j) sts d).
Proof.
  induction 1 as [s Hb|s s' r Hb Hst Hc IH]; intros j Hj.
  - simpl in Hj. lia.
  - destruct j as [|j]; [exact Hst|].
    change (nth (S j) (s :: s' :: r) d) with (nth j (s' :: r) d).
    change (nth (S (S j)) (s :: s' :: r) d) with (nth (S j) (s' :: r) d).
    apply IH. simpl in Hj |- *. lia.
Qed.

Lemma chain_beats d sts : chain sts -> forall n j, (j + n < length sts)%nat -> s_beat (nth j sts d) <= s_beat (nth (j + n) sts d).
Proof.
  intros Hc. induction n as [|n IH]; intros j Hj.
  - rewrite Nat.add_0_r. lra.
  - assert (A : s_beat (nth j sts d) <= s_beat (nth (j + n) sts d)) by (apply IH; lia).
    pose proof (chain_step d sts Hc (j + n) ltac:(lia)) as [B _].
    replace (j + S n)%nat with (S (j + n)) by lia. lra.
Qed.

Lemma scale_le a b v : 0 < v -> a <= b -> a / 60 * v <= b / 60 * v.
Proof.
  intros Hv Hab. unfold Qdiv.
  setoid_replace (a * / 60 * v) with (a * (/ 60 * v)) by ring.
  setoid_replace (b * / 60 * v) with (b * (/ 60 * v)) by ring.
  apply Qmult_le_compat_r; [exact Hab|]. assert (0 < / 60) by reflexivity.
  apply Qlt_le_weak. apply Qmult_lt_0_compat; assumption.
Qed.

Theorem beat_at_monotone_chain sts d t1 t2 q : sts <> [] -> times_sorted sts -> chain sts -> t1 <= t2 ->
  fst (beat_at_raw sts d t1 q) <= fst (beat_at_raw sts d t2 q).
Proof.
  intros Hne Hs Hc H12. rewrite !beat_at_raw_answer.
  pose proof (idx_of_mono d sts t1 t2 q Hs H12) as Hi.
  pose proof (idx_of_lt d sts t1 q Hne) as L1. pose proof (idx_of_lt d sts t2 q Hne) as L2.
  set (i1 := idx_of sts t1 q) in *. set (i2 := idx_of sts t2 q) in *.
  destruct (Nat.eq_dec i1 i2) as [E|N].
  - rewrite <- E. unfold answer. destruct (is_pause_tag (s_tag (nth i1 sts d))); [lra|].
    pose proof (chain_bpm d sts Hc i1 L1) as Hb.
    assert (M : tick_round ((t1 - s_time (nth i1 sts d)) / 60 * s_bpm (nth i1 sts d)) <=
                tick_round ((t2 - s_time (nth i1 sts d)) / 60 * s_bpm (nth i1 sts d))).
    { apply tick_round_mono. apply scale_le; [exact Hb|lra]. }
    lra.
  - assert (Hlt : (i1 < i2)%nat) by lia.
    (* the first answer does not pass the next state's beat *)
    assert (A : answer (nth i1 sts d) t1 <= s_beat (nth (S i1) sts d)).
    { pose proof (chain_step d sts Hc i1 ltac:(lia)) as [B1 B2]. unfold answer.
      destruct (is_pause_tag (s_tag (nth i1 sts d))) eqn:P; [exact B1|].
      apply B2; [reflexivity|]. apply (idx_of_after d sts t1 q (S i1) Hs); [fold i1; lia|lia]. }
    assert (B : s_beat (nth (S i1) sts d) <= s_beat (nth i2 sts d)).
    { replace i2 with (S i1 + (i2 - S i1))%nat by lia. apply chain_beats; [exact Hc|lia]. }
    assert (C : s_beat (nth i2 sts d) <= answer (nth i2 sts d) t2).
    { unfold answer. destruct (is_pause_tag (s_tag (nth i2 sts d))); [lra|].
      destruct (idx_of_cases d sts t2 q) as [[_ E]|[_ [_ Ht]]]; [fold i2 in E; lia|]. fold i2 in Ht.
      pose proof (chain_bpm d sts Hc i2 L2) as Hb.
      assert (Z0 : 0 <= (t2 - s_time (nth i2 sts d)) / 60 * s_bpm (nth i2 sts d)).
      { setoid_replace 0 with (0 / 60 * s_bpm (nth i2 sts d)) by (unfold Qdiv; ring). apply scale_le; [exact Hb|lra]. }
      pose proof (tick_round_nonneg _ Z0). lra. }
    lra.
Qed.

(* ================================================================== 3. the states of timing data form a chain *)
Definition aligned (x : Q) : Prop := exists k : Z, x == inject_Z k / 48.

Lemma aligned_diff a b : aligned a -> aligned b -> aligned (b - a).
Proof.
  intros [k Hk] [m Hm]. exists (m - k)%Z. rewrite Hk, Hm. unfold Zminus. rewrite inject_Z_plus, inject_Z_opp. field.
Qed.

Lemma tick_round_aligned x : aligned x -> tick_round x == x.
Proof. intros [k Hk]. rewrite (tick_round_compat _ _ Hk), Hk. apply round_he_exact_q. Qed.

Lemma advance_step_ok s e : st_ok s -> s_beat s <= e_beat e -> aligned (s_beat s) -> aligned (e_beat e) ->
  step_ok s (advance s e).
Proof.
  intros [Hb Hp] Hle As Ae. split; [exact Hle|]. intros P t Ht.
  unfold advance in Ht |- *. cbn [s_time s_beat] in *. rewrite Qred_correct in Ht. unfold time_until in Ht.
  rewrite P in Ht. cbn [andb] in Ht. rewrite Qred_correct in Ht.
  destruct (s_warp s).
  - assert (Z0 : (t - s_time s) / 60 * s_bpm s <= 0).
    { setoid_replace 0 with (0 / 60 * s_bpm s) by (unfold Qdiv; ring). apply scale_le; [exact Hb|lra]. }
    pose proof (tick_round_mono _ _ Z0) as M. rewrite (tick_round_zero 0) in M by reflexivity. lra.
  - assert (Z0 : (t - s_time s) / 60 * s_bpm s <= e_beat e - s_beat s).
    { setoid_replace (e_beat e - s_beat s) with (((e_beat e - s_beat s) * 60 / s_bpm s) / 60 * s_bpm s)
        by (field; intro X; rewrite X in Hb; lra).
      apply scale_le; [exact Hb|lra]. }
    pose proof (tick_round_mono _ _ Z0) as M. rewrite (tick_round_aligned (e_beat e - s_beat s)) in M by (apply aligned_diff; assumption).
    lra.
Qed.

Lemma run_states_chain : forall es s, st_ok s -> Forall ev_ok es -> StronglySorted ev_ge es ->
  (forall e, In e es -> s_beat s <= e_beat e) -> aligned (s_beat s) -> (forall e, In e es -> aligned (e_beat e)) ->
  chain (run_states s es).
Proof.
  induction es as [|e r IH]; intros s Hs Hev Hsort Hbeat As Ae; cbn [run_states].
  - constructor. exact (proj1 Hs).
  - inversion Hev; subst. inversion Hsort as [|? ? Hsort' Hhd]; subst. rewrite Forall_forall in Hhd.
    assert (Hle : s_beat s <= e_beat e) by (apply Hbeat; left; reflexivity).
    assert (IHr : chain (run_states (advance s e) r)).
    { apply IH; [apply advance_ok; assumption|assumption|assumption| | |].
      - intros e' He'. unfold advance; cbn [s_beat]. apply ev_ge_beat. apply Hhd. exact He'.
      - unfold advance; cbn [s_beat]. apply Ae. left. reflexivity.
      - intros e' He'. apply Ae. right. exact He'. }
    assert (St : step_ok s (advance s e)) by (apply advance_step_ok; [assumption|assumption|assumption|apply Ae; left; reflexivity]).
    destruct r as [|e2 r2]; cbn [run_states] in IHr |- *; (apply chain_cons; [exact (proj1 Hs)|exact St|exact IHr]).
Qed.

Section Mono.
Variables (td : tdata) (b0 v0 : Q) (rest : list (Q * Q)).
Hypothesis D : dom td.
Hypothesis Hbpm : td_bpms td = (b0, v0) :: rest.
Hypothesis Hticks : forall e, In e (events td) -> exists k : Z, e_beat e == inject_Z k / 48.

Lemma init_ok : st_ok (init_state td v0).
Proof.
  unfold st_ok, init_state. cbn [s_bpm s_tag s_val]. split; [|discriminate].
  pose proof (dom_bpm_pos td D) as P. rewrite Hbpm in P. inversion P; subst. assumption.
Qed.

Theorem beat_at_monotone d t1 t2 q : t1 <= t2 ->
  fst (beat_at_raw (sts td v0) d t1 q) <= fst (beat_at_raw (sts td v0) d t2 q).
Proof.
  intro H12. unfold sts. apply beat_at_monotone_chain.
  - destruct (events td); discriminate.
  - apply run_states_monotone; [exact init_ok|apply events_ok; exact D|apply events_sorted; exact D|].
    intros e He. cbn [init_state s_beat]. apply (events_nonneg td D e He).
  - apply run_states_chain; [exact init_ok|apply events_ok; exact D|apply events_sorted; exact D| | |exact Hticks].
    + intros e He. cbn [init_state s_beat]. apply (events_nonneg td D e He).
    + exists 0%Z. cbn [init_state s_beat]. reflexivity.
  - exact H12.
Qed.
End Mono.

(* ================================================================== 4. every answer is on the tick grid *)
Lemma aligned_plus a b : aligned a -> aligned b -> aligned (a + b).
Proof. intros [k Hk] [m Hm]. exists (k + m)%Z. rewrite Hk, Hm, inject_Z_plus. field. Qed.

Lemma run_states_aligned : forall es s, aligned (s_beat s) -> (forall e, In e es -> aligned (e_beat e)) ->
  forall x, In x (run_states s es) -> aligned (s_beat x).
Proof.
  induction es as [|e r IH]; intros s As Ae x Hx; cbn [run_states] in Hx.
  - destruct Hx as [<-|[]]. exact As.
  - destruct Hx as [<-|Hx]; [exact As|]. apply (IH (advance s e)); [unfold advance; cbn [s_beat]; apply Ae; left; reflexivity| |exact Hx].
    intros e' He'. apply Ae. right. exact He'.
Qed.

Theorem beat_at_aligned_td td v0 : (forall e, In e (events td) -> exists k : Z, e_beat e == inject_Z k / 48) ->
  forall t q, aligned (fst (beat_at_raw (sts td v0) (init_state td v0) t q)).
Proof.
  intros Hticks t q.
  assert (Hne : sts td v0 <> []) by (unfold sts; destruct (events td); discriminate).
  pose proof (idx_of_lt (init_state td v0) (sts td v0) t q Hne) as L.
  set (p := nth (idx_of (sts td v0) t q) (sts td v0) (init_state td v0)).
  assert (Ap : aligned (s_beat p)).
  { apply (run_states_aligned (events td) (init_state td v0)); [exists 0%Z; cbn [init_state s_beat]; reflexivity|exact Hticks|].
    apply nth_In. exact L. }
  destruct (tick_round_is_tick ((t - s_time p) / 60 * s_bpm p)) as [k Hk].
  assert (E := beat_at_raw_answer (sts td v0) (init_state td v0) t q). fold p in E.
  unfold answer in E. destruct (is_pause_tag (s_tag p)).
  - destruct Ap as [m Hm]. exists m. rewrite E. exact Hm.
  - destruct (aligned_plus _ _ Ap (ex_intro _ k Hk)) as [m Hm]. exists m. rewrite E. exact Hm.
Qed.
