(* C12: "its own time lies within half a tick's duration of the asked time" - the answer of beat_at, converted back with
   time_at, when the answer falls strictly between the selected state's beat and the next event (no event on it). *)
From Coq Require Import List ZArith QArith Qabs Bool Lia Lqa Setoid Sorting.Sorted Arith.
From SV Require Import Sx Beat Engine Proofs.C14 Proofs.EngineFacts Proofs.Hittable Proofs.TimeLaw Proofs.BeatAt.
Import ListNotations.
Open Scope Q_scope.

Section Own.
Variables (td : tdata) (b0 v0 : Q) (rest : list (Q * Q)).
Hypothesis D : dom td.
Hypothesis Hbpm : td_bpms td = (b0, v0) :: rest.
Hypothesis Hb0 : b0 == 0.

Let s0 := init_state td v0.
Let es := events td.

Theorem own_time_interior P R t q tag :
  es = P ++ R ->
  s_warp (St td v0 P) = false -> is_pause_tag (s_tag (St td v0 P)) = false ->
  s_time (St td v0 P) < t -> (forall x, In x (tl (run_states (St td v0 P) R)) -> t < s_time x) ->
  (forall p, In p P -> e_beat p < fst (beat_at_raw (sts td v0) s0 t q)) ->
  (forall r, In r R -> fst (beat_at_raw (sts td v0) s0 t q) < e_beat r) ->
  (0 < fst (beat_at_raw (sts td v0) s0 t q) \/ (2 <= tag)%Z) ->
  Qabs (time_at (sts td v0) s0 (fst (beat_at_raw (sts td v0) s0 t q)) tag - t) <= (1 # 96) * (60 / s_bpm (St td v0 P)).
Proof.
  intros E F3 F4 Ht Hpost. set (s := St td v0 P) in *.
  assert (Hsts : sts td v0 = removelast (run_states s0 P) ++ s :: tl (run_states s R)).
  { unfold sts. fold es. rewrite E, run_states_app. f_equal. fold s0. change (fold_left advance P s0) with s.
    destruct R; reflexivity. }
  assert (Hsorted : times_sorted (sts td v0)).
  { apply (states_monotone td); [exact D|]. apply (states_is_sts td b0 v0 rest Hbpm Hb0). }
  assert (Fok : st_ok s) by (apply (St_ok td b0 v0 rest D Hbpm P R E)). destruct Fok as [Fbpm _].
  set (el := (t - s_time s) / 60 * s_bpm s).
  assert (Ea : fst (beat_at_raw (sts td v0) s0 t q) == s_beat s + tick_round el).
  { rewrite Hsts in *. exact (beat_at_between (removelast (run_states s0 P)) s (tl (run_states s R)) s0 t q Hsorted F4 Ht Hpost). }
  set (a := fst (beat_at_raw (sts td v0) s0 t q)) in *.
  intros F1 F2 Htag.
  assert (Hel : 0 <= el).
  { unfold el. setoid_replace 0 with (0 / 60 * s_bpm s) by (unfold Qdiv; ring). unfold Qdiv.
    setoid_replace ((t - s_time s) * / 60 * s_bpm s) with ((t - s_time s) * (/ 60 * s_bpm s)) by ring.
    setoid_replace (0 * / 60 * s_bpm s) with (0 * (/ 60 * s_bpm s)) by ring.
    apply Qmult_le_compat_r; [lra|]. assert (0 < / 60) by reflexivity. apply Qlt_le_weak. apply Qmult_lt_0_compat; assumption. }
  assert (Ha0 : 0 <= a).
  { destruct P as [|p0 P0] eqn:EP.
    - rewrite Ea. unfold s, St, init_state. cbn [fold_left s_beat]. pose proof (tick_round_nonneg el Hel). lra.
    - assert (Hin : In p0 es) by (rewrite E; left; reflexivity).
      pose proof (events_nonneg td D p0 Hin). specialize (F1 p0 (or_introl eq_refl)). lra. }
  destruct (time_at_cut_gen td b0 v0 rest D Hbpm a tag Ha0 Htag) as (P' & R' & E' & HP' & HR' & T).
  assert (EPP : P' = P).
  { assert (E12 : P ++ R = P' ++ R') by (rewrite <- E; exact E').
    apply app_eq_app in E12 as [l [[A B]|[A B]]].
    - destruct l as [|x l]; [rewrite app_nil_r in A; symmetry; exact A|exfalso].
      assert (X1 : e_beat x < a) by (apply F1; rewrite A; apply in_or_app; right; left; reflexivity).
      assert (X2 : klt_ev a tag x) by (apply HR'; rewrite B; left; reflexivity).
      pose proof (klt_beat _ _ _ X2). lra.
    - destruct l as [|x l]; [rewrite app_nil_r in A; exact A|exfalso].
      assert (X1 : kle_ev x a tag) by (apply HP'; rewrite A; apply in_or_app; right; left; reflexivity).
      assert (X2 : a < e_beat x) by (apply F2; rewrite B; left; reflexivity).
      pose proof (kle_beat _ _ _ X1). lra. }
  rewrite EPP in T. fold s in T.
  assert (Hr : 0 < 60 / s_bpm s) by (apply Qlt_shift_div_l; [exact Fbpm|lra]).
  assert (Ed : time_at (sts td v0) s0 a tag - t == (tick_round el - el) * (60 / s_bpm s)).
  { assert (T' : time_at (sts td v0) s0 a tag == Ecut s a) by exact T.
    rewrite T'. unfold Ecut, state_rate. rewrite F3, Ea. unfold el. field. intro X. rewrite X in Fbpm. lra. }
  rewrite Ed, Qabs_Qmult, (Qabs_pos (60 / s_bpm s)) by lra.
  apply Qmult_le_compat_r; [apply tick_round_near|lra].
Qed.
End Own.
