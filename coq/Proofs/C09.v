(* Lemmas for C09 beyond the refinement: what the specification says in the words of the
   documentation, rows, same-beat modes and counting. *)
From Coq Require Import List Arith ZArith NArith Bool Lia Permutation.
From SV Require Import Sx Str Notes Group Proofs.GroupRefine.
Import ListNotations.
Local Open Scope nat_scope.

(* ---------------------------------------------------------------- association list facts *)
Lemma lookup_app c a b : lookup c (a ++ b) = match lookup c a with Some h => Some h | None => lookup c b end.
Proof. induction a as [|[c' n] a IH]; simpl; [reflexivity|]. destruct (c' =? c); auto. Qed.

Lemma lookup_remove_same c hs : NoDup (map fst hs) -> lookup c (remove_col c hs) = None.
Proof.
  intro H. destruct (lookup c (remove_col c hs)) eqn:E; [|reflexivity].
  apply lookup_in in E. exfalso. apply (remove_col_notin c hs H). apply in_map_iff. exists (c, n). auto.
Qed.

Lemma lookup_remove_other c c' hs : c <> c' -> lookup c (remove_col c' hs) = lookup c hs.
Proof.
  intro H. induction hs as [|[c0 n] hs IH]; simpl; [reflexivity|].
  destruct (c0 =? c') eqn:E1.
  - apply Nat.eqb_eq in E1; subst. destruct (c' =? c) eqn:E2; [apply Nat.eqb_eq in E2; congruence|reflexivity].
  - simpl. rewrite IH. reflexivity.
Qed.

Lemma opens_nodup open_ x : NoDup (map fst open_) -> NoDup (map fst (opens open_ x)).
Proof.
  intro H. unfold opens. destruct (is_head (ty x)); [|apply remove_col_nodup; assumption].
  rewrite map_app. simpl. apply nodup_snoc; [apply remove_col_nodup; assumption|apply remove_col_notin; assumption].
Qed.

(* ---------------------------------------------------------------- "open" = the previous note of the column is a head *)
(* [rp] is the already-read part of the stream, most recent first *)
Definition tracks (open_ : list (nat * note)) (rp : list note) : Prop :=
  forall c, lookup c open_ = match next_in_col c rp with
                             | Some n => if is_head (ty n) then Some n else None
                             | None => None end.

Lemma tracks_nil : tracks [] [].
Proof. intro c. reflexivity. Qed.

Lemma tracks_step open_ rp x : NoDup (map fst open_) -> tracks open_ rp -> tracks (opens open_ x) (x :: rp).
Proof.
  intros Hnd T c. simpl. unfold opens. destruct (col x =? c) eqn:E.
  - apply Nat.eqb_eq in E; subst c. destruct (is_head (ty x)).
    + rewrite lookup_app, lookup_remove_same by assumption. simpl. rewrite Nat.eqb_refl. reflexivity.
    + apply lookup_remove_same; assumption.
  - apply Nat.eqb_neq in E. destruct (is_head (ty x)).
    + rewrite lookup_app, lookup_remove_other by congruence. rewrite T.
      destruct (next_in_col c rp) as [n|]; [destruct (is_head (ty n)); [reflexivity|]|]; simpl;
        destruct (col x =? c) eqn:E2; try reflexivity; apply Nat.eqb_eq in E2; congruence.
    + rewrite lookup_remove_other by congruence. apply T.
Qed.

(* the specification in the documentation's words: the items emitted for the note x that
   follows [rp] and precedes [r] *)
Definition doc_item (ph pt : policy) (rp : list note) (x : note) (r : list note) : list item :=
  if is_tail (ty x) then
    match next_in_col (col x) rp with
    | Some p => if is_head (ty p) then [] (* closes that head: emitted with it *) else orphan_item pt x
    | None => orphan_item pt x
    end
  else if is_head (ty x) then
    match next_in_col (col x) r with
    | Some t => if is_tail (ty t) then [Joined x (beat t)] else orphan_item ph x
    | None => orphan_item ph x
    end
  else [Plain x].

Fixpoint doc_items (ph pt : policy) (rp : list note) (ns : list note) : list item :=
  match ns with
  | [] => []
  | x :: r => doc_item ph pt rp x r ++ doc_items ph pt (x :: rp) r
  end.

Lemma spec_items_doc ph pt : forall ns open_ rp, NoDup (map fst open_) -> tracks open_ rp ->
  spec_items ph pt open_ ns = doc_items ph pt rp ns.
Proof.
  induction ns as [|x r IH]; intros open_ rp Hnd T; [reflexivity|].
  cbn [spec_items doc_items]. rewrite (IH (opens open_ x) (x :: rp)); [|apply opens_nodup; assumption|apply tracks_step; assumption].
  f_equal. unfold doc_item, fate. destruct (is_tail (ty x)); [|reflexivity].
  rewrite T. destruct (next_in_col (col x) rp) as [p|]; [destruct (is_head (ty p))|]; reflexivity.
Qed.

(* ---------------------------------------------------------------- rows *)
Lemma rows_of_nonempty l : Forall (fun row => row <> []) (rows_of l).
Proof.
  induction l as [|x r IH]; [constructor|]. cbn [rows_of].
  destruct (rows_of r) as [|[|y g] rest] eqn:E.
  - repeat constructor. discriminate.
  - repeat constructor. discriminate.
  - inversion IH; subst. destruct (beat_eqb (item_beat x) (item_beat y)).
    + constructor; [discriminate|assumption].
    + constructor; [discriminate|]. constructor; assumption.
Qed.

Lemma rows_of_concat l : concat (rows_of l) = l.
Proof.
  induction l as [|x r IH]; [reflexivity|]. cbn [rows_of].
  destruct (rows_of r) as [|[|y g] rest] eqn:E.
  - simpl in IH. subst r. reflexivity.
  - exfalso. pose proof (rows_of_nonempty r) as N. rewrite E in N. inversion N; subst. congruence.
  - destruct (beat_eqb (item_beat x) (item_beat y)); simpl in *; rewrite <- IH; reflexivity.
Qed.

Lemma beat_eqb_eq a b : beat_eqb a b = true <-> a = b.
Proof.
  unfold beat_eqb. rewrite andb_true_iff, !Z.eqb_eq. destruct a, b; simpl. split; [intros [-> ->]; reflexivity|intro H; inversion H; auto].
Qed.

(* every row carries one beat *)
Lemma rows_of_same_beat l : Forall (fun row => forall i j, In i row -> In j row -> item_beat i = item_beat j) (rows_of l).
Proof.
  induction l as [|x r IH]; [constructor|]. cbn [rows_of].
  destruct (rows_of r) as [|[|y g] rest] eqn:E.
  - repeat constructor. intros i j [<-|[]] [<-|[]]. reflexivity.
  - repeat constructor. intros i j [<-|[]] [<-|[]]. reflexivity.
  - inversion IH as [|? ? Hrow Hrest]; subst. destruct (beat_eqb (item_beat x) (item_beat y)) eqn:B.
    + apply beat_eqb_eq in B. constructor; [|assumption].
      assert (Hy : forall k, In k (y :: g) -> item_beat k = item_beat x).
      { intros k Hk. rewrite B. apply Hrow; [assumption|left; reflexivity]. }
      intros i j [<-|Hi] [<-|Hj]; try reflexivity.
      * symmetry. apply Hy. assumption.
      * apply Hy. assumption.
      * rewrite (Hy i Hi), (Hy j Hj). reflexivity.
    + constructor; [|constructor; assumption]. intros i j [<-|[]] [<-|[]]. reflexivity.
Qed.

(* ---------------------------------------------------------------- same-beat modes *)
Lemma add_row_keep_separate row : concat (add_row KeepSeparate row) = row /\ Forall (fun g => length g = 1) (add_row KeepSeparate row).
Proof.
  simpl. split.
  - induction row as [|x r IH]; simpl; [reflexivity|]. rewrite IH. reflexivity.
  - apply Forall_forall. intros g Hg. apply in_map_iff in Hg as [i [<- _]]. reflexivity.
Qed.

Lemma add_row_join_all row : add_row JoinAll row = [row].
Proof. reflexivity. Qed.

Lemma filter_length_le {A} (f : A -> bool) l : length (filter f l) <= length l.
Proof. induction l as [|x r IH]; simpl; [lia|]. destruct (f x); simpl; lia. Qed.

Lemma partition_perm {A} (f : A -> bool) l : Permutation l (filter f l ++ filter (fun x => negb (f x)) l).
Proof.
  induction l as [|x r IH]; simpl; [constructor|]. destruct (f x); simpl.
  - constructor. assumption.
  - apply Permutation_cons_app. assumption.
Qed.

(* per-type grouping: groups are type-homogeneous, no note is lost or duplicated *)
Lemma rest_shorter x r :
  length (filter (fun i => negb (N.eqb (item_type i) (item_type x))) (x :: r)) <= length r.
Proof. cbn [filter]. rewrite N.eqb_refl. cbn [negb]. apply filter_length_le. Qed.

Lemma by_type_perm : forall fuel row, length row <= fuel -> Permutation row (concat (by_type fuel row)).
Proof.
  induction fuel as [|f IH]; intros row H.
  - destruct row; [constructor|simpl in H; lia].
  - destruct row as [|x r]; [constructor|]. cbn [by_type concat].
    etransitivity; [apply (partition_perm (fun i => N.eqb (item_type i) (item_type x)))|].
    apply Permutation_app_head. apply IH.
    pose proof (rest_shorter x r). simpl in H. lia.
Qed.

Lemma by_type_homogeneous : forall fuel row, Forall (fun g => forall i j, In i g -> In j g -> item_type i = item_type j) (by_type fuel row).
Proof.
  induction fuel as [|f IH]; intro row; [constructor|].
  destruct row as [|x r]; [constructor|]. cbn [by_type]. constructor; [|apply IH].
  intros i j Hi Hj. apply filter_In in Hi as [_ Hi]. apply filter_In in Hj as [_ Hj].
  apply N.eqb_eq in Hi. apply N.eqb_eq in Hj. congruence.
Qed.

(* ---------------------------------------------------------------- counting *)
Lemma count_singletons l : count_grouped 1 (map (fun i : item => [i]) l) = length l.
Proof. unfold count_grouped. induction l as [|x r IH]; simpl; [reflexivity|]. f_equal. exact IH. Qed.

Lemma flat_map_singletons (l : list (list item)) :
  flat_map (add_row KeepSeparate) l = map (fun i => [i]) (concat l).
Proof.
  induction l as [|row r IH]; simpl; [reflexivity|]. rewrite IH, map_app. reflexivity.
Qed.

(* holds/rolls: the count is the number of items the joining emits *)
Lemma count_holds_is_items head ph pt ns g :
  count_holds_or_rolls head ph pt ns = GOk g ->
  exists l, impl ph pt (filter (included [head; 51%N]) ns) = Ok l /\ count_grouped 1 g = length l.
Proof.
  unfold count_holds_or_rolls, group_notes.
  destruct (impl ph pt (filter (included [head; 51%N]) ns)) as [l| |]; try discriminate.
  intro H. inversion H; subst. exists l. split; [reflexivity|].
  rewrite flat_map_singletons, count_singletons, rows_of_concat. reflexivity.
Qed.

(* the full function against the specification *)
Lemma group_notes_spec types m ph pt ns : NoDup ns ->
  group_notes types m true ph pt ns =
  match spec_err ph pt [] (filter (included types) ns) with
  | Some n => GErrOrphan n
  | None => GOk (flat_map (add_row m) (rows_of (doc_items ph pt [] (filter (included types) ns))))
  end.
Proof.
  intro H. unfold group_notes. rewrite impl_refines_spec by (apply NoDup_filter; assumption).
  unfold spec. destruct (spec_err ph pt [] (filter (included types) ns)); [reflexivity|].
  rewrite (spec_items_doc ph pt _ [] []); [reflexivity|constructor|apply tracks_nil].
Qed.
