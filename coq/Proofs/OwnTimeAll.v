(* C12: "its own time lies within half a tick's duration of the asked time (widened by any pause on that beat)" - the answer
   of beat_at converted back with time_at, also when the answer lands ON an event beat: the selected state's own beat (rounded
   down) or the beat of the next events (rounded up).  The difference is the rounding error in seconds plus the lengths of
   the stops / delays on that very beat that the asked tag lets time_at count. *)
From Coq Require Import List ZArith QArith Qabs Bool Lia Lqa Setoid Sorting.Sorted Arith.
From SV Require Import Sx Beat Engine Proofs.C14 Proofs.EngineFacts Proofs.Hittable Proofs.TimeLaw Proofs.BeatAt Proofs.BeatMono.
Import ListNotations.
Open Scope Q_scope.

Definition end_val (e : ev) : Q := if is_end_tag (e_tag e) then e_val e else 0.
Definition end_sum (M : list ev) : Q := fold_right (fun e acc => end_val e + acc) 0 M.

Lemma end_sum_app A B : end_sum (A ++ B) == end_sum A + end_sum B.
Proof.
  induction A as [|a A IH]; [cbn [app]; unfold end_sum at 2; cbn [fold_right]; ring|].
  change (end_sum ((a :: A) ++ B)) with (end_val a + end_sum (A ++ B)). change (end_sum (a :: A)) with (end_val a + end_sum A).
  rewrite IH. ring.
Qed.

Section OwnAll.
Variables (td : tdata) (b0 v0 : Q) (rest : list (Q * Q)).
Hypothesis D : dom td.
Hypothesis Hbpm : td_bpms td = (b0, v0) :: rest.
Hypothesis Hb0 : b0 == 0.

Let s0 := init_state td v0.
Let es := events td.
Notation St' := (St td v0).

Lemma end_val_nonneg e : In e es -> 0 <= end_val e.
Proof.
  intro He. unfold end_val. destruct (is_end_tag (e_tag e)) eqn:T; [|lra].
  unfold is_end_tag in T. apply orb_true_iff in T as [T|T]; apply Z.eqb_eq in T.
  - assert (H : In e (tagged tSTOP_END (td_stops td))) by (apply (in_tagged_of_tag td b0 v0 rest Hbpm e tSTOP_END _ He T); tauto).
    apply tagged_In' in H as (r & Hr & ->). cbn [mkev e_val]. pose proof (dom_stop_pos td D) as F. rewrite Forall_forall in F. apply F. exact Hr.
  - assert (H : In e (tagged tDELAY_END (td_delays td))) by (apply (in_tagged_of_tag td b0 v0 rest Hbpm e tDELAY_END _ He T); tauto).
    apply tagged_In' in H as (r & Hr & ->). cbn [mkev e_val]. pose proof (dom_delay_pos td D) as F. rewrite Forall_forall in F. apply F. exact Hr.
Qed.

Lemma end_sum_nonneg M : (forall e, In e M -> In e es) -> 0 <= end_sum M.
Proof.
  induction M as [|a M IH]; intro H; cbn [end_sum fold_right]; [lra|]. fold (end_sum M).
  pose proof (end_val_nonneg a (H a (or_introl eq_refl))). assert (0 <= end_sum M) by (apply IH; intros; apply H; right; assumption). lra.
Qed.

(* a block of events that share one beat: reaching it costs the way to that beat, going through it costs its pauses *)
Lemma block_time : forall M A B b, es = A ++ M ++ B -> M <> [] -> (forall e, In e M -> e_beat e == b) ->
  s_time (St' (A ++ M)) == s_time (St' A) + (b - s_beat (St' A)) * state_rate (St' A) + end_sum M /\ s_beat (St' (A ++ M)) == b.
Proof.
  induction M as [|e M0 IH] using rev_ind; intros A B b E Hne Hb; [congruence|].
  assert (He : e_beat e == b) by (apply Hb; apply in_or_app; right; left; reflexivity).
  assert (E2 : es = (A ++ M0) ++ e :: B) by (rewrite E; repeat rewrite <- app_assoc; reflexivity).
  pose proof (step_time td b0 v0 rest D Hbpm (A ++ M0) e B E2) as T.
  replace (A ++ M0 ++ [e]) with ((A ++ M0) ++ [e]) by (rewrite <- app_assoc; reflexivity).
  split; [|rewrite St_last; cbn [advance s_beat]; exact He].
  rewrite T, end_sum_app. cbn [end_sum fold_right]. fold (end_val e).
  destruct M0 as [|m M1].
  - rewrite app_nil_r. cbn [end_sum fold_right]. rewrite He. ring.
  - destruct (IH A (e :: B) b) as [IHt IHb].
    + rewrite E. repeat rewrite <- app_assoc. reflexivity.
    + discriminate.
    + intros x Hx. apply Hb. apply in_or_app. left. exact Hx.
    + rewrite IHt, IHb, He. fold (end_sum (m :: M1)). ring.
Qed.

(* events in front of a state lie on beats at or before the state's beat *)
Lemma prefix_beats P R : es = P ++ R -> forall p, In p P -> e_beat p <= s_beat (St' P).
Proof.
  intros E p Hp. destruct (exists_last (l := P)) as (P0 & z & EP); [intro X; rewrite X in Hp; destruct Hp|].
  rewrite EP in *. rewrite St_last. cbn [advance s_beat].
  apply in_app_or in Hp as [Hp|[<-|[]]]; [|lra].
  assert (E2 : es = P0 ++ z :: R) by (rewrite E, <- app_assoc; reflexivity).
  destruct (split_strict td D P0 z R E2) as (SP & _ & _). specialize (SP p Hp). apply ev_lt_spec in SP. destruct SP as [X|[X _]]; lra.
Qed.

Theorem own_time_any P R t q tag :
  es = P ++ R ->
  s_warp (St' P) = false -> is_pause_tag (s_tag (St' P)) = false ->
  s_time (St' P) < t -> (forall x, In x (tl (run_states (St' P) R)) -> t < s_time x) ->
  (forall r, In r R -> fst (beat_at_raw (sts td v0) s0 t q) <= e_beat r) ->
  (0 < fst (beat_at_raw (sts td v0) s0 t q) \/ (2 <= tag)%Z) ->
  exists M, (forall e, In e M -> In e es /\ e_beat e == fst (beat_at_raw (sts td v0) s0 t q)) /\
    Qabs (time_at (sts td v0) s0 (fst (beat_at_raw (sts td v0) s0 t q)) tag - t) <= (1 # 96) * (60 / s_bpm (St' P)) + end_sum M.
Proof.
  intros E F3 F4 Ht Hpost. set (s := St' P) in *.
  assert (Hsts : sts td v0 = removelast (run_states s0 P) ++ s :: tl (run_states s R)).
  { unfold sts. fold es. rewrite E, run_states_app. f_equal. fold s0. change (fold_left advance P s0) with s.
    destruct R; reflexivity. }
  assert (Hsorted : times_sorted (sts td v0)).
  { apply (states_monotone td); [exact D|]. apply (states_is_sts td b0 v0 rest Hbpm Hb0). }
  assert (Fok : st_ok s) by (apply (St_ok td b0 v0 rest D Hbpm P R E)). destruct Fok as [Fbpm _].
  set (el := (t - s_time s) / 60 * s_bpm s).
  assert (Ea : fst (beat_at_raw (sts td v0) s0 t q) == s_beat s + tick_round el).
  { rewrite Hsts in *. exact (beat_at_between (removelast (run_states s0 P)) s (tl (run_states s R)) s0 t q Hsorted F4 Ht Hpost). }
  set (a := fst (beat_at_raw (sts td v0) s0 t q)) in *.
  intros F2 Htag.
  assert (Hel : 0 <= el).
  { unfold el. setoid_replace 0 with (0 / 60 * s_bpm s) by (unfold Qdiv; ring). unfold Qdiv.
    setoid_replace ((t - s_time s) * / 60 * s_bpm s) with ((t - s_time s) * (/ 60 * s_bpm s)) by ring.
    setoid_replace (0 * / 60 * s_bpm s) with (0 * (/ 60 * s_bpm s)) by ring.
    apply Qmult_le_compat_r; [lra|]. assert (0 < / 60) by reflexivity. apply Qlt_le_weak. apply Qmult_lt_0_compat; assumption. }
  pose proof (tick_round_nonneg el Hel) as Hrn.
  pose proof (tick_round_near el) as Hnear. apply Qabs_Qle_condition in Hnear as [Hn1 Hn2].
  assert (Hsb0 : 0 <= s_beat s).
  { destruct P as [|p0 P0] eqn:EP; [unfold s, St, init_state; cbn [fold_left s_beat]; lra|].
    assert (Hin : In p0 es) by (rewrite E; left; reflexivity).
    pose proof (events_nonneg td D p0 Hin). pose proof (prefix_beats (p0 :: P0) R E p0 (or_introl eq_refl)). fold s in H0. lra. }
  assert (Ha0 : 0 <= a) by (rewrite Ea; lra).
  assert (Hr : 0 < 60 / s_bpm s) by (apply Qlt_shift_div_l; [exact Fbpm|lra]).
  assert (Hrate : state_rate s == 60 / s_bpm s) by (unfold state_rate; rewrite F3; reflexivity).
  assert (Et : t - s_time s == el * (60 / s_bpm s)) by (unfold el; field; intro X; rewrite X in Fbpm; lra).
  (* the rounding error in seconds *)
  assert (Hd1 : (tick_round el - el) * (60 / s_bpm s) <= (1 # 96) * (60 / s_bpm s)) by (apply Qmult_le_compat_r; lra).
  assert (Hd2 : - ((1 # 96) * (60 / s_bpm s)) <= (tick_round el - el) * (60 / s_bpm s)).
  { setoid_replace (- ((1 # 96) * (60 / s_bpm s))) with ((- (1 # 96)) * (60 / s_bpm s)) by ring. apply Qmult_le_compat_r; lra. }
  destruct (time_at_cut_gen td b0 v0 rest D Hbpm a tag Ha0 Htag) as (P' & R' & E' & HP' & HR' & T).
  assert (T' : time_at (sts td v0) s0 a tag == Ecut (St' P') a) by exact T. clear T.
  assert (E12 : P ++ R = P' ++ R') by (rewrite <- E; exact E').
  apply app_eq_app in E12 as [l [[A B]|[A B]]].
  - (* the cut lies inside P: the state's own beat, events on it behind the asked tag *)
    destruct l as [|x0 l0] eqn:El.
    + rewrite app_nil_r in A. exists []. split; [intros e []|].
      rewrite T', <- A. fold s. unfold Ecut. cbn [end_sum fold_right]. rewrite Hrate.
      setoid_replace (s_time s + (a - s_beat s) * (60 / s_bpm s) - t) with ((tick_round el - el) * (60 / s_bpm s)) by (rewrite Ea; lra).
      apply Qabs_Qle_condition. split; lra.
    + rewrite <- El in *. assert (Hlne : l <> []) by (rewrite El; discriminate).
      assert (Hl : forall e, In e l -> e_beat e == a).
      { intros e He. assert (X1 : e_beat e <= s_beat s) by (apply (prefix_beats P R E); rewrite A; apply in_or_app; right; exact He).
        assert (X2 : klt_ev a tag e) by (apply HR'; rewrite B; apply in_or_app; left; exact He).
        pose proof (klt_beat _ _ _ X2). lra. }
      assert (Esa : s_beat s == a).
      { destruct (exists_last Hlne) as (l1 & z & ->). unfold s. rewrite A, app_assoc, St_last. cbn [advance s_beat].
        apply Hl. apply in_or_app. right. left. reflexivity. }
      assert (Ez : tick_round el == 0) by lra.
      destruct (block_time l P' R a) as [Bt _]; [rewrite E, A, <- app_assoc; reflexivity|exact Hlne|exact Hl|].
      rewrite <- A in Bt. fold s in Bt.
      exists l. split.
      * intros e He. split; [|apply Hl; exact He]. rewrite E, A. apply in_or_app. left. apply in_or_app. right. exact He.
      * assert (Hs : 0 <= end_sum l) by (apply end_sum_nonneg; intros e He; rewrite E, A; apply in_or_app; left; apply in_or_app; right; exact He).
        rewrite T'. unfold Ecut.
        setoid_replace (s_time (St' P') + (a - s_beat (St' P')) * state_rate (St' P') - t) with (- (end_sum l + el * (60 / s_bpm s))) by lra.
        apply Qabs_Qle_condition. split; [|lra].
        assert (el * (60 / s_bpm s) <= (1 # 96) * (60 / s_bpm s)) by (apply Qmult_le_compat_r; lra). lra.
  - (* the cut lies at or behind P: events of R on the answer's beat, up to the asked tag *)
    destruct l as [|x0 l0] eqn:El.
    + rewrite app_nil_r in A. exists []. split; [intros e []|].
      rewrite T', A. fold s. unfold Ecut. cbn [end_sum fold_right]. rewrite Hrate.
      setoid_replace (s_time s + (a - s_beat s) * (60 / s_bpm s) - t) with ((tick_round el - el) * (60 / s_bpm s)) by (rewrite Ea; lra).
      apply Qabs_Qle_condition. split; lra.
    + rewrite <- El in *. assert (Hlne : l <> []) by (rewrite El; discriminate).
      assert (Hl : forall e, In e l -> e_beat e == a).
      { intros e He. assert (X1 : kle_ev e a tag) by (apply HP'; rewrite A; apply in_or_app; right; exact He).
        assert (X2 : a <= e_beat e) by (apply F2; rewrite B; apply in_or_app; left; exact He).
        pose proof (kle_beat _ _ _ X1). lra. }
      destruct (block_time l P R' a) as [Bt Bb]; [rewrite E, B; reflexivity|exact Hlne|exact Hl|].
      fold s in Bt. rewrite <- A in Bt, Bb.
      exists l. split.
      * intros e He. split; [|apply Hl; exact He]. rewrite E, B. apply in_or_app. right. apply in_or_app. left. exact He.
      * assert (Hs : 0 <= end_sum l) by (apply end_sum_nonneg; intros e He; rewrite E, B; apply in_or_app; right; apply in_or_app; left; exact He).
        rewrite T'. unfold Ecut. rewrite Bt, Bb, Hrate.
        setoid_replace (s_time s + (a - s_beat s) * (60 / s_bpm s) + end_sum l + (a - a) * state_rate (St' P') - t)
          with ((tick_round el - el) * (60 / s_bpm s) + end_sum l) by (rewrite Ea; lra).
        apply Qabs_Qle_condition. split; lra.
Qed.

(* with event beats on the tick grid the answer never passes the next event's beat, so the hypothesis on R holds *)
Theorem own_time_any_aligned P R t q tag :
  es = P ++ R -> (forall e, In e es -> aligned (e_beat e)) ->
  s_warp (St' P) = false -> is_pause_tag (s_tag (St' P)) = false ->
  s_time (St' P) < t -> (forall x, In x (tl (run_states (St' P) R)) -> t < s_time x) ->
  (0 < fst (beat_at_raw (sts td v0) s0 t q) \/ (2 <= tag)%Z) ->
  exists M, (forall e, In e M -> In e es /\ e_beat e == fst (beat_at_raw (sts td v0) s0 t q)) /\
    Qabs (time_at (sts td v0) s0 (fst (beat_at_raw (sts td v0) s0 t q)) tag - t) <= (1 # 96) * (60 / s_bpm (St' P)) + end_sum M.
Proof.
  intros E Hal F3 F4 Ht Hpost Htag. apply (own_time_any P R t q tag E F3 F4 Ht Hpost); [|exact Htag].
  set (s := St' P) in *.
  assert (Hsts : sts td v0 = removelast (run_states s0 P) ++ s :: tl (run_states s R)).
  { unfold sts. fold es. rewrite E, run_states_app. f_equal. fold s0. change (fold_left advance P s0) with s.
    destruct R; reflexivity. }
  assert (Hsorted : times_sorted (sts td v0)).
  { apply (states_monotone td); [exact D|]. apply (states_is_sts td b0 v0 rest Hbpm Hb0). }
  assert (Ea : fst (beat_at_raw (sts td v0) s0 t q) == s_beat s + tick_round ((t - s_time s) / 60 * s_bpm s)).
  { rewrite Hsts in *. exact (beat_at_between (removelast (run_states s0 P)) s (tl (run_states s R)) s0 t q Hsorted F4 Ht Hpost). }
  destruct R as [|r0 R1]; [intros r []|].
  assert (Fok : st_ok s) by (apply (St_ok td b0 v0 rest D Hbpm P (r0 :: R1) E)).
  destruct (split_strict td D P r0 R1 E) as (SP & SR & _).
  assert (Hs_cases : (P = [] /\ s_beat s == 0) \/ (exists P1 z, P = P1 ++ [z] /\ s_beat s = e_beat z)).
  { destruct P as [|p0 P0] eqn:EP.
    - left. split; [reflexivity|]. unfold s, St, init_state. cbn [fold_left s_beat]. reflexivity.
    - right. assert (Hne : p0 :: P0 <> []) by discriminate. destruct (exists_last Hne) as (P1 & z & EZ).
      exists P1, z. split; [exact EZ|]. unfold s. rewrite EZ, St_last. reflexivity. }
  assert (Hr0 : In r0 es) by (rewrite E; apply in_or_app; right; left; reflexivity).
  assert (Hle : s_beat s <= e_beat r0).
  { destruct Hs_cases as [[_ Z]|(P1 & z & EZ & Bz)]; [pose proof (events_nonneg td D r0 Hr0); lra|].
    rewrite Bz. assert (Hz : In z P) by (rewrite EZ; apply in_or_app; right; left; reflexivity).
    specialize (SP z Hz). apply ev_lt_spec in SP. destruct SP as [X|[X _]]; lra. }
  assert (As : aligned (s_beat s)).
  { destruct Hs_cases as [[_ Z]|(P1 & z & EZ & Bz)].
    - exists 0%Z. rewrite Z. reflexivity.
    - rewrite Bz. apply Hal. rewrite E, EZ. apply in_or_app. left. apply in_or_app. right. left. reflexivity. }
  destruct (advance_step_ok s r0 Fok Hle As (Hal r0 Hr0)) as [_ Hstep].
  assert (Hnext : t <= s_time (advance s r0)).
  { apply Qlt_le_weak. apply Hpost. cbn [run_states tl]. destruct R1; left; reflexivity. }
  specialize (Hstep F4 t Hnext). cbn [advance s_beat] in Hstep.
  intros r [<-|Hr]; [rewrite Ea; exact Hstep|].
  specialize (SR r Hr). apply ev_lt_spec in SR. rewrite Ea. destruct SR as [X|[X _]]; lra.
Qed.
End OwnAll.
