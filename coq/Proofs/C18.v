(* Lemmas for C18: attribute and key views. *)
From Coq Require Import List ZArith NArith Bool.
From SV Require Import Sx Str Omap Props.
Import ListNotations.

Lemma has_set k k' (v : val) m : has k' (set k v m) = str_eqb k' k || has k' m.
Proof.
  unfold has. destruct (str_eqb k' k) eqn:E.
  - apply str_eqb_eq in E; subst. rewrite get_set_same. reflexivity.
  - apply str_eqb_neq in E. rewrite get_set_other by assumption. reflexivity.
Qed.

(* the key an attribute acts on: the alias exactly when it is present and the standard key is not *)
Lemma effective_key_rule p m :
  name_or_alias p m =
  match palias p with
  | Some a => if has a m && negb (has (pname p) m) then a else pname p
  | None => pname p
  end.
Proof. unfold name_or_alias. destruct (palias p); [|reflexivity]. rewrite andb_comm. reflexivity. Qed.

Lemma name_or_alias_stable p v m :
  name_or_alias p (set (name_or_alias p m) v m) = name_or_alias p m.
Proof.
  unfold name_or_alias. destruct (palias p) as [a|]; [|reflexivity].
  destruct (negb (has (pname p) m) && has a m) eqn:E.
  - apply andb_true_iff in E as [E1 E2]. apply negb_true_iff in E1.
    rewrite !has_set, E1, E2, str_eqb_refl. simpl.
    destruct (str_eqb (pname p) a) eqn:E3; [|reflexivity].
    apply str_eqb_eq in E3. simpl. congruence.
  - rewrite !has_set, str_eqb_refl. reflexivity.
Qed.

(* reading an attribute right after assigning it gives the assigned value, and the key view agrees *)
Lemma attr_set_get p v m : attr_get p (attr_set p v m) = v.
Proof. unfold attr_get, attr_set. rewrite name_or_alias_stable, get_set_same. reflexivity. Qed.

Lemma attr_set_key_view p v m : get (name_or_alias p m) (attr_set p v m) = Some v.
Proof. unfold attr_set. apply get_set_same. Qed.

Lemma attr_get_key_view p m : attr_get p m = match get (name_or_alias p m) m with Some v => v | None => None end.
Proof. reflexivity. Qed.

(* frame: every other key keeps its value, and the order of keys is untouched (a new key goes last) *)
Lemma attr_set_frame p v m k : k <> name_or_alias p m -> get k (attr_set p v m) = get k m.
Proof. intro H. unfold attr_set. apply get_set_other. assumption. Qed.

Lemma attr_set_order p v m :
  keys (attr_set p v m) = if has (name_or_alias p m) m then keys m else keys m ++ [name_or_alias p m].
Proof. unfold attr_set. apply keys_set. Qed.

Lemma attr_del_keyerror p m : attr_del p m = None <-> has (name_or_alias p m) m = false.
Proof. unfold attr_del. apply del_none. Qed.

Lemma attr_del_absent_both p m :
  attr_del p m = None <-> has (pname p) m = false /\ match palias p with Some a => has a m = false | None => True end.
Proof.
  rewrite attr_del_keyerror. unfold name_or_alias. destruct (palias p) as [a|].
  - destruct (has (pname p) m) eqn:E1; destruct (has a m) eqn:E2; simpl; rewrite ?E1, ?E2; intuition congruence.
  - intuition.
Qed.

Lemma attr_del_frame p m m' k : attr_del p m = Some m' -> k <> name_or_alias p m -> get k m' = get k m.
Proof. unfold attr_del. intros D H. eapply get_del_other; eauto. Qed.

Lemma attr_del_removes p m m' : NoDupKeys m -> attr_del p m = Some m' -> get (name_or_alias p m) m' = None.
Proof. unfold attr_del. intros N D. eapply get_del_same; eauto. Qed.

Lemma attr_del_order p m m' : attr_del p m = Some m' -> keys m' = remove_key (name_or_alias p m) (keys m).
Proof. unfold attr_del. apply keys_del. Qed.

(* unique keys are an invariant of every history *)
Lemma step_NoDup m o : NoDupKeys m -> NoDupKeys (fst (step m o)).
Proof.
  intro H. destruct o; simpl; try assumption.
  - apply set_NoDupKeys; assumption.
  - destruct (attr_del p m) eqn:E; simpl; [|assumption]. eapply del_NoDupKeys; eauto.
  - destruct (get k m); assumption.
  - apply set_NoDupKeys; assumption.
  - destruct (del k m) eqn:E; simpl; [|assumption]. eapply del_NoDupKeys; eauto.
Qed.

Lemma run_fst_fold stp m ops : fst (run_ops stp m ops) = fold_left (fun s o => fst (stp s o)) ops m.
Proof.
  revert m. induction ops as [|o r IH]; intro m; simpl; [reflexivity|].
  destruct (stp m o) as [m' x] eqn:E. destruct (run_ops stp m' r) as [m'' xs] eqn:E2. simpl.
  rewrite <- IH, E2. reflexivity.
Qed.

Lemma run_NoDup m ops : NoDupKeys m -> NoDupKeys (fst (run_ops step m ops)).
Proof.
  rewrite run_fst_fold. revert m. induction ops as [|o r IH]; intros m H; simpl; [assumption|].
  apply IH. apply step_NoDup. assumption.
Qed.

(* SM chart: the key list never changes, whatever is attempted *)
Lemma keys_set_present k (v : val) m : In k (keys m) -> keys (set k v m) = keys m.
Proof. intro H. rewrite keys_set. apply has_In in H. rewrite H. reflexivity. Qed.

Lemma smc_step_keys fields m o :
  (forall k, In k fields -> In k (keys m)) -> keys (fst (smc_step fields m o)) = keys m.
Proof.
  intro Hf. destruct o; simpl; try reflexivity.
  - destruct (mem_str (name_or_alias p m) fields) eqn:E; simpl; [|reflexivity].
    apply keys_set_present. apply Hf. apply mem_str_In. assumption.
  - destruct (mem_str k fields); reflexivity.
  - destruct (mem_str k fields) eqn:E; simpl; [|reflexivity].
    apply keys_set_present. apply Hf. apply mem_str_In. assumption.
Qed.

Lemma smc_run_keys fields m ops :
  (forall k, In k fields -> In k (keys m)) -> keys (fst (run_ops (smc_step fields) m ops)) = keys m.
Proof.
  rewrite run_fst_fold. revert m. induction ops as [|o r IH]; intros m H; simpl; [reflexivity|].
  rewrite IH.
  - apply smc_step_keys. assumption.
  - intros k Hk. rewrite smc_step_keys by assumption. auto.
Qed.

(* assignments to a field are visible in both views *)
Lemma smc_keyset_visible fields m k v :
  mem_str k fields = true ->
  snd (smc_step fields (fst (smc_step fields m (KeySet k v))) (KeyGet k)) = RVal v.
Proof. intro H. cbn [smc_step]. rewrite !H. cbn [fst snd]. rewrite get_set_same. reflexivity. Qed.

Lemma smc_foreign_key_refused fields m k v :
  mem_str k fields = false -> smc_step fields m (KeySet k v) = (m, RKeyError).
Proof. intro H. simpl. rewrite H. reflexivity. Qed.
