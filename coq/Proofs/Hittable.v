(* C13, first clause: a beat is reported unhittable exactly when it lies inside the union of the
   warp segments and no stop or delay sits on that beat.  Part 1: binary search. *)
From Coq Require Import List ZArith QArith Bool Lia Lqa Setoid Sorting.Sorted Arith.
From SV Require Import Sx Beat Engine Proofs.EngineFacts.
Import ListNotations.
Open Scope Q_scope.

(* ---- bisect_right on a list where the predicate is monotone ---- *)
Section Bisect.
Context {T : Type}.
Variables (lt_x : T -> bool) (l : list T) (d : T).
Hypothesis mono : forall i j, (i <= j < length l)%nat -> lt_x (nth i l d) = true -> lt_x (nth j l d) = true.

Lemma div2_bounds lo hi : (lo < hi)%nat -> (lo <= Nat.div (lo + hi) 2 < hi)%nat.
Proof.
  intro H. split.
  - apply Nat.div_le_lower_bound; lia.
  - apply Nat.div_lt_upper_bound; lia.
Qed.

Lemma bisect_go_spec : forall fuel lo hi,
  (lo <= hi <= length l)%nat -> (hi - lo < fuel)%nat ->
  (forall i, (i < lo)%nat -> lt_x (nth i l d) = false) ->
  (forall i, (hi <= i < length l)%nat -> lt_x (nth i l d) = true) ->
  let r := bisect_go fuel lt_x l d lo hi in
  (lo <= r <= hi)%nat /\ (forall i, (i < r)%nat -> lt_x (nth i l d) = false) /\
  (forall i, (r <= i < length l)%nat -> lt_x (nth i l d) = true).
Proof.
  induction fuel as [|f IH]; intros lo hi Hb Hf Hlo Hhi; [lia|].
  cbn [bisect_go]. destruct (Nat.ltb lo hi) eqn:E.
  - apply Nat.ltb_lt in E. pose proof (div2_bounds lo hi E) as Hm. set (mid := Nat.div (lo + hi) 2) in *.
    destruct (lt_x (nth mid l d)) eqn:M.
    + destruct (IH lo mid) as (A & B & C); [lia|lia|exact Hlo| |].
      * intros i Hi. apply (mono mid i); [lia|exact M].
      * cbv zeta in *. repeat split; try lia; assumption.
    + destruct (IH (S mid) hi) as (A & B & C); [lia|lia| |exact Hhi|].
      * intros i Hi. destruct (lt_x (nth i l d)) eqn:X; [|reflexivity].
        assert (lt_x (nth mid l d) = true) by (apply (mono i mid); [lia|exact X]). congruence.
      * cbv zeta in *. repeat split; try lia; assumption.
  - apply Nat.ltb_ge in E. assert (lo = hi) by lia. subst hi. cbv zeta. repeat split; try lia; assumption.
Qed.

Lemma bisect_right_spec :
  let r := bisect_right lt_x l d in
  (r <= length l)%nat /\ (forall i, (i < r)%nat -> lt_x (nth i l d) = false) /\
  (forall i, (r <= i < length l)%nat -> lt_x (nth i l d) = true).
Proof.
  unfold bisect_right. destruct (bisect_go_spec (S (length l)) 0 (length l)) as (A & B & C); try lia.
  cbv zeta in *. repeat split; try lia; assumption.
Qed.
End Bisect.

(* ---- indexing the state list ---- *)
Lemma run_states_length : forall es s, length (run_states s es) = S (length es).
Proof. induction es as [|e r IH]; intro s; simpl; [reflexivity|]. rewrite IH. reflexivity. Qed.

Lemma run_states_nth : forall es s d k, (k <= length es)%nat ->
  nth k (run_states s es) d = fold_left advance (firstn k es) s.
Proof.
  induction es as [|e r IH]; intros s d k Hk.
  - simpl in Hk. assert (k = O) by lia. subst. reflexivity.
  - destruct k as [|k]; [reflexivity|]. simpl. apply IH. simpl in Hk. lia.
Qed.

Lemma fold_advance_last : forall P s e, fold_left advance (P ++ [e]) s = advance (fold_left advance P s) e.
Proof. intros. rewrite fold_left_app. reflexivity. Qed.

(* beat and tag of the k-th state (k >= 1) are those of the (k-1)-th event *)
Lemma state_of_event : forall es s d k e, nth_error es k = Some e ->
  s_beat (nth (S k) (run_states s es) d) = e_beat e /\ s_tag (nth (S k) (run_states s es) d) = e_tag e.
Proof.
  induction es as [|x r IH]; intros s d k e H; [destruct k; discriminate|].
  destruct k as [|k]; simpl in H.
  - inversion H; subst. simpl. destruct r; simpl; auto.
  - simpl. apply IH. exact H.
Qed.

(* ---- the warp flag along a sorted event list ---- *)
Definition mkW (s : Q) : ev := {| e_beat := s; e_val := 0; e_tag := tWARP |}.
Definition mkWE (e : Q) : ev := {| e_beat := e; e_val := 0; e_tag := tWARP_END |}.

Definition warp_step (w : bool) (e : ev) : bool :=
  if Z.eqb (e_tag e) tWARP then true else if Z.eqb (e_tag e) tWARP_END then false else w.

Lemma warp_fold : forall P s, s_warp (fold_left advance P s) = fold_left warp_step P (s_warp s).
Proof. induction P as [|e r IH]; intro s; simpl; [reflexivity|]. rewrite IH. reflexivity. Qed.

Record segs_props (segs : list (Q * Q)) : Prop := {
  sp_le : forall s e, In (s, e) segs -> s <= e;
  sp_sep : forall s e s' e', In (s, e) segs -> In (s', e') segs -> (s, e) = (s', e') \/ e < s' \/ e' < s
}.

Lemma ev_lt_W_WE s e : s <= e -> ev_lt (mkW s) (mkWE e) = true.
Proof.
  intro H. unfold ev_lt, mkW, mkWE. simpl. destruct (Qlt_le_dec s e) as [L|L].
  - apply (proj2 (qlt_spec _ _)) in L. rewrite L. reflexivity.
  - assert (E : s == e) by lra. apply (proj2 (qeq_spec _ _)) in E. rewrite E. apply orb_true_r.
Qed.
Lemma ev_lt_by_beat a b : e_beat a < e_beat b -> ev_lt a b = true.
Proof. intro H. unfold ev_lt. apply (proj2 (qlt_spec _ _)) in H. rewrite H. reflexivity. Qed.

Section WarpFlag.
Variables (segs : list (Q * Q)) (all : list ev).
Hypothesis Hsegs : segs_props segs.
Hypothesis Hsorted : StronglySorted ev_ge all.
Hypothesis HW : forall x, In x all -> e_tag x = tWARP -> exists s e, In (s, e) segs /\ x = mkW s.
Hypothesis HWE : forall x, In x all -> e_tag x = tWARP_END -> exists s e, In (s, e) segs /\ x = mkWE e.
Hypothesis HinW : forall s e, In (s, e) segs -> In (mkW s) all.
Hypothesis HinWE : forall s e, In (s, e) segs -> In (mkWE e) all.

(* in a sorted list, whoever comes later is not smaller *)
Lemma sorted_split_l : forall P x R, all = P ++ x :: R -> forall y, In y P -> ev_lt x y = false.
Proof.
  intros P x R E y Hy. rewrite E in Hsorted. clear E. induction P as [|p P IH]; [destruct Hy|].
  simpl in Hsorted. inversion Hsorted as [|? ? Hs Hall]; subst. rewrite Forall_forall in Hall.
  destruct Hy as [<-|Hy]; [apply Hall; apply in_or_app; right; left; reflexivity|apply IH; assumption].
Qed.
Lemma sorted_split_r : forall P x R, all = P ++ x :: R -> forall z, In z R -> ev_lt z x = false.
Proof.
  intros P x R E z Hz. rewrite E in Hsorted. clear E. induction P as [|p P IH].
  - simpl in Hsorted. inversion Hsorted as [|? ? Hs Hall]; subst. rewrite Forall_forall in Hall. apply Hall. exact Hz.
  - simpl in Hsorted. inversion Hsorted; subst. apply IH. assumption.
Qed.

Definition open_seg (P : list ev) : Prop := exists s e, In (s, e) segs /\ In (mkW s) P /\ ~ In (mkWE e) P.

Lemma flag_invariant : forall P R, all = P ++ R -> (fold_left warp_step P false = true <-> open_seg P).
Proof.
  induction P as [|x P' IH] using rev_ind; intros R E.
  - simpl. split; [discriminate|]. intros (s & e & _ & [] & _).
  - rewrite <- app_assoc in E. cbn [app] in E. specialize (IH (x :: R) E).
    rewrite fold_left_app. cbn [fold_left]. unfold warp_step at 1.
    assert (Hx : In x all) by (rewrite E; apply in_or_app; right; left; reflexivity).
    destruct (Z.eqb (e_tag x) tWARP) eqn:T1.
    + apply Z.eqb_eq in T1. destruct (HW x Hx T1) as (s & e & Hin & ->).
      split; [intros _|reflexivity]. exists s, e. split; [exact Hin|split].
      * apply in_or_app. right. left. reflexivity.
      * intro H. apply in_app_or in H as [H|[H|[]]]; [|discriminate H].
        pose proof (sorted_split_l P' (mkW s) R E (mkWE e) H) as C.
        rewrite (ev_lt_W_WE s e (sp_le segs Hsegs s e Hin)) in C. discriminate.
    + destruct (Z.eqb (e_tag x) tWARP_END) eqn:T2.
      * apply Z.eqb_eq in T2. destruct (HWE x Hx T2) as (sj & ej & Hj & ->).
        split; [discriminate|]. intros (s & e & Hin & HWin & HWEout). exfalso.
        apply in_app_or in HWin as [HWin|[HWin|[]]]; [|discriminate HWin].
        destruct (sp_sep segs Hsegs s e sj ej Hin Hj) as [Eq|[L|L]].
        -- inversion Eq; subst. apply HWEout. apply in_or_app. right. left. reflexivity.
        -- (* e < sj <= ej : WE e is strictly earlier than WE ej, so it cannot come after it *)
           assert (Hle : sj <= ej) by (apply (sp_le segs Hsegs sj ej Hj)).
           assert (C : ev_lt (mkWE e) (mkWE ej) = true) by (apply ev_lt_by_beat; simpl; lra).
           pose proof (HinWE s e Hin) as Hall. rewrite E in Hall. apply in_app_or in Hall as [Hall|[Hall|Hall]].
           ++ apply HWEout. apply in_or_app. left. exact Hall.
           ++ apply HWEout. apply in_or_app. right. left. exact Hall.
           ++ rewrite (sorted_split_r P' (mkWE ej) R E (mkWE e) Hall) in C. discriminate.
        -- (* ej < s : W s is strictly later than WE ej, so it cannot come before it *)
           assert (C : ev_lt (mkWE ej) (mkW s) = true) by (apply ev_lt_by_beat; simpl; lra).
           rewrite (sorted_split_l P' (mkWE ej) R E (mkW s) HWin) in C. discriminate.
      * (* any other event leaves the flag and the W / WE membership alone *)
        rewrite IH. unfold open_seg. split; intros (s & e & Hin & A & B); exists s, e; (split; [exact Hin|split]).
        -- apply in_or_app. left. exact A.
        -- intro H. apply in_app_or in H as [H|[H|[]]]; [contradiction|]. subst x. simpl in T2. discriminate.
        -- apply in_app_or in A as [A|[A|[]]]; [exact A|]. subst x. simpl in T1. discriminate.
        -- intro H. apply B. apply in_or_app. left. exact H.
Qed.
End WarpFlag.

(* ---- (A) the coalesced segments are separated ---- *)
Lemma segs_ok_props : forall ss es, segs_ok ss es ->
  segs_props (combine ss es) /\
  (forall a b, In (a, b) (combine ss es) -> match es with e0 :: _ => b <= e0 | [] => False end) /\
  length ss = length es.
Proof.
  induction 1 as [|s e H|s e s' e' ss es H1 H2 H3 IH].
  - split; [constructor; [intros ? ? []|intros ? ? ? ? []]|split; [intros ? ? []|reflexivity]].
  - split; [|split; [|reflexivity]].
    + constructor.
      * intros a b [X|[]]. inversion X; subst. exact H.
      * intros a b a' b' [X|[]] [Y|[]]. left. congruence.
    + intros a b [X|[]]. inversion X; subst. simpl. apply Qle_refl.
  - destruct IH as ([IHle IHsep] & IHmax & IHlen). split; [|split; [|simpl in *; lia]].
    + constructor.
      * intros a b [X|X]; [inversion X; subst; exact H1|apply IHle; exact X].
      * intros a b a' b' [X|X] [Y|Y].
        -- left. congruence.
        -- inversion X; subst. right. right. specialize (IHmax a' b' Y). simpl in IHmax. lra.
        -- inversion Y; subst. right. left. specialize (IHmax a b X). simpl in IHmax. lra.
        -- apply IHsep; assumption.
    + intros a b [X|X]; [inversion X; subst; lra|]. specialize (IHmax a b X). simpl in IHmax.
      assert (s' <= e') by (apply IHle; left; reflexivity). lra.
Qed.

Lemma combine_rev {A B} : forall (l : list A) (l' : list B), length l = length l' -> combine (rev l) (rev l') = rev (combine l l').
Proof.
  induction l as [|a l IH]; intros [|b l'] H; simpl in *; try discriminate; [reflexivity|].
  assert (Hl : length l = length l') by lia. rewrite <- (IH l' Hl).
  assert (G : forall (x : list A) (y : list B) a b, length x = length y -> combine (x ++ [a]) (y ++ [b]) = combine x y ++ [(a, b)]).
  { induction x as [|x0 x IHx]; intros [|y0 y] a0 b0 Hxy; simpl in *; try discriminate; [reflexivity|]. rewrite IHx by lia. reflexivity. }
  apply G. rewrite !rev_length. exact Hl.
Qed.

Lemma segs_props_rev segs : segs_props segs -> segs_props (rev segs).
Proof.
  intros [A B]. constructor.
  - intros s e H. apply A. apply in_rev. exact H.
  - intros s e s' e' H H'. apply B; apply in_rev; assumption.
Qed.

(* ---- (B) membership in merges and in the event list ---- *)
Lemma merge2_In_conv : forall fuel a b z, (length a + length b <= fuel)%nat -> In z a \/ In z b -> In z (merge2 fuel a b).
Proof.
  induction fuel as [|f IH]; intros a b z Hlen H.
  - destruct a, b; simpl in *; try lia; tauto.
  - destruct a as [|x a']; [cbn [merge2]; destruct H as [[]|H]; exact H|].
    destruct b as [|y b']; [cbn [merge2]; destruct H as [H|[]]; exact H|].
    cbn [merge2]. destruct (ev_lt y x).
    + destruct H as [H|[<-|H]].
      * right. apply IH; [simpl in *; lia|left; exact H].
      * left. reflexivity.
      * right. apply IH; [simpl in *; lia|right; exact H].
    + destruct H as [[<-|H]|H].
      * left. reflexivity.
      * right. apply IH; [simpl in *; lia|left; exact H].
      * right. apply IH; [simpl in *; lia|right; exact H].
Qed.

Lemma In_merge_iff a b z : In z (merge a b) <-> In z a \/ In z b.
Proof. split; [apply In_merge|]. unfold merge. apply merge2_In_conv. lia. Qed.

Lemma tagged_In tag l x : In x (tagged tag l) <-> exists r, In r l /\ x = {| e_beat := fst r; e_val := snd r; e_tag := tag |}.
Proof.
  unfold tagged. rewrite in_map_iff. split; intros [r [A B]]; exists r; auto.
Qed.

Definition zero (l : list Q) : list (Q * Q) := map (fun b => (b, 0)) l.

Lemma events_unfold td ws wes : coalesce (td_warps td) [] [] = (ws, wes) ->
  forall x, In x (events td) <->
    In x (tagged tWARP (zero ws)) \/ In x (tagged tWARP_END (zero wes)) \/ In x (tagged tBPM (tl (td_bpms td))) \/
    In x (tagged tDELAY (td_delays td)) \/ In x (tagged tDELAY_END (td_delays td)) \/
    In x (tagged tSTOP (td_stops td)) \/ In x (tagged tSTOP_END (td_stops td)).
Proof.
  intros E x. unfold events. rewrite E. cbn [fold_right]. rewrite !In_merge_iff. unfold zero. simpl. tauto.
Qed.

Lemma event_tag_in td ws wes x : coalesce (td_warps td) [] [] = (ws, wes) -> In x (events td) ->
  (e_tag x = tWARP -> exists s, In s ws /\ x = mkW s) /\
  (e_tag x = tWARP_END -> exists e, In e wes /\ x = mkWE e) /\
  (e_tag x = tSTOP_END -> exists r, In r (td_stops td) /\ e_beat x = fst r) /\
  (e_tag x = tDELAY_END -> exists r, In r (td_delays td) /\ e_beat x = fst r) /\
  (0 <= e_tag x <= 6)%Z.
Proof.
  intros E H. apply (events_unfold td ws wes E) in H.
  repeat match goal with H : _ \/ _ |- _ => destruct H as [H|H] end;
    apply tagged_In in H as [r [Hr ->]]; cbn [e_tag e_beat e_val]; unfold tWARP, tWARP_END, tSTOP_END, tDELAY_END, tBPM, tSTOP, tDELAY;
    (repeat split; try lia; try (intro X; discriminate X)); intros _.
  - unfold zero in Hr. apply in_map_iff in Hr as [s [<- Hs]]. exists s. auto.
  - unfold zero in Hr. apply in_map_iff in Hr as [s [<- Hs]]. exists s. auto.
  - exists r. auto.
  - exists r. auto.
Qed.

(* ---- (C) the state selected for (beat, STOP_END): everything at or before the beat has been processed ---- *)
Lemma beats_sorted : forall es s, StronglySorted ev_ge es -> (forall e, In e es -> s_beat s <= e_beat e) ->
  StronglySorted (fun a b => s_beat a <= s_beat b) (run_states s es).
Proof.
  induction es as [|e r IH]; intros s Hs Hb; simpl; [repeat constructor|].
  inversion Hs as [|? ? Hs' Hhd]; subst. rewrite Forall_forall in Hhd.
  assert (IHr : StronglySorted (fun a b => s_beat a <= s_beat b) (run_states (advance s e) r)).
  { apply IH; [exact Hs'|]. intros e' He'. unfold advance; cbn [s_beat]. apply ev_ge_beat. apply Hhd. exact He'. }
  constructor; [exact IHr|]. apply Forall_forall. intros x Hx.
  assert (Hhead : s_beat s <= s_beat (advance s e)) by (unfold advance; cbn [s_beat]; apply Hb; left; reflexivity).
  destruct r as [|e2 r2]; simpl in Hx, IHr.
  - destruct Hx as [<-|[]]. exact Hhead.
  - destruct Hx as [<-|Hx]; [exact Hhead|]. inversion IHr as [|? ? _ Hall]; subst. rewrite Forall_forall in Hall.
    specialize (Hall x Hx). lra.
Qed.

Lemma SS_nth {T} (R : T -> T -> Prop) (l : list T) d : StronglySorted R l -> (forall x, R x x) ->
  forall i j, (i <= j < length l)%nat -> R (nth i l d) (nth j l d).
Proof.
  induction 1 as [|x r Hs IH Hx]; intros Hrefl i j Hij; [simpl in Hij; lia|].
  rewrite Forall_forall in Hx. destruct i as [|i]; destruct j as [|j]; simpl in *; try lia.
  - apply Hrefl.
  - apply Hx. apply nth_In. lia.
  - apply IH; [exact Hrefl|lia].
Qed.

Lemma key_lt_stop_end b s : (s_tag s <= 6)%Z -> key_lt b tSTOP_END s = qlt b (s_beat s).
Proof.
  intro H. unfold key_lt, tSTOP_END. assert (E : (6 <? s_tag s)%Z = false) by (apply Z.ltb_ge; lia).
  rewrite E, andb_false_r, orb_false_r. reflexivity.
Qed.

Lemma In_firstn_nth {T} (l : list T) k x : In x (firstn k l) -> exists i, (i < k)%nat /\ nth_error l i = Some x.
Proof.
  revert l. induction k as [|k IH]; intros [|y l] H; simpl in H; try destruct H.
  - exists O. split; [lia|]. subst. reflexivity.
  - destruct (IH l H) as [i [Hi Hn]]. exists (S i). split; [lia|exact Hn].
Qed.
Lemma In_skipn_nth {T} (l : list T) k x : In x (skipn k l) -> exists i, (k <= i)%nat /\ nth_error l i = Some x.
Proof.
  revert l. induction k as [|k IH]; intros l H.
  - simpl in H. apply In_nth_error in H as [i Hi]. exists i. split; [lia|exact Hi].
  - destruct l as [|y l]; [destruct H|]. simpl in H. destruct (IH l H) as [i [Hi Hn]]. exists (S i). split; [lia|exact Hn].
Qed.

Section Selected.
Variables (es : list ev) (s0 : state) (b : Q).
Hypothesis Hsorted : StronglySorted ev_ge es.
Hypothesis Hbeat0 : forall e, In e es -> s_beat s0 <= e_beat e.
Hypothesis Htags : forall e, In e es -> (e_tag e <= 6)%Z.
Hypothesis Htag0 : (s_tag s0 <= 6)%Z.
Hypothesis Hb : s_beat s0 <= b.

Let sts := run_states s0 es.

Lemma state_tag_bound : forall i, (i < length sts)%nat -> (s_tag (nth i sts s0) <= 6)%Z.
Proof.
  intros i Hi. destruct i as [|i]; [unfold sts; destruct es; simpl; exact Htag0|].
  unfold sts in *. rewrite run_states_length in Hi.
  destruct (nth_error es i) as [e|] eqn:E; [|apply nth_error_None in E; lia].
  destruct (state_of_event es s0 s0 i e E) as [_ Ht]. rewrite Ht. apply Htags. eapply nth_error_In; eauto.
Qed.

Theorem selected_state :
  exists P R, es = P ++ R /\ prior sts s0 b tSTOP_END = fold_left advance P s0 /\
              (forall e, In e P -> e_beat e <= b) /\ (forall e, In e R -> b < e_beat e).
Proof.
  pose proof (beats_sorted es s0 Hsorted Hbeat0) as Hbs. fold sts in Hbs.
  assert (Hmono : forall i j, (i <= j < length sts)%nat ->
            key_lt b tSTOP_END (nth i sts s0) = true -> key_lt b tSTOP_END (nth j sts s0) = true).
  { intros i j Hij H. rewrite key_lt_stop_end in * by (apply state_tag_bound; lia).
    apply qlt_spec in H. apply qlt_spec. pose proof (SS_nth _ sts s0 Hbs (fun x => Qle_refl _) i j Hij) as Hle. cbv beta in Hle. lra. }
  destruct (bisect_right_spec (key_lt b tSTOP_END) sts s0 Hmono) as (Hr & Hlo & Hhi).
  set (r := bisect_right (key_lt b tSTOP_END) sts s0) in *.
  assert (Hlen : length sts = S (length es)) by (unfold sts; apply run_states_length).
  assert (Hr1 : (1 <= r)%nat).
  { destruct r as [|r']; [|lia]. exfalso. assert (H0 : key_lt b tSTOP_END (nth 0 sts s0) = true) by (apply Hhi; lia).
    rewrite key_lt_stop_end in H0 by (apply state_tag_bound; lia). apply qlt_spec in H0.
    unfold sts in H0. destruct es; simpl in H0; lra. }
  exists (firstn (r - 1) es), (skipn (r - 1) es). split; [symmetry; apply firstn_skipn|split; [|split]].
  - unfold prior. fold r. unfold sts. rewrite run_states_nth by lia. f_equal. f_equal. lia.
  - intros e He. apply In_firstn_nth in He as [i [Hi Hn]].
    assert (Hf : key_lt b tSTOP_END (nth (S i) sts s0) = false) by (apply Hlo; lia).
    assert (Hi2 : (i < length es)%nat) by (apply nth_error_Some; congruence).
    rewrite key_lt_stop_end in Hf by (apply state_tag_bound; lia).
    destruct (state_of_event es s0 s0 i e Hn) as [Hbeat _]. fold sts in Hbeat. rewrite Hbeat in Hf.
    destruct (Qlt_le_dec b (e_beat e)) as [L|L]; [apply qlt_spec in L; congruence|exact L].
  - intros e He. apply In_skipn_nth in He as [i [Hi Hn]].
    assert (Hi2 : (i < length es)%nat) by (apply nth_error_Some; congruence).
    assert (Ht : key_lt b tSTOP_END (nth (S i) sts s0) = true) by (apply Hhi; lia).
    rewrite key_lt_stop_end in Ht by (apply state_tag_bound; lia).
    destruct (state_of_event es s0 s0 i e Hn) as [Hbeat _]. fold sts in Hbeat. rewrite Hbeat in Ht.
    apply qlt_spec. exact Ht.
Qed.
End Selected.

(* ---- (E) the coalesced segments cover exactly the union of the raw warps ---- *)
Definition in_raw (ws : list (Q * Q)) (x : Q) : Prop := exists s l, In (s, l) ws /\ s <= x /\ x < s + tick_round l.
Definition in_acc (starts ends : list Q) (x : Q) : Prop := exists s e, In (s, e) (combine starts ends) /\ s <= x /\ x < e.

Lemma in_acc_cons s e ss es x : in_acc (s :: ss) (e :: es) x <-> (s <= x /\ x < e) \/ in_acc ss es x.
Proof.
  unfold in_acc. simpl. split.
  - intros (a & b & [X|X] & H); [inversion X; subst; left; exact H|right; exists a, b; auto].
  - intros [H|(a & b & X & H)]; [exists s, e; auto|exists a, b; auto].
Qed.
Lemma in_raw_cons b v r x : in_raw ((b, v) :: r) x <-> (b <= x /\ x < b + tick_round v) \/ in_raw r x.
Proof.
  unfold in_raw. simpl. split.
  - intros (s & l & [X|X] & H); [inversion X; subst; left; exact H|right; exists s, l; auto].
  - intros [H|(s & l & X & H)]; [exists b, v; auto|exists s, l; auto].
Qed.

Lemma coalesce_union : forall ws starts ends,
  raw_ok ws -> segs_ok starts ends ->
  (forall s0, match starts with s :: _ => s0 = s | [] => False end -> Forall (fun w => s0 < fst w) ws) ->
  exists ss es, coalesce ws starts ends = (rev ss, rev es) /\ segs_ok ss es /\
                forall x, in_acc ss es x <-> in_acc starts ends x \/ in_raw ws x.
Proof.
  induction ws as [|[b v] r IH]; intros starts ends [Hs Hv] Hok Hlast.
  - simpl. exists starts, ends. rewrite !rev_append_rev, !app_nil_r. repeat split; auto.
    intros [H|(s & l & [] & _)]. exact H.
  - inversion Hs as [|? ? Hs' Hb]; subst. inversion Hv as [|? ? Hv0 Hv']; subst. simpl in Hv0.
    rewrite Forall_forall in Hb.
    assert (Hr : raw_ok r) by (split; assumption).
    assert (Ewe : Qred (b + tick_round v) == b + tick_round v) by apply Qred_correct.
    assert (Hlen : b <= Qred (b + tick_round v)) by (rewrite Ewe; pose proof (tick_round_nonneg v Hv0); lra).
    assert (Hnext : Forall (fun w => b < fst w) r) by (apply Forall_forall; intros w Hw; apply (Hb w Hw)).
    cbn [coalesce]. destruct ends as [|le ends'].
    + inversion Hok; subst.
      destruct (IH [b] [Qred (b + tick_round v)] Hr (segs_one _ _ Hlen)) as (ss & es & E & Hseg & Hcov); [intros s0 X; subst; exact Hnext|].
      exists ss, es. split; [exact E|split; [exact Hseg|]]. intro x. rewrite Hcov, in_raw_cons, in_acc_cons.
      unfold in_acc at 1 2. simpl. rewrite Ewe. split; [intros [[H|(a & c & [] & _)]|H]; auto|intros [(a & c & [] & _)|[H|H]]; auto].
    + destruct starts as [|ls starts']; [inversion Hok|].
      assert (Hls : ls < b) by (specialize (Hlast ls eq_refl); inversion Hlast; subst; assumption).
      assert (Hlsr : Forall (fun w => ls < fst w) r) by (specialize (Hlast ls eq_refl); inversion Hlast; subst; assumption).
      assert (Hlsle : ls <= le) by (inversion Hok; subst; assumption).
      destruct (qle b le) eqn:E1.
      * apply qle_spec in E1. destruct (qlt le (Qred (b + tick_round v))) eqn:E2.
        -- apply qlt_spec in E2.
           destruct (IH (ls :: starts') (Qred (b + tick_round v) :: ends') Hr) as (ss & es & E & Hseg & Hcov);
             [eapply segs_ok_replace_end; [exact Hok|lra]|intros s0 X; subst; exact Hlsr|].
           exists ss, es. split; [exact E|split; [exact Hseg|]]. intro x. rewrite Hcov, in_raw_cons, !in_acc_cons. rewrite Ewe in *.
           split; [intros [[H|H]|H]|intros [[H|H]|[H|H]]]; auto.
           ++ destruct (Qlt_le_dec x le); [left; left; split; lra|right; left; split; lra].
           ++ left. left. split; lra.
           ++ left. left. split; lra.
        -- assert (Hwe : Qred (b + tick_round v) <= le).
           { destruct (Qlt_le_dec le (Qred (b + tick_round v))) as [L|L]; [apply qlt_spec in L; congruence|exact L]. }
           destruct (IH (ls :: starts') (le :: ends') Hr Hok) as (ss & es & E & Hseg & Hcov); [intros s0 X; subst; exact Hlsr|].
           exists ss, es. split; [exact E|split; [exact Hseg|]]. intro x. rewrite Hcov, in_raw_cons, !in_acc_cons. rewrite Ewe in *.
           split; [intros [H|H]; auto|intros [H|[H|H]]; auto]. left. left. split; lra.
      * assert (Hgt : le < b) by (destruct (Qlt_le_dec le b) as [L|L]; [exact L|apply qle_spec in L; congruence]).
        destruct (IH (b :: ls :: starts') (Qred (b + tick_round v) :: le :: ends') Hr) as (ss & es & E & Hseg & Hcov);
          [constructor; [exact Hlen|exact Hgt|exact Hok]|intros s0 X; subst; exact Hnext|].
        exists ss, es. split; [exact E|split; [exact Hseg|]]. intro x. rewrite Hcov, in_raw_cons, (in_acc_cons b). rewrite Ewe. tauto.
Qed.

Lemma in_acc_rev ss es x : length ss = length es -> (in_acc (rev ss) (rev es) x <-> in_acc ss es x).
Proof.
  intro H. unfold in_acc. rewrite (combine_rev ss es H). split; intros (s & e & Hin & Hx); exists s, e; split; auto.
  - apply in_rev. exact Hin.
  - apply in_rev in Hin. exact Hin.
Qed.

(* ---- (D)+(F) putting it together ---- *)
Definition init_state (td : tdata) (v0 : Q) : state :=
  {| s_beat := 0; s_val := v0; s_tag := tBPM; s_time := Qred (- td_offset td); s_bpm := v0; s_warp := false |}.

Definition pause_on (td : tdata) (b : Q) : Prop :=
  exists r, (In r (td_stops td) \/ In r (td_delays td)) /\ fst r == b.

Lemma last_of_nonempty {T} (l : list T) : l <> [] -> exists l' x, l = l' ++ [x].
Proof. intro H. destruct (exists_last H) as (l' & x & E). eauto. Qed.

Lemma ev_lt_false_key x y : ev_lt x y = false -> e_beat y < e_beat x \/ (e_beat y == e_beat x /\ (e_tag y <= e_tag x)%Z).
Proof.
  unfold ev_lt. intro H. apply orb_false_iff in H as [H1 H2].
  destruct (Qlt_le_dec (e_beat x) (e_beat y)) as [L|L]; [apply qlt_spec in L; congruence|].
  destruct (Qeq_dec (e_beat x) (e_beat y)) as [E|E].
  - right. split; [symmetry; exact E|]. apply andb_false_iff in H2 as [H2|H2]; [apply (proj2 (qeq_spec _ _)) in E; congruence|apply Z.ltb_ge; exact H2].
  - left. lra.
Qed.

Theorem hittable_iff td v0 b :
  dom td -> (exists rest, td_bpms td = (0, v0) :: rest) -> 0 <= b ->
  let s0 := init_state td v0 in
  let sts := run_states s0 (events td) in
  hittable sts s0 b = false <-> (in_raw (td_warps td) b /\ ~ pause_on td b).
Proof.
  intros D [rest Hbpm] Hb s0 sts.
  destruct (coalesce_union (td_warps td) [] [] (dom_warps td D) segs_nil) as (ss & es & Ec & Hseg & Hcov); [intros ? []|].
  destruct (segs_ok_props ss es Hseg) as (Hprops & _ & Hlen).
  set (segs := combine (rev ss) (rev es)).
  assert (Hsp : segs_props segs) by (unfold segs; rewrite (combine_rev ss es Hlen); apply segs_props_rev; exact Hprops).
  pose proof (events_sorted td D) as Hsorted.
  assert (Hev : forall x, In x (events td) -> _) by (intros x Hx; exact (event_tag_in td (rev ss) (rev es) x Ec Hx)).
  assert (Hlen' : length (rev ss) = length (rev es)) by (rewrite !rev_length; exact Hlen).
  (* W / WE membership, both ways *)
  assert (HW : forall x, In x (events td) -> e_tag x = tWARP -> exists s e, In (s, e) segs /\ x = mkW s).
  { intros x Hx Ht. destruct (Hev x Hx) as (A & _). destruct (A Ht) as (s & Hs & ->).
    destruct (In_nth_error _ _ Hs) as [i Hi].
    destruct (nth_error (rev es) i) as [e|] eqn:Ee; [|apply nth_error_None in Ee; assert (i < length (rev ss))%nat by (apply nth_error_Some; congruence); lia].
    exists s, e. split; [|reflexivity]. unfold segs. clear -Hi Ee. revert i Hi Ee. generalize (rev es). induction (rev ss) as [|a l IH]; intros [|c l'] i Hi Ee; destruct i; simpl in *; try discriminate.
    - inversion Hi; inversion Ee; subst. left. reflexivity.
    - right. eapply IH; eauto. }
  assert (HWE : forall x, In x (events td) -> e_tag x = tWARP_END -> exists s e, In (s, e) segs /\ x = mkWE e).
  { intros x Hx Ht. destruct (Hev x Hx) as (_ & A & _). destruct (A Ht) as (e & He & ->).
    destruct (In_nth_error _ _ He) as [i Hi].
    destruct (nth_error (rev ss) i) as [s|] eqn:Es; [|apply nth_error_None in Es; assert (i < length (rev es))%nat by (apply nth_error_Some; congruence); lia].
    exists s, e. split; [|reflexivity]. unfold segs. clear -Hi Es. revert i Hi Es. generalize (rev es). induction (rev ss) as [|a l IH]; intros [|c l'] i Hi Es; destruct i; simpl in *; try discriminate.
    - inversion Hi; inversion Es; subst. left. reflexivity.
    - right. eapply IH; eauto. }
  assert (HinW : forall s e, In (s, e) segs -> In (mkW s) (events td)).
  { intros s e H. apply (events_unfold td _ _ Ec). left. apply tagged_In. exists (s, 0). split; [|reflexivity].
    unfold zero. apply in_map_iff. exists s. split; [reflexivity|]. eapply in_combine_l. exact H. }
  assert (HinWE : forall s e, In (s, e) segs -> In (mkWE e) (events td)).
  { intros s e H. apply (events_unfold td _ _ Ec). right. left. apply tagged_In. exists (e, 0). split; [|reflexivity].
    unfold zero. apply in_map_iff. exists e. split; [reflexivity|]. eapply in_combine_r. exact H. }
  (* the selected state *)
  destruct (selected_state (events td) s0 b Hsorted) as (P & R & Esplit & Hprior & HP & HR).
  { intros e He. apply (events_nonneg td D e He). }
  { intros e He. destruct (Hev e He) as (_ & _ & _ & _ & Hr). lia. }
  { unfold s0, init_state, tBPM. simpl. lia. }
  { exact Hb. }
  fold sts in Hprior.
  assert (Hpart : forall x, In x (events td) -> (In x P <-> e_beat x <= b)).
  { intros x Hx. split; [apply HP|]. intro Hle. rewrite Esplit in Hx. apply in_app_or in Hx as [Hx|Hx]; [exact Hx|].
    specialize (HR x Hx). lra. }
  (* warp flag of the selected state <-> inside a coalesced segment <-> inside the raw union *)
  assert (Hflag : s_warp (prior sts s0 b tSTOP_END) = true <-> in_raw (td_warps td) b).
  { rewrite Hprior, warp_fold. cbn [s_warp s0 init_state].
    rewrite (flag_invariant segs (events td) Hsp Hsorted HW HWE HinW HinWE P R Esplit).
    assert (Hraw : in_raw (td_warps td) b <-> in_acc (rev ss) (rev es) b).
    { rewrite (in_acc_rev ss es b Hlen), Hcov. unfold in_acc at 1. simpl. split; [auto|intros [(s & e & [] & _)|H]; exact H]. }
    rewrite Hraw. unfold open_seg, in_acc. fold segs. split.
    - intros (s & e & Hin & A & B). exists s, e. split; [exact Hin|]. split.
      + apply (HP (mkW s) A).
      + destruct (Qlt_le_dec b e) as [L|L]; [exact L|]. exfalso. apply B. apply (Hpart (mkWE e) (HinWE s e Hin)). exact L.
    - intros (s & e & Hin & A & B). exists s, e. split; [exact Hin|]. split.
      + apply (Hpart (mkW s) (HinW s e Hin)). exact A.
      + intro X. pose proof (HP (mkWE e) X) as C. simpl in C. lra. }
  (* end tag on the very beat <-> a stop or delay sits on it *)
  assert (Hpause : (is_end_tag (s_tag (prior sts s0 b tSTOP_END)) && qeq b (s_beat (prior sts s0 b tSTOP_END))) = true <-> pause_on td b).
  { rewrite Hprior. split.
    - intro H. apply andb_true_iff in H as [Ht Hq]. apply qeq_spec in Hq.
      destruct P as [|p0 P0] eqn:EP; [simpl in Ht; discriminate Ht|].
      destruct (last_of_nonempty (p0 :: P0)) as (P' & x & EPx); [discriminate|]. rewrite EPx in *. rewrite fold_advance_last in Ht, Hq.
      unfold advance in Ht, Hq. cbn [s_tag s_beat] in Ht, Hq.
      assert (Hx : In x (events td)) by (rewrite Esplit; apply in_or_app; left; apply in_or_app; right; left; reflexivity).
      destruct (Hev x Hx) as (_ & _ & A & B & _). unfold is_end_tag in Ht. apply orb_true_iff in Ht as [Ht|Ht]; apply Z.eqb_eq in Ht.
      + destruct (A Ht) as (r & Hr & Er). exists r. split; [left; exact Hr|]. rewrite <- Er. symmetry. exact Hq.
      + destruct (B Ht) as (r & Hr & Er). exists r. split; [right; exact Hr|]. rewrite <- Er. symmetry. exact Hq.
    - intros (r & Hr & Eb).
      (* the END event of that row is in the processed prefix, so the prefix is not empty; look at its last element *)
      set (tagE := if (existsb (fun r' => qeq (fst r') b) (td_stops td)) then tSTOP_END else tDELAY_END).
      assert (Hend : exists y, In y P /\ e_beat y == b /\ (e_tag y = tSTOP_END \/ (e_tag y = tDELAY_END /\ ~ exists r', In r' (td_stops td) /\ fst r' == b))).
      { destruct (existsb (fun r' => qeq (fst r') b) (td_stops td)) eqn:Ex.
        - apply existsb_exists in Ex as [r' [Hr' Hq]]. apply qeq_spec in Hq.
          exists {| e_beat := fst r'; e_val := snd r'; e_tag := tSTOP_END |}. split; [|split; [exact Hq|left; reflexivity]].
          apply Hpart; [|simpl; lra]. apply (events_unfold td _ _ Ec). do 6 right. apply tagged_In. exists r'. auto.
        - assert (Hno : ~ exists r', In r' (td_stops td) /\ fst r' == b).
          { intros (r' & Hr' & Hq). assert (existsb (fun r' => qeq (fst r') b) (td_stops td) = true); [|congruence].
            apply existsb_exists. exists r'. split; [exact Hr'|apply qeq_spec; exact Hq]. }
          destruct Hr as [Hr|Hr]; [exfalso; apply Hno; exists r; auto|].
          exists {| e_beat := fst r; e_val := snd r; e_tag := tDELAY_END |}. split; [|split; [exact Eb|right; split; [reflexivity|exact Hno]]].
          apply Hpart; [|simpl; lra]. apply (events_unfold td _ _ Ec). do 4 right. left. apply tagged_In. exists r. auto. }
      destruct Hend as (y & HyP & Hyb & Hytag).
      destruct P as [|p0 P0] eqn:EP; [destruct HyP|].
      destruct (last_of_nonempty (p0 :: P0)) as (P' & x & EPx); [discriminate|]. rewrite EPx in *. rewrite fold_advance_last.
      unfold advance. cbn [s_tag s_beat].
      assert (Hx : In x (events td)) by (rewrite Esplit; apply in_or_app; left; apply in_or_app; right; left; reflexivity).
      assert (Hxb : e_beat x <= b) by (apply HP; apply in_or_app; right; left; reflexivity).
      assert (Hall : events td = P' ++ x :: R) by (rewrite Esplit, <- app_assoc; reflexivity).
      (* x is no earlier than y *)
      assert (Hxy : y = x \/ ev_lt x y = false).
      { apply in_app_or in HyP as [HyP|[HyP|[]]]; [right|left; symmetry; exact HyP].
        apply (sorted_split_l (events td) Hsorted P' x R Hall y HyP). }
      assert (Hkey : e_beat x == b /\ (e_tag y <= e_tag x)%Z).
      { destruct Hxy as [->|Hxy]; [split; [exact Hyb|lia]|]. apply ev_lt_false_key in Hxy as [L|[E L]]; [lra|]. split; [lra|exact L]. }
      destruct Hkey as [Hxeq Htagle]. destruct (Hev x Hx) as (_ & _ & _ & _ & Hrange).
      apply andb_true_iff. split; [|apply qeq_spec; symmetry; exact Hxeq].
      unfold is_end_tag, tSTOP_END, tDELAY_END in *. destruct Hytag as [Hy6|[Hy4 Hnostop]].
      + assert (e_tag x = 6)%Z by lia. rewrite H. reflexivity.
      + (* tag of x is 4, 5 or 6; 5 (a stop starting here) would put its STOP_END later in the prefix *)
        assert (Hcases : (e_tag x = 4 \/ e_tag x = 5 \/ e_tag x = 6)%Z) by lia.
        destruct Hcases as [H4|[H5|H6]]; [rewrite H4; reflexivity| |rewrite H6; reflexivity].
        exfalso. apply (events_unfold td _ _ Ec) in Hx.
        destruct Hx as [Hx|[Hx|[Hx|[Hx|[Hx|[Hx|Hx]]]]]];
          apply tagged_In in Hx as [r' [Hr' Ex]]; rewrite Ex in H5; cbn [e_tag] in H5; try discriminate H5.
        apply Hnostop. exists r'. split; [exact Hr'|]. rewrite Ex in Hxeq. simpl in Hxeq. exact Hxeq. }
  unfold hittable. fold sts.
  destruct (s_warp (prior sts s0 b tSTOP_END)) eqn:W; cbn [negb].
  - destruct (is_end_tag (s_tag (prior sts s0 b tSTOP_END)) && qeq b (s_beat (prior sts s0 b tSTOP_END))) eqn:Pz.
    + split; [discriminate|]. intros [_ Hn]. exfalso. apply Hn. apply Hpause. reflexivity.
    + split; [intros _|reflexivity]. split; [apply Hflag; reflexivity|]. intro Hp. apply Hpause in Hp. congruence.
  - split; [discriminate|]. intros [Hin _]. apply Hflag in Hin. congruence.
Qed.
