(* Facts about the timing engine model (C11, C12, C13), over exact rationals (up to Qeq). *)
From Coq Require Import List ZArith QArith Qround Bool Lia Lqa Setoid Sorting.Sorted.
From SV Require Import Sx Beat Engine Proofs.C14.
Import ListNotations.
Open Scope Q_scope.

(* ---- comparisons ---- *)
Lemma qle_spec a b : qle a b = true <-> a <= b.
Proof. unfold qle. rewrite Qle_alt. destruct (a ?= b); split; intro H; try reflexivity; try discriminate; congruence. Qed.
Lemma qlt_spec a b : qlt a b = true <-> a < b.
Proof. unfold qlt. rewrite Qlt_alt. destruct (a ?= b); split; intro H; try reflexivity; try discriminate. Qed.
Lemma qeq_spec a b : qeq a b = true <-> a == b.
Proof. unfold qeq. rewrite Qeq_alt. destruct (a ?= b); split; intro H; try reflexivity; try discriminate. Qed.

Lemma qlt_compat a a' b b' : a == a' -> b == b' -> qlt a b = qlt a' b'.
Proof. intros Ha Hb. unfold qlt. rewrite Ha, Hb. reflexivity. Qed.
Lemma qeq_compat a a' b b' : a == a' -> b == b' -> qeq a b = qeq a' b'.
Proof. intros Ha Hb. unfold qeq. rewrite Ha, Hb. reflexivity. Qed.

(* ---- the state machine does not look at times when it updates beats, tags, BPM, warp flag ---- *)
(* two states that agree on everything but the time, which differs by the constant d *)
Definition shifted (d : Q) (s s' : state) : Prop :=
  s_beat s' = s_beat s /\ s_val s' = s_val s /\ s_tag s' = s_tag s /\ s_bpm s' = s_bpm s /\ s_warp s' = s_warp s /\
  s_time s' == s_time s - d.

Lemma time_until_shifted d s s' beat tag : shifted d s s' -> time_until s' beat tag = time_until s beat tag.
Proof. intros (Hb & Hv & Ht & Hp & Hw & _). unfold time_until. rewrite Hb, Hv, Ht, Hp, Hw. reflexivity. Qed.

Lemma advance_shifted d s s' e : shifted d s s' -> shifted d (advance s e) (advance s' e).
Proof.
  intro H. pose proof H as (Hb & Hv & Ht & Hp & Hw & Htime). unfold shifted, advance.
  cbn [s_beat s_val s_tag s_time s_bpm s_warp].
  rewrite (time_until_shifted d s s' _ _ H), Hp, Hw. repeat (split; [reflexivity|]).
  rewrite !Qred_correct, Htime. ring.
Qed.

Lemma run_states_shifted d : forall es s s', shifted d s s' -> Forall2 (shifted d) (run_states s es) (run_states s' es).
Proof.
  induction es as [|e r IH]; intros s s' H; simpl.
  - constructor; [exact H|constructor].
  - constructor; [exact H|]. apply IH. apply advance_shifted. exact H.
Qed.

(* bisect looks at beats and tags only *)
Lemma key_lt_shifted d beat tag s s' : shifted d s s' -> key_lt beat tag s' = key_lt beat tag s.
Proof. intros (Hb & _ & Ht & _). unfold key_lt. rewrite Hb, Ht. reflexivity. Qed.

Lemma Forall2_nth {T} (R : T -> T -> Prop) l l' d d' i : Forall2 R l l' -> R d d' -> R (nth i l d) (nth i l' d').
Proof. intros H Hd. revert i. induction H; intros [|i]; simpl; auto. Qed.

Lemma Forall2_length' {T} (R : T -> T -> Prop) l l' : Forall2 R l l' -> length l = length l'.
Proof. induction 1; simpl; congruence. Qed.

Lemma bisect_go_shifted dq beat tag l l' d d' : Forall2 (shifted dq) l l' -> shifted dq d d' ->
  forall fuel lo hi, bisect_go fuel (key_lt beat tag) l' d' lo hi = bisect_go fuel (key_lt beat tag) l d lo hi.
Proof.
  intros H Hd. induction fuel as [|f IH]; intros lo hi; cbn [bisect_go]; [reflexivity|].
  destruct (Nat.ltb lo hi); [|reflexivity].
  rewrite (key_lt_shifted dq beat tag _ _ (Forall2_nth _ _ _ _ _ (Nat.div (lo + hi) 2) H Hd)).
  destruct (key_lt beat tag (nth (Nat.div (lo + hi) 2) l d)); apply IH.
Qed.

Lemma prior_shifted dq beat tag l l' d d' : Forall2 (shifted dq) l l' -> shifted dq d d' ->
  shifted dq (prior l d beat tag) (prior l' d' beat tag).
Proof.
  intros H Hd. unfold prior, bisect_right. rewrite <- (Forall2_length' _ _ _ H).
  rewrite (bisect_go_shifted dq beat tag l l' d d' H Hd). apply Forall2_nth; assumption.
Qed.

(* changing the offset by d changes every time by -d *)
Theorem time_at_shifted dq beat tag l l' d d' : Forall2 (shifted dq) l l' -> shifted dq d d' ->
  time_at l' d' beat tag == time_at l d beat tag - dq.
Proof.
  intros H Hd. unfold time_at. pose proof (prior_shifted dq beat tag l l' d d' H Hd) as Hp.
  rewrite (time_until_shifted _ _ _ beat tag Hp). destruct Hp as (_ & _ & _ & _ & _ & Ht).
  rewrite !Qred_correct, Ht. ring.
Qed.


Definition with_offset (td : tdata) (o : Q) : tdata :=
  {| td_bpms := td_bpms td; td_stops := td_stops td; td_delays := td_delays td; td_warps := td_warps td; td_offset := o |}.

Theorem offset_shift td d sts : states td = EOk sts ->
  exists sts', states (with_offset td (td_offset td + d)) = EOk sts' /\ Forall2 (shifted d) sts sts'.
Proof.
  unfold states. cbn [td_bpms with_offset td_offset]. destruct (td_bpms td) as [|[b0 v0] r] eqn:B; [discriminate|].
  destruct (negb (qeq b0 0)); [discriminate|]. intro H.
  assert (E : sts = run_states {| s_beat := 0; s_val := v0; s_tag := tBPM; s_time := Qred (- td_offset td); s_bpm := v0; s_warp := false |} (events td)) by congruence.
  subst sts. clear H. eexists. split; [reflexivity|].
  replace (events (with_offset td (td_offset td + d))) with (events td) by (unfold events, with_offset; simpl; rewrite B; reflexivity).
  apply run_states_shifted. unfold shifted. cbn [s_beat s_val s_tag s_time s_bpm s_warp]. repeat (split; [reflexivity|]).
  rewrite !Qred_correct. ring.
Qed.

(* ================================================================== sorted events *)
Definition ev_ge (a b : ev) : Prop := ev_lt b a = false.      (* a comes no later than b *)

Lemma ev_lt_asym a b : ev_lt a b = true -> ev_lt b a = false.
Proof.
  unfold ev_lt. intro H. apply orb_true_iff in H. apply orb_false_iff.
  destruct H as [H|H].
  - apply qlt_spec in H. split.
    + apply not_true_is_false. intro X. apply qlt_spec in X. lra.
    + apply andb_false_iff. left. apply not_true_is_false. intro X. apply qeq_spec in X. lra.
  - apply andb_true_iff in H as [H1 H2]. apply qeq_spec in H1. apply Z.ltb_lt in H2. split.
    + apply not_true_is_false. intro X. apply qlt_spec in X. lra.
    + apply andb_false_iff. right. apply Z.ltb_ge. lia.
Qed.

Lemma ev_ge_beat a b : ev_ge a b -> e_beat a <= e_beat b.
Proof.
  unfold ev_ge, ev_lt. intro H. apply orb_false_iff in H as [H _].
  destruct (Qlt_le_dec (e_beat b) (e_beat a)) as [L|L]; [|exact L].
  apply qlt_spec in L. congruence.
Qed.

Lemma ev_ge_trans a b c : ev_ge a b -> ev_ge b c -> ev_ge a c.
Proof.
  unfold ev_ge, ev_lt. intros H1 H2.
  apply orb_false_iff in H1 as [A1 A2]. apply orb_false_iff in H2 as [B1 B2]. apply orb_false_iff.
  assert (Lab : e_beat a <= e_beat b) by (destruct (Qlt_le_dec (e_beat b) (e_beat a)) as [L|L]; [apply qlt_spec in L; congruence|exact L]).
  assert (Lbc : e_beat b <= e_beat c) by (destruct (Qlt_le_dec (e_beat c) (e_beat b)) as [L|L]; [apply qlt_spec in L; congruence|exact L]).
  split.
  - apply not_true_is_false. intro X. apply qlt_spec in X. lra.
  - apply andb_false_iff. destruct (Qeq_dec (e_beat c) (e_beat a)) as [E|E].
    + right. (* all three beats equal *)
      assert (Eab : e_beat b == e_beat a) by lra. assert (Ecb : e_beat c == e_beat b) by lra.
      apply andb_false_iff in A2. apply andb_false_iff in B2.
      destruct A2 as [A2|A2]; [apply (proj2 (qeq_spec _ _)) in Eab; congruence|].
      destruct B2 as [B2|B2]; [apply (proj2 (qeq_spec _ _)) in Ecb; congruence|].
      apply Z.ltb_ge in A2. apply Z.ltb_ge in B2. apply Z.ltb_ge. lia.
    + left. apply not_true_is_false. intro X. apply qeq_spec in X. contradiction.
Qed.

Lemma merge2_sorted : forall fuel a b, (length a + length b <= fuel)%nat ->
  StronglySorted ev_ge a -> StronglySorted ev_ge b -> StronglySorted ev_ge (merge2 fuel a b).
Proof.
  induction fuel as [|f IH]; intros a b Hlen Ha Hb.
  - destruct a, b; simpl in *; try lia. constructor.
  - destruct a as [|x a']; [simpl; exact Hb|]. destruct b as [|y b']; [simpl; exact Ha|].
    cbn [merge2]. inversion Ha as [|? ? Ha' Hxa]; subst. inversion Hb as [|? ? Hb' Hyb]; subst.
    rewrite Forall_forall in Hxa, Hyb.
    assert (Hin : forall fuel a b z, In z (merge2 fuel a b) -> In z a \/ In z b).
    { clear. induction fuel as [|f IH]; intros a b z H; simpl in H.
      - apply in_app_or. exact H.
      - destruct a as [|x a']; [auto|]. destruct b as [|y b']; [auto|].
        destruct (ev_lt y x); destruct H as [<-|H]; simpl; auto; apply IH in H; simpl in H; tauto. }
    destruct (ev_lt y x) eqn:E.
    + constructor; [apply IH; [simpl in *; lia|exact Ha|exact Hb']|].
      apply Forall_forall. intros z Hz. apply Hin in Hz as [Hz|Hz].
      * assert (Hyx : ev_ge y x) by (apply ev_lt_asym; exact E).
        destruct Hz as [<-|Hz]; [exact Hyx|]. eapply ev_ge_trans; [exact Hyx|apply Hxa; exact Hz].
      * apply Hyb. exact Hz.
    + constructor; [apply IH; [simpl in *; lia|exact Ha'|exact Hb]|].
      apply Forall_forall. intros z Hz. apply Hin in Hz as [Hz|Hz].
      * apply Hxa. exact Hz.
      * destruct Hz as [<-|Hz]; [exact E|]. eapply ev_ge_trans; [exact E|apply Hyb; exact Hz].
Qed.

Lemma merge_sorted a b : StronglySorted ev_ge a -> StronglySorted ev_ge b -> StronglySorted ev_ge (merge a b).
Proof. intros. unfold merge. apply merge2_sorted; auto. Qed.

(* a list of (beat, value) rows with non-decreasing beats, all tagged alike, is sorted *)
Definition beats_nondecreasing (l : list (Q * Q)) : Prop := StronglySorted (fun a b => fst a <= fst b) l.

Lemma tagged_sorted tag l : beats_nondecreasing l -> StronglySorted ev_ge (tagged tag l).
Proof.
  induction 1 as [|x r Hs IH Hx]; simpl; constructor; [exact IH|].
  rewrite Forall_forall in *. intros z Hz. unfold tagged in Hz. apply in_map_iff in Hz as [y [<- Hy]].
  unfold ev_ge, ev_lt. simpl. apply orb_false_iff. split.
  - apply not_true_is_false. intro X. apply qlt_spec in X. specialize (Hx y Hy). lra.
  - apply andb_false_iff. right. apply Z.ltb_irrefl.
Qed.

(* ================================================================== warp coalescing *)
Lemma round_he_nonneg n d : (0 <= n)%Z -> (0 < d)%Z -> (0 <= round_he n d)%Z.
Proof.
  intros Hn Hd. unfold round_he.
  assert (0 <= n / d)%Z by (apply Z.div_pos; lia).
  destruct (2 * (n mod d) <? d)%Z; [assumption|]. destruct (d <? 2 * (n mod d))%Z; [lia|].
  destruct (Z.even (n / d)); lia.
Qed.

Lemma tick_round_nonneg v : 0 <= v -> 0 <= tick_round v.
Proof.
  intro H. unfold tick_round. rewrite Qred_correct. unfold Qle in *. simpl in *.
  assert (0 <= Qnum v)%Z by lia.
  pose proof (round_he_nonneg (SUBDIV * Qnum v) (Zpos (Qden v))) as R. unfold round_tick.
  assert (0 <= SUBDIV * Qnum v)%Z by (unfold SUBDIV; lia). specialize (R H1 eq_refl). lia.
Qed.

(* accumulators are kept most-recent-first: strictly decreasing, each start at most its end, segments separated *)
Inductive segs_ok : list Q -> list Q -> Prop :=
| segs_nil : segs_ok [] []
| segs_one s e : s <= e -> segs_ok [s] [e]
| segs_cons s e s' e' ss es : s <= e -> e' < s -> segs_ok (s' :: ss) (e' :: es) -> segs_ok (s :: s' :: ss) (e :: e' :: es).

Lemma segs_ok_replace_end s e e2 ss es : segs_ok (s :: ss) (e :: es) -> e <= e2 -> segs_ok (s :: ss) (e2 :: es).
Proof. intros H L. inversion H; subst; constructor; auto; lra. Qed.

Definition raw_ok (ws : list (Q * Q)) : Prop :=
  StronglySorted (fun a b => fst a < fst b) ws /\ Forall (fun w => 0 <= snd w) ws.

Lemma coalesce_ok : forall ws starts ends,
  raw_ok ws -> segs_ok starts ends ->
  (forall s0, match starts with s :: _ => s0 = s | [] => False end -> Forall (fun w => s0 < fst w) ws) ->
  exists ss es, coalesce ws starts ends = (rev ss, rev es) /\ segs_ok ss es.
Proof.
  induction ws as [|[b v] r IH]; intros starts ends [Hs Hv] Hok Hlast.
  - simpl. exists starts, ends. rewrite !rev_append_rev, !app_nil_r. auto.
  - inversion Hs as [|? ? Hs' Hb]; subst. inversion Hv as [|? ? Hv0 Hv']; subst. simpl in Hv0.
    rewrite Forall_forall in Hb.
    assert (Hr : raw_ok r) by (split; assumption).
    assert (Hlen : b <= Qred (b + tick_round v)) by (rewrite Qred_correct; pose proof (tick_round_nonneg v Hv0); lra).
    assert (Hnext : Forall (fun w => b < fst w) r) by (apply Forall_forall; intros w Hw; apply (Hb w Hw)).
    cbn [coalesce]. destruct ends as [|le ends'].
    + inversion Hok; subst. apply IH; [exact Hr|constructor; exact Hlen|].
      intros s0 E. subst s0. exact Hnext.
    + destruct starts as [|ls starts']; [inversion Hok|].
      assert (Hls : ls < b).
      { specialize (Hlast ls eq_refl). inversion Hlast; subst. exact H1. }
      destruct (qle b le) eqn:E1.
      * destruct (qlt le (Qred (b + tick_round v))) eqn:E2.
        -- apply qlt_spec in E2. apply IH; [exact Hr|eapply segs_ok_replace_end; [exact Hok|lra]|].
           intros s0 E. subst s0. specialize (Hlast ls eq_refl). inversion Hlast; subst. exact H2.
        -- apply IH; [exact Hr|exact Hok|]. intros s0 E. subst s0. specialize (Hlast ls eq_refl). inversion Hlast; subst. exact H2.
      * assert (Hgt : le < b).
        { destruct (Qlt_le_dec le b) as [L|L]; [exact L|]. apply qle_spec in L. congruence. }
        apply IH; [exact Hr|constructor; [exact Hlen|exact Hgt|exact Hok]|].
        intros s0 E. subst s0. exact Hnext.
Qed.

Lemma segs_ok_sorted : forall ss es, segs_ok ss es ->
  StronglySorted (fun a b => b < a) ss /\ StronglySorted (fun a b => b < a) es /\
  (forall s, In s ss -> match es with e :: _ => s <= e | [] => False end).
Proof.
  induction 1 as [|s e H|s e s' e' ss es H1 H2 H3 IH].
  - repeat split; [constructor|constructor|intros ? []].
  - repeat split; [repeat constructor|repeat constructor|]. intros x [<-|[]]. exact H.
  - destruct IH as (A & B & C). repeat split.
    + constructor; [exact A|]. apply Forall_forall. intros x Hx. specialize (C x Hx). simpl in C. lra.
    + constructor; [exact B|]. inversion B as [|? ? B' Be]; subst. rewrite Forall_forall in Be.
      apply Forall_forall. intros x [<-|Hx]; [lra|]. specialize (Be x Hx). lra.
    + intros x [<-|Hx]; [exact H1|]. specialize (C x Hx). simpl in C. lra.
Qed.

Lemma rev_desc_sorted (l : list Q) : StronglySorted (fun a b => b < a) l -> StronglySorted (fun a b => a <= b) (rev l).
Proof.
  induction 1 as [|x r Hs IH Hx]; simpl; [constructor|].
  rewrite Forall_forall in Hx.
  assert (G : forall l1 (y : Q), StronglySorted (fun a b => a <= b) l1 -> (forall z, In z l1 -> z <= y) -> StronglySorted (fun a b => a <= b) (l1 ++ [y])).
  { induction l1 as [|a l1 IH1]; intros y S1 Hy; simpl; [repeat constructor|].
    inversion S1; subst. constructor; [apply IH1; [assumption|intros; apply Hy; right; assumption]|].
    apply Forall_app. split; [assumption|constructor; [apply Hy; left; reflexivity|constructor]]. }
  apply G; [exact IH|]. intros z Hz. apply in_rev in Hz. specialize (Hx z Hz). lra.
Qed.

Lemma zero_rows_sorted (l : list Q) : StronglySorted (fun a b => a <= b) l -> beats_nondecreasing (map (fun b => (b, 0)) l).
Proof.
  induction 1 as [|x r Hs IH Hx]; simpl; constructor; [exact IH|].
  rewrite Forall_forall in *. intros z Hz. apply in_map_iff in Hz as [y [<- Hy]]. simpl. apply Hx. exact Hy.
Qed.

(* ================================================================== the events of well-formed timing data are sorted *)
Definition rows_ok (l : list (Q * Q)) : Prop := StronglySorted (fun a b => fst a < fst b) l.
Lemma rows_ok_nondecreasing l : rows_ok l -> beats_nondecreasing l.
Proof.
  induction 1 as [|x r Hs IH Hx]; constructor; [exact IH|]. rewrite Forall_forall in *. intros z Hz. specialize (Hx z Hz). lra.
Qed.

Record dom (td : tdata) : Prop := {
  dom_bpms : rows_ok (td_bpms td);
  dom_stops : rows_ok (td_stops td);
  dom_delays : rows_ok (td_delays td);
  dom_warps : raw_ok (td_warps td);
  dom_bpm_pos : Forall (fun r => 0 < snd r) (td_bpms td);
  dom_stop_pos : Forall (fun r => 0 <= snd r) (td_stops td);
  dom_delay_pos : Forall (fun r => 0 <= snd r) (td_delays td);
  dom_nonneg : Forall (fun r => 0 <= fst r) (td_bpms td ++ td_stops td ++ td_delays td ++ td_warps td)
}.

Lemma tl_sorted {T} (R : T -> T -> Prop) l : StronglySorted R l -> StronglySorted R (tl l).
Proof. destruct 1; simpl; [constructor|assumption]. Qed.

Theorem events_sorted td : dom td -> StronglySorted ev_ge (events td).
Proof.
  intros D. unfold events.
  destruct (coalesce_ok (td_warps td) [] [] (dom_warps td D) segs_nil) as (ss & es & E & Hseg); [intros ? []|].
  rewrite E. destruct (segs_ok_sorted ss es Hseg) as (Ss & Se & _).
  cbn [fold_right].
  repeat apply merge_sorted; try constructor.
  - apply tagged_sorted, zero_rows_sorted, rev_desc_sorted, Ss.
  - apply tagged_sorted, zero_rows_sorted, rev_desc_sorted, Se.
  - apply tagged_sorted, rows_ok_nondecreasing. apply tl_sorted. exact (dom_bpms td D).
  - apply tagged_sorted, rows_ok_nondecreasing, (dom_delays td D).
  - apply tagged_sorted, rows_ok_nondecreasing, (dom_delays td D).
  - apply tagged_sorted, rows_ok_nondecreasing, (dom_stops td D).
  - apply tagged_sorted, rows_ok_nondecreasing, (dom_stops td D).
Qed.

(* ================================================================== time never decreases along the state machine *)
Definition ev_ok (e : ev) : Prop :=
  (e_tag e = tBPM -> 0 < e_val e) /\ (is_pause_tag (e_tag e) = true -> 0 <= e_val e).
Definition st_ok (s : state) : Prop := 0 < s_bpm s /\ (is_pause_tag (s_tag s) = true -> 0 <= s_val s).

Lemma time_until_nonneg s beat tag : st_ok s -> s_beat s <= beat -> 0 <= time_until s beat tag.
Proof.
  intros [Hb Hp] Hle. unfold time_until. rewrite Qred_correct.
  assert (B : 0 <= (if s_warp s then 0 else (beat - s_beat s) * 60 / s_bpm s)).
  { destruct (s_warp s); [lra|]. apply Qle_shift_div_l; [exact Hb|]. nra. }
  destruct (is_pause_tag (s_tag s)) eqn:P; simpl; [|exact B].
  destruct (is_end_tag tag); simpl; [|exact B]. specialize (Hp eq_refl). lra.
Qed.

Lemma advance_ok s e : st_ok s -> ev_ok e -> st_ok (advance s e).
Proof.
  intros [Hb Hp] [E1 E2]. unfold st_ok, advance. cbn [s_bpm s_tag s_val]. split.
  - destruct (Z.eqb (e_tag e) tBPM) eqn:T; [apply E1; apply Z.eqb_eq; exact T|exact Hb].
  - exact E2.
Qed.

Lemma advance_time_ge s e : st_ok s -> s_beat s <= e_beat e -> s_time s <= s_time (advance s e).
Proof.
  intros Hs Hle. unfold advance. cbn [s_time]. rewrite Qred_correct.
  pose proof (time_until_nonneg s (e_beat e) (e_tag e) Hs Hle). lra.
Qed.

Theorem run_states_monotone : forall es s, st_ok s -> Forall ev_ok es -> StronglySorted ev_ge es ->
  (forall e, In e es -> s_beat s <= e_beat e) ->
  StronglySorted (fun a b => s_time a <= s_time b) (run_states s es).
Proof.
  induction es as [|e r IH]; intros s Hs Hev Hsort Hbeat; simpl.
  - repeat constructor.
  - inversion Hev; subst. inversion Hsort as [|? ? Hsort' Hhd]; subst. rewrite Forall_forall in Hhd.
    assert (Hle : s_beat s <= e_beat e) by (apply Hbeat; left; reflexivity).
    assert (IHr : StronglySorted (fun a b => s_time a <= s_time b) (run_states (advance s e) r)).
    { apply IH; [apply advance_ok; assumption|assumption|assumption|].
      intros e' He'. unfold advance; cbn [s_beat]. apply ev_ge_beat. apply Hhd. exact He'. }
    constructor; [exact IHr|].
    (* s is no later than the head of the rest, and the rest is sorted *)
    apply Forall_forall. intros x Hx.
    assert (Hhead : s_time s <= s_time (advance s e)) by (apply advance_time_ge; assumption).
    destruct r as [|e2 r2]; simpl in Hx, IHr.
    + destruct Hx as [<-|[]]. exact Hhead.
    + destruct Hx as [<-|Hx]; [exact Hhead|]. inversion IHr as [|? ? _ Hall]; subst. rewrite Forall_forall in Hall.
      specialize (Hall x Hx). lra.
Qed.

(* membership in merges and in the event list *)
Lemma merge2_In : forall fuel a b z, In z (merge2 fuel a b) -> In z a \/ In z b.
Proof.
  induction fuel as [|f IH]; intros a b z H; simpl in H.
  - apply in_app_or. exact H.
  - destruct a as [|x a']; [auto|]. destruct b as [|y b']; [auto|].
    destruct (ev_lt y x); destruct H as [<-|H]; simpl; auto; apply IH in H; simpl in H; tauto.
Qed.

Lemma tagged_ok tag l : (tag = tBPM -> Forall (fun r => 0 < snd r) l) ->
  (is_pause_tag tag = true -> Forall (fun r => 0 <= snd r) l) -> Forall ev_ok (tagged tag l).
Proof.
  intros H1 H2. apply Forall_forall. intros e He. unfold tagged in He. apply in_map_iff in He as [r [<- Hr]].
  unfold ev_ok. simpl. split; intro T.
  - specialize (H1 T). rewrite Forall_forall in H1. apply H1. exact Hr.
  - specialize (H2 T). rewrite Forall_forall in H2. apply H2. exact Hr.
Qed.

Lemma Forall_merge (P : ev -> Prop) a b : Forall P a -> Forall P b -> Forall P (merge a b).
Proof.
  intros Ha Hb. rewrite Forall_forall in *. intros z Hz. unfold merge in Hz. apply merge2_In in Hz as [Hz|Hz]; auto.
Qed.

Lemma Forall_tl {T} (P : T -> Prop) l : Forall P l -> Forall P (tl l).
Proof. destruct 1; simpl; [constructor|assumption]. Qed.

Lemma zero_rows_val (l : list Q) : Forall (fun r : Q * Q => 0 <= snd r) (map (fun b => (b, 0)) l).
Proof. apply Forall_forall. intros r Hr. apply in_map_iff in Hr as [b [<- _]]. simpl. lra. Qed.

Theorem events_ok td : dom td -> Forall ev_ok (events td).
Proof.
  intro D. unfold events. destruct (coalesce (td_warps td) [] []) as [ws wes]. cbn [fold_right].
  repeat apply Forall_merge; try constructor; apply tagged_ok; intro T; try discriminate T.
  - apply Forall_tl. exact (dom_bpm_pos td D).
  - exact (dom_delay_pos td D).
  - exact (dom_stop_pos td D).
Qed.

Lemma coalesce_nonneg : forall ws starts ends,
  Forall (fun w => 0 <= fst w /\ 0 <= snd w) ws -> Forall (fun x => 0 <= x) starts -> Forall (fun x => 0 <= x) ends ->
  Forall (fun x => 0 <= x) (fst (coalesce ws starts ends)) /\ Forall (fun x => 0 <= x) (snd (coalesce ws starts ends)).
Proof.
  induction ws as [|[b v] r IH]; intros starts ends Hw Hs He.
  - simpl. rewrite !rev_append_rev, !app_nil_r. split; apply Forall_rev; assumption.
  - inversion Hw as [|? ? [Hb Hv] Hw']; subst. simpl in Hb, Hv. cbn [coalesce].
    assert (Hwe : 0 <= Qred (b + tick_round v)) by (rewrite Qred_correct; pose proof (tick_round_nonneg v Hv); lra).
    destruct ends as [|le ends'].
    + apply IH; [exact Hw'|constructor; assumption|constructor; [exact Hwe|constructor]].
    + inversion He; subst. destruct (qle b le).
      * destruct (qlt le (Qred (b + tick_round v))); apply IH; auto.
      * apply IH; auto.
Qed.

Lemma In_merge a b z : In z (merge a b) -> In z a \/ In z b.
Proof. unfold merge. apply merge2_In. Qed.

Lemma events_nonneg td : dom td -> forall e, In e (events td) -> 0 <= e_beat e.
Proof.
  intros D e He. unfold events in He.
  pose proof (dom_nonneg td D) as Hn. rewrite !Forall_app in Hn. destruct Hn as (Nb & Ns & Nd & Nw).
  assert (Hw : Forall (fun w => 0 <= fst w /\ 0 <= snd w) (td_warps td)).
  { destruct (dom_warps td D) as [_ Hv]. rewrite Forall_forall in *. intros w Hin. split; auto. }
  destruct (coalesce_nonneg (td_warps td) [] [] Hw (Forall_nil _) (Forall_nil _)) as [Cs Ce].
  destruct (coalesce (td_warps td) [] []) as [ws wes]. cbn [fst snd fold_right] in *.
  assert (T : forall tag l, Forall (fun r : Q * Q => 0 <= fst r) l -> In e (tagged tag l) -> 0 <= e_beat e).
  { intros tag l Hl Hin. unfold tagged in Hin. apply in_map_iff in Hin as [r [<- Hr]]. simpl. rewrite Forall_forall in Hl. auto. }
  assert (Z0 : forall l, Forall (fun x => 0 <= x) l -> Forall (fun r : Q * Q => 0 <= fst r) (map (fun b => (b, 0)) l)).
  { intros l Hl. apply Forall_forall. intros r Hr. apply in_map_iff in Hr as [b [<- Hb]]. simpl. rewrite Forall_forall in Hl. auto. }
  repeat (apply In_merge in He as [He|He]); try (eapply T; [|exact He]; auto using Forall_tl); [].
  destruct He.
Qed.

(* time never decreases along the states of well-formed timing data *)
Theorem states_monotone td sts : dom td -> states td = EOk sts ->
  StronglySorted (fun a b => s_time a <= s_time b) sts.
Proof.
  intros D H. unfold states in H. destruct (td_bpms td) as [|[b0 v0] r] eqn:B; [discriminate|].
  destruct (negb (qeq b0 0)); [discriminate|].
  assert (E : sts = run_states {| s_beat := 0; s_val := v0; s_tag := tBPM; s_time := Qred (- td_offset td); s_bpm := v0; s_warp := false |} (events td)) by congruence.
  subst sts. apply run_states_monotone.
  - unfold st_ok. cbn [s_bpm s_tag s_val]. split; [|discriminate].
    pose proof (dom_bpm_pos td D) as P. rewrite B in P. inversion P; subst. assumption.
  - apply events_ok. exact D.
  - apply events_sorted. exact D.
  - intros e He. cbn [s_beat]. apply (events_nonneg td D e He).
Qed.

(* ================================================================== beat_at: local laws on any time-sorted state list *)
Definition times_sorted (l : list state) : Prop := StronglySorted (fun a b => s_time a <= s_time b) l.

Lemma pick_past : forall post idx t q best, (forall x, In x post -> t < s_time x) -> pick_in_run post idx t q best = best.
Proof.
  intros [|x r] idx t q best H; [reflexivity|]. simpl.
  assert (Hx : t < s_time x) by (apply H; left; reflexivity).
  assert (E1 : qlt (s_time x) t = false) by (apply not_true_is_false; intro X; apply qlt_spec in X; lra).
  assert (E2 : qeq (s_time x) t = false) by (apply not_true_is_false; intro X; apply qeq_spec in X; lra).
  rewrite E1, E2. reflexivity.
Qed.

(* a time strictly after state s and strictly before everything that follows it selects s *)
Lemma pick_between : forall pre s post idx t q best,
  times_sorted (pre ++ s :: post) -> s_time s < t -> (forall x, In x post -> t < s_time x) ->
  pick_in_run (pre ++ s :: post) idx t q best = Some (idx + length pre)%nat.
Proof.
  induction pre as [|p pre IH]; intros s post idx t q best Hs Ht Hpost.
  - cbn [app pick_in_run length]. assert (E : qlt (s_time s) t = true) by (apply qlt_spec; exact Ht). rewrite E.
    rewrite pick_past by exact Hpost. f_equal. lia.
  - cbn [app pick_in_run length]. inversion Hs as [|? ? Hs' Hp]; subst. rewrite Forall_forall in Hp.
    assert (Hps : s_time p <= s_time s) by (apply Hp; apply in_or_app; right; left; reflexivity).
    assert (E : qlt (s_time p) t = true) by (apply qlt_spec; lra). rewrite E.
    rewrite (IH s post (S idx) t q (Some idx) Hs' Ht Hpost). f_equal. lia.
Qed.

Lemma nth_middle' {T} (pre : list T) s post d : nth (length pre) (pre ++ s :: post) d = s.
Proof. induction pre; simpl; auto. Qed.

(* strictly inside a stop or delay the answer is the paused beat, whatever the tag asked *)
Theorem beat_at_in_pause pre s post d t q :
  times_sorted (pre ++ s :: post) -> is_pause_tag (s_tag s) = true ->
  s_time s < t -> (forall x, In x post -> t < s_time x) ->
  fst (beat_at_raw (pre ++ s :: post) d t q) = s_beat s.
Proof.
  intros Hs Hp Ht Hpost. unfold beat_at_raw. rewrite (pick_between pre s post 0 t q None Hs Ht Hpost).
  cbn [Nat.add]. rewrite nth_middle', Hp. reflexivity.
Qed.

(* between two states (no pause): the answer is the state's beat plus the elapsed beats rounded to the tick *)
Theorem beat_at_between pre s post d t q :
  times_sorted (pre ++ s :: post) -> is_pause_tag (s_tag s) = false ->
  s_time s < t -> (forall x, In x post -> t < s_time x) ->
  fst (beat_at_raw (pre ++ s :: post) d t q) == s_beat s + tick_round ((t - s_time s) / 60 * s_bpm s).
Proof.
  intros Hs Hp Ht Hpost. unfold beat_at_raw. rewrite (pick_between pre s post 0 t q None Hs Ht Hpost).
  cbn [Nat.add]. rewrite nth_middle', Hp. cbn [fst]. apply Qred_correct.
Qed.

(* rounding: tick_round x is a multiple of 1/48 within 1/96 of x *)
Lemma tick_round_is_tick v : exists k : Z, tick_round v == inject_Z k / 48.
Proof.
  unfold tick_round. exists (round_tick (Qnum v) (Zpos (Qden v))). rewrite Qred_correct.
  unfold Qdiv, Qeq, Qmult, Qinv, inject_Z. simpl. lia.
Qed.

(* so the answer is tick-aligned whenever the state's beat is *)
Theorem beat_at_tick_aligned pre s post d t q (kb : Z) :
  times_sorted (pre ++ s :: post) -> s_time s < t -> (forall x, In x post -> t < s_time x) ->
  s_beat s == inject_Z kb / 48 ->
  exists k : Z, fst (beat_at_raw (pre ++ s :: post) d t q) == inject_Z k / 48.
Proof.
  intros Hs Ht Hpost Hb. destruct (is_pause_tag (s_tag s)) eqn:P.
  - exists kb. rewrite (beat_at_in_pause pre s post d t q Hs P Ht Hpost). exact Hb.
  - destruct (tick_round_is_tick ((t - s_time s) / 60 * s_bpm s)) as [k2 Hk].
    exists (kb + k2)%Z. rewrite (beat_at_between pre s post d t q Hs P Ht Hpost), Hb, Hk.
    rewrite inject_Z_plus. field.
Qed.

(* the inverse on the tick grid: asking the time at which a tick-aligned beat past state s is reached
   (before the next state) gives back that beat *)
Lemma tick_round_compat a b : a == b -> tick_round a == tick_round b.
Proof.
  intro E. unfold tick_round. rewrite !Qred_correct. unfold round_tick.
  rewrite (round_he_compat (SUBDIV * Qnum a) (Zpos (Qden a)) (SUBDIV * Qnum b) (Zpos (Qden b))); [reflexivity|reflexivity|reflexivity|].
  unfold Qeq in E. unfold SUBDIV. lia.
Qed.

Lemma round_he_exact_q (k : Z) : tick_round (inject_Z k / 48) == inject_Z k / 48.
Proof.
  assert (E : inject_Z k / 48 == k # 48) by (unfold Qdiv, Qmult, Qinv, inject_Z, Qeq; simpl; lia).
  rewrite (tick_round_compat _ _ E), E. unfold tick_round. rewrite Qred_correct. cbn [Qnum Qden].
  unfold round_tick, SUBDIV. replace (48 * k)%Z with (k * 48)%Z by lia. rewrite round_he_exact by lia. reflexivity.
Qed.

Theorem beat_at_inverse pre s post d q (k : Z) :
  times_sorted (pre ++ s :: post) -> is_pause_tag (s_tag s) = false -> 0 < s_bpm s ->
  (0 < k)%Z ->
  let t := s_time s + (inject_Z k / 48) * 60 / s_bpm s in       (* the time the engine assigns to beat s_beat + k ticks *)
  (forall x, In x post -> t < s_time x) ->
  fst (beat_at_raw (pre ++ s :: post) d t q) == s_beat s + inject_Z k / 48.
Proof.
  intros Hs Hp Hb Hk t Hpost.
  assert (Ht : s_time s < t).
  { unfold t. assert (0 < inject_Z k / 48 * 60 / s_bpm s); [|lra].
    apply Qlt_shift_div_l; [exact Hb|]. rewrite Qmult_0_l.
    assert (Hk0 : 0 < inject_Z k) by (unfold Qlt, inject_Z; simpl; lia).
    unfold Qdiv. assert (H48 : 0 < / 48) by reflexivity. nra. }
  rewrite (beat_at_between pre s post d t q Hs Hp Ht Hpost).
  assert (E : (t - s_time s) / 60 * s_bpm s == inject_Z k / 48) by (unfold t; field; lra).
  rewrite (tick_round_compat _ _ E), round_he_exact_q. reflexivity.
Qed.

(* ================================================================== time_notes *)
From SV Require Import Notes.
Lemma time_notes_app opt sts d a b : time_notes opt sts d (a ++ b) = time_notes opt sts d a ++ time_notes opt sts d b.
Proof.
  induction a as [|n r IH]; simpl; [reflexivity|]. destruct (time_note opt sts d n); simpl; rewrite IH; reflexivity.
Qed.

Lemma time_notes_one opt sts d n :
  time_notes opt sts d [n] =
  if hittable sts d (note_beat n) || Z.eqb opt 3 then [(time_at sts d (note_beat n) tSTOP, n)]
  else if Z.eqb opt 1 && N.eqb (ntype n) 49 then [(time_at sts d (note_beat n) tSTOP, as_fake n)]
  else [].
Proof.
  simpl. unfold time_note. destruct (hittable sts d (note_beat n) || Z.eqb opt 3); [reflexivity|].
  destruct (Z.eqb opt 1 && N.eqb (ntype n) 49); reflexivity.
Qed.

Lemma as_fake_only_type n :
  nb_n (as_fake n) = nb_n n /\ nb_d (as_fake n) = nb_d n /\ ncol (as_fake n) = ncol n /\
  nplayer (as_fake n) = nplayer n /\ nks (as_fake n) = nks n /\ ntype (as_fake n) = 70%N.
Proof. repeat split. Qed.
