(* C07, lexical layer for every well-formed text: rows with leading/trailing blanks, LF or CRLF (or any single line
   break), blank lines and blanks around measures and around the ',' and '&' separators. *)
From Coq Require Import List ZArith NArith Bool Lia.
From SV Require Import Sx Str Notes Generated.Tables Proofs.StrFacts Proofs.NotesText.
Import ListNotations.
Open Scope N_scope.

Definition wsp (s : str) : Prop := forallb is_space s = true.
Definition hblank (s : str) : Prop := forallb (fun c => is_space c && negb (is_lb c)) s = true.

Lemma hblank_wsp s : hblank s -> wsp s.
Proof. unfold hblank, wsp. induction s as [|c s IH]; simpl; intro H; [reflexivity|]. apply andb_prop in H as [A B]. apply andb_prop in A as [A _]. rewrite A, (IH B). reflexivity. Qed.
Lemma hblank_nolb s : hblank s -> forallb (fun c => negb (is_lb c)) s = true.
Proof. unfold hblank. induction s as [|c s IH]; simpl; intro H; [reflexivity|]. apply andb_prop in H as [A B]. apply andb_prop in A as [_ A]. rewrite A, (IH B). reflexivity. Qed.
Lemma wsp_app a b : wsp a -> wsp b -> wsp (a ++ b).
Proof. unfold wsp. intros. rewrite forallb_app, H, H0. reflexivity. Qed.

Lemma strip_ws_prefix : forall a s, wsp a -> strip (a ++ s) = strip s.
Proof. induction a as [|c a IH]; intros s H; [reflexivity|]. unfold wsp in H. simpl in H. apply andb_prop in H as [A B]. cbn [app]. rewrite strip_cons_space by exact A. apply IH. exact B. Qed.
Lemma strip_ws_suffix : forall b s, wsp b -> strip (s ++ b) = strip s.
Proof.
  induction b as [|c b IH] using rev_ind; intros s H; [rewrite app_nil_r; reflexivity|].
  unfold wsp in H. rewrite forallb_app in H. apply andb_prop in H as [A B]. simpl in B. apply andb_prop in B as [B _].
  rewrite app_assoc, strip_snoc by exact B. apply IH. exact A.
Qed.
Lemma strip_ws_core u c v : wsp u -> wsp v -> first_last_ok c -> strip (u ++ c ++ v) = c.
Proof. intros Hu Hv Hc. rewrite strip_ws_prefix by exact Hu. rewrite strip_ws_suffix by exact Hv. apply strip_first_last. exact Hc. Qed.

(* ---- splitlines with something already accumulated ---- *)
Definition prepend (p : str) (ls : list str) : list str :=
  match ls with [] => match p with [] => [] | _ => [p] end | l :: r => (p ++ l) :: r end.
Lemma prepend_prepend p q ls : prepend p (prepend q ls) = prepend (p ++ q) ls.
Proof.
  destruct ls as [|l r]; simpl; [|rewrite app_assoc; reflexivity].
  destruct q as [|c q]; simpl; [rewrite app_nil_r; reflexivity|]. destruct p; reflexivity.
Qed.
Lemma splitlines_go_cur : forall s cur, splitlines_go s cur = prepend (rev cur) (splitlines_go s []).
Proof.
  induction s as [|c r IH]; intro cur.
  - simpl. destruct cur as [|x cur']; [reflexivity|]. rewrite rev_append_rev, app_nil_r. simpl. destruct (rev cur' ++ [x]) eqn:E; [destruct (rev cur'); discriminate|reflexivity].
  - cbn [splitlines_go]. destruct (is_lb c).
    + cbn [rev_append]. rewrite rev_append_rev, app_nil_r. simpl. rewrite app_nil_r. reflexivity.
    + rewrite (IH (c :: cur)), (IH [c]). rewrite prepend_prepend. cbn [rev app]. reflexivity.
Qed.

Inductive is_break : str -> Prop :=
| br_one c : is_lb c = true -> c <> 13 -> is_break [c]
| br_crlf : is_break [13; 10].

Lemma splitlines_go_line l br rest : forallb (fun c => negb (is_lb c)) l = true -> is_break br ->
  splitlines_go (l ++ br ++ rest) [] = l :: splitlines_go rest [].
Proof.
  intros Hl Hb. rewrite splitlines_go_nolb by exact Hl. rewrite app_nil_r.
  destruct Hb as [c Hc Hne|]; cbn [app splitlines_go].
  - rewrite Hc. destruct (N.eqb_spec c 13); [contradiction|]. rewrite rev_append_rev, rev_involutive, app_nil_r. reflexivity.
  - change (is_lb 13) with true. cbv iota. change (13 =? 13) with true. cbv iota. change (10 =? 10) with true. cbv iota.
    rewrite rev_append_rev, rev_involutive, app_nil_r. reflexivity.
Qed.

(* ---- the lines of one measure: blanks, row, blanks ---- *)
Record line := { l_a : str; l_r : list cell; l_b : str }.
Definition line_ok (l : line) : Prop := hblank (l_a l) /\ hblank (l_b l) /\ row_ok (l_r l).
Definition line_text (l : line) : str := l_a l ++ row_text (l_r l) ++ l_b l.

(* lines joined by line breaks: the first line, then (break, line) pairs *)
Fixpoint lines_text (l0 : line) (rest : list (str * line)) : str :=
  match rest with
  | [] => line_text l0
  | (br, l1) :: rest' => line_text l0 ++ br ++ lines_text l1 rest'
  end.

Lemma row_first_last r : row_ok r -> first_last_ok (row_text r).
Proof. intros [A B]. apply plain_first_last; [apply row_text_nonempty; exact A|apply row_text_plain; exact B]. Qed.
Lemma row_nolb r : row_ok r -> forallb (fun c => negb (is_lb c)) (row_text r) = true.
Proof. intros [_ B]. apply plain_nolb, row_text_plain. exact B. Qed.

Lemma nolb_app a b : forallb (fun c => negb (is_lb c)) a = true -> forallb (fun c => negb (is_lb c)) b = true ->
  forallb (fun c => negb (is_lb c)) (a ++ b) = true.
Proof. intros. rewrite forallb_app, H, H0. reflexivity. Qed.

Lemma first_last_mid a mid b : first_last_ok a -> first_last_ok b -> first_last_ok (a ++ mid ++ b).
Proof. apply first_last_app. Qed.

(* the text of the lines is: blanks, a core that starts and ends with a cell character, blanks; and the core splits
   into one line per row, each of which strips to the row's own text *)
Lemma lines_decomp : forall rest l0, line_ok l0 -> Forall (fun bl => is_break (fst bl) /\ line_ok (snd bl)) rest ->
  exists core bl ls, lines_text l0 rest = l_a l0 ++ core ++ bl /\ hblank bl /\ first_last_ok core /\
    splitlines_go core [] = ls /\ ls <> [] /\
    Forall2 (fun s r => strip s = row_text r) ls (l_r l0 :: map (fun bl => l_r (snd bl)) rest).
Proof.
  induction rest as [|[br l1] rest IH]; intros l0 (Ha & Hb & Hr) Hall.
  - exists (row_text (l_r l0)), (l_b l0), [row_text (l_r l0)]. cbn [lines_text line_text map]. repeat split.
    + exact Hb.
    + apply row_first_last; exact Hr.
    + pose proof (splitlines_join [row_text (l_r l0)]) as S. cbn [join] in S. unfold splitlines in S. apply S; [discriminate|].
      constructor; [|constructor]. split; [apply row_text_nonempty; apply Hr|apply row_nolb; exact Hr].
    + discriminate.
    + constructor; [|constructor]. apply strip_first_last, row_first_last. exact Hr.
  - inversion Hall as [|? ? [Hbr Hl1] Hrest]; subst. cbn [fst snd] in *.
    destruct (IH l1 Hl1 Hrest) as (core1 & bl & ls1 & E & Hbl & Hfl & Hsp & Hne & Hf2).
    exists (row_text (l_r l0) ++ (l_b l0 ++ br ++ l_a l1) ++ core1), bl, ((row_text (l_r l0) ++ l_b l0) :: prepend (l_a l1) ls1).
    cbn [lines_text map]. repeat split.
    + rewrite E. unfold line_text. rewrite <- !app_assoc. reflexivity.
    + exact Hbl.
    + apply first_last_mid; [apply row_first_last; exact Hr|exact Hfl].
    + replace (row_text (l_r l0) ++ (l_b l0 ++ br ++ l_a l1) ++ core1) with ((row_text (l_r l0) ++ l_b l0) ++ br ++ (l_a l1 ++ core1)) by (rewrite <- !app_assoc; reflexivity).
      rewrite splitlines_go_line; [|apply nolb_app; [apply row_nolb; exact Hr|apply hblank_nolb; exact Hb]|exact Hbr].
      f_equal. rewrite splitlines_go_nolb by (apply hblank_nolb; apply Hl1). rewrite app_nil_r, splitlines_go_cur, rev_involutive, Hsp. reflexivity.
    + discriminate.
    + constructor.
      * rewrite strip_ws_suffix by (apply hblank_wsp; exact Hb). apply strip_first_last, row_first_last. exact Hr.
      * destruct ls1 as [|s1 ls1']; [congruence|]. cbn [prepend]. inversion Hf2 as [|? ? ? ? Hs1 Hf2']; subst.
        constructor; [|exact Hf2']. rewrite strip_ws_prefix by (apply hblank_wsp; apply Hl1). exact Hs1.
Qed.

Lemma Forall2_parse ls rows : Forall2 (fun s r => strip s = row_text r) ls rows -> Forall row_ok rows ->
  sequence (map (fun line => parse_row_top (strip line)) ls) = Some rows.
Proof.
  induction 1 as [|s r ls rows Hs H2 IH]; intro Hok; [reflexivity|]. inversion Hok as [|? ? [_ Hr] Hok']; subst.
  cbn [map sequence]. rewrite Hs, parse_row_text by exact Hr. rewrite (IH Hok'). reflexivity.
Qed.

(* a measure: white space (blank lines included), the lines, white space *)
Theorem parse_measure_general wsA l0 rest wsB : wsp wsA -> wsp wsB -> line_ok l0 ->
  Forall (fun bl => is_break (fst bl) /\ line_ok (snd bl)) rest ->
  parse_measure (wsA ++ lines_text l0 rest ++ wsB) = Some (l_r l0 :: map (fun bl => l_r (snd bl)) rest).
Proof.
  intros HA HB Hl0 Hrest. destruct (lines_decomp rest l0 Hl0 Hrest) as (core & bl & ls & E & Hbl & Hfl & Hsp & _ & Hf2).
  unfold parse_measure. rewrite E.
  replace (wsA ++ (l_a l0 ++ core ++ bl) ++ wsB) with ((wsA ++ l_a l0) ++ core ++ (bl ++ wsB)) by (rewrite <- !app_assoc; reflexivity).
  rewrite strip_ws_core; [|apply wsp_app; [exact HA|apply hblank_wsp; apply Hl0]|apply wsp_app; [apply hblank_wsp; exact Hbl|exact HB]|exact Hfl].
  unfold splitlines. rewrite Hsp. apply Forall2_parse; [exact Hf2|].
  constructor; [apply Hl0|]. apply Forall_forall. intros r Hr. apply in_map_iff in Hr as [[br l] [<- Hin]]. rewrite Forall_forall in Hrest. apply (Hrest _ Hin).
Qed.

(* ---- measures separated by ',', players by '&' ---- *)
Record gmeasure := { m_wsA : str; m_l0 : line; m_rest : list (str * line); m_wsB : str }.
Definition gm_ok (m : gmeasure) : Prop :=
  wsp (m_wsA m) /\ wsp (m_wsB m) /\ line_ok (m_l0 m) /\ Forall (fun bl => is_break (fst bl) /\ line_ok (snd bl)) (m_rest m).
Definition gm_text (m : gmeasure) : str := m_wsA m ++ lines_text (m_l0 m) (m_rest m) ++ m_wsB m.
Definition gm_rows (m : gmeasure) : measure := l_r (m_l0 m) :: map (fun bl => l_r (snd bl)) (m_rest m).

Definition okchar (c : N) : bool := is_space c || is_lb c || plain c.

Lemma space_lb_not_sep : forallb (fun c => negb (N.eqb c 44) && negb (N.eqb c 38)) (space_points ++ line_breaks) = true.
Proof. vm_compute. reflexivity. Qed.

Lemma okchar_nosep c : okchar c = true -> N.eqb c 44 = false /\ N.eqb c 38 = false.
Proof.
  unfold okchar. intro H. apply orb_prop in H as [H|H]; [apply orb_prop in H as [H|H]|].
  - unfold is_space in H. apply existsb_exists in H as [x [Hx E]]. apply N.eqb_eq in E. subst x.
    pose proof space_lb_not_sep as T. rewrite forallb_forall in T. specialize (T c (in_or_app _ _ _ (or_introl Hx))).
    apply andb_prop in T as [A B]. split; apply negb_true_iff; assumption.
  - unfold is_lb in H. apply existsb_exists in H as [x [Hx E]]. apply N.eqb_eq in E. subst x.
    pose proof space_lb_not_sep as T. rewrite forallb_forall in T. specialize (T c (in_or_app _ _ _ (or_intror Hx))).
    apply andb_prop in T as [A B]. split; apply negb_true_iff; assumption.
  - split; [apply plain_not_comma|apply plain_not_amp]; exact H.
Qed.

Lemma okchars_app a b : forallb okchar a = true -> forallb okchar b = true -> forallb okchar (a ++ b) = true.
Proof. intros. rewrite forallb_app, H, H0. reflexivity. Qed.
Lemma wsp_ok s : wsp s -> forallb okchar s = true.
Proof. unfold wsp. induction s as [|c s IH]; simpl; intro H; [reflexivity|]. apply andb_prop in H as [A B]. unfold okchar at 1. rewrite A, (IH B). reflexivity. Qed.
Lemma plain_ok s : forallb plain s = true -> forallb okchar s = true.
Proof. induction s as [|c s IH]; simpl; intro H; [reflexivity|]. apply andb_prop in H as [A B]. unfold okchar at 1. rewrite A, (IH B), !orb_true_r. reflexivity. Qed.
Lemma break_ok br : is_break br -> forallb okchar br = true.
Proof. intros [c Hc _|]; simpl; unfold okchar; [rewrite Hc, orb_true_r; reflexivity|reflexivity]. Qed.

Lemma line_text_ok l : line_ok l -> forallb okchar (line_text l) = true.
Proof.
  intros (Ha & Hb & [_ Hr]). unfold line_text. apply okchars_app; [apply wsp_ok, hblank_wsp; exact Ha|].
  apply okchars_app; [apply plain_ok, row_text_plain; exact Hr|apply wsp_ok, hblank_wsp; exact Hb].
Qed.
Lemma lines_text_ok : forall rest l0, line_ok l0 -> Forall (fun bl => is_break (fst bl) /\ line_ok (snd bl)) rest ->
  forallb okchar (lines_text l0 rest) = true.
Proof.
  induction rest as [|[br l1] rest IH]; intros l0 H0 Hall; cbn [lines_text]; [apply line_text_ok; exact H0|].
  inversion Hall as [|? ? [Hbr Hl1] Hrest]; subst. cbn [fst snd] in *.
  apply okchars_app; [apply line_text_ok; exact H0|]. apply okchars_app; [apply break_ok; exact Hbr|apply IH; assumption].
Qed.
Lemma gm_text_ok m : gm_ok m -> forallb okchar (gm_text m) = true.
Proof.
  intros (HA & HB & H0 & Hr). unfold gm_text. apply okchars_app; [apply wsp_ok; exact HA|].
  apply okchars_app; [apply lines_text_ok; assumption|apply wsp_ok; exact HB].
Qed.
Lemma okchars_nosep sep s : (sep = 44 \/ sep = 38) -> forallb okchar s = true -> nosep sep s.
Proof.
  intros Hsep. unfold nosep. induction s as [|c s IH]; simpl; intro H; [reflexivity|]. apply andb_prop in H as [A B].
  rewrite (IH B), andb_true_r. apply negb_true_iff. destruct (okchar_nosep c A) as [X Y]. destruct Hsep as [-> | ->]; assumption.
Qed.

Lemma split_join1 sep : forall xs, xs <> [] -> Forall (nosep sep) xs -> split_on sep (join [sep] xs) = xs.
Proof.
  unfold split_on. induction xs as [|x xs IH]; intros Hne Hall; [congruence|]. inversion Hall as [|? ? Hx Hxs]; subst.
  destruct xs as [|y xs'].
  - simpl. rewrite split_go_nosep by exact Hx. reflexivity.
  - rewrite join_cons2. cbn [app]. rewrite split_go_sep by exact Hx. cbn [rev app]. f_equal. apply IH; [discriminate|exact Hxs].
Qed.

Definition gplayer := list gmeasure.
Definition gp_ok (p : gplayer) : Prop := p <> [] /\ Forall gm_ok p.
Definition gp_text (p : gplayer) : str := join [44] (map gm_text p).
Definition gg_text (g : list gplayer) : str := join [38] (map gp_text g).

Lemma parse_player_general p : gp_ok p -> parse_player (gp_text p) = Some (map gm_rows p).
Proof.
  intros [Hne Hall]. unfold parse_player, gp_text. rewrite split_join1.
  - rewrite map_map. apply sequence_map_some. intros m Hm. rewrite Forall_forall in Hall. destruct (Hall m Hm) as (HA & HB & H0 & Hr).
    apply parse_measure_general; assumption.
  - destruct p; [congruence|discriminate].
  - apply Forall_forall. intros s Hs. apply in_map_iff in Hs as [m [<- Hm]]. rewrite Forall_forall in Hall.
    apply okchars_nosep; [left; reflexivity|apply gm_text_ok; apply Hall; exact Hm].
Qed.

Lemma gp_text_chars p : Forall gm_ok p -> forallb (fun c => okchar c || N.eqb c 44) (gp_text p) = true.
Proof.
  intro H. unfold gp_text. induction H as [|m p Hm Hp IH]; [reflexivity|].
  assert (M : forallb (fun c => okchar c || N.eqb c 44) (gm_text m) = true).
  { pose proof (gm_text_ok m Hm) as X. clear -X. induction (gm_text m) as [|c s IH]; [reflexivity|]. simpl in *. apply andb_prop in X as [A B]. rewrite A, (IH B). reflexivity. }
  destruct p as [|m2 p']; [simpl; exact M|]. cbn [map]. rewrite join_cons2. rewrite !forallb_app. cbn [map] in IH. rewrite M, IH. reflexivity.
Qed.

(* every well-formed note data text, in the property's sense, parses to the grid of its rows *)
Theorem parse_grid_general g : g <> [] -> Forall gp_ok g -> parse_grid (gg_text g) = Some (map (map gm_rows) g).
Proof.
  intros Hne Hall. unfold parse_grid, gg_text. rewrite split_join1.
  - rewrite map_map. apply sequence_map_some. intros p Hp. rewrite Forall_forall in Hall. apply parse_player_general. apply Hall. exact Hp.
  - destruct g; [congruence|discriminate].
  - apply Forall_forall. intros s Hs. apply in_map_iff in Hs as [p [<- Hp]]. rewrite Forall_forall in Hall. destruct (Hall p Hp) as [_ Hm].
    pose proof (gp_text_chars p Hm) as X. unfold nosep. clear -X. induction (gp_text p) as [|c s IH]; [reflexivity|]. simpl in *.
    apply andb_prop in X as [A B]. rewrite (IH B), andb_true_r. apply negb_true_iff. apply orb_prop in A as [A|A].
    + apply (proj2 (okchar_nosep c A)).
    + apply N.eqb_eq in A. subst c. reflexivity.
Qed.
