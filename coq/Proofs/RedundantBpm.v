(* C11: inserting a BPM change that repeats the BPM already in force changes no answer of time_at. *)
From Coq Require Import List ZArith QArith Bool Lia Lqa Setoid Sorting.Sorted Arith.
From SV Require Import Sx Beat Engine Proofs.EngineFacts Proofs.Hittable Proofs.TimeLaw.
Import ListNotations.
Open Scope Q_scope.

(* two strictly sorted lists with the same elements are the same list *)
Lemma ev_slt_irrefl x : ~ ev_slt x x.
Proof. unfold ev_slt. intro H. pose proof (ev_lt_asym x x H). congruence. Qed.

Lemma strict_unique : forall l l' : list ev, StronglySorted ev_slt l -> StronglySorted ev_slt l' ->
  (forall x, In x l <-> In x l') -> l = l'.
Proof.
  induction l as [|a l IH]; intros l' Hs Hs' Hin.
  - destruct l' as [|b l']; [reflexivity|]. exfalso. apply (proj2 (Hin b)). left. reflexivity.
  - destruct l' as [|b l']; [exfalso; apply (proj1 (Hin a)); left; reflexivity|].
    inversion Hs as [|? ? Hsl Ha]; subst. inversion Hs' as [|? ? Hsl' Hb]; subst. rewrite Forall_forall in Ha, Hb.
    assert (E : a = b).
    { destruct (proj1 (Hin a) (or_introl eq_refl)) as [E|Hab]; [symmetry; exact E|].
      destruct (proj2 (Hin b) (or_introl eq_refl)) as [E|Hba]; [exact E|].
      exfalso. pose proof (Hb a Hab) as X. pose proof (Ha b Hba) as Y. unfold ev_slt in *. pose proof (ev_lt_asym _ _ X). congruence. }
    subst b. f_equal. apply IH; [exact Hsl|exact Hsl'|]. intro x. split; intro Hx.
    + destruct (proj1 (Hin x) (or_intror Hx)) as [E|H]; [|exact H]. subst x. exfalso. apply (ev_slt_irrefl a). apply Ha. exact Hx.
    + destruct (proj2 (Hin x) (or_intror Hx)) as [E|H]; [|exact H]. subst x. exfalso. apply (ev_slt_irrefl a). apply Hb. exact Hx.
Qed.

Lemma SS_remove_mid {T} (R : T -> T -> Prop) a x b : StronglySorted R (a ++ x :: b) -> StronglySorted R (a ++ b).
Proof.
  induction a as [|y a IH]; simpl; intro H; inversion H as [|? ? H' Hall]; subst; [exact H'|].
  constructor; [apply IH; exact H'|]. rewrite Forall_forall in *. intros z Hz. apply Hall. apply in_app_or in Hz as [Hz|Hz]; apply in_or_app; [left|right; right]; exact Hz.
Qed.

Section Redundant.
Variables (td td' : tdata) (b0 v0 : Q) (pre post : list (Q * Q)) (x v : Q).
Hypothesis D : dom td.
Hypothesis D' : dom td'.
Hypothesis Hbpm : td_bpms td = (b0, v0) :: pre ++ post.
Hypothesis Hbpm' : td_bpms td' = (b0, v0) :: pre ++ (x, v) :: post.
Hypothesis Hb0 : b0 == 0.
Hypothesis Hsame : td_stops td' = td_stops td /\ td_delays td' = td_delays td /\ td_warps td' = td_warps td /\ td_offset td' = td_offset td.
Hypothesis Hv : bpm_in_force td x v.       (* the inserted row repeats the BPM already in force there *)

Let e := mkev tBPM (x, v).
Let es := events td.
Let es' := events td'.

Lemma init_same : init_state td' v0 = init_state td v0.
Proof. unfold init_state. destruct Hsame as (_ & _ & _ & ->). reflexivity. Qed.

Lemma in_events' y : In y es' <-> y = e \/ In y es.
Proof.
  unfold es', es. rewrite (rows_in_events td' b0 v0 _ Hbpm' y), (rows_in_events td b0 v0 _ Hbpm y).
  destruct Hsame as (-> & -> & -> & _).
  assert (H1 : In y (tagged tBPM (pre ++ (x, v) :: post)) <-> y = e \/ In y (tagged tBPM (pre ++ post))).
  { unfold tagged. rewrite !map_app. cbn [map]. rewrite !in_app_iff. cbn [In]. unfold e, mkev. cbn [fst snd].
    split; [intros [H|[H|H]]; [right; left; exact H|left; symmetry; exact H|right; right; exact H]|
            intros [H|[H|H]]; [right; left; symmetry; exact H|left; exact H|right; right; exact H]]. }
  rewrite H1. tauto.
Qed.

Lemma x_not_in_td : ~ In e es.
Proof.
  intro H0. assert (H : In e (tagged tBPM (pre ++ post))) by (apply (in_tagged_of_tag td b0 v0 _ Hbpm e tBPM (pre ++ post) H0); [reflexivity|tauto]).
  apply tagged_In' in H as (r & Hr & E). unfold e, mkev in E. inversion E as [[E1 E2]]. destruct r as [rb rv]. simpl in *. subst rb rv.
  (* (x, v) would occur twice in the strictly increasing rows of td' *)
  pose proof (dom_bpms td' D') as S. rewrite Hbpm' in S. inversion S as [|? ? S' _]; subst.
  apply SS_app_inv in S' as (_ & B & C). inversion B as [|? ? _ Hall]; subst. rewrite Forall_forall in Hall.
  apply in_app_or in Hr as [Hr|Hr].
  - specialize (C (x, v) (x, v) Hr (or_introl eq_refl)). simpl in C. lra.
  - specialize (Hall _ Hr). simpl in Hall. lra.
Qed.

(* the events of td' are the events of td with e inserted *)
Lemma events_insert : exists A R, es = A ++ R /\ es' = A ++ e :: R.
Proof.
  assert (He : In e es') by (apply in_events'; left; reflexivity).
  apply in_split in He as (A & R & E'). exists A, R. split; [|exact E'].
  pose proof (events_strict td' D') as S'. fold es' in S'. rewrite E' in S'.
  apply strict_unique; [apply events_strict; exact D|apply (SS_remove_mid _ _ _ _ S')|].
  pose proof (SS_app_inv _ _ _ S') as (_ & B & C). inversion B as [|? ? _ Hall]; subst. rewrite Forall_forall in Hall.
  intro y. split; intro Hy.
  - assert (Hy' : In y es') by (apply in_events'; right; exact Hy). rewrite E' in Hy'.
    apply in_app_or in Hy' as [H|[H|H]]; [apply in_or_app; left; exact H| |apply in_or_app; right; exact H].
    subst y. exfalso. exact (x_not_in_td Hy).
  - assert (Hy' : In y es') by (rewrite E'; apply in_app_or in Hy as [H|H]; apply in_or_app; [left|right; right]; exact H).
    apply in_events' in Hy' as [->|H]; [|exact H]. exfalso.
    apply in_app_or in Hy as [H|H].
    + apply (ev_slt_irrefl e). apply C; [exact H|left; reflexivity].
    + apply (ev_slt_irrefl e). apply Hall. exact H.
Qed.

Definition St0 := St td v0.
Definition St1 := St td' v0.

Lemma St1_prefix A : St1 A = St0 A.
Proof. unfold St1, St0, St. rewrite init_same. reflexivity. Qed.

(* after the inserted event and one more event, the two machines are in the very same state *)
Lemma resync A R e2 : es = A ++ e2 :: R -> es' = A ++ e :: e2 :: R -> s_bpm (St0 A) = v ->
  St1 (A ++ [e; e2]) = St0 (A ++ [e2]).
Proof.
  intros E E' Hbv.
  replace (A ++ [e; e2]) with ((A ++ [e]) ++ [e2]) by (rewrite <- app_assoc; reflexivity).
  unfold St1, St0. rewrite !St_last. fold (St1 A). rewrite St1_prefix. set (s := St0 A).
  assert (Hend : is_end_tag (e_tag e2) = false).
  { destruct (is_end_tag (e_tag e2)) eqn:T; [|reflexivity]. exfalso.
    assert (E2 : events td' = (A ++ [e]) ++ e2 :: R) by (fold es'; rewrite E', <- app_assoc; reflexivity).
    destruct (end_before td' b0 v0 _ D' Hbpm' (A ++ [e]) e2 R E2 T) as (P' & q & EP & Hp & _).
    apply app_inj_tail in EP as [_ <-]. discriminate Hp. }
  unfold advance. cbn [s_beat s_val s_tag s_time s_bpm s_warp e_beat e_val e_tag e mkev fst snd].
  change (tBPM =? tBPM)%Z with true. change (tBPM =? tWARP)%Z with false. change (tBPM =? tWARP_END)%Z with false. cbv iota.
  f_equal.
  - (* times *)
    apply Qred_complete. fold s. set (t1 := time_until s x tBPM). rewrite !tu_eq. unfold state_rate. cbn [s_beat s_tag s_val s_warp s_bpm].
    rewrite Qred_correct. unfold t1. rewrite tu_eq. unfold state_rate.
    rewrite Hend, ?andb_false_r. rewrite <- Hbv. change (is_end_tag tBPM) with false. rewrite ?andb_false_r. change (is_pause_tag tBPM) with false. cbn [andb]. change (St td v0 A) with s. change (St0 A) with s. destruct (s_warp s); ring.
  - rewrite <- Hbv. fold s. destruct (e_tag e2 =? tBPM)%Z; reflexivity.
Qed.

Lemma bpm_before_insert A R : es = A ++ R -> es' = A ++ e :: R -> 0 <= x -> s_bpm (St0 A) = v.
Proof.
  intros E E' Hx. pose proof (events_strict td' D') as S'. fold es' in S'. rewrite E' in S'.
  pose proof (SS_app_inv _ _ _ S') as (_ & B & C). inversion B as [|? ? _ Hall]; subst. rewrite Forall_forall in Hall.
  apply (bpm_in_force_unique td D x); [|exact Hv]. unfold St0.
  apply (bpm_at_cut td b0 v0 _ D Hbpm Hb0 A R x E Hx).
  - intros y Hy _. specialize (C y e Hy (or_introl eq_refl)). apply ev_slt_ge, ev_ge_beat in C. exact C.
  - intros y Hy Ht. specialize (Hall y Hy). unfold ev_slt in Hall. apply ev_lt_spec in Hall. rewrite Ht in Hall. simpl in Hall.
    destruct Hall as [L|[_ L]]; [exact L|lia].
Qed.

Lemma x_nonneg : 0 <= x.
Proof.
  pose proof (dom_nonneg td' D') as N. rewrite Forall_app in N. destruct N as [N _]. rewrite Hbpm' in N.
  rewrite Forall_forall in N. specialize (N (x, v)). simpl in N. apply N. right. apply in_or_app. right. left. reflexivity.
Qed.

(* cuts of the two event lists at the same key *)
Theorem redundant_bpm b tag : 0 <= b -> (2 <= tag)%Z ->
  time_at (sts td' v0) (init_state td' v0) b tag == time_at (sts td v0) (init_state td v0) b tag.
Proof.
  intros Hb Ht.
  destruct events_insert as (A & R & E & E').
  destruct (time_at_cut td' b0 v0 _ D' Hbpm' b tag Hb Ht) as (P1 & R1 & C1 & HP1 & HR1 & T1). fold es' in C1.
  destruct (time_at_cut td b0 v0 _ D Hbpm b tag Hb Ht) as (P0 & R0 & C0 & HP0 & HR0 & T0). fold es in C0.
  rewrite T1, T0. fold (St1 P1). fold (St0 P0).
  assert (Hbv : s_bpm (St0 A) = v) by (apply (bpm_before_insert A R E E' x_nonneg)).
  assert (Hcutuniq : forall (l Pa Ra Pb Rb : list ev), l = Pa ++ Ra -> l = Pb ++ Rb ->
            (forall p, In p Pa -> kle_ev p b tag) -> (forall r, In r Ra -> klt_ev b tag r) ->
            (forall p, In p Pb -> kle_ev p b tag) -> (forall r, In r Rb -> klt_ev b tag r) -> Pa = Pb).
  { intros l Pa Ra Pb Rb Ea Eb HPa HRa HPb HRb. assert (E12 : Pa ++ Ra = Pb ++ Rb) by congruence.
    apply app_eq_app in E12 as [m [[X Y]|[X Y]]]; (destruct m as [|z m]; [rewrite app_nil_r in X; congruence|exfalso]).
    - apply (kle_not_klt z b tag); [apply HPa; rewrite X; apply in_or_app; right; left; reflexivity|apply HRb; rewrite Y; left; reflexivity].
    - apply (kle_not_klt z b tag); [apply HPb; rewrite X; apply in_or_app; right; left; reflexivity|apply HRa; rewrite Y; left; reflexivity]. }
  assert (Hfold : forall X Y, St1 (X ++ Y) = fold_left advance Y (St1 X)) by (intros; unfold St1, St; apply fold_left_app).
  assert (Hfold0 : forall X Y, St0 (X ++ Y) = fold_left advance Y (St0 X)) by (intros; unfold St0, St; apply fold_left_app).
  destruct (Qlt_le_dec b x) as [Lbx|Lxb].
  - (* e comes after the key: the selected prefix does not contain it *)
    assert (He : klt_ev b tag e) by (left; exact Lbx).
    assert (E12 : P1 ++ R1 = A ++ e :: R) by congruence.
    apply app_eq_app in E12 as [m [[X Y]|[X Y]]].
    + destruct m as [|z m]; [rewrite app_nil_r in X; subst P1|].
      * cbn [app] in Y. assert (P0 = A); [|subst P0; rewrite St1_prefix; reflexivity].
        apply (Hcutuniq es P0 R0 A R); try assumption. intros r Hr. apply HR1. rewrite <- Y. right. exact Hr.
      * exfalso. cbn [app] in Y. inversion Y; subst z. apply (kle_not_klt e b tag); [apply HP1; rewrite X; apply in_or_app; right; left; reflexivity|exact He].
    + assert (P0 = P1); [|subst P0; rewrite St1_prefix; reflexivity].
      apply (Hcutuniq es P0 R0 P1 (m ++ R)); try assumption.
      * rewrite E, X, <- app_assoc. reflexivity.
      * intros r Hr. apply HR1. rewrite Y. apply in_app_or in Hr as [Hr|Hr]; apply in_or_app; [left|right; right]; exact Hr.
  - (* e is at or before the key: the selected prefix of td' is that of td with e inserted *)
    assert (He : kle_ev e b tag).
    { unfold kle_ev, e, mkev. cbn [e_beat e_tag fst]. destruct (Qeq_dec x b) as [Q|Q]; [right; split; [exact Q|unfold tBPM; lia]|left; lra]. }
    assert (E12 : P1 ++ R1 = A ++ e :: R) by congruence.
    apply app_eq_app in E12 as [m [[X Y]|[X Y]]].
    + (* P1 = A ++ m, e :: R = m ++ R1 *)
      destruct m as [|z B].
      * exfalso. cbn [app] in Y. apply (kle_not_klt e b tag He). apply HR1. rewrite <- Y. left. reflexivity.
      * cbn [app] in Y. inversion Y as [[Ez ER]]. subst z. subst P1.
        assert (EP0 : P0 = A ++ B).
        { apply (Hcutuniq es P0 R0 (A ++ B) R1); try assumption.
          - rewrite E, ER, <- app_assoc. reflexivity.
          - intros p Hp. apply HP1. apply in_app_or in Hp as [Hp|Hp]; apply in_or_app; [left|right; right]; exact Hp. }
        subst P0. destruct B as [|e2 B'].
        -- (* nothing after e in the prefix *)
           rewrite app_nil_r. unfold St1. rewrite St_last. fold (St1 A). rewrite St1_prefix. set (s := St0 A) in *.
           unfold Ecut, advance, state_rate. cbn [s_time s_beat s_bpm s_warp e_beat e_tag e_val e mkev fst snd].
           change (tBPM =? tBPM)%Z with true. change (tBPM =? tWARP)%Z with false. change (tBPM =? tWARP_END)%Z with false. cbv iota.
           rewrite Qred_correct, tu_eq. unfold state_rate. change (is_end_tag tBPM) with false. rewrite andb_false_r. rewrite <- Hbv. fold s. ring.
        -- replace (A ++ e :: e2 :: B') with ((A ++ [e; e2]) ++ B') by (rewrite <- app_assoc; reflexivity).
           replace (A ++ e2 :: B') with ((A ++ [e2]) ++ B') by (rewrite <- app_assoc; reflexivity).
           rewrite Hfold, Hfold0. rewrite (resync A (B' ++ R1) e2); [reflexivity| | |exact Hbv].
           ++ rewrite E, ER. reflexivity.
           ++ rewrite E', ER. reflexivity.
    + (* A = P1 ++ m, so e is not in P1: impossible *)
      exfalso. apply (kle_not_klt e b tag He). apply HR1. rewrite Y. apply in_or_app. right. left. reflexivity.
Qed.
End Redundant.
