(* GroupRefine: the joining machine of group_notes refines its declarative specification.
   Ported from the design-time spike to the real note type. *)
From Coq Require Import List Arith ZArith NArith Bool Lia.
From SV Require Import Sx Str Notes Group.
Import ListNotations.
Local Open Scope nat_scope.

Lemma optZ_eqb_eq a b : optZ_eqb a b = true <-> a = b.
Proof.
  destruct a, b; simpl; split; try congruence; try discriminate.
  - intro H. apply Z.eqb_eq in H. congruence.
  - intro H. inversion H. apply Z.eqb_refl.
Qed.
Lemma note_eqb_eq a b : note_eqb a b = true <-> a = b.
Proof.
  unfold note_eqb. rewrite !andb_true_iff, !Z.eqb_eq, N.eqb_eq, optZ_eqb_eq.
  destruct a, b; simpl; split.
  - intros [[[[[? ?] ?] ?] ?] ?]; subst; reflexivity.
  - intros H; inversion H; repeat split; reflexivity.
Qed.
Lemma note_eqb_refl a : note_eqb a a = true. Proof. apply note_eqb_eq; reflexivity. Qed.

Definition pos (n : note) := (beat n, col n).
Definition plain_notes (b : list item) : list note :=
  flat_map (fun i => match i with Plain n => [n] | Joined _ _ => [] end) b.

Definition resolve (ph : policy) (hs : list (nat * note)) (r : list note) (b : list item) : list item :=
  flat_map (fun i => match i with
                     | Plain n => if is_held hs i then fate ph r n else [i]
                     | _ => [i] end) b.

Lemma resolve_cons ph hs r i b : resolve ph hs r (i :: b) =
  (match i with Plain n => if is_held hs i then fate ph r n else [i] | _ => [i] end) ++ resolve ph hs r b.
Proof. reflexivity. Qed.
Lemma resolve_app ph hs r a b : resolve ph hs r (a ++ b) = resolve ph hs r a ++ resolve ph hs r b.
Proof. unfold resolve. apply flat_map_app. Qed.

Lemma is_held_in hs n : is_held hs (Plain n) = true <-> exists c, In (c, n) hs.
Proof.
  unfold is_held. rewrite existsb_exists. split.
  - intros [[c h] [Hin He]]. simpl in He. apply note_eqb_eq in He. subst. eauto.
  - intros [c Hin]. exists (c, n). split; auto. simpl. apply note_eqb_refl.
Qed.

Lemma resolve_none ph hs r b :
  (forall i, In i b -> is_held hs i = false) -> resolve ph hs r b = b.
Proof.
  induction b as [|i b IH]; intros H; [reflexivity|].
  unfold resolve in *. cbn [flat_map]. rewrite IH by (intros; apply H; right; auto).
  destruct i; [|reflexivity]. rewrite (H (Plain n)) by (left; auto). reflexivity.
Qed.

(* flush_until only moves non-held items from buf to out *)
Lemma flush_until_spec hs : forall b o b' o',
  flush_until hs b o = Some (b', o') ->
  exists pre, b = pre ++ b' /\ o' = rev pre ++ o /\ (forall i, In i pre -> is_held hs i = false)
              /\ (exists i rest, b' = i :: rest /\ is_held hs i = true).
Proof.
  induction b as [|i b IH]; intros o b' o' H; [discriminate|].
  cbn [flush_until] in H. destruct (is_held hs i) eqn:E.
  - inversion H; subst. exists []. repeat split; auto; [intros ? []|eauto].
  - apply IH in H as (pre & -> & -> & Hpre & Hex). exists (i :: pre). repeat split; auto.
    + simpl. rewrite <- app_assoc. reflexivity.
    + intros j [<-|Hj]; auto.
Qed.

Lemma flush_until_some hs : forall b o,
  (exists i, In i b /\ is_held hs i = true) -> exists r, flush_until hs b o = Some r.
Proof.
  induction b as [|i b IH]; intros o [j [Hin Hj]]; [destruct Hin|].
  cbn [flush_until]. destruct (is_held hs i) eqn:E; [eauto|].
  destruct Hin as [<-|Hin]; [congruence|]. apply IH. eauto.
Qed.

(* ---- association-list facts ---- *)
Lemma lookup_in c hs h : lookup c hs = Some h -> In (c, h) hs.
Proof.
  induction hs as [|[c' n] hs IH]; simpl; [discriminate|].
  destruct (c' =? c) eqn:E; [apply Nat.eqb_eq in E; intros H; inversion H; subst; auto | auto].
Qed.
Lemma in_lookup c hs h : NoDup (map fst hs) -> In (c, h) hs -> lookup c hs = Some h.
Proof.
  induction hs as [|[c' n] hs IH]; simpl; intros Hnd Hin; [destruct Hin|].
  inversion Hnd as [|? ? Hni Hnd']; subst.
  destruct Hin as [H|H].
  - inversion H; subst. rewrite Nat.eqb_refl. reflexivity.
  - destruct (c' =? c) eqn:E; [|auto]. apply Nat.eqb_eq in E; subst.
    exfalso. apply Hni. apply in_map_iff. exists (c, h); auto.
Qed.
Lemma lookup_none_notin c hs : lookup c hs = None -> forall h, ~ In (c, h) hs.
Proof.
  induction hs as [|[c' n] hs IH]; simpl; intros H h Hin; [auto|].
  destruct (c' =? c) eqn:E; [discriminate|]. destruct Hin as [Hin|Hin]; [|eapply IH; eauto].
  inversion Hin; subst. rewrite Nat.eqb_refl in E. discriminate.
Qed.
Lemma remove_col_in c hs : NoDup (map fst hs) ->
  forall c' h, In (c', h) (remove_col c hs) <-> In (c', h) hs /\ c' <> c.
Proof.
  induction hs as [|[c0 n] hs IH]; simpl; intros Hnd c' h; [tauto|].
  inversion Hnd as [|? ? Hni Hnd']; subst.
  destruct (c0 =? c) eqn:E.
  - apply Nat.eqb_eq in E; subst. split.
    + intros Hin. split; auto. intros ->. apply Hni. apply in_map_iff. exists (c, h); auto.
    + intros [[H|H] Hne]; [inversion H; subst; congruence|auto].
  - apply Nat.eqb_neq in E. simpl. rewrite IH by auto. split.
    + intros [H|[H Hne]]; [inversion H; subst; auto|auto].
    + intros [[H|H] Hne]; auto.
Qed.
Lemma remove_col_nodup c hs : NoDup (map fst hs) -> NoDup (map fst (remove_col c hs)).
Proof.
  induction hs as [|[c0 n] hs IH]; simpl; intros Hnd; [constructor|].
  inversion Hnd as [|? ? Hni Hnd']; subst.
  destruct (c0 =? c); [auto|]. simpl. constructor; auto.
  intros Hin. apply in_map_iff in Hin as [[c1 h1] [Heq Hin]]. simpl in Heq; subst.
  apply remove_col_in in Hin; auto. apply Hni. apply in_map_iff. exists (c0, h1). tauto.
Qed.
Lemma remove_col_none c hs : lookup c hs = None -> remove_col c hs = hs.
Proof.
  induction hs as [|[c0 n] hs IH]; simpl; [auto|].
  destruct (c0 =? c); [discriminate|]. intros H. rewrite IH; auto.
Qed.

(* ---- replace_first / remove_first ---- *)
Lemma replace_first_spec h new : forall b, In (Plain h) b ->
  exists pre post, b = pre ++ Plain h :: post /\ ~ In (Plain h) pre /\
                   replace_first h new b = Some (pre ++ new :: post).
Proof.
  induction b as [|i b IH]; intros Hin; [destruct Hin|].
  cbn [replace_first]. destruct (item_is h i) eqn:E.
  - destruct i; [|discriminate]. simpl in E. apply note_eqb_eq in E. subst.
    exists [], b. auto.
  - destruct Hin as [->|Hin]; [simpl in E; rewrite note_eqb_refl in E; discriminate|].
    destruct (IH Hin) as (pre & post & -> & Hn & ->). exists (i :: pre), post. repeat split; auto.
    intros [->|H]; [simpl in E; rewrite note_eqb_refl in E; discriminate|auto].
Qed.
Lemma remove_first_spec h : forall b, In (Plain h) b ->
  exists pre post, b = pre ++ Plain h :: post /\ ~ In (Plain h) pre /\
                   remove_first h b = Some (pre ++ post).
Proof.
  induction b as [|i b IH]; intros Hin; [destruct Hin|].
  cbn [remove_first]. destruct (item_is h i) eqn:E.
  - destruct i; [|discriminate]. simpl in E. apply note_eqb_eq in E. subst.
    exists [], b. auto.
  - destruct Hin as [->|Hin]; [simpl in E; rewrite note_eqb_refl in E; discriminate|].
    destruct (IH Hin) as (pre & post & -> & Hn & ->). exists (i :: pre), post. repeat split; auto.
    intros [->|H]; [simpl in E; rewrite note_eqb_refl in E; discriminate|auto].
Qed.

(* ---- fate and the next note ---- *)
Lemma fate_same ph x r h : col x = col h ->
  fate ph (x :: r) h = if is_tail (ty x) then [Joined h (beat x)] else orphan_item ph h.
Proof. intros E. unfold fate. simpl. rewrite E, Nat.eqb_refl. reflexivity. Qed.
Lemma fate_other ph x r h : col x <> col h -> fate ph (x :: r) h = fate ph r h.
Proof. intros E. unfold fate. simpl. apply Nat.eqb_neq in E. rewrite E. reflexivity. Qed.

(* resolve only looks at the next note of held columns *)
Lemma resolve_skip ph hs x r b :
  (forall n, In (Plain n) b -> is_held hs (Plain n) = true -> col x <> col n) ->
  resolve ph hs (x :: r) b = resolve ph hs r b.
Proof.
  induction b as [|i b IH]; intros H; [reflexivity|].
  unfold resolve in *. cbn [flat_map]. rewrite IH by (intros; eapply H; eauto; right; auto).
  destruct i as [n|]; [|reflexivity].
  destruct (is_held hs (Plain n)) eqn:E; [|reflexivity].
  rewrite fate_other; auto. apply H; auto. left; auto.
Qed.
(* resolve depends on the held set only through membership *)
Lemma resolve_ext ph hs hs' r b :
  (forall n, In (Plain n) b -> is_held hs (Plain n) = is_held hs' (Plain n)) ->
  resolve ph hs r b = resolve ph hs' r b.
Proof.
  induction b as [|i b IH]; intros H; [reflexivity|].
  unfold resolve in *. cbn [flat_map]. rewrite IH by (intros; apply H; right; auto).
  destruct i as [n|]; [|reflexivity]. rewrite (H n) by (left; auto). reflexivity.
Qed.

(* ---- the invariant and the value of a state ---- *)
Record Inv (s : st) (r : list note) : Prop := {
  inv_nd : NoDup (map fst (held s));
  inv_held : forall c h, In (c, h) (held s) -> col h = c /\ is_head (ty h) = true /\ In (Plain h) (buf s);
  inv_fresh : NoDup (plain_notes (buf s) ++ r)
}.
Definition val (ph : policy) (s : st) (r : list note) : list item :=
  rev (out s) ++ resolve ph (held s) r (buf s).

Lemma plain_notes_app a b : plain_notes (a ++ b) = plain_notes a ++ plain_notes b.
Proof. unfold plain_notes. apply flat_map_app. Qed.
Lemma in_plain_notes n b : In n (plain_notes b) <-> In (Plain n) b.
Proof.
  unfold plain_notes. rewrite in_flat_map. split.
  - intros [[m|] [Hin H]]; simpl in H; [destruct H as [<-|[]]; auto|destruct H].
  - intros H. exists (Plain n). split; simpl; auto.
Qed.

Lemma flush_step_ok s :
  (forall c h, In (c, h) (held s) -> In (Plain h) (buf s)) ->
  exists pre b', flush_step s = SOk {| held := held s; buf := b'; out := rev pre ++ out s |}
                 /\ buf s = pre ++ b' /\ (forall i, In i pre -> is_held (held s) i = false).
Proof.
  intros H. unfold flush_step. destruct (held s) as [|[c0 h0] hs] eqn:E.
  - exists (buf s), []. rewrite rev_append_rev, app_nil_r. repeat split; auto.
  - destruct (flush_until_some ((c0, h0) :: hs) (buf s) (out s)) as [[b' o'] Hf].
    { exists (Plain h0). split; [apply (H c0); left; auto|]. apply is_held_in. exists c0. left; auto. }
    rewrite Hf. apply flush_until_spec in Hf as (pre & Hb & -> & Hpre & _).
    exists pre, b'. auto.
Qed.

Lemma val_flush ph hs r o pre b' :
  (forall i, In i pre -> is_held hs i = false) ->
  rev (rev pre ++ o) ++ resolve ph hs r b' = rev o ++ resolve ph hs r (pre ++ b').
Proof.
  intros H. rewrite rev_app_distr, rev_involutive, resolve_app, (resolve_none ph hs r pre H).
  rewrite <- app_assoc. reflexivity.
Qed.

Lemma resolve_close ph hs x r h b :
  NoDup (map fst hs) -> (forall c n, In (c, n) hs -> col n = c) ->
  lookup (col x) hs = Some h -> ~ In (Plain h) b ->
  resolve ph hs (x :: r) b = resolve ph (remove_col (col x) hs) r b.
Proof.
  intros Hnd Hcol Hl Hni.
  induction b as [|i b IH]; [reflexivity|].
  unfold resolve in *. cbn [flat_map].
  rewrite IH by (intros H; apply Hni; right; auto).
  destruct i as [n|]; [|reflexivity].
  assert (Hne : n <> h) by (intros ->; apply Hni; left; auto).
  destruct (is_held hs (Plain n)) eqn:E.
  - apply is_held_in in E as [c Hin].
    assert (Hc : c <> col x).
    { intros ->. apply (in_lookup _ _ _ Hnd) in Hin. congruence. }
    assert (E' : is_held (remove_col (col x) hs) (Plain n) = true).
    { apply is_held_in. exists c. apply remove_col_in; auto. }
    rewrite E'. rewrite fate_other; auto. rewrite (Hcol _ _ Hin). auto.
  - destruct (is_held (remove_col (col x) hs) (Plain n)) eqn:E'; [|reflexivity].
    apply is_held_in in E' as [c Hin]. apply remove_col_in in Hin as [Hin _]; auto.
    assert (is_held hs (Plain n) = true) by (apply is_held_in; eauto). congruence.
Qed.

Lemma resolve_open ph hs x r b :
  (forall c n, In (c, n) hs -> col n = c) -> lookup (col x) hs = None ->
  resolve ph hs (x :: r) b = resolve ph hs r b.
Proof.
  intros Hcol Hl. apply resolve_skip. intros n _ Hh Heq.
  apply is_held_in in Hh as [c Hin]. pose proof (Hcol _ _ Hin) as Hc. subst c.
  rewrite <- Heq in Hin. eapply lookup_none_notin; eauto.
Qed.

Lemma nodup_app_l {A} (a b : list A) : NoDup (a ++ b) -> NoDup b.
Proof. induction a; simpl; auto. intros H. inversion H; auto. Qed.
Lemma nodup_mid {A} (a : list A) x b : NoDup (a ++ x :: b) -> ~ In x a /\ ~ In x b /\ NoDup (a ++ b).
Proof.
  intros H. pose proof (NoDup_remove_1 _ _ _ H). pose proof (NoDup_remove_2 _ _ _ H) as Hn.
  repeat split; auto; intros Hin; apply Hn; apply in_or_app; auto.
Qed.

Definition close (ph pt : policy) (s : st) (x : note) : step_res :=
  if (match lookup (col x) (held s) with Some _ => true | None => false end) || is_tail (ty x)
  then let mh := lookup (col x) (held s) in
       let s0 := {| held := remove_col (col x) (held s); buf := buf s; out := out s |} in
       match join ph pt mh (Some x) s0 with SOk s1 => flush_step s1 | e => e end
  else SOk s.

Lemma step_close ph pt s x :
  step ph pt s x =
  match close ph pt s x with
  | SOk s1 =>
      let s2 := if is_head (ty x) then {| held := held s1 ++ [(col x, x)]; buf := buf s1; out := out s1 |} else s1 in
      SOk (if is_tail (ty x) then s2 else maybe_buffer x s2)
  | e => e
  end.
Proof.
  unfold step, close.
  destruct ((match lookup (col x) (held s) with Some _ => true | None => false end) || is_tail (ty x)); [|reflexivity].
  match goal with |- context [join ?a ?b ?c ?d ?e] => destruct (join a b c d e) end; try reflexivity.
  match goal with |- context [flush_step ?a] => destruct (flush_step a) end; reflexivity.
Qed.

Lemma held_sub_in hs x buf0 pre post h new :
  NoDup (map fst hs) -> (forall c n, In (c, n) hs -> col n = c /\ is_head (ty n) = true /\ In (Plain n) buf0) ->
  lookup (col x) hs = Some h -> buf0 = pre ++ Plain h :: post ->
  forall c n, In (c, n) (remove_col (col x) hs) -> In (Plain n) (pre ++ new ++ post).
Proof.
  intros Hnd Hh Hl -> c n Hin. apply remove_col_in in Hin as [Hin Hc]; auto.
  destruct (Hh _ _ Hin) as (Hcol & _ & Hb).
  assert (n <> h).
  { intros ->. apply lookup_in in Hl. destruct (Hh _ _ Hl) as (Hcol' & _ & _). congruence. }
  apply in_app_or in Hb as [Hb|[Hb|Hb]]; [| inversion Hb; congruence |];
    apply in_or_app; [left|right; apply in_or_app; right]; auto.
Qed.

Lemma close_ok ph pt s x r : Inv s (x :: r) ->
  match close ph pt s x with
  | SErr n => spec_err ph pt (held s) (x :: r) = Some n
  | SInternal => False
  | SOk s1 =>
      held s1 = remove_col (col x) (held s) /\
      (forall c h, In (c, h) (held s1) -> In (Plain h) (buf s1)) /\
      NoDup (plain_notes (buf s1) ++ (if is_tail (ty x) then r else x :: r)) /\
      spec_err ph pt (held s) (x :: r) = spec_err ph pt (opens (held s) x) r /\
      val ph s1 r = val ph s (x :: r) ++
         (if is_tail (ty x) then match lookup (col x) (held s) with Some _ => [] | None => orphan_item pt x end else [])
  end.
Proof.
  intros [Hnd Hh Hf]. unfold close.
  assert (Hcol : forall c n, In (c, n) (held s) -> col n = c) by (intros c n Hin; apply (Hh c n Hin)).
  destruct (lookup (col x) (held s)) as [h|] eqn:L; destruct (is_tail (ty x)) eqn:T; cbn [orb join].
  - (* closing tail *)
    rewrite T.
    pose proof (lookup_in _ _ _ L) as HinL. destruct (Hh _ _ HinL) as (Hch & Hhd & Hb).
    cbn [buf].
    destruct (replace_first_spec h (Joined h (beat x)) _ Hb) as (pre & post & Eb & Hnpre & ->).
    assert (Hnpost : ~ In (Plain h) post).
    { rewrite Eb, plain_notes_app in Hf. cbn [plain_notes flat_map app] in Hf.
      rewrite <- app_assoc in Hf. cbn [app] in Hf.
      apply nodup_mid in Hf as (_ & Hn & _). intros Hin. apply Hn. apply in_or_app. left.
      apply in_plain_notes. auto. }
    match goal with |- context [flush_step ?a] => destruct (flush_step_ok a) as (fp & b' & Hfl & Hbb & Hfp) end.
    { cbn [held buf]. intros c n Hin.
      apply (held_sub_in (held s) x (buf s) pre post h [Joined h (beat x)]) with (c := c); auto. }
    rewrite Hfl. cbn [held buf out] in *. repeat split.
    + intros c n Hin.
      assert (Hall : In (Plain n) (pre ++ Joined h (beat x) :: post))
        by (apply (held_sub_in (held s) x (buf s) pre post h [Joined h (beat x)]) with (c := c); auto).
      rewrite Hbb in Hall. apply in_app_or in Hall as [Hp|Hp]; auto.
      exfalso. assert (is_held (remove_col (col x) (held s)) (Plain n) = true) by (apply is_held_in; eauto).
      rewrite (Hfp _ Hp) in H. discriminate.
    + (* freshness *)
      assert (Hq : NoDup (plain_notes (pre ++ Joined h (beat x) :: post) ++ r)).
      { rewrite Eb, !plain_notes_app in Hf. cbn [plain_notes flat_map app] in Hf.
        rewrite plain_notes_app. cbn [plain_notes flat_map app].
        rewrite <- !app_assoc in *. cbn [app] in Hf.
        apply nodup_mid in Hf as (_ & _ & Hf). 
        replace (plain_notes post ++ x :: r) with ((plain_notes post) ++ x :: r) in Hf by reflexivity.
        rewrite app_assoc in Hf. apply nodup_mid in Hf as (_ & _ & Hf). rewrite <- app_assoc in Hf. exact Hf. }
      rewrite Hbb, plain_notes_app, <- app_assoc in Hq. apply nodup_app_l in Hq. exact Hq.
    + unfold opens. cbn [spec_err]. rewrite L, T. reflexivity.
    + unfold val. cbn [held buf out]. rewrite val_flush by auto. rewrite <- Hbb, app_nil_r. f_equal.
      rewrite Eb, !resolve_app, !resolve_cons.
      assert (Eh : is_held (held s) (Plain h) = true) by (apply is_held_in; eauto).
      rewrite Eh, fate_same, T by congruence.
      rewrite (resolve_close ph (held s) x r h pre), (resolve_close ph (held s) x r h post); auto.
  - (* a non-tail note interrupts an open head *)
    rewrite T.
    pose proof (lookup_in _ _ _ L) as HinL. destruct (Hh _ _ HinL) as (Hch & Hhd & Hb).
    unfold orphan_head. destruct ph.
    + cbn [spec_err]. rewrite L, T. reflexivity.
    + (* keep *)
      match goal with |- context [flush_step ?a] => destruct (flush_step_ok a) as (fp & b' & Hfl & Hbb & Hfp) end.
      { cbn [held buf]. intros c n Hin. apply remove_col_in in Hin as [Hin _]; auto. apply (Hh _ _ Hin). }
      rewrite Hfl. cbn [held buf out] in *. repeat split.
      * intros c n Hin. assert (Hall : In (Plain n) (buf s)) by (apply remove_col_in in Hin as [Hin _]; auto; apply (Hh _ _ Hin)).
        rewrite Hbb in Hall. apply in_app_or in Hall as [Hp|Hp]; auto.
        exfalso. assert (is_held (remove_col (col x) (held s)) (Plain n) = true) by (apply is_held_in; eauto).
        rewrite (Hfp _ Hp) in H. discriminate.
      * rewrite Hbb, plain_notes_app, <- app_assoc in Hf. apply nodup_app_l in Hf. exact Hf.
      * unfold opens. cbn [spec_err]. rewrite L, T. reflexivity.
      * unfold val. cbn [held buf out]. rewrite val_flush by auto. rewrite <- Hbb, app_nil_r. f_equal.
        destruct (in_split _ _ Hb) as (pre & post & Eb).
        assert (Hn : ~ In (Plain h) pre /\ ~ In (Plain h) post).
        { rewrite Eb, plain_notes_app in Hf. cbn [plain_notes flat_map app] in Hf.
          rewrite <- app_assoc in Hf. cbn [app] in Hf. apply nodup_mid in Hf as (H1 & H2 & _).
          split; intros Hin; [apply H1|apply H2; apply in_or_app; left]; apply in_plain_notes; auto. }
        destruct Hn as [Hnpre Hnpost].
        rewrite Eb, !resolve_app, !resolve_cons.
        assert (Eh : is_held (held s) (Plain h) = true) by (apply is_held_in; eauto).
        rewrite Eh, fate_same, T by congruence.
        assert (Eh' : is_held (remove_col (col x) (held s)) (Plain h) = false).
        { destruct (is_held (remove_col (col x) (held s)) (Plain h)) eqn:E; auto.
          apply is_held_in in E as [c Hin]. apply remove_col_in in Hin as [Hin Hc]; auto.
          destruct (Hh _ _ Hin) as (Hc' & _ & _). congruence. }
        rewrite Eh'. cbn [orphan_item].
        rewrite (resolve_close _ (held s) x r h pre), (resolve_close _ (held s) x r h post); auto.
    + (* drop the interrupted head *)
      cbn [buf].
      destruct (remove_first_spec h _ Hb) as (pre & post & Eb & Hnpre & ->).
      assert (Hnpost : ~ In (Plain h) post).
      { rewrite Eb, plain_notes_app in Hf. cbn [plain_notes flat_map app] in Hf.
        rewrite <- app_assoc in Hf. cbn [app] in Hf.
        apply nodup_mid in Hf as (_ & Hn & _). intros Hin. apply Hn. apply in_or_app. left.
        apply in_plain_notes. auto. }
      match goal with |- context [flush_step ?a] => destruct (flush_step_ok a) as (fp & b' & Hfl & Hbb & Hfp) end.
      { cbn [held buf]. intros c n Hin.
        apply (held_sub_in (held s) x (buf s) pre post h []) with (c := c); auto. }
      rewrite Hfl. cbn [held buf out] in *. repeat split.
      * intros c n Hin.
        assert (Hall : In (Plain n) (pre ++ post))
          by (apply (held_sub_in (held s) x (buf s) pre post h []) with (c := c); auto).
        rewrite Hbb in Hall. apply in_app_or in Hall as [Hp|Hp]; auto.
        exfalso. assert (is_held (remove_col (col x) (held s)) (Plain n) = true) by (apply is_held_in; eauto).
        rewrite (Hfp _ Hp) in H. discriminate.
      * assert (Hq : NoDup (plain_notes (pre ++ post) ++ x :: r)).
        { rewrite Eb, !plain_notes_app in Hf. cbn [plain_notes flat_map app] in Hf.
          rewrite plain_notes_app. rewrite <- !app_assoc in *. cbn [app] in Hf.
          apply nodup_mid in Hf as (_ & _ & Hf). exact Hf. }
        rewrite Hbb, plain_notes_app, <- app_assoc in Hq. apply nodup_app_l in Hq. exact Hq.
      * unfold opens. cbn [spec_err]. rewrite L, T. reflexivity.
      * unfold val. cbn [held buf out]. rewrite val_flush by auto. rewrite <- Hbb, app_nil_r. f_equal.
        rewrite Eb, !resolve_app, !resolve_cons.
        assert (Eh : is_held (held s) (Plain h) = true) by (apply is_held_in; eauto).
        rewrite Eh, fate_same, T by congruence. cbn [orphan_item app].
        rewrite (resolve_close _ (held s) x r h pre), (resolve_close _ (held s) x r h post); auto.
  - (* a tail with no open head *)
    rewrite (remove_col_none _ _ L).
    assert (Hskip : forall b, resolve ph (held s) (x :: r) b = resolve ph (held s) r b)
      by (intros b; apply resolve_open; auto).
    destruct pt.
    + cbn [spec_err]. rewrite L, T. reflexivity.
    + (* keep the orphan tail *)
      match goal with |- context [flush_step ?a] => destruct (flush_step_ok a) as (fp & b' & Hfl & Hbb & Hfp) end.
      { cbn [held buf]. intros c n Hin. apply in_or_app. left. apply (Hh _ _ Hin). }
      rewrite Hfl. cbn [held buf out] in *. repeat split.
      * intros c n Hin. assert (Hall : In (Plain n) (buf s ++ [Plain x])) by (apply in_or_app; left; apply (Hh _ _ Hin)).
        rewrite Hbb in Hall. apply in_app_or in Hall as [Hp|Hp]; auto.
        exfalso. assert (is_held (held s) (Plain n) = true) by (apply is_held_in; eauto).
        rewrite (Hfp _ Hp) in H. discriminate.
      * assert (Hq : NoDup (plain_notes (buf s ++ [Plain x]) ++ r)).
        { rewrite plain_notes_app, <- app_assoc. exact Hf. }
        rewrite Hbb, plain_notes_app, <- app_assoc in Hq. apply nodup_app_l in Hq. exact Hq.
      * unfold opens. rewrite (remove_col_none _ _ L). cbn [spec_err]. rewrite L, T.
        unfold opens. rewrite (remove_col_none _ _ L). reflexivity.
      * unfold val. cbn [held buf out]. rewrite val_flush by auto. rewrite <- Hbb.
        rewrite resolve_app, resolve_cons, Hskip, <- app_assoc. f_equal. f_equal.
        assert (Ex : is_held (held s) (Plain x) = false).
        { destruct (is_held (held s) (Plain x)) eqn:E; auto. apply is_held_in in E as [c Hin].
          destruct (Hh _ _ Hin) as (_ & Hhd & _). destruct (ty x); discriminate. }
        rewrite Ex. reflexivity.
    + (* drop the orphan tail *)
      match goal with |- context [flush_step ?a] => destruct (flush_step_ok a) as (fp & b' & Hfl & Hbb & Hfp) end.
      { cbn [held buf]. intros c n Hin. apply (Hh _ _ Hin). }
      rewrite Hfl. cbn [held buf out] in *. repeat split.
      * intros c n Hin. assert (Hall : In (Plain n) (buf s)) by (apply (Hh _ _ Hin)).
        rewrite Hbb in Hall. apply in_app_or in Hall as [Hp|Hp]; auto.
        exfalso. assert (is_held (held s) (Plain n) = true) by (apply is_held_in; eauto).
        rewrite (Hfp _ Hp) in H. discriminate.
      * assert (Hq : NoDup (plain_notes (buf s) ++ r)).
        { apply NoDup_remove_1 in Hf. exact Hf. }
        rewrite Hbb, plain_notes_app, <- app_assoc in Hq. apply nodup_app_l in Hq. exact Hq.
      * unfold opens. rewrite (remove_col_none _ _ L). cbn [spec_err]. rewrite L, T.
        unfold opens. rewrite (remove_col_none _ _ L). reflexivity.
      * unfold val. cbn [held buf out]. rewrite val_flush by auto. rewrite <- Hbb, Hskip, app_nil_r. reflexivity.
  - (* nothing to close *)
    repeat split.
    + symmetry. apply remove_col_none; auto.
    + intros c n Hin. apply (Hh _ _ Hin).
    + exact Hf.
    + cbn [spec_err]. rewrite L, T. reflexivity.
    + unfold val. rewrite app_nil_r. f_equal. symmetry. apply resolve_open; auto.
Qed.

Lemma remove_col_notin c hs : NoDup (map fst hs) -> ~ In c (map fst (remove_col c hs)).
Proof.
  intros Hnd Hin. apply in_map_iff in Hin as [[c' h] [E Hin]]. simpl in E; subst.
  apply remove_col_in in Hin as [_ Hne]; auto.
Qed.

Lemma nodup_snoc {A} (a : list A) c : NoDup a -> ~ In c a -> NoDup (a ++ [c]).
Proof.
  induction a as [|y a IH]; simpl; intros Hn Hc; [constructor; auto; constructor|].
  inversion Hn; subst. constructor.
  - intros Hin. apply in_app_or in Hin as [Hin|[<-|[]]]; auto.
  - apply IH; auto.
Qed.
Lemma head_not_tail t : is_head t = true -> is_tail t = false.
Proof. destruct t; simpl; congruence. Qed.

Lemma step_ok ph pt s x r : Inv s (x :: r) ->
  match step ph pt s x with
  | SErr n => spec_err ph pt (held s) (x :: r) = Some n
  | SInternal => False
  | SOk s' => Inv s' r /\ held s' = opens (held s) x /\
              spec_err ph pt (held s) (x :: r) = spec_err ph pt (held s') r /\
              val ph s (x :: r) ++ spec_items ph pt (held s) (x :: r) = val ph s' r ++ spec_items ph pt (held s') r
  end.
Proof.
  intros HI. rewrite step_close. pose proof (close_ok ph pt s x r HI) as HC.
  destruct HI as [Hnd Hh Hf].
  destruct (close ph pt s x) as [s1| |]; auto.
  destruct HC as (Hheld & Hin & Hnd' & Herr & Hval).
  assert (Hnd1 : NoDup (map fst (held s1))) by (rewrite Hheld; apply remove_col_nodup; auto).
  assert (Hh1 : forall c h, In (c, h) (held s1) -> col h = c /\ is_head (ty h) = true /\ In (Plain h) (buf s1)).
  { intros c h Hi. pose proof (Hin _ _ Hi). rewrite Hheld in Hi. apply remove_col_in in Hi as [Hi _]; auto.
    destruct (Hh _ _ Hi) as (? & ? & _). auto. }
  destruct (is_tail (ty x)) eqn:T.
  - (* tail: consumed by close *)
    assert (Hd : is_head (ty x) = false) by (destruct (ty x); simpl in *; congruence).
    rewrite Hd. cbv zeta.
    refine (conj (Build_Inv _ _ Hnd1 Hh1 Hnd') (conj _ (conj _ _))).
    + unfold opens. rewrite Hd. exact Hheld.
    + rewrite Herr. unfold opens. rewrite Hd, Hheld. reflexivity.
    + cbn [spec_items]. rewrite T. rewrite Hval, Hheld. unfold opens. rewrite Hd. rewrite <- !app_assoc. reflexivity.
  - (* not a tail: x itself is emitted or buffered *)
    destruct (is_head (ty x)) eqn:Hd; cbv zeta.
    + (* a new head: held is non-empty, x goes to the buffer *)
      unfold maybe_buffer. cbn [held buf out].
      destruct (held s1 ++ [(col x, x)]) as [|p hs] eqn:Eh; [destruct (held s1); discriminate|].
      rewrite <- Eh. clear Eh p hs.
      assert (Hxb : ~ In (Plain x) (buf s1)).
      { intros Hi. apply in_plain_notes in Hi. apply nodup_mid in Hnd' as (Hn & _). auto. }
      refine (conj (Build_Inv _ _ _ _ _) (conj _ (conj _ _))); cbn [held buf out].
      * rewrite map_app. cbn [map fst]. apply nodup_snoc; auto.
        rewrite Hheld. apply remove_col_notin; auto.
      * intros c h Hi. apply in_app_or in Hi as [Hi|[Hi|[]]].
        -- destruct (Hh1 _ _ Hi) as (? & ? & ?). repeat split; auto. apply in_or_app; auto.
        -- inversion Hi; subst. repeat split; auto. apply in_or_app. right. left. auto.
      * rewrite plain_notes_app, <- app_assoc. exact Hnd'.
      * unfold opens. rewrite Hd, Hheld. reflexivity.
      * rewrite Herr. unfold opens. rewrite Hd, Hheld. reflexivity.
      * cbn [spec_items]. rewrite T, Hd. unfold val. cbn [held buf out].
        rewrite resolve_app, resolve_cons.
        assert (Ex : is_held (held s1 ++ [(col x, x)]) (Plain x) = true)
          by (apply is_held_in; exists (col x); apply in_or_app; right; left; auto).
        rewrite Ex.
        rewrite (resolve_ext ph (held s1 ++ [(col x, x)]) (held s1) r (buf s1)).
        2:{ intros n Hn.
            destruct (is_held (held s1) (Plain n)) eqn:E1.
            - apply is_held_in in E1 as [c Hi]. apply is_held_in. exists c. apply in_or_app; auto.
            - destruct (is_held (held s1 ++ [(col x, x)]) (Plain n)) eqn:E2; auto.
              apply is_held_in in E2 as [c Hi]. apply in_app_or in Hi as [Hi|[Hi|[]]].
              + assert (is_held (held s1) (Plain n) = true) by (apply is_held_in; eauto). congruence.
              + inversion Hi; subst. contradiction. }
        unfold val in Hval. rewrite app_nil_r in Hval. rewrite <- Hval.
        unfold opens. rewrite Hd, Hheld. cbn [resolve flat_map]. rewrite app_nil_r.
        rewrite <- !app_assoc. reflexivity.
    + (* a plain note *)
      assert (Hxh : is_held (held s1) (Plain x) = false).
      { destruct (is_held (held s1) (Plain x)) eqn:E; auto. apply is_held_in in E as [c Hi].
        apply Hin in Hi. apply in_plain_notes in Hi. apply nodup_mid in Hnd' as (Hn & _). contradiction. }
      unfold maybe_buffer. destruct (held s1) as [|p hs] eqn:Eh.
      * refine (conj (Build_Inv _ _ _ _ _) (conj _ (conj _ _))); cbn [held buf out].
        -- constructor.
        -- intros c h [].
        -- apply nodup_app_l in Hnd'. inversion Hnd'; auto.
        -- unfold opens. rewrite Hd, <- Hheld. reflexivity.
        -- rewrite Herr. unfold opens. rewrite Hd, <- Hheld. reflexivity.
        -- cbn [spec_items]. rewrite T, Hd. unfold val in *. cbn [held buf out] in *.
           unfold opens. rewrite Hd, <- Hheld. cbn [rev]. rewrite rev_append_rev, rev_app_distr, rev_involutive.
           rewrite app_nil_r in Hval. rewrite <- Hval. rewrite Eh.
           rewrite (resolve_none ph [] r (buf s1)) by (intros; destruct i; reflexivity).
           cbn [resolve flat_map]. rewrite <- !app_assoc. reflexivity.
      * rewrite <- Eh in *. clear Eh p hs.
        refine (conj (Build_Inv _ _ _ _ _) (conj _ (conj _ _))); cbn [held buf out]; auto.
        -- intros c h Hi. destruct (Hh1 _ _ Hi) as (? & ? & ?). repeat split; auto. apply in_or_app; auto.
        -- rewrite plain_notes_app, <- app_assoc. exact Hnd'.
        -- unfold opens. rewrite Hd, Hheld. reflexivity.
        -- rewrite Herr. unfold opens. rewrite Hd, Hheld. reflexivity.
        -- cbn [spec_items]. rewrite T, Hd. unfold val in *. cbn [held buf out] in *.
           rewrite resolve_app, resolve_cons, Hxh. rewrite app_nil_r in Hval.
           unfold opens. rewrite Hd, <- Hheld. rewrite <- Hval. cbn [resolve flat_map].
           rewrite <- !app_assoc. reflexivity.
Qed.

(* ---- end of stream ---- *)
Lemma resolve_keep_nil ph hs b : ph <> Drop -> resolve ph hs [] b = b.
Proof.
  intros Hp. induction b as [|i b IH]; [reflexivity|]. rewrite resolve_cons, IH.
  destruct i as [n|]; [|reflexivity]. destruct (is_held hs (Plain n)); [|reflexivity].
  unfold fate. simpl. destruct ph; try reflexivity. congruence.
Qed.

Lemma is_held_joined hs h t : is_held hs (Joined h t) = false.
Proof. unfold is_held. induction hs as [|p hs IH]; simpl; auto. Qed.
Definition drop_held (hs : list (nat * note)) (b : list item) := filter (fun i => negb (is_held hs i)) b.
Lemma resolve_drop_nil hs b : resolve Drop hs [] b = drop_held hs b.
Proof.
  induction b as [|i b IH]; [reflexivity|]. rewrite resolve_cons, IH. unfold drop_held. cbn [filter].
  destruct i as [n|]; [|rewrite is_held_joined; reflexivity]. destruct (is_held hs (Plain n)); reflexivity.
Qed.

Lemma filter_all_id {A} (f : A -> bool) l : (forall x, In x l -> f x = true) -> filter f l = l.
Proof.
  induction l as [|x l IH]; intros H; simpl; auto.
  rewrite (H x) by (left; auto). rewrite IH; auto. intros; apply H; right; auto.
Qed.
Lemma filter_filter' {A} (f g : A -> bool) l : filter f (filter g l) = filter (fun x => g x && f x) l.
Proof. induction l as [|x l IH]; simpl; auto. destruct (g x); simpl; [destruct (f x)|]; rewrite ?IH; auto. Qed.
Lemma remove_first_filter h : forall b, NoDup (plain_notes b) -> In (Plain h) b ->
  remove_first h b = Some (filter (fun i => negb (item_is h i)) b).
Proof.
  induction b as [|i b IH]; intros Hnd Hin; [destruct Hin|].
  cbn [remove_first filter]. destruct (item_is h i) eqn:E; cbn [negb].
  - destruct i as [n|]; [|discriminate]. simpl in E. apply note_eqb_eq in E. subst n.
    f_equal. cbn [plain_notes flat_map app] in Hnd. inversion Hnd as [|? ? Hni _]; subst.
    symmetry. apply filter_all_id. intros j Hj.
    destruct j as [m|]; [|reflexivity]. simpl. destruct (note_eqb m h) eqn:E; [|reflexivity].
    apply note_eqb_eq in E. subst. exfalso. apply Hni. apply in_plain_notes. auto.
  - destruct Hin as [->|Hin]; [simpl in E; rewrite note_eqb_refl in E; discriminate|].
    assert (Hnd' : NoDup (plain_notes b)).
    { destruct i; cbn [plain_notes flat_map app] in Hnd; [inversion Hnd|]; auto. }
    rewrite IH; auto.
Qed.

Lemma cleanup_keep pt hs s : cleanup Keep pt hs s = SOk s.
Proof. revert s. induction hs as [|[c h] hs IH]; intros s; simpl; auto. Qed.

Lemma filter_plain_notes_nodup f b : NoDup (plain_notes b) -> NoDup (plain_notes (filter f b)).
Proof.
  induction b as [|i b IH]; simpl; intros H; [constructor|].
  destruct i as [n|]; cbn [plain_notes flat_map app] in *.
  - inversion H; subst. destruct (f (Plain n)); cbn [plain_notes flat_map app]; auto.
    constructor; auto. intros Hin. apply in_plain_notes in Hin. apply filter_In in Hin as [Hin _].
    apply H2. apply in_plain_notes. auto.
  - destruct (f (Joined h tail_beat)); cbn [plain_notes flat_map app]; auto.
Qed.

Lemma cleanup_drop pt : forall hs s,
  NoDup (map snd hs) -> NoDup (plain_notes (buf s)) ->
  (forall c h, In (c, h) hs -> In (Plain h) (buf s)) ->
  cleanup Drop pt hs s = SOk {| held := held s; buf := drop_held hs (buf s); out := out s |}.
Proof.
  induction hs as [|[c h] hs IH]; intros s Hnd Hb Hin.
  - simpl. unfold drop_held. simpl. rewrite filter_all_id by auto. destruct s; reflexivity.
  - cbn [cleanup join orphan_head]. rewrite remove_first_filter; auto; [|apply (Hin c); left; auto].
    inversion Hnd as [|? ? Hni Hnd']; subst. rewrite IH; cbn [held buf out]; auto.
    + f_equal. f_equal. unfold drop_held. rewrite filter_filter'. apply filter_ext. intros i.
      unfold is_held. cbn [existsb snd]. rewrite negb_orb. reflexivity.
    + apply filter_plain_notes_nodup; auto.
    + intros c' h' Hi. apply filter_In. split; [apply (Hin c'); right; auto|].
      simpl. destruct (note_eqb h' h) eqn:E; [|reflexivity]. apply note_eqb_eq in E. subst.
      exfalso. apply Hni. apply in_map_iff. exists (c', h). auto.
Qed.

Lemma held_notes_nodup hs : NoDup (map fst hs) -> (forall c h, In (c, h) hs -> col h = c) -> NoDup (map snd hs).
Proof.
  induction hs as [|[c h] hs IH]; simpl; intros Hnd Hc; [constructor|].
  inversion Hnd; subst. constructor; [|apply IH; auto].
  intros Hin. apply in_map_iff in Hin as [[c' h'] [E Hi]]. simpl in E; subst.
  apply H1. apply in_map_iff. exists (c', h). split; auto. simpl.
  rewrite <- (Hc c h) by auto. rewrite <- (Hc c' h) by auto. reflexivity.
Qed.

Lemma cleanup_ok ph pt s : Inv s [] ->
  match cleanup ph pt (held s) s with
  | SErr n => spec_err ph pt (held s) [] = Some n
  | SInternal => False
  | SOk s' => spec_err ph pt (held s) [] = None /\ rev (out s') ++ buf s' = val ph s []
  end.
Proof.
  intros [Hnd Hh Hf]. rewrite app_nil_r in Hf. destruct ph.
  - destruct (held s) as [|[c h] hs] eqn:E; simpl.
    + split; auto. unfold val. rewrite E. rewrite resolve_none by (intros; destruct i; reflexivity). reflexivity.
    + reflexivity.
  - rewrite cleanup_keep. split; [reflexivity|]. unfold val. rewrite resolve_keep_nil by congruence. reflexivity.
  - rewrite cleanup_drop; auto.
    + split; [reflexivity|]. unfold val. cbn [out buf]. rewrite resolve_drop_nil. reflexivity.
    + apply held_notes_nodup; auto. intros c h Hi. apply (Hh _ _ Hi).
    + intros c h Hi. apply (Hh _ _ Hi).
Qed.

(* ---- the refinement theorem ---- *)
Lemma run_ok ph pt : forall r s, Inv s r ->
  match run ph pt s r with
  | SErr n => spec_err ph pt (held s) r = Some n
  | SInternal => False
  | SOk s' => Inv s' [] /\ spec_err ph pt (held s) r = spec_err ph pt (held s') []
              /\ val ph s r ++ spec_items ph pt (held s) r = val ph s' []
  end.
Proof.
  induction r as [|x r IH]; intros s HI.
  - cbn [run spec_items]. split; [exact HI|split; [reflexivity|apply app_nil_r]].
  - cbn [run]. pose proof (step_ok ph pt s x r HI) as HS.
    destruct (step ph pt s x) as [s1| |]; auto.
    destruct HS as (HI1 & _ & He & Hv). specialize (IH s1 HI1).
    destruct (run ph pt s1 r) as [s2| |]; auto.
    + destruct IH as (HI2 & He2 & Hv2). split; [exact HI2|split].
      * rewrite He. exact He2.
      * rewrite Hv. exact Hv2.
    + rewrite He. exact IH.
Qed.

Theorem impl_refines_spec ph pt ns : NoDup ns -> impl ph pt ns = spec ph pt ns.
Proof.
  intros Hnd. unfold impl, spec.
  assert (HI : Inv {| held := []; buf := []; out := [] |} ns) by (constructor; simpl; auto; [constructor | intros ? ? []]).
  pose proof (run_ok ph pt ns _ HI) as HR. cbn [held] in HR.
  destruct (run ph pt _ ns) as [s1| |].
  - destruct HR as (HI1 & He & Hv). pose proof (cleanup_ok ph pt s1 HI1) as HC.
    destruct (cleanup ph pt (held s1) s1) as [s2| |].
    + destruct HC as (He2 & Hv2). rewrite He, He2. f_equal.
      rewrite rev_append_rev, Hv2, <- Hv. unfold val. reflexivity.
    + rewrite He, HC. reflexivity.
    + destruct HC.
  - rewrite HR. reflexivity.
  - destruct HR.
Qed.
Print Assumptions impl_refines_spec.
