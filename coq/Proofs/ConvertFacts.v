(* Facts about property copying and the two conversions (C16, C17). *)
From Coq Require Import List ZArith NArith Bool Lia.
From SV Require Import Sx Str Omap Beat Simfile TimingSrc Convert Generated.Tables.
Import ListNotations.
Open Scope Z_scope.

Section Copy.
Variables (inv : list (Z * list str)) (beh : list (Z * Z)).

(* the keys that end up copied, given what is allowed *)
Definition permitted (allowed : option (list str)) (key : str) : bool :=
  match allowed with Some ks => mem_str key ks | None => true end.

(* success: exactly the keys the policy copies are taken from the source, every other key keeps
   the template's value; the order is the template's, then new keys in source order *)
Lemma copy_props_get : forall allowed src out out', NoDupKeys src ->
  copy_props inv beh allowed src out = COk out' ->
  forall k,
    get k out' =
    match get k src with
    | Some v => match decide inv beh k v with DCopy => Some v | _ => get k out end
    | None => get k out
    end.
Proof.
  induction src as [|[key v] r IH]; intros out out' Hnd H k.
  - simpl in H. inversion H; subst. reflexivity.
  - unfold NoDupKeys in Hnd. simpl in Hnd. inversion Hnd as [|? ? Hni Hnd']; subst.
    assert (Hr : get key r = None).
    { destruct (get key r) eqn:G; [|reflexivity]. exfalso. apply Hni. apply has_In. unfold has. rewrite G. reflexivity. }
    cbn [copy_props] in H. cbn [get].
    destruct (decide inv beh key v) eqn:D; try discriminate.
    + assert (H' : copy_props inv beh allowed r (set key v out) = COk out').
      { destruct allowed as [ks|]; [destruct (mem_str key ks); [exact H|discriminate]|exact H]. }
      rewrite (IH _ _ Hnd' H' k). destruct (str_eqb k key) eqn:E.
      * apply str_eqb_eq in E. subst k. rewrite Hr, D, get_set_same. reflexivity.
      * apply str_eqb_neq in E. rewrite get_set_other by assumption. reflexivity.
    + rewrite (IH _ _ Hnd' H k). destruct (str_eqb k key) eqn:E; [|reflexivity].
      apply str_eqb_eq in E. subst k. rewrite Hr, D. reflexivity.
Qed.

(* the refusal names the first offending property, in source order *)
Lemma copy_props_invalid : forall allowed src out key,
  copy_props inv beh allowed src out = CInvalid key ->
  exists pre v post, src = pre ++ (key, v) :: post /\ decide inv beh key v = DError /\
    forall k' v', List.In (k', v') pre -> decide inv beh k' v' = DCopy \/ decide inv beh k' v' = DSkip.
Proof.
  induction src as [|[k0 v0] r IH]; intros out key H; [discriminate|].
  cbn [copy_props] in H. destruct (decide inv beh k0 v0) eqn:D; try discriminate.
  - assert (H' : copy_props inv beh allowed r (set k0 v0 out) = CInvalid key).
    { destruct allowed as [ks|]; [destruct (mem_str k0 ks); [exact H|discriminate]|exact H]. }
    destruct (IH _ _ H') as (pre & v & post & E & Dk & Hp). exists ((k0, v0) :: pre), v, post.
    split; [rewrite E; reflexivity|split; [exact Dk|]]. intros k' v' [X|X]; [inversion X; subst; auto|eauto].
  - destruct (IH _ _ H) as (pre & v & post & E & Dk & Hp). exists ((k0, v0) :: pre), v, post.
    split; [rewrite E; reflexivity|split; [exact Dk|]]. intros k' v' [X|X]; [inversion X; subst; auto|eauto].
  - inversion H; subst. exists [], v0, r. split; [reflexivity|split; [exact D|intros ? ? []]].
Qed.

(* no other failure when every copied key is permitted *)
Lemma copy_props_no_keyerror : forall src out,
  copy_props inv beh None src out <> CKeyError.
Proof.
  induction src as [|[k0 v0] r IH]; intro out; simpl; [discriminate|].
  destruct (decide inv beh k0 v0); try discriminate; apply IH.
Qed.

Lemma copy_props_never_notimpl : forall allowed src out, copy_props inv beh allowed src out <> CNotImpl.
Proof.
  induction src as [|[k0 v0] r IH]; intros out; simpl; [discriminate|].
  destruct (decide inv beh k0 v0); try discriminate; [|apply IH].
  destruct allowed as [ks|]; [destruct (mem_str k0 ks); [apply IH|discriminate]|apply IH].
Qed.
End Copy.

(* with an empty table (SSC targets) everything is copied *)
Lemma decide_nil beh k v : decide [] beh k v = DCopy.
Proof. reflexivity. Qed.

Lemma ssc_tables_empty : Tables.invalid_ssc_simfile = [] /\ Tables.invalid_ssc_chart = [].
Proof. split; reflexivity. Qed.

Lemma copy_all_ok inv : inv = [] -> forall src out, exists out', copy_props inv [] None src out = COk out'.
Proof. intros ->. induction src as [|[k v] r IH]; intro out; simpl; [eauto|apply IH]. Qed.

(* ---- SM -> SSC ---- *)
Lemma convert_charts_all post inv : inv = [] -> forall tmpl charts, exists cs,
  convert_charts post inv [] None tmpl charts = COk cs /\ length cs = length charts /\
  forall i c, nth_error charts i = Some c -> exists c', nth_error cs i = Some (post c') /\ copy_props inv [] None c tmpl = COk c'.
Proof.
  intros Hinv tmpl. induction charts as [|c r IH]; [exists []; repeat split; intros i c H; destruct i; discriminate|].
  destruct IH as (cs & E & L & N). destruct (copy_all_ok inv Hinv c tmpl) as [c' Ec].
  exists (post c' :: cs). cbn [convert_charts]. rewrite Ec, E. repeat split; [simpl; congruence|].
  intros i x H. destruct i as [|i]; simpl in *; [inversion H; subst; eauto|apply N; exact H].
Qed.

Lemma copy_nodup_all inv : inv = [] -> forall src out out', NoDupKeys out -> copy_props inv [] None src out = COk out' -> NoDupKeys out'.
Proof.
  intros ->. induction src as [|[k v] r IH]; intros out out' Hnd H; [simpl in H; inversion H; subst; exact Hnd|].
  cbn [copy_props decide] in H. apply (IH _ _ (set_NoDupKeys k v out Hnd) H).
Qed.

Lemma copy_get_all inv : inv = [] -> forall src out out', NoDupKeys src -> copy_props inv [] None src out = COk out' ->
  (forall k v, get k src = Some v -> get k out' = Some v) /\ (forall k, get k src = None -> get k out' = get k out).
Proof.
  intros Hinv src out out' Hnd E. split.
  - intros k v G. rewrite (copy_props_get inv [] None src out out' Hnd E k), G. subst inv. reflexivity.
  - intros k G. rewrite (copy_props_get inv [] None src out out' Hnd E k), G. reflexivity.
Qed.

Theorem sm_to_ssc_spec sf charts tmpl_sf tmpl_chart :
  NoDupKeys sf -> (forall c, List.In c charts -> NoDupKeys c) ->
  sm_negative_timing sf = COk false ->
  let base := base_of Tables.blank_ssc_simfile tmpl_sf in
  let ct := chart_tmpl_of Tables.blank_ssc_chart tmpl_chart in
  NoDupKeys ct ->
  exists out cs,
    sm_to_ssc sf charts tmpl_sf tmpl_chart = COk (out, snd base ++ cs) /\
    (* every property of the source has the same value; the rest comes from the template *)
    (forall k v, get k sf = Some v -> get k out = Some v) /\
    (forall k, get k sf = None -> get k out = get k (fst base)) /\
    (* one chart per source chart, in order, with the same fields; the rest from the chart template *)
    length cs = length charts /\
    (forall i c, nth_error charts i = Some c -> exists c', nth_error cs i = Some c' /\
       (forall k v, get k c = Some v -> get k c' = Some v) /\
       (forall k, get k c = None -> get k c' = get k ct)).
Proof.
  intros Hnd Hc Hneg base ct Hct. unfold sm_to_ssc, convert_core. rewrite Hneg. fold base. fold ct.
  destruct ssc_tables_empty as [E1 E2].
  destruct (copy_all_ok _ E1 sf (fst base)) as [out Eo]. rewrite Eo.
  destruct (convert_charts_all notes_last _ E2 ct charts) as (cs & Ecs & L & N). rewrite Ecs. cbn [lift_charts].
  exists out, cs. split; [reflexivity|].
  destruct (copy_get_all _ E1 sf (fst base) out Hnd Eo) as [A B].
  split; [exact A|split; [exact B|split; [exact L|]]].
  intros i c Hi. destruct (N i c Hi) as (c' & Hn & Ec). exists (notes_last c'). split; [exact Hn|].
  assert (Hcn : NoDupKeys c) by (apply Hc; eapply nth_error_In; eauto).
  assert (Hc'n : NoDupKeys c') by (apply (copy_nodup_all _ E2 c ct c' Hct Ec)).
  destruct (copy_get_all _ E2 c ct c' Hcn Ec) as [A' B'].
  (* moving the note data to the end changes no value *)
  unfold notes_last. split; intros k; rewrite (get_move_to_end kNOTES k c' Hc'n); [apply A'|apply B'].
Qed.

Lemma convert_charts_post post inv beh allowed tmpl : forall charts cs,
  convert_charts post inv beh allowed tmpl charts = COk cs ->
  length cs = length charts /\ forall c, List.In c cs -> exists c0, c = post c0.
Proof.
  induction charts as [|x r IH]; intros cs H; cbn [convert_charts] in H; [inversion H; subst; split; [reflexivity|intros c []]|].
  destruct (copy_props inv beh allowed x tmpl) as [x'| | | |]; try discriminate.
  destruct (convert_charts post inv beh allowed tmpl r) as [r'| | | |]; try discriminate.
  inversion H; subst. destruct (IH r' eq_refl) as [L P]. split; [simpl; congruence|].
  intros c [<-|Hin]; [eauto|apply (P c Hin)].
Qed.

(* every converted chart of the result that holds note data holds it last, whatever the templates are
   (the charts of the simfile template come first and are the template's own) *)
Theorem sm_to_ssc_notes_last sf charts tmpl_sf tmpl_chart out cs :
  sm_to_ssc sf charts tmpl_sf tmpl_chart = COk (out, cs) ->
  exists cs', cs = snd (base_of Tables.blank_ssc_simfile tmpl_sf) ++ cs' /\ length cs' = length charts /\
    forall c', List.In c' cs' -> has kNOTES c' = true -> exists pre v, c' = pre ++ [(kNOTES, v)].
Proof.
  intro H. unfold sm_to_ssc, convert_core in H. destruct (sm_negative_timing sf) as [[|]| | | |]; try discriminate.
  destruct (copy_props Tables.invalid_ssc_simfile [] None sf _) as [o| | | |]; try discriminate.
  destruct (convert_charts notes_last _ _ _ _ charts) as [cs'| | | |] eqn:Ec; try discriminate.
  cbn [lift_charts] in H. inversion H; subst. exists cs'. split; [reflexivity|].
  destruct (convert_charts_post _ _ _ _ _ _ _ Ec) as [L P]. split; [exact L|].
  intros c' Hin Hh. destruct (P c' Hin) as [c0 ->].
  unfold notes_last in *. destruct (move_to_end_has_last kNOTES c0 Hh) as (pre & v & E & _). eauto.
Qed.

Theorem sm_to_ssc_negative_refused sf charts tmpl_sf tmpl_chart :
  sm_negative_timing sf = COk true -> sm_to_ssc sf charts tmpl_sf tmpl_chart = CNotImpl.
Proof. intro H. unfold sm_to_ssc. rewrite H. reflexivity. Qed.

(* ---- SSC -> SM ---- *)
Theorem ssc_to_sm_warps_refused sf charts tmpl_sf tmpl_chart beh :
  ssc_has_warps sf = true -> ssc_to_sm sf charts tmpl_sf tmpl_chart beh = CNotImpl.
Proof. intro H. unfold ssc_to_sm. rewrite H. reflexivity. Qed.

Lemma convert_charts_outcomes post inv beh allowed tmpl : forall charts r,
  convert_charts post inv beh allowed tmpl charts = r ->
  match r with
  | COk cs => length cs = length charts /\
              forall i c, nth_error charts i = Some c -> exists c', nth_error cs i = Some (post c') /\ copy_props inv beh allowed c tmpl = COk c'
  | CInvalid key => exists i c, nth_error charts i = Some c /\ copy_props inv beh allowed c tmpl = CInvalid key /\
                    forall j cj, (j < i)%nat -> nth_error charts j = Some cj -> exists c', copy_props inv beh allowed cj tmpl = COk c'
  | CNotImpl => False
  | _ => True
  end.
Proof.
  induction charts as [|c r IH]; intros res H.
  - simpl in H. subst. split; [reflexivity|intros i c H; destruct i; discriminate].
  - cbn [convert_charts] in H. destruct (copy_props inv beh allowed c tmpl) as [c'| |key| |] eqn:Ec.
    + destruct (convert_charts post inv beh allowed tmpl r) as [cs| |key| |] eqn:Er; subst res.
      * destruct (IH _ eq_refl) as [L N]. split; [simpl; congruence|].
        intros i x Hi. destruct i as [|i]; simpl in *; [inversion Hi; subst; eauto|apply N; exact Hi].
      * exact (IH _ eq_refl).
      * destruct (IH _ eq_refl) as (i & ci & Hi & Hk & Hb). exists (S i), ci. split; [exact Hi|split; [exact Hk|]].
        intros j cj Hj Hn. destruct j as [|j]; simpl in Hn; [inversion Hn; subst; eauto|]. apply (Hb j cj); [lia|exact Hn].
      * exact I.
      * exact I.
    + exfalso. eapply copy_props_never_notimpl; eauto.
    + subst res. exists O, c. split; [reflexivity|split; [exact Ec|]]. intros j cj Hj. lia.
    + subst res. exact I.
    + subst res. exact I.
Qed.

(* the policy: either every property is treated per its kind's behaviour, or the first offender is named *)
Theorem ssc_to_sm_policy sf charts tmpl_sf tmpl_chart beh : NoDupKeys sf -> ssc_has_warps sf = false ->
  let base := fst (base_of Tables.blank_sm_simfile tmpl_sf) in
  match ssc_to_sm sf charts tmpl_sf tmpl_chart beh with
  | COk (out, cs) =>
      forall k, get k out = match get k sf with
                            | Some v => match decide Tables.invalid_sm_simfile beh k v with DCopy => Some v | _ => get k base end
                            | None => get k base end
  | CInvalid key =>
      (exists pre v post, sf = pre ++ (key, v) :: post /\ decide Tables.invalid_sm_simfile beh key v = DError /\
         forall k' v', List.In (k', v') pre -> decide Tables.invalid_sm_simfile beh k' v' = DCopy \/ decide Tables.invalid_sm_simfile beh k' v' = DSkip)
      \/ (exists c v, List.In c charts /\ List.In (key, v) c /\ decide Tables.invalid_sm_chart beh key v = DError)
  | CNotImpl => False
  | _ => True
  end.
Proof.
  intros Hnd Hw base. unfold ssc_to_sm, convert_core. rewrite Hw. fold base.
  destruct (copy_props Tables.invalid_sm_simfile beh None sf base) as [out| |key| |] eqn:Eo.
  - destruct (convert_charts (fun c => c) Tables.invalid_sm_chart beh (Some Tables.sm_chart_properties)
               (chart_tmpl_of Tables.blank_sm_chart tmpl_chart) charts) as [cs| |key| |] eqn:Ec; cbn [lift_charts].
    + intro k. apply (copy_props_get _ _ None sf base out Hnd Eo k).
    + apply (convert_charts_outcomes _ _ _ _ _ _ _ Ec).
    + right. destruct (convert_charts_outcomes _ _ _ _ _ _ _ Ec) as (i & c & Hi & Hk & _).
      destruct (copy_props_invalid _ _ _ _ _ _ Hk) as (pre & v & post & E & D & _).
      exists c, v. split; [eapply nth_error_In; eauto|split; [rewrite E; apply in_or_app; right; left; reflexivity|exact D]].
    + exact I.
    + exact I.
  - eapply copy_props_never_notimpl; eauto.
  - left. apply (copy_props_invalid _ _ _ _ _ _ Eo).
  - exact I.
  - exact I.
Qed.

(* the simfile-level copy can never end in a bare KeyError *)
Theorem ssc_to_sm_simfile_no_keyerror sf beh base : copy_props Tables.invalid_sm_simfile beh None sf base <> CKeyError.
Proof. apply copy_props_no_keyerror. Qed.

(* the documented defaults and the documented classification, read from the code's tables *)
Lemma documented_defaults :
  Tables.default_behaviors = [(1, 2); (2, 2); (3, 2); (4, 3); (5, 3)] /\
  Tables.behaviors = [([67;79;80;89;95;65;78;89;87;65;89]%N, 1); ([73;71;78;79;82;69]%N, 2);
                      ([69;82;82;79;82;95;85;78;76;69;83;83;95;68;69;70;65;85;76;84]%N, 3); ([69;82;82;79;82]%N, 4)] /\
  map snd Tables.property_types = [1; 2; 3; 4; 5] /\ Tables.default_properties_default = [].
Proof. vm_compute. repeat split; reflexivity. Qed.
