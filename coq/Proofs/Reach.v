(* Reachability: the edit operations of the quantifier keep a simfile well-formed (C01/C02). *)
From Coq Require Import List NArith ZArith Bool Lia.
From SV Require Import Sx Str Omap Msd Simfile Generated.Tables Proofs.SmRoundTrip Proofs.SscRoundTrip Proofs.LoadFacts.
Import ListNotations.
Open Scope N_scope.

Inductive sm_op :=
| OSet (k : str) (v : val) | ODel (k : str)
| OAddChart (c : smchart) | ODelChart (i : nat) | OReverse | OReplaceChart (i : nat) (c : smchart).

Fixpoint remove_nth {T} (i : nat) (l : list T) : list T :=
  match l, i with [], _ => [] | _ :: r, O => r | x :: r, S j => x :: remove_nth j r end.
Fixpoint replace_nth {T} (i : nat) (y : T) (l : list T) : list T :=
  match l, i with [], _ => [] | _ :: r, O => y :: r | x :: r, S j => x :: replace_nth j y r end.

Definition apply_sm_op (sf : smsimfile) (o : sm_op) : smsimfile :=
  match o with
  | OSet k v => {| sm_props := set k v (sm_props sf); sm_charts := sm_charts sf |}
  | ODel k => match del k (sm_props sf) with
              | Some p => {| sm_props := p; sm_charts := sm_charts sf |}
              | None => sf end
  | OAddChart c => {| sm_props := sm_props sf; sm_charts := sm_charts sf ++ [c] |}
  | ODelChart i => {| sm_props := sm_props sf; sm_charts := remove_nth i (sm_charts sf) |}
  | OReverse => {| sm_props := sm_props sf; sm_charts := rev (sm_charts sf) |}
  | OReplaceChart i c => {| sm_props := sm_props sf; sm_charts := replace_nth i c (sm_charts sf) |}
  end.

Definition op_ok (o : sm_op) : Prop :=
  match o with
  | OSet k _ => key_ok k
  | OAddChart c | OReplaceChart _ c => chart_ok c
  | _ => True
  end.

Lemma remove_nth_In {T} i (l : list T) x : List.In x (remove_nth i l) -> List.In x l.
Proof. revert i. induction l as [|y r IH]; intros [|i]; simpl; auto. intros [H|H]; eauto. Qed.
Lemma replace_nth_In {T} i (y : T) l x : List.In x (replace_nth i y l) -> x = y \/ List.In x l.
Proof. revert i. induction l as [|z r IH]; intros [|i]; simpl; auto. - intros [H|H]; auto. - intros [H|H]; auto. apply IH in H. tauto. Qed.

Lemma del_In {V} k (m m' : omap V) kv : del k m = Some m' -> List.In kv m' -> List.In kv m.
Proof.
  revert m'. induction m as [|[k2 v2] r IH]; simpl; intros m' D H; [discriminate|].
  destruct (str_eqb k k2); [inversion D; subst; auto|].
  destruct (del k r) eqn:E; [|discriminate]. inversion D; subst. destruct H as [H|H]; eauto.
Qed.

Lemma apply_op_wf sf o : wf_sm sf -> op_ok o -> wf_sm (apply_sm_op sf o).
Proof.
  intros [Hnd Hk Hc] Ho. destruct o as [k v|k|c|i| |i c]; simpl in *.
  - constructor; simpl; [apply set_NoDupKeys; exact Hnd| |exact Hc]. apply set_keys_ok; assumption.
  - destruct (del k (sm_props sf)) eqn:D; [|constructor; assumption].
    constructor; simpl; [eapply del_NoDupKeys; eauto| |exact Hc]. intros k' v' H. eapply Hk. eapply del_In; eauto.
  - constructor; simpl; auto. intros c' H. apply in_app_or in H as [H|[<-|[]]]; auto.
  - constructor; simpl; auto. intros c' H. apply remove_nth_In in H. auto.
  - constructor; simpl; auto. intros c' H. apply in_rev in H. auto.
  - constructor; simpl; auto. intros c' H. apply replace_nth_In in H as [->|H]; auto.
Qed.

Theorem reachable_wf sf ops : wf_sm sf -> Forall op_ok ops -> wf_sm (fold_left apply_sm_op ops sf).
Proof.
  revert sf. induction ops as [|o r IH]; intros sf H Ho; [exact H|]. simpl. inversion Ho; subst.
  apply IH; [apply apply_op_wf; assumption|assumption].
Qed.

(* the start states *)
Definition empty_sm : smsimfile := {| sm_props := []; sm_charts := [] |}.
Lemma empty_wf : wf_sm empty_sm.
Proof. constructor; simpl; [apply NoDup_nil|intros ? ? []|intros ? []]. Qed.

Fixpoint nodupb (l : list str) : bool := match l with [] => true | x :: r => negb (mem_str x r) && nodupb r end.
Lemma nodupb_NoDup l : nodupb l = true -> NoDup l.
Proof.
  induction l as [|x r IH]; simpl; intro H; [constructor|]. apply andb_prop in H as [A B].
  constructor; [|auto]. intro X. apply mem_str_In in X. rewrite X in A. discriminate.
Qed.
Definition key_okb (k : str) : bool := str_eqb (upper k) k && negb (str_eqb k kNOTES).
Lemma key_okb_ok k : key_okb k = true -> key_ok k.
Proof. unfold key_okb, key_ok. intro H. apply andb_prop in H as [A B]. apply str_eqb_eq in A. apply negb_true_iff in B. auto. Qed.

Definition blank_sm : smsimfile := {| sm_props := Tables.blank_sm_simfile; sm_charts := [] |}.
Lemma blank_wf : wf_sm blank_sm.
Proof.
  constructor; simpl.
  - apply nodupb_NoDup. vm_compute. reflexivity.
  - intros k v H. apply key_okb_ok.
    assert (A : forallb (fun kv => key_okb (fst kv)) Tables.blank_sm_simfile = true) by (vm_compute; reflexivity).
    rewrite forallb_forall in A. apply (A (k, v) H).
  - intros ? [].
Qed.
