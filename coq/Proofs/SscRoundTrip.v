(* C02: load_ssc strict (ser_ssc sf) = LOk (notes_last sf) *)
From Coq Require Import List NArith ZArith Bool Lia.
From SV Require Import Sx Str Omap Msd Simfile Proofs.MsdFacts Proofs.StrFacts Proofs.SmRoundTrip.
Import ListNotations.
Open Scope N_scope.

Definition not_key (nk : str) (kv : str * val) : bool := negb (str_eqb (fst kv) nk).
Definition notes_param (nk : str) (nv : val) : param := match nv with None => [nk] | Some n => [nk; n] end.

(* a chart with its note data moved to the end; nothing else changes *)
Definition notes_last_chart (c : props) : props :=
  match get (notes_key c) c with
  | Some nv => filter (not_key (notes_key c)) c ++ [(notes_key c, nv)]
  | None => c
  end.
Definition notes_last (sf : sscsimfile) : sscsimfile :=
  {| ssc_props := ssc_props sf; ssc_charts := map notes_last_chart (ssc_charts sf) |}.

Definition chunks_chart (c : props) (nv : val) : list chunk :=
  [CP [kNOTEDATA; []]; CN] ++ chunks_props (filter (not_key (notes_key c)) c) ++
  [CP (notes_param (notes_key c) nv); CN; CN; CN].

Fixpoint chunks_charts (cs : list props) : option (list chunk) :=
  match cs with
  | [] => Some []
  | c :: r => match get (notes_key c) c, chunks_charts r with
              | Some nv, Some rest => Some (chunks_chart c nv ++ rest)
              | _, _ => None
              end
  end.

Lemma flat_map_skip (c : props) nk :
  flat_map (fun kv => if str_eqb (fst kv) nk then [] else render_param (prop_comps (fst kv) (snd kv)) ++ NL) c =
  ser_props (filter (not_key nk) c).
Proof.
  unfold ser_props, not_key. induction c as [|[k v] r IH]; [reflexivity|]. cbn [flat_map filter fst snd].
  destruct (str_eqb k nk); cbn [negb]; [exact IH|]. cbn [flat_map fst snd]. rewrite IH. reflexivity.
Qed.

Lemma ser_chart_chunks c nv : get (notes_key c) c = Some nv ->
  ser_ssc_chart c = Some (render_chunks (chunks_chart c nv ++ []) ) -> True.
Proof. trivial. Qed.

Lemma ser_ssc_chart_eq c nv : get (notes_key c) c = Some nv ->
  exists t, ser_ssc_chart c = Some t /\ t ++ NL = render_chunks (chunks_chart c nv).
Proof.
  intro H. unfold ser_ssc_chart. rewrite H. eexists. split; [reflexivity|].
  unfold chunks_chart.
  rewrite (render_chunks_app [CP [kNOTEDATA; []]; CN]), (render_chunks_app (chunks_props _)), render_chunks_props, flat_map_skip.
  unfold notedata_line, notes_param, NL, render_chunks. cbn [flat_map render_chunk app].
  rewrite <- !app_assoc. cbn [app]. destruct nv; rewrite <- ?app_assoc; reflexivity.
Qed.

Lemma ser_ssc_charts_eq : forall cs chunks, chunks_charts cs = Some chunks ->
  ser_ssc_charts cs = Some (render_chunks chunks).
Proof.
  induction cs as [|c r IH]; intros chunks H.
  - inversion H. reflexivity.
  - cbn [chunks_charts] in H. destruct (get (notes_key c) c) as [nv|] eqn:G; [|discriminate].
    destruct (chunks_charts r) as [rest|] eqn:R; [|discriminate].
    assert (Ech : chunks = chunks_chart c nv ++ rest) by congruence. subst chunks. clear H.
    cbn [ser_ssc_charts]. destruct (ser_ssc_chart_eq c nv G) as (t & Et & Ec). rewrite Et, (IH rest eq_refl).
    rewrite render_chunks_app, <- Ec, <- app_assoc. reflexivity.
Qed.

Definition chunks_ssc (sf : sscsimfile) : option (list chunk) :=
  match chunks_charts (ssc_charts sf) with
  | Some cs => Some (chunks_props (ssc_props sf) ++ [CN] ++ cs)
  | None => None
  end.

Lemma ser_ssc_chunks sf chunks : chunks_ssc sf = Some chunks -> ser_ssc sf = Some (render_chunks chunks).
Proof.
  unfold chunks_ssc, ser_ssc. destruct (chunks_charts (ssc_charts sf)) as [cs|] eqn:E; [|discriminate].
  intro H. assert (Ech : chunks = chunks_props (ssc_props sf) ++ [CN] ++ cs) by congruence. subst chunks.
  rewrite (ser_ssc_charts_eq _ cs E), !render_chunks_app, render_chunks_props. reflexivity.
Qed.

(* ---- well-formedness ---- *)
Definition skey_ok (k : str) : Prop := upper k = k /\ str_eqb k kNOTEDATA = false.
Record wf_chart (c : props) : Prop := {
  wc_nodup : NoDupKeys c;
  wc_keys : forall k v, List.In (k, v) c -> skey_ok k;
  wc_notes : exists nv, get (notes_key c) c = Some nv
}.
Record wf_ssc (sf : sscsimfile) : Prop := {
  ws_nodup : NoDupKeys (ssc_props sf);
  ws_keys : forall k v, List.In (k, v) (ssc_props sf) -> skey_ok k;
  ws_charts : forall c, List.In c (ssc_charts sf) -> wf_chart c
}.
Definition safe_ssc (sf : sscsimfile) : bool :=
  match chunks_ssc sf with Some cs => safe_chunks false cs | None => false end.

(* ---- the loader ---- *)
Lemma load_ssc_props_none : forall pr pr0 charts rest,
  (forall k v, List.In (k, v) pr -> skey_ok k) -> NoDup (keys pr0 ++ keys pr) ->
  load_ssc_go (map (fun kv => prop_comps (fst kv) (snd kv)) pr ++ rest) pr0 charts None =
  load_ssc_go rest (pr0 ++ pr) charts None.
Proof.
  induction pr as [|[k v] r IH]; intros pr0 charts rest Hk Hnd.
  - rewrite app_nil_r. reflexivity.
  - cbn [map app fst snd]. destruct (prop_comps_shape k v) as [vs E].
    pose proof (value_of_prop_comps k v) as Hv. rewrite E in *. cbn [tl] in Hv.
    cbn [load_ssc_go]. destruct (Hk k v (or_introl eq_refl)) as [Hu Hn]. rewrite Hu, Hn, Hv.
    assert (Hfresh : has k pr0 = false).
    { destruct (has k pr0) eqn:H; [|reflexivity]. exfalso. apply has_In in H.
      cbn [keys map fst] in Hnd. apply NoDup_remove_2 in Hnd. apply Hnd. apply in_or_app. left. exact H. }
    rewrite set_fresh by assumption. rewrite IH.
    + rewrite <- app_assoc. reflexivity.
    + intros k' v' H. apply (Hk k' v'). right. exact H.
    + unfold keys in *. rewrite map_app. cbn [map fst]. rewrite <- app_assoc. exact Hnd.
Qed.

Lemma load_ssc_props_some : forall pr c0 pr0 charts rest,
  (forall k v, List.In (k, v) pr -> skey_ok k) -> NoDup (keys c0 ++ keys pr) ->
  load_ssc_go (map (fun kv => prop_comps (fst kv) (snd kv)) pr ++ rest) pr0 charts (Some c0) =
  load_ssc_go rest pr0 charts (Some (c0 ++ pr)).
Proof.
  induction pr as [|[k v] r IH]; intros c0 pr0 charts rest Hk Hnd.
  - rewrite app_nil_r. reflexivity.
  - cbn [map app fst snd]. destruct (prop_comps_shape k v) as [vs E].
    pose proof (value_of_prop_comps k v) as Hv. rewrite E in *. cbn [tl] in Hv.
    cbn [load_ssc_go]. destruct (Hk k v (or_introl eq_refl)) as [Hu Hn]. rewrite Hu, Hn, Hv.
    assert (Hfresh : has k c0 = false).
    { destruct (has k c0) eqn:H; [|reflexivity]. exfalso. apply has_In in H.
      cbn [keys map fst] in Hnd. apply NoDup_remove_2 in Hnd. apply Hnd. apply in_or_app. left. exact H. }
    rewrite set_fresh by assumption. rewrite IH.
    + rewrite <- app_assoc. reflexivity.
    + intros k' v' H. apply (Hk k' v'). right. exact H.
    + unfold keys in *. rewrite map_app. cbn [map fst]. rewrite <- app_assoc. exact Hnd.
Qed.

Lemma upper_kNOTEDATA : upper kNOTEDATA = kNOTEDATA. Proof. vm_compute. reflexivity. Qed.
Lemma notes_not_multi : is_multi kNOTES = false /\ is_multi kNOTES2 = false. Proof. vm_compute. split; reflexivity. Qed.

Lemma notes_key_cases c : notes_key c = kNOTES \/ notes_key c = kNOTES2.
Proof. unfold notes_key. destruct (negb (has kNOTES c) && has kNOTES2 c); auto. Qed.

Lemma notes_param_is_prop_comps c nv : notes_param (notes_key c) nv = prop_comps (notes_key c) nv.
Proof.
  unfold notes_param, prop_comps. destruct nv; [|reflexivity].
  destruct notes_not_multi as [A B]. destruct (notes_key_cases c) as [-> | ->]; rewrite ?A, ?B; reflexivity.
Qed.

Lemma filter_all_id' {A} (f : A -> bool) l : (forall x, List.In x l -> f x = true) -> filter f l = l.
Proof. induction l as [|x r IH]; intro H; [reflexivity|]. simpl. rewrite (H x (or_introl eq_refl)), IH; [reflexivity|]. intros; apply H; right; assumption. Qed.

Lemma get_In {V} k (v : V) m : get k m = Some v -> List.In (k, v) m.
Proof.
  induction m as [|[k' v'] r IH]; simpl; [discriminate|]. destruct (str_eqb k k') eqn:E.
  - apply str_eqb_eq in E. subst. intro H; inversion H; auto.
  - auto.
Qed.

Lemma filter_keys_NoDup (c : props) nk : NoDupKeys c -> NoDup (keys (filter (not_key nk) c) ++ [nk]).
Proof.
  unfold NoDupKeys, keys. intro H. apply NoDup_snoc.
  - induction c as [|[k v] r IH]; [constructor|]. cbn [filter]. inversion H; subst.
    destruct (not_key nk (k, v)); [|auto]. cbn [map fst]. constructor; [|auto].
    intro X. apply in_map_iff in X as [[k2 v2] [E X]]. apply filter_In in X as [X _]. simpl in E. subst.
    apply H2. apply in_map_iff. exists (k, v2). auto.
  - intro X. apply in_map_iff in X as [[k2 v2] [E X]]. apply filter_In in X as [_ X]. simpl in E. subst.
    unfold not_key in X. simpl in X. rewrite str_eqb_refl in X. discriminate.
Qed.

Lemma params_of_chart c nv :
  params_of (chunks_chart c nv) =
  [kNOTEDATA; []] :: map (fun kv => prop_comps (fst kv) (snd kv)) (filter (not_key (notes_key c)) c ++ [(notes_key c, nv)]).
Proof.
  unfold chunks_chart. rewrite !params_of_app, params_of_props, map_app. cbn [params_of app map fst snd].
  rewrite notes_param_is_prop_comps. reflexivity.
Qed.

Lemma load_one_chart c nv rest pr0 charts partial : wf_chart c -> get (notes_key c) c = Some nv ->
  load_ssc_go (params_of (chunks_chart c nv) ++ rest) pr0 charts partial =
  load_ssc_go rest pr0 (match partial with Some p => p :: charts | None => charts end) (Some (notes_last_chart c)).
Proof.
  intros [Hnd Hk _] G. rewrite params_of_chart. cbn [app load_ssc_go].
  rewrite upper_kNOTEDATA, str_eqb_refl.
  rewrite (load_ssc_props_some _ [] pr0 _ rest).
  - unfold notes_last_chart. rewrite G. reflexivity.
  - intros k v H. apply in_app_or in H as [H|[H|[]]].
    + apply filter_In in H as [H _]. eapply Hk; eauto.
    + inversion H; subst. eapply Hk. eapply get_In. exact G.
  - cbn [keys map app]. unfold keys. rewrite map_app. cbn [map fst]. apply filter_keys_NoDup. exact Hnd.
Qed.

Lemma load_charts_ssc : forall cs chunks pr0 charts partial,
  (forall c, List.In c cs -> wf_chart c) -> chunks_charts cs = Some chunks ->
  load_ssc_go (params_of chunks) pr0 charts partial =
  (pr0, rev (match partial with Some p => p :: charts | None => charts end) ++ map notes_last_chart cs).
Proof.
  induction cs as [|c r IH]; intros chunks pr0 charts partial Hwf H.
  - inversion H; subst. cbn [params_of load_ssc_go map]. rewrite rev_append_rev, !app_nil_r. reflexivity.
  - cbn [chunks_charts] in H. destruct (get (notes_key c) c) as [nv|] eqn:G; [|discriminate].
    destruct (chunks_charts r) as [rest|] eqn:R; [|discriminate].
    assert (Ech : chunks = chunks_chart c nv ++ rest) by congruence. subst chunks. clear H.
    rewrite params_of_app, (load_one_chart c nv _ pr0 charts partial (Hwf c (or_introl eq_refl)) G).
    rewrite (IH rest pr0 _ (Some (notes_last_chart c))); [|intros; apply Hwf; right; assumption|reflexivity].
    cbn [map rev]. rewrite <- app_assoc. reflexivity.
Qed.

Lemma chunks_charts_total cs : (forall c, List.In c cs -> wf_chart c) -> exists chunks, chunks_charts cs = Some chunks.
Proof.
  induction cs as [|c r IH]; intro H; [eexists; reflexivity|].
  destruct (H c (or_introl eq_refl)) as [_ _ [nv G]]. destruct IH as [rest R]; [intros; apply H; right; assumption|].
  cbn [chunks_charts]. rewrite G, R. eexists. reflexivity.
Qed.

Theorem ssc_roundtrip strict sf : wf_ssc sf -> safe_ssc sf = true ->
  exists t, ser_ssc sf = Some t /\ load_ssc strict t = LOk (notes_last sf).
Proof.
  intros [Hnd Hk Hc] Hs. unfold safe_ssc in Hs.
  destruct (chunks_ssc sf) as [chunks|] eqn:E; [|discriminate].
  exists (render_chunks chunks). split; [apply ser_ssc_chunks; exact E|].
  unfold load_ssc. rewrite (parse_chunks strict _ Hs). unfold load_ssc_params.
  unfold chunks_ssc in E. destruct (chunks_charts (ssc_charts sf)) as [cs|] eqn:Ec; [|discriminate].
  assert (Ech : chunks = chunks_props (ssc_props sf) ++ [CN] ++ cs) by congruence. subst chunks.
  rewrite !params_of_app, params_of_props. cbn [params_of app].
  rewrite (load_ssc_props_none (ssc_props sf) [] [] _ Hk Hnd).
  rewrite (load_charts_ssc (ssc_charts sf) cs _ [] None Hc Ec). cbn [app rev of_status]. reflexivity.
Qed.

(* serialisation is total on well-formed simfiles (every chart has note data) *)
Theorem ssc_serializable sf : (forall c, List.In c (ssc_charts sf) -> wf_chart c) -> exists t, ser_ssc sf = Some t.
Proof.
  intro H. destruct (chunks_charts_total _ H) as [cs E].
  exists (render_chunks (chunks_props (ssc_props sf) ++ [CN] ++ cs)). apply ser_ssc_chunks. unfold chunks_ssc. rewrite E. reflexivity.
Qed.

Lemma In_get {V} k (v : V) m : NoDupKeys m -> List.In (k, v) m -> get k m = Some v.
Proof.
  unfold NoDupKeys, keys. induction m as [|[k' v'] r IH]; intros Hnd H; [destruct H|]. simpl.
  inversion Hnd; subst. destruct H as [H|H].
  - inversion H; subst. rewrite str_eqb_refl. reflexivity.
  - destruct (str_eqb k k') eqn:E.
    + apply str_eqb_eq in E. subst k'. exfalso. apply H2. apply in_map_iff. exists (k, v). auto.
    + apply IH; assumption.
Qed.

(* nothing is dropped or renamed: every key/value pair of a chart is in the reloaded chart *)
Lemma nothing_dropped c k v : wf_chart c -> List.In (k, v) c -> List.In (k, v) (notes_last_chart c).
Proof.
  intros [Hnd _ [nv G]] H. unfold notes_last_chart. rewrite G. apply in_or_app.
  destruct (str_eqb k (notes_key c)) eqn:E.
  - right. left. apply str_eqb_eq in E. subst k. f_equal.
    pose proof (In_get _ _ _ Hnd H) as X. congruence.
  - left. apply filter_In. split; [assumption|]. unfold not_key. simpl. rewrite E. reflexivity.
Qed.

(* and nothing is invented *)
Lemma nothing_invented c k v : wf_chart c -> List.In (k, v) (notes_last_chart c) -> List.In (k, v) c.
Proof.
  intros [Hnd _ [nv G]] H. unfold notes_last_chart in H. rewrite G in H. apply in_app_or in H as [H|[H|[]]].
  - apply filter_In in H as [H _]. exact H.
  - inversion H; subst. apply get_In. exact G.
Qed.

(* a simfile whose charts already end with their note data is a fixpoint *)
Lemma notes_last_fixpoint c : wf_chart c ->
  (exists pre nv, c = pre ++ [(notes_key c, nv)]) -> notes_last_chart c = c.
Proof.
  intros [Hnd _ _] (pre & nv & E). unfold notes_last_chart.
  assert (G : get (notes_key c) c = Some nv).
  { apply In_get; [exact Hnd|]. rewrite E at 2. apply in_or_app. right. left. reflexivity. }
  rewrite G. set (nk := notes_key c) in *. clearbody nk. subst c. f_equal.
  rewrite filter_app. cbn [filter]. unfold not_key at 2. cbn [fst]. rewrite str_eqb_refl. cbn [negb]. rewrite app_nil_r.
  apply filter_all_id'. intros [k v] Hin. unfold not_key. cbn [fst]. apply negb_true_iff.
  destruct (str_eqb k nk) eqn:X; [|reflexivity]. apply str_eqb_eq in X. subst k. exfalso.
  unfold NoDupKeys, keys in Hnd. rewrite map_app in Hnd. cbn [map fst] in Hnd.
  apply NoDup_remove_2 in Hnd. apply Hnd. rewrite app_nil_r. apply in_map_iff. exists (nk, v). auto.
Qed.

(* ---- a second save is the first: the serialiser does not see where the note data sits ---- *)
Lemma get_filter_not_key (c : props) nk : get nk (filter (not_key nk) c) = None.
Proof.
  induction c as [|[k v] r IH]; [reflexivity|]. cbn [filter]. unfold not_key at 1. cbn [fst].
  destruct (str_eqb k nk) eqn:E; cbn [negb]; [exact IH|]. cbn [get].
  destruct (str_eqb nk k) eqn:E'; [|exact IH]. apply str_eqb_eq in E'. subst k. rewrite str_eqb_refl in E. discriminate.
Qed.

Lemma get_filter_other (c : props) nk k : k <> nk -> get k (filter (not_key nk) c) = get k c.
Proof.
  intro Hne. induction c as [|[k' v] r IH]; [reflexivity|]. cbn [filter]. unfold not_key at 1. cbn [fst].
  destruct (str_eqb k' nk) eqn:E; cbn [negb get].
  - apply str_eqb_eq in E. subst k'. apply str_eqb_neq in Hne. rewrite Hne. exact IH.
  - destruct (str_eqb k k'); [reflexivity|exact IH].
Qed.

Lemma kNOTES_neq_kNOTES2 : kNOTES <> kNOTES2. Proof. intro H. discriminate H. Qed.

Lemma notes_key_notes_last c : notes_key (notes_last_chart c) = notes_key c.
Proof.
  unfold notes_last_chart. destruct (get (notes_key c) c) as [nv|] eqn:G; [|reflexivity].
  unfold notes_key in *. unfold has in *.
  destruct (get kNOTES c) as [x|] eqn:G1; cbn [negb andb] in *.
  - rewrite get_app_omap, get_filter_not_key. cbn [get]. rewrite str_eqb_refl. reflexivity.
  - destruct (get kNOTES2 c) as [y|] eqn:G2; cbn [negb andb] in *; [|congruence].
    rewrite !get_app_omap, get_filter_not_key, (get_filter_other c kNOTES2 kNOTES kNOTES_neq_kNOTES2), G1. cbn [get].
    rewrite str_eqb_refl. destruct (str_eqb kNOTES kNOTES2) eqn:E; [apply str_eqb_eq in E; destruct (kNOTES_neq_kNOTES2 E)|]. reflexivity.
Qed.

Lemma filter_not_key_idem (c : props) nk : filter (not_key nk) (filter (not_key nk) c) = filter (not_key nk) c.
Proof. apply filter_all_id'. intros x Hx. apply filter_In in Hx. tauto. Qed.

Lemma ser_ssc_chart_notes_last c : ser_ssc_chart (notes_last_chart c) = ser_ssc_chart c.
Proof.
  unfold ser_ssc_chart. rewrite notes_key_notes_last. unfold notes_last_chart.
  destruct (get (notes_key c) c) as [nv|] eqn:G; [|rewrite G; reflexivity].
  set (nk := notes_key c) in *. rewrite get_app_omap, get_filter_not_key. cbn [get]. rewrite str_eqb_refl.
  rewrite flat_map_app. cbn [flat_map fst]. rewrite str_eqb_refl, app_nil_r.
  rewrite !flat_map_skip, filter_not_key_idem. reflexivity.
Qed.

Lemma ser_ssc_charts_notes_last cs : ser_ssc_charts (map notes_last_chart cs) = ser_ssc_charts cs.
Proof. induction cs as [|c r IH]; [reflexivity|]. cbn [map ser_ssc_charts]. rewrite ser_ssc_chart_notes_last, IH. reflexivity. Qed.

Theorem ser_ssc_notes_last sf : ser_ssc (notes_last sf) = ser_ssc sf.
Proof. unfold ser_ssc, notes_last. cbn [ssc_charts ssc_props]. rewrite ser_ssc_charts_notes_last. reflexivity. Qed.
