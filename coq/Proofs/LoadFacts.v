(* Facts about loading arbitrary text: what the loader always produces (C04), strict vs non-strict (C03). *)
From Coq Require Import List NArith ZArith Bool Lia.
From SV Require Import Sx Str Omap Msd Simfile Generated.UnicodeTables Proofs.MsdFacts Proofs.StrFacts Proofs.SmRoundTrip Proofs.SscRoundTrip.
Import ListNotations.
Open Scope N_scope.

(* ---- upper is idempotent (finite check over Python's case table, lifted) ---- *)
Lemma assoc_In c t l : assoc c t = Some l -> List.In (c, l) t.
Proof.
  induction t as [|[k v] r IH]; simpl; [discriminate|]. destruct (k =? c) eqn:E.
  - apply N.eqb_eq in E. subst. intro H. inversion H. auto.
  - auto.
Qed.

Lemma upper_table_closed : forallb (fun e => str_eqb (upper (snd e)) (snd e)) upper_table = true.
Proof. vm_compute. reflexivity. Qed.

Lemma upper_char_idem c : upper (upper_char c) = upper_char c.
Proof.
  destruct (assoc c upper_table) as [l|] eqn:E.
  - assert (Hc : upper_char c = l) by (unfold upper_char; rewrite E; reflexivity). rewrite Hc.
    apply assoc_In in E. pose proof upper_table_closed as H. rewrite forallb_forall in H.
    specialize (H (c, l) E). simpl in H. apply str_eqb_eq in H. exact H.
  - assert (Hc : upper_char c = [c]) by (unfold upper_char; rewrite E; reflexivity). rewrite Hc.
    unfold upper. simpl. rewrite Hc. reflexivity.
Qed.

Lemma upper_app a b : upper (a ++ b) = upper a ++ upper b.
Proof. unfold upper. apply flat_map_app. Qed.

Lemma upper_idem s : upper (upper s) = upper s.
Proof.
  induction s as [|c r IH]; [reflexivity|]. change (upper (c :: r)) with (upper_char c ++ upper r).
  rewrite upper_app, IH, upper_char_idem. reflexivity.
Qed.

(* ---- strip is idempotent ---- *)
Lemma lstrip_app_nonspace a c p : is_space c = false -> lstrip (a ++ c :: p) = lstrip a ++ c :: p.
Proof.
  intro H. induction a as [|x a IH]; simpl; [rewrite H; reflexivity|].
  destruct (is_space x); [exact IH|reflexivity].
Qed.

Lemma lstrip_all_space p : forallb is_space p = true -> lstrip p = [].
Proof. induction p as [|x p IH]; simpl; [reflexivity|]. intro H. apply andb_prop in H as [H1 H2]. rewrite H1. auto. Qed.

Lemma rstrip_go_spec : forall s p, forallb is_space p = true -> rstrip_go s p = rev (lstrip (rev s ++ p)).
Proof.
  induction s as [|c r IH]; intros p Hp; simpl.
  - rewrite lstrip_all_space by assumption. reflexivity.
  - destruct (is_space c) eqn:E.
    + rewrite IH by (simpl; rewrite E; assumption). rewrite <- app_assoc. reflexivity.
    + rewrite rev_append_rev, (IH [] eq_refl), app_nil_r, <- app_assoc. cbn [app].
      rewrite lstrip_app_nonspace by assumption. rewrite rev_app_distr. cbn [rev]. rewrite <- app_assoc. reflexivity.
Qed.

Lemma rstrip_spec s : rstrip s = rev (lstrip (rev s)).
Proof. unfold rstrip. rewrite rstrip_go_spec by reflexivity. rewrite app_nil_r. reflexivity. Qed.

Lemma lstrip_idem s : lstrip (lstrip s) = lstrip s.
Proof. induction s as [|c r IH]; simpl; [reflexivity|]. destruct (is_space c) eqn:E; [exact IH|]. simpl. rewrite E. reflexivity. Qed.

Lemma rstrip_idem s : rstrip (rstrip s) = rstrip s.
Proof. rewrite !rstrip_spec, rev_involutive, lstrip_idem. reflexivity. Qed.

Lemma lstrip_head s : lstrip s = [] \/ exists c r, lstrip s = c :: r /\ is_space c = false.
Proof.
  induction s as [|c r IH]; simpl; [auto|]. destruct (is_space c) eqn:E; [exact IH|]. right. eauto.
Qed.

Lemma rstrip_cons_nonspace c r : is_space c = false -> rstrip (c :: r) = c :: rstrip r.
Proof. intro H. unfold rstrip. simpl. rewrite H. reflexivity. Qed.

Lemma strip_idem s : strip (strip s) = strip s.
Proof.
  unfold strip. destruct (lstrip_head s) as [E|(c & r & E & Hc)]; rewrite E.
  - reflexivity.
  - rewrite rstrip_cons_nonspace by assumption. cbn [lstrip]. rewrite Hc.
    rewrite <- (rstrip_cons_nonspace c r Hc). apply rstrip_idem.
Qed.

(* ---- what load always produces ---- *)
Lemma set_keys_ok {P : str -> Prop} k (v : val) (m : props) :
  P k -> (forall k' v', List.In (k', v') m -> P k') -> forall k' v', List.In (k', v') (set k v m) -> P k'.
Proof.
  intros Hk Hm. induction m as [|[k2 v2] r IH]; simpl.
  - intros k' v' [H|[]]. inversion H; subst. exact Hk.
  - destruct (str_eqb k k2) eqn:E.
    + intros k' v' [H|H]; [inversion H; subst; apply (Hm k' v2); left; reflexivity|apply (Hm k' v'); right; exact H].
    + intros k' v' [H|H]; [inversion H; subst; apply (Hm k' v'); left; reflexivity|].
      eapply IH; [intros; eapply Hm; right; eauto|exact H].
Qed.

Lemma chart_from_msd_ok vs c : chart_from_msd vs = Some c -> chart_ok c.
Proof.
  unfold chart_from_msd. destruct vs as [|a [|b [|c0 [|d [|e [|f extra]]]]]]; try discriminate.
  intro H. inversion H; subst. unfold chart_ok; simpl. repeat split; apply strip_idem.
Qed.

Lemma load_sm_go_wf : forall ps pr charts pr' cs,
  NoDupKeys pr -> (forall k v, List.In (k, v) pr -> key_ok k) -> (forall c, List.In c charts -> chart_ok c) ->
  load_sm_go ps pr charts = Some (pr', cs) ->
  NoDupKeys pr' /\ (forall k v, List.In (k, v) pr' -> key_ok k) /\ (forall c, List.In c cs -> chart_ok c).
Proof.
  induction ps as [|p r IH]; intros pr charts pr' cs Hnd Hk Hc H.
  - simpl in H. inversion H; subst. split; [exact Hnd|split; [exact Hk|]]. intros c Hin. rewrite rev_append_rev, app_nil_r in Hin.
    apply in_rev in Hin. auto.
  - destruct p as [|k vs]; [simpl in H; eapply IH; eauto|]. cbn [load_sm_go] in H.
    destruct (str_eqb (upper k) kNOTES) eqn:E.
    + destruct (chart_from_msd vs) as [c|] eqn:C; [|discriminate].
      eapply IH; [exact Hnd|exact Hk| |exact H]. intros c' [<-|Hin]; [eapply chart_from_msd_ok; eauto|auto].
    + eapply IH; [apply set_NoDupKeys; exact Hnd| |exact Hc|exact H].
      apply set_keys_ok; [|exact Hk]. split; [apply upper_idem|exact E].
Qed.

Theorem loaded_sm_wf strict t sf : load_sm strict t = LOk sf -> wf_sm sf.
Proof.
  unfold load_sm, load_sm_params. destruct (parse strict t) as [ps st].
  destruct (load_sm_go ps [] []) as [[pr cs]|] eqn:E; [|discriminate].
  destruct st; try discriminate. intro H. inversion H; subst.
  destruct (load_sm_go_wf ps [] [] pr cs) as (A & B & C); [apply NoDup_nil|intros ? ? []|intros ? []|exact E|].
  constructor; assumption.
Qed.

Lemma load_ssc_go_wf : forall ps pr charts partial pr' cs,
  NoDupKeys pr -> (forall k v, List.In (k, v) pr -> skey_ok k) ->
  (forall c, List.In c (match partial with Some p => p :: charts | None => charts end) ->
             NoDupKeys c /\ forall k v, List.In (k, v) c -> skey_ok k) ->
  load_ssc_go ps pr charts partial = (pr', cs) ->
  NoDupKeys pr' /\ (forall k v, List.In (k, v) pr' -> skey_ok k) /\
  (forall c, List.In c cs -> NoDupKeys c /\ forall k v, List.In (k, v) c -> skey_ok k).
Proof.
  induction ps as [|p r IH]; intros pr charts partial pr' cs Hnd Hk Hc H.
  - simpl in H. inversion H; subst. split; [exact Hnd|split; [exact Hk|]]. intros c Hin.
    rewrite rev_append_rev, app_nil_r in Hin. apply in_rev in Hin. apply Hc. destruct partial; exact Hin.
  - destruct p as [|k vs]; [simpl in H; eapply IH; eauto|]. cbn [load_ssc_go] in H.
    destruct (str_eqb (upper k) kNOTEDATA) eqn:E.
    + eapply (IH pr _ (Some [])); [exact Hnd|exact Hk| |exact H].
      intros c [<-|Hin]; [split; [apply NoDup_nil|intros ? ? []]|apply Hc; exact Hin].
    + destruct partial as [c0|].
      * eapply (IH pr charts (Some (set (upper k) (value_of (upper k) vs) c0))); [exact Hnd|exact Hk| |exact H].
        intros c [<-|Hin]; [|apply Hc; right; exact Hin].
        destruct (Hc c0 (or_introl eq_refl)) as [N K]. split; [apply set_NoDupKeys; exact N|].
        apply set_keys_ok; [split; [apply upper_idem|exact E]|exact K].
      * eapply (IH _ charts None); [apply set_NoDupKeys; exact Hnd| |exact Hc|exact H].
        apply set_keys_ok; [split; [apply upper_idem|exact E]|exact Hk].
Qed.

Theorem loaded_ssc_wf strict t sf : load_ssc strict t = LOk sf ->
  (forall c, List.In c (ssc_charts sf) -> exists nv, get (notes_key c) c = Some nv) -> wf_ssc sf.
Proof.
  unfold load_ssc, load_ssc_params. destruct (parse strict t) as [ps st].
  destruct (load_ssc_go ps [] [] None) as [pr cs] eqn:E.
  destruct st; try discriminate. intros H Hn. inversion H; subst. simpl in Hn.
  destruct (load_ssc_go_wf ps [] [] None pr cs) as (A & B & C); [apply NoDup_nil|intros ? ? []|intros ? []|exact E|].
  constructor; simpl; [exact A|exact B|]. intros c Hin. destruct (C c Hin) as [N K]. constructor; auto.
Qed.

(* ---- strict vs non-strict ---- *)
Definition sim (m m' : mode) : Prop :=
  match m, m' with
  | Out l _, Out l' _ => l = l'
  | ComOut l, ComOut l' => l = l'
  | Msd.In p, Msd.In p' => p = p'
  | ComIn p, ComIn p' => p = p'
  | _, _ => False
  end.

(* whatever strict parsing accepts, non-strict parsing reads identically *)
Lemma strict_agrees_go : forall (n : nat) s, (length s <= n)%nat -> forall m m' acc ps, sim m m' ->
  go true s m acc = (ps, StOk) -> go false s m' acc = (ps, StOk).
Proof.
  induction n as [|n IH]; intros s Hlen m m' acc ps Hsim H.
  - destruct s; [|simpl in Hlen; lia]. destruct m, m'; simpl in *; try contradiction; subst; exact H.
  - destruct s as [|c rest].
    { destruct m, m'; simpl in *; try contradiction; subst; exact H. }
    simpl in Hlen. assert (Hr : (length rest <= n)%nat) by lia.
    destruct m as [l r|p|l|p]; destruct m' as [l' r'|p'|l'|p']; simpl in Hsim; try contradiction; subst.
    + cbn [go] in *. destruct (classify c) eqn:E.
      * eapply IH; eauto. simpl. reflexivity.
      * discriminate.
      * discriminate.
      * destruct rest as [|d rest']; [discriminate|discriminate].
      * destruct (head_is_slash rest); [eapply IH; eauto; simpl; reflexivity|discriminate].
      * destruct (run_step r c); [|discriminate]. eapply IH; eauto. simpl. reflexivity.
    + cbn [go] in *. destruct (classify c) eqn:E.
      * destruct (lastnl p'); eapply IH; eauto; simpl; reflexivity.
      * eapply IH; eauto. simpl. reflexivity.
      * eapply IH; eauto. simpl. reflexivity.
      * destruct rest as [|d rest']; [exact H|]. eapply IH; [simpl in Hr; lia| |exact H]. simpl. reflexivity.
      * destruct (head_is_slash rest); eapply IH; eauto; simpl; reflexivity.
      * eapply IH; eauto. simpl. reflexivity.
    + cbn [go] in *. destruct (classify c) as [| | | | |[|]]; eapply IH; eauto; simpl; reflexivity.
    + cbn [go] in *. destruct (classify c) as [| | | | |[|]]; eapply IH; eauto; simpl; reflexivity.
Qed.

Theorem strict_agrees t ps : parse true t = (ps, StOk) -> parse false t = (ps, StOk).
Proof. unfold parse. apply (strict_agrees_go (length t) t (le_n _)). simpl. reflexivity. Qed.

(* with strict parsing off no text is ever rejected for stray text *)
Lemma nonstrict_total_go : forall (n : nat) s, (length s <= n)%nat -> forall m acc, snd (go false s m acc) <> StStray.
Proof.
  induction n as [|n IH]; intros s Hlen m acc.
  - destruct s; [|simpl in Hlen; lia]. destruct m; simpl; discriminate.
  - destruct s as [|c rest]; [destruct m; simpl; discriminate|].
    simpl in Hlen. assert (Hr : (length rest <= n)%nat) by lia.
    destruct m as [l r|p|l|p]; cbn [go].
    + destruct (classify c); try (apply IH; assumption).
      * destruct rest as [|d rest']; [simpl; discriminate|apply IH; simpl in Hr; lia].
      * destruct (head_is_slash rest); apply IH; assumption.
    + destruct (classify c); try (apply IH; assumption).
      * destruct (lastnl p); apply IH; assumption.
      * destruct rest as [|d rest']; [simpl; discriminate|apply IH; simpl in Hr; lia].
      * destruct (head_is_slash rest); apply IH; assumption.
    + destruct (classify c) as [| | | | |[|]]; apply IH; assumption.
    + destruct (classify c) as [| | | | |[|]]; apply IH; assumption.
Qed.

Theorem nonstrict_total t : snd (parse false t) <> StStray.
Proof. unfold parse. apply (nonstrict_total_go (length t) t (le_n _)). Qed.
