(* C03: the loaded simfile, stated on the list of MSD parameters rather than as the loader's loop. *)
From Coq Require Import List NArith ZArith Bool Lia.
From SV Require Import Sx Str Omap Msd Simfile.
Import ListNotations.
Open Scope N_scope.

(* ---- assigning a list of key/value pairs in order ---- *)
Section SetAll.
Context {V : Type}.
Definition setall (kvs : list (str * V)) (m : omap V) : omap V := fold_left (fun m kv => set (fst kv) (snd kv) m) kvs m.

(* the value of the last pair with that key *)
Definition last_val (k : str) (kvs : list (str * V)) (acc : option V) : option V :=
  fold_left (fun acc kv => if str_eqb k (fst kv) then Some (snd kv) else acc) kvs acc.

(* keys in order of first occurrence, after the keys already present *)
Fixpoint first_occ (seen : list str) (l : list str) : list str :=
  match l with
  | [] => seen
  | k :: r => first_occ (if mem_str k seen then seen else seen ++ [k]) r
  end.

Lemma setall_get k : forall kvs (m : omap V), get k (setall kvs m) = last_val k kvs (get k m).
Proof.
  induction kvs as [|[k' v] r IH]; intro m; [reflexivity|].
  assert (E1 : setall ((k', v) :: r) m = setall r (set k' v m)) by reflexivity.
  assert (E2 : forall acc, last_val k ((k', v) :: r) acc = last_val k r (if str_eqb k k' then Some v else acc)) by reflexivity.
  rewrite E1, E2, IH. f_equal.
  destruct (str_eqb k k') eqn:E.
  - apply str_eqb_eq in E. subst. apply get_set_same.
  - apply str_eqb_neq in E. apply get_set_other. exact E.
Qed.

Lemma has_mem k (m : omap V) : has k m = mem_str k (keys m).
Proof.
  destruct (has k m) eqn:H.
  - apply has_In in H. symmetry. apply mem_str_In. exact H.
  - symmetry. apply not_true_is_false. intro X. apply mem_str_In in X. apply has_In in X. congruence.
Qed.

Lemma setall_keys : forall kvs (m : omap V), keys (setall kvs m) = first_occ (keys m) (map fst kvs).
Proof.
  induction kvs as [|[k v] r IH]; intro m; [reflexivity|].
  assert (E1 : setall ((k, v) :: r) m = setall r (set k v m)) by reflexivity.
  rewrite E1, IH, keys_set, has_mem. cbn [map first_occ fst]. destruct (mem_str k (keys m)); reflexivity.
Qed.
End SetAll.

(* ---- SM ---- *)
Definition is_notes (k : str) : bool := str_eqb (upper k) kNOTES.
Definition kv_of (p : param) : list (str * val) :=
  match p with [] => [] | k :: vs => [(upper k, value_of (upper k) vs)] end.
Definition sm_prop_kvs (ps : list param) : list (str * val) :=
  flat_map (fun p => match p with k :: _ => if is_notes k then [] else kv_of p | [] => [] end) ps.
Definition sm_chart_params (ps : list param) : list (list str) :=
  flat_map (fun p => match p with k :: vs => if is_notes k then [vs] else [] | [] => [] end) ps.

Lemma sequence_app {T} (a b : list (option T)) :
  sequence (a ++ b) = match sequence a, sequence b with Some x, Some y => Some (x ++ y) | _, _ => None end.
Proof.
  induction a as [|[x|] a IH]; simpl.
  - destruct (sequence b); reflexivity.
  - rewrite IH. destruct (sequence a); [destruct (sequence b)|]; reflexivity.
  - reflexivity.
Qed.

Lemma load_sm_go_spec : forall ps pr charts,
  load_sm_go ps pr charts =
  match sequence (map chart_from_msd (sm_chart_params ps)) with
  | Some cs => Some (setall (sm_prop_kvs ps) pr, rev charts ++ cs)
  | None => None
  end.
Proof.
  induction ps as [|p ps IH]; intros pr charts.
  - simpl. rewrite rev_append_rev, app_nil_r. reflexivity.
  - destruct p as [|k vs]; [simpl; apply IH|].
    cbn [load_sm_go sm_prop_kvs sm_chart_params flat_map]. fold (sm_prop_kvs ps). fold (sm_chart_params ps).
    unfold is_notes. destruct (str_eqb (upper k) kNOTES) eqn:E.
    + cbn [app map sequence]. destruct (chart_from_msd vs) as [c|]; [|reflexivity].
      rewrite IH. destruct (sequence (map chart_from_msd (sm_chart_params ps))); [|reflexivity].
      cbn [rev]. rewrite <- app_assoc. reflexivity.
    + cbn [app kv_of]. rewrite IH. reflexivity.
Qed.

(* the SM simfile a parameter list loads to: properties assigned in order under their upper-cased keys (so a
   repeated key keeps its first position and takes the last value), one chart per NOTES parameter, in order *)
Theorem load_sm_spec ps st :
  load_sm_params ps st =
  match sequence (map chart_from_msd (sm_chart_params ps)) with
  | Some cs => of_status st {| sm_props := setall (sm_prop_kvs ps) []; sm_charts := cs |}
  | None => LErrValue
  end.
Proof.
  unfold load_sm_params. rewrite load_sm_go_spec. destruct (sequence _); reflexivity.
Qed.

(* ---- SSC ---- *)
Definition is_notedata (k : str) : bool := str_eqb (upper k) kNOTEDATA.
(* header parameters, then one segment per NOTEDATA marker *)
Fixpoint ssc_split (ps : list param) : list param * list (list param) :=
  match ps with
  | [] => ([], [])
  | [] :: r => ssc_split r
  | (k :: vs) :: r =>
      let '(h, cs) := ssc_split r in
      if is_notedata k then ([], h :: cs) else ((k :: vs) :: h, cs)
  end.
Definition kvs_of (seg : list param) : list (str * val) := flat_map kv_of seg.
Definition chart_of (seg : list param) : props := setall (kvs_of seg) [].

Lemma load_ssc_go_spec : forall ps pr charts partial,
  load_ssc_go ps pr charts partial =
  let '(h, cs) := ssc_split ps in
  match partial with
  | None => (setall (kvs_of h) pr, rev charts ++ map chart_of cs)
  | Some c => (pr, rev charts ++ setall (kvs_of h) c :: map chart_of cs)
  end.
Proof.
  induction ps as [|p ps IH]; intros pr charts partial.
  - cbn [load_ssc_go ssc_split]. destruct partial; cbn [kvs_of flat_map setall fold_left map]; rewrite rev_append_rev, app_nil_r; reflexivity.
  - destruct p as [|k vs]; [cbn [load_ssc_go ssc_split]; apply IH|].
    cbn [load_ssc_go ssc_split]. destruct (ssc_split ps) as [h cs] eqn:S. unfold is_notedata.
    destruct (str_eqb (upper k) kNOTEDATA) eqn:E.
    + rewrite IH. destruct partial as [c|]; cbn [kvs_of flat_map setall fold_left map rev]; [rewrite <- app_assoc|]; reflexivity.
    + destruct partial as [c|]; rewrite IH; cbn [kvs_of flat_map kv_of app setall fold_left fst snd]; reflexivity.
Qed.

(* the SSC simfile a parameter list loads to: every parameter after a NOTEDATA marker belongs to that chart *)
Theorem load_ssc_spec ps st :
  load_ssc_params ps st =
  let '(h, cs) := ssc_split ps in
  of_status st {| ssc_props := setall (kvs_of h) []; ssc_charts := map chart_of cs |}.
Proof.
  unfold load_ssc_params. rewrite load_ssc_go_spec. destruct (ssc_split ps) as [h cs]. reflexivity.
Qed.
