(* C01: load_sm strict (ser_sm sf) = LOk sf *)
From Coq Require Import List NArith ZArith Bool Lia.
From SV Require Import Sx Str Omap Msd Simfile Proofs.MsdFacts Proofs.StrFacts.
Import ListNotations.
Open Scope N_scope.

(* ---- the serialised text as chunks ---- *)
Definition chunks_props (pr : props) : list chunk :=
  flat_map (fun kv => [CP (prop_comps (fst kv) (snd kv)); CN]) pr.
Definition chunks_sm (sf : smsimfile) : list chunk :=
  chunks_props (sm_props sf) ++ [CN] ++ flat_map (fun c => [CP (chart_comps c); CN]) (sm_charts sf).

Lemma render_chunks_app a b : render_chunks (a ++ b) = render_chunks a ++ render_chunks b.
Proof. unfold render_chunks. apply flat_map_app. Qed.

Lemma render_chunks_props pr : render_chunks (chunks_props pr) = ser_props pr.
Proof.
  unfold chunks_props, ser_props, render_chunks. induction pr as [|[k v] r IH]; [reflexivity|].
  cbn [flat_map app fst snd render_chunk]. rewrite IH. unfold NL. rewrite <- app_assoc. reflexivity.
Qed.

Lemma ser_sm_chunks sf : ser_sm sf = render_chunks (chunks_sm sf).
Proof.
  unfold ser_sm, chunks_sm. rewrite !render_chunks_app, render_chunks_props. f_equal. f_equal.
  unfold render_chunks, ser_sm_chart, NL. induction (sm_charts sf) as [|c r IH]; [reflexivity|].
  cbn [flat_map app render_chunk]. rewrite IH, <- app_assoc. reflexivity.
Qed.

Lemma params_of_app a b : params_of (a ++ b) = params_of a ++ params_of b.
Proof. induction a as [|[p|] a IH]; simpl; [reflexivity| |]; rewrite IH; reflexivity. Qed.

Lemma params_of_props pr : params_of (chunks_props pr) = map (fun kv => prop_comps (fst kv) (snd kv)) pr.
Proof. unfold chunks_props. induction pr as [|kv r IH]; [reflexivity|]. cbn [flat_map app params_of map]. rewrite IH. reflexivity. Qed.

Lemma params_of_sm sf :
  params_of (chunks_sm sf) = map (fun kv => prop_comps (fst kv) (snd kv)) (sm_props sf) ++ map chart_comps (sm_charts sf).
Proof.
  unfold chunks_sm. rewrite !params_of_app, params_of_props. f_equal. simpl.
  induction (sm_charts sf) as [|c r IH]; [reflexivity|]. cbn [flat_map app params_of map]. rewrite IH. reflexivity.
Qed.

(* ---- well-formed simfiles (the quantifier of C01) and the K1 complement in context ---- *)
Definition key_ok (k : str) : Prop := upper k = k /\ str_eqb k kNOTES = false.
Definition chart_ok (c : smchart) : Prop :=
  strip (c_stepstype c) = c_stepstype c /\ strip (c_description c) = c_description c /\
  strip (c_difficulty c) = c_difficulty c /\ strip (c_meter c) = c_meter c /\
  strip (c_radarvalues c) = c_radarvalues c /\ strip (c_notes c) = c_notes c.
Record wf_sm (sf : smsimfile) : Prop := {
  wf_nodup : NoDupKeys (sm_props sf);
  wf_keys : forall k v, List.In (k, v) (sm_props sf) -> key_ok k;
  wf_charts : forall c, List.In c (sm_charts sf) -> chart_ok c
}.
(* every component lies outside msdparser's escaping gaps, given the recovery flag the
   tokenizer really has at that point of the text *)
Definition safe_sm (sf : smsimfile) : bool := safe_chunks false (chunks_sm sf).

(* ---- the loader on those parameters ---- *)
Lemma set_fresh {V} k (v : V) m : has k m = false -> set k v m = m ++ [(k, v)].
Proof.
  unfold has. induction m as [|[k' v'] r IH]; simpl; [reflexivity|].
  destruct (str_eqb k k'); [discriminate|]. intro H. rewrite IH by assumption. reflexivity.
Qed.

Lemma value_of_prop_comps k v : value_of k (tl (prop_comps k v)) = v.
Proof.
  unfold prop_comps, value_of. destruct v as [s|]; [|reflexivity].
  destruct (is_multi k) eqn:M; cbn [tl]; [|reflexivity].
  destruct (split_on_nonempty 58 s) as (x & r & E). rewrite E. rewrite <- E, join_split. reflexivity.
Qed.

Lemma prop_comps_shape k v : exists vs, prop_comps k v = k :: vs.
Proof. unfold prop_comps. destruct v as [s|]; [destruct (is_multi k)|]; eauto. Qed.

Lemma has_app_r {V} k (m : omap V) kv : has k (m ++ [kv]) = has k m || str_eqb k (fst kv).
Proof.
  unfold has. induction m as [|[k' v'] r IH]; simpl.
  - destruct kv as [k2 v2]. simpl. destruct (str_eqb k k2); reflexivity.
  - destruct (str_eqb k k'); [reflexivity|exact IH].
Qed.

Lemma load_props : forall pr pr0 charts rest,
  (forall k v, List.In (k, v) pr -> key_ok k) ->
  NoDup (keys pr0 ++ keys pr) ->
  load_sm_go (map (fun kv => prop_comps (fst kv) (snd kv)) pr ++ rest) pr0 charts =
  load_sm_go rest (pr0 ++ pr) charts.
Proof.
  induction pr as [|[k v] r IH]; intros pr0 charts rest Hk Hnd.
  - rewrite app_nil_r. reflexivity.
  - cbn [map app fst snd]. destruct (prop_comps_shape k v) as [vs E].
    pose proof (value_of_prop_comps k v) as Hv. rewrite E in *. cbn [tl] in Hv.
    cbn [load_sm_go]. destruct (Hk k v (or_introl eq_refl)) as [Hu Hn]. rewrite Hu, Hn, Hv.
    assert (Hfresh : has k pr0 = false).
    { destruct (has k pr0) eqn:H; [|reflexivity]. exfalso. apply has_In in H.
      cbn [keys map fst] in Hnd. apply NoDup_remove_2 in Hnd. apply Hnd. apply in_or_app. left. exact H. }
    rewrite set_fresh by assumption.
    rewrite IH.
    + rewrite <- app_assoc. reflexivity.
    + intros k' v' H. apply (Hk k' v'). right. exact H.
    + unfold keys in *. rewrite map_app. cbn [map fst]. rewrite <- app_assoc. exact Hnd.
Qed.

Lemma upper_kNOTES : upper kNOTES = kNOTES. Proof. vm_compute. reflexivity. Qed.

Lemma chart_roundtrip c : chart_ok c -> chart_from_msd (tl (chart_comps c)) = Some c.
Proof.
  intros (H1 & H2 & H3 & H4 & H5 & H6). unfold chart_comps. cbn [tl chart_from_msd].
  unfold pad5, NL. rewrite !strip_pad5, strip_nl_wrap, H1, H2, H3, H4, H5, H6. destruct c; reflexivity.
Qed.

Lemma load_charts : forall cs pr acc,
  (forall c, List.In c cs -> chart_ok c) ->
  load_sm_go (map chart_comps cs) pr acc = Some (pr, rev acc ++ cs).
Proof.
  induction cs as [|c r IH]; intros pr acc H.
  - simpl. rewrite rev_append_rev, !app_nil_r. reflexivity.
  - cbn [map]. unfold chart_comps at 1. cbn [load_sm_go]. rewrite upper_kNOTES. rewrite str_eqb_refl.
    pose proof (chart_roundtrip c (H c (or_introl eq_refl))) as Hc. unfold chart_comps in Hc. cbn [tl] in Hc. rewrite Hc.
    rewrite IH by (intros; apply H; right; assumption). cbn [rev]. rewrite <- app_assoc. reflexivity.
Qed.

Theorem sm_roundtrip strict sf : wf_sm sf -> safe_sm sf = true -> load_sm strict (ser_sm sf) = LOk sf.
Proof.
  intros [Hnd Hk Hc] Hs. unfold load_sm. rewrite ser_sm_chunks, (parse_chunks strict _ Hs).
  unfold load_sm_params. rewrite params_of_sm, (load_props (sm_props sf) [] []); [|exact Hk|exact Hnd].
  rewrite load_charts by exact Hc. cbn [app rev of_status]. destruct sf; reflexivity.
Qed.

(* serialising the reloaded simfile reproduces the text (immediate) and the text is detected as SM *)
Lemma first_key_not_version sf : wf_sm sf ->
  (forall k v r, sm_props sf = (k, v) :: r -> str_eqb k kVERSION = false) ->
  detect_by_content (params_of (chunks_sm sf)) = FSM.
Proof.
  intros [_ Hk _] Hv. rewrite params_of_sm. destruct (sm_props sf) as [|[k v] r] eqn:E.
  - cbn [map app]. destruct (sm_charts sf) as [|c cs]; [reflexivity|]. cbn [map]. unfold chart_comps, detect_by_content.
    rewrite upper_kNOTES. reflexivity.
  - cbn [map app fst snd]. destruct (prop_comps_shape k v) as [vs Evs]. rewrite Evs. unfold detect_by_content.
    destruct (Hk k v (or_introl eq_refl)) as [Hu _]. rewrite Hu, (Hv k v r eq_refl). reflexivity.
Qed.

Theorem sm_detected strict sf : wf_sm sf -> safe_sm sf = true ->
  (forall k v r, sm_props sf = (k, v) :: r -> str_eqb k kVERSION = false) ->
  load strict None (ser_sm sf) = LOk (SM sf).
Proof.
  intros Hwf Hs Hv. pose proof (sm_roundtrip strict sf Hwf Hs) as R. unfold load_sm in R. unfold load.
  rewrite ser_sm_chunks, (parse_chunks strict _ Hs) in *.
  rewrite (first_key_not_version sf Hwf Hv), R.
  destruct (params_of (chunks_sm sf)); reflexivity.
Qed.

(* each chart is one NOTES parameter: six fields in documented order, then the extra components *)
Lemma chart_param_shape c :
  chart_comps c = kNOTES :: (pad5 ++ c_stepstype c) :: (pad5 ++ c_description c) :: (pad5 ++ c_difficulty c) ::
                  (pad5 ++ c_meter c) :: (pad5 ++ c_radarvalues c) :: (NL ++ c_notes c ++ NL) :: c_extra c.
Proof. reflexivity. Qed.

(* ATTACKS / DISPLAYBPM: components are the colon-separated pieces, i.e. the colons are structural *)
Lemma multivalue_unescaped k s : is_multi k = true -> prop_comps k (Some s) = k :: split_on 58 s.
Proof. intro H. unfold prop_comps. rewrite H. reflexivity. Qed.
