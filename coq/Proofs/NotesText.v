(* Note data, lexical layer (C07 / C08): the canonical text of a grid of cells parses back to that grid. *)
From Coq Require Import List ZArith NArith Bool Lia.
From SV Require Import Sx Str Notes Generated.Tables Proofs.StrFacts.
Import ListNotations.
Open Scope N_scope.

(* ---- canonical text of a grid ---- *)
Definition cell_text (c : cell) : str :=
  match c with
  | None => [48]
  | Some (t, None) => [t]
  | Some (t, Some k) => t :: 91 :: digits_of_N (Z.to_N k) ++ [93]
  end.
Definition row_text (cs : list cell) : str := concat (map cell_text cs).
Definition measure_text (m : measure) : str := concat (map (fun r => row_text r ++ [10]) m).
Definition player_text (p : list measure) : str := join comma_nl (map measure_text p).
Definition grid_text (g : grid) : str := join amp_nl (map player_text g).

(* characters that are neither blank, nor a line break, nor one of the two separators *)
Definition plain (c : N) : bool := negb (is_space c) && negb (is_lb c) && negb (N.eqb c 44) && negb (N.eqb c 38).

Lemma note_chars_ok : forallb (fun c => plain c && negb (N.eqb c 48) && negb (N.eqb c 91)) note_chars = true.
Proof. vm_compute. reflexivity. Qed.

Lemma note_char_facts t : is_note_char t = true -> plain t = true /\ N.eqb t 48 = false /\ N.eqb t 91 = false.
Proof.
  unfold is_note_char. intro H. apply existsb_exists in H as [c [Hc E]]. apply N.eqb_eq in E. subst c.
  pose proof note_chars_ok as T. rewrite forallb_forall in T. specialize (T t Hc).
  apply andb_prop in T as [T T3]. apply andb_prop in T as [T1 T2].
  repeat split; [exact T1|apply negb_true_iff; exact T2|apply negb_true_iff; exact T3].
Qed.

Definition cell_ok (c : cell) : Prop :=
  match c with
  | None => True
  | Some (t, ks) => is_note_char t = true /\ match ks with Some k => (0 <= k)%Z | None => True end
  end.

(* ---- digits ---- *)
Lemma str_of_uint_digits u : forallb is_digit (str_of_uint u) = true.
Proof. induction u; simpl; try rewrite IHu; reflexivity. Qed.
Lemma digits_of_N_digits n : forallb is_digit (digits_of_N n) = true.
Proof. apply str_of_uint_digits. Qed.

Lemma digit_facts c : is_digit c = true -> plain c = true /\ N.eqb c 93 = false.
Proof.
  unfold is_digit. intro H. apply andb_prop in H as [H1 H2]. apply N.leb_le in H1. apply N.leb_le in H2.
  split; [|apply N.eqb_neq; lia].
  unfold plain, is_space, is_lb, space_points, line_breaks. simpl.
  repeat match goal with |- context [N.eqb c ?k] => let E := fresh in destruct (N.eqb c k) eqn:E; [apply N.eqb_eq in E; lia|] end.
  reflexivity.
Qed.

(* ---- one row ---- *)
Lemma read_bracket_digits : forall ds acc rest, forallb is_digit ds = true ->
  read_bracket (ds ++ 93 :: rest) acc =
  match N_of_digits (rev acc ++ ds) with Some v => Some (Z.of_N v, rest) | None => None end.
Proof.
  induction ds as [|d ds IH]; intros acc rest H; simpl.
  - rewrite rev_append_rev, !app_nil_r. reflexivity.
  - simpl in H. apply andb_prop in H as [Hd Hds]. destruct (digit_facts d Hd) as [_ E]. rewrite E, Hd.
    rewrite IH by exact Hds. simpl. rewrite <- app_assoc. reflexivity.
Qed.

Lemma parse_row_cells : forall cs fuel acc, (length (row_text cs) < fuel)%nat -> Forall cell_ok cs ->
  parse_row fuel (row_text cs) acc = Some (rev_append acc cs).
Proof.
  induction cs as [|c cs IH]; intros fuel acc Hf Hok.
  - destruct fuel as [|f]; [simpl in Hf; lia|]. reflexivity.
  - inversion Hok as [|? ? Hc Hcs]; subst. unfold row_text in *. cbn [map concat] in *. rewrite app_length in Hf.
    destruct c as [[t [k|]]|]; cbn [cell_text] in *.
    + destruct Hc as [Ht Hk]. destruct (note_char_facts t Ht) as (_ & T48 & T91).
      destruct fuel as [|f]; [lia|]. cbn [app parse_row]. rewrite T48, T91, Ht.
      destruct f as [|f]; [simpl in Hf; lia|]. cbn [parse_row]. change (91 =? 48) with false. change (91 =? 91) with true. cbv iota.
      rewrite <- app_assoc. cbn [app].
      rewrite read_bracket_digits by apply digits_of_N_digits. cbn [rev app].
      rewrite N_of_digits_of_N, Z2N.id by exact Hk.
      rewrite IH; [reflexivity| |exact Hcs]. simpl in Hf. rewrite app_length in Hf. simpl in Hf. lia.
    + destruct Hc as [Ht _]. destruct (note_char_facts t Ht) as (_ & T48 & T91).
      destruct fuel as [|f]; [lia|]. cbn [app parse_row]. rewrite T48, T91, Ht.
      rewrite IH; [reflexivity| |exact Hcs]. simpl in Hf. lia.
    + destruct fuel as [|f]; [lia|]. cbn [app parse_row]. change (48 =? 48) with true. cbv iota.
      rewrite IH; [reflexivity| |exact Hcs]. simpl in Hf. lia.
Qed.

Lemma parse_row_text cs : Forall cell_ok cs -> parse_row_top (row_text cs) = Some cs.
Proof. intro H. unfold parse_row_top. rewrite parse_row_cells; [reflexivity|lia|exact H]. Qed.

Lemma forallb_app' {T} (f : T -> bool) a b : forallb f a = true -> forallb f b = true -> forallb f (a ++ b) = true.
Proof. intros. rewrite forallb_app. rewrite H, H0. reflexivity. Qed.

Lemma digits_plain ds : forallb is_digit ds = true -> forallb plain ds = true.
Proof.
  induction ds as [|d ds IH]; simpl; intro H; [reflexivity|]. apply andb_prop in H as [A B].
  rewrite (proj1 (digit_facts d A)), (IH B). reflexivity.
Qed.

Lemma cell_text_plain c : cell_ok c -> forallb plain (cell_text c) = true.
Proof.
  destruct c as [[t [k|]]|]; simpl; [| |reflexivity].
  - intros [Ht _]. rewrite (proj1 (note_char_facts t Ht)). change (plain 91) with true. cbn [andb].
    apply forallb_app'; [apply digits_plain, digits_of_N_digits|reflexivity].
  - intros [Ht _]. rewrite (proj1 (note_char_facts t Ht)). reflexivity.
Qed.

Lemma row_text_plain cs : Forall cell_ok cs -> forallb plain (row_text cs) = true.
Proof.
  induction 1 as [|c cs Hc Hcs IH]; [reflexivity|]. unfold row_text. cbn [map concat].
  apply forallb_app'; [apply cell_text_plain; exact Hc|exact IH].
Qed.

Lemma cell_text_nonempty c : cell_text c <> [].
Proof. destruct c as [[t [k|]]|]; discriminate. Qed.
Lemma row_text_nonempty cs : cs <> [] -> row_text cs <> [].
Proof.
  destruct cs as [|c cs]; [congruence|]. intros _. unfold row_text. cbn [map concat].
  pose proof (cell_text_nonempty c). destruct (cell_text c); [congruence|discriminate].
Qed.

(* ---- strip ---- *)
Lemma plain_not_space c : plain c = true -> is_space c = false.
Proof. unfold plain. intro H. repeat (apply andb_prop in H as [H ?]). apply negb_true_iff. exact H. Qed.
Lemma plain_not_lb c : plain c = true -> is_lb c = false.
Proof. unfold plain. intro H. apply andb_prop in H as [H _]. apply andb_prop in H as [H _]. apply andb_prop in H as [_ H]. apply negb_true_iff. exact H. Qed.
Lemma plain_not_comma c : plain c = true -> N.eqb c 44 = false.
Proof. unfold plain. intro H. apply andb_prop in H as [H _]. apply andb_prop in H as [_ H]. apply negb_true_iff. exact H. Qed.
Lemma plain_not_amp c : plain c = true -> N.eqb c 38 = false.
Proof. unfold plain. intro H. apply andb_prop in H as [_ H]. apply negb_true_iff. exact H. Qed.

Lemma rstrip_nonspace_end s c : is_space c = false -> rstrip (s ++ [c]) = s ++ [c].
Proof.
  intro H. unfold rstrip. assert (G : forall s p, rstrip_go (s ++ [c]) p = rev p ++ s ++ [c]).
  { induction s0 as [|x s0 IH]; intro p; simpl.
    - rewrite H. rewrite rev_append_rev. reflexivity.
    - destruct (is_space x).
      + rewrite IH. simpl. rewrite <- app_assoc. reflexivity.
      + rewrite IH. rewrite rev_append_rev. reflexivity. }
  rewrite G. reflexivity.
Qed.

(* text whose first and last characters are not blank is left alone by strip *)
Lemma strip_ends s c d : is_space c = false -> is_space d = false -> strip (c :: s ++ [d]) = c :: s ++ [d].
Proof.
  intros Hc Hd. unfold strip. simpl. rewrite Hc. change (c :: s ++ [d]) with ((c :: s) ++ [d]). apply rstrip_nonspace_end. exact Hd.
Qed.
Lemma strip_one c : is_space c = false -> strip [c] = [c].
Proof. intro H. unfold strip, rstrip. simpl. rewrite H. simpl. rewrite H. reflexivity. Qed.

Definition first_last_ok (s : str) : Prop :=
  (exists c, s = [c] /\ is_space c = false) \/ (exists c m d, s = c :: m ++ [d] /\ is_space c = false /\ is_space d = false).

Lemma strip_first_last s : first_last_ok s -> strip s = s.
Proof. intros [(c & -> & H)|(c & m & d & -> & H1 & H2)]; [apply strip_one; exact H|apply strip_ends; assumption]. Qed.

Lemma plain_first_last s : s <> [] -> forallb plain s = true -> first_last_ok s.
Proof.
  intros Hne Hp. destruct s as [|c s]; [congruence|]. simpl in Hp. apply andb_prop in Hp as [Hc Hs].
  destruct s as [|x s'] eqn:Es; [left; exists c; split; [reflexivity|apply plain_not_space; exact Hc]|].
  right. destruct (exists_last (l := x :: s')) as (m & d & E); [discriminate|]. rewrite E in *.
  exists c, m, d. split; [reflexivity|]. split; [apply plain_not_space; exact Hc|].
  rewrite forallb_app in Hs. apply andb_prop in Hs as [_ Hd]. simpl in Hd. apply andb_prop in Hd as [Hd _]. apply plain_not_space. exact Hd.
Qed.

Lemma strip_plain s : s <> [] -> forallb plain s = true -> strip s = s.
Proof. intros. apply strip_first_last, plain_first_last; assumption. Qed.

(* joining first_last_ok pieces with a separator keeps the ends *)
Lemma first_last_app a mid b : first_last_ok a -> first_last_ok b -> first_last_ok (a ++ mid ++ b).
Proof.
  intros Ha Hb. right.
  assert (Hhd : exists c ra, a = c :: ra /\ is_space c = false).
  { destruct Ha as [(c & -> & H)|(c & m & d & -> & H & _)]; eauto. }
  assert (Hlast : exists rb d, b = rb ++ [d] /\ is_space d = false).
  { destruct Hb as [(c & -> & H)|(c & m & d & -> & _ & H)]; [exists [], c; auto|exists (c :: m), d; auto]. }
  destruct Hhd as (c & ra & -> & Hc). destruct Hlast as (rb & d & -> & Hd).
  exists c, (ra ++ mid ++ rb), d. split; [|auto]. simpl. rewrite <- !app_assoc. reflexivity.
Qed.

Lemma join_first_last sep : forall l, l <> [] -> Forall first_last_ok l -> first_last_ok (join sep l).
Proof.
  induction l as [|x l IH]; intros Hne Hall; [congruence|]. inversion Hall; subst.
  destruct l as [|y l']; [simpl; assumption|]. rewrite join_cons2. apply first_last_app; [assumption|apply IH; [discriminate|assumption]].
Qed.

(* ---- splitlines ---- *)
Lemma splitlines_go_nolb : forall r rest cur, forallb (fun c => negb (is_lb c)) r = true ->
  splitlines_go (r ++ rest) cur = splitlines_go rest (rev r ++ cur).
Proof.
  induction r as [|c r IH]; intros rest cur H; [reflexivity|].
  simpl in H. apply andb_prop in H as [Hc Hr]. apply negb_true_iff in Hc. cbn [app splitlines_go]. rewrite Hc.
  rewrite IH by exact Hr. simpl. rewrite <- app_assoc. reflexivity.
Qed.

Lemma splitlines_join : forall rows, rows <> [] -> Forall (fun r => r <> [] /\ forallb (fun c => negb (is_lb c)) r = true) rows ->
  splitlines (join [10] rows) = rows.
Proof.
  unfold splitlines. induction rows as [|r rows IH]; intros Hne Hall; [congruence|]. inversion Hall as [|? ? [Hr1 Hr2] Hrest]; subst.
  destruct rows as [|r2 rows'].
  - simpl. rewrite <- (app_nil_r r) at 1. rewrite splitlines_go_nolb by exact Hr2. simpl. rewrite app_nil_r.
    destruct (rev r) eqn:E; [apply (f_equal (@rev N)) in E; rewrite rev_involutive in E; simpl in E; congruence|].
    rewrite <- E, rev_append_rev, rev_involutive, app_nil_r. reflexivity.
  - rewrite join_cons2. rewrite splitlines_go_nolb by exact Hr2. cbn [app splitlines_go].
    change (is_lb 10) with true. cbv iota. change (10 =? 13) with false. cbv iota.
    rewrite app_nil_r, rev_append_rev, rev_involutive, app_nil_r. f_equal. apply IH; [discriminate|exact Hrest].
Qed.

(* ---- one measure ---- *)
Definition row_ok (r : list cell) : Prop := r <> [] /\ Forall cell_ok r.
Definition measure_ok (m : measure) : Prop := m <> [] /\ Forall row_ok m.

Lemma measure_text_join : forall m, m <> [] -> measure_text m = join [10] (map row_text m) ++ [10].
Proof.
  induction m as [|r m IH]; intro H; [congruence|]. unfold measure_text in *. cbn [map concat].
  destruct m as [|r2 m']; [simpl; rewrite app_nil_r; reflexivity|].
  rewrite IH by discriminate. cbn [map]. rewrite join_cons2. rewrite <- !app_assoc. reflexivity.
Qed.

Lemma sequence_map_some {A B} (f : A -> option B) (g : A -> B) l : (forall x, In x l -> f x = Some (g x)) ->
  sequence (map f l) = Some (map g l).
Proof.
  induction l as [|x l IH]; intro H; [reflexivity|]. simpl. rewrite (H x (or_introl eq_refl)), IH; [reflexivity|].
  intros y Hy. apply H. right. exact Hy.
Qed.

Lemma plain_nolb s : forallb plain s = true -> forallb (fun c => negb (is_lb c)) s = true.
Proof.
  induction s as [|c s IH]; simpl; intro H; [reflexivity|]. apply andb_prop in H as [A B].
  rewrite (plain_not_lb c A), (IH B). reflexivity.
Qed.

Lemma rows_first_last m : measure_ok m -> first_last_ok (join [10] (map row_text m)).
Proof.
  intros [Hne Hall]. apply join_first_last; [destruct m; [congruence|discriminate]|].
  apply Forall_forall. intros s Hs. apply in_map_iff in Hs as [r [<- Hr]]. rewrite Forall_forall in Hall.
  destruct (Hall r Hr) as [A B]. apply plain_first_last; [apply row_text_nonempty; exact A|apply row_text_plain; exact B].
Qed.

(* a measure's text, with or without the line break that follows a separator, parses back to the measure *)
Lemma parse_measure_text m (pre : str) : (pre = [] \/ pre = [10]) -> measure_ok m -> parse_measure (pre ++ measure_text m) = Some m.
Proof.
  intros Hpre Hm. pose proof Hm as [Hne Hall]. unfold parse_measure.
  rewrite measure_text_join by exact Hne.
  assert (Hs : strip (pre ++ join [10] (map row_text m) ++ [10]) = join [10] (map row_text m)).
  { destruct Hpre as [-> | ->]; cbn [app]; [|rewrite strip_cons_space by reflexivity];
      rewrite strip_snoc by reflexivity; apply strip_first_last, rows_first_last; exact Hm. }
  rewrite Hs. rewrite splitlines_join.
  - rewrite map_map. rewrite (sequence_map_some _ (fun r => r)); [rewrite map_id; reflexivity|].
    intros r Hr. rewrite Forall_forall in Hall. destruct (Hall r Hr) as [A B].
    rewrite strip_plain; [apply parse_row_text; exact B|apply row_text_nonempty; exact A|apply row_text_plain; exact B].
  - destruct m; [congruence|discriminate].
  - apply Forall_forall. intros s Hs'. apply in_map_iff in Hs' as [r [<- Hr]]. rewrite Forall_forall in Hall.
    destruct (Hall r Hr) as [A B]. split; [apply row_text_nonempty; exact A|apply plain_nolb, row_text_plain; exact B].
Qed.

(* ---- splitting on the separators ---- *)
Definition nosep (sep : N) (s : str) : Prop := forallb (fun c => negb (N.eqb c sep)) s = true.

Lemma split_go_nosep sep : forall s cur, nosep sep s -> split_go sep s cur = [rev cur ++ s].
Proof.
  induction s as [|c s IH]; intros cur H; simpl.
  - rewrite rev_append_rev, !app_nil_r. reflexivity.
  - unfold nosep in H. simpl in H. apply andb_prop in H as [A B]. apply negb_true_iff in A. rewrite A.
    rewrite IH by exact B. simpl. rewrite <- app_assoc. reflexivity.
Qed.

Lemma split_go_sep sep : forall x cur rest, nosep sep x ->
  split_go sep (x ++ sep :: rest) cur = (rev cur ++ x) :: split_go sep rest [].
Proof.
  induction x as [|c x IH]; intros cur rest H; simpl.
  - rewrite N.eqb_refl, rev_append_rev, !app_nil_r. reflexivity.
  - unfold nosep in H. simpl in H. apply andb_prop in H as [A B]. apply negb_true_iff in A. rewrite A.
    rewrite IH by exact B. simpl. rewrite <- app_assoc. reflexivity.
Qed.

(* pieces joined by "<sep>\n": the first piece comes back as it is, the others with the line break in front *)
Lemma split_join sep : sep <> 10 -> forall xs pre, xs <> [] -> nosep sep pre -> Forall (nosep sep) xs ->
  split_on sep (pre ++ join [sep; 10] xs) =
  match xs with x :: r => (pre ++ x) :: map (app [10]) r | [] => [] end.
Proof.
  intros Hsep. unfold split_on. induction xs as [|x xs IH]; intros pre Hne Hpre Hall; [congruence|].
  inversion Hall as [|? ? Hx Hxs]; subst. destruct xs as [|y xs'].
  - simpl. rewrite split_go_nosep; [reflexivity|]. unfold nosep in *. rewrite forallb_app, Hpre, Hx. reflexivity.
  - rewrite join_cons2. rewrite app_assoc. cbn [app]. rewrite split_go_sep.
    + cbn [rev app]. f_equal. specialize (IH [10]). cbn [app] in IH. rewrite IH; [reflexivity|discriminate| |exact Hxs].
      unfold nosep. cbn [forallb]. destruct (N.eqb_spec 10 sep); [congruence|reflexivity].
    + unfold nosep in *. rewrite forallb_app, Hpre, Hx. reflexivity.
Qed.

Definition player_ok (p : list measure) : Prop := p <> [] /\ Forall measure_ok p.
Definition grid_ok (g : grid) : Prop := g <> [] /\ Forall player_ok g.

Lemma measure_text_chars m : Forall row_ok m -> forallb (fun c => plain c || N.eqb c 10) (measure_text m) = true.
Proof.
  induction 1 as [|r m [_ Hr] Hm IH]; [reflexivity|]. unfold measure_text. cbn [map concat].
  rewrite !forallb_app. fold (measure_text m). rewrite IH. simpl.
  pose proof (row_text_plain r Hr) as P. rewrite andb_true_r.
  assert (forallb (fun c => plain c || (c =? 10)) (row_text r) = true); [|rewrite H; reflexivity].
  clear -P. induction (row_text r) as [|c s IH]; [reflexivity|]. simpl in *. apply andb_prop in P as [A B]. rewrite A, (IH B). reflexivity.
Qed.

Lemma chars_nosep sep s : sep <> 10 -> (sep = 44 \/ sep = 38) -> forallb (fun c => plain c || N.eqb c 10) s = true -> nosep sep s.
Proof.
  intros H10 Hsep. unfold nosep. induction s as [|c s IH]; simpl; intro H; [reflexivity|]. apply andb_prop in H as [A B].
  rewrite (IH B), andb_true_r. apply negb_true_iff. apply orb_prop in A as [A|A].
  - destruct Hsep as [-> | ->]; [apply plain_not_comma|apply plain_not_amp]; exact A.
  - apply N.eqb_eq in A. subst c. apply N.eqb_neq. congruence.
Qed.

Lemma parse_player_text p (pre : str) : (pre = [] \/ pre = [10]) -> player_ok p -> parse_player (pre ++ player_text p) = Some p.
Proof.
  intros Hpre [Hne Hall]. unfold parse_player, player_text, comma_nl.
  rewrite (split_join 44); [|discriminate|destruct p; [congruence|discriminate]| |].
  - destruct p as [|m p']; [congruence|]. cbn [map]. inversion Hall as [|? ? Hm Hp']; subst.
    cbn [sequence]. rewrite (parse_measure_text m pre Hpre Hm).
    rewrite !map_map. rewrite (sequence_map_some _ (fun m => m)); [rewrite map_id; reflexivity|].
    intros m' Hm'. rewrite Forall_forall in Hp'. apply (parse_measure_text m' [10]); [right; reflexivity|apply Hp'; exact Hm'].
  - destruct Hpre as [-> | ->]; reflexivity.
  - apply Forall_forall. intros s Hs. apply in_map_iff in Hs as [m [<- Hm]]. rewrite Forall_forall in Hall.
    apply chars_nosep; [discriminate|left; reflexivity|apply measure_text_chars; apply (Hall m Hm)].
Qed.

Lemma player_text_chars p : Forall measure_ok p -> forallb (fun c => plain c || N.eqb c 10 || N.eqb c 44) (player_text p) = true.
Proof.
  intro H. unfold player_text. induction H as [|m p [_ Hm] Hp IH]; [reflexivity|].
  assert (M : forallb (fun c => plain c || N.eqb c 10 || N.eqb c 44) (measure_text m) = true).
  { pose proof (measure_text_chars m Hm) as X. clear -X. induction (measure_text m) as [|c s IH]; [reflexivity|].
    simpl in *. apply andb_prop in X as [A B]. rewrite A, (IH B). reflexivity. }
  destruct p as [|m2 p']; [simpl; exact M|]. cbn [map]. rewrite join_cons2. rewrite !forallb_app. cbn [map] in IH. rewrite M, IH. reflexivity.
Qed.

Theorem parse_grid_text g : grid_ok g -> parse_grid (grid_text g) = Some g.
Proof.
  intros [Hne Hall]. unfold parse_grid, grid_text, amp_nl.
  pose proof (split_join 38 ltac:(discriminate) (map player_text g) []) as S. cbn [app] in S. rewrite S; clear S.
  - destruct g as [|p g']; [congruence|]. cbn [map]. inversion Hall as [|? ? Hp Hg']; subst.
    cbn [sequence]. pose proof (parse_player_text p [] (or_introl eq_refl) Hp) as P0. cbn [app] in P0. rewrite P0.
    rewrite !map_map. rewrite (sequence_map_some _ (fun p => p)); [rewrite map_id; reflexivity|].
    intros p' Hp'. rewrite Forall_forall in Hg'. apply (parse_player_text p' [10]); [right; reflexivity|apply Hg'; exact Hp'].
  - destruct g; [congruence|discriminate].
  - reflexivity.
  - apply Forall_forall. intros s Hs. apply in_map_iff in Hs as [p [<- Hp]]. rewrite Forall_forall in Hall.
    destruct (Hall p Hp) as [_ Hm]. pose proof (player_text_chars p Hm) as X. unfold nosep. clear -X.
    induction (player_text p) as [|c s IH]; [reflexivity|]. simpl in *. apply andb_prop in X as [A B]. rewrite (IH B), andb_true_r.
    apply negb_true_iff. apply orb_prop in A as [A|A]; [apply orb_prop in A as [A|A]|].
    + apply plain_not_amp. exact A.
    + apply N.eqb_eq in A. subst c. reflexivity.
    + apply N.eqb_eq in A. subst c. reflexivity.
Qed.

(* ---- the column count: width of the first row ---- *)
Lemma find_index_ge c : forall s i k, find_index c s i = Some k -> (i <= k)%nat.
Proof.
  induction s as [|x s IH]; intros i k H; simpl in H; [discriminate|].
  destruct (N.eqb x c); [inversion H; lia|]. apply IH in H. lia.
Qed.
Lemma find_index_skip c : forall a b i, nosep c a -> find_index c (a ++ b) i = find_index c b (i + length a).
Proof.
  induction a as [|x a IH]; intros b i H; simpl; [f_equal; lia|].
  unfold nosep in H. simpl in H. apply andb_prop in H as [A B]. apply negb_true_iff in A. rewrite A.
  rewrite IH by exact B. f_equal. lia.
Qed.
Lemma take_app_ge : forall (a b : str) i, (length a <= i)%nat -> take i (a ++ b) = a ++ take (i - length a) b.
Proof.
  induction a as [|x a IH]; intros b i H; simpl; [f_equal; lia|].
  destruct i as [|i]; [simpl in H; lia|]. simpl. rewrite IH by (simpl in H; lia). reflexivity.
Qed.

Lemma rstrip_go_after_nonspace d b : is_space d = false -> forall a p,
  rstrip_go ((a ++ [d]) ++ b) p = rev p ++ a ++ [d] ++ rstrip_go b [].
Proof.
  intros Hd. induction a as [|x a IH]; intro p; simpl.
  - rewrite Hd, rev_append_rev. reflexivity.
  - destruct (is_space x).
    + rewrite IH. simpl. rewrite <- app_assoc. reflexivity.
    + rewrite IH, rev_append_rev. reflexivity.
Qed.
Lemma rstrip_go_pending : forall s p, rstrip_go s p = [] \/ exists t, rstrip_go s p = rev p ++ t.
Proof.
  induction s as [|c s IH]; intro p; simpl; [left; reflexivity|].
  destruct (is_space c).
  - destruct (IH (c :: p)) as [E|[t E]]; [left; exact E|right]. exists (c :: t). rewrite E. simpl. rewrite <- app_assoc. reflexivity.
  - right. exists (c :: rstrip_go s []). apply rev_append_rev.
Qed.

Lemma first_line_width (r0 : list cell) (w' : str) : row_ok r0 ->
  match splitlines (strip (row_text r0 ++ 10 :: w')) with
  | [] => None
  | l :: _ => match parse_row_top (strip l) with Some cs => Some (length cs) | None => None end
  end = Some (length r0).
Proof.
  intros [Hne Hok].
  pose proof (row_text_plain r0 Hok) as Hp. pose proof (row_text_nonempty r0 Hne) as Hn.
  set (rt := row_text r0) in *.
  assert (Hs : exists t, strip (rt ++ 10 :: w') = rt ++ t /\ (t = [] \/ exists t', t = 10 :: t')).
  { destruct (plain_first_last rt Hn Hp) as [(c & Ec & Hc)|(c & m & d & Ec & Hc & Hd)].
    - rewrite Ec. unfold strip. cbn [app lstrip]. rewrite Hc. unfold rstrip.
      pose proof (rstrip_go_after_nonspace c (10 :: w') Hc [] []) as R. cbn [app rev] in R. rewrite R.
      exists (rstrip_go (10 :: w') []). split; [reflexivity|]. cbn [rstrip_go]. change (is_space 10) with true. cbv iota.
      destruct (rstrip_go_pending w' [10]) as [E|[t E]]; [left; exact E|right; exists t; exact E].
    - rewrite Ec. unfold strip. cbn [app lstrip]. rewrite Hc. unfold rstrip.
      pose proof (rstrip_go_after_nonspace d (10 :: w') Hd (c :: m) []) as R. cbn [app rev] in R. cbn [app]. rewrite R.
      exists (rstrip_go (10 :: w') []). split; [rewrite <- app_assoc; reflexivity|]. cbn [rstrip_go]. change (is_space 10) with true. cbv iota.
      destruct (rstrip_go_pending w' [10]) as [E|[t E]]; [left; exact E|right; exists t; exact E]. }
  destruct Hs as (t & -> & Ht). unfold splitlines. rewrite splitlines_go_nolb by (apply plain_nolb; exact Hp).
  destruct Ht as [-> | [t' ->]].
  - cbn [splitlines_go]. rewrite app_nil_r. destruct (rev rt) eqn:E; [apply (f_equal (@rev N)) in E; rewrite rev_involutive in E; simpl in E; congruence|].
    rewrite <- E, rev_append_rev, rev_involutive, app_nil_r. rewrite strip_plain by assumption. unfold rt. rewrite parse_row_text by exact Hok. reflexivity.
  - cbn [splitlines_go]. change (is_lb 10) with true. cbv iota. rewrite app_nil_r, rev_append_rev, rev_involutive, app_nil_r.
    rewrite strip_plain by assumption. unfold rt. rewrite parse_row_text by exact Hok. reflexivity.
Qed.

Lemma columns_first_row (r0 : list cell) (w : str) : row_ok r0 -> columns (row_text r0 ++ 10 :: w) = Some (length r0).
Proof.
  intros Hr0. pose proof Hr0 as [Hne Hok]. unfold columns. cbv zeta.
  pose proof (row_text_plain r0 Hok) as Hp.
  assert (Hns : nosep 44 (row_text r0)).
  { unfold nosep. clear -Hp. induction (row_text r0) as [|c s IH]; [reflexivity|]. simpl in *. apply andb_prop in Hp as [A B].
    rewrite (plain_not_comma c A), (IH B). reflexivity. }
  rewrite find_index_skip by exact Hns. cbn [find_index]. change (10 =? 44) with false. cbv iota.
  destruct (find_index 44 w (S (0 + length (row_text r0)))) as [k|] eqn:F; [|apply first_line_width; exact Hr0].
  apply find_index_ge in F. destruct k as [|k]; [lia|].
  rewrite take_app_ge by lia. replace (S k - length (row_text r0))%nat with (S (k - length (row_text r0))) by lia. cbn [take].
  apply first_line_width. exact Hr0.
Qed.

Lemma grid_text_starts g : grid_ok g ->
  exists r0 w, row_ok r0 /\ grid_text g = row_text r0 ++ 10 :: w /\
               exists m0 p0 g', g = ((r0 :: m0) :: p0) :: g'.
Proof.
  intros [Hne Hall]. destruct g as [|p g']; [congruence|]. inversion Hall as [|? ? [Hpne Hp] _]; subst.
  destruct p as [|m p0]; [congruence|]. inversion Hp as [|? ? [Hmne Hm] _]; subst.
  destruct m as [|r0 m0]; [congruence|]. inversion Hm as [|? ? Hr0 _]; subst.
  exists r0. unfold grid_text, player_text, measure_text. cbn [map concat].
  destruct g' as [|p2 g2]; destruct p0 as [|m2 p3]; cbn [map join]; rewrite <- ?app_assoc; cbn [app]; eexists; (split; [exact Hr0|split; [reflexivity|eauto]]).
Qed.

(* the canonical text of a well-formed grid decodes to its notes, with the width of its first row as column count *)
Theorem decode_grid_text g : grid_ok g ->
  exists r0 m0 p0 g', g = ((r0 :: m0) :: p0) :: g' /\
    decode (grid_text g) = if grid_ks_ok (length r0) g then Some (length r0, notes_of_grid g) else None.
Proof.
  intro H. destruct (grid_text_starts g H) as (r0 & w & Hr0 & E & m0 & p0 & g' & Eg).
  exists r0, m0, p0, g'. split; [exact Eg|]. unfold decode. rewrite (parse_grid_text g H).
  rewrite E, (columns_first_row r0 w Hr0). reflexivity.
Qed.
