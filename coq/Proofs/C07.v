(* Lemmas for C07: grid -> notes, and the position order. *)
From Coq Require Import List ZArith NArith Bool Lia Sorting.Sorted.
From SV Require Import Sx Str Notes.
Import ListNotations.
Open Scope Z_scope.

(* ---------------------------------------------------------------- position order *)
Lemma beat_cmp_antisym a b c d : beat_cmp c d a b = CompOpp (beat_cmp a b c d).
Proof. unfold beat_cmp. apply Z.compare_antisym. Qed.

Lemma pos_cmp_antisym x y : pos_cmp y x = CompOpp (pos_cmp x y).
Proof.
  unfold pos_cmp. rewrite (Z.compare_antisym (nplayer x) (nplayer y)).
  destruct (nplayer x ?= nplayer y); simpl; try reflexivity.
  rewrite (beat_cmp_antisym (nb_n x) (nb_d x) (nb_n y) (nb_d y)).
  destruct (beat_cmp (nb_n x) (nb_d x) (nb_n y) (nb_d y)); simpl; try reflexivity.
  apply Z.compare_antisym.
Qed.

Lemma ops_agree x y :
  note_gt x y = note_lt y x /\ note_le x y = negb (note_lt y x) /\ note_ge x y = negb (note_lt x y) /\
  note_le x y = (note_lt x y || match pos_cmp x y with Eq => true | _ => false end).
Proof.
  unfold note_gt, note_lt, note_le, note_ge. rewrite (pos_cmp_antisym x y).
  destruct (pos_cmp x y); simpl; repeat split; reflexivity.
Qed.

Lemma pos_cmp_eq x y : 0 < nb_d x -> 0 < nb_d y ->
  (pos_cmp x y = Eq <-> nplayer x = nplayer y /\ nb_n x * nb_d y = nb_n y * nb_d x /\ ncol x = ncol y).
Proof.
  intros Hx Hy. unfold pos_cmp, beat_cmp.
  destruct (nplayer x ?= nplayer y) eqn:E1.
  - apply Z.compare_eq in E1.
    destruct (nb_n x * nb_d y ?= nb_n y * nb_d x) eqn:E2.
    + apply Z.compare_eq in E2. rewrite Z.compare_eq_iff. tauto.
    + rewrite Z.compare_lt_iff in E2. split; [discriminate|lia].
    + rewrite Z.compare_gt_iff in E2. split; [discriminate|lia].
  - rewrite Z.compare_lt_iff in E1. split; [discriminate|lia].
  - rewrite Z.compare_gt_iff in E1. split; [discriminate|lia].
Qed.

Lemma pos_cmp_lt x y : 0 < nb_d x -> 0 < nb_d y ->
  (pos_cmp x y = Lt <->
   nplayer x < nplayer y \/
   (nplayer x = nplayer y /\
    (nb_n x * nb_d y < nb_n y * nb_d x \/ (nb_n x * nb_d y = nb_n y * nb_d x /\ ncol x < ncol y)))).
Proof.
  intros Hx Hy. unfold pos_cmp, beat_cmp.
  destruct (nplayer x ?= nplayer y) eqn:E1.
  - apply Z.compare_eq in E1.
    destruct (nb_n x * nb_d y ?= nb_n y * nb_d x) eqn:E2.
    + apply Z.compare_eq in E2. rewrite Z.compare_lt_iff. lia.
    + rewrite Z.compare_lt_iff in E2. split; [lia|reflexivity].
    + rewrite Z.compare_gt_iff in E2. split; [discriminate|lia].
  - rewrite Z.compare_lt_iff in E1. split; [lia|reflexivity].
  - rewrite Z.compare_gt_iff in E1. split; [discriminate|lia].
Qed.

Lemma note_lt_irrefl x : note_lt x x = false.
Proof.
  unfold note_lt, pos_cmp, beat_cmp. rewrite !Z.compare_refl. reflexivity.
Qed.

Lemma note_lt_trans x y z : 0 < nb_d x -> 0 < nb_d y -> 0 < nb_d z ->
  note_lt x y = true -> note_lt y z = true -> note_lt x z = true.
Proof.
  intros Hx Hy Hz. unfold note_lt.
  destruct (pos_cmp x y) eqn:E1; try discriminate.
  destruct (pos_cmp y z) eqn:E2; try discriminate. intros _ _.
  apply pos_cmp_lt in E1; [|assumption..]. apply pos_cmp_lt in E2; [|assumption..].
  assert (H : pos_cmp x z = Lt); [|rewrite H; reflexivity].
  apply pos_cmp_lt; [assumption..|].
  destruct E1 as [E1|[E1 E1']]; destruct E2 as [E2|[E2 E2']]; try (left; lia).
  right. split; [lia|].
  destruct E1' as [A|[A A']]; destruct E2' as [B|[B B']].
  - left. nia.
  - left. nia.
  - left. nia.
  - right. split; [nia|lia].
Qed.

(* ---------------------------------------------------------------- grid -> notes: exactly one note per non-zero cell *)
Definition mk (p m rows l c : Z) (t : N) (ks : option Z) : note :=
  {| nb_n := m * 4 * rows + l * 4; nb_d := rows; ncol := c; ntype := t; nplayer := p; nks := ks |}.

Lemma cells_notes_In p m rows l c0 cs n :
  In n (cells_notes p m rows l c0 cs) <->
  exists i t ks, nth_error cs i = Some (Some (t, ks)) /\ n = mk p m rows l (c0 + Z.of_nat i) t ks.
Proof.
  revert c0. induction cs as [|[[t ks]|] r IH]; intro c0; simpl.
  - split; [tauto|]. intros (i & t & ks & H & _). destruct i; discriminate.
  - rewrite IH. split.
    + intros [H|(i & t' & ks' & H1 & H2)].
      * exists O, t, ks. split; [reflexivity|]. subst n. unfold mk. f_equal. lia.
      * exists (S i), t', ks'. split; [assumption|]. subst n. unfold mk. f_equal. lia.
    + intros (i & t' & ks' & H1 & H2). destruct i as [|i]; simpl in H1.
      * left. inversion H1; subst. unfold mk. f_equal. lia.
      * right. exists i, t', ks'. split; [assumption|]. subst n. unfold mk. f_equal. lia.
  - rewrite IH. split.
    + intros (i & t' & ks' & H1 & H2). exists (S i), t', ks'. split; [assumption|]. subst n. unfold mk. f_equal. lia.
    + intros (i & t' & ks' & H1 & H2). destruct i as [|i]; simpl in H1; [discriminate|].
      exists i, t', ks'. split; [assumption|]. subst n. unfold mk. f_equal. lia.
Qed.

Lemma rows_notes_In p m rows l0 rs n :
  In n (rows_notes p m rows l0 rs) <->
  exists j row i t ks, nth_error rs j = Some row /\ nth_error row i = Some (Some (t, ks)) /\
                       n = mk p m rows (l0 + Z.of_nat j) (Z.of_nat i) t ks.
Proof.
  revert l0. induction rs as [|r rest IH]; intro l0; simpl.
  - split; [tauto|]. intros (j & row & i & t & ks & H & _). destruct j; discriminate.
  - rewrite in_app_iff, cells_notes_In, IH. split.
    + intros [(i & t & ks & H1 & H2)|(j & row & i & t & ks & H1 & H2 & H3)].
      * exists O, r, i, t, ks. repeat split; [assumption|]. subst n. unfold mk. f_equal; lia.
      * exists (S j), row, i, t, ks. repeat split; try assumption. subst n. unfold mk. f_equal; lia.
    + intros (j & row & i & t & ks & H1 & H2 & H3). destruct j as [|j]; simpl in H1.
      * left. inversion H1; subst. exists i, t, ks. split; [assumption|]. unfold mk. f_equal; lia.
      * right. exists j, row, i, t, ks. repeat split; try assumption. subst n. unfold mk. f_equal; lia.
Qed.

Lemma measures_notes_In p m0 ms n :
  In n (measures_notes p m0 ms) <->
  exists k meas j row i t ks,
    nth_error ms k = Some meas /\ nth_error meas j = Some row /\ nth_error row i = Some (Some (t, ks)) /\
    n = mk p (m0 + Z.of_nat k) (Z.of_nat (length meas)) (Z.of_nat j) (Z.of_nat i) t ks.
Proof.
  revert m0. induction ms as [|x rest IH]; intro m0; simpl.
  - split; [tauto|]. intros (k & meas & j & row & i & t & ks & H & _). destruct k; discriminate.
  - rewrite in_app_iff, rows_notes_In, IH. split.
    + intros [(j & row & i & t & ks & H1 & H2 & H3)|(k & meas & j & row & i & t & ks & H1 & H2 & H3 & H4)].
      * exists O, x, j, row, i, t, ks. repeat split; try assumption. subst n. unfold mk. f_equal; lia.
      * exists (S k), meas, j, row, i, t, ks. repeat split; try assumption. subst n. unfold mk. f_equal; lia.
    + intros (k & meas & j & row & i & t & ks & H1 & H2 & H3 & H4). destruct k as [|k]; simpl in H1.
      * left. inversion H1; subst. exists j, row, i, t, ks. repeat split; try assumption. unfold mk. f_equal; lia.
      * right. exists k, meas, j, row, i, t, ks. repeat split; try assumption. subst n. unfold mk. f_equal; lia.
Qed.

Lemma players_notes_In p0 g n :
  In n (players_notes p0 g) <->
  exists q pl k meas j row i t ks,
    nth_error g q = Some pl /\ nth_error pl k = Some meas /\ nth_error meas j = Some row /\
    nth_error row i = Some (Some (t, ks)) /\
    n = mk (p0 + Z.of_nat q) (Z.of_nat k) (Z.of_nat (length meas)) (Z.of_nat j) (Z.of_nat i) t ks.
Proof.
  revert p0. induction g as [|x rest IH]; intro p0; simpl.
  - split; [tauto|]. intros (q & pl & k & meas & j & row & i & t & ks & H & _). destruct q; discriminate.
  - rewrite in_app_iff, measures_notes_In, IH. split.
    + intros [(k & meas & j & row & i & t & ks & H1 & H2 & H3 & H4)|(q & pl & k & meas & j & row & i & t & ks & H0 & H1 & H2 & H3 & H4)].
      * exists O, x, k, meas, j, row, i, t, ks. repeat split; try assumption. subst n. unfold mk. f_equal; lia.
      * exists (S q), pl, k, meas, j, row, i, t, ks. repeat split; try assumption. subst n. unfold mk. f_equal; lia.
    + intros (q & pl & k & meas & j & row & i & t & ks & H0 & H1 & H2 & H3 & H4). destruct q as [|q]; simpl in H0.
      * left. inversion H0; subst. exists k, meas, j, row, i, t, ks. repeat split; try assumption. unfold mk. f_equal; lia.
      * right. exists q, pl, k, meas, j, row, i, t, ks. repeat split; try assumption. subst n. unfold mk. f_equal; lia.
Qed.

(* number of notes = number of non-zero cells *)
Definition nonzero (cs : list cell) : nat := length (filter (fun c => match c with Some _ => true | None => false end) cs).
Definition nonzero_rows (rs : list (list cell)) : nat := fold_right (fun r a => (nonzero r + a)%nat) O rs.
Definition nonzero_measures (ms : list measure) : nat := fold_right (fun r a => (nonzero_rows r + a)%nat) O ms.
Definition nonzero_grid (g : grid) : nat := fold_right (fun r a => (nonzero_measures r + a)%nat) O g.

Lemma cells_notes_length p m rows l c cs : length (cells_notes p m rows l c cs) = nonzero cs.
Proof. revert c. induction cs as [|[[t ks]|] r IH]; intro c; simpl; [reflexivity| |]; unfold nonzero in *; simpl; rewrite IH; reflexivity. Qed.
Lemma rows_notes_length p m rows l rs : length (rows_notes p m rows l rs) = nonzero_rows rs.
Proof. revert l. induction rs as [|r rest IH]; intro l; simpl; [reflexivity|]. rewrite app_length, cells_notes_length, IH. reflexivity. Qed.
Lemma measures_notes_length p m ms : length (measures_notes p m ms) = nonzero_measures ms.
Proof. revert m. induction ms as [|r rest IH]; intro m; simpl; [reflexivity|]. rewrite app_length, rows_notes_length, IH. reflexivity. Qed.
Lemma players_notes_length p g : length (players_notes p g) = nonzero_grid g.
Proof. revert p. induction g as [|r rest IH]; intro p; simpl; [reflexivity|]. rewrite app_length, measures_notes_length, IH. reflexivity. Qed.

(* ---------------------------------------------------------------- strictly increasing position order *)
Definition plt (x y : note) : Prop := pos_cmp x y = Lt.

Lemma SS_app (R : note -> note -> Prop) l1 l2 :
  StronglySorted R l1 -> StronglySorted R l2 -> (forall x y, In x l1 -> In y l2 -> R x y) ->
  StronglySorted R (l1 ++ l2).
Proof.
  induction l1 as [|a l1 IH]; simpl; intros H1 H2 H; [assumption|].
  inversion H1; subst. constructor.
  - apply IH; auto.
  - apply Forall_app. split; [assumption|]. apply Forall_forall. intros y Hy. apply H; auto.
Qed.

Lemma cells_sorted p m rows l c cs : 0 < rows -> StronglySorted plt (cells_notes p m rows l c cs).
Proof.
  intro Hr. revert c. induction cs as [|[[t ks]|] r IH]; intro c; simpl; [constructor| |apply IH].
  constructor; [apply IH|]. apply Forall_forall. intros y Hy.
  apply cells_notes_In in Hy as (i & t' & ks' & _ & ->).
  unfold plt. apply pos_cmp_lt; simpl; try assumption. right. split; [reflexivity|]. right. split; lia.
Qed.

Lemma rows_sorted p m rows l rs : 0 < rows -> 0 <= l -> StronglySorted plt (rows_notes p m rows l rs).
Proof.
  intros Hr. revert l. induction rs as [|r rest IH]; intros l Hl; simpl; [constructor|].
  apply SS_app; [apply cells_sorted; assumption|apply IH; lia|].
  intros x y Hx Hy.
  apply cells_notes_In in Hx as (i & t & ks & _ & ->).
  apply rows_notes_In in Hy as (j & row & i' & t' & ks' & _ & _ & ->).
  unfold plt. apply pos_cmp_lt; simpl; try assumption. right. split; [reflexivity|]. left. nia.
Qed.

Lemma measures_sorted p m ms : 0 <= m -> StronglySorted plt (measures_notes p m ms).
Proof.
  revert m. induction ms as [|x rest IH]; intros m Hm; simpl; [constructor|].
  destruct x as [|r0 x'] eqn:Ex.
  - simpl. apply IH. lia.
  - rewrite <- Ex. assert (Hlen : 0 < Z.of_nat (length x)) by (subst x; simpl; lia).
    apply SS_app; [apply rows_sorted; lia|apply IH; lia|].
    intros a b Ha Hb.
    apply rows_notes_In in Ha as (j & row & i & t & ks & Hj & _ & ->).
    apply measures_notes_In in Hb as (k & meas & j' & row' & i' & t' & ks' & _ & Hj' & _ & ->).
    assert (Hjl : (j < length x)%nat) by (apply nth_error_Some; congruence).
    assert (Hml : (0 < length meas)%nat) by (destruct meas; [destruct j'; discriminate|simpl; lia]).
    unfold plt. apply pos_cmp_lt; simpl; try lia. right. split; [reflexivity|]. left.
    (* beat of a < 4 (m+1) <= beat of b *)
    set (r := Z.of_nat (length x)) in *. set (r' := Z.of_nat (length meas)).
    assert (0 < r') by (unfold r'; lia).
    assert (Z.of_nat j < r) by (unfold r; lia).
    nia.
Qed.

Lemma players_sorted p g : StronglySorted plt (players_notes p g).
Proof.
  revert p. induction g as [|x rest IH]; intro p; simpl; [constructor|].
  apply SS_app; [apply measures_sorted; lia|apply IH|].
  intros a b Ha Hb.
  apply measures_notes_In in Ha as (k & meas & j & row & i & t & ks & _ & Hj & _ & ->).
  apply players_notes_In in Hb as (q & pl & k' & meas' & j' & row' & i' & t' & ks' & _ & _ & Hj' & _ & ->).
  assert ((0 < length meas)%nat) by (destruct meas; [destruct j; discriminate|simpl; lia]).
  assert ((0 < length meas')%nat) by (destruct meas'; [destruct j'; discriminate|simpl; lia]).
  unfold plt. apply pos_cmp_lt; simpl; try lia.
Qed.
