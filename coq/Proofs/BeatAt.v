(* C12: (1) the search of beat_at at a time that coincides with state times - the tag rule;
        (2) beat -> time -> beat on real timing data, for beats strictly between events and outside the warps. *)
From Coq Require Import List ZArith QArith Qabs Bool Lia Lqa Setoid Sorting.Sorted Arith.
From SV Require Import Sx Beat Engine Proofs.C14 Proofs.EngineFacts Proofs.Hittable Proofs.TimeLaw.
Import ListNotations.
Open Scope Q_scope.

(* ================================================================== 1. the search *)
Lemma pick_before : forall pre rest idx t q best, (forall x, In x pre -> s_time x < t) ->
  pick_in_run (pre ++ rest) idx t q best =
  pick_in_run rest (idx + length pre) t q (match pre with [] => best | _ => Some (idx + length pre - 1)%nat end).
Proof.
  induction pre as [|p pre IH]; intros rest idx t q best H.
  - cbn [app length]. rewrite Nat.add_0_r. reflexivity.
  - cbn [app pick_in_run length].
    assert (E : qlt (s_time p) t = true) by (apply qlt_spec; apply H; left; reflexivity). rewrite E.
    rewrite IH by (intros x Hx; apply H; right; exact Hx).
    replace (S idx + length pre)%nat with (idx + S (length pre))%nat by lia.
    destruct pre; f_equal; f_equal; simpl; lia.
Qed.

(* among states at exactly the asked time, the last one whose tag does not exceed the asked tag wins *)
Fixpoint last_le (run : list state) (q : Z) (i : nat) (acc : option nat) : option nat :=
  match run with
  | [] => acc
  | s :: r => last_le r q (S i) (if (s_tag s <=? q)%Z then Some i else acc)
  end.

Lemma pick_run : forall run rest idx t q best, (forall x, In x run -> s_time x == t) ->
  pick_in_run (run ++ rest) idx t q best = pick_in_run rest (idx + length run) t q (last_le run q idx best).
Proof.
  induction run as [|s run IH]; intros rest idx t q best H.
  - cbn [app length last_le]. rewrite Nat.add_0_r. reflexivity.
  - cbn [app pick_in_run length last_le].
    assert (Es : s_time s == t) by (apply H; left; reflexivity).
    assert (E1 : qlt (s_time s) t = false) by (apply not_true_is_false; intro X; apply qlt_spec in X; lra).
    assert (E2 : qeq (s_time s) t = true) by (apply qeq_spec; exact Es). rewrite E1, E2.
    rewrite IH by (intros x Hx; apply H; right; exact Hx). f_equal. lia.
Qed.

Lemma last_le_split : forall run2 run1 x q i acc, (s_tag x <= q)%Z -> (forall y, In y run2 -> (q < s_tag y)%Z) ->
  last_le (run1 ++ x :: run2) q i acc = Some (i + length run1)%nat.
Proof.
  intros run2 run1. induction run1 as [|y run1 IH]; intros x q i acc Hx H2.
  - cbn [app last_le length]. assert (E : (s_tag x <=? q)%Z = true) by (apply Z.leb_le; exact Hx). rewrite E.
    assert (G : forall l j a, (forall y, In y l -> (q < s_tag y)%Z) -> last_le l q j a = a).
    { induction l as [|z l IHl]; intros j a Hl; [reflexivity|]. cbn [last_le].
      assert (Ez : (s_tag z <=? q)%Z = false) by (apply Z.leb_gt; apply Hl; left; reflexivity). rewrite Ez.
      apply IHl. intros w Hw. apply Hl. right. exact Hw. }
    rewrite G by exact H2. f_equal. lia.
  - cbn [app last_le length]. rewrite IH by assumption. f_equal. lia.
Qed.

Lemma last_le_none : forall run q i acc, (forall y, In y run -> (q < s_tag y)%Z) -> last_le run q i acc = acc.
Proof.
  induction run as [|z l IHl]; intros q j a Hl; [reflexivity|]. cbn [last_le].
  assert (Ez : (s_tag z <=? q)%Z = false) by (apply Z.leb_gt; apply Hl; left; reflexivity). rewrite Ez.
  apply IHl. intros w Hw. apply Hl. right. exact Hw.
Qed.

Lemma tick_round_zero x : x == 0 -> tick_round x == 0.
Proof. intro E. rewrite (tick_round_compat _ _ E). vm_compute. reflexivity. Qed.

Lemma nth_app_mid {T} (a b : list T) x c d : nth (length a + length b) (a ++ b ++ x :: c) d = x.
Proof.
  rewrite app_assoc. replace (length a + length b)%nat with (length (a ++ b)) by (rewrite app_length; reflexivity).
  apply nth_middle'.
Qed.

(* at a time that coincides with state times, the answer is the beat of the last state at that time whose tag
   does not exceed the asked tag - whatever comes before or after, and whatever that state is *)
Theorem beat_at_on_state_time pre run1 x run2 post d t q :
  (forall y, In y pre -> s_time y < t) -> (forall y, In y (run1 ++ x :: run2) -> s_time y == t) ->
  (forall y, In y post -> t < s_time y) ->
  (s_tag x <= q)%Z -> (forall y, In y run2 -> (q < s_tag y)%Z) ->
  fst (beat_at_raw (pre ++ (run1 ++ x :: run2) ++ post) d t q) == s_beat x.
Proof.
  intros Hpre Hrun Hpost Hx H2. unfold beat_at_raw.
  rewrite pick_before by exact Hpre. rewrite pick_run by exact Hrun. rewrite pick_past by exact Hpost.
  rewrite (last_le_split run2 run1 x q) by assumption. cbn [Nat.add].
  rewrite <- app_assoc. cbn [app]. rewrite (nth_app_mid pre run1 x (run2 ++ post) d).
  destruct (is_pause_tag (s_tag x)); cbn [fst]; [reflexivity|].
  rewrite Qred_correct.
  assert (Ex : s_time x == t) by (apply Hrun; apply in_or_app; right; left; reflexivity).
  rewrite tick_round_zero; [ring|]. rewrite Ex. unfold Qdiv. ring.
Qed.

(* ... and when every state at that time has a larger tag, the state before them answers, as strictly after it *)
Theorem beat_at_on_state_time_none pre p run post d t q :
  (forall y, In y (pre ++ [p]) -> s_time y < t) -> (forall y, In y run -> s_time y == t) ->
  (forall y, In y post -> t < s_time y) -> (forall y, In y run -> (q < s_tag y)%Z) ->
  fst (beat_at_raw ((pre ++ [p]) ++ run ++ post) d t q) ==
  if is_pause_tag (s_tag p) then s_beat p else s_beat p + tick_round ((t - s_time p) / 60 * s_bpm p).
Proof.
  intros Hpre Hrun Hpost Hq. unfold beat_at_raw.
  rewrite pick_before by exact Hpre. rewrite pick_run by exact Hrun. rewrite pick_past by exact Hpost.
  rewrite last_le_none by exact Hq.
  assert (E : match pre ++ [p] with [] => None | _ => Some (0 + length (pre ++ [p]) - 1)%nat end = Some (length pre)).
  { destruct (pre ++ [p]) eqn:X; [destruct pre; discriminate|]. rewrite <- X, app_length. simpl. f_equal. lia. }
  rewrite E. rewrite <- app_assoc. cbn [app]. rewrite nth_middle'.
  destruct (is_pause_tag (s_tag p)); cbn [fst]; [reflexivity|]. rewrite Qred_correct. reflexivity.
Qed.

(* ================================================================== 2. beat -> time -> beat on timing data *)
Lemma run_states_app : forall P R s, run_states s (P ++ R) = removelast (run_states s P) ++ run_states (fold_left advance P s) R.
Proof.
  induction P as [|e P IH]; intros R s; [reflexivity|]. cbn [app run_states fold_left]. rewrite IH.
  destruct (run_states (advance s e) P) eqn:X; [destruct P; discriminate X|]. reflexivity.
Qed.

Lemma pick_compat : forall sts idx t t' q best, t == t' -> pick_in_run sts idx t q best = pick_in_run sts idx t' q best.
Proof.
  induction sts as [|s r IH]; intros idx t t' q best E; [reflexivity|]. cbn [pick_in_run].
  rewrite (qlt_compat (s_time s) (s_time s) t t' (Qeq_refl _) E), (qeq_compat (s_time s) (s_time s) t t' (Qeq_refl _) E).
  rewrite (IH (S idx) t t' q (Some idx) E), (IH (S idx) t t' q (if (s_tag s <=? q)%Z then Some idx else best) E). reflexivity.
Qed.

Lemma beat_at_raw_compat sts d t t' q : t == t' -> fst (beat_at_raw sts d t q) == fst (beat_at_raw sts d t' q).
Proof.
  intro E. unfold beat_at_raw. rewrite (pick_compat sts 0 t t' q None E).
  destruct (is_pause_tag (s_tag _)); cbn [fst]; [reflexivity|]. rewrite !Qred_correct.
  apply Qplus_comp; [reflexivity|]. apply tick_round_compat. rewrite E. reflexivity.
Qed.

Section RoundTrip.
Variables (td : tdata) (b0 v0 : Q) (rest : list (Q * Q)).
Hypothesis D : dom td.
Hypothesis Hbpm : td_bpms td = (b0, v0) :: rest.
Hypothesis Hb0 : b0 == 0.
Hypothesis Hticks : forall e, In e (events td) -> exists k : Z, e_beat e == inject_Z k / 48.

Let s0 := init_state td v0.
Let es := events td.

Theorem roundtrip_interior (b : Q) (kb : Z) (q : Z) :
  0 < b -> b == inject_Z kb / 48 -> ~ in_raw (td_warps td) b -> (forall e, In e es -> ~ e_beat e == b) ->
  fst (beat_at_raw (sts td v0) s0 (time_at (sts td v0) s0 b tSTOP) q) == b.
Proof.
  intros Hbpos Hbk Hnw Hne.
  destruct (time_at_cut td b0 v0 rest D Hbpm b tSTOP) as (P & R & E & HP & HR & T); [lra|unfold tSTOP; lia|].
  fold es in E. set (s := St td v0 P) in *.
  assert (F1 : forall p, In p P -> e_beat p < b).
  { intros p Hp. pose proof (kle_beat _ _ _ (HP p Hp)) as L.
    assert (In p es) by (rewrite E; apply in_or_app; left; exact Hp).
    destruct (Qlt_le_dec (e_beat p) b) as [X|X]; [exact X|]. exfalso. apply (Hne p H). lra. }
  assert (F2 : forall r, In r R -> b < e_beat r).
  { intros r Hr. pose proof (klt_beat _ _ _ (HR r Hr)) as L.
    assert (In r es) by (rewrite E; apply in_or_app; right; exact Hr).
    destruct (Qlt_le_dec b (e_beat r)) as [X|X]; [exact X|]. exfalso. apply (Hne r H). lra. }
  assert (F3 : s_warp s = false).
  { destruct (s_warp s) eqn:W; [|reflexivity]. exfalso. apply Hnw.
    apply (warp_flag_at td v0 D P R b E); [intros e He; specialize (F1 e He); lra|exact F2|exact W]. }
  assert (F6 : st_ok s) by (apply (St_ok td b0 v0 rest D Hbpm P R E)).
  assert (F45 : is_pause_tag (s_tag s) = false /\ s_beat s < b /\ exists ks : Z, s_beat s == inject_Z ks / 48).
  { destruct P as [|p0 P0] eqn:EP.
    - unfold s, St, init_state. simpl. repeat split; [exact Hbpos|]. exists 0%Z. reflexivity.
    - destruct (last_of_nonempty (p0 :: P0)) as (P' & x & EPx); [discriminate|]. rewrite EPx in *.
      assert (Hx : In x (P' ++ [x])) by (apply in_or_app; right; left; reflexivity).
      unfold s. rewrite ?EPx. rewrite St_last. unfold advance. cbn [s_tag s_beat]. split; [|split].
      + destruct (is_pause_tag (e_tag x)) eqn:Pz; [|reflexivity]. exfalso.
        assert (Hxb : e_beat x == b); [|specialize (F1 x Hx); lra].
        unfold is_pause_tag in Pz. apply orb_true_iff in Pz as [Pz|Pz]; apply Z.eqb_eq in Pz.
        * apply (proj1 (B:=tSTOP = tSTOP)).
          apply (pause_cut td D tSTOP (td_stops td) P' x R b tSTOP); try assumption.
          -- left; reflexivity.
          -- intros y Hy Hyt. apply (in_tagged_of_tag td b0 v0 rest Hbpm); [exact Hy|exact Hyt|tauto].
          -- intros r Hr. apply (rows_in_events td b0 v0 rest Hbpm). do 5 right. apply tagged_In'. exists r. auto.
          -- apply HP. exact Hx.
        * apply (proj1 (B:=tSTOP = tDELAY)).
          apply (pause_cut td D tDELAY (td_delays td) P' x R b tSTOP); try assumption.
          -- right; reflexivity.
          -- intros y Hy Hyt. apply (in_tagged_of_tag td b0 v0 rest Hbpm); [exact Hy|exact Hyt|tauto].
          -- intros r Hr. apply (rows_in_events td b0 v0 rest Hbpm). do 3 right. left. apply tagged_In'. exists r. auto.
          -- apply HP. exact Hx.
      + apply F1. exact Hx.
      + apply Hticks. fold es. rewrite E. apply in_or_app. left. exact Hx. }
  destruct F45 as (F4 & F5 & ks & Hks). destruct F6 as [Fbpm _].
  set (k := (kb - ks)%Z).
  assert (Hk : (0 < k)%Z).
  { unfold k. assert (X : inject_Z ks / 48 < inject_Z kb / 48) by lra. unfold Qdiv, Qlt, inject_Z in X. simpl in X. lia. }
  assert (Ek : b - s_beat s == inject_Z k / 48).
  { rewrite Hbk, Hks. unfold k. unfold Qdiv. replace (kb - ks)%Z with (kb + - ks)%Z by lia. rewrite inject_Z_plus, inject_Z_opp. ring. }
  set (texact := s_time s + (inject_Z k / 48) * 60 / s_bpm s).
  assert (ET : time_at (sts td v0) s0 b tSTOP == texact).
  { transitivity (Ecut s b); [exact T|]. unfold Ecut, state_rate. rewrite F3, Ek. unfold texact, Qdiv. ring. }
  rewrite (beat_at_raw_compat _ _ _ _ q ET).
  (* the state list around s *)
  assert (Hsts : sts td v0 = removelast (run_states s0 P) ++ s :: tl (run_states s R)).
  { unfold sts. fold es. rewrite E, run_states_app. f_equal. fold s0. change (fold_left advance P s0) with s.
    destruct R; reflexivity. }
  assert (Hsorted : times_sorted (sts td v0)).
  { apply (states_monotone td); [exact D|]. apply (states_is_sts td b0 v0 rest Hbpm Hb0). }
  rewrite Hsts in *.
  assert (Hpost : forall x, In x (tl (run_states s R)) -> texact < s_time x).
  { destruct R as [|e R']; [intros x []|]. cbn [run_states tl]. intros x Hx.
    assert (Hhd : texact < s_time (advance s e)).
    { assert (Ee : es = P ++ e :: R') by exact E.
      pose proof (step_time td b0 v0 rest D Hbpm P e R' Ee) as St1. rewrite St_last in St1. fold s in St1. rewrite St1.
      pose proof (end_val_nonneg td b0 v0 rest D Hbpm P e R' Ee) as Pv.
      assert (Hbe : b < e_beat e) by (apply F2; left; reflexivity).
      unfold texact, state_rate. rewrite F3.
      assert (Hr : 0 < 60 / s_bpm s) by (apply Qlt_shift_div_l; [exact Fbpm|lra]).
      assert (X : inject_Z k / 48 * 60 / s_bpm s == (b - s_beat s) * (60 / s_bpm s)) by (rewrite Ek; unfold Qdiv; ring).
      rewrite X. nra. }
    apply SS_app_inv in Hsorted as (_ & B & _). inversion B as [|? ? B' _]; subst. cbn [run_states tl] in B'.
    destruct R' as [|e2 R2]; cbn [run_states] in Hx, B'.
    - destruct Hx as [<-|[]]. exact Hhd.
    - destruct Hx as [<-|Hx]; [exact Hhd|]. inversion B' as [|? ? _ Hall]; subst. rewrite Forall_forall in Hall.
      specialize (Hall x Hx). cbv beta in Hall. lra. }
  transitivity (s_beat s + inject_Z k / 48).
  - exact (beat_at_inverse (removelast (run_states s0 P)) s (tl (run_states s R)) s0 q k Hsorted F4 Fbpm Hk Hpost).
  - rewrite <- Ek. ring.
Qed.
End RoundTrip.

(* ================================================================== 3. the half-tick bound of the rounding *)
Lemma tick_round_near x : Qabs (tick_round x - x) <= 1 # 96.
Proof.
  unfold tick_round. rewrite Qred_correct. destruct x as [n d]. cbn [Qnum Qden].
  pose proof (round_he_nearest (SUBDIV * n) (Zpos d) ltac:(lia)) as H. fold (round_tick n (Zpos d)) in H.
  set (r := round_tick n (Zpos d)) in *. clearbody r. unfold SUBDIV in H.
  apply Qabs_Qle_condition. unfold Qle, Qminus, Qplus, Qopp. cbn [Qnum Qden]. split; lia.
Qed.

(* strictly between state times, outside a pause: the answer is within half a tick (1/96 beat) of the exact beat
   position s_beat + elapsed beats - so its own time is within half a tick's duration of the asked time *)
Theorem beat_at_half_tick pre s post d t q :
  times_sorted (pre ++ s :: post) -> is_pause_tag (s_tag s) = false ->
  s_time s < t -> (forall x, In x post -> t < s_time x) ->
  Qabs (fst (beat_at_raw (pre ++ s :: post) d t q) - (s_beat s + (t - s_time s) / 60 * s_bpm s)) <= 1 # 96.
Proof.
  intros Hs Hp Ht Hpost. rewrite (beat_at_between pre s post d t q Hs Hp Ht Hpost).
  setoid_replace (s_beat s + tick_round ((t - s_time s) / 60 * s_bpm s) - (s_beat s + (t - s_time s) / 60 * s_bpm s))
    with (tick_round ((t - s_time s) / 60 * s_bpm s) - (t - s_time s) / 60 * s_bpm s) by ring.
  apply tick_round_near.
Qed.

(* ================================================================== 4. the rounding is monotone *)
Lemma round_he_mono n m d : (0 < d)%Z -> (n <= m)%Z -> (round_he n d <= round_he m d)%Z.
Proof.
  intros Hd Hnm.
  pose proof (Z.div_mod n d ltac:(lia)) as En. pose proof (Z.div_mod m d ltac:(lia)) as Em.
  pose proof (Z.mod_pos_bound n d Hd) as Bn. pose proof (Z.mod_pos_bound m d Hd) as Bm.
  assert (Hq : (n / d <= m / d)%Z) by (apply Z.div_le_mono; lia).
  unfold round_he. set (qn := (n / d)%Z) in *. set (qm := (m / d)%Z) in *. set (rn := (n mod d)%Z) in *. set (rm := (m mod d)%Z) in *.
  clearbody qn qm rn rm.
  destruct (Z.eq_dec qn qm) as [->|Hne].
  - assert (rn <= rm)%Z by nia.
    destruct (2 * rn <? d)%Z eqn:A1; destruct (2 * rm <? d)%Z eqn:B1; try lia;
    destruct (d <? 2 * rn)%Z eqn:A2; destruct (d <? 2 * rm)%Z eqn:B2; try lia; destruct (Z.even qm); lia.
  - assert (qn + 1 <= qm)%Z by lia.
    destruct (2 * rn <? d)%Z; destruct (2 * rm <? d)%Z; destruct (d <? 2 * rn)%Z; destruct (d <? 2 * rm)%Z; destruct (Z.even qn); destruct (Z.even qm); lia.
Qed.

Lemma tick_round_mono x y : x <= y -> tick_round x <= tick_round y.
Proof.
  intro H. destruct x as [n d]. destruct y as [m e].
  assert (Ex : (n # d) == ((n * Zpos e) # (d * e))) by (unfold Qeq; simpl; lia).
  assert (Ey : (m # e) == ((m * Zpos d) # (d * e))) by (unfold Qeq; simpl; lia).
  rewrite (tick_round_compat _ _ Ex), (tick_round_compat _ _ Ey). unfold tick_round. rewrite !Qred_correct. cbn [Qnum Qden].
  unfold Qle in *. cbn [Qnum Qden] in *. unfold round_tick.
  assert (Hm : (round_he (SUBDIV * (n * Zpos e)) (Zpos (d * e)) <= round_he (SUBDIV * (m * Zpos d)) (Zpos (d * e)))%Z).
  { apply round_he_mono; [lia|]. unfold SUBDIV. nia. }
  lia.
Qed.

(* between the same two states the answer never decreases as time increases *)
Theorem beat_at_monotone_local pre s post d t1 t2 q :
  times_sorted (pre ++ s :: post) -> 0 < s_bpm s ->
  s_time s < t1 -> t1 <= t2 -> (forall x, In x post -> t2 < s_time x) ->
  fst (beat_at_raw (pre ++ s :: post) d t1 q) <= fst (beat_at_raw (pre ++ s :: post) d t2 q).
Proof.
  intros Hs Hb H1 H12 Hpost.
  assert (Hpost1 : forall x, In x post -> t1 < s_time x) by (intros x Hx; specialize (Hpost x Hx); lra).
  destruct (is_pause_tag (s_tag s)) eqn:P.
  - rewrite (beat_at_in_pause pre s post d t1 q Hs P H1 Hpost1), (beat_at_in_pause pre s post d t2 q Hs P) by (try assumption; lra). lra.
  - rewrite (beat_at_between pre s post d t1 q Hs P H1 Hpost1), (beat_at_between pre s post d t2 q Hs P) by (try assumption; lra).
    assert (M : tick_round ((t1 - s_time s) / 60 * s_bpm s) <= tick_round ((t2 - s_time s) / 60 * s_bpm s)).
    { apply tick_round_mono. unfold Qdiv.
      setoid_replace ((t1 - s_time s) * / 60 * s_bpm s) with ((t1 - s_time s) * (/ 60 * s_bpm s)) by ring.
      setoid_replace ((t2 - s_time s) * / 60 * s_bpm s) with ((t2 - s_time s) * (/ 60 * s_bpm s)) by ring.
      apply Qmult_le_compat_r; [lra|]. assert (0 < / 60) by reflexivity. apply Qlt_le_weak. apply Qmult_lt_0_compat; assumption. }
    lra.
Qed.
