(* Runner: one request per input line (an s-expression of integers), one answer per line. *)
open Model

let rec pos_of_int (n : int) : positive =
  if n = 1 then XH else if n land 1 = 0 then XO (pos_of_int (n lsr 1)) else XI (pos_of_int (n lsr 1))
let z_of_int (n : int) : z = if n = 0 then Z0 else if n > 0 then Zpos (pos_of_int n) else Zneg (pos_of_int (-n))

(* big values travel as x<hex> / -x<hex> *)
let pos_of_hex (s : string) (i0 : int) : positive option =
  (* bits msb first *)
  let acc = ref None in
  for i = i0 to String.length s - 1 do
    let c = s.[i] in
    let v = if c >= '0' && c <= '9' then Char.code c - 48 else Char.code c - 87 in
    for b = 3 downto 0 do
      let bit = (v lsr b) land 1 in
      acc := (match !acc with
        | None -> if bit = 1 then Some XH else None
        | Some p -> Some (if bit = 1 then XI p else XO p))
    done
  done; !acc

let z_of_token (t : string) : z =
  let n = String.length t in
  if n >= 2 && t.[0] = 'x' then (match pos_of_hex t 1 with None -> Z0 | Some p -> Zpos p)
  else if n >= 3 && t.[0] = '-' && t.[1] = 'x' then (match pos_of_hex t 2 with None -> Z0 | Some p -> Zneg p)
  else z_of_int (int_of_string t)

let rec pos_bits (p : positive) : int = match p with XH -> 1 | XO q | XI q -> 1 + pos_bits q
let rec int_of_pos (p : positive) : int = match p with XH -> 1 | XO q -> 2 * int_of_pos q | XI q -> 2 * int_of_pos q + 1
let hex_of_pos (p : positive) : string =
  (* lsb first bits *)
  let rec bits p acc = match p with XH -> 1 :: acc | XO q -> bits q (0 :: acc) | XI q -> bits q (1 :: acc) in
  let msb = bits p [] in  (* msb first after accumulation? acc builds lsb..; fix below *)
  let lsb = List.rev msb in
  ignore lsb;
  (* [bits] conses the lowest bit first then higher ones in front: result is msb first *)
  let l = msb in
  let n = List.length l in
  let pad = (4 - n mod 4) mod 4 in
  let l = List.init pad (fun _ -> 0) @ l in
  let b = Buffer.create 16 in
  let rec go = function
    | a :: b1 :: c :: d :: r -> Buffer.add_char b "0123456789abcdef".[a*8+b1*4+c*2+d]; go r
    | _ -> () in
  go l; Buffer.contents b

let add_z (b : Buffer.t) (x : z) : unit = match x with
  | Z0 -> Buffer.add_char b '0'
  | Zpos p -> if pos_bits p <= 61 then Buffer.add_string b (string_of_int (int_of_pos p))
              else (Buffer.add_char b 'x'; Buffer.add_string b (hex_of_pos p))
  | Zneg p -> if pos_bits p <= 61 then (Buffer.add_char b '-'; Buffer.add_string b (string_of_int (int_of_pos p)))
              else (Buffer.add_string b "-x"; Buffer.add_string b (hex_of_pos p))

let rec add_sx (b : Buffer.t) (x : sx) : unit = match x with
  | A z -> add_z b z
  | L l -> Buffer.add_char b '(';
           List.iteri (fun i y -> if i > 0 then Buffer.add_char b ' '; add_sx b y) l;
           Buffer.add_char b ')'

(* parser: returns the sx read from position [i] *)
let parse (s : string) : sx =
  let n = String.length s in
  let i = ref 0 in
  let rec skip () = while !i < n && (s.[!i] = ' ' || s.[!i] = '\t' || s.[!i] = '\r') do incr i done
  and item () : sx =
    skip ();
    if !i >= n then failwith "eof"
    else if s.[!i] = '(' then begin
      incr i;
      let acc = ref [] in
      let fin = ref false in
      while not !fin do
        skip ();
        if !i >= n then failwith "unclosed"
        else if s.[!i] = ')' then (incr i; fin := true)
        else acc := item () :: !acc
      done;
      L (List.rev !acc)
    end else begin
      let j = !i in
      while !i < n && s.[!i] <> ' ' && s.[!i] <> ')' && s.[!i] <> '(' do incr i done;
      A (z_of_token (String.sub s j (!i - j)))
    end in
  item ()

let () =
  let b = Buffer.create 65536 in
  (try
    while true do
      let line = input_line stdin in
      if String.length line > 0 then begin
        Buffer.clear b;
        (try add_sx b (dispatch_request (parse line)) with
         | Stack_overflow -> Buffer.clear b; Buffer.add_string b "(-2)"
         | Failure _ -> Buffer.clear b; Buffer.add_string b "(-3)");
        Buffer.add_char b '\n';
        print_string (Buffer.contents b)
      end
    done
  with End_of_file -> ());
  flush stdout
