(* Extraction of the executable model.  ExtrOcamlBasic only: bool, option, list,
   prod, unit, sumbool map to OCaml's; N/Z/positive/nat stay Coq inductives. *)
From Coq Require Import Extraction ExtrOcamlBasic.
From SV Require Import Sx Dispatch.
Extraction Language OCaml.
Extraction "model.ml" Dispatch.dispatch_request Sx.sx_eqb.
