(* C09 - Grouping and counting notes follow the documented rules for every stream.
   Statements only.  [impl] is the model of the code's buffering state machine
   (held_columns / buffer / flush_until_held_note / attach_tail / orphan handling / cleanup);
   [doc_items] is the rule as the documentation states it, note by note, from the note's
   neighbours in its own column. *)
From Coq Require Import List Arith ZArith NArith Bool Permutation.
From SV Require Import Sx Str Notes Group Proofs.GroupRefine Proofs.C09.
Import ListNotations.
Local Open Scope nat_scope.

(* the state machine computes exactly the declarative rule, for every stream of distinct notes,
   all nine orphan-policy pairs; in particular it never hits its internal failure modes
   (buffer.index not found, buffer[0] on an empty deque) *)
Theorem C09_refines : forall ph pt ns, NoDup ns -> impl ph pt ns = spec ph pt ns.
Proof. exact impl_refines_spec. Qed.
Print Assumptions C09_refines.

(* the rule in the documentation's words: a tail is matched iff the previous note in its column
   is a head; a head is joined iff the next note in its column is a tail - emitted once, at the
   head's place, carrying that tail's beat; everything else per orphan policy *)
Theorem C09_documented_rule : forall ph pt ns,
  spec_items ph pt [] ns = doc_items ph pt [] ns.
Proof. intros. apply spec_items_doc; [constructor|apply tracks_nil]. Qed.
Print Assumptions C09_documented_rule.

(* the whole function: filter by type, join, split into rows of equal beat, apply the same-beat mode;
   the error is the first orphan in detection order *)
Theorem C09_group_notes : forall types m ph pt ns, NoDup ns ->
  group_notes types m true ph pt ns =
  match spec_err ph pt [] (filter (included types) ns) with
  | Some n => GErrOrphan n
  | None => GOk (flat_map (add_row m) (rows_of (doc_items ph pt [] (filter (included types) ns))))
  end.
Proof. exact group_notes_spec. Qed.
Print Assumptions C09_group_notes.

(* rows: nothing lost, stream order kept, one beat per row *)
Theorem C09_rows : forall l,
  concat (rows_of l) = l /\
  Forall (fun row => row <> []) (rows_of l) /\
  Forall (fun row => forall i j, In i row -> In j row -> item_beat i = item_beat j) (rows_of l).
Proof. intro l. split; [apply rows_of_concat|split; [apply rows_of_nonempty|apply rows_of_same_beat]]. Qed.
Print Assumptions C09_rows.

(* same-beat modes *)
Theorem C09_modes : forall row,
  (concat (add_row KeepSeparate row) = row /\ Forall (fun g => length g = 1) (add_row KeepSeparate row)) /\
  add_row JoinAll row = [row] /\
  Permutation row (concat (add_row JoinByNoteType row)) /\
  Forall (fun g => forall i j, In i g -> In j g -> item_type i = item_type j) (add_row JoinByNoteType row).
Proof.
  intro row. split; [apply add_row_keep_separate|split; [reflexivity|split]].
  - apply by_type_perm. apply le_n.
  - apply by_type_homogeneous.
Qed.
Print Assumptions C09_modes.

(* hold / roll counts = the number of items that joining emits for that head type and tails *)
Theorem C09_count_holds : forall head ph pt ns g,
  count_holds_or_rolls head ph pt ns = GOk g ->
  exists l, impl ph pt (filter (included [head; 51%N]) ns) = Ok l /\ count_grouped 1 g = length l.
Proof. exact count_holds_is_items. Qed.
Print Assumptions C09_count_holds.

(* non-vacuity: two overlapping holds, an interrupted head, an orphan tail *)
Definition n_ (b : Z) (c : Z) (t : N) : note := {| nb_n := b; nb_d := 1; ncol := c; ntype := t; nplayer := 0; nks := None |}.
Example C09_example :
  group_notes [49;50;51;52;77]%N KeepSeparate true Keep Drop
    [n_ 0 0 50; n_ 1 1 49; n_ 2 1 50; n_ 3 1 51; n_ 4 0 51; n_ 5 0 52; n_ 6 0 77; n_ 7 1 51]%N%Z
  = GOk [[Joined (n_ 0 0 50) (4, 1)%Z]; [Plain (n_ 1 1 49)]; [Joined (n_ 2 1 50) (3, 1)%Z]; [Plain (n_ 5 0 52)]; [Plain (n_ 6 0 77)]]%N%Z.
Proof. vm_compute. reflexivity. Qed.
