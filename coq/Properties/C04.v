(* C04 - Load, save, load loses nothing; a second save changes nothing.  Statements only. *)
From Coq Require Import List NArith ZArith Bool.
From SV Require Import Sx Str Omap Msd Simfile Proofs.MsdFacts Proofs.SmRoundTrip Proofs.SscRoundTrip Proofs.LoadFacts.
Import ListNotations.
Open Scope N_scope.

(* whatever loads is well-formed: unique upper-case keys, stripped chart fields (upper and strip are idempotent) *)
Theorem C04_loaded_wf_sm : forall strict t sf, load_sm strict t = LOk sf -> wf_sm sf.
Proof. exact loaded_sm_wf. Qed.
Print Assumptions C04_loaded_wf_sm.
Theorem C04_loaded_wf_ssc : forall strict t sf, load_ssc strict t = LOk sf ->
  (forall c, List.In c (ssc_charts sf) -> exists nv, get (notes_key c) c = Some nv) -> wf_ssc sf.
Proof. exact loaded_ssc_wf. Qed.
Print Assumptions C04_loaded_wf_ssc.

(* so it can always be serialised (SM: ser_sm is a total function) ... *)
Theorem C04_serializable_ssc : forall strict t sf, load_ssc strict t = LOk sf ->
  (forall c, List.In c (ssc_charts sf) -> exists nv, get (notes_key c) c = Some nv) -> exists out, ser_ssc sf = Some out.
Proof.
  intros strict t sf H Hn. apply ssc_serializable. intros c Hc. destruct (loaded_ssc_wf strict t sf H Hn) as [_ _ W]. auto.
Qed.
Print Assumptions C04_serializable_ssc.

(* ... and loading that output gives the same simfile; a second save is byte-for-byte the first *)
Theorem C04_reload_sm : forall strict strict' t sf, load_sm strict t = LOk sf -> safe_sm sf = true ->
  load_sm strict' (ser_sm sf) = LOk sf.
Proof. intros. apply sm_roundtrip; [eapply loaded_sm_wf; eauto|assumption]. Qed.
Print Assumptions C04_reload_sm.

Theorem C04_reload_ssc : forall strict strict' t sf, load_ssc strict t = LOk sf ->
  (forall c, List.In c (ssc_charts sf) -> exists nv, get (notes_key c) c = Some nv) -> safe_ssc sf = true ->
  exists out, ser_ssc sf = Some out /\ load_ssc strict' out = LOk (notes_last sf).
Proof. intros. apply ssc_roundtrip; [eapply loaded_ssc_wf; eauto|assumption]. Qed.
Print Assumptions C04_reload_ssc.

(* the second save is byte for byte the first: what was loaded from the first save serialises to the same text
   (SSC: the loaded charts have their note data last, which the serialiser writes last wherever it sits) *)
Theorem C04_second_save_sm : forall strict strict' t sf, load_sm strict t = LOk sf -> safe_sm sf = true ->
  exists sf2, load_sm strict' (ser_sm sf) = LOk sf2 /\ ser_sm sf2 = ser_sm sf.
Proof. intros strict strict' t sf H Hs. exists sf. split; [eapply C04_reload_sm; eauto|reflexivity]. Qed.
Print Assumptions C04_second_save_sm.

Theorem C04_second_save_ssc : forall strict strict' t sf, load_ssc strict t = LOk sf ->
  (forall c, List.In c (ssc_charts sf) -> exists nv, get (notes_key c) c = Some nv) -> safe_ssc sf = true ->
  exists out sf2, ser_ssc sf = Some out /\ load_ssc strict' out = LOk sf2 /\ ser_ssc sf2 = Some out.
Proof.
  intros strict strict' t sf H Hn Hs. destruct (C04_reload_ssc strict strict' t sf H Hn Hs) as (out & E & L).
  exists out, (notes_last sf). split; [exact E|split; [exact L|]]. rewrite ser_ssc_notes_last. exact E.
Qed.
Print Assumptions C04_second_save_ssc.

Theorem C04_upper_strip_idempotent : forall s, upper (upper s) = upper s /\ strip (strip s) = strip s.
Proof. intro s. split; [apply upper_idem|apply strip_idem]. Qed.
Print Assumptions C04_upper_strip_idempotent.

Example C04_example :
  let t := [35;116;105;116;108;101;59;10;35;97;116;116;97;99;107;115;59;35;78;79;84;69;83;58;97;58;98;58;99;58;100;58;101;58;32;48;48;10;58;120;59] in
  match load_sm true t with
  | LOk sf => safe_sm sf && match load_sm true (ser_sm sf) with LOk sf2 => str_eqb (ser_sm sf2) (ser_sm sf) | _ => false end
  | _ => false end = true.
Proof. vm_compute. reflexivity. Qed.
