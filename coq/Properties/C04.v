From SV Require Import Simfile.
Theorem C04_placeholder : True. Proof. exact I. Qed.
