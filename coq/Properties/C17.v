(* C17 - SSC to SM conversion applies the caller's policy to every SSC-only property.
   Statements only.  Generic in the conversion tables regenerated from the code, hence valid for
   every total or partial behaviour mapping at once. *)
From Coq Require Import List ZArith NArith Bool.
From SV Require Import Sx Str Omap Beat Simfile TimingSrc Convert Generated.Tables Proofs.ConvertFacts Proofs.ConvertRound.
Import ListNotations.
Open Scope Z_scope.

(* either every simfile property is treated by the behaviour of its kind, or the first offender is named;
   never NotImplemented without warps, never a partial result *)
Theorem C17_policy : forall sf charts tmpl_sf tmpl_chart beh, NoDupKeys sf -> ssc_has_warps sf = false ->
  let base := fst (base_of Tables.blank_sm_simfile tmpl_sf) in
  match ssc_to_sm sf charts tmpl_sf tmpl_chart beh with
  | COk (out, cs) =>
      forall k, get k out = match get k sf with
                            | Some v => match decide Tables.invalid_sm_simfile beh k v with DCopy => Some v | _ => get k base end
                            | None => get k base end
  | CInvalid key =>
      (exists pre v post, sf = pre ++ (key, v) :: post /\ decide Tables.invalid_sm_simfile beh key v = DError /\
         forall k' v', List.In (k', v') pre -> decide Tables.invalid_sm_simfile beh k' v' = DCopy \/ decide Tables.invalid_sm_simfile beh k' v' = DSkip)
      \/ (exists c v, List.In c charts /\ List.In (key, v) c /\ decide Tables.invalid_sm_chart beh key v = DError)
  | CNotImpl => False
  | _ => True
  end.
Proof. exact ssc_to_sm_policy. Qed.
Print Assumptions C17_policy.

Theorem C17_warps_refused : forall sf charts tmpl_sf tmpl_chart beh,
  ssc_has_warps sf = true -> ssc_to_sm sf charts tmpl_sf tmpl_chart beh = CNotImpl.
Proof. exact ssc_to_sm_warps_refused. Qed.
Print Assumptions C17_warps_refused.

(* the four behaviours, for a key listed under property type pt *)
Theorem C17_behaviours : forall beh key v,
  decide [] beh key v = DCopy /\
  forall pt keys rest, mem_str key keys = true ->
    let b := match zassoc pt beh with Some x => x | None => match zassoc pt Tables.default_behaviors with Some x => x | None => 4 end end in
    decide ((pt, keys) :: rest) beh key v =
      if b =? 1 then DCopy else if b =? 2 then DSkip
      else if b =? 3 then match v with Some s => if str_eqb (strip s) (default_of key) then DSkip else DError | None => DUnmodelled end
      else DError.
Proof. intros beh key v. split; [reflexivity|]. intros pt keys rest H. simpl. rewrite H. reflexivity. Qed.
Print Assumptions C17_behaviours.

Theorem C17_documented_tables :
  Tables.default_behaviors = [(1, 2); (2, 2); (3, 2); (4, 3); (5, 3)] /\
  Tables.behaviors = [([67;79;80;89;95;65;78;89;87;65;89]%N, 1); ([73;71;78;79;82;69]%N, 2);
                      ([69;82;82;79;82;95;85;78;76;69;83;83;95;68;69;70;65;85;76;84]%N, 3); ([69;82;82;79;82]%N, 4)] /\
  map snd Tables.property_types = [1; 2; 3; 4; 5] /\ Tables.default_properties_default = [].
Proof. exact documented_defaults. Qed.
Print Assumptions C17_documented_tables.

Theorem C17_simfile_level_never_keyerror : forall sf beh base,
  copy_props Tables.invalid_sm_simfile beh None sf base <> CKeyError.
Proof. exact ssc_to_sm_simfile_no_keyerror. Qed.
Print Assumptions C17_simfile_level_never_keyerror.

(* every SSC-only key of the blank SSC templates holds its default: what the round trip through sm_to_ssc relies on *)
Theorem C17_blank_templates_hold_defaults :
  forallb (fun kv => negb (ssc_only Tables.invalid_sm_simfile (fst kv)) ||
                     match decide Tables.invalid_sm_simfile [(1, 3); (2, 3); (3, 3); (4, 3); (5, 3)] (fst kv) (snd kv) with DSkip => true | _ => str_eqb (fst kv) kVERSION end)
          Tables.blank_ssc_simfile = true /\
  forallb (fun kv => negb (ssc_only Tables.invalid_sm_chart (fst kv)) ||
                     match decide Tables.invalid_sm_chart [(2, 3); (4, 3); (5, 3)] (fst kv) (snd kv) with DSkip => true | _ => false end)
          Tables.blank_ssc_chart = true.
Proof. vm_compute. split; reflexivity. Qed.

(* converting the result of an SM -> SSC conversion back (blank templates, documented default behaviours) succeeds
   and gives an SM simfile equal to the original on every original property and chart field, for every SM source
   that holds no SSC-only key and whose charts are the six fields *)
Theorem C17_roundtrip_from_sm : forall sf charts out cs,
  NoDupKeys sf -> (forall c, List.In c charts -> NoDupKeys c) ->
  (forall k, has k sf = true -> ssc_only Tables.invalid_sm_simfile k = false) ->
  (forall c k, List.In c charts -> has k c = true -> mem_str k Tables.sm_chart_properties = true) ->
  sm_to_ssc sf charts None None = COk (out, cs) ->
  exists sm' cs', ssc_to_sm out cs None None [] = COk (sm', cs') /\
    (forall k v, get k sf = Some v -> get k sm' = Some v) /\
    length cs' = length charts /\
    (forall i c, nth_error charts i = Some c -> exists c'', nth_error cs' i = Some c'' /\ forall k v, get k c = Some v -> get k c'' = Some v).
Proof. exact sm_ssc_sm. Qed.
Print Assumptions C17_roundtrip_from_sm.

Example C17_example :
  let sf := [(kVERSION, Some [48;46;56;51]); (kBPMS, Some [48;61;49]); ([67;79;77;66;79;83], Some [32;48;46;48;48;48;61;49;10]);
             ([83;80;69;69;68;83], Some [120])]%N in
  ssc_to_sm sf [] None None [] = CInvalid [83;80;69;69;68;83]%N /\
  match ssc_to_sm sf [] None None [(4, 2)] with COk (out, _) => negb (has [83;80;69;69;68;83]%N out) && negb (has kVERSION out) | _ => false end = true /\
  match ssc_to_sm sf [] None None [(4, 1); (1, 1)] with COk (out, _) => has [83;80;69;69;68;83]%N out && has kVERSION out | _ => false end = true.
Proof. vm_compute. repeat split; reflexivity. Qed.
