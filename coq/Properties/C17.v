From SV Require Import Convert.
Theorem C17_placeholder : True. Proof. exact I. Qed.
