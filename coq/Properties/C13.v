(* C13 - Hittability and note timing follow the warp rules exactly.  Statements only.
   Both clauses are theorems: C13_hittable_iff (for every timing data of the domain and every
   non-negative beat, through the model of bisect, the merged event list and the warp coalescing) and
   the note-timing rule / order / fake-differs-in-type-only.  The times themselves are exact rationals
   in the model; the binary64 gap of the implementation is measured by the correspondence (1e-9 s). *)
From Coq Require Import List ZArith NArith QArith Bool.
From SV Require Import Sx Beat Notes Engine Generated.Tables Proofs.EngineFacts Proofs.Hittable Proofs.TimeLaw Proofs.ZeroTags.
Import ListNotations.
Open Scope Q_scope.

(* A beat is reported unhittable exactly when it lies inside the union of the raw warp segments
   [s, s + length) (start included, end excluded; lengths rounded to the tick as the code does) and no stop
   or delay sits on that same beat.  For every timing data of the domain: any coincidence of events. *)
Theorem C13_hittable_iff : forall td v0 b,
  dom td -> (exists rest, td_bpms td = (0, v0) :: rest) -> 0 <= b ->
  let s0 := init_state td v0 in
  let sts := run_states s0 (events td) in
  hittable sts s0 b = false <-> (in_raw (td_warps td) b /\ ~ pause_on td b).
Proof. exact hittable_iff. Qed.
Print Assumptions C13_hittable_iff.

(* ... and on every beat, negative ones included (the search clamps to the initial state, which is outside every warp) *)
Theorem C13_hittable_iff_every_beat : forall td v0 b, dom td -> (exists rest, td_bpms td = (0, v0) :: rest) ->
  (hittable (sts td v0) (init_state td v0) b = false <-> (in_raw (td_warps td) b /\ ~ pause_on td b)).
Proof. exact hittable_iff_all. Qed.
Print Assumptions C13_hittable_iff_every_beat.

(* the state list the theorem speaks about is the one the engine builds *)
Theorem C13_states_are_run_states : forall td v0 rest, td_bpms td = (0, v0) :: rest ->
  states td = EOk (run_states (init_state td v0) (events td)).
Proof. intros td v0 rest H. unfold states. rewrite H. reflexivity. Qed.
Print Assumptions C13_states_are_run_states.

(* each note is timed on its own, at the time of its beat, by the stated rule *)
Theorem C13_time_notes_rule : forall opt sts d n,
  time_notes opt sts d [n] =
  if hittable sts d (note_beat n) || Z.eqb opt 3 then [(time_at sts d (note_beat n) tSTOP, n)]
  else if Z.eqb opt 1 && N.eqb (ntype n) 49 then [(time_at sts d (note_beat n) tSTOP, as_fake n)]
  else [].
Proof. exact time_notes_one. Qed.
Print Assumptions C13_time_notes_rule.

(* original order: timing a stream is timing its pieces in order *)
Theorem C13_order : forall opt sts d a b,
  time_notes opt sts d (a ++ b) = time_notes opt sts d a ++ time_notes opt sts d b.
Proof. exact time_notes_app. Qed.
Print Assumptions C13_order.

(* a fake differs from the original tap in nothing but the note type *)
Theorem C13_fake_only_type : forall n,
  nb_n (as_fake n) = nb_n n /\ nb_d (as_fake n) = nb_d n /\ ncol (as_fake n) = ncol n /\
  nplayer (as_fake n) = nplayer n /\ nks (as_fake n) = nks n /\ ntype (as_fake n) = 70%N.
Proof. exact as_fake_only_type. Qed.
Print Assumptions C13_fake_only_type.

(* the hittability decision, as the code makes it, on the state selected for (beat, STOP_END) *)
Theorem C13_hittable_decision : forall sts d b,
  hittable sts d b =
  let p := prior sts d b tSTOP_END in
  negb (s_warp p) || (is_end_tag (s_tag p) && qeq b (s_beat p)).
Proof. intros sts d b. unfold hittable. cbv zeta. destruct (s_warp (prior sts d b tSTOP_END)); reflexivity. Qed.
Print Assumptions C13_hittable_decision.

Theorem C13_unhittable_options :
  Tables.unhittable_notes = [([84;65;80;95;84;79;95;70;65;75;69]%N, 1%Z); ([68;82;79;80;95;78;79;84;69]%N, 2%Z); ([75;69;69;80;95;78;79;84;69]%N, 3%Z)].
Proof. reflexivity. Qed.

(* warp 4..6 with a stop on beat 5: 4 and 5.5 unhittable, 5 (stop) and 6 (end excluded) hittable; routine keysounded tap -> fake *)
Definition ex13 : tdata := {| td_bpms := [(0, 120)]; td_stops := [(5, 1 # 2)]; td_delays := []; td_warps := [(4, 2)]; td_offset := 0 |}.
Definition tapn : note := {| nb_n := 9; nb_d := 2; ncol := 1; ntype := 49%N; nplayer := 1; nks := Some 0%Z |}.
Example C13_example :
  match states ex13 with
  | EOk sts =>
      let d := hd {| s_beat := 0; s_val := 0; s_tag := 0; s_time := 0; s_bpm := 1; s_warp := false |} sts in
      negb (hittable sts d 4) && hittable sts d 5 && negb (hittable sts d (11 # 2)) && hittable sts d 6 && hittable sts d (7 # 2) &&
      match time_notes 1 sts d [tapn] with [(t, n)] => Qeq_bool t 2 && N.eqb (ntype n) 70 && Z.eqb (nplayer n) 1 | _ => false end &&
      match time_notes 2 sts d [tapn] with [] => true | _ => false end
  | _ => false end = true.
Proof. vm_compute. reflexivity. Qed.
