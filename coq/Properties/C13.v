From SV Require Import Engine.
Theorem C13_placeholder : True. Proof. exact I. Qed.
