(* C10 - Ungrouping grouped notes restores the original note stream.  Statements only. *)
From Coq Require Import List Arith ZArith NArith Bool Sorting.Sorted Sorting.Permutation.
From SV Require Import Sx Str Notes Group Proofs.GroupRefine Proofs.C09 Proofs.C10 Proofs.C10ByType.
Import ListNotations.
Local Open Scope nat_scope.

(* Domain: a stream strictly sorted by position (so single position per note), one player p0,
   positive denominators, non-negative columns, tails without keysound index. *)

(* with orphans kept, any ungroup policy: exactly the included notes, in the original order *)
Theorem C10_roundtrip_keep : forall p0 types m pol ns g,
  (m = KeepSeparate \/ m = JoinAll) ->
  StronglySorted lt ns -> Forall (wf p0) ns ->
  group_notes types m true Keep Keep ns = GOk g ->
  ungroup_notes pol g = UOk (filter (included types) ns).
Proof.
  intros p0 types m pol ns g Hm Hs Hwf Hg.
  rewrite (roundtrip_join p0 types m Keep Keep pol ns g Hm Hs Hwf Hg). rewrite kept_keep. reflexivity.
Qed.
Print Assumptions C10_roundtrip_keep.

(* with any orphan policies: exactly the dropped orphans are missing, nothing else, order kept;
   [kept] removes a note iff it is neither a matched tail nor emitted by the documented rule *)
Theorem C10_dropped_exactly : forall p0 types m ph pt pol ns g,
  (m = KeepSeparate \/ m = JoinAll) ->
  StronglySorted lt ns -> Forall (wf p0) ns ->
  group_notes types m true ph pt ns = GOk g ->
  ungroup_notes pol g = UOk (kept ph pt [] (filter (included types) ns)).
Proof. exact roundtrip_join. Qed.
Print Assumptions C10_dropped_exactly.

Theorem C10_roundtrip_nojoin : forall types m ph pt pol ns g,
  (m = KeepSeparate \/ m = JoinAll) ->
  group_notes types m false ph pt ns = GOk g -> ungroup_notes pol g = UOk (filter (included types) ns).
Proof. exact roundtrip_nojoin. Qed.
Print Assumptions C10_roundtrip_nojoin.

(* per-type grouping (JOIN_BY_NOTE_TYPE), with joining, any orphan policies, any ungroup policy: ungrouping succeeds
   and yields the same notes as the other modes (a permutation of [kept ...], so exactly the included notes when
   orphans are kept), with beats that never decrease.  No orphaned_notes policy ever fires: no note lies inside a
   joined hold of its column, whatever the order inside a row. *)
Theorem C10_roundtrip_by_type : forall p0 types ph pt pol ns g,
  StronglySorted lt ns -> Forall (wf p0) ns ->
  group_notes types JoinByNoteType true ph pt ns = GOk g ->
  exists out, ungroup_notes pol g = UOk out /\
              Permutation out (kept ph pt [] (filter (included types) ns)) /\ StronglySorted ble out.
Proof. exact roundtrip_join_bytype. Qed.
Print Assumptions C10_roundtrip_by_type.

Theorem C10_roundtrip_by_type_nojoin : forall p0 types ph pt pol ns g,
  StronglySorted lt ns -> Forall (wf p0) ns ->
  group_notes types JoinByNoteType false ph pt ns = GOk g ->
  exists out, ungroup_notes pol g = UOk out /\
              Permutation out (filter (included types) ns) /\ StronglySorted ble out.
Proof. exact roundtrip_nojoin_bytype. Qed.
Print Assumptions C10_roundtrip_by_type_nojoin.

(* the engine of both: any list of items in which no note lies inside a joined hold of its column ([good]), heads
   distinct and beats non-decreasing, ungroups under every policy to a permutation of its notes, beats non-decreasing *)
Theorem C10_ungroup_any_order : forall p0 ns pol L,
  StronglySorted lt ns -> Forall (wf p0) ns ->
  good ns L -> StronglySorted hble L -> NoDup (map item_head L) ->
  exists out, ungroup_go pol L [] [] = UOk out /\ Permutation out (flat_map item_notes L) /\ StronglySorted ble out.
Proof.
  intros p0 ns pol L Hs Hwf Hg Hh Hnd.
  destruct (run p0 ns Hs Hwf pol L [] [] [] Hg Hh Hnd (inv_init ns L)) as (out & E & P & S). exists out. auto.
Qed.
Print Assumptions C10_ungroup_any_order.

(* the general invariant behind both: from any reachable point of the stream *)
Theorem C10_invariant : forall p0 pol ph pt ns rp S P' acc,
  StronglySorted lt ns -> Forall (wf p0) ns -> Forall (wf p0) rp -> J S P' rp ns ->
  ungroup_go pol (doc_items ph pt rp ns) (S ++ P') acc = UOk (rev acc ++ S ++ kept ph pt rp ns).
Proof. exact ungroup_doc_items. Qed.
Print Assumptions C10_invariant.

(* a note lying inside a joined hold on its column - i.e. after the tails before it have been emitted, a pending tail
   still sits on its column - makes ungroup raise, pass it through or drop it, as its option says, for every list of
   items and every state of the pending tails *)
Theorem C10_inside_hold_policy : forall i rest pend acc acc1 pend1,
  pop_before (item_head i) pend acc = (acc1, pend1) -> col_pending (item_head i) pend1 = true ->
  let pend2 := match i with Plain _ => pend1 | Joined h tb => push_sorted (tail_note h tb) pend1 end in
  ungroup_go Raise (i :: rest) pend acc = UErrOrphan (item_head i) /\
  ungroup_go Keep (i :: rest) pend acc = ungroup_go Keep rest pend2 (item_head i :: acc1) /\
  ungroup_go Drop (i :: rest) pend acc = ungroup_go Drop rest pend2 acc1.
Proof. intros i rest pend acc acc1 pend1 Hp Hc. cbn [ungroup_go]. rewrite Hp, Hc. repeat split; reflexivity. Qed.
Print Assumptions C10_inside_hold_policy.

Theorem C10_inside_means_pending_tail_on_column : forall n pend,
  col_pending n pend = true <-> exists t, In t pend /\ ncol t = ncol n.
Proof.
  intros n pend. unfold col_pending. rewrite existsb_exists. split; intros [t [Ht Hc]]; exists t; split; try assumption;
    [apply Z.eqb_eq; exact Hc|apply Z.eqb_eq; exact Hc].
Qed.
Print Assumptions C10_inside_means_pending_tail_on_column.

(* a note inside a joined hold on its column: raise / keep / drop *)
Definition h0 : note := {| nb_n := 0; nb_d := 1; ncol := 0; ntype := 50%N; nplayer := 0; nks := Some 5%Z |}.
Definition mine : note := {| nb_n := 2; nb_d := 1; ncol := 0; ntype := 77%N; nplayer := 0; nks := None |}.
Definition tap1 : note := {| nb_n := 3; nb_d := 1; ncol := 1; ntype := 49%N; nplayer := 0; nks := None |}.
Definition t0 : note := {| nb_n := 4; nb_d := 1; ncol := 0; ntype := 51%N; nplayer := 0; nks := None |}.
Example C10_inside_hold :
  ungroup_notes Raise [[Joined h0 (4, 1)%Z]; [Plain mine]; [Plain tap1]] = UErrOrphan mine /\
  ungroup_notes Keep [[Joined h0 (4, 1)%Z]; [Plain mine]; [Plain tap1]] = UOk [h0; mine; tap1; t0] /\
  ungroup_notes Drop [[Joined h0 (4, 1)%Z]; [Plain mine]; [Plain tap1]] = UOk [h0; tap1; t0].
Proof. vm_compute. repeat split; reflexivity. Qed.

(* non-vacuity of the round-trip hypotheses *)
Example C10_example_hypotheses :
  StronglySorted lt [h0; mine; tap1; t0] /\ Forall (wf 0%Z) [h0; mine; tap1; t0] /\
  exists g, group_notes [49;50;51;77]%N JoinAll true Keep Keep [h0; mine; tap1; t0] = GOk g.
Proof.
  split; [|split].
  - repeat constructor.
  - repeat constructor; simpl; try discriminate; try reflexivity; intros; try discriminate; reflexivity.
  - eexists. vm_compute. reflexivity.
Qed.
