From SV Require Import Group.
Theorem C10_placeholder : True. Proof. exact I. Qed.
