(* C02 - SSC simfile: serialize then parse gives back the same simfile.  Statements only. *)
From Coq Require Import List NArith ZArith Bool.
From SV Require Import Sx Str Omap Msd Simfile Generated.Tables Proofs.MsdFacts Proofs.SmRoundTrip Proofs.SscRoundTrip.
Import ListNotations.
Open Scope N_scope.

(* notes_last moves each chart's note data item (NOTES, or NOTES2 when only that is present) to the
   end and changes nothing else *)
Theorem C02_roundtrip : forall strict sf, wf_ssc sf -> safe_ssc sf = true ->
  exists t, ser_ssc sf = Some t /\ load_ssc strict t = LOk (notes_last sf).
Proof. exact ssc_roundtrip. Qed.
Print Assumptions C02_roundtrip.

Theorem C02_fixpoint : forall c, wf_chart c -> (exists pre nv, c = pre ++ [(notes_key c, nv)]) -> notes_last_chart c = c.
Proof. exact notes_last_fixpoint. Qed.
Print Assumptions C02_fixpoint.

(* no property is ever dropped, renamed or invented - values are data, identity plays no role *)
Theorem C02_nothing_dropped : forall c k v, wf_chart c ->
  (List.In (k, v) c <-> List.In (k, v) (notes_last_chart c)).
Proof. intros c k v H. split; [apply nothing_dropped|apply nothing_invented]; exact H. Qed.
Print Assumptions C02_nothing_dropped.

(* each chart: NOTEDATA first, its other properties in order, the note data last *)
Theorem C02_chart_shape : forall c nv,
  params_of (chunks_chart c nv) =
  [kNOTEDATA; []] :: map (fun kv => prop_comps (fst kv) (snd kv)) (filter (not_key (notes_key c)) c ++ [(notes_key c, nv)]).
Proof. exact params_of_chart. Qed.
Print Assumptions C02_chart_shape.

Theorem C02_serializable : forall sf, (forall c, List.In c (ssc_charts sf) -> wf_chart c) -> exists t, ser_ssc sf = Some t.
Proof. exact ssc_serializable. Qed.
Print Assumptions C02_serializable.

Theorem C02_multivalue_unescaped : forall k s, is_multi k = true -> prop_comps k (Some s) = k :: split_on 58 s.
Proof. exact multivalue_unescaped. Qed.

(* non-vacuity: a chart with NOTES2 in the middle, an empty value equal to the note data, a
   one-character value equal to another, a key-only property, chart-level DISPLAYBPM *)
Definition ex_chart : props :=
  [([77;69;84;69;82], Some [49]); (kNOTES2, Some []); ([88], Some []); ([89], Some [49]); ([90], None);
   ([68;73;83;80;76;65;89;66;80;77], Some [54;48;58;50;52;48])].
Definition ex_ssc : sscsimfile := {| ssc_props := [(kVERSION, Some [48;46;56;51]); ([84], Some [58;59])]; ssc_charts := [ex_chart; [(kNOTES, Some [49])]] |}.
Example C02_example :
  safe_ssc ex_ssc = true /\
  match ser_ssc ex_ssc with Some t => load_ssc true t | None => LErrKey end = LOk (notes_last ex_ssc) /\
  match ser_ssc ex_ssc with Some t => load true None t | None => LErrKey end = LOk (SSC (notes_last ex_ssc)).
Proof. vm_compute. repeat split; reflexivity. Qed.
