From SV Require Import Simfile.
Theorem C02_placeholder : True. Proof. exact I. Qed.
