(* C08 - Notes written to note data read back identically, in canonical form.
   Statements only (proofs: Proofs/C08.v arithmetic, Proofs/NotesGrid.v the encoder, Proofs/NotesText.v the
   lexical layer).  C08_roundtrip is the property's first sentence for every stream and column count;
   the arithmetic theorems below it say why the canonical measure has exactly 4 x lcm rows. *)
From Coq Require Import List ZArith NArith Bool.
From SV Require Import Sx Str Notes Proofs.C07 Proofs.C08 Proofs.NotesText Proofs.NotesGrid.
From Coq Require Import Sorting.Sorted.
Import ListNotations.
Open Scope Z_scope.

(* decode (encode ns) = ns: for every stream sorted strictly by (player, beat, column) whose note types are
   note characters, and every positive column count for which the encoder succeeds, the text decodes to the
   requested column count and to the same notes - same beat (as a rational), column, type, player, keysound *)
Theorem C08_roundtrip : forall cols ns text, (0 < cols)%nat ->
  StronglySorted (fun a b => pos_cmp a b = Lt) ns ->
  (forall n, In n ns -> is_note_char (ntype n) = true) ->
  encode cols ns = Some text ->
  exists ns', decode text = Some (cols, ns') /\ Forall2 note_eqv ns' ns.
Proof. exact encode_decode. Qed.
Print Assumptions C08_roundtrip.

(* rebuilding note data from its own notes reproduces the same text: the decoded beats (4 m R + 4 l) / R, brought to
   lowest terms as Fraction keeps them, re-encode to the text they were read from - for every stream of reduced beats *)
Theorem C08_canonical_fixpoint : forall cols ns text, (0 < cols)%nat ->
  StronglySorted (fun a b => pos_cmp a b = Lt) ns ->
  (forall n, In n ns -> is_note_char (ntype n) = true) ->
  (forall n, In n ns -> Z.gcd (nb_n n) (nb_d n) = 1) ->
  encode cols ns = Some text ->
  exists ns', decode text = Some (cols, ns') /\ encode cols (map reduce_note ns') = Some text.
Proof. exact canonical_fixpoint. Qed.
Print Assumptions C08_canonical_fixpoint.

(* the text is the canonical rendering of a grid of cells: every player up to the last one, every measure up
   to a player's last note (skipped ones blank: four rows of zeros), each measure's rows built by rows_c *)
Theorem C08_text_is_a_grid : forall cols ns,
  encode cols ns =
  if negb (beats_ok ns) then None else
  match ns with
  | [] => Some (grid_text [[blank_m cols]])
  | _ => match players_c cols (-1) (group_by nplayer ns) with Some g => Some (grid_text g) | None => None end
  end.
Proof. exact encode_text. Qed.
Print Assumptions C08_text_is_a_grid.

(* a measure holding the notes ms is written with exactly 4 x lcm(denominators) rows *)
Theorem C08_rows_per_measure : forall cols p m ms x, measure_c cols ms = Some x -> meas_ok p m ms ->
  Z.of_nat (length x) = 4 * lcm_den ms.
Proof. intros cols p m ms x H Hok. exact (proj1 (measure_c_sem cols p m ms x H Hok)). Qed.
Print Assumptions C08_rows_per_measure.

(* rows per beat of a measure = the least common denominator of its notes' beats: every
   denominator divides it and it divides every other common multiple *)
Theorem C08_minimal_rows : forall ms,
  (forall n, In n ms -> (nb_d n | lcm_den ms)) /\
  (forall q', (forall n, In n ms -> (nb_d n | q')) -> (lcm_den ms | q')).
Proof. intro ms. split; [intros; apply den_divides_lcm; assumption|apply lcm_den_least]. Qed.
Print Assumptions C08_minimal_rows.

Theorem C08_whole_beats_four_rows : forall ms, (forall n, In n ms -> nb_d n = 1) -> 4 * lcm_den ms = 4.
Proof. intros ms H. rewrite (lcm_den_whole ms H). reflexivity. Qed.
Print Assumptions C08_whole_beats_four_rows.

(* the row a note is written on exists (exact integer, inside the measure) ... *)
Theorem C08_row_in_measure : forall ms n, (forall x, In x ms -> 0 < nb_d x) -> In n ms ->
  row_index (lcm_den ms) n * nb_d n = (nb_n n mod (4 * nb_d n)) * lcm_den ms /\
  0 <= row_index (lcm_den ms) n < 4 * lcm_den ms.
Proof.
  intros ms n Hpos Hin. apply row_index_exact; [apply Hpos; assumption|apply lcm_den_pos; assumption|apply den_divides_lcm; assumption].
Qed.
Print Assumptions C08_row_in_measure.

(* ... and the decoder's beat formula applied to that cell gives back exactly the note's beat *)
Theorem C08_cell_decodes_to_own_beat : forall ms n, (forall x, In x ms -> 0 < nb_d x) -> In n ms ->
  let q := lcm_den ms in
  (measure_index n * 4 * (4 * q) + row_index q n * 4) * nb_d n = nb_n n * (4 * q).
Proof.
  intros ms n Hpos Hin. apply placed_beat_is_own_beat; [apply Hpos; assumption|apply lcm_den_pos; assumption|apply den_divides_lcm; assumption].
Qed.
Print Assumptions C08_cell_decodes_to_own_beat.

(* notes of one measure share a row exactly when they share a beat: no two beats collide, no beat is split *)
Theorem C08_rows_separate_beats : forall ms x y, (forall n, In n ms -> 0 < nb_d n) -> In x ms -> In y ms ->
  measure_index x = measure_index y ->
  (row_index (lcm_den ms) x = row_index (lcm_den ms) y <-> nb_n x * nb_d y = nb_n y * nb_d x).
Proof.
  intros ms x y Hpos Hx Hy Hm.
  apply same_row_iff_same_beat; auto using lcm_den_pos, den_divides_lcm.
Qed.
Print Assumptions C08_rows_separate_beats.

Theorem C08_empty_stream : forall cols, encode cols [] = Some (blank_measure cols).
Proof. reflexivity. Qed.
Print Assumptions C08_empty_stream.

(* non-vacuity + the full pipeline on a concrete stream: 1/8 and 1/3 in one measure (96 rows), a
   skipped measure, a skipped player, a keysound; encode then decode is the identity *)
Definition ex_stream : list note :=
  [ {| nb_n := 1; nb_d := 8; ncol := 0; ntype := 49%N; nplayer := 0; nks := None |};
    {| nb_n := 1; nb_d := 3; ncol := 1; ntype := 50%N; nplayer := 0; nks := Some 7 |};
    {| nb_n := 9; nb_d := 1; ncol := 1; ntype := 77%N; nplayer := 2; nks := None |} ].
Definition beq (a b : note) : bool :=
  (nb_n a * nb_d b =? nb_n b * nb_d a) && (ncol a =? ncol b) && (N.eqb (ntype a) (ntype b)) && (nplayer a =? nplayer b) &&
  match nks a, nks b with None, None => true | Some u, Some v => u =? v | _, _ => false end.
Example C08_example_roundtrip :
  match encode 2 ex_stream with
  | Some t => match decode t with
              | Some (c, ns) => Nat.eqb c 2 && Nat.eqb (length ns) 3 && forallb (fun p => beq (fst p) (snd p)) (combine ns ex_stream)
              | None => false end
  | None => false end = true.
Proof. vm_compute. reflexivity. Qed.
