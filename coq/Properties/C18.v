(* C18 - Attribute and key views of a simfile or chart never disagree. Statements only. *)
From Coq Require Import List NArith Bool.
From SV Require Import Sx Str Omap Props Proofs.C18 Generated.Tables.
Import ListNotations.

(* each attribute acts on the alias exactly when the alias is present and the standard key is not *)
Theorem C18_effective_key : forall p m,
  name_or_alias p m =
  match palias p with
  | Some a => if has a m && negb (has (pname p) m) then a else pname p
  | None => pname p
  end.
Proof. exact effective_key_rule. Qed.
Print Assumptions C18_effective_key.

Theorem C18_views_agree_on_read : forall p m,
  attr_get p m = match get (name_or_alias p m) m with Some v => v | None => None end.
Proof. exact attr_get_key_view. Qed.
Print Assumptions C18_views_agree_on_read.

Theorem C18_assign_visible_in_both_views : forall p v m,
  attr_get p (attr_set p v m) = v /\ get (name_or_alias p m) (attr_set p v m) = Some v.
Proof. intros; split; [apply attr_set_get|apply attr_set_key_view]. Qed.
Print Assumptions C18_assign_visible_in_both_views.

Theorem C18_assign_frame : forall p v m,
  (forall k, k <> name_or_alias p m -> get k (attr_set p v m) = get k m) /\
  keys (attr_set p v m) = (if has (name_or_alias p m) m then keys m else keys m ++ [name_or_alias p m]).
Proof. intros; split; [intros; apply attr_set_frame; assumption|apply attr_set_order]. Qed.
Print Assumptions C18_assign_frame.

Theorem C18_delete_absent_is_keyerror : forall p m,
  attr_del p m = None <->
  has (pname p) m = false /\ match palias p with Some a => has a m = false | None => True end.
Proof. exact attr_del_absent_both. Qed.
Print Assumptions C18_delete_absent_is_keyerror.

Theorem C18_delete_frame : forall p m m', NoDupKeys m -> attr_del p m = Some m' ->
  get (name_or_alias p m) m' = None /\
  (forall k, k <> name_or_alias p m -> get k m' = get k m) /\
  keys m' = remove_key (name_or_alias p m) (keys m).
Proof.
  intros p m m' N D. split; [eapply attr_del_removes; eauto|split].
  - intros; eapply attr_del_frame; eauto.
  - apply attr_del_order; assumption.
Qed.
Print Assumptions C18_delete_frame.

(* keys stay unique along every history of attribute/key operations *)
Theorem C18_unique_keys_all_histories : forall m ops, NoDupKeys m -> NoDupKeys (fst (run_ops step m ops)).
Proof. exact run_NoDup. Qed.
Print Assumptions C18_unique_keys_all_histories.

(* an SM chart that has its six fields keeps exactly its key list along every history *)
Theorem C18_smchart_invariant : forall m ops,
  (forall k, In k Tables.sm_chart_properties -> In k (keys m)) ->
  keys (fst (run_ops (smc_step Tables.sm_chart_properties) m ops)) = keys m.
Proof. intros m ops H. exact (smc_run_keys Tables.sm_chart_properties m ops H). Qed.
Print Assumptions C18_smchart_invariant.

Theorem C18_smchart_blank_has_six : keys Tables.blank_sm_chart = Tables.sm_chart_properties.
Proof. vm_compute. reflexivity. Qed.
Print Assumptions C18_smchart_blank_has_six.

Theorem C18_smchart_assign_visible : forall m k v, mem_str k Tables.sm_chart_properties = true ->
  snd (smc_step Tables.sm_chart_properties (fst (smc_step Tables.sm_chart_properties m (KeySet k v))) (KeyGet k)) = RVal v.
Proof. intros; apply smc_keyset_visible; assumption. Qed.
Print Assumptions C18_smchart_assign_visible.

Theorem C18_smchart_foreign_key_refused : forall m k v, mem_str k Tables.sm_chart_properties = false ->
  smc_step Tables.sm_chart_properties m (KeySet k v) = (m, RKeyError).
Proof. intros; apply smc_foreign_key_refused; assumption. Qed.
Print Assumptions C18_smchart_foreign_key_refused.

(* the aliases the documentation fixes, read from the code's property tables *)
Definition alias_of (tbl : list (str * str * option str)) (attr : str) : option (str * option str) :=
  match find (fun e => str_eqb (fst (fst e)) attr) tbl with Some e => Some (snd (fst e), snd e) | None => None end.
Example C18_documented_aliases :
  alias_of Tables.props_sm_simfile [115;116;111;112;115]%N = Some ([83;84;79;80;83]%N, Some [70;82;69;69;90;69;83]%N) /\
  alias_of Tables.props_ssc_simfile [115;116;111;112;115]%N = Some ([83;84;79;80;83]%N, None) /\
  alias_of Tables.props_sm_simfile [98;103;99;104;97;110;103;101;115]%N = Some ([66;71;67;72;65;78;71;69;83]%N, Some [65;78;73;77;65;84;73;79;78;83]%N) /\
  alias_of Tables.props_ssc_chart [110;111;116;101;115]%N = Some ([78;79;84;69;83]%N, Some [78;79;84;69;83;50]%N).
Proof. vm_compute. repeat split; reflexivity. Qed.
