From SV Require Import Simfile.
Theorem C01_placeholder : True. Proof. exact I. Qed.
