(* C01 - SM simfile: serialize then parse gives back the same simfile.  Statements only. *)
From Coq Require Import List NArith ZArith Bool.
From SV Require Import Sx Str Omap Msd Simfile Generated.Tables Proofs.MsdFacts Proofs.SmRoundTrip Proofs.Reach.
Import ListNotations.
Open Scope N_scope.

(* wf_sm: unique upper-case keys other than NOTES, chart fields equal to their own strip().
   safe_sm: no component in msdparser's escaping gaps (known finding K1), judged with the recovery
   flag the tokenizer really has at that point of the text.  Equality is structural: key order,
   key-only (None) values, chart order, extra components. *)
Theorem C01_roundtrip : forall strict sf, wf_sm sf -> safe_sm sf = true -> load_sm strict (ser_sm sf) = LOk sf.
Proof. exact sm_roundtrip. Qed.
Print Assumptions C01_roundtrip.

(* serialising the result again reproduces the text exactly *)
Theorem C01_stable : forall strict sf sf', wf_sm sf -> safe_sm sf = true ->
  load_sm strict (ser_sm sf) = LOk sf' -> ser_sm sf' = ser_sm sf.
Proof. intros strict sf sf' Hw Hs H. rewrite (sm_roundtrip strict sf Hw Hs) in H. inversion H. reflexivity. Qed.
Print Assumptions C01_stable.

(* the text is accepted by the strict parser: exactly its parameters, no stray text *)
Theorem C01_strict_accepts : forall sf, safe_sm sf = true ->
  parse true (ser_sm sf) = (params_of (chunks_sm sf), StOk).
Proof. intros sf H. rewrite ser_sm_chunks. apply parse_chunks. exact H. Qed.
Print Assumptions C01_strict_accepts.

Theorem C01_detected_sm : forall strict sf, wf_sm sf -> safe_sm sf = true ->
  (forall k v r, sm_props sf = (k, v) :: r -> str_eqb k kVERSION = false) ->
  load strict None (ser_sm sf) = LOk (SM sf).
Proof. exact sm_detected. Qed.
Print Assumptions C01_detected_sm.

Theorem C01_chart_param_shape : forall sf,
  params_of (chunks_sm sf) =
  map (fun kv => prop_comps (fst kv) (snd kv)) (sm_props sf) ++
  map (fun c => kNOTES :: (pad5 ++ c_stepstype c) :: (pad5 ++ c_description c) :: (pad5 ++ c_difficulty c) ::
                (pad5 ++ c_meter c) :: (pad5 ++ c_radarvalues c) :: (NL ++ c_notes c ++ NL) :: c_extra c) (sm_charts sf).
Proof. exact params_of_sm. Qed.
Print Assumptions C01_chart_param_shape.

Theorem C01_multivalue_unescaped : forall k s, is_multi k = true -> prop_comps k (Some s) = k :: split_on 58 s.
Proof. exact multivalue_unescaped. Qed.
Print Assumptions C01_multivalue_unescaped.

Theorem C01_multi_value_keys_are_the_documented_ones :
  Tables.multi_value_properties = [[65; 84; 84; 65; 67; 75; 83]; [68; 73; 83; 80; 76; 65; 89; 66; 80; 77]].
Proof. vm_compute. reflexivity. Qed.

(* every simfile reachable from blank() or the empty simfile by well-formed edits is well-formed *)
Theorem C01_reachable : forall sf ops, wf_sm sf -> Forall op_ok ops -> wf_sm (fold_left apply_sm_op ops sf).
Proof. exact reachable_wf. Qed.
Print Assumptions C01_reachable.
Theorem C01_start_states : wf_sm empty_sm /\ wf_sm blank_sm.
Proof. split; [exact empty_wf|exact blank_wf]. Qed.
Print Assumptions C01_start_states.

(* non-vacuity: ':' ';' '\' '//' and line breaks in values, a key-only property, a multi-value
   property, two charts, one with extra components *)
Definition ex_sf : smsimfile :=
  {| sm_props := [([84;73;84;76;69], Some [97;58;98;59;99;92;100;47;47;101;10;102]); ([65], None);
                  ([68;73;83;80;76;65;89;66;80;77], Some [54;48;58;50;52;48])];
     sm_charts := [ {| c_stepstype := [120]; c_description := []; c_difficulty := [69]; c_meter := [49]; c_radarvalues := [48];
                       c_notes := [48;48;10;49;48]; c_extra := [[113]; [58]] |};
                    {| c_stepstype := []; c_description := []; c_difficulty := []; c_meter := []; c_radarvalues := [];
                       c_notes := []; c_extra := [] |} ] |}.
Example C01_example : safe_sm ex_sf = true /\ load_sm true (ser_sm ex_sf) = LOk ex_sf.
Proof. vm_compute. split; reflexivity. Qed.
