(* C15 - Split timing: chart timing is used all-or-nothing under one rule.  Statements and their
   (short) proofs; the weight of this property is on the enumerated correspondence. *)
From Coq Require Import List ZArith NArith Bool.
From SV Require Import Sx Str Omap Beat Simfile TimingSrc Generated.Tables.
Import ListNotations.
Open Scope Z_scope.

(* the one rule *)
Theorem C15_source_iff : forall sk sf ck c,
  timing_source sk sf ck c = TOk SrcChart <->
  sk = KSSC /\ ck = CSSC /\ version_ok (get kVERSION sf) = TOk true /\
  exists key, In key Tables.chart_timing_properties /\ truthy (get key c) = true.
Proof.
  intros sk sf ck c. unfold timing_source, chart_has_timing. split.
  - destruct sk, ck; try discriminate. destruct (version_ok (get kVERSION sf)) as [[|]| | |] eqn:V; try discriminate.
    destruct (existsb _ _) eqn:E; [|discriminate]. intros _. repeat split; try reflexivity.
    apply existsb_exists in E. exact E.
  - intros (-> & -> & V & key & Hin & Ht). rewrite V.
    assert (E : existsb (fun key0 => truthy (get key0 c)) Tables.chart_timing_properties = true) by (apply existsb_exists; eauto).
    rewrite E. reflexivity.
Qed.
Print Assumptions C15_source_iff.

Theorem C15_the_eleven_timing_properties :
  Tables.chart_timing_properties =
  [kBPMS; kSTOPS; kDELAYS; [84;73;77;69;83;73;71;78;65;84;85;82;69;83]; [84;73;67;75;67;79;85;78;84;83]; [67;79;77;66;79;83];
   kWARPS; [83;80;69;69;68;83]; [83;67;82;79;76;76;83]; [70;65;75;69;83]; [76;65;66;69;76;83]]%N.
Proof. vm_compute. reflexivity. Qed.

Theorem C15_split_timing_version : Tables.ssc_version_split_timing_x100 = 70.
Proof. reflexivity. Qed.

(* all-or-nothing: when the chart is the source, nothing of the simfile (other than what made the
   chart the source) reaches the result; and the other way round *)
Theorem C15_chart_source_ignores_simfile : forall sf sf' c ign,
  timing_source KSSC sf CSSC c = TOk SrcChart -> timing_source KSSC sf' CSSC c = TOk SrcChart ->
  timing_data KSSC sf CSSC c = timing_data KSSC sf' CSSC c /\
  displaybpm KSSC sf CSSC c ign = displaybpm KSSC sf' CSSC c ign.
Proof. intros sf sf' c ign H H'. unfold timing_data, displaybpm. rewrite H, H'. split; reflexivity. Qed.
Print Assumptions C15_chart_source_ignores_simfile.

Theorem C15_simfile_source_ignores_chart : forall sk sf ck c ck' c' ign,
  timing_source sk sf ck c = TOk SrcSimfile -> timing_source sk sf ck' c' = TOk SrcSimfile ->
  timing_data sk sf ck c = timing_data sk sf ck' c' /\
  displaybpm sk sf ck c ign = displaybpm sk sf ck' c' ign.
Proof. intros sk sf ck c ck' c' ign H H'. unfold timing_data, displaybpm. rewrite H, H'. split; reflexivity. Qed.
Print Assumptions C15_simfile_source_ignores_chart.

(* every field comes from the one source *)
Theorem C15_fields_from_source : forall sk sf ck c s,
  timing_source sk sf ck c = TOk s ->
  timing_data sk sf ck c = timing_data_of (fst (src_props sk sf c s)) (snd (src_props sk sf c s)) /\
  forall ign, displaybpm sk sf ck c ign = displaybpm_of (fst (src_props sk sf c s)) ign.
Proof.
  intros sk sf ck c s H. unfold timing_data, displaybpm. rewrite H. destruct (src_props sk sf c s). split; reflexivity.
Qed.
Print Assumptions C15_fields_from_source.

(* the displayed-BPM rule *)
Theorem C15_displaybpm_rule : forall p : props,
  (get kDISPLAYBPM p = None \/ get kDISPLAYBPM p = Some None -> forall ign, displaybpm_of p ign = from_bpms p) /\
  (forall v, get kDISPLAYBPM p = Some (Some v) -> displaybpm_of p true = from_bpms p) /\
  (get kDISPLAYBPM p = Some (Some [42%N]) -> displaybpm_of p false = TOk DRandom).
Proof.
  intro p. split; [|split].
  - intros [H|H] ign; unfold displaybpm_of; destruct (get kDISPLAYBPM p) as [[v|]|]; try discriminate; reflexivity.
  - intros v H. unfold displaybpm_of. destruct (get kDISPLAYBPM p) as [[w|]|]; reflexivity.
  - intro H. unfold displaybpm_of. destruct (get kDISPLAYBPM p) as [[w|]|]; try discriminate. inversion H; subst. reflexivity.
Qed.
Print Assumptions C15_displaybpm_rule.

(* the version threshold on the seven listed versions, the offset default, the displayed BPM classes *)
Definition dv (s : list N) : option val := Some (Some s).
Example C15_examples :
  version_ok None = TOk false /\ version_ok (dv []) = TOk false /\ version_ok (dv [48;46;54;57]%N) = TOk false /\
  version_ok (dv [48;46;55]%N) = TOk true /\ version_ok (dv [48;46;55;48]%N) = TOk true /\
  version_ok (dv [48;46;56;51]%N) = TOk true /\ version_ok (dv [49;46;48]%N) = TOk true /\
  (forall t, timing_data_of [(kBPMS, Some [48;61;54;48]%N)] false = TOk t -> ts_offset t = {| dneg := false; dcoef := 0; dplaces := 0 |}) /\
  displaybpm_of [(kDISPLAYBPM, Some [49;50;48;58;50;52;48]%N)] false =
    TOk (DRange {| dneg := false; dcoef := 120; dplaces := 0 |} {| dneg := false; dcoef := 240; dplaces := 0 |}) /\
  displaybpm_of [(kDISPLAYBPM, Some []); (kBPMS, Some [48;61;54;48;44;52;61;57;48]%N)] false =
    TOk (DRange {| dneg := false; dcoef := 60; dplaces := 0 |} {| dneg := false; dcoef := 90; dplaces := 0 |}).
Proof.
  split; [vm_compute; reflexivity|]. split; [vm_compute; reflexivity|]. split; [vm_compute; reflexivity|].
  split; [vm_compute; reflexivity|]. split; [vm_compute; reflexivity|]. split; [vm_compute; reflexivity|].
  split; [vm_compute; reflexivity|]. split; [|split; vm_compute; reflexivity].
  intros t H. vm_compute in H. inversion H. reflexivity.
Qed.
