From SV Require Import TimingSrc.
Theorem C15_placeholder : True. Proof. exact I. Qed.
