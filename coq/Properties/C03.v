From SV Require Import Simfile.
Theorem C03_placeholder : True. Proof. exact I. Qed.
