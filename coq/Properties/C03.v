(* C03 - Loading builds exactly the documented object, through every entry point.  Statements only.
   In the model every entry point is [load]; that the library's entry points agree with each
   other is the correspondence check's claim, not a theorem (see DESIGN.md). *)
From Coq Require Import List NArith ZArith Bool Lia.
From SV Require Import Sx Str Omap Msd Simfile Proofs.MsdFacts Proofs.LoadFacts Proofs.LoadSpec Proofs.DetectSpec.
Import ListNotations.
Open Scope N_scope.

(* with strict parsing off no text is ever rejected for stray text *)
Theorem C03_nonstrict_total : forall t, snd (parse false t) <> StStray.
Proof. exact nonstrict_total. Qed.
Print Assumptions C03_nonstrict_total.

(* whatever strict parsing accepts, non-strict parsing reads identically *)
Theorem C03_strict_agrees : forall t ps, parse true t = (ps, StOk) -> parse false t = (ps, StOk).
Proof. exact strict_agrees. Qed.
Print Assumptions C03_strict_agrees.

(* the format rule *)
Theorem C03_detect_rule : forall strict name t,
  load strict (Some name) t =
  let '(ps, st) := parse strict t in
  if str_eqb (suffix_go (lower name) []) sSSC then map_lres SSC (load_ssc_params ps st)
  else if str_eqb (suffix_go (lower name) []) sSM then map_lres SM (load_sm_params ps st)
  else load strict None t.
Proof.
  intros strict name t. unfold load, detect_by_name. destruct (parse strict t) as [ps st].
  destruct (str_eqb (suffix_go (lower name) []) sSSC); [reflexivity|].
  destruct (str_eqb (suffix_go (lower name) []) sSM); reflexivity.
Qed.
Print Assumptions C03_detect_rule.

(* what "the file name ends in .ssc / .sm" means, stated without the model's scanning function: the name, lowered, is cut at its LAST dot
   (the part after it holds no dot) and that part alone decides; earlier dots, and a name that begins with its only dot, change nothing;
   a name without any dot is compared whole (so a file called "sm" is an SM file) *)
Theorem C03_format_by_last_dot : forall name pre suf, lower name = pre ++ 46 :: suf -> ~ List.In 46 suf ->
  detect_by_name name = if str_eqb suf sSSC then Some FSSC else if str_eqb suf sSM then Some FSM else None.
Proof. exact detect_by_last_dot. Qed.
Print Assumptions C03_format_by_last_dot.

Theorem C03_format_dotless : forall name, ~ List.In 46 (lower name) ->
  detect_by_name name = if str_eqb (lower name) sSSC then Some FSSC else if str_eqb (lower name) sSM then Some FSM else None.
Proof. exact detect_dotless. Qed.
Print Assumptions C03_format_dotless.

(* "Mr. Saturn.sm", ".ssc", "..SM", "a.sm.bak", "v1.2.SsC", "sm" *)
Example C03_format_examples :
  map detect_by_name [[77; 114; 46; 32; 83; 97; 116; 117; 114; 110; 46; 115; 109]; [46; 115; 115; 99]; [46; 46; 83; 77]; [97; 46; 115; 109; 46; 98; 97; 107];
                      [118; 49; 46; 50; 46; 83; 115; 67]; [115; 109]]
  = [Some FSM; Some FSSC; Some FSM; None; Some FSSC; Some FSM].
Proof. vm_compute. reflexivity. Qed.

Theorem C03_detect_by_content : forall ps,
  detect_by_content ps = match ps with (k :: _) :: _ => if str_eqb (upper k) kVERSION then FSSC else FSM | _ => FSM end.
Proof. reflexivity. Qed.

(* ---- the documented object, stated on the parameter list ---- *)
(* assigning key/value pairs in order: a key reads the value of the LAST pair that has it ... *)
Theorem C03_repeated_key_last_value : forall (k : str) (kvs : list (str * val)),
  get k (setall kvs []) = last_val k kvs None.
Proof. intros k kvs. exact (setall_get k kvs []). Qed.
Print Assumptions C03_repeated_key_last_value.

(* ... and the keys stand in the order of their FIRST occurrence *)
Theorem C03_repeated_key_first_position : forall (kvs : list (str * val)),
  keys (setall kvs []) = first_occ [] (map fst kvs).
Proof. intro kvs. exact (setall_keys kvs []). Qed.
Print Assumptions C03_repeated_key_first_position.

(* SM: every non-NOTES parameter is assigned under its upper-cased key with the value rule; every NOTES parameter
   becomes one chart, in order; fewer than six components anywhere is the ValueError *)
Theorem C03_sm_object : forall ps st,
  load_sm_params ps st =
  match sequence (map chart_from_msd (sm_chart_params ps)) with
  | Some cs => of_status st {| sm_props := setall (sm_prop_kvs ps) []; sm_charts := cs |}
  | None => LErrValue
  end.
Proof. exact load_sm_spec. Qed.
Print Assumptions C03_sm_object.

(* SSC: the parameters before the first NOTEDATA are the simfile's; every parameter after a NOTEDATA belongs to
   that chart, up to the next NOTEDATA ([ssc_split]); each segment is assigned in order as above *)
Theorem C03_ssc_object : forall ps st,
  load_ssc_params ps st =
  let '(h, cs) := ssc_split ps in
  of_status st {| ssc_props := setall (kvs_of h) []; ssc_charts := map chart_of cs |}.
Proof. exact load_ssc_spec. Qed.
Print Assumptions C03_ssc_object.

(* the value rule and the six-field rule *)
Theorem C03_value_rule : forall key vs,
  value_of key vs = match vs with [] => None | v :: _ => if is_multi key then Some (join [58] vs) else Some v end.
Proof. reflexivity. Qed.
Theorem C03_fewer_than_six_is_error : forall vs, (length vs < 6)%nat -> chart_from_msd vs = None.
Proof. intros vs H. destruct vs as [|a [|b [|c [|d [|e [|f r]]]]]]; try reflexivity. simpl in H. lia. Qed.
Print Assumptions C03_fewer_than_six_is_error.

Example C03_example :
  load true None [35;118;101;114;115;105;111;110;58;49;59;35;116;58;97;59;35;84;58;98;59;35;78;79;84;69;68;65;84;65;58;59;35;120;59;35;78;79;84;69;83;58;48;59;35;121;58;49;59]
  = LOk (SSC {| ssc_props := [(kVERSION, Some [49]); ([84], Some [98])];
                ssc_charts := [[([88], None); (kNOTES, Some [48]); ([89], Some [49])]] |}).
Proof. vm_compute. reflexivity. Qed.
