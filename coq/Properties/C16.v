(* C16 - SM to SSC conversion keeps every property, chart, timing and note.  Statements only.
   "Source and templates unmodified, no shared mutable object" cannot be expressed over immutable
   values: that clause and the reload of the serialization are the correspondence check's claims
   (see DESIGN.md).  Timing identity is C16_timing_identical (blank simfile template). *)
From Coq Require Import List ZArith NArith Bool.
From SV Require Import Sx Str Omap Beat Simfile TimingSrc Convert Generated.Tables Proofs.ConvertFacts Proofs.ConvertTiming.
Import ListNotations.
Open Scope Z_scope.

Theorem C16_conversion : forall sf charts tmpl_sf tmpl_chart,
  NoDupKeys sf -> (forall c, List.In c charts -> NoDupKeys c) -> sm_negative_timing sf = COk false ->
  let base := base_of Tables.blank_ssc_simfile tmpl_sf in
  let ct := chart_tmpl_of Tables.blank_ssc_chart tmpl_chart in
  NoDupKeys ct ->
  exists out cs,
    sm_to_ssc sf charts tmpl_sf tmpl_chart = COk (out, snd base ++ cs) /\
    (forall k v, get k sf = Some v -> get k out = Some v) /\
    (forall k, get k sf = None -> get k out = get k (fst base)) /\
    length cs = length charts /\
    (forall i c, nth_error charts i = Some c -> exists c', nth_error cs i = Some c' /\
       (forall k v, get k c = Some v -> get k c' = Some v) /\
       (forall k, get k c = None -> get k c' = get k ct)).
Proof. exact sm_to_ssc_spec. Qed.
Print Assumptions C16_conversion.

(* a converted chart that holds note data holds it as its last property, whatever the templates hold: what an SSC
   chart writes last and reads back last, so the serialization loads back in the same key order *)
Theorem C16_notes_last : forall sf charts tmpl_sf tmpl_chart out cs,
  sm_to_ssc sf charts tmpl_sf tmpl_chart = COk (out, cs) ->
  exists cs', cs = snd (base_of Tables.blank_ssc_simfile tmpl_sf) ++ cs' /\ length cs' = length charts /\
    forall c', List.In c' cs' -> has kNOTES c' = true -> exists pre v, c' = pre ++ [(kNOTES, v)].
Proof. exact sm_to_ssc_notes_last. Qed.
Print Assumptions C16_notes_last.

Theorem C16_negative_refused : forall sf charts tmpl_sf tmpl_chart,
  sm_negative_timing sf = COk true -> sm_to_ssc sf charts tmpl_sf tmpl_chart = CNotImpl.
Proof. exact sm_to_ssc_negative_refused. Qed.
Print Assumptions C16_negative_refused.

(* timing keys reach the result unchanged, so the library's readers see the same strings: every
   timing key of the source is a property of the source *)
Theorem C16_timing_strings_kept : forall sf charts tmpl_sf tmpl_chart out cs key v,
  NoDupKeys sf -> sm_to_ssc sf charts tmpl_sf tmpl_chart = COk (out, cs) -> get key sf = Some v -> get key out = Some v.
Proof.
  intros sf charts tmpl_sf tmpl_chart out cs key v Hnd H G.
  unfold sm_to_ssc, convert_core in H. destruct (sm_negative_timing sf) as [[|]| | | |]; try discriminate.
  destruct ssc_tables_empty as [E1 _].
  destruct (copy_props Tables.invalid_ssc_simfile [] None sf _) as [o| | | |] eqn:Eo; try discriminate.
  destruct (convert_charts _ _ _ _ _ charts); try discriminate. cbn [lift_charts] in H. inversion H; subst.
  apply (proj1 (copy_get_all _ E1 sf _ out Hnd Eo)). exact G.
Qed.
Print Assumptions C16_timing_strings_kept.

(* the timing data the library's reader extracts from the result (an SSC simfile, asked with any of its charts) is
   the timing data it extracts from the source: the chart never becomes the timing source, the five timing
   attributes read the same strings, and the optional ones the source lacks are empty in the blank template *)
Theorem C16_timing_identical : forall sf charts tmpl_chart out cs,
  NoDupKeys sf -> (forall c, List.In c charts -> NoDupKeys c) ->
  sm_to_ssc sf charts None tmpl_chart = COk (out, cs) ->
  has kBPMS sf = true -> has kSTOPS sf = true -> has kOFFSET sf = true -> has kVERSION sf = false ->
  chart_has_timing (chart_tmpl_of Tables.blank_ssc_chart tmpl_chart) = false ->
  NoDupKeys (chart_tmpl_of Tables.blank_ssc_chart tmpl_chart) ->
  (forall c key, List.In c charts -> List.In key Tables.chart_timing_properties -> get key c = None) ->
  forall i c c', nth_error charts i = Some c -> nth_error cs i = Some c' ->
    timing_data KSSC out CSSC c' = timing_data KSM sf CSM c.
Proof. exact sm_to_ssc_timing. Qed.
Print Assumptions C16_timing_identical.

(* ... and with ANY simfile template the caller supplies (its own charts come first in the result, hence the index shift),
   under the property's assumption on templates: it supplies no delay or warp the source lacks, its version tag is
   well-formed; whether that version is in the split-timing range does not matter, no chart of the result carries timing *)
Theorem C16_timing_identical_any_template : forall sf charts tmpl_sf tmpl_chart out cs,
  NoDupKeys sf -> (forall c, List.In c charts -> NoDupKeys c) ->
  sm_to_ssc sf charts tmpl_sf tmpl_chart = COk (out, cs) ->
  has kBPMS sf = true -> has kSTOPS sf = true -> has kOFFSET sf = true -> has kVERSION sf = false ->
  let base := fst (base_of Tables.blank_ssc_simfile tmpl_sf) in
  let nbase := length (snd (base_of Tables.blank_ssc_simfile tmpl_sf)) in
  (exists b, version_ok (get kVERSION base) = TOk b) ->
  parse_events (attr base kDELAYS None) = Got [] ->
  parse_events (match get kWARPS base with Some v => v | None => None end) = Got [] ->
  chart_has_timing (chart_tmpl_of Tables.blank_ssc_chart tmpl_chart) = false ->
  NoDupKeys (chart_tmpl_of Tables.blank_ssc_chart tmpl_chart) ->
  (forall c key, List.In c charts -> List.In key Tables.chart_timing_properties -> get key c = None) ->
  forall i c c', nth_error charts i = Some c -> nth_error cs (nbase + i) = Some c' ->
    timing_data KSSC out CSSC c' = timing_data KSM sf CSM c.
Proof. exact sm_to_ssc_timing_any_template. Qed.
Print Assumptions C16_timing_identical_any_template.

(* the blank templates supply no non-empty chart timing value: so a chart of the result never
   becomes its own timing source *)
Theorem C16_blank_chart_has_no_timing : chart_has_timing Tables.blank_ssc_chart = false.
Proof. vm_compute. reflexivity. Qed.

Definition s (l : list N) : str := l.
Example C16_example :
  let sf := [(kOFFSET, Some (s [48])); (kBPMS, Some (s [48;61;49;50;48])); (kSTOPS, Some (s [])); (s [88], Some (s [121]))]%N in
  let ch := [(s [83;84;69;80;83;84;89;80;69], Some (s [97])); (kNOTES, Some (s [48;48]))]%N in
  match sm_to_ssc sf [ch] None None with
  | COk (out, [c]) => andb (str_eqb (match get (s [88])%N out with Some (Some x) => x | _ => [] end) [121]%N)
                           (str_eqb (match get kNOTES c with Some (Some x) => x | _ => [] end) [48;48]%N)
  | _ => false end = true /\
  sm_to_ssc [(kBPMS, Some (s [48;61;45;49]))]%N [] None None = CNotImpl.
Proof. vm_compute. split; reflexivity. Qed.

(* non-vacuity of the template theorem: a short simfile template (version 0.5, outside the split-timing range, a title, one chart
   of its own) meets its hypotheses, and the converted chart sits behind the template's chart *)
Example C16_template_example :
  let tmpl := ([(kVERSION, Some (s [48;46;53])); (s [84], Some (s [116]))], [[(kNOTES, Some (s [49]))]])%N in
  let base := fst (base_of Tables.blank_ssc_simfile (Some tmpl)) in
  (match version_ok (get kVERSION base) with TOk false => true | _ => false end) &&
  (match parse_events (attr base kDELAYS None) with Got [] => true | _ => false end) &&
  (match sm_to_ssc [(kOFFSET, Some (s [48])); (kBPMS, Some (s [48;61;49;50;48])); (kSTOPS, Some (s []))]%N
                   [[(s [83;84;69;80;83;84;89;80;69], Some (s [97])); (kNOTES, Some (s [48;48]))]%N] (Some tmpl) None with
   | COk (out, [c0; c1]) => str_eqb (match get kNOTES c0 with Some (Some x) => x | _ => [] end) [49]%N &&
                            str_eqb (match get kNOTES c1 with Some (Some x) => x | _ => [] end) [48;48]%N &&
                            str_eqb (match get (s [84])%N out with Some (Some x) => x | _ => [] end) [116]%N
   | _ => false end) = true.
Proof. vm_compute. reflexivity. Qed.
