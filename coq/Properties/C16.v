From SV Require Import Convert.
Theorem C16_placeholder : True. Proof. exact I. Qed.
