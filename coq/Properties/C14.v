(* C14 - Beats are exact fractions that snap to the 1/48 grid only from inexact input.
   Statements only; proofs are in Proofs/C14.v. *)
From Coq Require Import ZArith.
From SV Require Import Str Beat Proofs.C14 Proofs.C14Lex Proofs.C14Events Generated.Tables.
Open Scope Z_scope.

(* the model's tick subdivision is the one the code defines now *)
Theorem C14_subdivision_is_code : SUBDIV = Tables.beat_subdivision.
Proof. exact subdiv_is_table. Qed.
Print Assumptions C14_subdivision_is_code.

(* a beat built from inexact input n/d is a tick multiple never more than 1/96 away:
   2 * |48 n/d - ticks| <= 1, stated without division *)
Theorem C14_round_nearest : forall n d, 0 < d ->
  2 * Z.abs (SUBDIV * n - round_tick n d * d) <= d.
Proof. intros n d H. exact (round_he_nearest (SUBDIV * n) d H). Qed.
Print Assumptions C14_round_nearest.

Theorem C14_round_is_a_nearest_tick : forall n d k, 0 < d ->
  Z.abs (SUBDIV * n - round_tick n d * d) <= Z.abs (SUBDIV * n - k * d).
Proof. intros n d k H. exact (round_he_optimal (SUBDIV * n) d k H). Qed.
Print Assumptions C14_round_is_a_nearest_tick.

Theorem C14_round_ties_to_even : forall n d, 0 < d ->
  2 * ((SUBDIV * n) mod d) = d -> Z.even (round_tick n d) = true.
Proof. intros n d H. exact (round_he_tie_even (SUBDIV * n) d H). Qed.
Print Assumptions C14_round_ties_to_even.

Theorem C14_tick_unchanged : forall t, round_tick t SUBDIV = t.
Proof. exact round_tick_of_tick. Qed.
Print Assumptions C14_tick_unchanged.

(* every tick, written with three decimals and rounded back, is the same tick *)
Theorem C14_str_roundtrip : forall t : Z, round_tick (thousandths t) 1000 = t.
Proof. exact thousandths_roundtrip. Qed.
Print Assumptions C14_str_roundtrip.

(* the same, at the level of characters: str(Beat) (sign, integer part, '.', three digits) read
   by Beat.from_str (strip, sign, split on '.', digits, rounding) is the tick it was written from *)
Theorem C14_text_roundtrip : forall t : Z, beat_from_str (show3 t) = Got t.
Proof. exact show3_reads_back. Qed.
Print Assumptions C14_text_roundtrip.

(* a timing value (an exact decimal, any number of places) written in plain notation reads back as itself ... *)
Theorem C14_decimal_roundtrip : forall d, parse_dec (show_dec d) = Got d.
Proof. exact parse_dec_show. Qed.
Print Assumptions C14_decimal_roundtrip.

(* ... and a list of beat=value timing events (tick-aligned beats, exact decimal values, any length, any order)
   written out by BeatValues.__str__ and parsed back by BeatValues.from_str is unchanged *)
Theorem C14_events_roundtrip : forall es : list (Z * dec), parse_events (Some (show_events es)) = Got es.
Proof. exact parse_events_show. Qed.
Print Assumptions C14_events_roundtrip.

Theorem C14_margin : forall t : Z,
  let r := (1000 * t) mod 48 in
  (r = 24 /\ t mod 6 = 3) \/ r = 0 \/ 16 <= Z.abs (2 * r - 48).
Proof. exact thousandths_margin. Qed.
Print Assumptions C14_margin.

(* non-vacuity: a tie and an off-grid value *)
Example C14_examples :
  round_tick 1 96 = 0 /\ round_tick 3 96 = 2 /\ round_tick 1 3 = 16 /\ thousandths 1 = 21 /\ thousandths (-47) = -979 /\ thousandths 3 = 62 /\ thousandths 9 = 188.
Proof. vm_compute. repeat split; reflexivity. Qed.
