(* C05 - mutate saves exactly the edited simfile, in the encoding it was read in.  Statements only.
   Every theorem holds for ANY codec (decodes/encode), loader, serialiser and with-block body:
   they are parameters.  Python's codecs, text-mode I/O and the OS are not modelled; the
   correspondence check ties this model to the real open()/mutate() on a temp directory and MemoryFS. *)
From Coq Require Import List ZArith NArith Bool.
From SV Require Import Sx Str Mutate Proofs.MutateFacts Generated.Tables.
Import ListNotations.

Section C05.
Variables (S text content enc : Type).
Variable decodes : enc -> content -> option text.
Variable load : str -> text -> option S.
Variable ser : S -> option text.
Variable encode : enc -> text -> option content.
Variable empty : content.

(* the reported encoding is the first of the tried list under which the whole file decodes *)
Theorem C05_first_decoding : forall encs p c s e,
  detect S text content enc decodes load encs p c = Done (s, e) ->
  exists pre post t, encs = pre ++ e :: post /\ (forall e', In e' pre -> decodes e' c = None) /\
                     decodes e c = Some t /\ load p t = Some s.
Proof. exact (detect_done S text content enc decodes load). Qed.

(* UnicodeDecodeError exactly when none decodes *)
Theorem C05_decode_error_iff : forall encs p c,
  detect S text content enc decodes load encs p c = Raised XDecode <-> forall e, In e encs -> decodes e c = None.
Proof. exact (detect_decode_error S text content enc decodes load). Qed.

Theorem C05_explicit_encoding : forall e p c,
  detect S text content enc decodes load [e] p c =
  match decodes e c with Some t => match load p t with Some s => Done (s, e) | None => Raised XLoad end | None => Raised XDecode end.
Proof. exact (explicit_encoding S text content enc decodes load). Qed.

(* normal exit: output = encoded serialisation of the simfile at exit, backup = that of the simfile at
   entry, every other path (the input too when an output name is given) unchanged, no other path created *)
Theorem C05_saves_exactly : forall (c : config enc) f body s en s' ot ob,
  backup_clash enc str_eqb c = false ->
  open_detect S text content enc str_eqb decodes load (c_encs enc c) f (c_input enc c) = Done (s, en) ->
  body s = BNormal s' -> ser s' = Some ot -> encode en ot = Some ob ->
  match c_backup enc c with
  | None =>
      exists f', mutate S text content enc str_eqb decodes load ser encode empty c f body (fun _ => false) = (f', None) /\
        fs_read content str_eqb f' (out_path enc c) = Some ob /\
        (forall q, q <> out_path enc c -> fs_read content str_eqb f' q = fs_read content str_eqb f q) /\
        (forall q, In q (map fst f') -> q = out_path enc c \/ In q (map fst f))
  | Some b =>
      forall bt bb, ser s = Some bt -> encode en bt = Some bb ->
      exists f', mutate S text content enc str_eqb decodes load ser encode empty c f body (fun _ => false) = (f', None) /\
        fs_read content str_eqb f' (out_path enc c) = Some ob /\
        (b <> out_path enc c -> fs_read content str_eqb f' b = Some bb) /\
        (forall q, q <> out_path enc c -> q <> b -> fs_read content str_eqb f' q = fs_read content str_eqb f q) /\
        (forall q, In q (map fst f') -> q = out_path enc c \/ q = b \/ In q (map fst f))
  end.
Proof. intros c f body. exact (mutate_saves S text content enc decodes load ser encode empty c f body). Qed.

(* what C05_saves_exactly puts in the output (and backup) file parses back: for a codec whose encoding decodes back (the
   harness sweeps every byte sequence of the three legacy code pages) and a serialiser whose text loads back (C01 / C02 /
   C04 for SM and SSC), the bytes [ob] it writes, decoded with the detected encoding, load to exactly the simfile serialised *)
Theorem C05_written_bytes_parse_back : forall en (x : S) ot ob p,
  (forall t b, encode en t = Some b -> decodes en b = Some t) ->
  (forall q y t, ser y = Some t -> load q t = Some y) ->
  ser x = Some ot -> encode en ot = Some ob ->
  exists t, decodes en ob = Some t /\ load p t = Some x.
Proof. intros en x ot ob p Hcodec Hround Hs He. exists ot. split; [apply Hcodec; exact He|apply Hround; exact Hs]. Qed.

(* a backup name equal to the input or output name is refused before anything is written *)
Theorem C05_backup_clash : forall (c : config enc) f body fault,
  backup_clash enc str_eqb c = true ->
  mutate S text content enc str_eqb decodes load ser encode empty c f body fault = (f, Some XValue).
Proof. intros c f body fault. exact (mutate_clash S text content enc decodes load ser encode empty c f body fault). Qed.

Theorem C05_clash_is_name_equality : forall (c : config enc),
  backup_clash enc str_eqb c = true <->
  exists b, c_backup enc c = Some b /\ (b = c_input enc c \/ c_output enc c = Some b).
Proof. exact (backup_clash_iff enc). Qed.
End C05.

Print Assumptions C05_first_decoding.
Print Assumptions C05_decode_error_iff.
Print Assumptions C05_saves_exactly.
Print Assumptions C05_written_bytes_parse_back.
Print Assumptions C05_backup_clash.
Print Assumptions C05_clash_is_name_equality.

Theorem C05_default_encodings : Tables.encodings = [[117;116;102;45;56]; [99;112;49;50;53;50]; [99;112;57;51;50]; [99;112;57;52;57]]%N.
Proof. vm_compute. reflexivity. Qed.
