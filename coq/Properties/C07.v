(* C07 - Note data text decodes to exactly one correctly placed note per non-zero cell.
   Statements only (proofs: Proofs/C07.v).  The decoder of the model is
   [decode = notes_of_grid o parse_grid]; these theorems are about every grid, i.e. every
   number of players, measures, rows per measure and columns. *)
From Coq Require Import List ZArith NArith Bool Sorting.Sorted.
From SV Require Import Sx Str Notes Proofs.C07 Proofs.NotesText Proofs.NotesTextGen Proofs.NotesColumns.
Import ListNotations.
Open Scope Z_scope.

(* a note comes out for a cell, and only for a cell: player q, measure k, row j of [length meas]
   rows, column i -> beat (4 k rows + 4 j) / rows, i.e. 4 k + 4 j / rows; type and keysound the cell's *)
Theorem C07_one_note_per_nonzero_cell : forall g n,
  In n (notes_of_grid g) <->
  exists q pl k meas j row i t ks,
    nth_error g q = Some pl /\ nth_error pl k = Some meas /\ nth_error meas j = Some row /\
    nth_error row i = Some (Some (t, ks)) /\
    n = {| nb_n := Z.of_nat k * 4 * Z.of_nat (length meas) + Z.of_nat j * 4; nb_d := Z.of_nat (length meas);
           ncol := Z.of_nat i; ntype := t; nplayer := Z.of_nat q; nks := ks |}.
Proof. intros g n. unfold notes_of_grid. rewrite players_notes_In. unfold mk. simpl. reflexivity. Qed.
Print Assumptions C07_one_note_per_nonzero_cell.

Theorem C07_nothing_else : forall g, length (notes_of_grid g) = nonzero_grid g.
Proof. intro g. apply players_notes_length. Qed.
Print Assumptions C07_nothing_else.

(* notes come out in strictly increasing (player, beat, column) order *)
Theorem C07_sorted : forall g, StronglySorted (fun x y => pos_cmp x y = Lt) (notes_of_grid g).
Proof. intro g. apply players_sorted. Qed.
Print Assumptions C07_sorted.

(* every comparison operator agrees with the position order *)
Theorem C07_order_ops : forall x y,
  note_gt x y = note_lt y x /\ note_le x y = negb (note_lt y x) /\ note_ge x y = negb (note_lt x y) /\
  note_le x y = (note_lt x y || match pos_cmp x y with Eq => true | _ => false end).
Proof. exact ops_agree. Qed.
Print Assumptions C07_order_ops.

Theorem C07_order_is_position_order : forall x y, 0 < nb_d x -> 0 < nb_d y ->
  (note_lt x y = true <->
   nplayer x < nplayer y \/
   (nplayer x = nplayer y /\
    (nb_n x * nb_d y < nb_n y * nb_d x \/ (nb_n x * nb_d y = nb_n y * nb_d x /\ ncol x < ncol y)))).
Proof.
  intros x y Hx Hy. rewrite <- (pos_cmp_lt x y Hx Hy). unfold note_lt.
  destruct (pos_cmp x y); split; intro H; try reflexivity; discriminate.
Qed.
Print Assumptions C07_order_is_position_order.

Theorem C07_order_strict : forall x y z, 0 < nb_d x -> 0 < nb_d y -> 0 < nb_d z ->
  note_lt x x = false /\ (note_lt x y = true -> note_lt y z = true -> note_lt x z = true).
Proof. intros x y z Hx Hy Hz. split; [apply note_lt_irrefl|apply note_lt_trans; assumption]. Qed.
Print Assumptions C07_order_strict.


(* the lexical layer, for canonical text: the text of any well-formed grid of cells (players joined by
   "&\n", measures by ",\n", one row per line; '0', a note character, or a note character followed by a
   bracketed keysound index per cell) parses back to exactly that grid, and the column count is the
   width of its first row.  Together with the theorems above this decides what iterating such a text yields. *)
Theorem C07_canonical_text_parses : forall g, grid_ok g -> parse_grid (grid_text g) = Some g.
Proof. exact parse_grid_text. Qed.
Print Assumptions C07_canonical_text_parses.

Theorem C07_canonical_text_decodes : forall g, grid_ok g ->
  exists r0 m0 p0 g', g = ((r0 :: m0) :: p0) :: g' /\
    decode (grid_text g) = if grid_ks_ok (length r0) g then Some (length r0, notes_of_grid g) else None.
Proof. exact decode_grid_text. Qed.
Print Assumptions C07_canonical_text_decodes.

(* ... and for every well-formed text in the property's sense: each row may carry leading/trailing blanks, rows
   of a measure are separated by one line break (LF, CRLF or any other single break character - so no blank line
   inside a measure), measures by ',', players by '&', with arbitrary white space - blank lines included - around
   measures and separators.  [gg_text g] is that text, [map (map gm_rows) g] the grid of its rows. *)
Theorem C07_wellformed_text_parses : forall g, g <> [] -> Forall gp_ok g ->
  parse_grid (gg_text g) = Some (map (map gm_rows) g).
Proof. exact parse_grid_general. Qed.
Print Assumptions C07_wellformed_text_parses.

(* "the reported column count equals the row width", for every such text: NoteData._get_columns (text up to the first
   comma, stripped, first line, stripped, keysound brackets removed) reports the width of the first row whenever the first
   measure has at least two rows, or is followed by a comma, or is the whole text.  (The remaining shape - a routine
   chart whose first player consists of a single one-row measure - is outside what the code supports: it counts the
   '&' and the next player's row as columns.) *)
Theorem C07_wellformed_text_columns : forall m0 p0 g', Forall gp_ok ((m0 :: p0) :: g') ->
  (m_rest m0 <> [] \/ p0 <> [] \/ g' = []) ->
  columns (gg_text ((m0 :: p0) :: g')) = Some (length (l_r (m_l0 m0))).
Proof. exact columns_general. Qed.
Print Assumptions C07_wellformed_text_columns.

(* ... hence the whole decoder (column count, then one note per non-zero cell by the theorems above) *)
Theorem C07_wellformed_text_decodes : forall m0 p0 g', Forall gp_ok ((m0 :: p0) :: g') ->
  (m_rest m0 <> [] \/ p0 <> [] \/ g' = []) ->
  grid_ks_ok (length (l_r (m_l0 m0))) (map (map gm_rows) ((m0 :: p0) :: g')) = true ->
  decode (gg_text ((m0 :: p0) :: g')) =
  Some (length (l_r (m_l0 m0)), notes_of_grid (map (map gm_rows) ((m0 :: p0) :: g'))).
Proof. exact decode_general. Qed.
Print Assumptions C07_wellformed_text_decodes.

(* non-vacuity: a 2-player text with a 3-row measure, a keysound that shifts later columns, CRLF and blanks *)
Example C07_example :
  decode [32;48;49;75;91;49;50;93;13;10;48;48;48;10;9;77;48;48;32;10;44;10;50;48;48;10;38;10;48;48;51;10]%N
  = Some (3%nat,
     [ {| nb_n := 0; nb_d := 3; ncol := 1; ntype := 49%N; nplayer := 0; nks := None |};
       {| nb_n := 0; nb_d := 3; ncol := 2; ntype := 75%N; nplayer := 0; nks := Some 12 |};
       {| nb_n := 8; nb_d := 3; ncol := 0; ntype := 77%N; nplayer := 0; nks := None |};
       {| nb_n := 4; nb_d := 1; ncol := 0; ntype := 50%N; nplayer := 0; nks := None |};
       {| nb_n := 0; nb_d := 1; ncol := 2; ntype := 51%N; nplayer := 1; nks := None |} ]).
Proof. vm_compute. reflexivity. Qed.
