From SV Require Import Dir.
Theorem C19_placeholder : True. Proof. exact I. Qed.
