(* C19 - Directory and pack discovery finds exactly the right simfiles.  Statements only.
   Listings are inputs of the model (names in listdir order); os.listdir, PyFilesystem and path
   algebra are not modelled - the correspondence check exercises them on real directories. *)
From Coq Require Import List ZArith NArith Bool.
From SV Require Import Sx Str Simfile Dir Generated.Tables Proofs.DirFacts.
Import ListNotations.
Open Scope N_scope.

(* a name is an .ssc / .sm file exactly by its ending, in any letter case *)
Theorem C19_kind_by_lowercase_ending : forall item,
  match_ext item Tables.ext_simfile = if is_ssc item then Some eSSC else if is_sm item then Some eSM else None.
Proof. exact match_ext_cases. Qed.
Print Assumptions C19_kind_by_lowercase_ending.

(* sm / ssc path = first listed entry of that kind; DuplicateSimfileError iff two of one kind and not ignoring *)
Theorem C19_dir_paths : forall l ignore_dup,
  simfile_directory l ignore_dup =
  if ignore_dup || (Nat.leb (cnt is_sm l) 1 && Nat.leb (cnt is_ssc l) 1)
  then DOk (find is_sm l, find is_ssc l) else DDuplicate.
Proof. exact dir_paths. Qed.
Print Assumptions C19_dir_paths.

(* open() reads the SSC in preference to the SM, FileNotFoundError when there is neither *)
Theorem C19_prefers_ssc : forall l ignore_dup sm ssc,
  simfile_directory l ignore_dup = DOk (sm, ssc) ->
  dir_open_target l ignore_dup = match ssc, sm with Some x, _ => DOk x | None, Some x => DOk x | None, None => DNotFound end.
Proof. exact open_prefers_ssc. Qed.
Print Assumptions C19_prefers_ssc.

(* a pack lists exactly its immediate sub-directories that directly contain a simfile, in listing
   order, each once: never loose files (no listing), never directories without simfiles *)
Theorem C19_pack_exact : forall es, pack_dirs es = map fst (filter is_member es).
Proof. exact pack_exact. Qed.
Print Assumptions C19_pack_exact.

Theorem C19_member_iff : forall listing,
  has_simfile listing = true <-> exists item, In item listing /\ (is_ssc item = true \/ is_sm item = true).
Proof. exact has_simfile_iff. Qed.
Print Assumptions C19_member_iff.

Definition n (s : list N) : str := s.
Example C19_example :
  simfile_directory [n [97;46;83;77]; n [98;46;115;109;46;111;108;100]; n [99;46;83;115;67]; n [100;46;115;109]] true
    = DOk (Some (n [97;46;83;77]), Some (n [99;46;83;115;67])) /\
  simfile_directory [n [97;46;83;77]; n [100;46;115;109]] false = DDuplicate /\
  dir_open_target [n [115;109]; n [120;46;115;115;99;97]] false = DNotFound /\
  pack_dirs [(n [65], Some [n [97;46;115;109]]); (n [108;111;111;115;101;46;115;109], None); (n [66], Some [n [97;46;116;120;116]]); (n [67], Some [n [88;46;83;83;67]])]
    = [n [65]; n [67]].
Proof. vm_compute. repeat split; reflexivity. Qed.
