(* C06 - A failed or cancelled mutate never damages the input file.  Statements only.
   Quantified over every fault schedule (fault : step -> bool), codec, loader, serialiser, body. *)
From Coq Require Import List ZArith NArith Bool.
From SV Require Import Sx Str Mutate Proofs.MutateFacts.
Import ListNotations.

Section C06.
Variables (S text content enc : Type).
Variable decodes : enc -> content -> option text.
Variable load : str -> text -> option S.
Variable ser : S -> option text.
Variable encode : enc -> text -> option content.
Variable empty : content.
Notation mutate := (mutate S text content enc str_eqb decodes load ser encode empty).
Notation open_detect := (open_detect S text content enc str_eqb decodes load).
Notation fs_read := (fs_read content str_eqb).

(* the body raises: nothing on the file system changes and that exception class propagates; all classes alike *)
Theorem C06_body_raise : forall (c : config enc) f body fault s en cl,
  backup_clash enc str_eqb c = false -> open_detect (c_encs enc c) f (c_input enc c) = Done (s, en) ->
  (c_backup enc c <> None -> ser s <> None) -> body s = BRaise cl ->
  mutate c f body fault = (f, Some (XBody cl)).
Proof. intros c f body fault. exact (mutate_body_raises S text content enc decodes load ser encode empty c f body fault). Qed.

Theorem C06_cancel_swallowed : forall (c : config enc) f body fault s en,
  backup_clash enc str_eqb c = false -> open_detect (c_encs enc c) f (c_input enc c) = Done (s, en) ->
  (c_backup enc c <> None -> ser s <> None) -> body s = BCancel ->
  mutate c f body fault = (f, None).
Proof. intros c f body fault. exact (mutate_cancelled S text content enc decodes load ser encode empty c f body fault). Qed.

(* any failure other than a file-system fault (cannot be decoded / loaded / serialised / encoded, name clash,
   body exception) leaves the whole file system - hence the input file - exactly as it was *)
Theorem C06_failure_before_writing_changes_nothing : forall (c : config enc) f body fault f' e,
  mutate c f body fault = (f', Some e) -> e <> XFault -> f' = f.
Proof. intros c f body fault. exact (mutate_no_write_no_change S text content enc decodes load ser encode empty c f body fault). Qed.

(* for EVERY fault schedule: failing to open the backup changes nothing; once the backup has been written it
   is complete whatever fails afterwards; failing to open the output leaves every path but the backup
   - the input included - as it was *)
Theorem C06_fault_schedules : forall (c : config enc) f body fault s en s' ot ob b bt bb,
  backup_clash enc str_eqb c = false -> open_detect (c_encs enc c) f (c_input enc c) = Done (s, en) ->
  c_backup enc c = Some b -> ser s = Some bt -> body s = BNormal s' -> ser s' = Some ot ->
  encode en ot = Some ob -> encode en bt = Some bb ->
  let o := out_path enc c in
  let r := mutate c f body fault in
  (fault (OpenW b) = true -> r = (f, Some XFault)) /\
  (fault (OpenW b) = false -> fault (WriteS b) = false -> b <> o -> fs_read (fst r) b = Some bb) /\
  (fault (OpenW b) = false -> fault (WriteS b) = false -> fault (CloseS b) = false -> fault (OpenW o) = true ->
     snd r = Some XFault /\ forall q, q <> b -> fs_read (fst r) q = fs_read f q).
Proof. intros c f body fault. exact (mutate_fault_schedule S text content enc decodes load ser encode empty c f body fault). Qed.

Theorem C06_open_fault_without_backup : forall (c : config enc) f body fault s en s' ot ob,
  backup_clash enc str_eqb c = false -> open_detect (c_encs enc c) f (c_input enc c) = Done (s, en) ->
  c_backup enc c = None -> body s = BNormal s' -> ser s' = Some ot -> encode en ot = Some ob ->
  fault (OpenW (out_path enc c)) = true -> mutate c f body fault = (f, Some XFault).
Proof. intros c f body fault. exact (mutate_open_fault_no_backup S text content enc decodes load ser encode empty c f body fault). Qed.

(* histories: however many attempts end without saving (an exception that is not a file-system fault, or a cancelled body),
   in whatever configurations, the file system is exactly what it was, and the next mutate - the retry - does exactly what
   it would have done as the first call *)
Notation attempt := (attempt S enc).
Notation attempt_result := (attempt_result S text content enc decodes load ser encode empty).
Notation run_attempts := (run_attempts S text content enc decodes load ser encode empty).
Notation not_saving := (not_saving S text content enc decodes load ser).
Theorem C06_failed_attempts_leave_no_trace : forall f (l : list attempt),
  Forall (not_saving encode empty f) l -> run_attempts f l = f.
Proof. exact (failed_attempts_leave_no_trace S text content enc decodes load ser encode empty). Qed.

Theorem C06_retry_as_first_try : forall f (l : list attempt) a,
  Forall (not_saving encode empty f) l -> attempt_result (run_attempts f l) a = attempt_result f a.
Proof. exact (retry_as_first_try S text content enc decodes load ser encode empty). Qed.
End C06.

Print Assumptions C06_body_raise.
Print Assumptions C06_cancel_swallowed.
Print Assumptions C06_failure_before_writing_changes_nothing.
Print Assumptions C06_fault_schedules.
Print Assumptions C06_open_fault_without_backup.
Print Assumptions C06_failed_attempts_leave_no_trace.
Print Assumptions C06_retry_as_first_try.

(* non-vacuity: a concrete schedule failing the opening of the output with a backup requested *)
From SV Require Import MutateRun Msd Simfile.
Example C06_example :
  let text := [35;84;73;84;76;69;58;97;59;10]%N in
  let cfg := {| c_input := [105;46;115;109]%N; c_output := None; c_backup := Some [98]%N; c_encs := [0%nat] |} in
  let r := MutateRun.run true [(0%Z, [Some text])] [] cfg [([105;46;115;109]%N, Raw 0)]
             (BNormal (SM {| sm_props := [([84;73;84;76;69]%N, Some [98]%N)]; sm_charts := [] |})) (Some (0%Z, [105;46;115;109]%N)) in
  snd r = Some XFault /\ fs_read content str_eqb (fst r) [105;46;115;109]%N = Some (Raw 0) /\
  fs_read content str_eqb (fst r) [98]%N = Some (Enc 0 (ser_sm {| sm_props := [([84;73;84;76;69]%N, Some [97]%N)]; sm_charts := [] |})).
Proof. vm_compute. repeat split; reflexivity. Qed.

(* non-vacuity of the history theorems: an unserialisable edit, a raising body and a cancelled body in a row, then a retry
   that saves (contents are numbers here; 0 cannot be serialised) *)
Example C06_history_example :
  let dec := fun (_ : nat) (c : nat) => Some c in
  let ld := fun (_ : str) (t : nat) => Some t in
  let sr := fun s : nat => match s with O => None | _ => Some s end in
  let en := fun (_ : nat) (t : nat) => Some t in
  let cfg := {| c_input := [105]%N; c_output := None; c_backup := Some [98]%N; c_encs := [0%nat] |} in
  let f := [([105]%N, 5%nat)] in
  let l := [ {| a_cfg := cfg; a_body := fun _ => BNormal 0%nat; a_fault := fun _ => false |};
             {| a_cfg := cfg; a_body := fun _ => BRaise 1%Z; a_fault := fun _ => false |};
             {| a_cfg := cfg; a_body := fun _ => BCancel; a_fault := fun _ => false |} ] in
  Forall (not_saving nat nat nat nat dec ld sr en 0%nat f) l /\
  attempt_result nat nat nat nat dec ld sr en 0%nat (run_attempts nat nat nat nat dec ld sr en 0%nat f l)
     {| a_cfg := cfg; a_body := fun _ => BNormal 7%nat; a_fault := fun _ => false |} = ([([105]%N, 7%nat); ([98]%N, 5%nat)], None).
Proof.
  cbv zeta. split; [|vm_compute; reflexivity].
  apply Forall_cons; [|apply Forall_cons; [|apply Forall_cons; [|apply Forall_nil]]].
  - left. exists XSerialize. split; [vm_compute; reflexivity|discriminate].
  - left. exists (XBody 1%Z). split; [vm_compute; reflexivity|discriminate].
  - right. exists 5%nat, 0%nat. repeat split; try (vm_compute; reflexivity). intros _. discriminate.
Qed.
