From SV Require Import Engine.
Theorem C12_placeholder : True. Proof. exact I. Qed.
