(* C12 - Time to beat conversion inverts beat to time on the tick grid.  Statements only.
   Local laws valid for ANY state list sorted by time (which every timing data of the domain produces,
   C11_monotone_states): strictly between state times (in a pause, between events, the inverse on the tick
   grid, tick alignment, prefix independence) and, for times that coincide with state times, the tag rule
   (C12_on_state_time: the last state at that time whose tag does not exceed the asked tag answers;
   C12_on_state_time_none).  On real timing data: C12_roundtrip_interior, beat -> time -> beat is the identity
   for every tick-aligned beat strictly between event beats and outside the union of the warps.
   C12_monotone: on timing data of the domain whose event beats lie on the tick grid the answer never decreases as time
   increases, for every tag and all pairs of times (across states, pauses and warps).
   C12_warp_tag_start / C12_warp_default_furthest: both halves of the warp clause for every coalesced segment.
   C12_own_time_any: the own-time bound also when the answer lands on an event beat (widened by the pauses on that beat).
   Left to the correspondence on the dyadic family (exact floats): the binary64 arithmetic of the engine
   (C12_warp_elapse is the warp clause for the other segments, those starting on beat 0 included; C12_half_tick the
   bound in beats). *)
From Coq Require Import List ZArith QArith Qabs Bool Sorting.Sorted.
From SV Require Import Sx Beat Engine Proofs.EngineFacts Proofs.Hittable Proofs.TimeLaw Proofs.BeatAt Proofs.WarpElapse Proofs.RoundTripEvent Proofs.BeatMono Proofs.OwnTime Proofs.OwnTimeAll Proofs.InPause Proofs.WarpStart.
Import ListNotations.
Open Scope Q_scope.

(* strictly inside a stop or delay the answer is the paused beat, for every tag *)
Theorem C12_in_pause : forall pre s post d t q,
  times_sorted (pre ++ s :: post) -> is_pause_tag (s_tag s) = true ->
  s_time s < t -> (forall x, In x post -> t < s_time x) ->
  fst (beat_at_raw (pre ++ s :: post) d t q) = s_beat s.
Proof. exact beat_at_in_pause. Qed.
Print Assumptions C12_in_pause.

(* the inverse on the tick grid: the time the engine assigns to "k ticks past state s" maps back to exactly that beat *)
Theorem C12_inverse : forall pre s post d q (k : Z),
  times_sorted (pre ++ s :: post) -> is_pause_tag (s_tag s) = false -> 0 < s_bpm s -> (0 < k)%Z ->
  let t := s_time s + (inject_Z k / 48) * 60 / s_bpm s in
  (forall x, In x post -> t < s_time x) ->
  fst (beat_at_raw (pre ++ s :: post) d t q) == s_beat s + inject_Z k / 48.
Proof. exact beat_at_inverse. Qed.
Print Assumptions C12_inverse.

(* every other time: the state's beat plus the elapsed beats rounded to the nearest tick ... *)
Theorem C12_between : forall pre s post d t q,
  times_sorted (pre ++ s :: post) -> is_pause_tag (s_tag s) = false ->
  s_time s < t -> (forall x, In x post -> t < s_time x) ->
  fst (beat_at_raw (pre ++ s :: post) d t q) == s_beat s + tick_round ((t - s_time s) / 60 * s_bpm s).
Proof. exact beat_at_between. Qed.
Print Assumptions C12_between.

(* ... hence tick-aligned whenever the events are *)
Theorem C12_tick_aligned : forall pre s post d t q (kb : Z),
  times_sorted (pre ++ s :: post) -> s_time s < t -> (forall x, In x post -> t < s_time x) ->
  s_beat s == inject_Z kb / 48 ->
  exists k : Z, fst (beat_at_raw (pre ++ s :: post) d t q) == inject_Z k / 48.
Proof. exact beat_at_tick_aligned. Qed.
Print Assumptions C12_tick_aligned.

(* ... and on real timing data: every stop and delay (its END event e, tag STOP_END or DELAY_END, on beat b) spans the
   times time_at assigns to b under the pause's own tag (e_tag e - 1) and under its END tag - they differ by exactly the
   pause's length - and strictly between them beat_at answers b, whatever the tag, the warps and the other events *)
Theorem C12_pause_span : forall td b0 v0 rest, dom td -> td_bpms td = (b0, v0) :: rest ->
  forall P e R, events td = P ++ e :: R -> is_end_tag (e_tag e) = true ->
  time_at (sts td v0) (init_state td v0) (e_beat e) (e_tag e) ==
  time_at (sts td v0) (init_state td v0) (e_beat e) (e_tag e - 1) + e_val e.
Proof. exact pause_span. Qed.
Print Assumptions C12_pause_span.

Theorem C12_in_pause_td : forall td b0 v0 rest, dom td -> td_bpms td = (b0, v0) :: rest -> b0 == 0 ->
  forall P R e, events td = P ++ e :: R -> is_end_tag (e_tag e) = true ->
  forall t q,
  time_at (sts td v0) (init_state td v0) (e_beat e) (e_tag e - 1) < t ->
  t < time_at (sts td v0) (init_state td v0) (e_beat e) (e_tag e) ->
  fst (beat_at_raw (sts td v0) (init_state td v0) t q) = e_beat e.
Proof. exact in_pause_td. Qed.
Print Assumptions C12_in_pause_td.

(* a time that coincides with state times: the answer is the beat of the last state at that time whose tag
   does not exceed the asked tag (so the WARP tag stops at the warp start and the default goes on to the furthest
   beat reached at that time) *)
Theorem C12_on_state_time : forall pre run1 x run2 post d t q,
  (forall y, In y pre -> s_time y < t) -> (forall y, In y (run1 ++ x :: run2) -> s_time y == t) ->
  (forall y, In y post -> t < s_time y) ->
  (s_tag x <= q)%Z -> (forall y, In y run2 -> (q < s_tag y)%Z) ->
  fst (beat_at_raw (pre ++ (run1 ++ x :: run2) ++ post) d t q) == s_beat x.
Proof. exact beat_at_on_state_time. Qed.
Print Assumptions C12_on_state_time.

Theorem C12_on_state_time_none : forall pre p run post d t q,
  (forall y, In y (pre ++ [p]) -> s_time y < t) -> (forall y, In y run -> s_time y == t) ->
  (forall y, In y post -> t < s_time y) -> (forall y, In y run -> (q < s_tag y)%Z) ->
  fst (beat_at_raw ((pre ++ [p]) ++ run ++ post) d t q) ==
  if is_pause_tag (s_tag p) then s_beat p else s_beat p + tick_round ((t - s_time p) / 60 * s_bpm p).
Proof. exact beat_at_on_state_time_none. Qed.
Print Assumptions C12_on_state_time_none.

(* on timing data of the domain with tick-aligned events: a tick-aligned beat strictly between event beats
   and outside the union of the warps comes back from its own time, under every tag *)
Theorem C12_roundtrip_interior : forall td b0 v0 rest, dom td -> td_bpms td = (b0, v0) :: rest -> b0 == 0 ->
  (forall e, In e (events td) -> exists k : Z, e_beat e == inject_Z k / 48) ->
  forall (b : Q) (kb q : Z),
  0 < b -> b == inject_Z kb / 48 -> ~ in_raw (td_warps td) b -> (forall e, In e (events td) -> ~ e_beat e == b) ->
  fst (beat_at_raw (sts td v0) (init_state td v0) (time_at (sts td v0) (init_state td v0) b tSTOP) q) == b.
Proof. exact roundtrip_interior. Qed.
Print Assumptions C12_roundtrip_interior.

(* the half-tick bound: the answer lies within 1/96 beat of the exact beat position of the asked time *)
Theorem C12_half_tick : forall pre s post d t q,
  times_sorted (pre ++ s :: post) -> is_pause_tag (s_tag s) = false ->
  s_time s < t -> (forall x, In x post -> t < s_time x) ->
  Qabs (fst (beat_at_raw (pre ++ s :: post) d t q) - (s_beat s + (t - s_time s) / 60 * s_bpm s)) <= 1 # 96.
Proof. exact beat_at_half_tick. Qed.
Print Assumptions C12_half_tick.

(* between the same two states the answer never decreases as time increases (the rounding is monotone) *)
Theorem C12_monotone_local : forall pre s post d t1 t2 q,
  times_sorted (pre ++ s :: post) -> 0 < s_bpm s ->
  s_time s < t1 -> t1 <= t2 -> (forall x, In x post -> t2 < s_time x) ->
  fst (beat_at_raw (pre ++ s :: post) d t1 q) <= fst (beat_at_raw (pre ++ s :: post) d t2 q).
Proof. exact beat_at_monotone_local. Qed.
Print Assumptions C12_monotone_local.

(* the answer never decreases as time increases: all pairs of times, every tag, across states, pauses and warps, on
   timing data of the domain whose event beats lie on the tick grid (what parsing a simfile always produces).  The
   hypothesis is needed: an event 0.011 beats after another lets the rounding of the earlier state's answer (to 1/48)
   pass the later event's beat. *)
Theorem C12_monotone : forall td b0 v0 rest, dom td -> td_bpms td = (b0, v0) :: rest ->
  (forall e, In e (events td) -> exists k : Z, e_beat e == inject_Z k / 48) ->
  forall d t1 t2 q, t1 <= t2 ->
  fst (beat_at_raw (sts td v0) d t1 q) <= fst (beat_at_raw (sts td v0) d t2 q).
Proof. exact beat_at_monotone. Qed.
Print Assumptions C12_monotone.

(* "its own time lies within half a tick's duration of the asked time": the answer converted back with time_at (under any
   tag) is within (1/96 beat) x (seconds per beat in force) of the asked time, whenever the selected state is neither a
   pause nor inside a warp and the answer falls strictly between the events before and after it (on an event beat the
   difference is widened by the pauses on that beat: C12_own_time_any below) *)
Theorem C12_own_time_interior : forall td b0 v0 rest, dom td -> td_bpms td = (b0, v0) :: rest -> b0 == 0 ->
  forall P R t q tag, events td = P ++ R ->
  s_warp (St td v0 P) = false -> is_pause_tag (s_tag (St td v0 P)) = false ->
  s_time (St td v0 P) < t -> (forall x, In x (tl (run_states (St td v0 P) R)) -> t < s_time x) ->
  (forall p, In p P -> e_beat p < fst (beat_at_raw (sts td v0) (init_state td v0) t q)) ->
  (forall r, In r R -> fst (beat_at_raw (sts td v0) (init_state td v0) t q) < e_beat r) ->
  (0 < fst (beat_at_raw (sts td v0) (init_state td v0) t q) \/ (2 <= tag)%Z) ->
  Qabs (time_at (sts td v0) (init_state td v0) (fst (beat_at_raw (sts td v0) (init_state td v0) t q)) tag - t)
    <= (1 # 96) * (60 / s_bpm (St td v0 P)).
Proof. exact own_time_interior. Qed.
Print Assumptions C12_own_time_interior.

(* ... and wherever the answer falls - also ON an event beat, the selected state's own (rounded down) or the next events'
   (rounded up) - when event beats lie on the tick grid: the difference is at most that half tick in seconds plus the lengths
   of stops / delays among a block M of events that all sit on the answer's beat ("widened by any pause on that beat") *)
Theorem C12_own_time_any : forall td b0 v0 rest, dom td -> td_bpms td = (b0, v0) :: rest -> b0 == 0 ->
  forall P R t q tag, events td = P ++ R -> (forall e, In e (events td) -> exists k : Z, e_beat e == inject_Z k / 48) ->
  s_warp (St td v0 P) = false -> is_pause_tag (s_tag (St td v0 P)) = false ->
  s_time (St td v0 P) < t -> (forall x, In x (tl (run_states (St td v0 P) R)) -> t < s_time x) ->
  (0 < fst (beat_at_raw (sts td v0) (init_state td v0) t q) \/ (2 <= tag)%Z) ->
  exists M, (forall e, In e M -> In e (events td) /\ e_beat e == fst (beat_at_raw (sts td v0) (init_state td v0) t q)) /\
    Qabs (time_at (sts td v0) (init_state td v0) (fst (beat_at_raw (sts td v0) (init_state td v0) t q)) tag - t)
      <= (1 # 96) * (60 / s_bpm (St td v0 P)) + end_sum M.
Proof. exact own_time_any_aligned. Qed.
Print Assumptions C12_own_time_any.

(* every answer is tick-aligned: any time, any tag, on timing data whose event beats lie on the tick grid *)
Theorem C12_tick_aligned_td : forall td v0, (forall e, In e (events td) -> exists k : Z, e_beat e == inject_Z k / 48) ->
  forall t q, exists k : Z, fst (beat_at_raw (sts td v0) (init_state td v0) t q) == inject_Z k / 48.
Proof. exact beat_at_aligned_td. Qed.
Print Assumptions C12_tick_aligned_td.

(* the same on any list of states whose times never decrease and whose consecutive states are one step apart *)
Theorem C12_monotone_chain : forall sts d t1 t2 q, sts <> [] -> times_sorted sts -> chain sts -> t1 <= t2 ->
  fst (beat_at_raw sts d t1 q) <= fst (beat_at_raw sts d t2 q).
Proof. exact beat_at_monotone_chain. Qed.
Print Assumptions C12_monotone_chain.

(* ... and a beat on which events sit (or beat 0) comes back too, under the default tag, when it is outside the union
   of the warps and the stops have positive length: together with C12_roundtrip_interior, every tick-aligned beat that
   no warp skips over *)
Theorem C12_roundtrip_on_event_beat : forall td b0 v0 rest, dom td -> td_bpms td = (b0, v0) :: rest -> b0 == 0 ->
  (forall r, In r (td_stops td) -> 0 < snd r) ->
  forall b, 0 <= b -> ~ in_raw (td_warps td) b ->
  ((exists e, In e (events td) /\ e_beat e == b /\ (e_tag e <= 5)%Z) \/ b == 0) ->
  fst (beat_at_raw (sts td v0) (init_state td v0) (time_at (sts td v0) (init_state td v0) b tSTOP) tSTOP) == b.
Proof. exact roundtrip_on_event_beat. Qed.
Print Assumptions C12_roundtrip_on_event_beat.

(* at the time at which a whole warp segment elapses - [segs] are the coalesced segments, whose union is the union of
   the raw warps - the WARP tag gives the beat where that stretch starts and the default gives the beat where it
   ends, for every segment that starts after beat 0 and has no stop or delay on its beats *)
Theorem C12_warp_elapse : forall td b0 v0 rest, dom td -> td_bpms td = (b0, v0) :: rest -> b0 == 0 ->
  exists segs : list (Q * Q),
    (forall x, in_raw (td_warps td) x <-> exists s e, In (s, e) segs /\ s <= x /\ x < e) /\
    forall s e d, In (s, e) segs ->
      (forall r, In r (td_stops td) \/ In r (td_delays td) -> ~ (s <= fst r /\ fst r <= e)) ->
      let T := time_at (sts td v0) (init_state td v0) e tBPM in
      fst (beat_at_raw (sts td v0) d T tWARP) == s /\ fst (beat_at_raw (sts td v0) d T tSTOP) == e.
Proof. exact warp_elapse_td. Qed.
Print Assumptions C12_warp_elapse.

(* the WARP-tag half of that clause for EVERY coalesced segment - stops, delays and BPM changes on or inside it allowed,
   start on beat 0 included: at the time its start is reached (time_at(s, WARP)) the WARP tag answers the start s.  (Every
   earlier state is strictly earlier in time, and every later state at that same time carries a tag above WARP: a later
   WARP event belongs to a later segment, which is reached strictly later.) *)
Theorem C12_warp_tag_start : forall td b0 v0 rest, dom td -> td_bpms td = (b0, v0) :: rest -> b0 == 0 ->
  exists segs : list (Q * Q),
    (forall x, in_raw (td_warps td) x <-> exists s e, In (s, e) segs /\ s <= x /\ x < e) /\
    forall s e d, In (s, e) segs ->
      fst (beat_at_raw (sts td v0) d (time_at (sts td v0) (init_state td v0) s tWARP) tWARP) == s.
Proof. exact warp_tag_start_td. Qed.
Print Assumptions C12_warp_tag_start.

(* ... and the default-tag half, again for every coalesced segment whatever sits on or inside it, stops and delays of
   length zero included: at that same time the default tag answers the beat of a state reached at that time, and no state
   reached at that time lies on a later beat - "the furthest beat reached at that time" (the segment's end when nothing
   pauses inside it, else the beat of the first pause). *)
Theorem C12_warp_default_furthest : forall td b0 v0 rest, dom td -> td_bpms td = (b0, v0) :: rest -> b0 == 0 ->
  exists segs : list (Q * Q),
    (forall x, in_raw (td_warps td) x <-> exists s e, In (s, e) segs /\ s <= x /\ x < e) /\
    forall s e d, In (s, e) segs ->
      let T := time_at (sts td v0) (init_state td v0) s tWARP in
      exists x, In x (sts td v0) /\ s_time x == T /\ fst (beat_at_raw (sts td v0) d T tSTOP) == s_beat x /\
                (forall y, In y (sts td v0) -> s_time y == T -> s_beat y <= s_beat x).
Proof. exact warp_default_furthest_td. Qed.
Print Assumptions C12_warp_default_furthest.

(* rounding to the tick does not depend on how the rational is written, and fixes every tick *)
Theorem C12_round_well_defined : forall a b, a == b -> tick_round a == tick_round b.
Proof. exact tick_round_compat. Qed.
Print Assumptions C12_round_well_defined.

(* the search ignores how many states precede: the answer is determined by the selected state alone *)
Theorem C12_prefix_independent : forall pre pre' s post d t q,
  times_sorted (pre ++ s :: post) -> times_sorted (pre' ++ s :: post) ->
  s_time s < t -> (forall x, In x post -> t < s_time x) ->
  fst (beat_at_raw (pre ++ s :: post) d t q) == fst (beat_at_raw (pre' ++ s :: post) d t q).
Proof.
  intros pre pre' s post d t q H H' Ht Hp. destruct (is_pause_tag (s_tag s)) eqn:P.
  - rewrite (beat_at_in_pause pre s post d t q H P Ht Hp), (beat_at_in_pause pre' s post d t q H' P Ht Hp). reflexivity.
  - rewrite (beat_at_between pre s post d t q H P Ht Hp), (beat_at_between pre' s post d t q H' P Ht Hp). reflexivity.
Qed.
Print Assumptions C12_prefix_independent.

(* F8 regression inside Coq: BPMS 0=120 (+ redundant rows), STOPS 10=1, WARPS 8=4: beat_at(5.0) = 12 either way *)
Definition td0 (extra : list (Q * Q)) : tdata :=
  {| td_bpms := (0, 120) :: extra; td_stops := [(10, 1)]; td_delays := []; td_warps := [(8, 4)]; td_offset := 0 |}.
Definition beat_at_of (td : tdata) (t : Q) (tag : Z) : Q :=
  match states td with
  | EOk sts => fst (beat_at_raw sts (hd {| s_beat := 0; s_val := 0; s_tag := 0; s_time := 0; s_bpm := 1; s_warp := false |} sts) t tag)
  | _ => -1 end.
Example C12_example :
  Qeq_bool (beat_at_of (td0 []) 5 tSTOP) 12 && Qeq_bool (beat_at_of (td0 [(1, 120); (2, 120)]) 5 tSTOP) 12 &&
  Qeq_bool (beat_at_of (td0 [(1, 120); (2, 120); (3, 120)]) 5 tSTOP) 12 &&
  Qeq_bool (beat_at_of (td0 []) 4 tWARP) 8 && Qeq_bool (beat_at_of (td0 []) 4 tSTOP) 10 &&
  Qeq_bool (beat_at_of (td0 []) (9 # 2) tSTOP) 10 = true.
Proof. vm_compute. reflexivity. Qed.

(* non-vacuity of the warp clause: two overlapping warps 8=3, 10=2 coalesce into [8, 12); at the time beat 12 is reached
   the WARP tag answers 8 and the default 12 *)
Definition td_w : tdata := {| td_bpms := [(0, 120)]; td_stops := []; td_delays := []; td_warps := [(8, 3); (10, 2)]; td_offset := 0 |}.
Example C12_warp_example :
  Qeq_bool (beat_at_of td_w 4 tWARP) 8 && Qeq_bool (beat_at_of td_w 4 tSTOP) 12 = true.
Proof. vm_compute. reflexivity. Qed.

(* ... and a warp that starts on beat 0 (offset -1: beat 0 is at time 1): the WARP tag answers 0, the default 4 *)
Definition td_w0 : tdata := {| td_bpms := [(0, 120)]; td_stops := []; td_delays := []; td_warps := [(0, 4)]; td_offset := -1 |}.
Example C12_warp_at_zero_example :
  Qeq_bool (beat_at_of td_w0 1 tWARP) 0 && Qeq_bool (beat_at_of td_w0 1 tSTOP) 4 && Qeq_bool (beat_at_of td_w0 (3 # 2) tSTOP) 5 = true.
Proof. vm_compute. reflexivity. Qed.

(* a concrete instance of the half-tick clause: BPM 120, asked time 1.003 s (beat 2.006): the answer is beat 2, whose own
   time 1.0 s is within (1/96) x 0.5 s of the asked time *)
Example C12_own_time_example :
  match states (td0 []) with
  | EOk l => let d := hd {| s_beat := 0; s_val := 0; s_tag := 0; s_time := 0; s_bpm := 1; s_warp := false |} l in
             let a := fst (beat_at_raw l d (1003 # 1000) tSTOP) in
             Qeq_bool a 2 && Qle_bool (Qabs (time_at l d a tSTOP - (1003 # 1000))) ((1 # 96) * (60 / 120))
  | _ => false end = true.
Proof. vm_compute. reflexivity. Qed.

(* ... and a warp 8=4 with a stop of length zero on beat 10 and another on its end beat 12: at the time the warp elapses
   (4 s) the WARP tag answers 8 and the default the furthest beat reached, 12 - the zero-length pauses change nothing *)
Definition td_wz : tdata := {| td_bpms := [(0, 120)]; td_stops := [(10, 0); (12, 0)]; td_delays := []; td_warps := [(8, 4)]; td_offset := 0 |}.
Example C12_warp_zero_pause_example :
  Qeq_bool (beat_at_of td_wz 4 tWARP) 8 && Qeq_bool (beat_at_of td_wz 4 tSTOP) 12 && Qeq_bool (beat_at_of td_wz (9 # 2) tSTOP) 13 = true.
Proof. vm_compute. reflexivity. Qed.

(* a concrete instance of the widened bound: BPM 120 and a delay of 0.5 s on beat 2 (reached at 1.0 s); asked 0.997 s the answer
   rounds up to beat 2, whose own time under the default tag is 1.5 s (the delay has elapsed): 0.503 s away, within
   (1/96) x 0.5 s + 0.5 s and not within the half tick alone *)
Definition td_d : tdata := {| td_bpms := [(0, 120)]; td_stops := []; td_delays := [(2, 1 # 2)]; td_warps := []; td_offset := 0 |}.
Example C12_own_time_widened_example :
  match states td_d with
  | EOk l => let d := hd {| s_beat := 0; s_val := 0; s_tag := 0; s_time := 0; s_bpm := 1; s_warp := false |} l in
             let a := fst (beat_at_raw l d (997 # 1000) tSTOP) in
             let diff := Qabs (time_at l d a tSTOP - (997 # 1000)) in
             Qeq_bool a 2 && Qle_bool diff ((1 # 96) * (60 / 120) + (1 # 2)) && negb (Qle_bool diff ((1 # 96) * (60 / 120)))
  | _ => false end = true.
Proof. vm_compute. reflexivity. Qed.
