From SV Require Import Dir.
Theorem C20_placeholder : True. Proof. exact I. Qed.
