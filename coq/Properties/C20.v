(* C20 - Asset lookup: the named file if it exists, else a pattern match, else None.  Statements only. *)
From Coq Require Import List ZArith NArith Bool.
From SV Require Import Sx Str Simfile Dir Generated.Tables Proofs.DirFacts.
Import ListNotations.
Open Scope N_scope.

(* the answer is the named file (found ignoring case in its containing directory), else an entry of the
   directory that matches the kind's definition, else nothing - and then no entry matches *)
Theorem C20_lookup : forall kind listing specified,
  match asset_lookup kind listing specified with
  | ASpecified item => exists filename cl, specified = Some (filename, Some cl) /\ In item cl /\ lower item = lower filename
  | APattern item => exists d, find_def kind Tables.asset_definitions = Some d /\ In item listing /\ def_matches d item = Some true
  | ANoAsset => exists d, find_def kind Tables.asset_definitions = Some d /\ forall x, In x listing -> def_matches d x = Some false
  | AUnm => True
  end.
Proof. exact asset_lookup_spec. Qed.
Print Assumptions C20_lookup.

Theorem C20_specified_wins : forall kind listing filename cl item, find_ci cl filename = Some item ->
  asset_lookup kind listing (Some (filename, Some cl)) = ASpecified item.
Proof. exact specified_wins. Qed.
Print Assumptions C20_specified_wins.

(* the pack banner: extension priority over the images in the pack, then the sibling with the pack's name, then none *)
Theorem C20_pack_banner : forall listing name siblings,
  match pack_banner listing name siblings with
  | BInside x => exists pre e post, Tables.ext_image = pre ++ e :: post /\ first_with_ext listing e = Some x /\
                                    (forall e', In e' pre -> first_with_ext listing e' = None)
  | BBeside y => first_by_priority listing Tables.ext_image = None /\ exists e, In e Tables.ext_image /\ y = name ++ e /\ mem_str y siblings = true
  | BNone => first_by_priority listing Tables.ext_image = None /\ forall e, In e Tables.ext_image -> mem_str (name ++ e) siblings = false
  end.
Proof. exact pack_banner_spec. Qed.
Print Assumptions C20_pack_banner.

Theorem C20_image_priority : Tables.ext_image = [[46;112;110;103]; [46;106;112;103]; [46;106;112;101;103]; [46;103;105;102]; [46;98;109;112]].
Proof. exact image_priority. Qed.

(* the documented patterns, read from the code's table and parsed by the model *)
Definition pats (kind : str) : list pat :=
  match find_def kind Tables.asset_definitions with Some (_, ps, _, _) => map parse_preset ps | None => [] end.
Definition w (s : list N) : str := s.
Theorem C20_documented_patterns :
  pats (w [66;65;78;78;69;82]) = [PContains (w [98;97;110;110;101;114]); PSuffix (w [98;110])] /\
  pats (w [66;65;67;75;71;82;79;85;78;68]) = [PContains (w [98;97;99;107;103;114;111;117;110;100]); PSuffix (w [98;103])] /\
  pats (w [67;68;84;73;84;76;69]) = [PContains (w [99;100;116;105;116;108;101])] /\
  pats (w [74;65;67;75;69;84]) = [PPrefix (w [106;107;95]); PContains (w [106;97;99;107;101;116]); PContains (w [97;108;98;117;109;97;114;116])] /\
  pats (w [67;68;73;77;65;71;69]) = [PSuffix (w [45;99;100])] /\
  pats (w [68;73;83;67]) = [PSuffix (w [32;100;105;115;99]); PSuffix (w [32;116;105;116;108;101])] /\
  match find_def (w [77;85;83;73;67]) Tables.asset_definitions with Some (_, [], exts, true) => exts = Tables.ext_audio | _ => False end.
Proof. vm_compute. repeat split; reflexivity. Qed.

Example C20_example :
  let listing := [w [115;111;110;103;46;115;109]; w [66;97;110;110;101;114;45;66;71;46;112;110;103]; w [120;46;79;71;71]] in
  asset_lookup (w [66;65;67;75;71;82;79;85;78;68]) listing None = APattern (w [66;97;110;110;101;114;45;66;71;46;112;110;103]) /\
  asset_lookup (w [77;85;83;73;67]) listing None = APattern (w [120;46;79;71;71]) /\
  asset_lookup (w [74;65;67;75;69;84]) listing None = ANoAsset /\
  asset_lookup (w [74;65;67;75;69;84]) listing (Some (w [88;46;111;103;103], Some listing)) = ASpecified (w [120;46;79;71;71]) /\
  pack_banner [w [98;46;106;112;103]; w [97;46;80;78;71]] (w [112]) [] = BInside (w [97;46;80;78;71]).
Proof. vm_compute. repeat split; reflexivity. Qed.
