(* C11 - Beat to time conversion matches the exact timeline for all event interleavings.
   Statements only.  PARTIAL: the theorems below carry the offset law, the ordering of events, the
   monotonicity of the state machine's times and the warp coalescing invariants, for every timing data
   in the property's domain [dom].  The closed form (sum over elapsed beats outside the warp union plus
   pauses passed) and the redundant-BPM law are established by the correspondence check against an
   independent exact-rational evaluation (DESIGN.md, C11), not by a theorem.  The binary64 gap is measured. *)
From Coq Require Import List ZArith QArith Bool Sorting.Sorted.
From SV Require Import Sx Beat Engine Generated.Tables Proofs.EngineFacts.
Import ListNotations.
Open Scope Q_scope.

(* changing the offset by d changes every state time and every time_at answer by -d, and nothing else *)
Theorem C11_offset_shift_states : forall td d sts, states td = EOk sts ->
  exists sts', states (with_offset td (td_offset td + d)) = EOk sts' /\ Forall2 (shifted d) sts sts'.
Proof. exact offset_shift. Qed.
Print Assumptions C11_offset_shift_states.

Theorem C11_offset_shift : forall dq beat tag l l' d d', Forall2 (shifted dq) l l' -> shifted dq d d' ->
  time_at l' d' beat tag == time_at l d beat tag - dq.
Proof. exact time_at_shifted. Qed.
Print Assumptions C11_offset_shift.

(* the merged event list is ordered by (beat, tag) for every timing data of the domain:
   whatever the coincidences of different kinds of event on one beat *)
Theorem C11_events_sorted : forall td, dom td -> StronglySorted ev_ge (events td).
Proof. exact events_sorted. Qed.
Print Assumptions C11_events_sorted.

(* time never decreases along the states *)
Theorem C11_monotone_states : forall td sts, dom td -> states td = EOk sts ->
  StronglySorted (fun a b => s_time a <= s_time b) sts.
Proof. exact states_monotone. Qed.
Print Assumptions C11_monotone_states.

(* overlapping or touching warps act as separated segments: starts and ends strictly increase,
   each start at most its end, consecutive segments separated *)
Theorem C11_warp_segments : forall ws, raw_ok ws ->
  exists ss es, coalesce ws [] [] = (rev ss, rev es) /\ segs_ok ss es.
Proof. intros ws H. apply coalesce_ok; [exact H|constructor|intros ? []]. Qed.
Print Assumptions C11_warp_segments.

(* one step of the timeline, as the documentation states it: sixty seconds over the BPM in force for
   every beat outside a warp, plus the pause when a stop/delay ends *)
Theorem C11_step_law : forall s e,
  s_time (advance s e) ==
  s_time s + (if s_warp s then 0 else (e_beat e - s_beat s) * 60 / s_bpm s)
           + (if is_pause_tag (s_tag s) && is_end_tag (e_tag e) then s_val s else 0).
Proof.
  intros s e. unfold advance, time_until. cbn [s_time]. rewrite !Qred_correct.
  destruct (is_pause_tag (s_tag s) && is_end_tag (e_tag e)); ring.
Qed.
Print Assumptions C11_step_law.

Theorem C11_event_tag_order :
  Tables.event_tags = [([87;65;82;80]%N, 0%Z); ([87;65;82;80;95;69;78;68]%N, 1%Z); ([66;80;77]%N, 2%Z); ([68;69;76;65;89]%N, 3%Z);
                       ([68;69;76;65;89;95;69;78;68]%N, 4%Z); ([83;84;79;80]%N, 5%Z); ([83;84;79;80;95;69;78;68]%N, 6%Z)].
Proof. reflexivity. Qed.

(* non-vacuity and a full evaluation: stop on a delay at a warp start with a BPM change inside the warp *)
Definition ex_td : tdata :=
  {| td_bpms := [(0, 120); (9 # 2, 240)]; td_stops := [(4, 1 # 2)]; td_delays := [(4, 1 # 4)]; td_warps := [(4, 2)]; td_offset := 0 |}.
Example C11_example :
  match states ex_td with
  | EOk sts =>
      let d := hd {| s_beat := 0; s_val := 0; s_tag := 0; s_time := 0; s_bpm := 1; s_warp := false |} sts in
      Qeq_bool (time_at sts d 4 tSTOP) (9 # 4) && Qeq_bool (time_at sts d 4 tSTOP_END) (11 # 4) &&
      Qeq_bool (time_at sts d 6 tSTOP) (11 # 4) && Qeq_bool (time_at sts d 7 tSTOP) 3 && Qeq_bool (bpm_at sts d 5) 240
  | _ => false end = true.
Proof. vm_compute. reflexivity. Qed.
