(* C11 - Beat to time conversion matches the exact timeline for all event interleavings.
   Statements only.  The closed form is carried by three theorems that together determine time_at on
   every timing data of the property's domain [dom]: the line before beat zero (C11_before_zero), the
   anchor at beat zero (C11_anchor_zero), and the interval law (C11_interval_law): across any stretch of
   beats on which the seconds-per-beat rate - zero inside the union of the raw warps, sixty over the BPM in
   force outside - is constant, time advances by rate x beats plus the full length of every stop whose
   STOP_END key and every delay whose DELAY_END key is passed.  Monotonicity in (beat, tag), the offset
   law, the BPM reported for a beat and the ordering / coalescing invariants are separate theorems.
   C11_redundant_bpm: inserting a BPM row that repeats the BPM in force changes no time_at answer.
   C11_zero_low_tags / C11_time_monotone_every_key: queries tagged WARP / WARP_END on beat 0 answer -offset, and time
   never decreases between ANY two keys (all beats, all tags).
   Left to the correspondence: the binary64 gap (measured, 1e-9 s). *)
From Coq Require Import List ZArith QArith Bool Sorting.Sorted Lia Lqa.
From SV Require Import Sx Beat Engine Generated.Tables Proofs.EngineFacts Proofs.Hittable Proofs.TimeLaw Proofs.RedundantBpm Proofs.ZeroTags.
Import ListNotations.
Open Scope Q_scope.

(* changing the offset by d changes every state time and every time_at answer by -d, and nothing else *)
Theorem C11_offset_shift_states : forall td d sts, states td = EOk sts ->
  exists sts', states (with_offset td (td_offset td + d)) = EOk sts' /\ Forall2 (shifted d) sts sts'.
Proof. exact offset_shift. Qed.
Print Assumptions C11_offset_shift_states.

Theorem C11_offset_shift : forall dq beat tag l l' d d', Forall2 (shifted dq) l l' -> shifted dq d d' ->
  time_at l' d' beat tag == time_at l d beat tag - dq.
Proof. exact time_at_shifted. Qed.
Print Assumptions C11_offset_shift.

(* the merged event list is ordered by (beat, tag) for every timing data of the domain:
   whatever the coincidences of different kinds of event on one beat *)
Theorem C11_events_sorted : forall td, dom td -> StronglySorted ev_ge (events td).
Proof. exact events_sorted. Qed.
Print Assumptions C11_events_sorted.

(* time never decreases along the states *)
Theorem C11_monotone_states : forall td sts, dom td -> states td = EOk sts ->
  StronglySorted (fun a b => s_time a <= s_time b) sts.
Proof. exact states_monotone. Qed.
Print Assumptions C11_monotone_states.

(* overlapping or touching warps act as separated segments: starts and ends strictly increase,
   each start at most its end, consecutive segments separated *)
Theorem C11_warp_segments : forall ws, raw_ok ws ->
  exists ss es, coalesce ws [] [] = (rev ss, rev es) /\ segs_ok ss es.
Proof. intros ws H. apply coalesce_ok; [exact H|constructor|intros ? []]. Qed.
Print Assumptions C11_warp_segments.

(* one step of the timeline, as the documentation states it: sixty seconds over the BPM in force for
   every beat outside a warp, plus the pause when a stop/delay ends *)
Theorem C11_step_law : forall s e,
  s_time (advance s e) ==
  s_time s + (if s_warp s then 0 else (e_beat e - s_beat s) * 60 / s_bpm s)
           + (if is_pause_tag (s_tag s) && is_end_tag (e_tag e) then s_val s else 0).
Proof.
  intros s e. unfold advance, time_until. cbn [s_time]. rewrite !Qred_correct.
  destruct (is_pause_tag (s_tag s) && is_end_tag (e_tag e)); ring.
Qed.
Print Assumptions C11_step_law.


(* ---- the closed form ---- *)
(* the model's state list for timing data whose first BPM is on beat zero *)
Theorem C11_states_of_domain : forall td b0 v0 rest, td_bpms td = (b0, v0) :: rest -> b0 == 0 ->
  states td = EOk (sts td v0).
Proof. exact states_is_sts. Qed.
Print Assumptions C11_states_of_domain.

(* before beat zero the first BPM applies *)
Theorem C11_before_zero : forall td v0, dom td -> forall b tag, b < 0 ->
  time_at (sts td v0) (init_state td v0) b tag == - td_offset td + b * 60 / v0.
Proof. exact time_before_zero. Qed.
Print Assumptions C11_before_zero.

(* beat zero is at minus the offset *)
Theorem C11_anchor_zero : forall td b0 v0 rest, dom td -> td_bpms td = (b0, v0) :: rest ->
  time_at (sts td v0) (init_state td v0) 0 tBPM == - td_offset td.
Proof. exact time_at_zero. Qed.
Print Assumptions C11_anchor_zero.

(* [is_rate td x c]: c seconds per beat at beat x - 0 when x lies in the union of the raw warps
   (start included, end excluded), otherwise 60 / v for the row (b, v) of BPMS with the greatest b <= x.
   [pauses_between td b1 t1 b2 t2]: the sum of the stops whose (beat, STOP_END) key and of the delays
   whose (beat, DELAY_END) key lies in ((b1,t1), (b2,t2)]. *)
Theorem C11_interval_law : forall td b0 v0 rest, dom td -> td_bpms td = (b0, v0) :: rest -> b0 == 0 ->
  forall b1 t1 b2 t2 c,
  0 <= b1 -> b1 <= b2 -> (2 <= t1)%Z -> (2 <= t2)%Z -> (b1 == b2 -> (t1 <= t2)%Z) ->
  (forall x, b1 <= x -> x < b2 -> is_rate td x c) ->
  time_at (sts td v0) (init_state td v0) b2 t2 ==
  time_at (sts td v0) (init_state td v0) b1 t1 + c * (b2 - b1) + pauses_between td b1 t1 b2 t2.
Proof. exact time_interval_law. Qed.
Print Assumptions C11_interval_law.

(* time never decreases as (beat, tag) increases, negative beats included *)
Theorem C11_time_monotone : forall td b0 v0 rest, dom td -> td_bpms td = (b0, v0) :: rest -> b0 == 0 ->
  forall b1 t1 b2 t2, b1 <= b2 -> (2 <= t1)%Z -> (2 <= t2)%Z -> (b1 == b2 -> (t1 <= t2)%Z) ->
  time_at (sts td v0) (init_state td v0) b1 t1 <= time_at (sts td v0) (init_state td v0) b2 t2.
Proof. exact time_at_monotone_all. Qed.
Print Assumptions C11_time_monotone.

(* the same two laws for every tag, WARP and WARP_END included, on beats after zero (on beat zero itself a WARP-tagged key
   precedes the initial state's) *)
Theorem C11_interval_law_all_tags : forall td b0 v0 rest, dom td -> td_bpms td = (b0, v0) :: rest -> b0 == 0 ->
  forall b1 t1 b2 t2 c,
  0 <= b1 -> b1 <= b2 -> (0 < b1 \/ (2 <= t1)%Z) -> (0 < b2 \/ (2 <= t2)%Z) -> (b1 == b2 -> (t1 <= t2)%Z) ->
  (forall x, b1 <= x -> x < b2 -> is_rate td x c) ->
  time_at (sts td v0) (init_state td v0) b2 t2 ==
  time_at (sts td v0) (init_state td v0) b1 t1 + c * (b2 - b1) + pauses_between td b1 t1 b2 t2.
Proof. exact time_interval_law_gen. Qed.
Print Assumptions C11_interval_law_all_tags.

Theorem C11_time_monotone_all_tags : forall td b0 v0 rest, dom td -> td_bpms td = (b0, v0) :: rest ->
  forall b1 t1 b2 t2, 0 <= b1 -> b1 <= b2 -> (0 < b1 \/ (2 <= t1)%Z) -> (0 < b2 \/ (2 <= t2)%Z) -> (b1 == b2 -> (t1 <= t2)%Z) ->
  time_at (sts td v0) (init_state td v0) b1 t1 <= time_at (sts td v0) (init_state td v0) b2 t2.
Proof. exact time_at_monotone_gen. Qed.
Print Assumptions C11_time_monotone_all_tags.

(* beat 0 under the tags below BPM (WARP, WARP_END): the key precedes the initial state's own key, so bisect runs on a
   list that is not sorted for it; whatever boundary it returns is a state on beat 0 at time -offset, and no delay or
   stop on beat 0 is counted (they count from their END tags on) *)
Theorem C11_zero_low_tags : forall td b0 v0 rest, dom td -> td_bpms td = (b0, v0) :: rest ->
  forall tag, (tag < 2)%Z -> time_at (sts td v0) (init_state td v0) 0 tag == - td_offset td.
Proof. exact time_at_zero_low. Qed.
Print Assumptions C11_zero_low_tags.

(* "time never decreases as (beat, tag) increases": every pair of keys - negative beats, beat 0, every tag *)
Theorem C11_time_monotone_every_key : forall td b0 v0 rest, dom td -> td_bpms td = (b0, v0) :: rest -> b0 == 0 ->
  forall b1 t1 b2 t2, b1 <= b2 -> (b1 == b2 -> (t1 <= t2)%Z) ->
  time_at (sts td v0) (init_state td v0) b1 t1 <= time_at (sts td v0) (init_state td v0) b2 t2.
Proof. exact time_at_monotone_full. Qed.
Print Assumptions C11_time_monotone_every_key.

(* inserting a BPM change that repeats the BPM already in force changes no answer: td' is td with the row (x, v)
   inserted among the BPMS, everything else equal, v the BPM in force at x in td *)
Theorem C11_redundant_bpm : forall td td' b0 v0 pre post x v,
  dom td -> dom td' ->
  td_bpms td = (b0, v0) :: pre ++ post -> td_bpms td' = (b0, v0) :: pre ++ (x, v) :: post -> b0 == 0 ->
  (td_stops td' = td_stops td /\ td_delays td' = td_delays td /\ td_warps td' = td_warps td /\ td_offset td' = td_offset td) ->
  bpm_in_force td x v ->
  forall b tag, 0 <= b -> (2 <= tag)%Z ->
  time_at (sts td' v0) (init_state td' v0) b tag == time_at (sts td v0) (init_state td v0) b tag.
Proof. exact redundant_bpm. Qed.
Print Assumptions C11_redundant_bpm.

(* the BPM reported for a beat is the value of the last BPM change at or before it (the first BPM before zero) *)
Theorem C11_bpm_at : forall td b0 v0 rest, dom td -> td_bpms td = (b0, v0) :: rest -> b0 == 0 ->
  forall b, (0 <= b -> bpm_in_force td b (bpm_at (sts td v0) (init_state td v0) b)) /\
            (b < 0 -> bpm_at (sts td v0) (init_state td v0) b = v0).
Proof.
  intros td b0 v0 rest D H E b. split; [apply (bpm_at_in_force td b0 v0 rest D H E)|apply bpm_before_zero].
Qed.
Print Assumptions C11_bpm_at.

(* the merged events are strictly ordered: no two share a (beat, tag) key *)
Theorem C11_events_strict : forall td, dom td -> StronglySorted (fun a b => ev_lt a b = true) (events td).
Proof. exact events_strict. Qed.
Print Assumptions C11_events_strict.

Theorem C11_event_tag_order :
  Tables.event_tags = [([87;65;82;80]%N, 0%Z); ([87;65;82;80;95;69;78;68]%N, 1%Z); ([66;80;77]%N, 2%Z); ([68;69;76;65;89]%N, 3%Z);
                       ([68;69;76;65;89;95;69;78;68]%N, 4%Z); ([83;84;79;80]%N, 5%Z); ([83;84;79;80;95;69;78;68]%N, 6%Z)].
Proof. reflexivity. Qed.

(* non-vacuity and a full evaluation: stop on a delay at a warp start with a BPM change inside the warp *)
Definition ex_td : tdata :=
  {| td_bpms := [(0, 120); (9 # 2, 240)]; td_stops := [(4, 1 # 2)]; td_delays := [(4, 1 # 4)]; td_warps := [(4, 2)]; td_offset := 0 |}.
Example C11_example :
  match states ex_td with
  | EOk sts =>
      let d := hd {| s_beat := 0; s_val := 0; s_tag := 0; s_time := 0; s_bpm := 1; s_warp := false |} sts in
      Qeq_bool (time_at sts d 4 tSTOP) (9 # 4) && Qeq_bool (time_at sts d 4 tSTOP_END) (11 # 4) &&
      Qeq_bool (time_at sts d 6 tSTOP) (11 # 4) && Qeq_bool (time_at sts d 7 tSTOP) 3 && Qeq_bool (bpm_at sts d 5) 240
  | _ => false end = true.
Proof. vm_compute. reflexivity. Qed.

(* non-vacuity of the interval law: on ex_td the rate is 1/2 s per beat on [0, 4), and the law gives the value computed above *)
Example C11_interval_premises :
  dom ex_td /\ (forall x, 0 <= x -> x < 4 -> is_rate ex_td x (1 # 2)) /\ (forall x, 4 <= x -> x < 6 -> is_rate ex_td x 0).
Proof.
  split; [|split].
  - constructor; unfold ex_td; cbn [td_bpms td_stops td_delays td_warps td_offset];
      try (repeat constructor; cbn; unfold Qlt, Qle; simpl; lia).
  - intros x H0 H4. right. split.
    + intros (s & l & [Hin|[]] & A & B). inversion Hin; subst. lra.
    + exists 120. split; [|reflexivity]. exists 0. split; [left; reflexivity|]. split; [exact H0|].
      intros b' v' [Hin|[Hin|[]]] Hle; inversion Hin; subst; lra.
  - intros x H4 H6. left. split; [|reflexivity]. exists 4, 2. split; [left; reflexivity|]. split; [exact H4|].
    assert (E : tick_round 2 == 2) by (vm_compute; reflexivity). rewrite E. lra.
Qed.

(* non-vacuity of the redundant-BPM law: a row (2, 120) repeats the BPM in force on ex_td *)
Definition ex_td' : tdata :=
  {| td_bpms := [(0, 120); (2, 120); (9 # 2, 240)]; td_stops := [(4, 1 # 2)]; td_delays := [(4, 1 # 4)]; td_warps := [(4, 2)]; td_offset := 0 |}.
Example C11_redundant_premises : dom ex_td' /\ bpm_in_force ex_td 2 120 /\
  Qeq_bool (match states ex_td' with EOk sts => time_at sts (init_state ex_td' 120) 7 tSTOP | _ => 0 end) 3 = true.
Proof.
  split; [|split].
  - constructor; unfold ex_td'; cbn [td_bpms td_stops td_delays td_warps td_offset];
      try (repeat constructor; cbn; unfold Qlt, Qle; simpl; lia).
  - exists 0. split; [left; reflexivity|]. split; [lra|]. intros b' v' [H|[H|[]]] Hle; inversion H; subst; lra.
  - vm_compute. reflexivity.
Qed.
