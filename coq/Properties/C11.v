From SV Require Import Engine.
Theorem C11_placeholder : True. Proof. exact I. Qed.
