"""Generators and observers shared by the simfile codec properties (C01-C06, C16, C17)."""
import glob, io, os, random

from . import lib
from .lib import S

META = "#:;\\/"
ALPHA = "#:;\\/ \n\r\tab" + "AZ09" + "é猫Ω"


# ---------------------------------------------------------------- K1 domain (mirror of Msd.safe)
def cls(c):
    return {"#": "H", ":": "C", ";": "S", "\\": "B", "/": "L"}.get(c, "nl" if c in "\r\n" else "o")


def safe(l, s):
    i = 0
    while i < len(s):
        k = cls(s[i])
        if k == "H":
            if l:
                return False
            l = False
        elif k in "CSB":
            pass
        elif k == "L":
            if i + 1 < len(s) and s[i + 1] == "/":
                if i + 2 < len(s) and s[i + 2] == "/":
                    return False
                l = False
                i += 1
            else:
                l = False
        else:
            l = (k == "nl")
        i += 1
    return True


def nl_after(l, s):
    i = 0
    while i < len(s):
        k = cls(s[i])
        if k == "H":
            l = False
        elif k in "CSB":
            pass
        elif k == "L":
            if i + 1 < len(s) and s[i + 1] == "/":
                i += 1
            l = False
        else:
            l = (k == "nl")
        i += 1
    return l


def safe_param(l, comps):
    """(all components safe given the flag the machine really has there, flag after the parameter)"""
    for c in comps:
        if not safe(l, c):
            return False, l
        l = nl_after(l, c)
    return True, l


def prop_comps(k, v):
    if v is None:
        return [k]
    if k in ("ATTACKS", "DISPLAYBPM"):
        return [k] + v.split(":")
    return [k, v]


def safe_props(l, props, skip=None):
    for k, v in props:
        if k == skip:
            continue
        ok, l = safe_param(l, prop_comps(k, v))
        if not ok:
            return False, l
        l = True                       # the "\n" the serializer writes after every parameter
    return True, l


def rand_text(rng, maxlen=12, alphabet=ALPHA):
    n = rng.choice([0, 1, 1, 2, 3, 5, maxlen])
    return "".join(rng.choice(alphabet) for _ in range(n))


def rand_value(rng, start_flag=False):
    """a value inside the property's domain (outside msdparser's escaping gaps)"""
    for _ in range(50):
        r = rng.random()
        if r < 0.15:
            v = ""
        elif r < 0.3:
            v = rng.choice(["1", "a", "0", "x", "YES"])          # short strings CPython interns
        elif r < 0.4:
            v = rng.choice(["0.000=120.000", "60:240", "*", "a:b:c", "TIME=1.5:LEN=2:MODS=drunk", ":240", "a::b",
                            "two\nlines", "cr\rlf", "x\r\n y", "0.000=120.000,\n4.000=90.000",
                            "zero\ufeffwidth", "\ufeff", "a\n \nb", "tab\t\nend", "form\x0cfeed", "line\u2028sep", "nbsp\xa0"])       # several lines, odd code points, nothing that needs escaping
        else:
            v = rand_text(rng)
        if "\r" in v:
            v = v.replace("\r", "\n") if rng.random() < 0.5 else v
        if safe(start_flag, v):
            return v
    return "v"


def is_upper(s):
    return s.upper() == s


def rand_key(rng, known):
    r = rng.random()
    if r < 0.6:
        return rng.choice(known)
    for _ in range(50):
        k = "".join(rng.choice("ABCXYZ019_ :;\\/É猫") for _ in range(rng.randrange(0, 7)))       # the empty string is an upper-case key too
        if is_upper(k) and k not in ("NOTES", "NOTEDATA") and "#" not in k and k[:1] not in ("\r", "\n") and safe(False, k) and "//" not in k:
            return k
    return "EXTRA"


SM_KEYS = ["TITLE", "SUBTITLE", "ARTIST", "BANNER", "OFFSET", "BPMS", "STOPS", "ATTACKS", "DISPLAYBPM", "BGCHANGES", "FREEZES", "ANIMATIONS", "CREDIT", "MUSIC", "SELECTABLE"]
SM_EDIT_KEYS = SM_KEYS + ["VERSION", "VERSION", "NOTES2", "NOTEDATA2", "NOTE", "VERSION 2", "VERSION-SM", "VERSION.MINOR", "VERSION ", "VERSIONS", "XVERSION"]      # an SM simfile may carry a VERSION property too
SSC_KEYS = SM_KEYS + ["VERSION", "WARPS", "DELAYS", "LABELS", "ORIGIN", "JACKET", "COMBOS"]
CHART_KEYS = ["CHARTNAME", "STEPSTYPE", "DESCRIPTION", "CHARTSTYLE", "DIFFICULTY", "METER", "RADARVALUES", "CREDIT", "BPMS", "OFFSET", "DISPLAYBPM", "ATTACKS", "MUSIC", "STOPS", "WARPS"]


def stripped(rng):
    for _ in range(20):
        v = rand_value(rng)
        if v == v.strip():
            return v
    return "x"


def rand_notes(rng, sm):
    """chart note data: equal to its own strip(); for SM the '#' exclusion also applies at the start"""
    for _ in range(50):
        v = rng.choice(["0000\n0000\n0000\n0000", "1000\n0100\n,\n0010\n0001", "", "1", "a", rand_text(rng, 20)])
        if v == v.strip() and safe(sm, v) and (not sm or not v.startswith("#")):
            return v
    return "0000"


# ---------------------------------------------------------------- observers
def sm_chart_obs(c):
    return [[c.stepstype, c.description, c.difficulty, c.meter, c.radarvalues, c.notes], list(c.extradata or [])]


def props_obs(m):
    from collections import OrderedDict
    return [[k, v] for k, v in OrderedDict.items(m)]


def sf_obs(sf):
    from simfile.sm import SMSimfile
    try:
        charts = sf.charts
    except AttributeError:
        # a simfile handed out by a loader or constructor always has its list of charts
        return ["SM" if isinstance(sf, SMSimfile) else "SSC", props_obs(sf), "the object has no charts attribute"]
    if isinstance(sf, SMSimfile):
        return ["SM", props_obs(sf), [sm_chart_obs(c) for c in charts]]
    return ["SSC", props_obs(sf), [props_obs(c) for c in charts]]


EXC = {"MSDParserError": "stray", "AssertionError": "backslash", "ValueError": "value", "KeyError": "key"}


def guarded(f):
    try:
        return ["ok", f()]
    except Exception as e:
        return ["err", EXC.get(type(e).__name__, type(e).__name__)]


# ---------------------------------------------------------------- model-side encoders/decoders
def enc_val(v):
    return [] if v is None else [v]


def enc_props(p):
    return [[k, enc_val(v)] for k, v in p]


def enc_sm(o):
    return [enc_props(o[1]), [[c[0], c[1]] for c in o[2]]]


def enc_ssc(o):
    return [enc_props(o[1]), [enc_props(c) for c in o[2]]]


def dec_val(v):
    return None if v == [] else S(v[0])


def dec_props(p):
    return [[S(k), dec_val(v)] for k, v in p]


def dec_sm(x):
    return ["SM", dec_props(x[0]), [[[S(f) for f in c[0]], [S(e) for e in c[1]]] for c in x[1]]]


def dec_ssc(x):
    return ["SSC", dec_props(x[0]), [dec_props(c) for c in x[1]]]


LRES = {1: "value", 2: "stray", 3: "backslash", 4: "key", 5: "unmodelled"}


def dec_lres(a, f):
    if a[0] == 0:
        return ["ok", f(a[1])]
    return ["err", LRES[a[0]]]


def dec_simfile(x):
    return dec_sm(x[1]) if x[0] == 0 else dec_ssc(x[1])


# ---------------------------------------------------------------- corpus
_corpus = None


def corpus_files():
    global _corpus
    if _corpus is None:
        _corpus = []
        for f in sorted(glob.glob(os.path.join(lib.REPO, "testdata", "**", "*"), recursive=True)):
            if f.lower().endswith((".sm", ".ssc")) and os.path.isfile(f):
                for enc in ("utf-8", "cp1252"):
                    try:
                        _corpus.append((os.path.relpath(f, lib.REPO), io.open(f, encoding=enc, newline=None).read()))
                        break
                    except UnicodeDecodeError:
                        continue
    return _corpus


# ---------------------------------------------------------------- random MSD texts (C03, C04)
def rand_param_text(rng, keys):
    k = rng.choice(keys + [k.lower() for k in keys[:4]] + ["Title", "notes", "NoteData", "X", "", "version"])
    r = rng.random()
    if r < 0.1:
        body = "#" + k
    elif r < 0.55:
        body = "#" + k + ":" + rand_text(rng, 10, "ab \n\r/\\:;#0123").replace("#", "\\#" if rng.random() < 0.7 else "#")
    else:
        body = "#" + k + ":" + ":".join(rng.choice(["a", "", " b ", "60", "\nx\n", "c//d", "e\\:f", "y\r\nz", "w\rv"]) for _ in range(rng.randrange(1, 9)))
    end = rng.choice([";", ";", ";", ";", "", ";;"])
    return body + end


def rand_case(rng, k):
    return rng.choice([k, k, k.lower(), k.capitalize(), k.swapcase(), "".join(rng.choice([ch.lower(), ch.upper()]) for ch in k)])


def rand_clean_text(rng, ssc):
    """well-formed text with nothing that needs escaping: only the letter case of the keys (markers included) varies"""
    val = lambda: rng.choice(["a", "b c", "12", "0.000=120.000", "x y z", "", "Easy", "one\r\ntwo", "cr\ronly", "0.000=120.000,\r\n4.000=90.000"])
    parts = []
    if ssc:
        parts.append("#%s:0.83;\n" % rand_case(rng, "VERSION"))
    for k in rng.sample(SSC_KEYS if ssc else SM_KEYS, rng.randrange(1, 5)):
        parts.append("#%s:%s;\n" % (rand_case(rng, k), val()))
    for _ in range(rng.choice([0, 1, 1, 2, 3])):
        if ssc:
            parts.append("#%s:;\n" % rand_case(rng, "NOTEDATA"))
            for k in rng.sample(CHART_KEYS[:6], rng.randrange(0, 4)):
                parts.append("#%s:%s;\n" % (rand_case(rng, k), val()))
            parts.append("#%s:\n0000\n0000\n;\n" % rand_case(rng, rng.choice(["NOTES", "NOTES", "NOTES2"])))
            if rng.random() < 0.2:
                parts.append("#%s:%s;\n" % (rand_case(rng, "CREDIT"), val()))
        else:
            parts.append("#%s:dance-single:%s:Easy:%d:0,0:\n0000\n0000\n;\n" % (rand_case(rng, "NOTES"), val(), rng.randrange(1, 20)))
    return "".join(parts)


def rand_escaped_text(rng, ssc):
    """well-formed text in which each value needs at most one kind of escape (a backslash alone, a colon alone, ...)"""
    val = lambda: rng.choice(["K\\\\O mix", "a\\\\", "\\\\", "a\\:b", "a\\;b", "x\\/\\/y", "plain", "two words", "", "\\\\n", "C:\\\\dir"])
    parts = []
    if ssc:
        parts.append("#VERSION:0.83;\n")
    for k in rng.sample(SSC_KEYS[:15] if ssc else SM_KEYS, rng.randrange(0, 4)):
        parts.append("#%s:%s;\n" % (k, val()))
    for _ in range(rng.choice([1, 1, 2, 3])):
        if ssc:
            parts.append("#NOTEDATA:;\n")
            for k in rng.sample(CHART_KEYS[:6], rng.randrange(0, 4)):
                parts.append("#%s:%s;\n" % (k, val()))
            parts.append("#NOTES:\n0000\n0000\n;\n")
        else:
            parts.append("#NOTES:dance-single:%s:Easy:%d:0,0:\n0000\n0000\n;\n" % (val(), rng.randrange(1, 20)))
    return "".join(parts)


def rand_msd_text(rng, ssc=None):
    ssc = rng.random() < 0.5 if ssc is None else ssc
    r0 = rng.random()
    if r0 < 0.2:
        return rand_clean_text(rng, ssc)
    if r0 < 0.32:
        return rand_escaped_text(rng, ssc)
    keys = (SSC_KEYS + ["NOTEDATA", "NOTES", "NOTES2"] + CHART_KEYS[:6]) if ssc else (SM_KEYS + ["NOTES", "NOTES"])
    parts = []
    if rng.random() < 0.15:
        parts.append("﻿")
    if ssc and rng.random() < 0.7:
        parts.append(rng.choice(["#VERSION:0.83;", "#version:0.7;", "#VERSION;", "#VERSION:0.83;", "# Version:0.83;", "#VERSION \n:0.83;", "#VERSION\n", "#\tVERSION:0.7;"]))      # only the exact key VERSION (any case) says SSC
    for _ in range(rng.randrange(0, 9)):
        r = rng.random()
        if r < 0.12:
            parts.append(rng.choice(["junk", " x ", ":", ";", "/", "\\a", "\\\n", "stray text\n", "﻿"]))
        elif r < 0.22:
            parts.append("// comment #X:1; \\" + rng.choice(["\n", "\r\n", ""]))
        else:
            parts.append(rand_param_text(rng, keys))
        parts.append(rng.choice(["\n", "\n", "\r\n", "", " ", "\n\n"]))
    if rng.random() < 0.3:
        comps = [rng.choice(["dance-single", "dance-single", "NOTES", "notes", " Notes "]), "", "Easy", "3", "0,0", "0000\n0000\n"][: rng.choice([6, 6, 6, 5, 6, 2])]
        if len(comps) == 6:             # extra components after the note data, blank ones and several of them included
            comps += rng.choice([[], [], [], [""], ["", ""], ["x"], ["", " ", ""], ["keysounds", " ", ""], ["\n", "\n"]])
        parts.append("#NOTES:" + ":".join(comps) + rng.choice([";", ""]))
    return "".join(parts)


def mutate_text(rng, t):
    """random edit, truncation or splice of a corpus file"""
    r = rng.random()
    if len(t) < 4:
        return t
    i = rng.randrange(len(t)); j = min(len(t), i + rng.randrange(1, 200))
    if r < 0.3:
        return t[:i]
    if r < 0.6:
        return t[:i] + t[j:]
    if r < 0.8:
        return t[:i] + rng.choice(["#", ";", ":", "\\", "//", "\n#X:y;\n", "junk"]) + t[i:]
    return t[j:] + t[:i]
