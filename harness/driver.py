"""Generic check flow: tables -> proofs -> correspondence -> search -> verdict -> evidence.

A property module (harness/props/cNN.py) provides:
  ID, TITLE, DESIGN_REF
  N_QUICK, N_THOROUGH            number of generated cases per tier
  corpus()                       iterable of cases that always run first (regressions, seeds of the corpus)
  gen(rng, i, tier)              one generated case (JSON-serialisable)
  impl(case)                     observable of the real library (JSON-serialisable, canonical)
  requests(case)                 list of sx requests for the model
  model(case, answers)           observable predicted by the model, or lib SKIP (model says Unmodelled)
  oracle(case, obs)              None, or a string: the property, restated on the real code, fails on this case
  nontrivial(case, obs)          bool
  describe(case)                 short string for the input distribution histogram
  known_probes()                 [(finding-id, text, callable -> bool still_present)]   (optional)
  shrink(case)                   iterable of smaller cases (optional)
  extra_trusted, assumptions     lists of strings
"""
import importlib, json, os, random, sys, time, traceback
from collections import Counter

from . import lib

SKIP = "__SKIP__"


def canon(x):
    return json.loads(json.dumps(x, default=str))


def safe_impl(mod, case):
    try:
        return canon(mod.impl(case))
    except BaseException as e:  # the harness itself must survive anything the library raises
        if isinstance(e, (KeyboardInterrupt,)) and not getattr(mod, "CATCH_ALL", False):
            raise
        return {"__harness_exc__": type(e).__name__, "msg": str(e)[:200]}


def safe_oracle(mod, c, io):
    """the oracle's verdict; an observed result it cannot even read (a value of a type the property rules out) is a failure of the property"""
    try:
        return mod.oracle(c, io)
    except Exception as e:
        return "the observed result has a shape the property does not allow: the oracle raised %s: %s" % (type(e).__name__, str(e)[:200])


def run_cases(mod, cases):
    """returns list of dicts {case, impl, model, agree, oracle}"""
    impls = [safe_impl(mod, c) for c in cases]
    reqs, spans = [], []
    for c in cases:
        try:
            r = mod.requests(c)
        except Exception:
            r = []             # the observed result has a shape no request can be built from: the oracle judges it, the model is not asked
        spans.append((len(reqs), len(reqs) + len(r)))
        reqs.extend(r)
    if reqs:
        answers, req_lines, out_lines = lib.run_model(reqs)
    else:
        answers, req_lines, out_lines = [], [], []
    res = []
    for c, io, (a, b) in zip(cases, impls, spans):
        try:
            mo = mod.model(c, answers[a:b])
            mo = mo if mo == SKIP else canon(mo)
        except Exception as e:
            mo = {"__model_decode_error__": repr(e), "raw": answers[a:b][:3]}
        if isinstance(mo, dict) and '__model_decode_error__' in mo:
            agree = False
        else:
            agree = (mo == SKIP) or (mod.agree(io, mo) if hasattr(mod, 'agree') else mo == io)
        orc = safe_oracle(mod, c, io)
        res.append({"case": c, "impl": io, "model": mo, "agree": agree, "oracle": orc})
    return res, req_lines, out_lines


def shrink_case(mod, case, still_bad, budget_s=20):
    if not hasattr(mod, "shrink"):
        return case
    t0 = time.time()
    cur = case
    improved = True
    while improved and time.time() - t0 < budget_s:
        improved = False
        for cand in mod.shrink(cur):
            if time.time() - t0 > budget_s:
                break
            try:
                if still_bad(cand):
                    cur = cand
                    improved = True
                    break
            except Exception:
                continue
    return cur


def main(pid, tier="quick", seed=0, replay=None):
    mod = importlib.import_module("harness.props." + pid.lower())
    replay_case = None
    if replay:
        rp = json.load(open(replay))
        replay_case = rp.get("case")
    v = lib.Verdict(pid, tier, seed, clear=not replay, tag="-replay" if replay else "")
    lockf = lib._lock()
    coverage = {}
    proof = {"obligations": 0, "discharged": 0, "error": "not built", "axioms": [], "theorems": []}
    build_error = None
    try:
        lib.regenerate_tables()
        proof = lib.compile_property(pid)
        lib.build_runner()
    except lib.BuildFailure as e:
        build_error = e
    finally:
        lockf.close()

    if build_error is not None and not os.path.exists(lib.RUNNER):
        v.violation("unproved", {"what": "build failed: " + build_error.what, "log": build_error.log[-3000:]}, no_input=True)
        v.write_evidence({"obligations": max(1, proof["obligations"]), "discharged": 0, "checker_cmd": "make (failed)", "trusted_base": lib.STD_TRUSTED,
                          "explanation": "build failure"}, [])
        return 1

    rng = random.Random(seed * 1000003 + 17)
    cases = []
    if replay:
        cases = [replay_case] if replay_case is not None else []
    else:
        cases = [canon(c) for c in mod.corpus()]
        n_corpus = len(cases)
        n = mod.N_THOROUGH if tier == "thorough" else mod.N_QUICK
        for i in range(n):
            cases.append(canon(mod.gen(rng, i, tier)))
    # ---- known findings (probed, printed, never fail the check)
    known_hashes = set()
    for kf in lib.load_known():
        if kf.get("property") == pid and kf.get("kind") == "finding":
            known_hashes.add(kf.get("id"))
    probes = getattr(mod, "known_probes", lambda: [])()
    for fid, text, still in probes:
        try:
            present = still()
        except Exception as e:
            present = True
        if fid in known_hashes:
            if present:
                v.known("%s %s" % (fid, text))
        elif present:
            v.violation("counterexample", {"what": "unlisted finding probe fails: " + text, "probe": fid})

    # ---- run implementation and model, in chunks (only summaries and the failing / disagreeing cases are kept)
    seen = set()
    distinct_nontrivial = 0
    hist = Counter()
    skipped = 0
    samples = []
    reported = 0
    MAXREP = 5
    KEEP = 40
    failing, disagreeing = [], []
    n_results = n_disagree = n_oracle = n_requests = 0
    first_case = cases[0] if cases else None
    req_lines, out_lines = [], []
    CHUNK = 2000
    for start in range(0, len(cases), CHUNK):
        results, rl, ol = run_cases(mod, cases[start:start + CHUNK])
        n_requests += len(rl)
        if len(req_lines) < 4000:
            req_lines.extend(rl)
            out_lines.extend(ol)
        for r in results:
            n_results += 1
            n_disagree += 0 if r["agree"] else 1
            n_oracle += 0 if r["oracle"] is None else 1
            h = lib.jhash(r["case"])
            hist[mod.describe(r["case"])] += 1
            if r["model"] == SKIP:
                skipped += 1
            if h not in seen:
                seen.add(h)
                if mod.nontrivial(r["case"], r["impl"]):
                    distinct_nontrivial += 1
                    if len(samples) < 4:
                        samples.append({"case": r["case"], "observed": r["impl"]})
            known_tag = getattr(mod, "known_case", lambda c, o: None)(r["case"], r["impl"])
            if known_tag and known_tag in known_hashes:
                continue
            if r["oracle"] is not None:
                if len(failing) < KEEP:
                    failing.append(r)
            elif not r["agree"]:
                if len(disagreeing) < KEEP:
                    disagreeing.append(r)
        del results

    # ---- cross-check of extraction against vm_compute
    cross = lib.vm_crosscheck(pid, req_lines, out_lines, limit=200 if tier == "thorough" else 40)

    # a concrete failing input, when the search found one, is the report; disagreements on which the oracle found
    # nothing are reported (as unproved, no failing input) only when there is no counterexample at all
    for r in failing[:MAXREP]:
        small = shrink_case(mod, r["case"], lambda c: safe_oracle(mod, c, safe_impl(mod, c)) is not None, budget_s=20 if reported == 0 else 3)
        so = safe_impl(mod, small)
        v.violation("counterexample", {"case": small, "implementation_returned": so, "why": safe_oracle(mod, small, so),
                                       "original_case": r["case"], "replay_cmd": "./check %s --replay <this file>" % pid})
        reported += 1
    if not failing:
        for r in disagreeing[:MAXREP]:
            v.violation("unproved", {"case": r["case"], "implementation_returned": r["impl"], "model_says": r["model"],
                                     "correspondence": "model %s vs simfile: observable differs; the property oracle found no failing input on this case" % pid,
                                     "theorems_no_longer_tied_to_code": proof.get("theorems", [])}, no_input=True)
            reported += 1
    if proof.get("error"):
        # a broken obligation: search already ran above; if it produced no counterexample, say so
        if not any(json.load(open(p)).get("kind") == "counterexample" for p in v.violations):
            v.violation("unproved", {"what": proof["error"], "log": proof.get("log", "")[-3000:]}, no_input=True)
    if build_error is not None:
        v.violation("unproved", {"what": "build failed: " + build_error.what, "log": build_error.log[-3000:]}, no_input=True)
    if cross.get("checked", 0) and cross.get("agree") != cross.get("checked"):
        v.violation("unproved", {"what": "extracted runner and vm_compute disagree", "detail": cross}, no_input=True)
    forbidden = lib.grep_forbidden()
    if forbidden:
        v.violation("unproved", {"what": "the development contains Admitted/admit/Axiom/Parameter/... declarations", "where": forbidden[:20]}, no_input=True)
    chk = None
    if tier == "thorough" and not proof.get("error"):
        ok_chk, axioms_txt = lib.coqchk(pid)
        chk = {"coqchk_ok": ok_chk, "axioms_reported_by_coqchk": axioms_txt[:2000]}
        if not ok_chk:
            v.violation("unproved", {"what": "coqchk rejects the compiled development", "log": axioms_txt}, no_input=True)
    allowed = set(getattr(mod, "ALLOWED_AXIOMS", []))
    bad_ax = [a for a in proof.get("axioms", []) if a not in allowed]
    if bad_ax:
        v.violation("unproved", {"what": "theorem depends on undeclared axioms", "axioms": bad_ax}, no_input=True)

    coverage = {
        "obligations": max(1, proof["obligations"]),
        "discharged": proof["discharged"],
        "checker_cmd": "make -C coq <closure of Properties/%s.vo> && coqc -R . SV Properties/%s.v  (Print Assumptions under every theorem)" % (pid, pid),
        "trusted_base": lib.STD_TRUSTED + list(getattr(mod, "extra_trusted", [])),
        "theorems": proof.get("theorems", []),
        "print_assumptions": {"closed_under_global_context": proof.get("closed", 0), "axioms": proof.get("axioms", [])},
        "evaluations": n_results,
        "distinct_nontrivial": distinct_nontrivial,
        "rule": getattr(mod, "RULE", ""),
        "samples": samples or ([{"case": first_case}] if first_case is not None else []),
        "correspondence": {"cases": n_results, "model_unmodelled_skips": skipped,
                           "disagreements": n_disagree,
                           "oracle_failures": n_oracle,
                           "model_requests": n_requests},
        "vm_compute_crosscheck": cross,
        "forbidden_declarations_found": len(forbidden),
        "coqchk": chk,
        "input_distribution": dict(hist.most_common(40)),
        "exhaustive": False,
    }
    extra_cov = getattr(mod, "extra_coverage", None)
    if extra_cov:
        coverage.update(extra_cov())
    v.write_evidence(coverage, list(getattr(mod, "assumptions", [])))
    return 1 if v.violations else 0
