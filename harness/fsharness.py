"""File-system scenarios for open / mutate (C05, C06): real runs on a temp directory or a
PyFilesystem MemoryFS, with optional fault injection addressed by meaning (open-for-write of
path X, first write to X, close of X)."""
import codecs, io, os, random, shutil, tempfile

from . import gen_simfile as G

DEFAULT_ENCODINGS = ["utf-8", "cp1252", "cp932", "cp949"]
EXC_IDS = {"RuntimeError": 1, "KeyError": 2, "KeyboardInterrupt": 3, "SystemExit": 4, "ValueError": 5, "ZeroDivisionError": 6, "GeneratorExit": 7,
           "UnicodeEncodeError": 8, "OSError": 9, "AttributeError": 10, "TypeError": 11}
LAST_RAISED = [None]           # the very object the edit script raised, for "propagates unchanged"
EXC_BY_ID = {v: k for k, v in EXC_IDS.items()}

_rep = {}


def repertoire(codec):
    """characters in the codec's decode image (what a file in that code page can contain), no controls, no MSD metacharacters"""
    if codec not in _rep:
        r = random.Random(hash(codec) & 0xffff)
        chars = set()
        if codec == "utf-8":
            chars = set("abcXYZ 09éüΩ猫한ｱ†€✓")
        else:
            for _ in range(6000):
                b = bytes([r.randrange(0x20, 0x100)]) if r.random() < 0.4 else bytes([r.randrange(0x81, 0xff), r.randrange(0x40, 0xff)])
                try:
                    s = b.decode(codec)
                except UnicodeDecodeError:
                    continue
                if len(s) == 1 and s.isprintable() and s not in "#:;\\/" and s.encode(codec).decode(codec) == s and s.upper() == s.upper().upper():
                    chars.add(s)
                if len(chars) > 300:
                    break
        _rep[codec] = sorted(chars)
    return _rep[codec]


def rand_str(rng, codec, n=None):
    rep = repertoire(codec)
    n = rng.randrange(1, 8) if n is None else n
    return "".join(rng.choice(rep) for _ in range(n))


def simfile_text(rng, fmt, codec):
    parts = []
    r = rng.random()
    # the format follows the file name, not the first key: an .ssc file need not start with VERSION, an .sm file may
    if (fmt == "ssc" and r < 0.8) or (fmt == "sm" and r < 0.12):
        parts.append("#VERSION:0.83;\n")
    parts.append("#TITLE:%s;\n" % rand_str(rng, codec))
    if fmt == "ssc" and 0.8 <= r < 0.9:
        parts.append("#VERSION:0.83;\n")
    if rng.random() < 0.7:
        parts.append("#ARTIST:%s;\n" % rand_str(rng, codec))
    parts.append("#BPMS:0.000=120.000;\n")
    if rng.random() < 0.3:
        parts.append("#SUBTITLE;\n")
    if rng.random() < 0.25:         # a Windows-style path: backslashes, written escaped in the file
        parts.append(rng.choice(["#BANNER:gfx\\\\banner.png;\n", "#BGCHANGES:0.000=..\\\\bg\\\\a.avi=1.000=1=0=0;\n", "#CDTITLE:a\\\\b;\n"]))
    if rng.random() < 0.25:         # multi-value properties, with blanks next to the colons
        parts.append(rng.choice(["#DISPLAYBPM: 120 : 240 ;\n", "#ATTACKS:TIME=1.5:LEN=2:MODS=drunk\n:  TIME=3:END=4:MODS=tipsy\n;\n", "#DISPLAYBPM:150;\n", "#ATTACKS;\n"]))
    for _ in range(rng.choice([0, 1, 1, 2, 3])):
        if fmt == "ssc":
            shape = rng.choice(["notes", "notes", "notes2", "both", "extra"])
            head = "#NOTEDATA:;\n#STEPSTYPE:dance-single;\n#CREDIT:%s;\n" % rand_str(rng, codec)
            if shape == "notes":
                parts.append(head + "#NOTES:\n0000\n0000\n;\n")
            elif shape == "notes2":          # the alias StepMania writes for keysounded charts
                parts.append(head + "#NOTES2:\n0000\n1000\n;\n")
            elif shape == "both":
                parts.append(head + "#NOTES2:\n0010\n;\n#NOTES:\n0000\n0100\n;\n")
            else:
                parts.append(head + "#DISPLAYBPM:90.000:180.000;\n#METER:%d;\n#NOTES:\n0000\n;\n" % rng.randrange(1, 20))     # charts end with their note data (C02 moves it there)
        else:
            extra = rng.choice(["", "", ":extra component", ":a:b"])
            parts.append("#NOTES:dance-single:%s:Easy:%d:0,0:\n0000\n0000\n%s;\n" % (rand_str(rng, codec), rng.randrange(1, 20), extra))
    if rng.random() < 0.3:
        parts.insert(rng.randrange(len(parts)), "// a comment\n")         # not in the library's canonical layout
    text = "".join(parts)
    r = rng.random()
    if r < 0.12:                    # a file written on Windows
        text = text.replace("\n", "\r\n")
    elif r < 0.2:                   # ... or edited on both: some line breaks CRLF, the others LF
        k = rng.randrange(1, 4)
        text = text.replace("\n", "\r\n", k)
    return text


def undecodable(rng):
    for _ in range(200):
        b = b"#TITLE:" + bytes(rng.choice([0x81, 0x8d, 0x8f, 0x90, 0x9d, 0xff, 0xfe, 0x80]) for _ in range(rng.randrange(1, 5))) + b";"
        ok = False
        for e in DEFAULT_ENCODINGS:
            try:
                b.decode(e); ok = True
            except UnicodeDecodeError:
                pass
        if not ok:
            return b
    return b"#TITLE:\x81\xff\x8d\x90;"


class FaultFile:
    def __init__(self, f, fs, path):
        self._f, self._fs, self._path = f, fs, path

    def write(self, data):
        if self._fs.fault == ("write", self._path):
            self._fs.hits += 1
            raise OSError("injected fault: write " + self._path)
        self._fs.log.append(("write", self._path))
        return self._f.write(data)

    def close(self):
        self._f.close()
        if self._fs.fault == ("close", self._path) and not getattr(self, "_closed_once", False):
            self._closed_once = True
            self._fs.hits += 1
            raise OSError("injected fault: close " + self._path)
        self._closed_once = True

    def __enter__(self):
        return self

    def __exit__(self, *a):
        self.close()
        return False

    def __getattr__(self, n):
        return getattr(self._f, n)

    def __iter__(self):
        return iter(self._f)


class FaultFS:
    """duck-typed filesystem: delegates to NativeOSFS or a PyFilesystem, failing the scheduled step"""

    def __init__(self, inner, fault=None):
        self.inner, self.fault, self.log, self.hits = inner, fault, [], 0

    def open(self, path, mode="r", **kw):
        if "w" in mode:
            if self.fault == ("open", path):
                self.hits += 1
                raise OSError("injected fault: open " + path)
            self.log.append(("open", path))
            return FaultFile(self.inner.open(path, mode, **kw), self, path)
        return self.inner.open(path, mode, **kw)

    def __getattr__(self, n):
        return getattr(self.inner, n)


def native_fs():
    """the library's own native file system object; PyFilesystem's OSFS on '/' if that private class has moved"""
    try:
        from simfile._private.nativeosfs import NativeOSFS
        return NativeOSFS()
    except Exception:
        from fs.osfs import OSFS
        return OSFS("/")


class Scenario:
    """a directory with one input file, on the native file system or in memory"""

    def __init__(self, kind, name, data):
        self.kind = kind
        if kind == "native":
            self.root = tempfile.mkdtemp(prefix="verif_fs_")
            self.inner = native_fs()
            self.sep = os.sep
        else:
            from fs.memoryfs import MemoryFS
            self.root = "/song"
            self.inner = MemoryFS()
            self.inner.makedirs(self.root)
            self.sep = "/"
        self.input = self.path(name)
        self.write_bytes(self.input, data)

    def path(self, name):
        return self.root + self.sep + name

    def write_bytes(self, p, data):
        if self.kind == "native":
            with open(p, "wb") as f:
                f.write(data)
        else:
            self.inner.writebytes(p, data)

    def snapshot(self):
        out = {}
        if self.kind == "native":
            for n in sorted(os.listdir(self.root)):
                with open(os.path.join(self.root, n), "rb") as f:
                    out[self.path(n)] = f.read().hex()
        else:
            for n in sorted(self.inner.listdir(self.root)):
                out[self.path(n)] = self.inner.readbytes(self.path(n)).hex()
        return out

    def close(self):
        if self.kind == "native":
            shutil.rmtree(self.root, ignore_errors=True)
        else:
            self.inner.close()


def text_mode_decode(data, enc, kind="native"):
    """what reading the file in text mode with this encoding gives, or None: the native file system reads with universal newlines,
    PyFilesystem's text mode hands line breaks over as they are"""
    try:
        t = data.decode(enc)
    except UnicodeDecodeError:
        return None
    return t if kind == "mem" else t.replace("\r\n", "\n").replace("\r", "\n")


def apply_ops(sf, ops):
    """edit script run inside the with-block; may raise / cancel at a position"""
    import simfile
    for op in ops:
        k = op[0]
        if k == "set":
            sf[op[1]] = op[2]
        elif k == "del":
            sf.pop(op[1], None)
        elif k == "attr":
            setattr(sf, op[1], op[2])
        elif k == "delchart":
            if sf.charts:
                del sf.charts[0]
        elif k == "dupchart":
            if sf.charts:
                import copy
                sf.charts.append(copy.deepcopy(sf.charts[0]))
        elif k == "notes":
            if sf.charts:
                sf.charts[0].notes = op[1]
        elif k == "extra":
            # extra components of an SM chart (after the note data): assigned, or extended in place
            if sf.charts and hasattr(sf.charts[0], "extradata"):
                ch = sf.charts[0]
                if op[1] == "assign" or ch.extradata is None:
                    ch.extradata = list(op[2])
                else:
                    ch.extradata.extend(op[2])
        elif k == "dropnotes":
            if sf.charts and hasattr(sf.charts[0], "pop"):
                try:
                    del sf.charts[0]["NOTES"]
                except Exception:
                    pass
        elif k == "badvalue":
            sf[op[1]] = 12345                        # not a string: cannot be serialised
        elif k == "raise":
            if op[1] == "CancelMutation":
                raise simfile.CancelMutation()
            cls = {"RuntimeError": RuntimeError, "KeyError": KeyError, "KeyboardInterrupt": KeyboardInterrupt, "SystemExit": SystemExit,
                   "ValueError": ValueError, "ZeroDivisionError": ZeroDivisionError, "GeneratorExit": GeneratorExit,
                   "OSError": OSError, "AttributeError": AttributeError, "TypeError": TypeError}.get(op[1])
            # classes the save path itself may raise are raised by the body too: they are the body's, and propagate as they are
            e = UnicodeEncodeError("ascii", "caf\xe9 from the body", 3, 4, "raised by the body") if op[1] == "UnicodeEncodeError" else cls("from the body")
            LAST_RAISED[0] = e
            raise e


# ---------------------------------------------------------------- directory trees (C19, C20)
class Tree:
    """a directory tree {name: bytes | dict} materialised on the native file system or in a MemoryFS"""

    def __init__(self, kind, tree, rootname="pack"):
        self.kind = kind
        if kind == "native":
            self.base = tempfile.mkdtemp(prefix="verif_tree_")
            self.fs = native_fs()
            self.sep = os.sep
        else:
            from fs.memoryfs import MemoryFS
            self.base = "/base"
            self.fs = MemoryFS()
            self.fs.makedirs(self.base)
            self.sep = "/"
        self.root = self.base + self.sep + rootname
        self._mk(self.root, tree)

    def _mk(self, path, node):
        if self.kind == "native":
            os.makedirs(path, exist_ok=True)
        else:
            self.fs.makedirs(path, recreate=True)
        for name, child in node.items():
            p = path + self.sep + name
            if isinstance(child, dict):
                self._mk(p, child)
            elif self.kind == "native":
                with open(p, "wb") as f:
                    f.write(child)
            else:
                self.fs.writebytes(p, child)

    def listdir(self, path):
        # the listing order the property speaks of is the operating system's, not what the library's adapter makes of it
        if self.kind == "native":
            return list(os.listdir(path))
        return list(self.fs.listdir(path))

    def isdir(self, path):
        return self.fs.isdir(path)

    def rel(self, p):
        if p is None:
            return None
        if os.sep == "\\":                         # only where the backslash is the separator; elsewhere it is an ordinary character of a name
            p = p.replace("\\", "/")
        b = self.base.replace("\\", "/") if os.sep == "\\" else self.base
        return p[len(b):] if p.startswith(b) else "ABS:" + p

    def close(self):
        if self.kind == "native":
            shutil.rmtree(self.base, ignore_errors=True)
        else:
            self.fs.close()
