import argparse, os, sys
from . import driver

def main():
    ap = argparse.ArgumentParser()
    ap.add_argument("pid")
    ap.add_argument("--tier", default=os.environ.get("VERIF_TIER", "quick"))
    ap.add_argument("--replay", default=None)
    a = ap.parse_args()
    seed = int(os.environ.get("VERIF_SEED", "0") or 0)
    rc = driver.main(a.pid.upper(), a.tier, seed, a.replay)
    sys.exit(rc)

main()
