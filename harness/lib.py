"""Shared machinery: build, model runner, correspondence driver, verdict, evidence."""
import fcntl, hashlib, json, os, random, re, subprocess, sys, time, traceback

VERIF = os.path.dirname(os.path.dirname(os.path.abspath(__file__)))
REPO = os.environ.get("VERIF_REPO", "/repo")
COQ = os.path.join(VERIF, "coq")
BUILD = os.path.join(VERIF, "build")
RUNNER = os.path.join(BUILD, "runner")
REPLAYS = os.path.join(VERIF, "replays")
EVIDENCE = os.path.join(VERIF, "evidence")
NCPU = min(16, os.cpu_count() or 4)

STD_TRUSTED = [
    "Coq 8.16.1 kernel (coqc; coqchk in the thorough tier); vm_compute; no native_compute",
    "hand-written Gallina model of the code, tied to /repo only by this run's correspondence check and the regenerated Generated/Tables.v",
    "extraction (ExtrOcamlBasic only, no Extract Constant) + Extract/driver.ml, cross-checked against vm_compute on a sample each run",
    "Python harness (generators, canonicaliser, oracle), CPython 3.12, msdparser 2.0.0, PyFilesystem2",
]


# ---------------------------------------------------------------- sx wire
def _plain(x):
    """nested python value -> nested lists of ints (strings become code point lists); None if a big int needs the slow path"""
    if isinstance(x, bool):
        return 1 if x else 0
    if isinstance(x, int):
        if -(1 << 60) < x < (1 << 60):
            return x
        raise OverflowError
    if isinstance(x, str):
        return list(map(ord, x))
    if x is None:
        return []
    return [_plain(y) for y in x]


_TR_ENC = str.maketrans({"[": "(", "]": ")", ",": " "})
_TR_DEC = str.maketrans({"(": "[", ")": "]", " ": ","})


def enc(x):
    try:
        return json.dumps(_plain(x), separators=(",", ":")).translate(_TR_ENC)
    except OverflowError:
        out = []
        _enc(x, out)
        return "".join(out)


def _enc(x, out):
    if isinstance(x, bool):
        out.append("1" if x else "0")
    elif isinstance(x, int):
        if -(1 << 60) < x < (1 << 60):
            out.append(str(x))
        elif x > 0:
            out.append("x%x" % x)
        else:
            out.append("-x%x" % -x)
    elif isinstance(x, str):
        out.append("(" + " ".join(str(ord(c)) for c in x) + ")")
    elif x is None:
        out.append("()")
    else:
        out.append("(")
        first = True
        for y in x:
            if not first:
                out.append(" ")
            first = False
            _enc(y, out)
        out.append(")")


_tok = re.compile(r"\(|\)|[^\s()]+")


def dec(s):
    if "x" not in s:
        return json.loads(s.translate(_TR_DEC))
    stack = [[]]
    for t in _tok.findall(s):
        if t == "(":
            stack.append([])
        elif t == ")":
            l = stack.pop()
            stack[-1].append(l)
        else:
            if t.startswith("x"):
                stack[-1].append(int(t[1:], 16))
            elif t.startswith("-x"):
                stack[-1].append(-int(t[2:], 16))
            else:
                stack[-1].append(int(t))
    return stack[0][0]


def S(l):
    """decode a model string (list of code points)"""
    return "".join(map(chr, l))


def opt(x):
    """encode Optional for un_opt"""
    return [] if x is None else [x]


# ---------------------------------------------------------------- build
class BuildFailure(Exception):
    def __init__(self, what, log):
        self.what, self.log = what, log


def _run(cmd, cwd=None, timeout=1800, env=None):
    p = subprocess.run(cmd, cwd=cwd, timeout=timeout, capture_output=True, text=True, env=env)
    return p.returncode, p.stdout + p.stderr


def _lock():
    os.makedirs(BUILD, exist_ok=True)
    f = open(os.path.join(BUILD, ".lock"), "w")
    fcntl.flock(f, fcntl.LOCK_EX)
    return f


def regenerate_tables():
    """Generated/Tables.v from the imported /repo modules (rewritten only when changed)."""
    env = dict(os.environ, PYTHONPATH=REPO, PYTHONHASHSEED="0")
    ut = os.path.join(COQ, "Generated", "UnicodeTables.v")
    stamp = "(* python %s *)" % sys.version.split()[0]
    if not os.path.exists(ut) or stamp not in open(ut).readline():
        rc, out = _run([sys.executable, os.path.join(VERIF, "harness", "unitables.py")], env=env)
        if rc != 0:
            raise BuildFailure("unitables.py", out)
    rc, out = _run([sys.executable, os.path.join(VERIF, "harness", "tables.py")], env=env)
    if rc != 0:
        raise BuildFailure("tables.py (import of /repo failed)", out)


def ensure_makefile():
    mk = os.path.join(COQ, "Makefile")
    cp = os.path.join(COQ, "_CoqProject")
    if not os.path.exists(mk) or os.path.getmtime(mk) < os.path.getmtime(cp):
        rc, out = _run(["coq_makefile", "-f", "_CoqProject", "-o", "Makefile"], cwd=COQ)
        if rc != 0:
            raise BuildFailure("coq_makefile", out)


def make(targets, jobs=NCPU, timeout=3000):
    ensure_makefile()
    rc, out = _run(["make", "-j%d" % jobs] + targets, cwd=COQ, timeout=timeout)
    os.makedirs(os.path.join(BUILD, "logs"), exist_ok=True)
    open(os.path.join(BUILD, "logs", "make-" + re.sub(r"\W", "_", targets[0])[-40:] + ".log"), "w").write(out)
    if rc != 0:
        raise BuildFailure("make " + " ".join(targets), out)
    return out


def build_runner():
    """Extract Dispatch.run and compile the OCaml runner when any model source is newer."""
    srcs = [os.path.join(COQ, "Model", f) for f in os.listdir(os.path.join(COQ, "Model")) if f.endswith(".v")]
    srcs += [os.path.join(COQ, "Generated", f) for f in os.listdir(os.path.join(COQ, "Generated")) if f.endswith(".v")]
    srcs += [os.path.join(COQ, "Extract", "driver.ml"), os.path.join(COQ, "Extract", "Extract.v")]
    newest = max(os.path.getmtime(s) for s in srcs)
    if os.path.exists(RUNNER) and os.path.getmtime(RUNNER) >= newest:
        return
    make(["Model/Dispatch.vo"])
    ex = os.path.join(BUILD, "extract")
    os.makedirs(ex, exist_ok=True)
    rc, out = _run(["coqc", "-R", COQ, "SV", os.path.join(COQ, "Extract", "Extract.v"), "-o", os.path.join(ex, "Extract.vo")], cwd=ex, timeout=600)
    if rc != 0:
        raise BuildFailure("extraction", out)
    import shutil
    shutil.copy(os.path.join(COQ, "Extract", "driver.ml"), ex)
    rc, out = _run(["ocamlfind", "ocamlopt", "-O3", "-w", "-a", "model.mli", "model.ml", "driver.ml", "-o", RUNNER + ".tmp"], cwd=ex, timeout=600)
    if rc != 0:
        raise BuildFailure("ocamlopt", out)
    os.replace(RUNNER + ".tmp", RUNNER)


def compile_property(pid):
    """Build the proof closure of Properties/<pid>.v, then compile that file itself,
    capturing Print Assumptions. Returns dict(obligations, discharged, assumptions, log, error)."""
    src = os.path.join(COQ, "Properties", pid + ".v")
    text = open(src).read()
    thms = re.findall(r"^\s*(?:Theorem|Example)\s+(\w+)", text, re.M)
    res = {"theorems": thms, "obligations": len(thms), "discharged": 0, "axioms": [], "error": None, "closed": 0}
    # dependencies
    rc, out = _run(["coqdep", "-R", ".", "SV", "Properties/%s.v" % pid], cwd=COQ)
    deps = re.findall(r"(\S+\.vo)", out.split(":", 1)[1]) if ":" in out else []
    deps = [d for d in deps if not d.startswith("/") and d != "Properties/%s.vo" % pid]
    try:
        if deps:
            make(deps)
    except BuildFailure as e:
        m = re.search(r'File "\./([^"]+)", line (\d+)', e.log)
        res["error"] = "dependency build failed" + (" in %s line %s" % (m.group(1), m.group(2)) if m else "")
        res["log"] = e.log[-3000:]
        return res
    rc, out = _run(["coqc", "-R", ".", "SV", "-w", "-notation-overridden", "Properties/%s.v" % pid], cwd=COQ, timeout=1200)
    res["log"] = out[-6000:]
    closed = len(re.findall(r"Closed under the global context", out))
    axioms = re.findall(r"^Axioms:\n((?:.+\n)+?)(?=\n|\Z)", out, re.M)
    res["closed"] = closed
    for blk in axioms:
        for line in blk.splitlines():
            m = re.match(r"^(\S+)\s*:", line)
            if m:
                res["axioms"].append(m.group(1))
    if rc != 0:
        m = re.search(r'line (\d+)', out)
        line = int(m.group(1)) if m else 0
        res["discharged"] = len(re.findall(r"^\s*(?:Theorem|Example)\s+\w+", "\n".join(text.splitlines()[: max(0, line - 1)]), re.M))
        # the failing theorem is the last one that starts at or before the error line
        before = re.findall(r"^\s*(?:Theorem|Example)\s+(\w+)", "\n".join(text.splitlines()[:line]), re.M)
        res["discharged"] = max(0, len(before) - 1)
        res["error"] = "Properties/%s.v: %s does not check (line %d)" % (pid, before[-1] if before else "?", line)
    else:
        res["discharged"] = len(thms)
    return res


# ---------------------------------------------------------------- model execution
def run_model(reqs, shards=NCPU):
    """reqs: list of python objects (sx requests). Returns list of decoded answers."""
    if not reqs:
        return []
    lines = [enc(r) for r in reqs]
    n = len(lines)
    shards = max(1, min(shards, n // 50 or 1))
    per = (n + shards - 1) // shards
    procs = []
    for i in range(shards):
        chunk = lines[i * per:(i + 1) * per]
        if not chunk:
            continue
        p = subprocess.Popen(["sh", "-c", "ulimit -s unlimited 2>/dev/null; exec " + RUNNER], stdin=subprocess.PIPE, stdout=subprocess.PIPE, text=True)
        procs.append((p, chunk))
    outs = []
    import threading
    results = [None] * len(procs)

    def work(i, p, chunk):
        o, _ = p.communicate("\n".join(chunk) + "\n")
        results[i] = o

    ths = [threading.Thread(target=work, args=(i, p, c)) for i, (p, c) in enumerate(procs)]
    for t in ths:
        t.start()
    for t in ths:
        t.join()
    for (p, chunk), o in zip(procs, results):
        ls = o.splitlines()
        if len(ls) != len(chunk):
            raise RuntimeError("model runner died: %d answers for %d requests (rc=%s)" % (len(ls), len(chunk), p.returncode))
        outs.extend(ls)
    return [dec(l) for l in outs], lines, outs


def coq_literal(x):
    if isinstance(x, int):
        return "A (%d)" % x
    return "L [" + "; ".join(coq_literal(y) for y in x) + "]"


def vm_crosscheck(pid, req_lines, out_lines, limit=60, max_chars=200000):
    """Re-evaluate a sample of requests with vm_compute inside Coq and compare with the runner's answers."""
    picked, total = [], 0
    idx = list(range(len(req_lines)))
    random.Random(12345).shuffle(idx)
    for i in idx:
        r, o = req_lines[i], out_lines[i]
        if len(r) + len(o) > 6000:
            continue
        picked.append((dec(r), dec(o)))
        total += len(r) + len(o)
        if len(picked) >= limit or total > max_chars:
            break
    if not picked:
        return {"checked": 0, "agree": 0}
    d = os.path.join(BUILD, "cross")
    os.makedirs(d, exist_ok=True)
    name = "Cross_%s_%d" % (pid, os.getpid())
    src = ["From Coq Require Import List ZArith.", "From SV Require Import Sx Dispatch.", "Import ListNotations.", "Open Scope Z_scope."]
    src.append("Definition cases : list (sx * sx) := [")
    src.append(";\n".join("(%s, %s)" % (coq_literal(r), coq_literal(o)) for r, o in picked))
    src.append("].")
    src.append("Definition verdicts := map (fun c => sx_eqb (dispatch_request (fst c)) (snd c)) cases.")
    src.append("Definition n_agree := length (filter (fun b => b) verdicts).")
    src.append("Eval vm_compute in n_agree.")
    open(os.path.join(d, name + ".v"), "w").write("\n".join(src) + "\n")
    rc, out = _run(["sh", "-c", "ulimit -s unlimited 2>/dev/null; exec coqc -R %s SV %s.v" % (COQ, name)], cwd=d, timeout=900)
    for ext in (".v", ".vo", ".vok", ".vos", ".glob"):
        try:
            os.remove(os.path.join(d, name + ext))
        except OSError:
            pass
    m = re.search(r"=\s*(\d+)", out)
    if rc != 0 or not m:
        return {"checked": len(picked), "agree": -1, "log": out[-1500:]}
    return {"checked": len(picked), "agree": int(m.group(1))}


# ---------------------------------------------------------------- verdict / evidence
def jhash(x):
    return hashlib.sha1(json.dumps(x, sort_keys=True, default=str).encode()).hexdigest()


class Verdict:
    def __init__(self, pid, tier, seed, clear=True, tag=""):
        self.pid, self.tier, self.seed, self.tag = pid, tier, seed, tag
        self.t0 = time.time()
        self.violations = []  # (replay path, suffix)
        self.known_lines = []
        self.n = 0
        os.makedirs(REPLAYS, exist_ok=True)
        import glob
        if clear:
            for old in glob.glob(os.path.join(REPLAYS, "%s-%d-*.json" % (pid, seed))):
                os.remove(old)

    def violation(self, kind, payload, no_input=False):
        self.n += 1
        path = os.path.join(REPLAYS, "%s%s-%d-%d.json" % (self.pid, self.tag, self.seed, self.n))
        payload = dict(payload, property=self.pid, kind=kind, seed=self.seed)
        json.dump(payload, open(path, "w"), indent=1, default=str)
        line = "VIOLATION property=%s replay=%s" % (self.pid, path)
        if no_input:
            line += " no-failing-input-found"
        print(line, flush=True)
        self.violations.append(path)

    def known(self, text):
        line = "KNOWN-FINDING: property=%s %s" % (self.pid, text)
        print(line, flush=True)
        self.known_lines.append(line)

    def write_evidence(self, coverage, assumptions):
        os.makedirs(EVIDENCE, exist_ok=True)
        ev = {
            "property_id": self.pid,
            "tier": self.tier,
            "seed": self.seed,
            "level": "proof",
            "coverage": coverage,
            "assumptions": assumptions,
            "wall_s": round(time.time() - self.t0, 2),
            "violations": len(self.violations),
        }
        tmp = os.path.join(EVIDENCE, self.pid + ".json.tmp")
        json.dump(ev, open(tmp, "w"), indent=1, default=str)
        os.replace(tmp, os.path.join(EVIDENCE, self.pid + ".json"))


def load_known():
    p = os.path.join(VERIF, "known_findings.jsonl")
    out = []
    if os.path.exists(p):
        for l in open(p):
            l = l.strip()
            if l and not l.startswith("#"):
                out.append(json.loads(l))
    return out


def exc_class(e):
    """canonical exception identity: the class name (never the message)"""
    return type(e).__name__


FORBIDDEN = re.compile(r"\b(Admitted|admit|Axiom|Axioms|Parameter|Parameters|Conjecture|Hypothesis|Variable)\b|Unset Guard|bypass_check|type-in-type|impredicative-set|Admit Obligations")


def grep_forbidden():
    """Admitted/admit/Axiom/Parameter/Conjecture/... anywhere in the development (Variable/Hypothesis are
    allowed inside a Section only). Returns a list of offending 'file:line: text'."""
    bad = []
    for root, _, files in os.walk(COQ):
        for f in files:
            if not f.endswith(".v"):
                continue
            depth = 0
            path = os.path.join(root, f)
            in_comment = 0
            for i, line in enumerate(open(path, encoding="utf-8", errors="replace"), 1):
                code = re.sub(r"\(\*.*?\*\)", "", line)
                if "(*" in code and "*)" not in code:
                    in_comment += 1
                    code = code.split("(*")[0]
                elif in_comment and "*)" in code:
                    in_comment -= 1
                    code = code.split("*)", 1)[1]
                elif in_comment:
                    continue
                if re.match(r"\s*Section\b", code):
                    depth += 1
                if re.match(r"\s*End\b", code) and depth:
                    depth -= 1
                m = FORBIDDEN.search(code)
                if m:
                    word = m.group(0)
                    if word in ("Variable", "Variables", "Hypothesis") and depth > 0:
                        continue
                    if word in ("Parameter", "Parameters") and ("MSDParameter" in line):
                        continue
                    bad.append("%s:%d: %s" % (os.path.relpath(path, VERIF), i, line.strip()[:120]))
    return bad


def coqchk(pid):
    """independent re-check of the compiled property file and everything it depends on; returns (ok, axioms text)"""
    rc, out = _run(["coqchk", "-silent", "-o", "-R", COQ, "SV", "SV.Properties." + pid], cwd=COQ, timeout=3000)
    m = re.search(r"\* Axioms:(.*?)(?:\n\* |\Z)", out, re.S)
    return rc == 0, (m.group(1).strip() if m else out[-1500:])
