"""Generators shared by the note-data properties (C07, C08, C09, C10, C13)."""
import glob, os, random
from fractions import Fraction

from . import lib

NOTE_CHARS = "1234AFKLM"
ROWS = [1, 2, 3, 4, 4, 4, 5, 8, 8, 12, 16, 24, 32, 48, 64, 192]


def rand_grid(rng, max_players=3, max_measures=4, keysounds=True, cols=None):
    cols = cols or rng.choice([1, 2, 3, 4, 4, 4, 5, 6, 8, 10, 16])
    players = rng.choice([1, 1, 1, 2, 3][: max(1, max_players + 2)]) if max_players > 1 else 1
    density = rng.choice([0.05, 0.2, 0.5])
    g = []
    for _ in range(players):
        ms = []
        for _ in range(rng.randrange(1, max_measures + 1)):
            rows = rng.choice(ROWS)
            if rows > 48 and rng.random() < 0.7:
                rows = rng.choice(ROWS[:10])
            r = rng.random()
            if r < 0.08:
                rows = rng.randrange(1, 200)                      # "any rows per measure": not only the usual subdivisions
            elif r < 0.11 and cols <= 6:
                rows = 48 * rng.choice([3, 5, 6, 8, 12, 16])      # finer than the 1/48 tick grid
            m = []
            for _ in range(rows):
                row = []
                for _ in range(cols):
                    if rng.random() < density:
                        ks = rng.randrange(0, 300) if keysounds and rng.random() < 0.15 else None
                        row.append([rng.choice(NOTE_CHARS), ks])
                    else:
                        row.append("0")
                m.append(row)
            ms.append(m)
        g.append(ms)
    return g


def cell_str(c):
    if c == "0":
        return "0"
    return c[0] + ("" if c[1] is None else "[%d]" % c[1])


def render_grid(g, noise_seed=0):
    """a well-formed text for the grid; noise adds blanks around rows, blank lines around measures
    and separators, CRLF. noise_seed 0 = canonical layout."""
    r = random.Random(noise_seed)
    noisy = noise_seed != 0
    nl = "\r\n" if noisy and r.random() < 0.4 else "\n"

    def pad():
        return r.choice(["", "", " ", "  ", "\t"]) if noisy else ""

    def blank_lines():
        return "".join(pad() + nl for _ in range(r.choice([0, 0, 1, 2]))) if noisy else ""

    players = []
    for ms in g:
        measures = []
        for m in ms:
            rows = [pad() + "".join(cell_str(c) for c in row) + pad() for row in m]
            measures.append(blank_lines() + nl.join(rows) + nl + blank_lines())
        players.append(("," + (nl if not noisy or r.random() < 0.8 else "")).join(measures))
    return ("&" + nl).join(players)


def expected_notes(g):
    """the property's formula, straight from the grid: [num, den, col, type, player, keysound]"""
    out = []
    for p, ms in enumerate(g):
        for m, rows in enumerate(ms):
            n = len(rows)
            for l, row in enumerate(rows):
                for c, cell in enumerate(row):
                    if cell != "0":
                        b = Fraction(4 * m * n + 4 * l, n)
                        out.append([b.numerator, b.denominator, c, cell[0], p, cell[1]])
    return out


def note_obs(n):
    b = Fraction(n.beat)
    return [b.numerator, b.denominator, n.column, n.note_type.value, n.player, n.keysound_index]


def mk_note(o):
    from simfile.notes import Note, NoteType
    from simfile.timing import Beat
    return Note(beat=Beat(o[0], o[1]), column=o[2], note_type=NoteType(o[3]), player=o[4], keysound_index=o[5])


def sx_note(o):
    return [o[0], o[1], o[2], ord(o[3]), o[4], [] if o[5] is None else [o[5]]]


def un_sx_note(x):
    b = Fraction(x[0], x[1])
    return [b.numerator, b.denominator, x[2], chr(x[3]), x[4], None if x[5] == [] else x[5][0]]


_corpus = None


def corpus_charts():
    """(file, chart index, notes text) for every chart of the repository's testdata"""
    global _corpus
    if _corpus is None:
        import simfile
        _corpus = []
        for f in sorted(glob.glob(os.path.join(lib.REPO, "testdata", "**", "*.s*"), recursive=True)):
            if not f.lower().endswith((".sm", ".ssc")):
                continue
            try:
                sf = simfile.open(f)
            except Exception:
                continue
            for i, ch in enumerate(sf.charts):
                if ch.notes:
                    _corpus.append((os.path.relpath(f, lib.REPO), i, ch.notes))
    return _corpus


def rand_stream(rng, cols=None, players=None, max_notes=40, denoms=None, types=NOTE_CHARS, keysounds=True):
    """a position-sorted note stream with at most one note per (player, beat, column)"""
    cols = cols or rng.choice([1, 2, 3, 4, 4, 4, 6, 8, 16])
    players = players if players is not None else rng.choice([[0], [0], [0], [0, 1], [1], [0, 2], [0, 1, 2], [2]])
    denoms = denoms or rng.choice([[1, 2, 4], [1, 2, 3, 4, 6, 8, 12, 16, 24, 48], [1, 4, 5, 7, 10], [3, 8], [1, 48, 64], [1, 8, 125], [1]])
    seen = set()
    out = []
    span = rng.choice([1, 2, 4, 12]) if max(denoms) < 100 else rng.choice([1, 2])
    for _ in range(rng.randrange(0, max_notes)):
        p = rng.choice(players)
        d = rng.choice(denoms)
        b = Fraction(rng.randrange(0, 4 * span * d), d)
        c = rng.randrange(cols)
        if (p, b, c) in seen:
            continue
        seen.add((p, b, c))
        ks = rng.randrange(0, 100) if keysounds and rng.random() < 0.12 else None
        out.append([b.numerator, b.denominator, c, rng.choice(types), p, ks])
    out.sort(key=lambda o: (o[4], Fraction(o[0], o[1]), o[2]))
    return cols, out
