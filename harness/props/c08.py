"""C08 - notes written to note data read back identically, in canonical form."""
from fractions import Fraction
from math import gcd
from functools import reduce

from ..driver import SKIP
from ..lib import S
from .. import gen_notes as G

ID = "C08"
N_QUICK, N_THOROUGH = 1200, 60000
RULE = ("position-sorted random streams (1..16 columns, players 0..2 with gaps, denominators on and off the tick grid, mixed in a measure, skipped "
        "measures, all types, keysounds), handed over as list / tuple / iterator / generator / filter object / NoteData (canonical text or not), the empty stream in each of these forms, the notes of every corpus chart and of C07-style generated texts; compares the text of "
        "NoteData.from_notes with the model's encoder and the decoded notes; non-trivial = at least 2 notes")
assumptions = ["input beats are reduced fractions (Fraction normalises them)"]
extra_trusted = []


def corpus():
    out = [{"k": "stream", "cols": 4, "notes": []}, {"k": "stream", "cols": 1, "notes": []}]
    # a beat whose denominator exceeds a million (a measure of four million rows): too large a text for the extracted model, judged by the oracle alone
    out.append({"k": "stream", "cols": 1, "notes": [[2, 1000003, 0, "1", 0, None]], "via": "list", "big": True})
    out += [{"k": "stream", "cols": 4, "notes": [], "via": v} for v in VIAS[1:]]                    # an empty stream that is not a sized container
    out += [{"k": "stream", "cols": 4, "notes": [[0, 1, 0, "1", 0, None], [1, 2, 3, "M", 0, None]], "via": v} for v in VIAS[1:]]
    out += [{"k": "corpus", "i": i} for i in range(len(G.corpus_charts()))]
    out.append({"k": "stream", "cols": 4, "notes": [[0, 1, 0, "1", 0, None], [1, 1, 1, "1", 2, None]]})          # gap player regression
    out.append({"k": "stream", "cols": 2, "notes": [[1, 8, 0, "1", 0, None], [1, 3, 1, "1", 0, None]]})          # lcm 24 -> 96 rows
    out.append({"k": "stream", "cols": 2, "notes": [[9, 1, 1, "M", 1, 0]]})
    return out


VIAS = ["list", "iter", "gen", "tuple", "filter", "notedata", "notedata_raw"]        # how the stream reaches from_notes (it takes any iterable)


def gen(rng, i, tier):
    via = rng.choice(VIAS) if rng.random() < 0.4 else "list"
    if rng.random() < 0.2:
        g = G.rand_grid(rng, max_measures=3)
        return {"k": "stream", "cols": len(g[0][0][0]), "notes": G.expected_notes(g), "via": via}
    cols, ns = G.rand_stream(rng)
    if rng.random() < 0.05:
        ns = []
    return {"k": "stream", "cols": cols, "notes": ns, "via": via}


def as_stream(notes, via, cols):
    if via == "iter":
        return iter(notes)
    if via == "gen":
        return (n for n in notes)
    if via == "tuple":
        return tuple(notes)
    if via == "filter":
        return filter(lambda n: True, notes)
    if via == "notedata":
        from simfile.notes import NoteData
        return NoteData.from_notes(notes, cols)                 # a NoteData is itself an iterable of its notes
    if via == "notedata_raw":
        # a NoteData holding the same notes in a text that is not the canonical one: indented rows, each followed by an empty row
        from simfile.notes import NoteData
        lines = []
        for ln in str(NoteData.from_notes(notes, cols)).split("\n"):
            if ln.strip() in (",", "&", ""):
                lines.append(ln)
            else:
                lines.append("  " + ln)
                lines.append("0" * cols)
        return NoteData("\n".join(lines))
    return notes


def stream_of(c):
    if c["k"] == "corpus":
        from simfile.notes import NoteData
        nd = NoteData(G.corpus_charts()[c["i"]][2])
        return nd.columns, [G.note_obs(n) for n in nd]
    return c["cols"], c["notes"]


def impl(c):
    from simfile.notes import NoteData
    cols, ns = stream_of(c)
    # call history: the same positions met earlier in the process as inexact numbers (floats snap to the tick, fractions do not)
    from simfile.timing import Beat
    from fractions import Fraction
    for o in ns[:40]:
        f = Fraction(o[0], o[1])
        for x in (float(f), float(f % 4)):
            try:
                Beat(x)
            except Exception:
                pass
    nd = NoteData.from_notes(as_stream([G.mk_note(o) for o in ns], c.get("via", "list"), cols), cols)
    text = str(nd)
    next(iter(nd), None)                       # an abandoned partial pass first
    back = [G.note_obs(n) for n in nd]
    again = str(NoteData.from_notes(list(nd), nd.columns))
    return {"text": text, "back": back, "columns": nd.columns, "again_same": again == text}


def requests(c):
    if c.get("big"):
        return []
    cols, ns = stream_of(c)
    return [[80, cols, [G.sx_note(o) for o in ns]]]


def model(c, ans):
    if c.get("big"):
        return SKIP
    a = ans[0]
    assert a[0] == 0
    if a[1] == []:
        return SKIP
    cols, ns = stream_of(c)
    return {"text": S(a[1][0]), "back": ns, "columns": cols, "again_same": True}   # back/again: theorems of the model, checked on the code by the oracle


def oracle(c, o):
    if "__harness_exc__" in o:
        return "library raised %s" % o["__harness_exc__"]
    cols, ns = stream_of(c)
    if o["back"] != ns:
        return "notes read back differ: %s... vs %s..." % ([x for x, y in zip(o["back"], ns) if x != y][:2] or len(o["back"]), [y for x, y in zip(o["back"], ns) if x != y][:2] or len(ns))
    if o["columns"] != cols:
        return "columns %s != %s" % (o["columns"], cols)
    if not o["again_same"]:
        return "rebuilding note data from its own notes changes the text"
    # measures present, minimal rows
    players = o["text"].split("&")
    want_players = (max(n[4] for n in ns) + 1) if ns else 1
    if len(players) != want_players:
        return "%d player sections, expected %d" % (len(players), want_players)
    for p, sec in enumerate(players):
        measures = sec.split(",")
        pn = [n for n in ns if n[4] == p]
        last = max((Fraction(n[0], n[1]) // 4 for n in pn), default=0)
        if len(measures) != last + 1:
            return "player %d has %d measures, expected %d" % (p, len(measures), last + 1)
        for m, mt in enumerate(measures):
            rows = mt.strip().splitlines()
            dens = [n[1] for n in pn if Fraction(n[0], n[1]) // 4 == m]
            q = reduce(lambda a, b: a * b // gcd(a, b), dens, 1)
            if len(rows) != 4 * q:
                return "player %d measure %d has %d rows, minimal is %d" % (p, m, len(rows), 4 * q)
    return None


def nontrivial(c, o):
    return isinstance(o, dict) and len(o.get("back", [])) >= 2


def describe(c):
    if c["k"] == "corpus":
        return "corpus"
    ns = c["notes"]
    return "cols%d/players%s/n%d/%s" % (c["cols"], "".join(str(p) for p in sorted({n[4] for n in ns})), 10 * (len(ns) // 10), c.get("via", "list"))


def shrink(c):
    if c["k"] != "stream":
        return
    ns = c["notes"]
    for i in range(len(ns)):
        yield dict(c, notes=ns[:i] + ns[i + 1:])
